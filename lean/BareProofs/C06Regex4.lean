import BareProofs.C06Regex3
import BareProofs.C06Regex4Lemmas

/-!
# C06Regex4 — `include`, `function`, and the hypothesis-free cascade
-/

namespace C06Regex
open Rx Text Scan RxPatterns

theorem none_orElse_s (x : Option Shape) : (none <|> x) = x := by simp
theorem orElse_none_s (x : Option Shape) : (x <|> none) = x := by cases x <;> simp

/-! ## `include` -/

/-- **`^\s*include\s+(?P<delim>\')(?P<url>(?:\\\'|[^\'])*)\'\s*$` or `^\s*include\s+(?P<delim><)(?P<url>[^>]*)>\s*$`**, the
quoted url through `_R_EXPR_STRING_ESCAPE.sub('\\1', url)`. -/
theorem include_regex (line : Chars) (hnl : '\n' ∉ line) : onLine include? line = rxInclude line := by
  unfold onLine rxInclude matchAt matchFrom include_ includeSystem
  rw [lead _ _ _ (rejects_kw isSpace "include" 'i' "nclude".toList rfl (by decide) _ _), seq_m,
    kw_match "include" 'i' "nclude".toList rfl,
    lead _ _ _ (rejects_kw isSpace "include" 'i' "nclude".toList rfl (by decide) _ _), seq_m,
    kw_match "include" 'i' "nclude".toList rfl]
  unfold include?
  have hs : '\n' ∉ lstripL line := not_mem_dropWhile hnl
  cases hk : keyword? "include" (lstripL line) with
  | none => rfl
  | some r =>
    have hr : '\n' ∉ r := noNL_keyword hs hk
    have hd : line.drop ((line.takeWhile isSpace).length + "include".length) = r := by
      rw [← List.drop_drop, drop_ind, keyword?_drop hk]
    simp only []
    unfold elit lit
    rw [delim_prefix true '\'' (by decide), delim_prefix false '<' (by decide)]
    cases hw : ws1? r with
    | none => rfl
    | some xt =>
      cases xt with
      | nil => rfl
      | cons x t =>
        have hdx := ws1?_drop hw
        have ht : '\n' ∉ t := by
          have : '\n' ∉ r.drop (nameOff r) := not_mem_drop hr
          rw [hdx] at this; exact fun hm => this (List.mem_cons_of_mem _ hm)
        have hdt : line.drop ((line.takeWhile isSpace).length + "include".length + nameOff r + 1) = t := by
          rw [← List.drop_drop, ← List.drop_drop, hd, hdx]; rfl
        simp only []
        by_cases h1 : x = '\''
        · subst h1
          simp only [if_true, show ¬ ('\'' = '<') from by decide, if_false, Option.bind_none, orElse_none_s]
          have hq := quoted_tail ((line.takeWhile isSpace).length + "include".length + nameOff r + 1) t
            [(1, (line.takeWhile isSpace).length + "include".length + nameOff r,
              (line.takeWhile isSpace).length + "include".length + nameOff r + 1)] ht
          unfold quoteB elit at hq
          rw [hq]
          cases hD : t.reverse.dropWhile isSpace with
          | nil =>
            rw [quoteEnd_none_of_rev (fun br h => by rw [hD] at h; cases h)]; rfl
          | cons y br =>
            by_cases hy : y = '\''
            · subst hy
              obtain ⟨tr, htr, e⟩ := decomp_of_rev_q hD
              simp only []
              generalize br.reverse = body at e
              subst e
              rw [quoteEnd_decomp tr htr]
              by_cases hb : quotesEscaped body = true
              · have hg := slice_prefix line ((line.takeWhile isSpace).length + "include".length + nameOff r + 1) _ body
                  ('\'' :: tr) hdt rfl
                simp [hb, St.group, St.span, List.lookup, hg, sub1_esc, Shape.shift]
              · simp [hb]
            · have hne : ∀ br', y :: br = '\'' :: br' → False := fun br' h => hy (List.cons.inj h).1
              rw [quoteEnd_none_of_rev (fun br' h => by rw [hD] at h; exact hne br' h)]
              simp only [hne, hy]
              rfl
        · by_cases h2 : x = '<'
          · subst h2
            simp only [h1, if_false, if_true, Option.bind_none, none_orElse_s]
            have hsys := system_tail ((line.takeWhile isSpace).length + "include".length + nameOff r + 1) t
              [(1, (line.takeWhile isSpace).length + "include".length + nameOff r,
                (line.takeWhile isSpace).length + "include".length + nameOff r + 1)] ht
            unfold lit at hsys
            rw [hsys]
            have hsplit := List.takeWhile_append_dropWhile (p := (· != '>')) (l := t)
            cases hdw : t.dropWhile (· != '>') with
            | nil => rfl
            | cons g tail =>
              simp only []
              by_cases ha : allSpace tail = true
              · rw [hdw] at hsplit
                have hg := slice_prefix line ((line.takeWhile isSpace).length + "include".length + nameOff r + 1) _
                  (t.takeWhile (· != '>')) (g :: tail) (by rw [hdt]; exact hsplit.symm) rfl
                simp [ha, St.group, St.span, List.lookup, hg, Shape.shift]
              · simp [ha]
          · have hne1 : ∀ t', some (x :: t) = some ('\'' :: t') → False := fun t' h => h1 (List.cons.inj (Option.some.inj h)).1
            have hne2 : ∀ t', some (x :: t) = some ('<' :: t') → False := fun t' h => h2 (List.cons.inj (Option.some.inj h)).1
            simp only [hne1, hne2, h1, h2, if_false]
            rfl

example : '\n' ∉ " include  'it\\'s\\\\'  ".toList ∧
    rxInclude " include  'it\\'s\\\\'  ".toList = some (.include "it's\\".toList false) := by decide +kernel
example : rxInclude "include <a.bare> ".toList = some (.include "a.bare".toList true) ∧ rxInclude "include 'a' 'b'".toList = none := by
  decide +kernel

/-! ## the cascade, with what is proved so far -/

/-- `Scan.shape` = the regex cascade of parser.py (`RxPatterns.rxShape`).

Full statement: `∀ line, '\n' ∉ line → shape line = rxShape line`.  PROVED for every statement pattern except
`_R_SCRIPT_FUNCTION_BEGIN`, whose equality is the only remaining hypothesis (compared with the real `re` by the streams
`rx-scan` / `rx-read`).  For `function` the engine pieces are done in `C06Regex4Lemmas` (`args_loop`: the starred
`(?:\s*,\s*ident)*` = `Scan.argsLoop`; `K5_eval`: `(?P<lastArgArray>\s*\.\.\.)?\s*\)\s*:\s*$`; `K4_eval`, `ws_K4`: the optional
argument group behind `\(\s*`); missing: `_R_SCRIPT_FUNCTION_ARG_SPLIT.split(args)` = the identifier list, the optional
`async` group, and the assembly with the reading of the four groups. -/
theorem shape_is_cascade_partial4 (line : Chars) (hnl : '\n' ∉ line)
    (hFunction : onLine funcBegin? line = rxFunction line) :
    shape line = rxShape line :=
  shape_is_cascade_partial3 line hnl hFunction (include_regex line hnl)

end C06Regex
