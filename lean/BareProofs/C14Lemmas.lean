import BareModel.Json

/-! Helper lemmas for C14 (characters, escapes, the clean-up scanner, digits). -/

namespace C14
open Json

/-! ### hex digits -/

theorem hexDigit_props : ∀ k, k < 16 →
    hexDigit k ≠ '"' ∧ hexDigit k ≠ '\\' ∧ hexDigit k ≠ '\n' ∧ hexVal (hexDigit k) = some k := by
  decide

theorem hex4Val_hex4 (n : Nat) (h : n < 65536) :
    hex4Val (hexDigit (n / 4096 % 16)) (hexDigit (n / 256 % 16)) (hexDigit (n / 16 % 16)) (hexDigit (n % 16)) = some n := by
  have h1 := (hexDigit_props (n / 4096 % 16) (by omega)).2.2.2
  have h2 := (hexDigit_props (n / 256 % 16) (by omega)).2.2.2
  have h3 := (hexDigit_props (n / 16 % 16) (by omega)).2.2.2
  have h4 := (hexDigit_props (n % 16) (by omega)).2.2.2
  simp only [hex4Val, h1, h2, h3, h4]
  congr 1; omega

/-! ### escape / unescape of one character -/

theorem sur (n : Nat) (h : 65536 ≤ n) : 65536 + (n - 65536) / 1024 * 1024 + (n - 65536) % 1024 = n := by
  have := Nat.div_add_mod' (n - 65536) 1024
  omega
theorem sur2 (n : Nat) (h : 65536 ≤ n) (h' : n < 1114112) :
   55296 + (n - 65536) / 1024 < 65536 ∧ 56320 + (n - 65536) % 1024 < 65536 ∧ 55296 ≤ 55296 + (n - 65536) / 1024 ∧ 55296 + (n - 65536) / 1024 < 56320
   ∧ 56320 ≤ 56320 + (n - 65536) % 1024 ∧ 56320 + (n - 65536) % 1024 < 57344 := by omega

theorem char_valid (c : Char) : c.toNat < 0xd800 ∨ (0xdfff < c.toNat ∧ c.toNat < 0x110000) := by
  have := c.valid
  simp only [Char.toNat, UInt32.isValidChar, Nat.isValidChar] at *
  omega

/-- what a decoder needs to know about the escape `e` of the character `c` -/
def EscOK (c : Char) (e : Str) : Prop :=
  ∀ tail, escStep (e ++ tail) = some (c, tail) ∧ ∃ h t, e ++ tail = h :: t ∧ h ≠ '"'

theorem escOK_plain (c : Char) (h1 : c ≠ '"') (h2 : c ≠ '\\') (h : 32 ≤ c.toNat) : EscOK c [c] := by
  intro tail
  have : ¬ c.toNat < 32 := by omega
  simp [escStep, h1, h2, this]

theorem escOK_bmp (c : Char) (h : c.toNat < 65536) : EscOK c ('\\' :: 'u' :: hex4 c.toNat) := by
  intro tail
  have hv := char_valid c
  have h1 : ¬ (55296 ≤ c.toNat ∧ c.toNat < 56320) := by omega
  have h2 : ¬ (56320 ≤ c.toNat ∧ c.toNat < 57344) := by omega
  simp [hex4, escStep, uEsc, hex4Val_hex4 c.toNat h, h1, h2]

theorem escStep_pair (hi lo : Nat) (hhi : hi < 65536) (hlo : lo < 65536) (h1 : 55296 ≤ hi ∧ hi < 56320)
    (h2 : 56320 ≤ lo ∧ lo < 57344) (tail : Str) :
    escStep ('\\' :: 'u' :: (hex4 hi ++ '\\' :: 'u' :: (hex4 lo ++ tail))) =
      some (Char.ofNat (65536 + (hi - 55296) * 1024 + (lo - 56320)), tail) := by
  simp only [hex4, escStep, uEsc, lowEsc, List.cons_append, List.nil_append, hex4Val_hex4 _ hhi, hex4Val_hex4 _ hlo]
  simp [h1, h2]

theorem sur3 (n : Nat) (h : 65536 ≤ n) :
    65536 + (55296 + (n - 65536) / 1024 - 55296) * 1024 + (56320 + (n - 65536) % 1024 - 56320) = n := by
  have := Nat.div_add_mod' (n - 65536) 1024
  omega

theorem escOK_astral (c : Char) (h : ¬ c.toNat < 65536) :
    EscOK c ('\\' :: 'u' :: hex4 (0xd800 + (c.toNat - 0x10000) / 1024) ++ '\\' :: 'u' :: hex4 (0xdc00 + (c.toNat - 0x10000) % 1024)) := by
  intro tail
  have hv := char_valid c
  obtain ⟨hhi, hlo, h1a, h1b, h2a, h2b⟩ := sur2 c.toNat (by omega) (by omega)
  refine ⟨?_, ?_⟩
  · simp only [List.append_assoc, List.cons_append]
    rw [escStep_pair _ _ hhi hlo ⟨h1a, h1b⟩ ⟨h2a, h2b⟩, sur3 _ (by omega)]
    simp
  · exact ⟨'\\', _, rfl, by decide⟩

theorem escOK_escChar (c : Char) : EscOK c (escChar c) := by
  unfold escChar
  split
  · subst_vars; intro tail; simp [escStep, simpleEsc]
  split
  · subst_vars; intro tail; simp [escStep, simpleEsc]
  split
  · subst_vars; intro tail; simp [escStep, simpleEsc]
  split
  · subst_vars; intro tail; simp [escStep, simpleEsc]
  split
  · subst_vars; intro tail; simp [escStep, simpleEsc]
  split
  · subst_vars; intro tail; simp [escStep, simpleEsc]
  split
  · subst_vars; intro tail; simp [escStep, simpleEsc]
  split
  · rename_i h1 h2 _ _ _ _ _ h
    exact escOK_plain c h1 h2 h.1
  split
  · exact escOK_bmp c ‹_›
  · exact escOK_astral c ‹_›

/-! ### string round trip -/

theorem escChar_ne_nil (c : Char) : escChar c ≠ [] := by
  intro h
  obtain ⟨_, hh, t, he, _⟩ := escOK_escChar c []
  rw [h] at he; cases he

theorem escBody_length (s : Str) : s.length ≤ (escBody s).length := by
  induction s with
  | nil => simp [escBody]
  | cons c s ih =>
    have := List.length_pos_iff.mpr (escChar_ne_nil c)
    simp only [escBody, List.length_append, List.length_cons]; omega

theorem unescF_body (s rest : Str) : ∀ f, s.length < f → unescF f (escBody s ++ '"' :: rest) = some (s, rest) := by
  induction s with
  | nil => intro f hf; cases f with
    | zero => cases hf
    | succ f => simp [escBody, unescF]
  | cons c s ih =>
    intro f hf
    cases f with
    | zero => cases hf
    | succ f =>
      obtain ⟨h1, hh, t, he, hne⟩ := escOK_escChar c (escBody s ++ '"' :: rest)
      simp only [escBody, List.append_assoc]
      rw [he, unescF, if_neg hne, ← he, h1]
      simp only [List.length_cons] at hf
      simp [ih f (by omega), consFst]

/-- **the escape / unescape round trip** for every string over every Unicode scalar value -/
theorem unesc_body (s rest : Str) : unesc (escBody s ++ '"' :: rest) = some (s, rest) := by
  unfold unesc
  apply unescF_body
  have := escBody_length s
  simp only [List.length_append, List.length_cons]; omega

/-! ### the clean-up scanner on string literals -/

/-- what the clean-up scanner needs to know about a piece `e` of a literal body -/
def LitOK (e : Str) : Prop :=
  ∀ tail, litClosesAux false (e ++ tail) = litClosesAux false tail ∧ clean .lit (e ++ tail) = e ++ clean .lit tail

theorem litOK_bs (x : Char) (hx : x ≠ '\n') : LitOK ['\\', x] := by
  intro tail; simp [litClosesAux, clean, hx]

theorem litOK_plain (c : Char) (h1 : c ≠ '"') (h2 : c ≠ '\\') : LitOK [c] := by
  intro tail; simp [litClosesAux, clean, h1, h2]

theorem LitOK.append {a b : Str} (ha : LitOK a) (hb : LitOK b) : LitOK (a ++ b) := by
  intro tail
  rw [List.append_assoc, (ha _).1, (ha _).2, (hb _).1, (hb _).2]; simp

theorem litOK_hex4 (n : Nat) : LitOK (hex4 n) := by
  have h (k : Nat) (hk : k < 16) : LitOK [hexDigit k] :=
    litOK_plain _ (hexDigit_props k hk).1 (hexDigit_props k hk).2.1
  have := ((h (n / 4096 % 16) (by omega)).append (h (n / 256 % 16) (by omega))).append
    ((h (n / 16 % 16) (by omega)).append (h (n % 16) (by omega)))
  simpa [hex4] using this

theorem litOK_u (n : Nat) : LitOK ('\\' :: 'u' :: hex4 n) := by
  have := (litOK_bs 'u' (by decide)).append (litOK_hex4 n)
  simpa using this

theorem litOK_escChar (c : Char) : LitOK (escChar c) := by
  unfold escChar
  repeat' split
  all_goals first
    | exact litOK_bs _ (by decide)
    | exact litOK_plain _ ‹_› ‹_›
    | exact litOK_u _
    | exact (litOK_u _).append (litOK_u _)

theorem litOK_escBody (s : Str) : LitOK (escBody s) := by
  induction s with
  | nil => intro tail; simp [escBody]
  | cons c s ih => exact (litOK_escChar c).append ih

/-- **a string literal is copied verbatim, whatever follows it** -/
theorem clean_encStr (s rest : Str) : clean .out (encStr s ++ rest) = encStr s ++ clean .out rest := by
  have h := litOK_escBody s ('"' :: rest)
  simp only [encStr, List.cons_append, List.append_assoc, List.nil_append]
  simp [clean, litCloses, h.1, h.2, litClosesAux]

/-! ### the clean-up scanner on punctuation and numbers -/

/-- the text after a number: nothing, or a terminator (`,` `]` `}` or white space) -/
def Follow : Str → Prop
  | [] => True
  | c :: _ => isTerm c = true

/-- text without quotes and dots: the scanner copies it -/
def Plain (p : Str) : Prop := ∀ c ∈ p, c ≠ '"' ∧ c ≠ '.'

theorem clean_plain (p : Str) (hp : Plain p) (rest : Str) : clean .out (p ++ rest) = p ++ clean .out rest := by
  induction p with
  | nil => rfl
  | cons c p ih =>
    have hc := hp c (by simp)
    simp [clean, hc.1, hc.2, ih (fun d hd => hp d (by simp [hd]))]

theorem Plain.append {a b : Str} (ha : Plain a) (hb : Plain b) : Plain (a ++ b) := by
  intro c hc; rcases List.mem_append.mp hc with h | h
  · exact ha c h
  · exact hb c h

theorem isTerm_ne {c : Char} (h : isTerm c = true) : c ≠ '0' ∧ c ≠ '"' ∧ c ≠ '.' := by
  refine ⟨?_, ?_, ?_⟩ <;> (rintro rfl; revert h; decide)

theorem clean_dot0 (rest : Str) (h : Follow rest) : clean .out ('.' :: '0' :: rest) = clean .out rest := by
  cases rest with
  | nil => simp [clean, dotZeroMatch, afterZeros]
  | cons c r =>
    have ht : isTerm c = true := h
    obtain ⟨h0, hq, hd⟩ := isTerm_ne ht
    simp [clean, dotZeroMatch, afterZeros, h0, hq, hd, ht]

theorem digit_mem {c : Char} (h : isDigit c = true) : c ∈ ['0', '1', '2', '3', '4', '5', '6', '7', '8', '9'] := by
  have h' := Char.isDigit_iff_toNat.mp h
  have e := Char.ofNat_toNat c
  have : c.toNat = 48 ∨ c.toNat = 49 ∨ c.toNat = 50 ∨ c.toNat = 51 ∨ c.toNat = 52 ∨ c.toNat = 53 ∨ c.toNat = 54 ∨
      c.toNat = 55 ∨ c.toNat = 56 ∨ c.toNat = 57 := by
    have h1 : 48 ≤ c.toNat := h'.1
    have h2 : c.toNat ≤ 57 := h'.2
    omega
  rcases this with h | h | h | h | h | h | h | h | h | h <;> (rw [h] at e; rw [← e]; decide)

theorem isDigit_props {c : Char} (h : isDigit c = true) :
    c ≠ '"' ∧ c ≠ '.' ∧ isTerm c = false ∧ c ≠ '-' ∧ isNumChar c = true ∧ isWs c = false := by
  have hm := digit_mem h
  have key : ∀ d ∈ ['0', '1', '2', '3', '4', '5', '6', '7', '8', '9'],
      d ≠ '"' ∧ d ≠ '.' ∧ isTerm d = false ∧ d ≠ '-' ∧ isNumChar d = true ∧ isWs d = false := by decide
  exact key c hm

/-! ### digits -/

theorem allDigits_iff (ds : Str) : allDigits ds = true ↔ ∀ c ∈ ds, isDigit c = true := by
  induction ds with
  | nil => simp [allDigits]
  | cons c ds ih => simp [allDigits, ih]

theorem natText_digits (n : Nat) : allDigits (natText n) = true :=
  (allDigits_iff _).mpr fun _ hc => Nat.isDigit_of_mem_toDigits (by decide) (by decide) hc

theorem natText_ne_nil (n : Nat) : natText n ≠ [] := Nat.toDigits_ne_nil

theorem plain_of_digits {ds : Str} (h : allDigits ds = true) : Plain ds :=
  fun c hc => ⟨(isDigit_props ((allDigits_iff ds).mp h c hc)).1, (isDigit_props ((allDigits_iff ds).mp h c hc)).2.1⟩

theorem td_append (cs : Str) : (takeDigits cs).1 ++ (takeDigits cs).2 = cs := by
  induction cs with
  | nil => rfl
  | cons c cs ih => simp only [takeDigits]; split <;> simp [ih]

theorem td_all (cs : Str) : allDigits (takeDigits cs).1 = true := by
  induction cs with
  | nil => rfl
  | cons c cs ih => simp only [takeDigits]; split <;> simp_all [allDigits]

theorem plain_sign (neg : Bool) : Plain (signText neg) := by
  cases neg <;> simp [signText, Plain]

theorem plain_intText (n : Int) : Plain (intText n) := by
  cases n with
  | ofNat n => exact plain_of_digits (natText_digits n)
  | negSucc n =>
    intro c hc
    simp only [intText, List.mem_cons] at hc
    rcases hc with rfl | hc
    · decide
    · exact plain_of_digits (natText_digits _) c hc

/-! ### the clean-up scanner on numbers -/

theorem afterZeros_false (xs rest : Str) (h : allDigits xs = true)
    (hx : xs.any (· != '0') = true ∨ ∃ c r, rest = c :: r ∧ c ≠ '0' ∧ isTerm c = false) :
    afterZeros (xs ++ rest) = false := by
  induction xs with
  | nil =>
    rcases hx with hx | ⟨c, r, rfl, h0, ht⟩
    · simp at hx
    · simp [afterZeros, h0, ht]
  | cons x xs ih =>
    simp only [allDigits, Bool.and_eq_true] at h
    by_cases hx0 : x = '0'
    · subst hx0
      simp only [List.cons_append, afterZeros, if_true]
      apply ih h.2
      rcases hx with hx | hx
      · left; simpa using hx
      · right; exact hx
    · simp [afterZeros, hx0, (isDigit_props h.1).2.2.1]

theorem dotZeroMatch_false (xs rest : Str) (h : allDigits xs = true)
    (hx : xs.any (· != '0') = true ∨ ∃ c r, rest = c :: r ∧ c ≠ '0' ∧ isTerm c = false) :
    dotZeroMatch (xs ++ rest) = false := by
  cases xs with
  | nil =>
    rcases hx with hx | ⟨c, r, rfl, h0, ht⟩
    · simp at hx
    · simp [dotZeroMatch, h0]
  | cons x xs =>
    simp only [allDigits, Bool.and_eq_true] at h
    by_cases hx0 : x = '0'
    · subst hx0
      simp only [List.cons_append, dotZeroMatch, if_true]
      apply afterZeros_false xs rest h.2
      rcases hx with hx | hx
      · left; simpa using hx
      · right; exact hx
    · simp [dotZeroMatch, hx0]

theorem reprExp_plain {x : Str} (h : reprExp x = true) :
    Plain x ∧ ∃ r, x = 'e' :: r ∧ (∀ c ∈ x, isNumChar c = true) := by
  match x, h with
  | e :: s :: d1 :: d2 :: ds, h =>
    simp only [reprExp, Bool.and_eq_true, Bool.or_eq_true, beq_iff_eq] at h
    obtain ⟨⟨⟨⟨rfl, hs⟩, h1⟩, h2⟩, h3⟩ := h
    have hds := (allDigits_iff ds).mp h3
    refine ⟨?_, _, rfl, ?_⟩
    · intro c hc
      simp only [List.mem_cons] at hc
      rcases hc with rfl | rfl | rfl | rfl | hc
      · decide
      · rcases hs with rfl | rfl <;> decide
      · exact ⟨(isDigit_props h1).1, (isDigit_props h1).2.1⟩
      · exact ⟨(isDigit_props h2).1, (isDigit_props h2).2.1⟩
      · exact ⟨(isDigit_props (hds c hc)).1, (isDigit_props (hds c hc)).2.1⟩
    · intro c hc
      simp only [List.mem_cons] at hc
      rcases hc with rfl | rfl | rfl | rfl | hc
      · decide
      · rcases hs with rfl | rfl <;> decide
      · exact (isDigit_props h1).2.2.2.2.1
      · exact (isDigit_props h2).2.2.2.2.1
      · exact (isDigit_props (hds c hc)).2.2.2.2.1

theorem validInt_ne_nil {ds : Str} (h : validInt ds = true) : ds ≠ [] := by
  rintro rfl; simp [validInt] at h

theorem stripSign_shape (t : Str) : ∃ sg, t = sg ++ stripSign t ∧ (sg = [] ∨ sg = ['-']) := by
  cases t with
  | nil => exact ⟨[], rfl, .inl rfl⟩
  | cons c r =>
    simp only [stripSign]
    split
    · subst_vars; exact ⟨['-'], rfl, .inr rfl⟩
    · exact ⟨[], rfl, .inl rfl⟩

/-- the shape of a `repr` text that is not of the form `D+.0` -/
theorem reprDec_shape (t : Str) (h : reprDec t = true) :
    ∃ sg ds tl, t = sg ++ (ds ++ tl) ∧ (sg = [] ∨ sg = ['-']) ∧ allDigits ds = true ∧ ds ≠ [] ∧
      ((∃ fs tl2, tl = '.' :: (fs ++ tl2) ∧ allDigits fs = true ∧
          ((tl2 = [] ∧ fs.any (· != '0') = true) ∨ reprExp tl2 = true)) ∨ reprExp tl = true) := by
  simp only [reprDec, Bool.and_eq_true] at h
  obtain ⟨hv, ht⟩ := h
  obtain ⟨sg, hsg, hs⟩ := stripSign_shape t
  refine ⟨sg, (takeDigits (stripSign t)).1, (takeDigits (stripSign t)).2, ?_, hs, td_all _, validInt_ne_nil hv, ?_⟩
  · rw [td_append]; exact hsg
  · generalize (takeDigits (stripSign t)).2 = tl at ht
    generalize ((takeDigits (stripSign t)).1.length == 1) = one at ht
    cases tl with
    | nil => simp [reprTail] at ht
    | cons c r =>
      simp only [reprTail] at ht
      split at ht
      · subst_vars
        left
        refine ⟨(takeDigits r).1, (takeDigits r).2, by rw [td_append], td_all _, ?_⟩
        simp only [Bool.and_eq_true] at ht
        have ht2 := ht.2
        split at ht2
        · left; exact ⟨by simpa using ‹(takeDigits r).2.isEmpty = true›, ht2⟩
        · right; simp only [Bool.and_eq_true] at ht2; exact ht2.2
      · split at ht
        · right; simp only [Bool.and_eq_true] at ht; exact ht.2
        · cases ht

/-- a `repr` text is copied by the clean-up scanner -/
theorem clean_dec (t rest : Str) (h : reprDec t = true) : clean .out (t ++ rest) = t ++ clean .out rest := by
  obtain ⟨sg, ds, tl, rfl, hsg, hds, _, htl⟩ := reprDec_shape t h
  have psg : Plain sg := by rcases hsg with rfl | rfl <;> simp [Plain]
  rcases htl with ⟨fs, tl2, rfl, hfs, h2⟩ | he
  · have pfs := plain_of_digits hfs
    have p2 : Plain tl2 := by
      rcases h2 with ⟨rfl, _⟩ | he
      · simp [Plain]
      · exact (reprExp_plain he).1
    have hdz : dotZeroMatch (fs ++ (tl2 ++ rest)) = false := by
      apply dotZeroMatch_false fs _ hfs
      rcases h2 with ⟨rfl, ha⟩ | he
      · left; exact ha
      · right
        obtain ⟨_, r, rfl, _⟩ := reprExp_plain he
        exact ⟨'e', r ++ rest, rfl, by decide, by decide⟩
    simp only [List.append_assoc, List.cons_append]
    rw [clean_plain sg psg, clean_plain ds (plain_of_digits hds)]
    simp only [clean, hdz]
    rw [clean_plain fs pfs, clean_plain tl2 p2]
    simp
  · simp only [List.append_assoc]
    rw [clean_plain sg psg, clean_plain ds (plain_of_digits hds), clean_plain tl (reprExp_plain he).1]

/-- stage 2 on one number token: `repr` text in, spec text out -/
theorem clean_num (n : JNum) (hn : ∀ t, n = .dec t → reprDec t = true) (rest : Str) (hf : Follow rest) :
    clean .out (numRepr n ++ rest) = numSpec n ++ clean .out rest := by
  cases n with
  | int k => exact clean_plain _ (plain_intText k) rest
  | fint neg k =>
    simp only [numRepr, numSpec, List.append_assoc, List.cons_append, List.nil_append]
    rw [clean_plain _ (plain_sign neg), clean_plain _ (plain_of_digits (natText_digits k)), clean_dot0 rest hf]
  | dec t => exact clean_dec t rest (hn t rfl)

/-! ### induction over values (`JValue` is a nested inductive) -/
section
variable {P : JValue → Prop}
  (hnull : P .null) (hbool : ∀ b, P (.bool b)) (hnum : ∀ n, P (.num n)) (hstr : ∀ s, P (.str s))
  (harr : ∀ xs, (∀ x ∈ xs, P x) → P (.arr xs)) (hobj : ∀ kvs : List (Str × JValue), (∀ p ∈ kvs, P p.2) → P (.obj kvs))
include hnull hbool hnum hstr harr hobj
set_option linter.unusedSectionVars false

mutual
theorem valInd : ∀ v, P v
  | .null => hnull
  | .bool b => hbool b
  | .num n => hnum n
  | .str s => hstr s
  | .arr xs => harr xs (valIndList xs)
  | .obj kvs => hobj kvs (valIndMembers kvs)
theorem valIndList : ∀ xs : List JValue, ∀ x ∈ xs, P x
  | [] => fun _ h => nomatch h
  | y :: ys => List.forall_mem_cons.mpr ⟨valInd y, valIndList ys⟩
theorem valIndMembers : ∀ kvs : List (Str × JValue), ∀ p ∈ kvs, P p.2
  | [] => fun _ h => nomatch h
  | (_, v) :: kvs => List.forall_mem_cons.mpr ⟨valInd v, valIndMembers kvs⟩
end
end

theorem encList_eq (f : JNum → Str) (ind lvl : Nat) (xs : List JValue) :
    encList f ind lvl xs = xs.map (encWith f ind lvl) := by
  induction xs with
  | nil => simp [encList]
  | cons x xs ih => simp [encList, ih]

theorem encMembers_eq (f : JNum → Str) (ind lvl : Nat) (kvs : List (Str × JValue)) :
    encMembers f ind lvl kvs = kvs.map (fun p => (p.1, encWith f ind lvl p.2)) := by
  induction kvs with
  | nil => simp [encMembers]
  | cons p kvs ih => obtain ⟨k, v⟩ := p; simp [encMembers, ih]

theorem normList_eq (xs : List JValue) : normList xs = xs.map norm := by
  induction xs with
  | nil => simp [normList]
  | cons x xs ih => simp [normList, ih]

theorem normMembers_eq (kvs : List (Str × JValue)) : normMembers kvs = kvs.map (fun p => (p.1, norm p.2)) := by
  induction kvs with
  | nil => simp [normMembers]
  | cons p kvs ih => obtain ⟨k, v⟩ := p; simp [normMembers, ih]

theorem wfList_iff (xs : List JValue) : WFList xs ↔ ∀ x ∈ xs, WF x := by
  induction xs with
  | nil => simp [WFList]
  | cons x xs ih => simp [WFList, ih]

theorem wfMembers_iff (kvs : List (Str × JValue)) : WFMembers kvs ↔ ∀ p ∈ kvs, WF p.2 := by
  induction kvs with
  | nil => simp [WFMembers]
  | cons p kvs ih => obtain ⟨k, v⟩ := p; simp [WFMembers, ih]

/-! ### sorting by key -/

theorem insertKey_map {α β} (g : α → β) (p : Str × α) (l : List (Str × α)) :
    insertKey (p.1, g p.2) (l.map fun q => (q.1, g q.2)) = (insertKey p l).map fun q => (q.1, g q.2) := by
  induction l with
  | nil => simp [insertKey]
  | cons q qs ih =>
    simp only [List.map_cons, insertKey]
    split <;> simp [ih]

theorem sortKeys_map {α β} (g : α → β) (l : List (Str × α)) :
    sortKeys (l.map fun q => (q.1, g q.2)) = (sortKeys l).map fun q => (q.1, g q.2) := by
  induction l with
  | nil => simp [sortKeys]
  | cons p ps ih => simp only [List.map_cons, sortKeys, ih]; exact insertKey_map g p _

theorem mem_insertKey {α} (p x : Str × α) (l : List (Str × α)) : x ∈ insertKey p l ↔ x = p ∨ x ∈ l := by
  induction l with
  | nil => simp [insertKey]
  | cons q qs ih =>
    simp only [insertKey]
    split
    · simp only [List.mem_cons, ih]; exact ⟨fun h => by rcases h with h | h | h <;> simp [h], fun h => by rcases h with h | h | h <;> simp [h]⟩
    · simp

theorem mem_sortKeys {α} (x : Str × α) (l : List (Str × α)) : x ∈ sortKeys l ↔ x ∈ l := by
  induction l with
  | nil => simp [sortKeys]
  | cons p ps ih => simp [sortKeys, mem_insertKey, ih]

theorem sortKeys_ne_nil {α} (p : Str × α) (ps : List (Str × α)) : sortKeys (p :: ps) ≠ [] := by
  intro h
  have : p ∈ sortKeys (p :: ps) := (mem_sortKeys p _).mpr (by simp)
  rw [h] at this; cases this


/-! ### stage 2 over the layout of stage 1 -/

theorem plain_nl (ind lvl : Nat) : Plain (nl ind lvl) := by
  unfold nl; split
  · simp [Plain]
  · intro c hc
    simp only [List.mem_cons, List.mem_replicate] at hc
    rcases hc with rfl | ⟨_, rfl⟩ <;> decide

theorem plain_colon (ind : Nat) : Plain (colon ind) := by
  unfold colon; split <;> (intro c hc; simp at hc; rcases hc with rfl | rfl <;> decide)

theorem follow_nl (ind lvl : Nat) (c : Char) (hc : isTerm c = true) (r : Str) : Follow (nl ind lvl ++ c :: r) := by
  unfold nl; split
  · exact hc
  · show isTerm '\n' = true; decide

/-- `SegF m s`: the scanner turns the piece `m` into `s` whenever a terminator (or nothing) follows -/
def SegF (m s : Str) : Prop := ∀ rest, Follow rest → clean .out (m ++ rest) = s ++ clean .out rest

theorem clean_join {α} (fm fs : α → Str) (sep : Str) (hsep : Plain sep) (hsepF : ∀ r, Follow (sep ++ r)) :
    ∀ xs : List α, (∀ x ∈ xs, SegF (fm x) (fs x)) → SegF (joinItems sep (xs.map fm)) (joinItems sep (xs.map fs))
  | [], _ => fun rest _ => by simp [joinItems]
  | [x], h => fun rest hr => by simpa [joinItems] using h x (by simp) rest hr
  | x :: y :: ys, h => fun rest hr => by
    have ih := clean_join fm fs sep hsep hsepF (y :: ys) (fun z hz => h z (by simp [hz])) rest hr
    simp only [List.map_cons, joinItems, List.append_assoc] at ih ⊢
    rw [h x (by simp) _ (hsepF _), clean_plain sep hsep, ih]

theorem follow_sep (ind lvl : Nat) (r : Str) : Follow ((',' :: nl ind lvl) ++ r) := by
  show isTerm ',' = true; decide

theorem plain_sep (ind lvl : Nat) : Plain (',' :: nl ind lvl) := by
  intro c hc
  rcases List.mem_cons.mp hc with rfl | hc
  · decide
  · exact plain_nl ind lvl c hc

theorem clean_cons {c : Char} (h1 : c ≠ '"') (h2 : c ≠ '.') (rest : Str) : clean .out (c :: rest) = c :: clean .out rest := by
  simp [clean, h1, h2]

/-- **stage 2 ∘ stage 1 = spec**, in any context that starts with a terminator -/
theorem clean_encWith (ind : Nat) : ∀ v, WF v → ∀ lvl, SegF (encWith numRepr ind lvl v) (encWith numSpec ind lvl v) := by
  intro v
  induction v using valInd with
  | hnull => intro _ lvl rest _; exact clean_plain _ (by simp [Plain, encWith]) rest
  | hbool b => intro _ lvl rest _; cases b <;> exact clean_plain _ (by simp [Plain, encWith]) rest
  | hnum n =>
    intro h lvl rest hr
    simp only [encWith]
    exact clean_num n (by rintro t rfl; simpa [WF] using h) rest hr
  | hstr s => intro _ lvl rest _; simp only [encWith]; exact clean_encStr s rest
  | harr xs ih =>
    intro h lvl rest hr
    cases xs with
    | nil => exact clean_plain _ (by simp [Plain, encWith]) rest
    | cons x xs =>
      have hw := (wfList_iff _).mp (by simpa [WF] using h)
      have hj := clean_join (encWith numRepr ind (lvl + 1)) (encWith numSpec ind (lvl + 1)) (',' :: nl ind (lvl + 1))
        (plain_sep _ _) (follow_sep _ _) (x :: xs) (fun y hy => ih y hy (hw y hy) (lvl + 1))
      simp only [encWith, encList_eq, List.cons_append, List.append_assoc]
      rw [clean_cons (by decide) (by decide), clean_plain _ (plain_nl _ _),
        hj _ (follow_nl ind lvl ']' (by decide) _), clean_plain _ (plain_nl _ _), clean_cons (by decide) (by decide)]
      simp
  | hobj kvs ih =>
    intro h lvl rest hr
    cases kvs with
    | nil => exact clean_plain _ (by simp [Plain, encWith]) rest
    | cons p ps =>
      have hw := (wfMembers_iff _).mp (by simpa [WF] using h.2)
      have hj := clean_join (fun q : Str × JValue => member ind (q.1, encWith numRepr ind (lvl + 1) q.2))
        (fun q => member ind (q.1, encWith numSpec ind (lvl + 1) q.2)) (',' :: nl ind (lvl + 1))
        (plain_sep _ _) (follow_sep _ _) (sortKeys (p :: ps)) (by
          intro q hq rest hr
          have hq' := (mem_sortKeys q _).mp hq
          simp only [member, List.append_assoc]
          rw [clean_encStr, clean_plain _ (plain_colon ind), ih q hq' (hw q hq') (lvl + 1) rest hr])
      simp only [encWith, encMembers_eq, sortKeys_map, List.map_map, List.cons_append, List.append_assoc]
      rw [clean_cons (by decide) (by decide), clean_plain _ (plain_nl _ _)]
      have e1 : (member ind ∘ fun q : Str × JValue => (q.1, encWith numRepr ind (lvl + 1) q.2)) =
          fun q => member ind (q.1, encWith numRepr ind (lvl + 1) q.2) := rfl
      have e2 : (member ind ∘ fun q : Str × JValue => (q.1, encWith numSpec ind (lvl + 1) q.2)) =
          fun q => member ind (q.1, encWith numSpec ind (lvl + 1) q.2) := rfl
      rw [e1, e2, hj _ (follow_nl ind lvl '}' (by decide) _), clean_plain _ (plain_nl _ _), clean_cons (by decide) (by decide)]
      simp

/-! ### numbers: text → token → value -/

theorem td_of_digits (ds tl : Str) (h : allDigits ds = true) (ht : tl = [] ∨ ∃ c r, tl = c :: r ∧ isDigit c = false) :
    takeDigits (ds ++ tl) = (ds, tl) := by
  induction ds with
  | nil =>
    rcases ht with rfl | ⟨c, r, rfl, hc⟩
    · rfl
    · simp [takeDigits, hc]
  | cons d ds ih =>
    simp only [allDigits, Bool.and_eq_true] at h
    simp [takeDigits, h.1, ih h.2]

theorem natText_head (n : Nat) : ∃ c r, natText n = c :: r ∧ isDigit c = true ∧ (n ≠ 0 → c ≠ '0') ∧ (n = 0 → r = []) := by
  induction n using Nat.strongRecOn with
  | _ n ih =>
    unfold natText
    rw [Nat.toDigits_eq_if (by decide)]
    split
    · rename_i h
      refine ⟨Nat.digitChar n, [], rfl, ?_, ?_, fun _ => rfl⟩
      · simp [isDigit, Nat.isDigit_digitChar, h]
      · intro hn
        have : n = 1 ∨ n = 2 ∨ n = 3 ∨ n = 4 ∨ n = 5 ∨ n = 6 ∨ n = 7 ∨ n = 8 ∨ n = 9 := by omega
        rcases this with rfl | rfl | rfl | rfl | rfl | rfl | rfl | rfl | rfl <;> decide
    · rename_i h
      obtain ⟨c, r, e, hd, h0, _⟩ := ih (n / 10) (by omega)
      unfold natText at e
      exact ⟨c, r ++ [Nat.digitChar (n % 10)], by rw [e]; rfl, hd, fun _ => h0 (by omega), fun h0 => by omega⟩

theorem validInt_natText (n : Nat) : validInt (natText n) = true := by
  obtain ⟨c, r, e, hd, h0, hz⟩ := natText_head n
  have hall := natText_digits n
  rw [e] at hall ⊢
  cases r with
  | nil => simpa [validInt] using hd
  | cons d ds =>
    have hn : n ≠ 0 := fun h => by cases hz h
    simp only [allDigits, Bool.and_eq_true] at hall
    simp [validInt, hd, h0 hn, allDigits, hall.2.1, hall.2.2]

theorem ofDigits_natText (n : Nat) : Nat.ofDigitChars 10 (natText n) 0 = n := Nat.ofDigitChars_ten_toDigits

theorem parseNum_natText (n : Nat) : parseNum (natText n) = some (.int n) := by
  obtain ⟨c, r, e, hd, _, _⟩ := natText_head n
  have hs : stripSign (natText n) = natText n := by
    rw [e]; simp [stripSign, (isDigit_props hd).2.2.2.1]
  have ht : takeDigits (natText n) = (natText n, []) := by
    simpa using td_of_digits (natText n) [] (natText_digits n) (.inl rfl)
  have hh : (natText n).head? ≠ some '-' := by rw [e]; simp [(isDigit_props hd).2.2.2.1]
  simp [parseNum, hs, ht, validInt_natText, hh, ofDigits_natText]

theorem parseNum_neg_natText (n : Nat) : parseNum ('-' :: natText n) = some (.int (-(n : Int))) := by
  have ht : takeDigits (natText n) = (natText n, []) := by
    simpa using td_of_digits (natText n) [] (natText_digits n) (.inl rfl)
  simp [parseNum, stripSign, ht, validInt_natText, ofDigits_natText]

theorem reprExp_jsonExp {x : Str} (h : reprExp x = true) : jsonExp x = true := by
  match x, h with
  | e :: s :: d1 :: d2 :: ds, h =>
    simp only [reprExp, Bool.and_eq_true, Bool.or_eq_true, beq_iff_eq] at h
    obtain ⟨⟨⟨⟨rfl, hs⟩, h1⟩, h2⟩, h3⟩ := h
    rcases hs with rfl | rfl <;> simp [jsonExp, allDigits, h1, h2, h3]

theorem reprTail_jsonTail (one : Bool) (tl : Str) (h : reprTail one tl = true) : jsonTail tl = true ∧ tl ≠ [] := by
  cases tl with
  | nil => simp [reprTail] at h
  | cons c r =>
    refine ⟨?_, by simp⟩
    simp only [reprTail] at h
    simp only [jsonTail]
    split at h
    · rename_i hc
      simp only [hc, if_true]
      simp only [Bool.and_eq_true] at h ⊢
      refine ⟨h.1, ?_⟩
      have h2 := h.2
      split at h2
      · simp [*]
      · simp only [Bool.and_eq_true] at h2; simp [reprExp_jsonExp h2.2]
    · rename_i hc
      split at h
      · simp only [Bool.and_eq_true] at h
        simp [hc, reprExp_jsonExp h.2]
      · cases h

theorem parseNum_dec (t : Str) (h : reprDec t = true) : parseNum t = some (.dec t) := by
  simp only [reprDec, Bool.and_eq_true] at h
  obtain ⟨hj, hne⟩ := reprTail_jsonTail _ _ h.2
  have : (takeDigits (stripSign t)).2.isEmpty = false := by
    cases hh : (takeDigits (stripSign t)).2 with
    | nil => exact absurd hh hne
    | cons _ _ => rfl
  simp [parseNum, h.1, this, hj]

theorem parseNum_numSpec (n : JNum) (hn : ∀ t, n = .dec t → reprDec t = true) : parseNum (numSpec n) = some (normNum n) := by
  cases n with
  | int k =>
    cases k with
    | ofNat m => simpa [numSpec, intText, normNum] using parseNum_natText m
    | negSucc m =>
      have := parseNum_neg_natText (m + 1)
      simp only [numSpec, intText, normNum]; rw [this]; congr 2
  | fint neg k =>
    cases neg
    · simpa [numSpec, signText, normNum] using parseNum_natText k
    · simpa [numSpec, signText, normNum] using parseNum_neg_natText k
  | dec t => simpa [numSpec, normNum] using parseNum_dec t (hn t rfl)

theorem numChar_mem {c : Char} (h : isNumChar c = true) :
    c ∈ ['0', '1', '2', '3', '4', '5', '6', '7', '8', '9', '-', '+', '.', 'e', 'E'] := by
  simp only [isNumChar, Bool.or_eq_true, beq_iff_eq] at h
  rcases h with ((((h | rfl) | rfl) | rfl) | rfl) | rfl
  · have := digit_mem h
    simp only [List.mem_cons] at this ⊢
    rcases this with h | h | h | h | h | h | h | h | h | h | h <;> simp_all
  all_goals decide

theorem numChar_props {c : Char} (h : isNumChar c = true) :
    isTerm c = false ∧ isWs c = false ∧ c ≠ '"' ∧ c ≠ '[' ∧ c ≠ '{' ∧ c ≠ 'n' ∧ c ≠ 't' ∧ c ≠ 'f' ∧ c ≠ ']' ∧ c ≠ '}' := by
  have key : ∀ d ∈ ['0', '1', '2', '3', '4', '5', '6', '7', '8', '9', '-', '+', '.', 'e', 'E'],
      isTerm d = false ∧ isWs d = false ∧ d ≠ '"' ∧ d ≠ '[' ∧ d ≠ '{' ∧ d ≠ 'n' ∧ d ≠ 't' ∧ d ≠ 'f' ∧ d ≠ ']' ∧ d ≠ '}' := by decide
  exact key c (numChar_mem h)

theorem spanNum_append (t rest : Str) (ht : ∀ c ∈ t, isNumChar c = true) (hr : Follow rest) :
    spanNum (t ++ rest) = (t, rest) := by
  induction t with
  | nil =>
    cases rest with
    | nil => rfl
    | cons c r =>
      have hc : isNumChar c = false := by
        cases hh : isNumChar c with
        | false => rfl
        | true => have := (numChar_props hh).1; rw [show isTerm c = true from hr] at this; cases this
      simp [spanNum, hc]
  | cons d t ih =>
    simp [spanNum, ht d (by simp), ih (fun c hc => ht c (by simp [hc]))]

theorem numChars_of_digits {ds : Str} (h : allDigits ds = true) : ∀ c ∈ ds, isNumChar c = true :=
  fun c hc => (isDigit_props ((allDigits_iff ds).mp h c hc)).2.2.2.2.1

/-- a number token consists of number characters and starts with a digit or `-` -/
theorem numSpec_chars (n : JNum) (hn : ∀ t, n = .dec t → reprDec t = true) :
    (∀ c ∈ numSpec n, isNumChar c = true) ∧ ∃ c r, numSpec n = c :: r := by
  have hnat (k : Nat) : (∀ c ∈ natText k, isNumChar c = true) := numChars_of_digits (natText_digits k)
  have hneg (k : Nat) : (∀ c ∈ '-' :: natText k, isNumChar c = true) := by
    intro c hc; rcases List.mem_cons.mp hc with rfl | hc
    · decide
    · exact hnat k c hc
  have hne (k : Nat) : ∃ c r, natText k = c :: r := by
    obtain ⟨c, r, e, _⟩ := natText_head k; exact ⟨c, r, e⟩
  cases n with
  | int k =>
    cases k with
    | ofNat m => exact ⟨hnat m, hne m⟩
    | negSucc m => exact ⟨hneg (m + 1), _, _, rfl⟩
  | fint neg k =>
    cases neg
    · exact ⟨by simpa [numSpec, signText] using hnat k, by simpa [numSpec, signText] using hne k⟩
    · exact ⟨by simpa [numSpec, signText] using hneg k, _, _, rfl⟩
  | dec t =>
    obtain ⟨sg, ds, tl, rfl, hsg, hds, hdne, htl⟩ := reprDec_shape t (hn t rfl)
    have hsgc : ∀ c ∈ sg, isNumChar c = true := by
      rcases hsg with rfl | rfl
      · simp
      · intro c hc; simp at hc; subst hc; decide
    have htlc : ∀ c ∈ tl, isNumChar c = true := by
      rcases htl with ⟨fs, tl2, rfl, hfs, h2⟩ | he
      · intro c hc
        simp only [List.mem_cons, List.mem_append] at hc
        rcases hc with rfl | hc | hc
        · decide
        · exact numChars_of_digits hfs c hc
        · rcases h2 with ⟨rfl, _⟩ | he
          · cases hc
          · obtain ⟨_, r, rfl, hr⟩ := reprExp_plain he; exact hr c hc
      · obtain ⟨_, r, rfl, hr⟩ := reprExp_plain he; exact hr
    refine ⟨?_, ?_⟩
    · intro c hc
      simp only [numSpec, List.mem_append] at hc
      rcases hc with hc | hc | hc
      · exact hsgc c hc
      · exact numChars_of_digits hds c hc
      · exact htlc c hc
    · simp only [numSpec]
      rcases hsg with rfl | rfl
      · cases ds with
        | nil => exact absurd rfl hdne
        | cons d ds => exact ⟨_, _, rfl⟩
      · exact ⟨_, _, rfl⟩

/-! ### the decoder on the layout of the encoder -/

theorem skipWs_cons {c : Char} (h : isWs c = false) (r : Str) : skipWs (c :: r) = c :: r := by simp [skipWs, h]

theorem skipWs_idem (cs : Str) : skipWs (skipWs cs) = skipWs cs := by
  induction cs with
  | nil => rfl
  | cons c cs ih =>
    simp only [skipWs]
    split
    · exact ih
    · rename_i h; simp [skipWs, h]

theorem skipWs_ws (w t : Str) (hw : ∀ c ∈ w, isWs c = true) : skipWs (w ++ t) = skipWs t := by
  induction w with
  | nil => rfl
  | cons c w ih => simp [skipWs, hw c (by simp), ih (fun d hd => hw d (by simp [hd]))]

theorem ws_nl (ind lvl : Nat) : ∀ c ∈ nl ind lvl, isWs c = true := by
  unfold nl; split
  · simp
  · intro c hc
    simp only [List.mem_cons, List.mem_replicate] at hc
    rcases hc with rfl | ⟨_, rfl⟩ <;> decide

theorem parseVal_skip (f : Nat) (cs : Str) : parseVal f (skipWs cs) = parseVal f cs := by
  cases f <;> simp [parseVal, skipWs_idem]

theorem parseVal_ws (f : Nat) (w t : Str) (hw : ∀ c ∈ w, isWs c = true) : parseVal f (w ++ t) = parseVal f t := by
  rw [← parseVal_skip, skipWs_ws w t hw, parseVal_skip]

theorem parseElems_skip (f : Nat) (cs : Str) : parseElems f (skipWs cs) = parseElems f cs := by
  cases f <;> simp [parseElems, parseVal_skip]

theorem parseMembers_skip (f : Nat) (cs : Str) : parseMembers f (skipWs cs) = parseMembers f cs := by
  cases f <;> simp [parseMembers, skipWs_idem]

theorem parseVal_atom (f : Nat) {c : Char} (r : Str) (hw : isWs c = false) (h1 : c ≠ '[') (h2 : c ≠ '{') :
    parseVal f (c :: r) = parseAtom (c :: r) := by
  cases f <;> simp [parseVal, skipWs_cons hw, h1, h2]

/-- `ParseOK e v`: the text `e` parses to `v` with enough fuel in any context that starts with a terminator -/
def ParseOK (e : Str) (v : JValue) : Prop :=
  ∀ f rest, e.length ≤ f → Follow rest → parseVal f (e ++ rest) = some (v, rest)

theorem follow_close (ind lvl : Nat) (c : Char) (hc : isTerm c = true) (r : Str) : Follow (nl ind lvl ++ c :: r) :=
  follow_nl ind lvl c hc r

theorem skipWs_close (ind lvl : Nat) {c : Char} (hc : isWs c = false) (r : Str) : skipWs (nl ind lvl ++ c :: r) = c :: r := by
  rw [skipWs_ws _ _ (ws_nl ind lvl), skipWs_cons hc]

theorem length_joinItems_cons (sep x : Str) (y : Str) (ys : List Str) :
    (joinItems sep (x :: y :: ys)).length = x.length + sep.length + (joinItems sep (y :: ys)).length := by
  simp [joinItems, Nat.add_assoc]

theorem parseElems_join {α} (e : α → Str) (nv : α → JValue) (ind lvl lvl' : Nat) (rest : Str) :
    ∀ xs : List α, xs ≠ [] → (∀ x ∈ xs, ParseOK (e x) (nv x)) → ∀ f,
      (joinItems (',' :: nl ind lvl) (xs.map e)).length + 1 ≤ f →
      parseElems f (joinItems (',' :: nl ind lvl) (xs.map e) ++ (nl ind lvl' ++ ']' :: rest)) = some (xs.map nv, rest)
  | [], h, _, _, _ => absurd rfl h
  | [x], _, h, f, hf => by
    cases f with
    | zero => simp at hf
    | succ f =>
      simp only [List.map_cons, List.map_nil, joinItems] at hf ⊢
      rw [parseElems, h x (by simp) f _ (by omega) (follow_close ind lvl' ']' (by decide) rest)]
      simp [skipWs_close ind lvl' (c := ']') (by decide)]
  | x :: y :: ys, _, h, f, hf => by
    cases f with
    | zero => simp at hf
    | succ f =>
      have ih := parseElems_join e nv ind lvl lvl' rest (y :: ys) (by simp) (fun z hz => h z (by simp [hz])) f
      simp only [List.map_cons, length_joinItems_cons, List.length_cons] at hf ih ⊢
      simp only [joinItems, List.append_assoc, List.cons_append]
      rw [parseElems, h x (by simp) f _ (by omega) (by show isTerm ',' = true; decide)]
      simp only [skipWs_cons (c := ',') (by decide), if_true]
      rw [← parseElems_skip, skipWs_ws _ _ (ws_nl ind lvl), parseElems_skip]
      rw [ih (by omega)]

theorem colon_split (ind : Nat) : ∃ w, colon ind = ':' :: w ∧ ∀ c ∈ w, isWs c = true := by
  unfold colon; split
  · exact ⟨[], rfl, by simp⟩
  · exact ⟨[' '], rfl, by simp; decide⟩

theorem member_length (ind : Nat) (k t : Str) : t.length + 1 ≤ (member ind (k, t)).length := by
  simp [member, encStr]; omega

theorem parseMembers_join (e : JValue → Str) (nv : JValue → JValue) (ind lvl lvl' : Nat) (rest : Str) :
    ∀ ms : List (Str × JValue), ms ≠ [] → (∀ p ∈ ms, ParseOK (e p.2) (nv p.2)) → ∀ f,
      (joinItems (',' :: nl ind lvl) (ms.map fun q => member ind (q.1, e q.2))).length + 1 ≤ f →
      parseMembers f (joinItems (',' :: nl ind lvl) (ms.map fun q => member ind (q.1, e q.2)) ++ (nl ind lvl' ++ '}' :: rest)) =
        some (ms.map fun q => (q.1, nv q.2), rest)
  | [], h, _, _, _ => absurd rfl h
  | [p], _, h, f, hf => by
    obtain ⟨k, v⟩ := p
    obtain ⟨w, hc, hw⟩ := colon_split ind
    cases f with
    | zero => simp at hf
    | succ f =>
      simp only [List.map_cons, List.map_nil, joinItems] at hf ⊢
      have hl := member_length ind k (e v)
      have hm : member ind (k, e v) = '"' :: (escBody k ++ '"' :: ':' :: (w ++ e v)) := by simp [member, encStr, hc]
      rw [hm]
      simp only [List.cons_append, List.append_assoc]
      rw [parseMembers, skipWs_cons (c := '"') (by decide)]
      simp only [if_true, unesc_body, skipWs_cons (c := ':') (by decide)]
      rw [parseVal_ws f w _ hw, h (k, v) (by simp) f _ (by show (e v).length ≤ f; omega) (follow_close ind lvl' '}' (by decide) rest)]
      simp [skipWs_close ind lvl' (c := '}') (by decide)]
  | p :: q :: ms, _, h, f, hf => by
    obtain ⟨k, v⟩ := p
    obtain ⟨w, hc, hw⟩ := colon_split ind
    cases f with
    | zero => simp at hf
    | succ f =>
      have ih := parseMembers_join e nv ind lvl lvl' rest (q :: ms) (by simp) (fun z hz => h z (by simp [hz])) f
      simp only [List.map_cons, length_joinItems_cons, List.length_cons] at hf ih ⊢
      have hl := member_length ind k (e v)
      have hm : member ind (k, e v) = '"' :: (escBody k ++ '"' :: ':' :: (w ++ e v)) := by simp [member, encStr, hc]
      simp only [joinItems, List.append_assoc, List.cons_append]
      rw [hm]
      simp only [List.cons_append, List.append_assoc]
      rw [parseMembers, skipWs_cons (c := '"') (by decide)]
      simp only [if_true, unesc_body, skipWs_cons (c := ':') (by decide)]
      rw [parseVal_ws f w _ hw, h (k, v) (by simp) f _ (by show (e v).length ≤ f; omega) (by show isTerm ',' = true; decide)]
      simp only [skipWs_cons (c := ',') (by decide), if_true]
      rw [← parseMembers_skip, skipWs_ws _ _ (ws_nl ind lvl), parseMembers_skip]
      rw [ih (by omega)]

theorem length_sortKeys {α} (l : List (Str × α)) : (sortKeys l).length = l.length := by
  have hi : ∀ (p : Str × α) (l : List (Str × α)), (insertKey p l).length = l.length + 1 := by
    intro p l
    induction l with
    | nil => rfl
    | cons q qs ih => simp only [insertKey]; split <;> simp [ih]
  induction l with
  | nil => rfl
  | cons p ps ih => simp [sortKeys, hi, ih]

theorem joinItems_head (sep a : Str) (l : List Str) : ∃ t, joinItems sep (a :: l) = a ++ t := by
  cases l with
  | nil => exact ⟨[], by simp [joinItems]⟩
  | cons b l => exact ⟨sep ++ joinItems sep (b :: l), by simp [joinItems]⟩

/-- every encoded value starts with a character that is neither white space nor a closing bracket -/
theorem enc_head (ind lvl : Nat) (v : JValue) (h : WF v) :
    ∃ c r, encWith numSpec ind lvl v = c :: r ∧ isWs c = false ∧ c ≠ ']' := by
  cases v with
  | null => exact ⟨_, _, rfl, by decide, by decide⟩
  | bool b => cases b <;> exact ⟨_, _, rfl, by decide, by decide⟩
  | num n =>
    have hn : ∀ t, n = .dec t → reprDec t = true := by rintro t rfl; simpa [WF] using h
    obtain ⟨hch, c, r, e⟩ := numSpec_chars n hn
    have hc := numChar_props (hch c (by rw [e]; simp))
    exact ⟨c, r, by simpa [encWith] using e, hc.2.1, hc.2.2.2.2.2.2.2.2.1⟩
  | str s => exact ⟨_, _, rfl, by decide, by decide⟩
  | arr xs => cases xs <;> exact ⟨_, _, rfl, by decide, by decide⟩
  | obj kvs => cases kvs <;> exact ⟨_, _, rfl, by decide, by decide⟩

/-- **decode ∘ spec-encode = norm**, in any context that starts with a terminator -/
theorem parse_encWith (ind : Nat) : ∀ v, WF v → ∀ lvl, ParseOK (encWith numSpec ind lvl v) (norm v) := by
  intro v
  induction v using valInd with
  | hnull => intro _ lvl f rest _ _; rw [encWith, List.cons_append, parseVal_atom f _ (by decide) (by decide) (by decide)]; simp [parseAtom, norm]
  | hbool b =>
    intro _ lvl f rest _ _
    cases b <;> (rw [encWith, List.cons_append, parseVal_atom f _ (by decide) (by decide) (by decide)]; simp [parseAtom, norm])
  | hnum n =>
    intro h lvl f rest _ hr
    have hn : ∀ t, n = .dec t → reprDec t = true := by rintro t rfl; simpa [WF] using h
    obtain ⟨hch, c, r, e⟩ := numSpec_chars n hn
    have hc := numChar_props (hch c (by rw [e]; simp))
    have hsp := spanNum_append _ rest hch hr
    simp only [encWith]
    rw [e, List.cons_append, parseVal_atom f _ hc.2.1 hc.2.2.2.1 hc.2.2.2.2.1]
    rw [e, List.cons_append] at hsp
    simp only [parseAtom, hc.2.2.1, hc.2.2.2.2.2.1, hc.2.2.2.2.2.2.1, hc.2.2.2.2.2.2.2.1, if_false, hsp]
    rw [← e, parseNum_numSpec n hn]; simp [norm]
  | hstr s =>
    intro _ lvl f rest _ _
    simp only [encWith, encStr, List.cons_append, List.append_assoc, List.nil_append]
    rw [parseVal_atom f _ (by decide) (by decide) (by decide)]
    simp [parseAtom, unesc_body, norm]
  | harr xs ih =>
    intro h lvl f rest hf hr
    cases xs with
    | nil =>
      cases f with
      | zero => simp [encWith] at hf
      | succ f => simp [encWith, parseVal, skipWs, isWs, norm, normList]
    | cons x xs =>
      have hw := (wfList_iff _).mp (by simpa [WF] using h)
      cases f with
      | zero => simp [encWith] at hf
      | succ f =>
        have hj := parseElems_join (encWith numSpec ind (lvl + 1)) norm ind (lvl + 1) lvl rest (x :: xs) (by simp)
          (fun y hy => ih y hy (hw y hy) (lvl + 1)) f
        obtain ⟨c, r, ec, hcw, hcb⟩ := enc_head ind (lvl + 1) x (hw x (by simp))
        obtain ⟨t, et⟩ := joinItems_head (',' :: nl ind (lvl + 1)) (encWith numSpec ind (lvl + 1) x) (xs.map (encWith numSpec ind (lvl + 1)))
        simp only [encWith, encList_eq, List.cons_append, List.append_assoc, List.nil_append, List.length_cons,
          List.length_append, List.length_nil] at hf hj ⊢
        rw [parseVal, skipWs_cons (c := '[') (by decide)]
        simp only [if_true, skipWs_ws _ _ (ws_nl ind (lvl + 1))]
        have hT : ∃ r', joinItems (',' :: nl ind (lvl + 1)) (List.map (encWith numSpec ind (lvl + 1)) (x :: xs)) ++
            (nl ind lvl ++ ']' :: rest) = c :: r' :=
          ⟨r ++ t ++ (nl ind lvl ++ ']' :: rest), by simp only [List.map_cons]; rw [et, ec]; simp⟩
        obtain ⟨r', hT⟩ := hT
        rw [hT, skipWs_cons hcw]
        simp only [hcb, if_false]
        rw [← hT, hj (by omega)]
        simp [norm, normList_eq]
  | hobj kvs ih =>
    intro h lvl f rest hf hr
    cases kvs with
    | nil =>
      cases f with
      | zero => simp [encWith] at hf
      | succ f => simp [encWith, parseVal, skipWs, isWs, norm, normMembers, sortKeys]
    | cons p ps =>
      have hw := (wfMembers_iff _).mp (by simpa [WF] using h.2)
      cases f with
      | zero => simp [encWith] at hf
      | succ f =>
        have hne : sortKeys (p :: ps) ≠ [] := sortKeys_ne_nil p ps
        have hj := parseMembers_join (encWith numSpec ind (lvl + 1)) norm ind (lvl + 1) lvl rest (sortKeys (p :: ps)) hne
          (fun q hq => ih q ((mem_sortKeys q _).mp hq) (hw q ((mem_sortKeys q _).mp hq)) (lvl + 1)) f
        have e1 : (member ind ∘ fun q : Str × JValue => (q.1, encWith numSpec ind (lvl + 1) q.2)) =
            fun q => member ind (q.1, encWith numSpec ind (lvl + 1) q.2) := rfl
        simp only [encWith, encMembers_eq, sortKeys_map, List.map_map, e1, List.cons_append, List.append_assoc, List.nil_append,
          List.length_cons, List.length_append, List.length_nil] at hf hj ⊢
        rw [parseVal, skipWs_cons (c := '{') (by decide)]
        simp only [show ¬ ('{' = '[') by decide, if_false, if_true, skipWs_ws _ _ (ws_nl ind (lvl + 1))]
        have hT : ∃ r', joinItems (',' :: nl ind (lvl + 1))
              (List.map (fun q => member ind (q.1, encWith numSpec ind (lvl + 1) q.2)) (sortKeys (p :: ps))) ++
            (nl ind lvl ++ '}' :: rest) = '"' :: r' := by
          cases hs : sortKeys (p :: ps) with
          | nil => exact absurd hs hne
          | cons q qs =>
            obtain ⟨t, et⟩ := joinItems_head (',' :: nl ind (lvl + 1)) (member ind (q.1, encWith numSpec ind (lvl + 1) q.2))
              (qs.map fun q => member ind (q.1, encWith numSpec ind (lvl + 1) q.2))
            exact ⟨escBody q.1 ++ '"' :: (colon ind ++ (encWith numSpec ind (lvl + 1) q.2 ++ (t ++ (nl ind lvl ++ '}' :: rest)))),
              by simp only [List.map_cons, et]; simp [member, encStr]⟩
        obtain ⟨r', hT⟩ := hT
        rw [hT, skipWs_cons (c := '"') (by decide)]
        simp only [show ¬ ('"' = '}') by decide, if_false]
        rw [← hT, hj (by omega)]
        simp only [norm, normMembers_eq]
        rw [sortKeys_map norm (p :: ps)]

/-! ### sorted keys -/

theorem str_le_of_lt {a b : Str} (h : a < b) : a ≤ b := List.le_of_lt h
theorem str_le_trans {a b c : Str} (h1 : a ≤ b) (h2 : b ≤ c) : a ≤ c := List.le_trans h1 h2
theorem str_le_of_not_lt {a b : Str} (h : ¬ a < b) : b ≤ a := List.not_lt.mp h

theorem insertKey_sorted {α} (p : Str × α) (l : List (Str × α)) (h : l.Pairwise (fun a b => a.1 ≤ b.1)) :
    (insertKey p l).Pairwise (fun a b => a.1 ≤ b.1) := by
  induction l with
  | nil => simp [insertKey]
  | cons q qs ih =>
    rw [List.pairwise_cons] at h
    simp only [insertKey]
    split
    · rename_i hlt
      refine List.pairwise_cons.mpr ⟨?_, ih h.2⟩
      intro x hx
      rcases (mem_insertKey p x qs).mp hx with rfl | hx
      · exact str_le_of_lt hlt
      · exact h.1 x hx
    · rename_i hnlt
      have hpq : p.1 ≤ q.1 := str_le_of_not_lt hnlt
      refine List.pairwise_cons.mpr ⟨?_, List.pairwise_cons.mpr h⟩
      intro x hx
      rcases List.mem_cons.mp hx with rfl | hx
      · exact hpq
      · exact str_le_trans hpq (h.1 x hx)

theorem sortKeys_sorted {α} (l : List (Str × α)) : (sortKeys l).Pairwise (fun a b => a.1 ≤ b.1) := by
  induction l with
  | nil => simp [sortKeys]
  | cons p ps ih => exact insertKey_sorted p _ ih

theorem keysSortedList_iff (xs : List JValue) : KeysSortedList xs ↔ ∀ x ∈ xs, KeysSorted x := by
  induction xs with
  | nil => simp [KeysSortedList]
  | cons x xs ih => simp [KeysSortedList, ih]

theorem keysSortedMembers_iff (kvs : List (Str × JValue)) : KeysSortedMembers kvs ↔ ∀ p ∈ kvs, KeysSorted p.2 := by
  induction kvs with
  | nil => simp [KeysSortedMembers]
  | cons p kvs ih => obtain ⟨k, v⟩ := p; simp [KeysSortedMembers, ih]

theorem keysSorted_norm (v : JValue) : KeysSorted (norm v) := by
  induction v using valInd with
  | hnull => simp [norm, KeysSorted]
  | hbool b => simp [norm, KeysSorted]
  | hnum n => simp [norm, KeysSorted]
  | hstr s => simp [norm, KeysSorted]
  | harr xs ih =>
    simp only [norm, KeysSorted, normList_eq, keysSortedList_iff]
    intro x hx
    obtain ⟨y, hy, rfl⟩ := List.mem_map.mp hx
    exact ih y hy
  | hobj kvs ih =>
    simp only [norm, KeysSorted, normMembers_eq, keysSortedMembers_iff]
    refine ⟨sortKeys_sorted _, ?_⟩
    intro p hp
    obtain ⟨q, hq, rfl⟩ := List.mem_map.mp ((mem_sortKeys p _).mp hp)
    exact ih q hq

/-! ### `norm` is idempotent -/

theorem sortKeys_of_sorted {α} (l : List (Str × α)) (h : l.Pairwise (fun a b => a.1 ≤ b.1)) : sortKeys l = l := by
  induction l with
  | nil => rfl
  | cons p ps ih =>
    rw [List.pairwise_cons] at h
    rw [sortKeys, ih h.2]
    cases ps with
    | nil => rfl
    | cons q qs =>
      have : ¬ q.1 < p.1 := List.not_lt.mpr (h.1 q (by simp))
      simp [insertKey, this]

theorem sortKeys_idem {α} (l : List (Str × α)) : sortKeys (sortKeys l) = sortKeys l :=
  sortKeys_of_sorted _ (sortKeys_sorted l)

theorem norm_norm (v : JValue) : norm (norm v) = norm v := by
  induction v using valInd with
  | hnull => rfl
  | hbool b => rfl
  | hnum n => cases n <;> rfl
  | hstr s => rfl
  | harr xs ih =>
    simp only [norm, normList_eq, List.map_map]
    congr 1
    exact List.map_congr_left fun x hx => ih x hx
  | hobj kvs ih =>
    simp only [norm, normMembers_eq]
    rw [← sortKeys_map norm, sortKeys_idem, List.map_map]
    congr 2
    exact List.map_congr_left fun p hp => by simp [ih p hp]

/-! ### the canonical form is well-formed -/

theorem insertKey_perm {α} (p : Str × α) (l : List (Str × α)) : (insertKey p l).Perm (p :: l) := by
  induction l with
  | nil => exact List.Perm.refl _
  | cons q qs ih =>
    simp only [insertKey]
    split
    · exact ((List.Perm.cons q ih).trans (List.Perm.swap p q qs))
    · exact List.Perm.refl _

theorem sortKeys_perm {α} (l : List (Str × α)) : (sortKeys l).Perm l := by
  induction l with
  | nil => exact List.Perm.refl _
  | cons p ps ih => exact (insertKey_perm p _).trans (List.Perm.cons p ih)

/-- the canonical form of a well-formed value is well-formed: in particular the decoded object keys are unique, so the
member list *is* a dictionary -/
theorem wf_norm (v : JValue) : WF v → WF (norm v) := by
  induction v using valInd with
  | hnull => intro _; simp [norm, WF]
  | hbool b => intro _; simp [norm, WF]
  | hnum n => intro h; cases n <;> simp_all [norm, WF, normNum]
  | hstr s => intro _; simp [norm, WF]
  | harr xs ih =>
    intro h
    have hw := (wfList_iff _).mp (by simpa [WF] using h)
    simp only [norm, WF, normList_eq, wfList_iff]
    intro x hx
    obtain ⟨y, hy, rfl⟩ := List.mem_map.mp hx
    exact ih y hy (hw y hy)
  | hobj kvs ih =>
    intro h
    simp only [WF] at h
    have hw := (wfMembers_iff _).mp h.2
    simp only [norm, WF, normMembers_eq, wfMembers_iff]
    refine ⟨?_, ?_⟩
    · have hp := (sortKeys_perm (kvs.map fun p => (p.1, norm p.2))).map Prod.fst
      rw [hp.nodup_iff]
      simpa [List.map_map, Function.comp_def] using h.1
    · intro p hp
      obtain ⟨q, hq, rfl⟩ := List.mem_map.mp ((mem_sortKeys p _).mp hp)
      exact ih q hq (hw q hq)

end C14
