import BareModel.DataExpr
import BareProofs.C19
import BareProofs.C09
import BareProofs.C04
import BareProofs.C18SemLemmas
import BareProofs.C02PrintLemmas

/-!
Helper lemmas for `BareProofs/C19Expr.lean` (C19 extension: the data functions evaluate expression TEXT): the mirror loops of
`BareModel/DataExpr.lean` are the fold of the machine over the rows; buckets of annotated rows; rows as locals; the counter.
-/

namespace C19Expr
open Machine DataExpr

variable {W : Type}

/-! ## spec-layer helpers -/

/-- `row[field] = value` on the rows that were evaluated (a prefix), the others unchanged -/
def setRows (field : String) : VTable → List (Value × W) → VTable
  | r :: rs, v :: vs => rowSet field v.1 r :: setRows field rs vs
  | rs, [] => rs
  | [], _ :: _ => []

/-- one left row of the relational join against the bucket dict -/
def joinOneB (names : List (String × String)) (buckets : List (Data.Key × List VRow)) (isLeftJoin : Bool) (l : VRow × Data.Key) : VTable :=
  match Data.bucketLookup l.2 buckets with
  | some rs => rs.map (joinRow names l.1)
  | none => if !isLeftJoin then [l.1] else []

/-- what the invariants of C09 talk about -/
def _root_.DataExpr.LOut.fin {α : Type} : LOut W α → C09.Fin W
  | .ok _ st => .ok st
  | .err e _ st => .err e st
  | .keyErr st => .ok st
  | .oof => .oof

/-! ## the loops are folds -/

theorem filterLoop_spec (ev : VRow → State W → Out W) (truthy : Value → W → Bool) : ∀ (rows acc : VTable) (st : State W),
    filterLoop ev truthy rows acc st =
      match runRows ev rows st with
      | .ok vs st' => .ok (acc ++ keepRows truthy rows vs) st'
      | .err e vs st' => .err e (acc ++ keepRows truthy rows vs) st'
      | .keyErr s => .keyErr s
      | .oof => .oof
  | [], acc, st => by simp [filterLoop, runRows, keepRows]
  | row :: rest, acc, st => by
    simp only [filterLoop, runRows]
    cases h : ev row st with
    | oof => rfl
    | err e st1 => simp [keepRows]
    | ok v st1 =>
      simp only
      rw [filterLoop_spec ev truthy rest _ st1]
      cases runRows ev rest st1 with
      | oof => rfl
      | keyErr s => rfl
      | ok vs st2 =>
        by_cases ht : truthy v st1.world = true <;> simp [keepRows, List.zip_cons_cons, ht]
      | err e vs st2 =>
        by_cases ht : truthy v st1.world = true <;> simp [keepRows, List.zip_cons_cons, ht]

theorem calcLoop_spec (ev : VRow → State W → Out W) (field : String) : ∀ (rows : VTable) (st : State W),
    calcLoop ev field rows st =
      match runRows ev rows st with
      | .ok vs st' => .ok (setRows field rows vs) st'
      | .err e vs st' => .err e (setRows field rows vs) st'
      | .keyErr s => .keyErr s
      | .oof => .oof
  | [], st => by simp [calcLoop, runRows, setRows]
  | row :: rest, st => by
    simp only [calcLoop, runRows]
    cases h : ev row st with
    | oof => rfl
    | err e st1 => simp [setRows]
    | ok v st1 =>
      simp only
      rw [calcLoop_spec ev field rest st1]
      cases runRows ev rest st1 <;> simp [setRows]

theorem bucketLoop_spec (ev : VRow → State W → Out W) (key : W → Value → Option Data.Key) :
    ∀ (rows : VTable) (acc : List (Data.Key × List VRow)) (st : State W),
    bucketLoop ev key rows acc st =
      match runKeys ev key rows st with
      | .ok ks st' => .ok ((rows.zip ks).foldl (fun bs p => Data.bucketAdd p.2 p.1 bs) acc) st'
      | .err e ks st' => .err e ((rows.zip ks).foldl (fun bs p => Data.bucketAdd p.2 p.1 bs) acc) st'
      | .keyErr s => .keyErr s
      | .oof => .oof
  | [], acc, st => by simp [bucketLoop, runKeys]
  | row :: rest, acc, st => by
    simp only [bucketLoop, runKeys]
    cases h : ev row st with
    | oof => rfl
    | err e st1 => simp
    | ok v st1 =>
      simp only
      cases hk : key st1.world v with
      | none => rfl
      | some k =>
        simp only
        rw [bucketLoop_spec ev key rest _ st1]
        cases runKeys ev key rest st1 <;> simp [List.zip_cons_cons]

theorem joinLoop_spec (ev : VRow → State W → Out W) (key : W → Value → Option Data.Key) (names : List (String × String))
    (buckets : List (Data.Key × List VRow)) (flag : Bool) : ∀ (rows acc : VTable) (st : State W),
    joinLoop ev key names buckets flag rows acc st =
      match runKeys ev key rows st with
      | .ok ks st' => .ok (acc ++ (rows.zip ks).flatMap (joinOneB names buckets flag)) st'
      | .err e ks st' => .err e (acc ++ (rows.zip ks).flatMap (joinOneB names buckets flag)) st'
      | .keyErr s => .keyErr s
      | .oof => .oof
  | [], acc, st => by simp [joinLoop, runKeys]
  | row :: rest, acc, st => by
    simp only [joinLoop, runKeys]
    cases h : ev row st with
    | oof => rfl
    | err e st1 => simp
    | ok v st1 =>
      simp only
      cases hk : key st1.world v with
      | none => rfl
      | some k =>
        simp only
        cases hb : Data.bucketLookup k buckets with
        | some rs =>
          simp only
          rw [joinLoop_spec ev key names buckets flag rest _ st1]
          cases runKeys ev key rest st1 <;> simp [List.zip_cons_cons, joinOneB, hb]
        | none =>
          simp only
          rw [joinLoop_spec ev key names buckets flag rest _ st1]
          cases runKeys ev key rest st1 <;> cases flag <;> simp [List.zip_cons_cons, joinOneB, hb]

/-! ## lengths: every row was evaluated when the loop ends normally -/

theorem runRows_length (ev : VRow → State W → Out W) : ∀ (rows : VTable) (st : State W),
    match runRows ev rows st with
    | .ok vs _ => vs.length = rows.length
    | .err _ vs _ => vs.length < rows.length
    | _ => True
  | [], st => by simp [runRows]
  | row :: rest, st => by
    simp only [runRows]
    cases h : ev row st with
    | oof => trivial
    | err e st1 => simp
    | ok v st1 =>
      have ih := runRows_length ev rest st1
      cases hr : runRows ev rest st1 <;> simp_all

theorem runKeys_length (ev : VRow → State W → Out W) (key : W → Value → Option Data.Key) : ∀ (rows : VTable) (st : State W),
    match runKeys ev key rows st with
    | .ok ks _ => ks.length = rows.length
    | .err _ ks _ => ks.length < rows.length
    | _ => True
  | [], st => by simp [runKeys]
  | row :: rest, st => by
    simp only [runKeys]
    cases h : ev row st with
    | oof => trivial
    | err e st1 => simp
    | ok v st1 =>
      simp only
      cases hk : key st1.world v with
      | none => trivial
      | some k =>
        have ih := runKeys_length ev key rest st1
        cases hr : runKeys ev key rest st1 <;> simp_all

theorem keepRows_sublist (truthy : Value → W → Bool) : ∀ (rows : VTable) (vs : List (Value × W)), (keepRows truthy rows vs).Sublist rows
  | [], vs => by simp [keepRows]
  | r :: rows, [] => by simp [keepRows]
  | r :: rows, v :: vs => by
    have ih := keepRows_sublist truthy rows vs
    simp only [keepRows, List.zip_cons_cons, List.filter_cons] at ih ⊢
    split
    · simpa using ih.cons_cons r
    · exact ih.cons r

/-! ## buckets of annotated rows -/

def unpair (b : Data.Key × List (VRow × Data.Key)) : Data.Key × List VRow := (b.1, b.2.map (·.1))

theorem bucketAdd_unpair (k : Data.Key) (p : VRow × Data.Key) : ∀ acc : List (Data.Key × List (VRow × Data.Key)),
    Data.bucketAdd k p.1 (acc.map unpair) = (Data.bucketAdd k p acc).map unpair
  | [] => by simp [Data.bucketAdd, unpair]
  | (k', xs) :: rest => by
    by_cases h : k' = k
    · simp [Data.bucketAdd, unpair, h]
    · simp [Data.bucketAdd, unpair, h, ← bucketAdd_unpair k p rest]

theorem foldl_bucketAdd_unpair : ∀ (pairs : List (VRow × Data.Key)) (acc : List (Data.Key × List (VRow × Data.Key))),
    pairs.foldl (fun bs p => Data.bucketAdd p.2 p.1 bs) (acc.map unpair) =
      (pairs.foldl (fun bs p => Data.bucketAdd p.2 p bs) acc).map unpair
  | [], acc => rfl
  | p :: pairs, acc => by
    simp only [List.foldl_cons]
    rw [bucketAdd_unpair, foldl_bucketAdd_unpair pairs]

theorem bucketLookup_unpair (k : Data.Key) : ∀ l : List (Data.Key × List (VRow × Data.Key)),
    Data.bucketLookup k (l.map unpair) = (Data.bucketLookup k l).map (fun xs => xs.map (·.1))
  | [] => rfl
  | (k', xs) :: rest => by
    by_cases h : k' = k
    · simp [Data.bucketLookup, unpair, h]
    · simp [Data.bucketLookup, unpair, h, bucketLookup_unpair k rest]

/-- `right_category_rows.get(key)` after the right loop: the right rows of that key in order, if there is one -/
theorem bucketLookup_fold (pairs : List (VRow × Data.Key)) (k : Data.Key) :
    Data.bucketLookup k (pairs.foldl (fun bs p => Data.bucketAdd p.2 p.1 bs) []) =
      if k ∈ pairs.map (·.2) then some ((pairs.filter (fun p => p.2 = k)).map (·.1)) else none := by
  have h := foldl_bucketAdd_unpair pairs []
  simp only [List.map_nil] at h
  rw [h, bucketLookup_unpair]
  have hb : pairs.foldl (fun bs p => Data.bucketAdd p.2 p bs) [] = Data.bucketRows (·.2) pairs := rfl
  rw [hb, C19.bucketRows_groupSpec, C19.bucketLookup_groupSpec]
  split <;> simp

theorem joinOneB_fold (names : List (String × String)) (flag : Bool) (pairs : List (VRow × Data.Key)) (l : VRow × Data.Key) :
    joinOneB names (pairs.foldl (fun bs p => Data.bucketAdd p.2 p.1 bs) []) flag l =
      (let partners := (pairs.filter (fun r => r.2 = l.2)).map (·.1)
       if partners.isEmpty then (if !flag then [l.1] else []) else partners.map (joinRow names l.1)) := by
  simp only [joinOneB, bucketLookup_fold]
  by_cases hk : l.2 ∈ pairs.map (·.2)
  · simp only [hk, if_true]
    obtain ⟨p, hp, he⟩ := List.mem_map.mp hk
    have hm : p.1 ∈ (pairs.filter (fun r => decide (r.2 = l.2))).map (·.1) :=
      List.mem_map_of_mem (List.mem_filter.mpr ⟨hp, by simp [he]⟩)
    cases hf : (pairs.filter (fun r => decide (r.2 = l.2))).map (·.1) with
    | nil => rw [hf] at hm; cases hm
    | cons a as => simp
  · simp only [hk, if_false]
    have : (pairs.filter (fun r => decide (r.2 = l.2))).map (·.1) = [] := by
      rw [List.map_eq_nil_iff, List.filter_eq_nil_iff]
      intro p hp hd
      exact hk (List.mem_map.mpr ⟨p, hp, by simpa using hd⟩)
    simp [this]

/-! ## rows as locals, variables over globals -/

theorem ofString_injective {a b : String} (h : Name.ofString a = Name.ofString b) : a = b := by
  have := congrArg Name.render h
  simpa [C02.render_ofString] using this

theorem rowEnv_get? (k : String) : ∀ row : VRow, (rowEnv row).get? (Name.ofString k) = rowGet? k row
  | [] => rfl
  | (k', v) :: rest => by
    have ih := rowEnv_get? k rest
    simp only [rowEnv, Env.get?, rowGet?] at ih
    simp only [rowEnv, Env.get?, rowGet?, List.map_cons, List.find?_cons]
    by_cases h : k' = k
    · subst h; simp
    · have h1 : (Name.ofString k' == Name.ofString k) = false := beq_eq_false_iff_ne.mpr (fun e => h (ofString_injective e))
      have h2 : (k' == k) = false := beq_eq_false_iff_ne.mpr h
      simp only [h1, h2]
      exact ih

theorem mergeVars_get? (n : Name) : ∀ (vars : VRow) (g : Env),
    (mergeVars g vars).get? n = ((rowEnv vars).reverse.find? (·.1 == n)).elim (g.get? n) (fun p => some p.2)
  | [], g => rfl
  | (k, v) :: rest, g => by
    have ih := mergeVars_get? n rest (g.set (Name.ofString k) v)
    simp only [mergeVars, List.foldl_cons] at ih ⊢
    rw [ih]
    simp only [rowEnv, List.map_cons, List.reverse_cons, List.find?_append]
    cases hf : List.find? (fun x => x.1 == n) (List.map (fun p => (Name.ofString p.1, p.2)) rest).reverse with
    | some p => simp
    | none =>
      simp only [Option.none_or, List.find?_cons, List.find?_nil, Option.elim]
      rw [C04.get?_set]
      by_cases h : Name.ofString k = n
      · have h1 : (Name.ofString k == n) = true := beq_iff_eq.mpr h
        simp [h]
      · have : ¬ n = Name.ofString k := fun e => h e.symm
        have h1 : (Name.ofString k == n) = false := beq_eq_false_iff_ne.mpr h
        simp [this, h1]

/-! ## the counter -/

theorem callGood (cfg : Config W) (fuel : Nat) : C09.CallGood (C09.Ext.triv W) cfg.maxStatements (callValue cfg fuel) := by
  rw [C08.callValue_eq]
  exact (C09.goodM (C09.Ext.triv W) cfg (C09.hostExt_triv _) fuel).1

theorem evalRow_good (C : Ctx W) (e : Expr) (row : VRow) (st : State W) :
    C09.Good (C09.Ext.triv W) C.cfg.maxStatements st (evalRow C e row st).fin :=
  C09.evalExpr_good (C09.Ext.triv W) C.cfg.maxStatements _ _ (callGood C.cfg C.fuel) _ e st

section Loops
variable (L : Nat) (ev : VRow → State W → Out W) (hev : ∀ row st, C09.Good (C09.Ext.triv W) L st (ev row st).fin)
include hev

theorem runRows_good : ∀ (rows : VTable) (st : State W), C09.Good (C09.Ext.triv W) L st (runRows ev rows st).fin
  | [], st => by simp only [runRows, LOut.fin]; exact C09.Good.refl ..
  | row :: rest, st => by
    simp only [runRows]
    have h1 := hev row st
    cases h : ev row st with
    | oof => trivial
    | err e st1 => rw [h] at h1; exact h1
    | ok v st1 =>
      rw [h] at h1
      have ih := runRows_good rest st1
      simp only
      cases hr : runRows ev rest st1 with
      | oof => trivial
      | ok vs st2 => rw [hr] at ih; exact h1.trans ih
      | err e vs st2 => rw [hr] at ih; exact h1.trans ih
      | keyErr s => rw [hr] at ih; exact h1.trans ih

theorem runKeys_good (key : W → Value → Option Data.Key) : ∀ (rows : VTable) (st : State W),
    C09.Good (C09.Ext.triv W) L st (runKeys ev key rows st).fin
  | [], st => by simp only [runKeys, LOut.fin]; exact C09.Good.refl ..
  | row :: rest, st => by
    simp only [runKeys]
    have h1 := hev row st
    cases h : ev row st with
    | oof => trivial
    | err e st1 => rw [h] at h1; exact h1
    | ok v st1 =>
      rw [h] at h1
      simp only
      cases hk : key st1.world v with
      | none => exact h1
      | some k =>
        have ih := runKeys_good key rest st1
        simp only
        cases hr : runKeys ev key rest st1 with
        | oof => trivial
        | ok vs st2 => rw [hr] at ih; exact h1.trans ih
        | err e vs st2 => rw [hr] at ih; exact h1.trans ih
        | keyErr s => rw [hr] at ih; exact h1.trans ih

end Loops

/-! ## call-free expressions: the fold is a map -/

/-- the value of a call-free expression on a row (any total reading of `evalRow`; equal to it by `evalRow_pure`) -/
def pureVal (C : Ctx W) (e : Expr) (row : VRow) (st : State W) : Value :=
  match evalRow C e row st with
  | .ok v _ => v
  | _ => .null

theorem evalRow_pure (C : Ctx W) (e : Expr) (h : Lint.isPointless e = true) (row : VRow) (st : State W) :
    evalRow C e row st = .ok (pureVal C e row st) st := by
  obtain ⟨v, hv⟩ := C18.evalExpr_pointless { C.cfg with builtins := true } (callValue C.cfg C.fuel) (some (rowEnv row)) e st h
  simp only [pureVal, evalRow, hv]

theorem runRows_pure (ev : VRow → State W → Out W) (val : VRow → Value) (st : State W) (h : ∀ row, ev row st = .ok (val row) st) :
    ∀ rows : VTable, runRows ev rows st = .ok (rows.map fun r => (val r, st.world)) st
  | [] => rfl
  | row :: rest => by simp [runRows, h row, runRows_pure ev val st h rest]

theorem runKeys_pure (ev : VRow → State W → Out W) (key : W → Value → Option Data.Key) (val : VRow → Value) (kf : VRow → Data.Key) (st : State W)
    (h : ∀ row, ev row st = .ok (val row) st) :
    ∀ rows : VTable, (∀ r ∈ rows, key st.world (val r) = some (kf r)) → runKeys ev key rows st = .ok (rows.map kf) st
  | [], _ => rfl
  | row :: rest, hk => by
    simp [runKeys, h row, hk row (by simp), runKeys_pure ev key val kf st h rest (fun r hr => hk r (by simp [hr]))]

theorem keepRows_map (truthy : Value → W → Bool) (f : VRow → Value × W) : ∀ rows : VTable,
    keepRows truthy rows (rows.map f) = rows.filter (fun r => truthy (f r).1 (f r).2)
  | [] => rfl
  | r :: rows => by
    have ih := keepRows_map truthy f rows
    simp only [keepRows, List.map_cons, List.zip_cons_cons, List.filter_cons] at ih ⊢
    split <;> simp [ih]

theorem setRows_map (field : String) (f : VRow → Value × W) : ∀ rows : VTable,
    setRows field rows (rows.map f) = rows.map (fun r => rowSet field (f r).1 r)
  | [] => rfl
  | r :: rows => by simp [setRows, setRows_map field f rows]

theorem leave_enter (vars : Option VRow) (st : State W) : leave vars st (enter vars st) = st := by
  cases vars <;> rfl

end C19Expr
