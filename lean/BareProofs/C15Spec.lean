import BareProofs.C15Lemmas
import BareModel.LibSpec

/-!
# C15 — the Python-shaped bodies compute the reference operations on validated arguments
-/

namespace C15
open Lib Lib.Spec

/-! ## numbers that passed validation as an index -/

theorem rle_ofNat {n : Nat} {q : Rat} (hq : q.den = 1) : rle (ofNat n) q = decide ((n : Int) ≤ q.num) := by
  simp [rle, ofNat, Rat.ofInt, hq]

theorem rlt_ofNat {n : Nat} {q : Rat} (hq : q.den = 1) : rlt (ofNat n) q = decide ((n : Int) < q.num) := by
  simp [rlt, ofNat, Rat.ofInt, hq]

theorem pyInt_int {q : Rat} (hq : q.den = 1) : pyInt q = q.num := by
  simp [pyInt, hq]

theorem pyGetItem_nat {α} (xs : List α) {i : Int} (h0 : 0 ≤ i) : pyGetItem xs i = xs[i.toNat]? := by
  unfold pyGetItem
  rw [if_neg (by omega)]

theorem pyIdx_nat (len : Nat) {i : Int} (h0 : 0 ≤ i) : pyIdx len i = if i.toNat < len then some i.toNat else none := by
  unfold pyIdx
  rw [if_neg (by omega)]

theorem pyAdj_nat (len : Nat) {i : Int} (h0 : 0 ≤ i) : pyAdj len i = min i.toNat len := by
  unfold pyAdj
  rw [if_neg (by omega)]

/-- what is known of a number in a validated argument list: it passed the constraints, or it is the default -/
def NumOK (m : Gen.ArgModel) (q : Rat) : Prop := numBad m q = false ∨ m.default.bind parseDefault = some (.num q)

theorem checkArg_num {h : Heap} {m : Gen.ArgModel} {a : Value} {q : Rat} (ht : m.type = some "number")
    (hc : checkArg h m a = some (.num q)) : numBad m q = false := by
  unfold checkArg at hc
  rw [ht] at hc
  simp only [show ("number" == "boolean") = false by decide, Bool.false_eq_true, if_false] at hc
  cases a with
  | num q' =>
    simp only [typeBad, isNum, isStr, isArr, isObj, isDt, isRegex, isFn] at hc
    simp only [show ("number" == "number") = true by decide, show ("number" == "string") = false by decide,
      show ("number" == "array") = false by decide, show ("number" == "object") = false by decide,
      show ("number" == "datetime") = false by decide, show ("number" == "regex") = false by decide,
      show ("number" == "function") = false by decide] at hc
    simp only [Bool.not_true, Bool.and_false, Bool.not_false, Bool.and_true, Bool.or_self, Bool.false_eq_true, if_false,
      Bool.true_and] at hc
    split at hc
    · simp at hc
    · rename_i hnb
      simp only [Option.some.injEq, Value.num.injEq] at hc
      subst hc
      simpa using hnb
  | null => split at hc <;> simp_all
  | _ => simp [typeBad, isNum] at hc

theorem missingArg_num {m : Gen.ArgModel} {q : Rat} (ht : m.type = some "number")
    (hm : missingArg m = some (.one (.num q))) : m.default.bind parseDefault = some (.num q) := by
  unfold missingArg at hm
  split at hm
  · simp at hm
  · split at hm
    · rename_i d hd
      simp only [Option.some.injEq, VArg.one.injEq] at hm
      subst hm
      exact hd
    · rw [ht] at hm
      simp only [show (some "number" == some "boolean") = false by decide] at hm
      split at hm <;> simp at hm

/-- **validation fact**: a number found at position `i` of the validated arguments, where the model says `number`, satisfies
the model's constraints (or is the model's default) -/
theorem validate_num (h : Heap) : ∀ (ms : List Gen.ArgModel) (args : List Value) (va : List VArg),
    validate h ms args = some va → ∀ (i : Nat) (m : Gen.ArgModel) (q : Rat), ms[i]? = some m → va[i]? = some (.one (.num q)) →
    m.type = some "number" → NumOK m q
  | [], args, va, hv, i, m, q, hm, _, _ => by simp at hm
  | m0 :: ms, [], va, hv, i, m, q, hm, hq, ht => by
    simp only [validate] at hv
    split at hv
    · simp at hv
    · rename_i a ha
      cases hrest : validate h ms [] with
      | none => simp [hrest] at hv
      | some rest =>
        simp only [hrest, Option.map_some, Option.some.injEq] at hv
        subst hv
        cases i with
        | zero =>
          simp only [List.getElem?_cons_zero, Option.some.injEq] at hm hq
          subst hm hq
          exact Or.inr (missingArg_num ht ha)
        | succ i =>
          simp only [List.getElem?_cons_succ] at hm hq
          exact validate_num h ms [] rest hrest i m q hm hq ht
  | m0 :: ms, a :: as, va, hv, i, m, q, hm, hq, ht => by
    simp only [validate] at hv
    split at hv
    · cases hrest : validate h ms [] with
      | none => simp [hrest] at hv
      | some rest =>
        simp only [hrest, Option.map_some, Option.some.injEq] at hv
        subst hv
        cases i with
        | zero => simp at hq
        | succ i =>
          simp only [List.getElem?_cons_succ] at hm hq
          exact validate_num h ms [] rest hrest i m q hm hq ht
    · split at hv
      · simp at hv
      · rename_i v hc
        cases hrest : validate h ms as with
        | none => simp [hrest] at hv
        | some rest =>
          simp only [hrest, Option.map_some, Option.some.injEq] at hv
          subst hv
          cases i with
          | zero =>
            simp only [List.getElem?_cons_zero, Option.some.injEq, VArg.one.injEq] at hm hq
            subst hm hq
            exact Or.inl (checkArg_num ht hc)
          | succ i =>
            simp only [List.getElem?_cons_succ] at hm hq
            exact validate_num h ms as rest hrest i m q hm hq ht

/-- the documented index models: integral and `≥ 0`, default (if any) `0` -/
def IsIdx (m : Gen.ArgModel) : Prop :=
  m.type = some "number" ∧ m.integer = true ∧ m.gte = some 0 ∧ (m.default = none ∨ m.default = some "0")

theorem idx_nat {m : Gen.ArgModel} {q : Rat} (hm : IsIdx m) (hq : NumOK m q) : q.den = 1 ∧ 0 ≤ q.num := by
  obtain ⟨_, hint, hgte, hdef⟩ := hm
  rcases hq with hq | hq
  · unfold numBad at hq
    simp only [hint, hgte, boundBad, Bool.true_and, Bool.or_eq_false_iff, Bool.not_eq_false'] at hq
    obtain ⟨⟨⟨⟨h1, _⟩, _⟩, _⟩, h2⟩ := hq
    refine ⟨by simpa [isIntegral] using h1, ?_⟩
    simp only [rle, Rat.ofInt] at h2
    simpa using h2
  · rcases hdef with hd | hd
    · simp [hd] at hq
    · rw [hd] at hq
      have : parseDefault "0" = some (numN 0) := by decide
      simp only [Option.bind_some, this, numN, Option.some.injEq, Value.num.injEq] at hq
      subst hq
      exact ⟨rfl, by decide⟩

theorem isIdx_idxP (n : String) : IsIdx (idxP n) := ⟨rfl, rfl, rfl, Or.inl rfl⟩
theorem isIdx_idx0P (n : String) : IsIdx (idx0P n) := ⟨rfl, rfl, rfl, Or.inr rfl⟩
theorem isIdx_idxEndP (n : String) : IsIdx (idxEndP n) := ⟨rfl, rfl, rfl, Or.inl rfl⟩

/-! ## body lemmas: on validated arguments the Python-shaped body is the reference operation -/

/-- `if index >= len: fail` followed by a Python item access, for a natural index -/
theorem index_core {α β} (xs : List α) (q : Rat) (hq : q.den = 1) (h0 : 0 ≤ q.num) (A : β) (B : Nat → β) :
    (if rle (ofNat xs.length) q = true then A else match pyIdx xs.length (pyInt q) with
      | some i => B i
      | none => A) = if nat q < xs.length then B (nat q) else A := by
  simp only [rle_ofNat hq, pyInt_int hq, pyIdx_nat _ h0, nat]
  by_cases hlt : (xs.length : Int) ≤ q.num
  · have : ¬ q.num.toNat < xs.length := by omega
    simp [hlt, this]
  · have : q.num.toNat < xs.length := by omega
    simp [hlt, this]

theorem arrayGet_body (args : List Value) (h : Heap) (va : List VArg)
    (hv : validate h [arrP "array", idxP "index"] args = some va) : arrayGetB va h = arrayGetS va h := by
  unfold arrayGetB
  split
  · rename_i r q
    obtain ⟨hq, h0⟩ := idx_nat (isIdx_idxP "index") (validate_num h _ _ _ hv 1 _ q rfl rfl rfl)
    simp only [arrayGetS]
    cases hx : getArr h r with
    | none => rfl
    | some xs =>
      simp only [rle_ofNat hq, pyInt_int hq, pyGetItem_nat _ h0, nat]
      by_cases hlt : (xs.length : Int) ≤ q.num
      · have : xs[q.num.toNat]? = none := by
          apply List.getElem?_eq_none; omega
        simp [hlt, this]
      · simp only [hlt, decide_false, Bool.false_eq_true, if_false]
        split <;> simp_all
  · unfold arrayGetS
    split
    · simp_all
    · rfl

theorem stringCharCodeAt_body (args : List Value) (h : Heap) (va : List VArg)
    (hv : validate h [strP "string", idxP "index"] args = some va) : stringCharCodeAtB va h = stringCharCodeAtS va h := by
  unfold stringCharCodeAtB
  split
  · rename_i s q
    obtain ⟨hq, h0⟩ := idx_nat (isIdx_idxP "index") (validate_num h _ _ _ hv 1 _ q rfl rfl rfl)
    simp only [stringCharCodeAtS]
    simp only [rle_ofNat hq, pyInt_int hq, pyGetItem_nat _ h0, nat]
    by_cases hlt : ((chars s).length : Int) ≤ q.num
    · have : (chars s)[q.num.toNat]? = none := by
        apply List.getElem?_eq_none; omega
      simp [hlt, this]
    · simp only [hlt, decide_false, Bool.false_eq_true, if_false]
      split <;> simp_all
  · unfold stringCharCodeAtS
    split
    · simp_all
    · rfl

theorem arrayDelete_body (args : List Value) (h : Heap) (va : List VArg)
    (hv : validate h [arrP "array", idxP "index"] args = some va) : arrayDeleteB va h = arrayDeleteS va h := by
  unfold arrayDeleteB
  split
  · rename_i r q
    obtain ⟨hq, h0⟩ := idx_nat (isIdx_idxP "index") (validate_num h _ _ _ hv 1 _ q rfl rfl rfl)
    simp only [arrayDeleteS]
    cases hx : getArr h r with
    | none => rfl
    | some xs =>
      simp only [pyDelItem]
      have := index_core xs q hq h0 (Eff.fail .null) (fun i => Eff.store r (.arr (xs.eraseIdx i)) .null)
      rw [← this]
      congr 1
      cases pyIdx xs.length (pyInt q) <;> rfl
  · unfold arrayDeleteS
    split
    · simp_all
    · rfl

theorem arraySet_body (args : List Value) (h : Heap) (va : List VArg)
    (hv : validate h [arrP "array", idxP "index", anyP "value"] args = some va) : arraySetB va h = arraySetS va h := by
  unfold arraySetB
  split
  · rename_i r q v
    obtain ⟨hq, h0⟩ := idx_nat (isIdx_idxP "index") (validate_num h _ _ _ hv 1 _ q rfl rfl rfl)
    simp only [arraySetS]
    cases hx : getArr h r with
    | none => rfl
    | some xs =>
      simp only [pySetItem]
      have := index_core xs q hq h0 (Eff.fail .null) (fun i => Eff.store r (.arr (xs.set i v)) v)
      rw [← this]
      congr 1
      cases pyIdx xs.length (pyInt q) <;> rfl
  · unfold arraySetS
    split
    · simp_all
    · rfl

theorem arrayNewSize_body (args : List Value) (h : Heap) (va : List VArg)
    (hv : validate h [idx0P "size", { anyP "value" with default := some "0" }] args = some va) :
    arrayNewSizeB va h = arrayNewSizeS va h := by
  unfold arrayNewSizeB
  split
  · rename_i q v
    obtain ⟨hq, h0⟩ := idx_nat (isIdx_idx0P "size") (validate_num h _ _ _ hv 0 _ q rfl rfl rfl)
    simp only [arrayNewSizeS, pyInt_int hq, nat]
  · unfold arrayNewSizeS
    split
    · simp_all
    · rfl

theorem stringRepeat_body (args : List Value) (h : Heap) (va : List VArg)
    (hv : validate h [strP "string", idxP "count"] args = some va) : stringRepeatB va h = stringRepeatS va h := by
  unfold stringRepeatB
  split
  · rename_i s q
    obtain ⟨hq, h0⟩ := idx_nat (isIdx_idxP "count") (validate_num h _ _ _ hv 1 _ q rfl rfl rfl)
    simp only [stringRepeatS, pyInt_int hq, nat]
  · unfold stringRepeatS
    split
    · simp_all
    · rfl

/-- the two range tests followed by a Python slice, for natural bounds -/
theorem slice_core {α β} (xs : List α) (s e : Rat) (hs : s.den = 1) (hs0 : 0 ≤ s.num) (he : e.den = 1) (he0 : 0 ≤ e.num)
    (A : β) (B : List α → β) :
    (if rlt (ofNat xs.length) s = true then A else if rlt (ofNat xs.length) e = true then A
      else B (pySlice xs (pyInt s) (pyInt e))) =
    if nat s ≤ xs.length ∧ nat e ≤ xs.length then B (sliceN xs (nat s) (nat e)) else A := by
  simp only [rlt_ofNat hs, rlt_ofNat he, pyInt_int hs, pyInt_int he, pySlice, pyAdj_nat _ hs0, pyAdj_nat _ he0, nat, sliceN]
  by_cases h1 : (xs.length : Int) < s.num
  · have : ¬ s.num.toNat ≤ xs.length := by omega
    simp [h1, this]
  · by_cases h2 : (xs.length : Int) < e.num
    · have : ¬ e.num.toNat ≤ xs.length := by omega
      simp [h1, h2, this]
    · have h3 : s.num.toNat ≤ xs.length := by omega
      have h4 : e.num.toNat ≤ xs.length := by omega
      simp [h1, h2, h3, h4, Nat.min_eq_left h3, Nat.min_eq_left h4]

theorem ofNat_den (n : Nat) : (ofNat n).den = 1 := rfl
theorem ofNat_num (n : Nat) : (ofNat n).num = n := rfl

theorem arraySlice_body (args : List Value) (h : Heap) (va : List VArg)
    (hv : validate h [arrP "array", idx0P "start", idxEndP "end"] args = some va) : arraySliceB va h = arraySliceS va h := by
  unfold arraySliceB
  split
  · rename_i r s e
    obtain ⟨hs, hs0⟩ := idx_nat (isIdx_idx0P "start") (validate_num h _ _ _ hv 1 _ s rfl rfl rfl)
    simp only [arraySliceS]
    cases hx : getArr h r with
    | none => rfl
    | some xs =>
      cases e with
      | null =>
        simp only [endOr, endN]
        have := slice_core xs s (ofNat xs.length) hs hs0 (ofNat_den _) (by simp [ofNat_num]) (Eff.fail .null)
          (fun ys => Eff.alloc (.arr ys))
        simpa [nat, ofNat_num] using this
      | num qe =>
        obtain ⟨he, he0⟩ := idx_nat (isIdx_idxEndP "end") (validate_num h _ _ _ hv 2 _ qe rfl rfl rfl)
        simp only [endOr, endN]
        exact slice_core xs s qe hs hs0 he he0 (Eff.fail .null) (fun ys => Eff.alloc (.arr ys))
      | _ => rfl
  · unfold arraySliceS
    split
    · simp_all
    · rfl

theorem stringSlice_body (args : List Value) (h : Heap) (va : List VArg)
    (hv : validate h [strP "string", idxP "start", idxEndP "end"] args = some va) : stringSliceB va h = stringSliceS va h := by
  unfold stringSliceB
  split
  · rename_i s b e
    obtain ⟨hs, hs0⟩ := idx_nat (isIdx_idxP "start") (validate_num h _ _ _ hv 1 _ b rfl rfl rfl)
    simp only [stringSliceS]
    cases e with
    | null =>
      simp only [endOr, endN]
      have := slice_core (chars s) b (ofNat (chars s).length) hs hs0 (ofNat_den _) (by simp [ofNat_num]) (Eff.fail .null)
        (fun ys => Eff.ret (mkStr ys))
      simpa [nat, ofNat_num] using this
    | num qe =>
      obtain ⟨he, he0⟩ := idx_nat (isIdx_idxEndP "end") (validate_num h _ _ _ hv 2 _ qe rfl rfl rfl)
      simp only [endOr, endN]
      exact slice_core (chars s) b qe hs hs0 he he0 (Eff.fail .null) (fun ys => Eff.ret (mkStr ys))
    | _ => rfl
  · unfold stringSliceS
    split
    · simp_all
    · rfl

theorem stringIndexOf_body (args : List Value) (h : Heap) (va : List VArg)
    (hv : validate h [strP "string", strP "search", idx0P "index"] args = some va) :
    stringIndexOfB va h = stringIndexOfS va h := by
  unfold stringIndexOfB
  split
  · rename_i s t q
    obtain ⟨hq, h0⟩ := idx_nat (isIdx_idx0P "index") (validate_num h _ _ _ hv 2 _ q rfl rfl rfl)
    simp only [stringIndexOfS, rle_ofNat hq, pyInt_int hq, nat, pyFind]
    by_cases hlt : ((chars s).length : Int) ≤ q.num
    · have : ¬ q.num.toNat < (chars s).length := by omega
      simp [hlt, this]
    · have h1 : q.num.toNat < (chars s).length := by omega
      have h2 : ¬ (chars s).length < q.num.toNat := by omega
      have h3 : ¬ q.num < 0 := by omega
      simp [hlt, h1, h2, h3]
  · unfold stringIndexOfS
    split
    · simp_all
    · rfl

theorem take_min_length {α} (xs : List α) (n : Nat) : xs.take (min n xs.length) = xs.take n := by
  by_cases h : n ≤ xs.length
  · rw [Nat.min_eq_left h]
  · have h' : xs.length ≤ n := by omega
    rw [Nat.min_eq_right h', List.take_of_length_le h', List.take_of_length_le (Nat.le_refl _)]

/-- the backward text search for a start index `i < length` -/
theorem rfind_core (s t : List Char) (q : Rat) (hq : q.den = 1) (h0 : 0 ≤ q.num) (A : Eff) :
    (if rle (ofNat s.length) q = true then A else Eff.ret (numI (pyRFind s t (pyInt q + t.length)))) =
    if nat q < s.length then Eff.ret (numI (optIdx (lastMatch t (s.take (nat q + t.length)) 0))) else A := by
  simp only [rle_ofNat hq, pyInt_int hq, nat, pyRFind]
  by_cases hlt : (s.length : Int) ≤ q.num
  · have : ¬ q.num.toNat < s.length := by omega
    simp [hlt, this]
  · have h1 : q.num.toNat < s.length := by omega
    have h2 : (0 : Int) ≤ q.num + t.length := by omega
    have h3 : (q.num + (t.length : Int)).toNat = q.num.toNat + t.length := by omega
    simp [hlt, h1, pyAdj_nat _ h2, h3, take_min_length]

theorem stringLastIndexOf_body (args : List Value) (h : Heap) (va : List VArg)
    (hv : validate h [strP "string", strP "search", idxEndP "index"] args = some va) :
    stringLastIndexOfB va h = stringLastIndexOfS va h := by
  unfold stringLastIndexOfB
  split
  · rename_i s t ix
    simp only [stringLastIndexOfS]
    cases ix with
    | null =>
      simp only [idxOr, lastStart]
      by_cases hlen : (chars s).length = 0
      · have hnil : chars s = [] := List.eq_nil_of_length_eq_zero hlen
        simp [hnil, rle, ofNat, Rat.ofInt, pyRFind, pyInt, pyAdj]
      · have h1 : (Rat.ofInt (((chars s).length : Int) - 1)).den = 1 := rfl
        have h2 : (0 : Int) ≤ (Rat.ofInt (((chars s).length : Int) - 1)).num := by
          show (0 : Int) ≤ ((chars s).length : Int) - 1
          omega
        have := rfind_core (chars s) (chars t) _ h1 h2 (Eff.fail (numI (-1)))
        have h3 : nat (Rat.ofInt (((chars s).length : Int) - 1)) = (chars s).length - 1 := by
          show (((chars s).length : Int) - 1).toNat = (chars s).length - 1
          omega
        rw [h3] at this
        simp only [hlen, if_false]
        exact this
    | num q =>
      obtain ⟨hq, h0⟩ := idx_nat (isIdx_idxEndP "index") (validate_num h _ _ _ hv 2 _ q rfl rfl rfl)
      simp only [idxOr, lastStart]
      exact rfind_core (chars s) (chars t) q hq h0 _
    | _ => rfl
  · unfold stringLastIndexOfS
    split
    · simp_all
    · rfl

/-! ### the two array searches -/

theorem searchRes_map (x : Option (Option Nat)) : searchRes (x.map (Option.map Int.ofNat)) = searchResN x := by
  rcases x with _ | _ | i <;> simp [searchRes, searchResN, numI, numN]

/-- the forward loop `for ix in range(a, len)` is the reference search in `xs.drop a` -/
theorem searchIdx_up (h : Heap) (xs : List Value) (v : Value) : ∀ (n a : Nat), a + n = xs.length →
    searchIdx h xs v ((List.range n).map (fun (k : Nat) => (a : Int) + (k : Int))) =
      (indexOfN h v (xs.drop a) a).map (Option.map Int.ofNat)
  | 0, a, ha => by
    have : xs.drop a = [] := List.drop_eq_nil_of_le (by omega)
    simp [searchIdx, this, indexOfN]
  | n + 1, a, ha => by
    have hlt : a < xs.length := by omega
    rw [List.range_succ_eq_map, List.map_cons, List.map_map]
    rw [List.drop_eq_getElem_cons hlt]
    simp only [searchIdx, indexOfN]
    have e0 : (a : Int) + ((0 : Nat) : Int) = (a : Int) := by omega
    rw [e0, pyGetItem_nat _ (by omega)]
    simp only [Int.toNat_natCast, List.getElem?_eq_getElem hlt]
    have hrec := searchIdx_up h xs v n (a + 1) (by omega)
    have hmap : (List.range n).map ((fun (k : Nat) => (a : Int) + (k : Int)) ∘ Nat.succ) =
        (List.range n).map (fun (k : Nat) => ((a + 1 : Nat) : Int) + (k : Int)) := by
      apply List.map_congr_left
      intro k _
      simp only [Function.comp, Nat.succ_eq_add_one]
      omega
    rw [hmap, hrec]
    cases valueCompare h xs[a] v with
    | none => rfl
    | some c => by_cases hc : c = 0 <;> simp [hc]

theorem arrayIndexOf_body (args : List Value) (h : Heap) (va : List VArg)
    (hv : validate h [arrP "array", anyP "value", idx0P "index"] args = some va) :
    arrayIndexOfB va h = arrayIndexOfS va h := by
  unfold arrayIndexOfB
  split
  · rename_i r v q
    obtain ⟨hq, h0⟩ := idx_nat (isIdx_idx0P "index") (validate_num h _ _ _ hv 2 _ q rfl rfl rfl)
    simp only [arrayIndexOfS]
    cases hx : getArr h r with
    | none => rfl
    | some xs =>
      simp only [rle_ofNat hq, pyInt_int hq, nat]
      by_cases hlt : (xs.length : Int) ≤ q.num
      · have : ¬ q.num.toNat < xs.length := by omega
        simp [hlt, this]
      · have h1 : q.num.toNat < xs.length := by omega
        simp only [hlt, decide_false, Bool.false_eq_true, if_false, h1, if_true]
        have hr : pyRange q.num (xs.length : Int) =
            (List.range (xs.length - q.num.toNat)).map (fun (k : Nat) => ((q.num.toNat : Nat) : Int) + (k : Int)) := by
          unfold pyRange
          have e1 : ((xs.length : Int) - q.num).toNat = xs.length - q.num.toNat := by omega
          have e2 : ((q.num.toNat : Nat) : Int) = q.num := by omega
          rw [e1, e2]
        have hs := searchIdx_up h xs v (xs.length - q.num.toNat) q.num.toNat (by omega)
        cases v <;> simp only [hr, hs, searchRes_map]
  · unfold arrayIndexOfS
    split
    · simp_all
    · rfl

/-- the backward loop `for ix in range(n-1, -1, -1)` is the reference search below `n` -/
theorem searchIdx_down (h : Heap) (xs : List Value) (v : Value) : ∀ (n : Nat),
    searchIdx h xs v ((List.range n).map (fun (k : Nat) => ((n : Int) - 1) - (k : Int))) =
      (lastIndexOfN h v xs n).map (Option.map Int.ofNat)
  | 0 => by simp [searchIdx, lastIndexOfN]
  | n + 1 => by
    rw [List.range_succ_eq_map, List.map_cons, List.map_map]
    simp only [searchIdx, lastIndexOfN]
    have e0 : ((n + 1 : Nat) : Int) - 1 - ((0 : Nat) : Int) = (n : Int) := by omega
    rw [e0, pyGetItem_nat _ (by omega)]
    simp only [Int.toNat_natCast]
    have hmap : (List.range n).map ((fun (k : Nat) => (((n + 1 : Nat) : Int) - 1) - (k : Int)) ∘ Nat.succ) =
        (List.range n).map (fun (k : Nat) => ((n : Int) - 1) - (k : Int)) := by
      apply List.map_congr_left
      intro k _
      simp only [Function.comp, Nat.succ_eq_add_one]
      omega
    rw [hmap, searchIdx_down h xs v n]
    cases xs[n]? with
    | none => rfl
    | some x =>
      simp only
      cases valueCompare h x v with
      | none => rfl
      | some c => by_cases hc : c = 0 <;> simp [hc]

theorem pyRangeDown_nat (i : Nat) :
    pyRangeDown (i : Int) = (List.range (i + 1)).map (fun (k : Nat) => (((i + 1 : Nat) : Int) - 1) - (k : Int)) := by
  unfold pyRangeDown
  have e1 : ((i : Int) + 1).toNat = i + 1 := by omega
  rw [e1]
  apply List.map_congr_left
  intro k _
  omega

/-- the backward array search for a start index `i < length` -/
theorem rsearch_core (h : Heap) (xs : List Value) (v : Value) (q : Rat) (hq : q.den = 1) (h0 : 0 ≤ q.num) (A : Eff) :
    (if rle (ofNat xs.length) q = true then A else match v with
      | .fn _ => Eff.unmodelled
      | v => searchRes (searchIdx h xs v (pyRangeDown (pyInt q)))) =
    if nat q < xs.length then (match v with
      | .fn _ => Eff.unmodelled
      | v => searchResN (lastIndexOfN h v xs (nat q + 1))) else A := by
  simp only [rle_ofNat hq, pyInt_int hq, nat]
  by_cases hlt : (xs.length : Int) ≤ q.num
  · have : ¬ q.num.toNat < xs.length := by omega
    simp [hlt, this]
  · have h1 : q.num.toNat < xs.length := by omega
    simp only [hlt, decide_false, Bool.false_eq_true, if_false, h1, if_true]
    have hr : pyRangeDown q.num =
        (List.range (q.num.toNat + 1)).map (fun (k : Nat) => (((q.num.toNat + 1 : Nat) : Int) - 1) - (k : Int)) := by
      have e2 : q.num = ((q.num.toNat : Nat) : Int) := by omega
      conv => lhs; rw [e2]
      exact pyRangeDown_nat _
    cases v <;> simp only [hr, searchIdx_down, searchRes_map]

theorem arrayLastIndexOf_body (args : List Value) (h : Heap) (va : List VArg)
    (hv : validate h [arrP "array", anyP "value", idxEndP "index"] args = some va) :
    arrayLastIndexOfB va h = arrayLastIndexOfS va h := by
  unfold arrayLastIndexOfB
  split
  · rename_i r v ix
    simp only [arrayLastIndexOfS]
    cases hx : getArr h r with
    | none => rfl
    | some xs =>
      cases ix with
      | null =>
        simp only [idxOr, lastStart]
        by_cases hlen : xs.length = 0
        · have hnil : xs = [] := List.eq_nil_of_length_eq_zero hlen
          subst hnil
          cases v <;> simp [rle, ofNat, Rat.ofInt, pyInt, pyRangeDown, searchIdx, searchRes]
        · have h1 : (Rat.ofInt ((xs.length : Int) - 1)).den = 1 := rfl
          have h2 : (0 : Int) ≤ (Rat.ofInt ((xs.length : Int) - 1)).num := by
            show (0 : Int) ≤ (xs.length : Int) - 1
            omega
          have := rsearch_core h xs v _ h1 h2 (Eff.fail (numI (-1)))
          have h3 : nat (Rat.ofInt ((xs.length : Int) - 1)) = xs.length - 1 := by
            show ((xs.length : Int) - 1).toNat = xs.length - 1
            omega
          rw [h3] at this
          simp only [hlen, if_false]
          exact this
      | num q =>
        obtain ⟨hq, h0⟩ := idx_nat (isIdx_idxEndP "index") (validate_num h _ _ _ hv 2 _ q rfl rfl rfl)
        simp only [idxOr, lastStart]
        exact rsearch_core h xs v q hq h0 _
      | _ => rfl
  · unfold arrayLastIndexOfS
    split
    · simp_all
    · rfl

end C15
