import BareProofs.C01Host
import BareProofs.C09TermHosts

/-!
# Helper lemmas for `C01Syn` — a value-flow invariant for "no library call of the run reaches the globals by computed name"

The run-level side condition of the C01 theorems on the concrete hosts (`C01.touchesReserved … = false`) says that no library
call names a parser-generated global.  The only library functions of `HostImpl.host` / `HostLib.hostLib` that reach the
globals by a *computed* name are `systemGlobalGet` and `systemGlobalSet`.  This file proves, for a list `F` of such
*forbidden* library names:

* definitions: `clean F v` (the value is not one of the forbidden library function values), `fbName F n` (the identifier
  spells a forbidden name), `EnvOK` (every binding of an environment holds a clean value **or** is bound under a forbidden
  identifier — the initial globals bind `systemGlobalGet ↦ fn (lib "systemGlobalGet")`, and that binding can only be reached
  by that identifier), `StOK` (globals `EnvOK`, world invariant), the syntactic predicates `nmE` / `nmStmt` / `nmP` on jump
  level code and `nmS` / `nmB` / `nmEl` on structured programs (no *read* of a forbidden identifier: as a variable, as the
  name of a called function, as the index variable of a `for`);
* `TreeC`: a library interaction tree that issues **no** `globalGet` / `globalSet` request at all, hands only clean values to
  call-backs and to the script, keeps the world invariant, and never raises the guard's error; `HostClean`: every tree of
  the host is `TreeC` when the function called is not forbidden and the arguments are clean, and the operators never
  fabricate a forbidden function value;
* **`run_good`**: under `CfgClean` (such a host, a function table and fetched scripts that satisfy `nmP`) every step of
  `callValue₀` / `execM₀` / `execIncludes₀` preserves the invariant, and no run ends with the guard's error;
* `hostClean_guard`: the guarded host of a `HostClean` host is `HostClean` (its trees are literally unchanged);
* `hostImpl_clean`, `hostLib_clean`: the two concrete hosts are `HostClean` for `F = [systemGlobalGet, systemGlobalSet]`
  (all 18 functions of `HostImpl`; for `HostLib` through `C09.LibParam.lib_q`: `Lib` never fabricates function values);
* `lowerB_nm`: the lowering of a structured program that reads no forbidden identifier reads none;
* **`pure_good`**: the same invariant for the pure source-level reading (`callS` / `execSS` / `execSB` / `execSE` / `forS`),
  for every structured program that reads no forbidden identifier.
-/

set_option linter.unusedSimpArgs false
set_option linter.unusedSectionVars false
set_option linter.unusedVariables false

namespace C01Syn
open Machine StructuredS Lower Structured C01

variable {W : Type}

/-! ## forbidden functions, clean values, admissible environments -/

section Defs
variable (F : List String)

/-- the function value is one of the forbidden library functions -/
def fbFn : FnVal → Bool
  | .lib n => F.contains n
  | _ => false

/-- the value is not a forbidden library function value -/
def clean : Value → Bool
  | .fn f => !fbFn F f
  | _ => true

/-- the identifier spells the name of a forbidden library function -/
def fbName : Name → Bool
  | .user s => F.contains s
  | .gen _ _ => false

def CleanL (xs : List Value) : Prop := ∀ x ∈ xs, clean F x = true

/-- every binding holds a clean value, or sits under a forbidden identifier (where no admissible program looks) -/
def EnvOK (e : Env) : Prop := ∀ p ∈ e, clean F p.2 = true ∨ fbName F p.1 = true

def LocOK : Option Env → Prop
  | none => True
  | some l => EnvOK F l

/-- state invariant: admissible globals, admissible world; the statement counter is irrelevant -/
def StOK (okW : W → Prop) (st : State W) : Prop := EnvOK F st.globals ∧ okW st.world

instance (xs : List Value) : Decidable (CleanL F xs) := by unfold CleanL; infer_instance
instance (e : Env) : Decidable (EnvOK F e) := by unfold EnvOK; infer_instance

theorem cleanL_nil : CleanL F [] := fun _ h => by cases h

theorem cleanL_cons {v : Value} {vs : List Value} (h1 : clean F v = true) (h2 : CleanL F vs) : CleanL F (v :: vs) := by
  intro x hx
  rcases List.mem_cons.1 hx with h | h
  · rw [h]; exact h1
  · exact h2 x h

theorem cleanL_append {xs ys : List Value} (h1 : CleanL F xs) (h2 : CleanL F ys) : CleanL F (xs ++ ys) := by
  intro x hx
  rcases List.mem_append.1 hx with h | h
  · exact h1 x h
  · exact h2 x h

theorem cleanL_tail {xs : List Value} (h : CleanL F xs) : CleanL F xs.tail :=
  fun x hx => h x (List.mem_of_mem_tail hx)

theorem clean_headD {xs : List Value} (h : CleanL F xs) : clean F (xs.head?.getD .null) = true := by
  cases xs with
  | nil => rfl
  | cons x r => exact h x List.mem_cons_self

theorem envOK_nil : EnvOK F [] := fun _ h => by cases h

theorem envOK_set {e : Env} (he : EnvOK F e) (n : Name) {v : Value} (hv : clean F v = true) : EnvOK F (e.set n v) := by
  induction e with
  | nil =>
    intro p hp
    simp only [Env.set, List.mem_singleton] at hp
    subst hp; exact Or.inl hv
  | cons q r ih =>
    obtain ⟨k, x⟩ := q
    simp only [Env.set]
    split
    · intro p hp
      rcases List.mem_cons.1 hp with h | h
      · subst h; exact Or.inl hv
      · exact he p (List.mem_cons_of_mem _ h)
    · intro p hp
      rcases List.mem_cons.1 hp with h | h
      · subst h; exact he _ List.mem_cons_self
      · exact ih (fun p hp => he p (List.mem_cons_of_mem _ hp)) p h

theorem get?_clean {e : Env} (he : EnvOK F e) {n : Name} (hn : fbName F n = false) {v : Value} (h : e.get? n = some v) :
    clean F v = true := by
  unfold Env.get? at h
  cases hf : e.find? (·.1 == n) with
  | none => rw [hf] at h; cases h
  | some p =>
    rw [hf] at h
    simp only [Option.map_some, Option.some.injEq] at h
    subst h
    have hm := List.mem_of_find?_eq_some hf
    have hk := List.find?_some hf
    rcases he p hm with h1 | h1
    · exact h1
    · have : p.1 = n := by simpa using hk
      rw [this, hn] at h1; cases h1

theorem clean_getD {o : Option Value} (h : ∀ v, o = some v → clean F v = true) : clean F (o.getD .null) = true := by
  cases o with
  | none => rfl
  | some v => exact h v rfl

theorem lookupVar_clean {l : Option Env} {g : Env} (hl : LocOK F l) (hg : EnvOK F g) {n : Name} (hn : fbName F n = false) :
    clean F (lookupVar l g n) = true := by
  unfold lookupVar
  cases l with
  | none => exact clean_getD F fun v h => get?_clean F hg hn h
  | some l =>
    simp only
    split
    · exact clean_getD F fun v h => get?_clean F hl hn h
    · exact clean_getD F fun v h => get?_clean F hg hn h

theorem lookupFunc_clean {c : Config W} (hb : ∀ n f, c.host.builtin n = some f → clean F (.fn f) = true)
    {l : Option Env} {g : Env} (hl : LocOK F l) (hg : EnvOK F g) {n : Name} (hn : fbName F n = false) {v : Value}
    (h : lookupFunc c l g n = some v) : clean F v = true := by
  have hvia : ∀ v, (if g.contains n then g.get? n else if c.builtins then (c.host.builtin n).map Value.fn else none) = some v →
      clean F v = true := by
    intro v hv
    split at hv
    · exact get?_clean F hg hn hv
    · split at hv
      · cases hbn : c.host.builtin n with
        | none => rw [hbn] at hv; cases hv
        | some f => rw [hbn] at hv; cases hv; exact hb n f hbn
      · cases hv
  unfold lookupFunc at h
  cases l with
  | none => exact hvia v h
  | some l =>
    simp only at h
    split at h
    · exact get?_clean F hl hn h
    · exact hvia v h

/-! ## the syntactic predicate on jump-level code -/

mutual
/-- the expression reads no forbidden identifier (as a variable or as the name of a called function) -/
def nmE : Expr → Bool
  | .number _ => true
  | .string _ => true
  | .variable n => !fbName F n
  | .function n args => !fbName F n && nmEs args
  | .binary _ l r => nmE l && nmE r
  | .unary _ e => nmE e
  | .group e => nmE e
def nmEs : List Expr → Bool
  | [] => true
  | a :: as => nmE a && nmEs as
end

def nmEO : Option Expr → Bool
  | none => true
  | some e => nmE F e

/-- a statement reads no forbidden identifier; `inc` = include statements are admitted (then the fetched scripts must satisfy
the predicate too, `CfgClean.fetch`).  The body carried by a `function` statement is not looked at: a call runs the table
entry (`CfgClean.funs`). -/
def nmStmt (inc : Bool) : Stmt → Bool
  | .expr _ e => nmE F e
  | .jump _ c => nmEO F c
  | .ret e => nmEO F e
  | .label _ => true
  | .function _ _ _ _ _ _ => true
  | .include _ => inc

def nmP (inc : Bool) (P : List Stmt) : Bool := P.all (nmStmt F inc)

theorem nmP_get {inc : Bool} {P : List Stmt} (h : nmP F inc P = true) {pc : Nat} {s : Stmt} (hs : P[pc]? = some s) :
    nmStmt F inc s = true :=
  List.all_eq_true.1 h s (List.mem_of_getElem? hs)

theorem nmP_append (inc : Bool) (P Q : List Stmt) : nmP F inc (P ++ Q) = (nmP F inc P && nmP F inc Q) := by
  simp only [nmP, List.all_append]

theorem nmP_nil (inc : Bool) : nmP F inc [] = true := rfl

theorem nmP_cons (inc : Bool) (s : Stmt) (P : List Stmt) : nmP F inc (s :: P) = (nmStmt F inc s && nmP F inc P) := by
  simp only [nmP, List.all_cons]

/-! ## outcomes that keep the invariant and are not the guard's error -/

variable (okW : W → Prop)

def GoodOut : Out W → Prop
  | .ok v st => clean F v = true ∧ StOK F okW st
  | .err e _ => e ≠ .host reservedMsg
  | .oof => True

def GoodArgs : ArgsOut W → Prop
  | .ok vs st => CleanL F vs ∧ StOK F okW st
  | .err e _ => e ≠ .host reservedMsg
  | .oof => True

def GoodRes : Res W → Prop
  | .done st => StOK F okW st
  | .ret v st => clean F v = true ∧ StOK F okW st
  | .err e _ => e ≠ .host reservedMsg
  | .oof => True

def GoodStep : C18.Step W → Prop
  | .next l st => LocOK F l ∧ StOK F okW st
  | .goto _ st => StOK F okW st
  | .halt r => GoodRes F okW r

/-- the call runner keeps the invariant -/
def GoodCall (call : CallFn W) : Prop :=
  ∀ f args st, clean F f = true → CleanL F args → StOK F okW st → GoodOut F okW (call f args st)

variable {F okW}

theorem GoodOut.bind {o : Out W} (h : GoodOut F okW o) {G : Value → State W → Out W}
    (hG : ∀ v s, clean F v = true → StOK F okW s → GoodOut F okW (G v s)) : GoodOut F okW (o.bind G) := by
  cases o with
  | ok v s => exact hG v s h.1 h.2
  | err e s => exact h
  | oof => trivial

theorem GoodOut.bindA {o : Out W} (h : GoodOut F okW o) {G : Value → State W → ArgsOut W}
    (hG : ∀ v s, clean F v = true → StOK F okW s → GoodArgs F okW (G v s)) : GoodArgs F okW (o.bindA G) := by
  cases o with
  | ok v s => exact hG v s h.1 h.2
  | err e s => exact h
  | oof => trivial

theorem GoodArgs.bindO {o : ArgsOut W} (h : GoodArgs F okW o) {G : List Value → State W → Out W}
    (hG : ∀ vs s, CleanL F vs → StOK F okW s → GoodOut F okW (G vs s)) : GoodOut F okW (o.bindO G) := by
  cases o with
  | ok v s => exact hG v s h.1 h.2
  | err e s => exact h
  | oof => trivial

theorem goodOut_touches {o : Out W} (h : GoodOut F okW o) : touchesReservedO o = false := by
  cases o with
  | ok v s => rfl
  | oof => rfl
  | err e s =>
    cases e <;> try rfl
    rename_i m
    simp only [touchesReservedO, beq_eq_false_iff_ne, ne_eq]
    intro hm; exact h (by rw [hm])

theorem goodRes_touches {r : Res W} (h : GoodRes F okW r) : touchesReserved r = false := by
  cases r with
  | done s => rfl
  | ret v s => rfl
  | oof => rfl
  | err e s =>
    cases e <;> try rfl
    rename_i m
    simp only [touchesReserved, beq_eq_false_iff_ne, ne_eq]
    intro hm; exact h (by rw [hm])

end Defs

/-! ## library trees that never reach the globals; hosts whose trees are such -/

section Trees
variable (F : List String) (okW : W → Prop)

/-- the tree issues **no** `globalGet` / `globalSet` request, hands only clean values (function value and arguments) to its
call-backs and a clean value back to the script, every world it passes on satisfies the world invariant — given that the
answers of its call-backs are clean and the worlds they hand back satisfy the invariant — and it does not raise the guard's
error -/
inductive TreeC : LibTree W → Prop
  | ret (out : LibOut) (w : W) : okW w → (∀ v, out.val? = some v → clean F v = true) → out ≠ .rt reservedMsg →
      TreeC (.ret out w)
  | call (f : Value) (args : List Value) (w : W) (k : Value → W → LibTree W) :
      okW w → clean F f = true → CleanL F args → (∀ v w', clean F v = true → okW w' → TreeC (k v w')) →
      TreeC (.call f args w k)

/-- what the invariant needs from a host -/
structure HostClean (h : Host W) : Prop where
  binop : ∀ op a b w, clean F (h.binop op a b w) = true
  neg : ∀ v, clean F (h.neg v) = true
  notCallable : ∀ v w, okW w → okW (h.notCallable v w)
  logFailure : ∀ w, okW w → okW (h.logFailure w)
  newArray : ∀ xs w, okW w → CleanL F xs → clean F (h.newArray xs w).1 = true ∧ okW (h.newArray xs w).2
  builtin : ∀ n f, h.builtin n = some f → clean F (.fn f) = true
  lib : ∀ name args w, okW w → F.contains name = false → CleanL F args → TreeC F okW (h.lib name args w)
  other : ∀ k args w, okW w → CleanL F args → TreeC F okW (h.other k args w)

/-- what the invariant needs from a configuration: such a host, and all code that can ever run — the bodies of the function
table, and (when include statements are admitted) the fetched scripts — reads no forbidden identifier -/
structure CfgClean (inc : Bool) (c : Config W) : Prop where
  host : HostClean F okW c.host
  funs : ∀ id fd, c.funs id = some fd → nmP F inc fd.body = true
  fetch : inc = true → ∀ url ss, c.fetch url = .script ss → nmP F inc ss = true

variable {F okW}

/-- guarding a `TreeC` tree leaves it `TreeC` (it has no node the guard could replace on the admissible paths) -/
theorem treeC_guardT {t : LibTree W} (ht : TreeC F okW t) : TreeC F okW (guardT t) := by
  induction ht with
  | ret out w h1 h2 h3 => exact .ret out w h1 h2 h3
  | call f args w k h1 h2 h3 _ ih => exact .call f args w _ h1 h2 h3 ih

/-- **the guarded host of a `HostClean` host is `HostClean`** -/
theorem hostClean_guard {h : Host W} (hh : HostClean F okW h) : HostClean F okW (guard h) :=
  { binop := hh.binop, neg := hh.neg, notCallable := hh.notCallable, logFailure := hh.logFailure, newArray := hh.newArray,
    builtin := hh.builtin,
    lib := fun name args w hw hn ha => treeC_guardT (hh.lib name args w hw hn ha),
    other := fun k args w hw ha => treeC_guardT (hh.other k args w hw ha) }

theorem cfgClean_guard {inc : Bool} {c : Config W} (hc : CfgClean F okW inc c) : CfgClean F okW inc (guardCfg c) :=
  { host := hostClean_guard hc.host, funs := hc.funs, fetch := hc.fetch }

/-! ## the expression evaluator keeps the invariant -/

section Eval
variable {c : Config W} (hh : HostClean F okW c.host) {call : CallFn W} (hcall : GoodCall F okW call)
  {l : Option Env} (hl : LocOK F l)
include hh hcall hl

theorem callLooked_good {n : Name} (hn : fbName F n = false) {vs : List Value} {s : State W} (hvs : CleanL F vs)
    (hs : StOK F okW s) : GoodOut F okW (callLooked call n (lookupFunc c l s.globals n) vs s) := by
  cases hr : lookupFunc c l s.globals n with
  | none => simp only [callLooked]; intro h; cases h
  | some fv =>
    have hfv := lookupFunc_clean F hh.builtin hl hs.1 hn hr
    cases fv with
    | null => simp only [callLooked]; intro h; cases h
    | _ => exact hcall _ vs s hfv hvs hs

mutual
theorem evalExpr_good : ∀ (e : Expr) (st : State W), nmE F e = true → StOK F okW st → GoodOut F okW (evalExpr c call l e st)
  | .number q, st, _, hs => by simp only [evalExpr]; exact ⟨rfl, hs⟩
  | .string q, st, _, hs => by simp only [evalExpr]; exact ⟨rfl, hs⟩
  | .variable n, st, he, hs => by
      simp only [nmE, Bool.not_eq_true'] at he
      simp only [evalExpr]
      split
      · exact ⟨rfl, hs⟩
      · split
        · exact ⟨rfl, hs⟩
        · split
          · exact ⟨rfl, hs⟩
          · exact ⟨lookupVar_clean F hl hs.1 he, hs⟩
  | .function n args, st, he, hs => by
      simp only [nmE, Bool.and_eq_true, Bool.not_eq_true'] at he
      by_cases h : n = kwIf
      · simp only [evalExpr, h, if_true]
        exact evalIf_good args st he.2 hs
      · simp only [evalExpr_function _ _ _ n args _ h]
        refine GoodArgs.bindO (evalArgs_good args st he.2 hs) ?_
        intro vs s hvs hs'
        exact callLooked_good hh hcall hl he.1 hvs hs'
  | .binary op a b, st, he, hs => by
      simp only [nmE, Bool.and_eq_true] at he
      by_cases h1 : op = .and
      · subst h1
        simp only [evalExpr_and]
        refine GoodOut.bind (evalExpr_good a st he.1 hs) ?_
        intro v s hv hs'
        split
        · exact evalExpr_good b s he.2 hs'
        · exact ⟨hv, hs'⟩
      · by_cases h2 : op = .or
        · subst h2
          simp only [evalExpr_or]
          refine GoodOut.bind (evalExpr_good a st he.1 hs) ?_
          intro v s hv hs'
          split
          · exact ⟨hv, hs'⟩
          · exact evalExpr_good b s he.2 hs'
        · simp only [evalExpr_binary _ _ _ op a b _ h1 h2]
          refine GoodOut.bind (evalExpr_good a st he.1 hs) ?_
          intro v s hv hs'
          refine GoodOut.bind (evalExpr_good b s he.2 hs') ?_
          intro v2 s2 hv2 hs2
          exact ⟨hh.binop _ _ _ _, hs2⟩
  | .unary .not a, st, he, hs => by
      simp only [nmE] at he
      simp only [evalExpr_not]
      refine GoodOut.bind (evalExpr_good a st he hs) ?_
      intro v s hv hs'
      exact ⟨rfl, hs'⟩
  | .unary .neg a, st, he, hs => by
      simp only [nmE] at he
      simp only [evalExpr_neg]
      refine GoodOut.bind (evalExpr_good a st he hs) ?_
      intro v s hv hs'
      exact ⟨hh.neg _, hs'⟩
  | .group a, st, he, hs => by
      simp only [nmE] at he
      simp only [evalExpr]
      exact evalExpr_good a st he hs

theorem evalArgs_good : ∀ (as : List Expr) (st : State W), nmEs F as = true → StOK F okW st →
    GoodArgs F okW (evalArgs c call l as st)
  | [], st, _, hs => by simp only [evalArgs]; exact ⟨cleanL_nil F, hs⟩
  | a :: as, st, he, hs => by
      simp only [nmEs, Bool.and_eq_true] at he
      simp only [evalArgs_cons]
      refine GoodOut.bindA (evalExpr_good a st he.1 hs) ?_
      intro v s hv hs'
      have := evalArgs_good as s he.2 hs'
      cases hr : evalArgs c call l as s with
      | ok vs s2 => rw [hr] at this; exact ⟨cleanL_cons F hv this.1, this.2⟩
      | err e s2 => rw [hr] at this; exact this
      | oof => trivial

theorem evalIf_good : ∀ (as : List Expr) (st : State W), nmEs F as = true → StOK F okW st →
    GoodOut F okW (evalIf c call l as st)
  | [], st, _, hs => by simp only [evalIf]; exact ⟨rfl, hs⟩
  | [x], st, he, hs => by
      simp only [nmEs, Bool.and_eq_true] at he
      simp only [evalIf_1]
      refine GoodOut.bind (evalExpr_good x st he.1 hs) ?_
      intro v s hv hs'
      exact ⟨rfl, hs'⟩
  | [x, t], st, he, hs => by
      simp only [nmEs, Bool.and_eq_true] at he
      simp only [evalIf_2]
      refine GoodOut.bind (evalExpr_good x st he.1 hs) ?_
      intro v s hv hs'
      split
      · exact evalExpr_good t s he.2.1 hs'
      · exact ⟨rfl, hs'⟩
  | x :: t :: f :: r, st, he, hs => by
      simp only [nmEs, Bool.and_eq_true] at he
      simp only [evalIf_3]
      refine GoodOut.bind (evalExpr_good x st he.1 hs) ?_
      intro v s hv hs'
      split
      · exact evalExpr_good t s he.2.1 hs'
      · exact evalExpr_good f s he.2.2.1 hs'
end
end Eval

/-! ## library trees, parameter binding -/

theorem runTree_good {c : Config W} (hh : HostClean F okW c.host) {call : CallFn W} (hcall : GoodCall F okW call)
    {t : LibTree W} (ht : TreeC F okW t) : ∀ st : State W, EnvOK F st.globals → GoodOut F okW (runTree c call t st) := by
  induction ht with
  | ret out w hw hv hne =>
    intro st hg
    cases out with
    | ok v => simp only [runTree]; exact ⟨hv v rfl, hg, hw⟩
    | fail v =>
      simp only [runTree]
      refine ⟨hv v rfl, hg, ?_⟩
      show okW (if c.debug then c.host.logFailure w else w)
      split
      · exact hh.logFailure w hw
      · exact hw
    | rt msg =>
      simp only [runTree]
      intro h
      cases h
      exact hne rfl
  | call f args w k hw hf ha _ ih =>
    intro st hg
    simp only [runTree_call]
    refine GoodOut.bind (hcall f args { st with world := w } hf ha ⟨hg, hw⟩) ?_
    intro v s hv hs
    exact ih v s.world hv hs.2 s hs.1

theorem bindArgs_good {h : Host W} (hh : HostClean F okW h) (laa : Bool) :
    ∀ (ps : List Name) (as : List Value) (env : Env) (w : W), CleanL F as → EnvOK F env → okW w →
      EnvOK F (bindArgs h laa ps as env w).1 ∧ okW (bindArgs h laa ps as env w).2
  | [], _, _, _, _, he, hw => ⟨he, hw⟩
  | [p], as, env, w, ha, he, hw => by
      simp only [bindArgs]
      split
      · have := hh.newArray as w hw ha
        exact ⟨envOK_set F he p this.1, this.2⟩
      · exact ⟨envOK_set F he p (clean_headD F ha), hw⟩
  | p :: q :: ps, as, env, w, ha, he, hw => by
      rw [bindArgs]
      exact bindArgs_good hh laa (q :: ps) as.tail _ w (cleanL_tail F ha) (envOK_set F he p (clean_headD F ha)) hw

/-! ## the machine keeps the invariant -/

section Run
variable {inc : Bool} {c : Config W} (hc : CfgClean F okW inc c)
include hc

theorem stepStmt_good {call : CallFn W} (hcall : GoodCall F okW call) {incl : List IncludeScript → State W → Res W}
    (hi : inc = true → ∀ incs s, StOK F okW s → GoodRes F okW (incl incs s)) {l : Option Env} (hl : LocOK F l)
    {s : Stmt} (hs : nmStmt F inc s = true) {st : State W} (hst : StOK F okW st) :
    GoodStep F okW (C18.stepStmt c call incl l s st) := by
  cases s with
  | expr name e =>
    simp only [nmStmt] at hs
    simp only [C18.stepStmt]
    have := evalExpr_good hc.host hcall hl e st hs hst
    cases hr : evalExpr c call l e st with
    | ok v st2 =>
      rw [hr] at this
      cases name with
      | none => exact ⟨hl, this.2⟩
      | some n =>
        cases l with
        | none => exact ⟨trivial, envOK_set F this.2.1 n this.1, this.2.2⟩
        | some l0 => exact ⟨envOK_set F hl n this.1, this.2⟩
    | err e s2 => rw [hr] at this; exact this
    | oof => trivial
  | jump lab cnd =>
    cases cnd with
    | none => exact hst
    | some cnd =>
      simp only [nmStmt, nmEO] at hs
      simp only [C18.stepStmt]
      have := evalExpr_good hc.host hcall hl cnd st hs hst
      cases hr : evalExpr c call l cnd st with
      | ok v st2 =>
        rw [hr] at this
        simp only
        split
        · exact this.2
        · exact ⟨hl, this.2⟩
      | err e s2 => rw [hr] at this; exact this
      | oof => trivial
  | ret e =>
    cases e with
    | none => exact ⟨rfl, hst⟩
    | some e =>
      simp only [nmStmt, nmEO] at hs
      simp only [C18.stepStmt]
      have := evalExpr_good hc.host hcall hl e st hs hst
      cases hr : evalExpr c call l e st with
      | ok v st2 => rw [hr] at this; exact this
      | err e s2 => rw [hr] at this; exact this
      | oof => trivial
  | label lab => exact ⟨hl, hst⟩
  | function fid name args laa isAsync body => exact ⟨hl, envOK_set F hst.1 name rfl, hst.2⟩
  | «include» incs =>
    simp only [nmStmt] at hs
    simp only [C18.stepStmt]
    have := hi hs incs st hst
    cases hr : incl incs st with
    | done st2 => rw [hr] at this; exact ⟨hl, this⟩
    | ret v s2 => rw [hr] at this; exact this
    | err e s2 => rw [hr] at this; exact this
    | oof => trivial

omit hc in
theorem step_run_good {x : C18.Step W} (hx : GoodStep F okW x) (P : List Stmt) {k : Option Env → Nat → State W → Res W}
    (hk : ∀ l pc st, LocOK F l → StOK F okW st → GoodRes F okW (k l pc st)) {l : Option Env} (hl : LocOK F l) (pc : Nat) :
    GoodRes F okW (x.run P k l pc) := by
  cases x with
  | next l1 st => exact hk _ _ _ hx.1 hx.2
  | goto lab st =>
    simp only [C18.Step.run]
    cases findLabel P lab with
    | none => intro h; cases h
    | some i => exact hk _ _ _ hl hx
  | halt r => exact hx

omit hc in
theorem resK_good {r : Res W} (h : GoodRes F okW r) : GoodOut F okW (resK r) := by
  cases r with
  | done s => exact ⟨rfl, h⟩
  | ret v s => exact h
  | err e s => exact h
  | oof => trivial

/-- **the value-flow invariant is preserved by every step of the machine, and no run ends with the guard's error.**
For every fuel: a call of a clean function value with clean arguments from an admissible state yields a clean value and an
admissible state (or a runtime error other than the guard's, or is out of fuel); so does the run of a statement list that
reads no forbidden identifier, from every program counter, with admissible locals; so do include statements. -/
theorem run_good : ∀ fuel : Nat,
    GoodCall F okW (callValue₀ c fuel) ∧
    (∀ P l base pc st, nmP F inc P = true → LocOK F l → StOK F okW st → GoodRes F okW (execM₀ c fuel P l base pc st)) ∧
    (inc = true → ∀ base incs st, StOK F okW st → GoodRes F okW (execIncludes₀ c fuel base incs st)) := by
  intro fuel
  induction fuel with
  | zero =>
    refine ⟨fun f args st _ _ _ => ?_, fun P l base pc st _ _ hst => ?_, fun _ base incs st hst => ?_⟩
    · rw [callValue₀]; trivial
    · cases hs : P[pc]? with
      | none => rw [C18.execM₀_none _ _ _ _ _ _ _ hs]; exact hst
      | some s => rw [C18.execM₀_zero _ _ _ _ _ _ _ hs]; trivial
    · cases incs with
      | nil => rw [execIncludes₀]; exact hst
      | cons i rest =>
        rw [execIncludes₀]
        cases c.fetch (c.resolve base i) with
        | missing => intro h; cases h
        | broken => intro h; cases h
        | script stmts => trivial
  | succ fuel ih =>
    obtain ⟨ihc, ihe, ihi⟩ := ih
    refine ⟨fun f args st hf ha hst => ?_, fun P l base pc st hP hl hst => ?_, fun hinc base incs st hst => ?_⟩
    · -- calls
      have notFn : ∀ v : Value, (∀ fn, v ≠ .fn fn) → GoodOut F okW (callValue₀ c (fuel+1) v args st) := by
        intro v hv
        have h1 : callValue₀ c (fuel+1) v args st = .ok .null { st with world := c.host.notCallable v st.world } := by
          cases v <;> first | exact absurd rfl (hv _) | (rw [callValue₀] <;> (intro _ h; cases h))
        rw [h1]; exact ⟨rfl, hst.1, hc.host.notCallable _ _ hst.2⟩
      cases f with
      | fn fn =>
        cases fn with
        | script id =>
          cases hd : c.funs id with
          | none =>
            have h1 : callValue₀ c (fuel+1) (.fn (.script id)) args st =
                .ok .null { st with world := c.host.notCallable (.fn (.script id)) st.world } := by
              rw [callValue₀]; simp only [hd]
            rw [h1]; exact ⟨rfl, hst.1, hc.host.notCallable _ _ hst.2⟩
          | some fd =>
            rw [callValue₀_script c fuel id args st fd hd]
            have hb := bindArgs_good hc.host fd.lastArgArray fd.args args [] st.world ha (envOK_nil F) hst.2
            exact resK_good (ihe _ _ _ _ _ (hc.funs id fd hd) hb.1 ⟨hst.1, hb.2⟩)
        | lib name =>
          rw [callValue₀]
          have hn : F.contains name = false := by simpa [clean, fbFn] using hf
          exact runTree_good hc.host ihc (hc.host.lib name args st.world hst.2 hn ha) st hst.1
        | other j =>
          rw [callValue₀]
          exact runTree_good hc.host ihc (hc.host.other j args st.world hst.2 ha) st hst.1
      | null => exact notFn _ (by intro fn h; cases h)
      | bool b => exact notFn _ (by intro fn h; cases h)
      | num q => exact notFn _ (by intro fn h; cases h)
      | str q => exact notFn _ (by intro fn h; cases h)
      | dt q => exact notFn _ (by intro fn h; cases h)
      | arr q => exact notFn _ (by intro fn h; cases h)
      | obj q => exact notFn _ (by intro fn h; cases h)
      | regex q => exact notFn _ (by intro fn h; cases h)
    · -- statements
      cases hs : P[pc]? with
      | none => rw [C18.execM₀_none _ _ _ _ _ _ _ hs]; exact hst
      | some s =>
        rw [C18.execM₀_succ _ _ _ _ _ _ _ s hs]
        split
        · intro h; cases h
        · exact step_run_good (stepStmt_good hc ihc (fun hinc incs s' hs' => ihi hinc base incs s' hs') hl (nmP_get F hP hs)
            (st := { st with count := st.count + 1 }) hst) P (fun l' pc' st' hl' hst' => ihe P l' base pc' st' hP hl' hst') hl pc
    · -- includes
      cases incs with
      | nil => rw [execIncludes₀]; exact hst
      | cons i rest =>
        rw [execIncludes₀]
        cases hf : c.fetch (c.resolve base i) with
        | missing => intro h; cases h
        | broken => intro h; cases h
        | script stmts =>
          simp only
          have h1 := ihe stmts none (some (c.resolve base i)) 0 st (hc.fetch hinc _ _ hf) trivial hst
          cases hr : execM₀ c fuel stmts none (some (c.resolve base i)) 0 st with
          | done st' => rw [hr] at h1; exact ihi hinc base rest st' h1
          | ret v st' => rw [hr] at h1; exact ihi hinc base rest st' h1.2
          | err e st' => rw [hr] at h1; exact h1
          | oof => trivial

end Run

end Trees

/-! ## `HostImpl.host` is `HostClean` for every `F` that contains `systemGlobalGet` and `systemGlobalSet` -/

section HostImplClean
open HostImpl
variable (F : List String)

def cellVals : Cell → List Value
  | .arr xs => xs
  | .obj kvs => kvs.map (·.2)

def HeapOK (heap : List Cell) : Prop := ∀ c ∈ heap, CleanL F (cellVals c)

def PartialsOK (ps : List (Value × List Value)) : Prop := ∀ p ∈ ps, clean F p.1 = true ∧ CleanL F p.2

/-- world invariant of `HostImpl`: no heap cell and no entry of the partial-application table holds a forbidden function
value -/
def WorldOK (w : World) : Prop := HeapOK F w.heap ∧ PartialsOK F w.partials

instance (heap : List Cell) : Decidable (HeapOK F heap) := by unfold HeapOK; infer_instance
instance (ps : List (Value × List Value)) : Decidable (PartialsOK F ps) := by unfold PartialsOK; infer_instance
instance (w : World) : Decidable (WorldOK F w) := by unfold WorldOK; infer_instance

def KvOK (kvs : List (String × Value)) : Prop := ∀ kv ∈ kvs, clean F kv.2 = true

variable {F}

theorem cleanL_set {xs : List Value} {i : Nat} {v : Value} (h1 : CleanL F xs) (h2 : clean F v = true) :
    CleanL F (xs.set i v) := by
  intro x hx
  rcases List.mem_or_eq_of_mem_set hx with h | h
  · exact h1 x h
  · rw [h]; exact h2

theorem cleanL_dropLast {xs : List Value} (h1 : CleanL F xs) : CleanL F xs.dropLast :=
  fun x hx => h1 x (List.dropLast_subset xs hx)

theorem arr_ok {w : World} (h : HeapOK F w.heap) (r : Nat) : CleanL F ((w.arr? r).getD []) := by
  unfold World.arr?
  split
  · next xs heq => exact h _ (List.mem_of_getElem? heq)
  · intro x hx; cases hx

theorem obj_ok {w : World} (h : HeapOK F w.heap) (r : Nat) : KvOK F ((w.obj? r).getD []) := by
  unfold World.obj?
  split
  · next kvs heq =>
    intro kv hkv
    exact h _ (List.mem_of_getElem? heq) kv.2 (List.mem_map.2 ⟨kv, hkv, rfl⟩)
  · intro x hx; cases hx

theorem kvOK_objSet {kvs : List (String × Value)} {k : String} {v : Value} (h1 : KvOK F kvs)
    (h2 : clean F v = true) : KvOK F (objSet kvs k v) := by
  induction kvs with
  | nil => intro kv hkv; simp only [objSet, List.mem_singleton] at hkv; rw [hkv]; exact h2
  | cons x rest ih =>
    obtain ⟨k', x⟩ := x
    intro kv hkv
    simp only [objSet] at hkv
    split at hkv
    · rcases List.mem_cons.1 hkv with h | h
      · rw [h]; exact h2
      · exact h1 kv (List.mem_cons_of_mem _ h)
    · rcases List.mem_cons.1 hkv with h | h
      · rw [h]; exact h1 _ List.mem_cons_self
      · exact ih (fun kv hkv => h1 kv (List.mem_cons_of_mem _ hkv)) kv h

theorem objNew_ok : ∀ (args : List Value) (acc o : List (String × Value)), CleanL F args → KvOK F acc →
    objNew args acc = some o → KvOK F o
  | [], acc, o, _, hacc, h => by simp only [objNew, Option.some.injEq] at h; rw [← h]; exact hacc
  | [.str k], acc, o, _, hacc, h => by
      simp only [objNew, Option.some.injEq] at h; rw [← h]; exact kvOK_objSet hacc rfl
  | .str k :: v :: rest, acc, o, ha, hacc, h => by
      simp only [objNew] at h
      exact objNew_ok rest _ o (fun x hx => ha x (List.mem_cons_of_mem _ (List.mem_cons_of_mem _ hx)))
        (kvOK_objSet hacc (ha v (List.mem_cons_of_mem _ List.mem_cons_self))) h
  | [.null], _, _, _, _, h | [.bool _], _, _, _, _, h | [.num _], _, _, _, _, h | [.dt _], _, _, _, _, h
  | [.arr _], _, _, _, _, h | [.obj _], _, _, _, _, h | [.fn _], _, _, _, _, h | [.regex _], _, _, _, _, h => by
      simp [objNew] at h
  | .null :: _ :: _, _, _, _, _, h | .bool _ :: _ :: _, _, _, _, _, h | .num _ :: _ :: _, _, _, _, _, h
  | .dt _ :: _ :: _, _, _, _, _, h | .arr _ :: _ :: _, _, _, _, _, h | .obj _ :: _ :: _, _, _, _, _, h
  | .fn _ :: _ :: _, _, _, _, _, h | .regex _ :: _ :: _, _, _, _, _, h => by simp [objNew] at h

theorem find_ok {kvs : List (String × Value)} (h1 : KvOK F kvs) {d : Value} (h2 : clean F d = true)
    (p : String × Value → Bool) : clean F (((kvs.find? p).map (·.2)).getD d) = true := by
  cases hf : kvs.find? p with
  | none => exact h2
  | some kv => exact h1 kv (List.mem_of_find?_eq_some hf)

theorem heapOK_append {h : List Cell} {c : Cell} (h1 : HeapOK F h) (h2 : CleanL F (cellVals c)) :
    HeapOK F (h ++ [c]) := by
  intro c' hc'
  rcases List.mem_append.1 hc' with hc | hc
  · exact h1 c' hc
  · rw [List.mem_singleton.1 hc]; exact h2

theorem heapOK_set {h : List Cell} {c : Cell} {r : Nat} (h1 : HeapOK F h) (h2 : CleanL F (cellVals c)) :
    HeapOK F (h.set r c) := by
  intro c' hc'
  rcases List.mem_or_eq_of_mem_set hc' with hc | hc
  · exact h1 c' hc
  · rw [hc]; exact h2

theorem vals_obj {kvs : List (String × Value)} (h : KvOK F kvs) : CleanL F (cellVals (.obj kvs)) := by
  intro v hv
  obtain ⟨kv, hkv, rfl⟩ := List.mem_map.1 hv
  exact h kv hkv

theorem partialsOK_append {ps : List (Value × List Value)} {f : Value} {pre : List Value} (h : PartialsOK F ps)
    (hf : clean F f = true) (hp : CleanL F pre) : PartialsOK F (ps ++ [(f, pre)]) := by
  intro p hp'
  rcases List.mem_append.1 hp' with h1 | h1
  · exact h p h1
  · rw [List.mem_singleton.1 h1]; exact ⟨hf, hp⟩

theorem clean_nonfn {v : Value} (h : ∀ f, v ≠ .fn f) : clean F v = true := by
  cases v <;> first | rfl | exact absurd rfl (h _)

theorem ret_clean {out : LibOut} {w' : World} (hw : WorldOK F w') (hv : ∀ v, out.val? = some v → clean F v = true)
    (hne : ∀ m, out ≠ .rt m) : TreeC F (WorldOK F) (.ret out w') :=
  .ret out w' hw hv (hne _)

theorem indexOfFn_clean (f : Value) (hf : clean F f = true) : ∀ (xs : List Value) (i : Nat) (w : World), WorldOK F w →
    CleanL F xs → TreeC F (WorldOK F) (indexOfFn f xs i w)
  | [], i, w, hw, _ => ret_clean hw (fun v hv => by
      simp only [HostImpl.ok, LibOut.val?, Option.some.injEq] at hv; subst hv; rfl) (by intro m h; cases h)
  | x :: xs, i, w, hw, hx => by
      unfold indexOfFn
      refine .call _ _ _ _ hw hf (fun a ha' => ?_) (fun v w1 _ hw1 => ?_)
      · rw [List.mem_singleton.1 ha']; exact hx x List.mem_cons_self
      · split
        · exact ret_clean hw1 (fun v hv => by
            simp only [HostImpl.ok, LibOut.val?, Option.some.injEq] at hv; subst hv; rfl) (by intro m h; cases h)
        · exact indexOfFn_clean f hf xs (i+1) w1 hw1 (fun y hy => hx y (List.mem_cons_of_mem _ hy))

variable (hG : F.contains "systemGlobalGet" = true) (hS : F.contains "systemGlobalSet" = true)
include hG hS

/-- **all 18 library functions of `HostImpl`**: called under a name that is not forbidden, with clean arguments, in an
admissible world, the tree never reaches the globals, returns / stores / passes to call-backs only clean values and keeps the
world admissible -/
theorem hostImpl_lib_clean (name : String) (args : List Value) (w : World) (hw : WorldOK F w)
    (hn : F.contains name = false) (ha : CleanL F args) : TreeC F (WorldOK F) (lib name args w) := by
  unfold lib
  simp only [HostImpl.ok, HostImpl.fail, World.alloc, World.setCell]
  repeat' split
  all_goals first
    | (rw [hG] at hn; cases hn)
    | (rw [hS] at hn; cases hn)
    | exact indexOfFn_clean _ (ha _ (List.mem_cons_of_mem _ List.mem_cons_self)) _ _ _ hw (arr_ok hw.1 _)
    | skip
  all_goals try (refine ret_clean ?_ ?_ (by intro m h; cases h))
  all_goals try (intro v hv; simp only [LibOut.val?, Option.some.injEq] at hv; subst hv)
  all_goals try rfl
  all_goals try exact hw
  all_goals first
    | exact ⟨heapOK_append hw.1 ha, hw.2⟩
    | exact ⟨heapOK_append hw.1 (arr_ok hw.1 _), hw.2⟩
    | exact ⟨heapOK_set hw.1 (cleanL_append F (arr_ok hw.1 _) (fun x hx => ha x (List.mem_cons_of_mem _ hx))), hw.2⟩
    | exact ⟨heapOK_set hw.1 (cleanL_set (arr_ok hw.1 _) rfl), hw.2⟩
    | exact ⟨heapOK_set hw.1 (cleanL_set (arr_ok hw.1 _) (ha _ (List.mem_cons_of_mem _ (List.mem_cons_of_mem _ List.mem_cons_self)))), hw.2⟩
    | exact ⟨heapOK_set hw.1 (cleanL_dropLast (arr_ok hw.1 _)), hw.2⟩
    | (refine ⟨heapOK_append hw.1 (vals_obj (objNew_ok _ _ _ ha ?_ ‹_›)), hw.2⟩; intro x hx; cases hx)
    | exact ⟨heapOK_set hw.1 (vals_obj (kvOK_objSet (obj_ok hw.1 _) (ha _ (List.mem_cons_of_mem _ (List.mem_cons_of_mem _ List.mem_cons_self))))), hw.2⟩
    | exact arr_ok hw.1 _ _ (List.mem_of_getElem? ‹_›)
    | exact arr_ok hw.1 _ _ (List.mem_of_getLast? ‹_›)
    | exact find_ok (obj_ok hw.1 _) rfl _
    | exact find_ok (obj_ok hw.1 _) (ha _ (List.mem_cons_of_mem _ (List.mem_cons_of_mem _ List.mem_cons_self))) _
    | exact ha _ (List.mem_cons_of_mem _ (List.mem_cons_of_mem _ List.mem_cons_self))
    | exact ⟨hw.1, partialsOK_append hw.2 (ha _ List.mem_cons_self) (fun x hx => ha x (List.mem_cons_of_mem _ hx))⟩

omit hG hS in
theorem hostImpl_other_clean (k : Nat) (args : List Value) (w : World) (hw : WorldOK F w) (ha : CleanL F args) :
    TreeC F (WorldOK F) (HostImpl.other k args w) := by
  unfold HostImpl.other
  split
  · next f pre heq =>
    have hp := hw.2 _ (List.mem_of_getElem? heq)
    refine .call _ _ _ _ hw hp.1 (cleanL_append F hp.2 ha) (fun v w1 hv hw1 => ?_)
    exact ret_clean hw1 (fun x hx => by
      simp only [HostImpl.ok, LibOut.val?, Option.some.injEq] at hx; subst hx; exact hv) (by intro m h; cases h)
  · exact ret_clean hw (fun x hx => by
      simp only [HostImpl.fail, LibOut.val?, Option.some.injEq] at hx; subst hx; rfl) (by intro m h; cases h)

/-- **`HostImpl.host` is `HostClean`** for every list of forbidden names that contains `systemGlobalGet` and
`systemGlobalSet` -/
theorem hostImpl_clean : HostClean F (WorldOK F) HostImpl.host where
  binop := fun op a b w => clean_nonfn (C09.binop_nonfn op a b w)
  neg := fun v => clean_nonfn (C09.neg_nonfn v)
  notCallable := fun _ _ hw => hw
  logFailure := fun _ hw => hw
  newArray := fun xs w hw hx => ⟨rfl, heapOK_append hw.1 hx, hw.2⟩
  builtin := fun _ _ h => by cases h
  lib := fun name args w hw hn ha => hostImpl_lib_clean hG hS name args w hw hn ha
  other := fun k args w hw ha => hostImpl_other_clean k args w hw ha

end HostImplClean

/-! ## the syntactic predicate on structured programs, and its lowering -/

section Source
variable (F : List String)

/-- an optional identifier that is read (the index variable of a `for`) -/
def nmNO : Option Name → Bool
  | none => true
  | some x => !fbName F x

mutual
/-- **the structured statement reads no forbidden identifier**: not as a variable, not as the name of a called function, not
as the index variable of a `for` (which the loop reads back); a `for` also calls `arrayLength` / `arrayGet` by name, so these
two must not be forbidden where a `for` occurs.  Assignment targets, parameter names, function names and labels are *not*
restricted (binding a clean value under a forbidden name is harmless: nothing admissible reads it).  Function bodies are
checked.  `inc` = include statements are admitted. -/
def nmS (inc : Bool) : SStmt → Bool
  | .expr _ e => nmE F e
  | .ret e => nmEO F e
  | .ite c t e => nmE F c && nmB inc t && nmEl inc e
  | .while c b => nmE F c && nmB inc b
  | .for _ ix vals b => !fbName F fnArrayLength && !fbName F fnArrayGet && nmNO F ix && nmE F vals && nmB inc b
  | .brk => true
  | .cont => true
  | .func _ _ _ _ _ b => nmB inc b
  | .label _ => true
  | .jump _ c => nmEO F c
  | .include _ => inc
def nmB (inc : Bool) : List SStmt → Bool
  | [] => true
  | s :: ss => nmS inc s && nmB inc ss
def nmEl (inc : Bool) : SElse → Bool
  | .none => true
  | .els b => nmB inc b
  | .elif c t e => nmE F c && nmB inc t && nmEl inc e
end

variable {F}

omit F in
theorem fbName_gen (F : List String) (k : GK) (n : Nat) : fbName F (.gen k n) = false := rfl

theorem nmP_forHeader (inc : Bool) (i : Nat) (v ixv : Name) (vals : Expr) (h1 : fbName F fnArrayLength = false)
    (h2 : fbName F fnArrayGet = false) (h3 : fbName F ixv = false) (h4 : nmE F vals = true) :
    nmP F inc (forHeader i v ixv vals) = true := by
  simp [forHeader, nmP, nmStmt, nmEO, nmE, nmEs, notE, h1, h2, h3, h4, vValues, vLength, fbName_gen]

theorem nmP_forFooter (inc : Bool) (i : Nat) (ixv : Name) (hc : Bool) (h3 : fbName F ixv = false) :
    nmP F inc (forFooter i ixv hc) = true := by
  cases hc <;> simp [forFooter, nmP, nmStmt, nmEO, nmE, nmEs, h3, vLength, fbName_gen]

mutual
theorem lowerS_nm (inc : Bool) : ∀ (s : SStmt) (lp : Option (Name × Name)) (i : Nat), nmS F inc s = true →
    nmP F inc (lowerS lp s i).1 = true
  | .expr n e, lp, i, h => by simpa [lowerS, nmP, nmStmt, nmS] using h
  | .ret e, lp, i, h => by simpa [lowerS, nmP, nmStmt, nmS] using h
  | .label l, lp, i, h => by simp [lowerS, nmP, nmStmt]
  | .jump l c, lp, i, h => by simpa [lowerS, nmP, nmStmt, nmS] using h
  | .include incs, lp, i, h => by simpa [lowerS, nmP, nmStmt, nmS] using h
  | .brk, lp, i, h => by
      cases lp with
      | none => simp [lowerS, nmP]
      | some p => simp [lowerS, nmP, nmStmt, nmEO]
  | .cont, lp, i, h => by
      cases lp with
      | none => simp [lowerS, nmP]
      | some p => simp [lowerS, nmP, nmStmt, nmEO]
  | .func fid n args laa isAsync b, lp, i, h => by simp [lowerS, nmP, nmStmt]
  | .ite c t e, lp, i, h => by
      simp only [nmS, Bool.and_eq_true] at h
      have h1 := lowerB_nm inc t lp (i+1) h.1.2
      have h2 := lowerElse_nm inc e lp (lIf i) (lDone i) (lowerB lp t (i+1)).2 h.2
      simp only [lowerS, nmP_append, nmP_cons, nmP_nil, nmStmt, nmEO, nmE, notE, h.1.1, h1, h2, Bool.and_self]
  | .while c b, lp, i, h => by
      simp only [nmS, Bool.and_eq_true] at h
      have h1 := lowerB_nm inc b (some (lDone i, lLoop i)) (i+1) h.2
      simp only [lowerS, nmP_append, nmP_cons, nmP_nil, nmStmt, nmEO, nmE, notE, h.1, h1, Bool.and_self]
  | .for v ix vals b, lp, i, h => by
      simp only [nmS, Bool.and_eq_true, Bool.not_eq_true'] at h
      obtain ⟨⟨⟨⟨h1, h2⟩, h3⟩, h4⟩, h5⟩ := h
      have hb := lowerB_nm inc b (some (lDone i, lCont i)) (i+1) h5
      have hix : fbName F (ix.getD (vIndex i)) = false := by
        cases ix with
        | none => rfl
        | some x => simpa [nmNO] using h3
      simp only [lowerS, nmP_append, nmP_forHeader inc i v _ vals h1 h2 hix h4, hb, nmP_forFooter inc i _ _ hix, Bool.and_self]
theorem lowerB_nm (inc : Bool) : ∀ (B : List SStmt) (lp : Option (Name × Name)) (i : Nat), nmB F inc B = true →
    nmP F inc (lowerB lp B i).1 = true
  | [], lp, i, h => rfl
  | s :: ss, lp, i, h => by
      simp only [nmB, Bool.and_eq_true] at h
      have h1 := lowerS_nm inc s lp i h.1
      have h2 := lowerB_nm inc ss lp (lowerS lp s i).2 h.2
      simp only [lowerB, nmP_append, h1, h2, Bool.and_self]
theorem lowerElse_nm (inc : Bool) : ∀ (e : SElse) (lp : Option (Name × Name)) (cur done : Name) (i : Nat),
    nmEl F inc e = true → nmP F inc (lowerElse lp cur done e i).1 = true
  | .none, lp, cur, done, i, h => by simp [lowerElse, nmP, nmStmt]
  | .els b, lp, cur, done, i, h => by
      simp only [nmEl] at h
      have h1 := lowerB_nm inc b lp i h
      simp only [lowerElse, nmP_append, nmP_cons, nmP_nil, nmStmt, nmEO, h1, Bool.and_self]
  | .elif c t e, lp, cur, done, i, h => by
      simp only [nmEl, Bool.and_eq_true] at h
      have h1 := lowerB_nm inc t lp (i+1) h.1.2
      have h2 := lowerElse_nm inc e lp (lIf i) done (lowerB lp t (i+1)).2 h.2
      simp only [lowerElse, nmP_append, nmP_cons, nmP_nil, nmStmt, nmEO, nmE, notE, h.1.1, h1, h2, Bool.and_self]
end

end Source

/-! ## `HostLib.hostLib` is `HostClean` for every `F` that contains `systemGlobalGet` and `systemGlobalSet` -/

section HostLibClean
open HostLib HostImpl
variable (F : List String)

/-- the `Lib` heap holds clean values only -/
def LHeapOK (h : Lib.Heap) : Prop := C09.LibParam.HeapQ (fun v => clean F (ofLib v) = true) h

/-- world invariant of `HostLib` -/
def LWorldOK (w : LWorld) : Prop := LHeapOK F w.heap ∧ PartialsOK F w.partials

/-- decidable form of `LHeapOK` -/
def lheapOKB (h : Lib.Heap) : Bool :=
  h.all fun c => match c with
    | .arr xs => xs.all fun v => clean F (ofLib v)
    | .obj kvs => kvs.all fun kv => clean F (ofLib kv.2)

variable {F}

theorem lheapOKB_sound {h : Lib.Heap} (hb : lheapOKB F h = true) : LHeapOK F h := by
  intro c hc
  have := List.all_eq_true.1 hb c hc
  cases c with
  | arr xs => exact fun x hx => List.all_eq_true.1 this x hx
  | obj kvs => exact fun kv hkv => List.all_eq_true.1 this kv hkv

theorem toImpl_heapOK {h : Lib.Heap} (hh : LHeapOK F h) : HeapOK F (h.map cellOfLib) := by
  intro c hc v hv
  obtain ⟨c0, hc0, rfl⟩ := List.mem_map.1 hc
  have := hh c0 hc0
  cases c0 with
  | arr xs =>
    obtain ⟨x, hx, rfl⟩ := List.mem_map.1 hv
    exact this x hx
  | obj kvs =>
    simp only [cellOfLib, cellVals, List.map_map] at hv
    obtain ⟨kv, hkv, rfl⟩ := List.mem_map.1 hv
    exact this kv hkv

theorem toImpl_worldOK {w : LWorld} (hw : LWorldOK F w) : WorldOK F w.toImpl :=
  ⟨toImpl_heapOK hw.1, hw.2⟩

/-- a `TreeC` tree of HostImpl stays `TreeC` when it is transported to `LWorld` next to an admissible `Lib` heap -/
theorem lift_clean {t : LibTree World} (ht : TreeC F (WorldOK F) t) : ∀ h : Lib.Heap, LHeapOK F h →
    TreeC F (LWorldOK F) (lift t h) := by
  induction ht with
  | ret out w hw hv hne => intro h hh; exact .ret _ _ ⟨hh, hw.2⟩ hv hne
  | call f args w k hw hf ha _ ih =>
    intro h hh
    exact .call _ _ _ _ ⟨hh, hw.2⟩ hf ha fun v w' hv hw' => ih v w'.toImpl hv (toImpl_worldOK hw') w'.heap hw'.1

theorem clean_ofLib_nonfn : ∀ v, Lib.isFn v = false → clean F (ofLib v) = true := by
  intro v hv
  cases v <;> first | rfl | cases hv

variable (hG : F.contains "systemGlobalGet" = true) (hS : F.contains "systemGlobalSet" = true)
include hG hS

/-- every library function of `HostLib` — the 40 functions of the verified model `Lib` (which never fabricates a function
value: `C09.LibParam.lib_q`) and HostImpl's `system*` functions -/
theorem hostLib_lib_clean (name : String) (args : List Value) (w : LWorld) (hw : LWorldOK F w)
    (hn : F.contains name = false) (ha : CleanL F args) : TreeC F (LWorldOK F) (HostLib.lib name args w) := by
  unfold HostLib.lib
  have hq := C09.LibParam.lib_q (Q := fun v => clean F (ofLib v) = true) clean_ofLib_nonfn name (args.map toLib) w.heap (by
      intro x hx
      obtain ⟨a, ha', rfl⟩ := List.mem_map.1 hx
      show clean F (ofLib (toLib a)) = true
      rw [HostLib.ofLib_toLib]; exact ha a ha') hw.1
  generalize Lib.lib name (args.map toLib) w.heap = res at hq
  obtain ⟨r, h'⟩ := res
  cases r with
  | ok v => exact .ret _ _ ⟨hq.2, hw.2⟩ (fun x hx => by cases hx; exact hq.1) (by intro h; cases h)
  | fail v => exact .ret _ _ ⟨hq.2, hw.2⟩ (fun x hx => by cases hx; exact hq.1) (by intro h; cases h)
  | unmodelled =>
    simp only
    unfold fallback
    split
    · exact lift_clean (hostImpl_lib_clean hG hS name args w.toImpl (toImpl_worldOK hw) hn ha) w.heap hw.1
    · exact .ret _ _ hw (fun x hx => by cases hx; rfl) (by intro h; cases h)

omit hG hS in
theorem hostLib_other_clean (k : Nat) (args : List Value) (w : LWorld) (hw : LWorldOK F w) (ha : CleanL F args) :
    TreeC F (LWorldOK F) (HostLib.other k args w) :=
  lift_clean (hostImpl_other_clean k args w.toImpl (toImpl_worldOK hw) ha) w.heap hw.1

/-- **`HostLib.hostLib` is `HostClean`** -/
theorem hostLib_clean : HostClean F (LWorldOK F) HostLib.hostLib where
  binop := fun op a b w => clean_nonfn (C09.binop_nonfn op a b w.toImpl)
  neg := fun v => clean_nonfn (C09.neg_nonfn v)
  notCallable := fun _ _ hw => hw
  logFailure := fun _ hw => hw
  newArray := fun xs w hw hx => by
    refine ⟨rfl, ?_, hw.2⟩
    intro c hc
    rcases List.mem_append.1 hc with h | h
    · exact hw.1 c h
    · rw [List.mem_singleton.1 h]
      intro x hx'
      obtain ⟨a, ha, rfl⟩ := List.mem_map.1 hx'
      show clean F (ofLib (toLib a)) = true
      rw [HostLib.ofLib_toLib]; exact hx a ha
  builtin := fun _ _ h => by cases h
  lib := fun name args w hw hn ha => hostLib_lib_clean hG hS name args w hw hn ha
  other := fun k args w hw ha => hostLib_other_clean k args w hw ha

end HostLibClean

/-! ## the pure source-level reading keeps the invariant (direct proof, no hypothesis on the shape of the program) -/

section Pure
variable (F : List String) (okW : W → Prop)

def GoodS : SOut W → Prop
  | .norm l s => LocOK F l ∧ StOK F okW s
  | .brk l s => LocOK F l ∧ StOK F okW s
  | .cont l s => LocOK F l ∧ StOK F okW s
  | .ret v s => clean F v = true ∧ StOK F okW s
  | .err e _ => e ≠ .host reservedMsg
  | .oof => True

variable {F okW}

theorem assign_good {l : Option Env} {st : State W} (hl : LocOK F l) (hs : StOK F okW st) (x : Name) {v : Value}
    (hv : clean F v = true) : LocOK F (assign l st x v).1 ∧ StOK F okW (assign l st x v).2 := by
  cases l with
  | none => exact ⟨trivial, envOK_set F hs.1 x hv, hs.2⟩
  | some l0 => exact ⟨envOK_set F hl x hv, hs⟩

theorem assignO_good {l : Option Env} {st : State W} (hl : LocOK F l) (hs : StOK F okW st) (x : Option Name) {v : Value}
    (hv : clean F v = true) : LocOK F (assignO l st x v).1 ∧ StOK F okW (assignO l st x v).2 := by
  cases x with
  | none => exact ⟨hl, hs⟩
  | some x => exact assign_good hl hs x hv

theorem readVar_clean {l : Option Env} {g : Env} (hl : LocOK F l) (hg : EnvOK F g) {x : Name} (hx : fbName F x = false) :
    clean F (readVar l g x) = true := by
  unfold readVar
  split
  · rfl
  · split
    · rfl
    · split
      · rfl
      · exact lookupVar_clean F hl hg hx

theorem idxS_clean {ix : Option Name} (hix : nmNO F ix = true) {c : Value} (hc : clean F c = true) {l : Option Env} {g : Env}
    (hl : LocOK F l) (hg : EnvOK F g) : clean F (idxS ix c l g) = true := by
  cases ix with
  | none => exact hc
  | some x => exact readVar_clean hl hg (by simpa [nmNO] using hix)

theorem exprK_good {o : Out W} (ho : GoodOut F okW o) (n : Option Name) {l : Option Env} (hl : LocOK F l) :
    GoodS F okW (exprK n l o) := by
  cases o with
  | ok v s =>
    cases n with
    | none => exact ⟨hl, ho.2⟩
    | some x => exact assign_good hl ho.2 x ho.1
  | err e s => exact ho
  | oof => trivial

theorem retK_good {o : Out W} (ho : GoodOut F okW o) : GoodS F okW (retK o) := by
  cases o with
  | ok v s => exact ho
  | err e s => exact ho
  | oof => trivial

theorem condK_good {h : Host W} {A B : State W → SOut W} (hA : ∀ s, StOK F okW s → GoodS F okW (A s))
    (hB : ∀ s, StOK F okW s → GoodS F okW (B s)) {o : Out W} (ho : GoodOut F okW o) : GoodS F okW (condK h A B o) := by
  cases o with
  | ok v s =>
    simp only [condK]
    split
    · exact hA s ho.2
    · exact hB s ho.2
  | err e s => exact ho
  | oof => trivial

theorem seqK_good {G : Option Env → State W → SOut W} (hG : ∀ l s, LocOK F l → StOK F okW s → GoodS F okW (G l s)) {o : SOut W}
    (ho : GoodS F okW o) : GoodS F okW (seqK G o) := by
  cases o <;> first | exact hG _ _ ho.1 ho.2 | exact ho

theorem loopK_good {G : Option Env → State W → SOut W} (hG : ∀ l s, LocOK F l → StOK F okW s → GoodS F okW (G l s)) {o : SOut W}
    (ho : GoodS F okW o) : GoodS F okW (loopK G o) := by
  cases o <;> first | exact hG _ _ ho.1 ho.2 | exact ho

theorem bodyK_good {o : SOut W} (ho : GoodS F okW o) : GoodOut F okW (bodyK o) := by
  cases o with
  | norm l s => exact ⟨rfl, ho.2⟩
  | brk l s => exact ⟨rfl, ho.2⟩
  | cont l s => exact ⟨rfl, ho.2⟩
  | ret v s => exact ho
  | err e s => exact ho
  | oof => trivial

theorem goodS_touches {o : SOut W} (h : GoodS F okW o) : touchesReserved (toResS o) = false := by
  cases o with
  | norm l s => rfl
  | brk l s => rfl
  | cont l s => rfl
  | ret v s => rfl
  | oof => rfl
  | err e s =>
    cases e <;> try rfl
    rename_i m
    simp only [toResS, touchesReserved, beq_eq_false_iff_ne, ne_eq]
    intro hm; exact h (by rw [hm])

section
variable {scfg : SConfig W} {h : Host W} (hh : HostClean F okW h) {inc : Bool} (k : Nat)
  {v : Name} {ix : Option Name} {b : List SStmt} {a n : Value}
  (hix : nmNO F ix = true)
  (ihB : ∀ l st, LocOK F l → StOK F okW st → GoodS F okW (execSB scfg k b l st))
  (ihF : ∀ c l st, clean F c = true → LocOK F l → StOK F okW st → GoodS F okW (forS scfg k v ix b a n c l st))
include hh hix ihB ihF

theorem footerS_good {c : Value} (hc : clean F c = true) {l2 : Option Env} {st2 : State W} (hl : LocOK F l2)
    (hs : StOK F okW st2) : GoodS F okW (footerS h scfg k v ix b a n c l2 st2) := by
  cases ix with
  | none =>
    simp only [footerS]
    split
    · exact ihF _ _ _ (hh.binop _ _ _ _) hl hs
    · exact ⟨hl, hs⟩
  | some xn =>
    have hg := assign_good hl hs xn (hh.binop .add (readVar l2 st2.globals xn) (.num 1) st2.world)
    simp only [footerS]
    split
    · exact ihF _ _ _ hc hg.1 hg.2
    · exact hg

theorem forIterK_good {c : Value} (hc : clean F c = true) {l : Option Env} (hl : LocOK F l) {o : Out W}
    (ho : GoodOut F okW o) : GoodS F okW (forIterK h scfg k v ix b a n c l o) := by
  cases o with
  | ok x st1 =>
    simp only [forIterK]
    have hg := assign_good hl ho.2 v ho.1
    exact loopK_good (fun l2 st2 hl2 hs2 => footerS_good hh k hix ihB ihF hc hl2 hs2) (ihB _ _ hg.1 hg.2)
  | err e s => exact ho
  | oof => trivial

end

theorem forLenK_good {scfg : SConfig W} {h : Host W} (k : Nat) {v : Name} {ix : Option Name} {b : List SStmt} {a : Value}
    (ihF : ∀ n c l st, clean F n = true → clean F c = true → LocOK F l → StOK F okW st →
      GoodS F okW (forS scfg k v ix b a n c l st))
    {l : Option Env} (hl : LocOK F l) {o : Out W} (ho : GoodOut F okW o) :
    GoodS F okW (forLenK h scfg k v ix b a l o) := by
  cases o with
  | ok n' st2 =>
    simp only [forLenK]
    have hg := assignO_good hl ho.2 ix (v := .num 0) rfl
    split
    · exact ihF _ _ _ _ ho.1 rfl hg.1 hg.2
    · exact ⟨hl, ho.2⟩
  | err e s => exact ho
  | oof => trivial

/-- **the pure source-level reading keeps the value-flow invariant**, for every structured program that reads no forbidden
identifier — no other hypothesis on the program (no `ProgOK`): calls, statements, blocks, else-chains and the iterations of
`for`, for every fuel -/
theorem pure_good {scfg : SConfig W} {inc : Bool} (hh : HostClean F okW scfg.host)
    (htc : ∀ id d, scfg.sfuns id = some d → nmB F inc d.body = true) : ∀ k : Nat,
    GoodCall F okW (callS scfg k) ∧
    (∀ x l st, nmS F inc x = true → LocOK F l → StOK F okW st → GoodS F okW (execSS scfg k x l st)) ∧
    (∀ B l st, nmB F inc B = true → LocOK F l → StOK F okW st → GoodS F okW (execSB scfg k B l st)) ∧
    (∀ e l st, nmEl F inc e = true → LocOK F l → StOK F okW st → GoodS F okW (execSE scfg k e l st)) ∧
    (∀ v ix b a n c l st, fbName F fnArrayGet = false → nmNO F ix = true → nmB F inc b = true → clean F a = true →
      clean F n = true → clean F c = true → LocOK F l → StOK F okW st → GoodS F okW (forS scfg k v ix b a n c l st)) := by
  have hh' : HostClean F okW (cfgOf scfg).host := hh
  intro k
  induction k with
  | zero =>
    refine ⟨fun f args st _ _ _ => ?_, fun x l st _ _ _ => ?_, fun B l st _ _ _ => ?_, fun e l st _ _ _ => ?_,
      fun v ix b a n c l st _ _ _ _ _ _ _ _ => ?_⟩
    · rw [callS]; trivial
    · rw [execSS]; trivial
    · rw [execSB]; trivial
    · rw [execSE]; trivial
    · rw [forS]; trivial
  | succ k ih =>
    obtain ⟨ihc, ihS, ihB, ihE, ihF⟩ := ih
    have hev : ∀ l e st, nmE F e = true → LocOK F l → StOK F okW st →
        GoodOut F okW (evalExpr (cfgOf scfg) (callS scfg k) l e st) :=
      fun l e st he hl hs => evalExpr_good hh' ihc hl e st he hs
    have hcond : ∀ cnd t e l st, nmE F cnd = true → nmB F inc t = true → nmEl F inc e = true → LocOK F l → StOK F okW st →
        GoodS F okW (condK (cfgOf scfg).host (fun s => execSB scfg k t l s) (fun s => execSE scfg k e l s)
          (evalExpr (cfgOf scfg) (callS scfg k) l cnd st)) :=
      fun cnd t e l st hc ht he hl hs =>
        condK_good (fun s hs' => ihB t l s ht hl hs') (fun s hs' => ihE e l s he hl hs') (hev l cnd st hc hl hs)
    refine ⟨fun f args st hf ha hst => ?_, fun x l st hx hl hst => ?_, fun B l st hB hl hst => ?_, fun e l st he hl hst => ?_,
      fun v ix b a n c l st hag hix hb ha hn hc hl hst => ?_⟩
    · -- calls
      have notFn : ∀ v : Value, (∀ fn, v ≠ .fn fn) → GoodOut F okW (callS scfg (k+1) v args st) := by
        intro v hv
        have h1 : callS scfg (k+1) v args st = .ok .null { st with world := scfg.host.notCallable v st.world } := by
          cases v <;> first | exact absurd rfl (hv _) | (rw [callS] <;> (intro _ h; cases h))
        rw [h1]; exact ⟨rfl, hst.1, hh.notCallable _ _ hst.2⟩
      cases f with
      | fn fn =>
        cases fn with
        | script id =>
          cases hd : scfg.sfuns id with
          | none =>
            have h1 : callS scfg (k+1) (.fn (.script id)) args st =
                .ok .null { st with world := scfg.host.notCallable (.fn (.script id)) st.world } := by
              rw [callS]; simp only [hd]
            rw [h1]; exact ⟨rfl, hst.1, hh.notCallable _ _ hst.2⟩
          | some d =>
            rw [callS_script (agree_cfgOf scfg) k id args st d hd]
            have hb := bindArgs_good hh' d.lastArgArray d.args args [] st.world ha (envOK_nil F) hst.2
            exact bodyK_good (ihB _ _ _ (htc id d hd) hb.1 ⟨hst.1, hb.2⟩)
        | lib name =>
          rw [callS]
          have hn : F.contains name = false := by simpa [clean, fbFn] using hf
          exact runTree_good (c := scfg.toConfig) hh ihc (hh.lib name args st.world hst.2 hn ha) st hst.1
        | other j =>
          rw [callS]
          exact runTree_good (c := scfg.toConfig) hh ihc (hh.other j args st.world hst.2 ha) st hst.1
      | null => exact notFn _ (by intro fn h; cases h)
      | bool b => exact notFn _ (by intro fn h; cases h)
      | num q => exact notFn _ (by intro fn h; cases h)
      | str q => exact notFn _ (by intro fn h; cases h)
      | dt q => exact notFn _ (by intro fn h; cases h)
      | arr q => exact notFn _ (by intro fn h; cases h)
      | obj q => exact notFn _ (by intro fn h; cases h)
      | regex q => exact notFn _ (by intro fn h; cases h)
    · -- statements
      cases x with
      | expr n e =>
        simp only [nmS] at hx
        rw [execSS_expr (agree_cfgOf scfg)]; exact exprK_good (hev l e st hx hl hst) n hl
      | ret e =>
        cases e with
        | none => rw [execSS]; exact ⟨rfl, hst⟩
        | some e =>
          simp only [nmS, nmEO] at hx
          rw [execSS_ret (agree_cfgOf scfg)]; exact retK_good (hev l e st hx hl hst)
      | label lab => rw [execSS]; intro h; cases h
      | jump lab cnd => rw [execSS]; intro h; cases h
      | «include» incs => rw [execSS]; intro h; cases h
      | brk => rw [execSS]; exact ⟨hl, hst⟩
      | cont => rw [execSS]; exact ⟨hl, hst⟩
      | func fid n args laa isAsync body => rw [execSS]; exact ⟨hl, envOK_set F hst.1 n rfl, hst.2⟩
      | ite cnd t e =>
        simp only [nmS, Bool.and_eq_true] at hx
        rw [execSS_ite (agree_cfgOf scfg)]
        exact hcond cnd t e l st hx.1.1 hx.1.2 hx.2 hl hst
      | «while» cnd b =>
        simp only [nmS, Bool.and_eq_true] at hx
        have hx' : nmS F inc (.while cnd b) = true := by simp only [nmS, Bool.and_eq_true]; exact hx
        rw [execSS_while (agree_cfgOf scfg)]
        exact condK_good (fun s' hs' => loopK_good (fun l1 s1 hl1 hs1 => ihS _ l1 s1 hx' hl1 hs1) (ihB b l s' hx.2 hl hs'))
          (B := fun s' => .norm l s') (fun s' hs' => ⟨hl, hs'⟩) (hev l cnd st hx.1 hl hst)
      | «for» v ix vals b =>
        simp only [nmS, Bool.and_eq_true, Bool.not_eq_true'] at hx
        obtain ⟨⟨⟨⟨h1, h2⟩, h3⟩, h4⟩, h5⟩ := hx
        rw [execSS_for (agree_cfgOf scfg)]
        have hv := hev l vals st h4 hl hst
        cases hr : evalExpr (cfgOf scfg) (callS scfg k) l vals st with
        | ok a st1 =>
          rw [hr] at hv
          simp only [forValsK]
          refine forLenK_good k (fun n c l' st' hn hc hl' hs' => ihF v ix b a n c l' st' h2 h3 h5 hv.1 hn hc hl' hs') hl ?_
          exact callLooked_good hh' ihc hl h1 (cleanL_cons F hv.1 (cleanL_nil F)) hv.2
        | err e s' => rw [hr] at hv; exact hv
        | oof => trivial
    · -- blocks
      cases B with
      | nil => rw [execSB]; exact ⟨hl, hst⟩
      | cons x xs =>
        simp only [nmB, Bool.and_eq_true] at hB
        rw [execSB_cons]
        exact seqK_good (fun l1 s1 hl1 hs1 => ihB xs l1 s1 hB.2 hl1 hs1) (ihS x l st hB.1 hl hst)
    · -- else chains
      cases e with
      | none => rw [execSE]; exact ⟨hl, hst⟩
      | els b => simp only [nmEl] at he; rw [execSE]; exact ihB b l st he hl hst
      | elif cnd t e =>
        simp only [nmEl, Bool.and_eq_true] at he
        rw [execSE_elif (agree_cfgOf scfg)]
        exact hcond cnd t e l st he.1.1 he.1.2 he.2 hl hst
    · -- `for` iterations
      rw [forS_succ (agree_cfgOf scfg)]
      refine forIterK_good hh' k hix (fun l' st' hl' hs' => ihB b l' st' hb hl' hs')
        (fun c' l' st' hc' hl' hs' => ihF v ix b a n c' l' st' hag hix hb ha hn hc' hl' hs') hc hl ?_
      exact callLooked_good hh' ihc hl hag
        (cleanL_cons F ha (cleanL_cons F (idxS_clean hix hc hl hst.1) (cleanL_nil F))) hst

end Pure

end C01Syn
