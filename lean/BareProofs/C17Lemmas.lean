import BareModel.Url

/-!
# C17 — lemmas about the URL resolver: the Python-shaped pieces equal the property-shaped ones
-/

namespace C17
open Url

/-! ### `rfind` and the directory part -/

theorem rfindSlash_ge (s : Str) : -1 ≤ rfindSlash s := by
  induction s with
  | nil => simp [rfindSlash]
  | cons c cs ih =>
    simp only [rfindSlash]; split
    · omega
    · split <;> omega

theorem rfindSlash_nonneg_iff (s : Str) : 0 ≤ rfindSlash s ↔ '/' ∈ s := by
  induction s with
  | nil => simp [rfindSlash]
  | cons c cs ih =>
    simp only [rfindSlash, List.mem_cons]
    by_cases h : 0 ≤ rfindSlash cs
    · have := ih.mp h
      simp [h, this]; omega
    · have hn : '/' ∉ cs := fun hm => h (ih.mpr hm)
      by_cases hc : c = '/'
      · simp [h, hc]
      · simp [h, hc, hn]
        intro h'; exact hc h'.symm

theorem dirPart_no_slash {s : Str} (h : '/' ∉ s) : dirPart s = [] := by
  cases s with
  | nil => rfl
  | cons c cs =>
    simp only [List.mem_cons, not_or] at h
    have h1 : ¬ c = '/' := fun e => h.1 e.symm
    simp [dirPart, h.2, h1]

/-- `s[:s.rfind('/') + 1]` is the part of `s` up to and including its last slash -/
theorem take_rfind (s : Str) : s.take (rfindSlash s + 1).toNat = dirPart s := by
  induction s with
  | nil => simp [rfindSlash, dirPart]
  | cons c cs ih =>
    simp only [rfindSlash, dirPart]
    by_cases h : 0 ≤ rfindSlash cs
    · have hm := (rfindSlash_nonneg_iff cs).mp h
      simp only [h, if_true, hm]
      have : (rfindSlash cs + 1 + 1).toNat = (rfindSlash cs + 1).toNat + 1 := by omega
      rw [this, List.take_succ_cons, ih]
    · have hn : '/' ∉ cs := fun hm => h ((rfindSlash_nonneg_iff cs).mpr hm)
      by_cases hc : c = '/'
      · simp [h, hc, hn]
      · simp [h, hc, hn]

theorem dirPart_append_slash (d name : Str) (h : '/' ∉ name) : dirPart (d ++ '/' :: name) = d ++ ['/'] := by
  induction d with
  | nil => simp [dirPart, h]
  | cons c cs ih => simp [dirPart, ih]

/-! ### `dirname` -/

theorem ne_replicate_iff (l : Str) : (l != List.replicate l.length '/') = !l.all (· == '/') := by
  by_cases h : l = List.replicate l.length '/'
  · have : l.all (· == '/') = true := by
      rw [List.all_eq_true]; intro x hx; rw [h] at hx
      simp [(List.mem_replicate.mp hx).2]
    simp [this]; exact h
  · have : l.all (· == '/') = false := by
      rw [Bool.eq_false_iff]; intro ha
      apply h
      rw [List.eq_replicate_iff]
      refine ⟨rfl, ?_⟩
      intro b hb; rw [List.all_eq_true] at ha; simpa using ha b hb
    simp [this]; exact h

theorem dirname_eq (p : Str) : dirname p = dirSpec p := by
  unfold dirname dirSpec
  simp only [take_rfind, ne_replicate_iff, rstripSlash, dropTrailingSlashes]
  cases hd : dirPart p with
  | nil => simp
  | cons c cs =>
    by_cases ha : (c :: cs).all (· == '/') = true
    · simp [ha]
    · simp only [Bool.not_eq_true] at ha; simp [ha]

/-! ### split / join -/

theorem splitSlash_ne_nil (s : Str) : splitSlash s ≠ [] := by
  induction s with
  | nil => simp [splitSlash]
  | cons c cs ih =>
    simp only [splitSlash]
    split
    · simp
    · split <;> simp

theorem joinSlash_cons_cons (a b : Str) (r : List Str) : joinSlash (a :: b :: r) = a ++ '/' :: joinSlash (b :: r) := rfl

theorem join_split (s : Str) : joinSlash (splitSlash s) = s := by
  induction s with
  | nil => rfl
  | cons c cs ih =>
    simp only [splitSlash]
    by_cases hc : c = '/'
    · simp only [hc, if_true]
      cases hs : splitSlash cs with
      | nil => exact absurd hs (splitSlash_ne_nil cs)
      | cons a r => rw [joinSlash_cons_cons, ← hs, ih]; rfl
    · simp only [hc, if_false]
      cases hs : splitSlash cs with
      | nil => exact absurd hs (splitSlash_ne_nil cs)
      | cons a r =>
        rw [hs] at ih
        cases r with
        | nil => simp only [joinSlash] at ih ⊢; rw [ih]
        | cons b r' => rw [joinSlash_cons_cons] at ih ⊢; rw [← ih]; rfl

theorem splitSlash_no_slash (s : Str) : ∀ seg ∈ splitSlash s, '/' ∉ seg := by
  induction s with
  | nil => simp [splitSlash]
  | cons c cs ih =>
    simp only [splitSlash]
    by_cases hc : c = '/'
    · simp only [hc, if_true]
      intro seg hseg
      rcases List.mem_cons.mp hseg with rfl | h
      · simp
      · exact ih seg h
    · simp only [hc, if_false]
      cases hs : splitSlash cs with
      | nil => exact absurd hs (splitSlash_ne_nil cs)
      | cons a r =>
        rw [hs] at ih
        intro seg hseg
        rcases List.mem_cons.mp hseg with rfl | h
        · have := ih a (List.mem_cons_self ..)
          simp only [List.mem_cons, not_or]
          exact ⟨fun e => hc e.symm, this⟩
        · exact ih seg (List.mem_cons_of_mem _ h)

theorem segments_slash_cons (s : Str) : segments ('/' :: s) = segments s := by
  simp [segments, splitSlash, realSeg]

theorem segments_dropWhile (s : Str) : segments (s.dropWhile (· == '/')) = segments s := by
  induction s with
  | nil => rfl
  | cons c cs ih =>
    by_cases hc : c = '/'
    · subst hc; simp only [List.dropWhile, beq_self_eq_true]; rw [ih, segments_slash_cons]
    · have : (c == '/') = false := by simpa using hc
      simp [List.dropWhile, this]

theorem segments_no_slash (s : Str) : ∀ seg ∈ segments s, '/' ∉ seg ∧ seg ≠ [] := by
  intro seg h
  simp only [segments, List.mem_filter] at h
  refine ⟨splitSlash_no_slash s seg h.1, ?_⟩
  intro e; subst e; simp [realSeg] at h

theorem head_joinSlash (l : List Str) (h : ∀ seg ∈ l, '/' ∉ seg ∧ seg ≠ []) : (joinSlash l).head? ≠ some '/' := by
  cases l with
  | nil => simp [joinSlash]
  | cons a r =>
    obtain ⟨h1, h2⟩ := h a (List.mem_cons_self ..)
    cases a with
    | nil => exact absurd rfl h2
    | cons x xs =>
      have hx : x ≠ '/' := fun e => h1 (e ▸ List.mem_cons_self ..)
      cases r with
      | nil => simpa [joinSlash] using hx
      | cons b r' => rw [joinSlash_cons_cons]; simpa using hx

/-- all path components are real names: the path is already in pathlib's normal form -/
def CleanRel (r : Str) : Prop := ∀ seg ∈ splitSlash r, realSeg seg = true

instance (r : Str) : Decidable (CleanRel r) := by unfold CleanRel; infer_instance

theorem segments_clean {r : Str} (h : CleanRel r) : segments r = splitSlash r := by
  simp only [segments]; exact List.filter_eq_self.mpr h

theorem normRel_clean {r : Str} (h : CleanRel r) : normRel r = r := by
  have hne := splitSlash_ne_nil r
  simp only [normRel, segments_clean h, join_split]
  simp [hne]

theorem cleanRel_head {r : Str} (h : CleanRel r) : r.head? ≠ some '/' := by
  cases r with
  | nil => simp
  | cons c cs =>
    intro e
    simp only [List.head?_cons, Option.some.injEq] at e
    subst e
    have := h [] (by simp [splitSlash])
    simp [realSeg] at this

/-! ### `str(Path(p))` -/

theorem dot_if_empty (l : List Str) (hmem : ∀ seg ∈ l, '/' ∉ seg ∧ seg ≠ []) :
    (if (joinSlash l).isEmpty then ['.'] else joinSlash l) = if l = [] then ['.'] else joinSlash l := by
  cases l with
  | nil => simp [joinSlash]
  | cons a r =>
    have hne : joinSlash (a :: r) ≠ [] := by
      have := (hmem a (List.mem_cons_self ..)).2
      cases a with
      | nil => exact absurd rfl this
      | cons x xs =>
        cases r with
        | nil => simp [joinSlash]
        | cons b r' => rw [joinSlash_cons_cons]; simp
    simp [hne]

theorem pathStr_rel (p : Str) (h : p.head? ≠ some '/') : pathStr p = normRel p := by
  have hs : splitroot p = ([], p) := by
    cases p with
    | nil => simp [splitroot]
    | cons c cs =>
      have hc : c ≠ '/' := by simpa using h
      simp [splitroot, hc]
  simp only [pathStr, hs, normRel, List.nil_append]
  exact dot_if_empty _ (segments_no_slash p)

theorem pathStr_abs (r : Str) : pathStr ('/' :: r) = normAbs ('/' :: r) := by
  unfold pathStr normAbs
  cases r with
  | nil => simp [splitroot, segments, splitSlash, realSeg, joinSlash]
  | cons c cs =>
    by_cases hc : c = '/'
    · subst hc
      cases cs with
      | nil => simp [splitroot, segments, splitSlash, realSeg, joinSlash]
      | cons d ds =>
        by_cases hd : d = '/'
        · subst hd
          have hseg := segments_dropWhile ds
          simp only [segments] at hseg
          simp [splitroot, List.takeWhile, List.dropWhile, segments, hseg, splitSlash, realSeg]
        · have hdb : (d == '/') = false := by simpa using hd
          simp [splitroot, List.takeWhile, List.dropWhile, hdb, segments]
    · have hcb : (c == '/') = false := by simpa using hc
      simp [splitroot, List.takeWhile, List.dropWhile, hcb, hc, segments]

/-! ### `os.path.join` -/

theorem join_eq (a b : Str) (hb : b.head? ≠ some '/') : join a b = joinDir a b := by
  unfold join joinDir
  have : (b.head? == some '/') = false := by simpa using hb
  simp only [this]
  by_cases ha : a = []
  · simp [ha]
  · simp [ha]

theorem normRel_head (p : Str) : (normRel p).head? ≠ some '/' := by
  unfold normRel
  split
  · simp
  · exact head_joinSlash _ (segments_no_slash p)

/-! ### the resolver -/

/-- mirror = spec on every pair of strings (POSIX model of pathlib / posixpath) -/
theorem resolve_matches_spec (file url : Str) : urlFileRelativeL file url = resolveSpecL file url := by
  unfold urlFileRelativeL resolveSpecL
  by_cases h1 : IsUrl url
  · simp [(matchUrl_iff url).mpr h1, h1]
  · have m1 : matchUrl url = false := by
      rw [Bool.eq_false_iff]; exact fun h => h1 ((matchUrl_iff url).mp h)
    simp only [m1, h1, if_false, Bool.false_eq_true]
    by_cases h2 : url.head? = some '/'
    · have hb : (url.head? == some '/') = true := by simp [h2]
      simp only [h2, if_true]
      cases url with
      | nil => simp at h2
      | cons c cs =>
        simp only [List.head?_cons, Option.some.injEq] at h2
        subst h2; exact pathStr_abs cs
    · have hb : (url.head? == some '/') = false := by simpa using h2
      simp only [hb, h2, if_false, Bool.false_eq_true]
      by_cases h3 : IsUrl file
      · simp [(matchUrl_iff file).mpr h3, h3, take_rfind]
      · have m3 : matchUrl file = false := by
          rw [Bool.eq_false_iff]; exact fun h => h3 ((matchUrl_iff file).mp h)
        simp only [m3, h3, if_false, Bool.false_eq_true]
        rw [dirname_eq, pathStr_rel url h2, join_eq _ _ (normRel_head url)]

end C17
