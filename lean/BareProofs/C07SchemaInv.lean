import BareProofs.C07SchemaLemmas

/-!
# C07Schema — converse direction: every validated copy is (the validated copy of) the JSON of an `Expr` / `Stmt`

`expr_repr` / `stmt_repr` / `script_repr`: by strong induction on the size of the *input* JSON, using the inversion lemmas of
`C07SchemaLemmas.lean`.  See `C07Schema.lean` for the property theorems.
-/

set_option linter.unusedSimpArgs false

namespace C07Schema
open Schema PJson Gen

/-! ## which member a key names -/

theorem findMember_Expression {k : String} {m : SMember} (h : findMember msExpression k = some m) :
    (k = "number" ∧ m.type = .builtin "float") ∨ (k = "string" ∧ m.type = .builtin "string") ∨
    (k = "variable" ∧ m.type = .builtin "string") ∨ (k = "function" ∧ m.type = .user "FunctionExpression") ∨
    (k = "binary" ∧ m.type = .user "BinaryExpression") ∨ (k = "unary" ∧ m.type = .user "UnaryExpression") ∨
    (k = "group" ∧ m.type = .user "Expression") := by
  simp only [findMember, msExpression, List.find?_cons, List.find?_nil] at h
  repeat' split at h
  all_goals simp_all
  all_goals (subst h; simp)

/-! ## small facts -/

theorem lookupKV_nil (k : String) : lookupKV [] k = none := rfl

theorem val_struct_obj {S : List (String × SDef)} {n : String} {u : Bool} {ms : List SMember} {j j' : PJson}
    (hd : lookupDef S n = some (.struct u ms)) (h : val S (.user n) j = some j') : ∃ kvs, j' = .obj kvs := by
  cases u with
  | true => obtain ⟨_, _, _, _, _, _, _, _, h'⟩ := val_union_inv hd h; exact ⟨_, h'⟩
  | false => obtain ⟨_, _, _, _, _, h'⟩ := val_struct_inv hd h; exact ⟨_, h'⟩

theorem val_enum_inv {S : List (String × SDef)} {n : String} {vs : List String} {j j' : PJson}
    (hd : lookupDef S n = some (.enum vs)) (h : val S (.user n) j = some j') : ∃ s, j' = .str s ∧ s ∈ vs := by
  cases j <;> simp [val, hd] at h
  exact ⟨_, h.2.symm, h.1⟩

theorem isDefault_exprW (k : String) (e : Expr) : isDefault k (exprW e) = false := by
  cases e <;> rfl

theorem isDefault_obj (k : String) (kvs : List (String × PJson)) : isDefault k (.obj kvs) = false := rfl

theorem isDefault_str (k : String) (s : String) : isDefault k (.str s) = false := rfl

theorem isDefault_arr_nil (k : String) : isDefault k (.arr []) = (k == "args") := rfl

theorem isDefault_arr_cons (k : String) (x : PJson) (r : List PJson) : isDefault k (.arr (x :: r)) = false := rfl

theorem isDefault_statements (l : List PJson) : isDefault "statements" (.arr l) = false := by cases l <;> rfl

theorem isDefault_includes (l : List PJson) : isDefault "includes" (.arr l) = false := by cases l <;> rfl

theorem isDefault_bool (k : String) (b : Bool) : isDefault k (.bool b) = !b := by cases b <;> rfl

theorem ratOf_ratToJson (q : Rat) : ratOf (Syntax.ratToJson q) = some q := by
  have hq := q.den_pos
  simp [ratOf, Syntax.ratToJson, hq, Rat.mkRat_self]

theorem dropD_ratToJson (q : Rat) : dropD (Syntax.ratToJson q) = Syntax.ratToJson q := by
  simp [Syntax.ratToJson, dropD, dropL]

theorem isDefault_ratToJson (k : String) (q : Rat) : isDefault k (Syntax.ratToJson q) = false := rfl

theorem nameOk_ofString (s : String) : nameOk (Name.ofString s) = true := by
  simp [nameOk, C02.ofString_render_ofString]

theorem binop_of_mem {s : String} (h : s ∈ BinOp.all.map BinOp.text) : ∃ op : BinOp, op.text = s ∧ BinOp.ofText s = some op := by
  simp only [List.mem_map] at h
  obtain ⟨op, _, rfl⟩ := h
  exact ⟨op, rfl, by cases op <;> rfl⟩

theorem unop_of_mem {s : String} (h : s ∈ ["-", "!"]) : ∃ op : UnOp, op.text = s ∧ unOpOf s = some op := by
  simp only [List.mem_cons, List.mem_nil_iff, or_false] at h
  rcases h with rfl | rfl
  · exact ⟨.neg, rfl, rfl⟩
  · exact ⟨.not, rfl, rfl⟩

/-- the conclusion of the expression theorem for one validated value -/
def ExprRepr (j' : PJson) : Prop := ∃ e, exprOf j' = some e ∧ namesE e = true ∧ dropD (exprW e) = dropD j'

theorem exprs_repr : ∀ {xs xs' : List PJson}, valArr S (.user "Expression") [] xs = some xs' →
    (∀ x ∈ xs, ∀ x', val S (.user "Expression") x = some x' → ExprRepr x') →
    ∃ es, exprsOf xs' = some es ∧ namesEs es = true ∧ dropL (exprsW es) = dropL xs'
  | [], xs', h, _ => by
      simp [valArr] at h; subst h
      exact ⟨[], by simp [exprsOf], by simp [namesEs], by simp [exprsW, dropL]⟩
  | x :: r, xs', h, ih => by
      obtain ⟨x', r', h1, _, h3, rfl⟩ := valArr_cons_inv h
      obtain ⟨e, he, hn, hd⟩ := ih x List.mem_cons_self x' h1
      obtain ⟨es, hes, hns, hds⟩ := exprs_repr h3 (fun y hy => ih y (List.mem_cons_of_mem _ hy))
      exact ⟨e :: es, by simp [exprsOf, he, hes], by simp [namesEs, hn, hns], by simp [exprsW, dropL, hd, hds]⟩

theorem expr_repr_aux : ∀ (n : Nat) (j j' : PJson), sizeOf j < n → val S (.user "Expression") j = some j' → ExprRepr j' := by
  intro n
  induction n with
  | zero => intro j j' h; omega
  | succ n ih =>
    intro j j' hsz h
    obtain ⟨k, v, v', m, rfl, hm, hv, _, rfl⟩ := val_union_inv def_Expression h
    have hsv : sizeOf v < n := by simp at hsz; omega
    rcases findMember_Expression hm with ⟨rfl, ht⟩ | ⟨rfl, ht⟩ | ⟨rfl, ht⟩ | ⟨rfl, ht⟩ | ⟨rfl, ht⟩ | ⟨rfl, ht⟩ | ⟨rfl, ht⟩ <;>
      rw [ht] at hv
    · -- number
      obtain ⟨q, rfl⟩ := val_float_inv hv
      refine ⟨.number q, ?_, rfl, ?_⟩
      · simp [order, msExpression, lookupKV, exprOf, ratOf_ratToJson]
      · simp [order, msExpression, lookupKV, exprW, mk]
    · -- string
      obtain ⟨s, rfl, rfl⟩ := val_string_inv hv
      refine ⟨.string s, ?_, rfl, ?_⟩
      · simp [order, msExpression, lookupKV, exprOf]
      · simp [order, msExpression, lookupKV, exprW, mk]
    · -- variable
      obtain ⟨s, rfl, rfl⟩ := val_string_inv hv
      refine ⟨.variable (Name.ofString s), ?_, by simp [namesE, nameOk_ofString], ?_⟩
      · simp [order, msExpression, lookupKV, exprOf]
      · simp [order, msExpression, lookupKV, exprW, mk, C02.render_ofString]
    · -- function
      obtain ⟨kvs, out, ho, hsize, hreq, rfl⟩ := val_struct_inv def_FunctionExpression hv
      have hname := hreq ⟨"name", .builtin "string", false, []⟩ (by simp [msFunctionExpression]) rfl
      cases h1 : lookupKV out "name" with
      | none => simp [h1] at hname
      | some nm' =>
        obtain ⟨nv, m1, _, hm1, hv1, _⟩ := valKVs_lookup ho h1
        simp [findMember, msFunctionExpression] at hm1
        subst hm1
        obtain ⟨s, rfl, rfl⟩ := val_string_inv hv1
        cases h2 : lookupKV out "args" with
        | none =>
          refine ⟨.function (Name.ofString s) [], ?_, by simp [namesE, namesEs, nameOk_ofString], ?_⟩
          · simp [order, msExpression, msFunctionExpression, lookupKV_cons, lookupKV_nil, h1, h2, exprOf, fnExprOf]
          · simp [order, msExpression, msFunctionExpression, lookupKV_cons, lookupKV_nil, h1, h2, exprW, exprsW, mk, dropD, dropK, dropL, isDefault_obj, isDefault_str, isDefault_arr_nil, isDefault_arr_cons,
              C02.render_ofString]
        | some as' =>
          obtain ⟨av, m2, hmem2, hm2, hv2, _⟩ := valKVs_lookup ho h2
          simp [findMember, msFunctionExpression] at hm2
          subst hm2
          obtain ⟨xs, xs', hxs, rfl, hsx⟩ := val_array_inv hv2
          have hav := hsize _ _ hmem2
          obtain ⟨es, hes, hns, hds⟩ := exprs_repr hxs (fun x hx x' hx' => ih x x' (by have := hsx x hx; omega) hx')
          refine ⟨.function (Name.ofString s) es, ?_, by simp [namesE, hns, nameOk_ofString], ?_⟩
          · simp [order, msExpression, msFunctionExpression, lookupKV_cons, lookupKV_nil, h1, h2, exprOf, fnExprOf, hes]
          · cases xs' with
            | nil =>
              simp [exprsOf] at hes; subst hes
              simp [order, msExpression, msFunctionExpression, lookupKV_cons, lookupKV_nil, h1, h2, exprW, exprsW, mk, dropD, dropK, dropL, isDefault_obj, isDefault_str, isDefault_arr_nil, isDefault_arr_cons,
                C02.render_ofString]
            | cons x' r' =>
              cases es with
              | nil =>
                simp only [exprsOf] at hes
                split at hes <;> cases hes
              | cons e es' =>
                simp [order, msExpression, msFunctionExpression, lookupKV_cons, lookupKV_nil, h1, h2, exprW, mk, dropD, dropK, isDefault_obj, isDefault_str, isDefault_arr_nil, isDefault_arr_cons,
                  C02.render_ofString, hds, exprsW]
                simpa [dropL, exprsW] using hds
    · -- binary
      obtain ⟨kvs, out, ho, hsize, hreq, rfl⟩ := val_struct_inv def_BinaryExpression hv
      have hop := hreq ⟨"op", .user "BinaryExpressionOperator", false, []⟩ (by simp [msBinaryExpression]) rfl
      have hl := hreq ⟨"left", .user "Expression", false, []⟩ (by simp [msBinaryExpression]) rfl
      have hr := hreq ⟨"right", .user "Expression", false, []⟩ (by simp [msBinaryExpression]) rfl
      cases h1 : lookupKV out "op" with
      | none => simp [h1] at hop
      | some o' =>
      cases h2 : lookupKV out "left" with
      | none => simp [h2] at hl
      | some l' =>
      cases h3 : lookupKV out "right" with
      | none => simp [h3] at hr
      | some r' =>
        obtain ⟨ov, m1, _, hm1, hv1, _⟩ := valKVs_lookup ho h1
        obtain ⟨lv, m2, hmem2, hm2, hv2, _⟩ := valKVs_lookup ho h2
        obtain ⟨rv, m3, hmem3, hm3, hv3, _⟩ := valKVs_lookup ho h3
        simp [findMember, msBinaryExpression] at hm1 hm2 hm3
        subst hm1 hm2 hm3
        obtain ⟨s, rfl, hs⟩ := val_enum_inv def_BinaryExpressionOperator hv1
        obtain ⟨op, rfl, hop'⟩ := binop_of_mem hs
        obtain ⟨el, hel, hnl, hdl⟩ := ih lv l' (by have := hsize _ _ hmem2; omega) hv2
        obtain ⟨er, her, hnr, hdr⟩ := ih rv r' (by have := hsize _ _ hmem3; omega) hv3
        obtain ⟨kl, rfl⟩ := val_struct_obj def_Expression hv2
        obtain ⟨kr, rfl⟩ := val_struct_obj def_Expression hv3
        refine ⟨.binary op el er, ?_, by simp [namesE, hnl, hnr], ?_⟩
        · simp [order, msExpression, msBinaryExpression, lookupKV_cons, lookupKV_nil, h1, h2, h3, exprOf, binOf, hop', hel, her]
        · simp [order, msExpression, msBinaryExpression, lookupKV_cons, lookupKV_nil, h1, h2, h3, exprW, mk, dropD, dropK, isDefault_obj, isDefault_str, isDefault_exprW]
          simpa [dropD] using ⟨hdl, hdr⟩
    · -- unary
      obtain ⟨kvs, out, ho, hsize, hreq, rfl⟩ := val_struct_inv def_UnaryExpression hv
      have hop := hreq ⟨"op", .user "UnaryExpressionOperator", false, []⟩ (by simp [msUnaryExpression]) rfl
      have hl := hreq ⟨"expr", .user "Expression", false, []⟩ (by simp [msUnaryExpression]) rfl
      cases h1 : lookupKV out "op" with
      | none => simp [h1] at hop
      | some o' =>
      cases h2 : lookupKV out "expr" with
      | none => simp [h2] at hl
      | some l' =>
        obtain ⟨ov, m1, _, hm1, hv1, _⟩ := valKVs_lookup ho h1
        obtain ⟨lv, m2, hmem2, hm2, hv2, _⟩ := valKVs_lookup ho h2
        simp [findMember, msUnaryExpression] at hm1 hm2
        subst hm1 hm2
        obtain ⟨s, rfl, hs⟩ := val_enum_inv def_UnaryExpressionOperator hv1
        obtain ⟨op, rfl, hop'⟩ := unop_of_mem hs
        obtain ⟨el, hel, hnl, hdl⟩ := ih lv l' (by have := hsize _ _ hmem2; omega) hv2
        obtain ⟨kl, rfl⟩ := val_struct_obj def_Expression hv2
        refine ⟨.unary op el, ?_, by simp [namesE, hnl], ?_⟩
        · simp [order, msExpression, msUnaryExpression, lookupKV_cons, lookupKV_nil, h1, h2, exprOf, unOf, hop', hel]
        · simp [order, msExpression, msUnaryExpression, lookupKV_cons, lookupKV_nil, h1, h2, exprW, mk, dropD, dropK, isDefault_obj, isDefault_str, isDefault_exprW]
          simpa [dropD] using hdl
    · -- group
      obtain ⟨e, he, hn, hd⟩ := ih v v' hsv hv
      obtain ⟨kl, rfl⟩ := val_struct_obj def_Expression hv
      refine ⟨.group e, ?_, by simp [namesE, hn], ?_⟩
      · simp [order, msExpression, lookupKV, exprOf, he]
      · simp [order, msExpression, lookupKV, exprW, mk, dropD, dropK, isDefault_obj, isDefault_str, isDefault_exprW]
        simpa [dropD] using hd

theorem expr_repr {j j' : PJson} (h : val S (.user "Expression") j = some j') : ExprRepr j' :=
  expr_repr_aux (sizeOf j + 1) j j' (by omega) h

/-! ## statements -/

theorem findMember_ScriptStatement {k : String} {m : SMember} (h : findMember msScriptStatement k = some m) :
    (k = "expr" ∧ m.type = .user "ExpressionStatement") ∨ (k = "jump" ∧ m.type = .user "JumpStatement") ∨
    (k = "return" ∧ m.type = .user "ReturnStatement") ∨ (k = "label" ∧ m.type = .builtin "string") ∨
    (k = "function" ∧ m.type = .user "FunctionStatement") ∨ (k = "include" ∧ m.type = .user "IncludeStatement" ∧ m.attr = []) := by
  simp only [findMember, msScriptStatement, List.find?_cons, List.find?_nil] at h
  repeat' split at h
  all_goals simp_all
  all_goals (subst h; simp)

theorem isDefault_stmtW (k : String) (s : Stmt) : isDefault k (stmtW s) = false := by
  cases s with
  | expr n e => cases n <;> rfl
  | jump l c => cases c <;> rfl
  | ret e => cases e <;> rfl
  | label l => rfl
  | function f n a l i b => rfl
  | «include» i => rfl

theorem isDefault_incW (k : String) (i : IncludeScript) : isDefault k (incW i) = false := rfl

theorem dropL_strs (ss : List String) : dropL (ss.map PJson.str) = ss.map PJson.str := by
  induction ss with
  | nil => rfl
  | cons a r ih => simp [dropL, dropD, ih]

theorem render_names (ss : List String) :
    (ss.map Name.ofString).map (fun a => PJson.str a.render) = ss.map PJson.str := by
  induction ss with
  | nil => rfl
  | cons a r ih => simp [C02.render_ofString]

theorem map_render_comp (ss : List String) :
    List.map ((fun a => PJson.str (Name.render a)) ∘ Name.ofString) ss = ss.map PJson.str := by
  induction ss with
  | nil => rfl
  | cons a r ih => simp [C02.render_ofString]

theorem names_all_ok (ss : List String) : (ss.map Name.ofString).all nameOk = true := by
  simp [List.all_map, nameOk_ofString]

/-- a validated array of strings -/
theorem names_repr : ∀ {xs xs' : List PJson}, valArr S (.builtin "string") [] xs = some xs' →
    ∃ ss : List String, xs' = ss.map PJson.str ∧ strsOf xs' = some ss
  | [], xs', h => by simp [valArr] at h; subst h; exact ⟨[], rfl, rfl⟩
  | x :: r, xs', h => by
      obtain ⟨x', r', h1, _, h3, rfl⟩ := valArr_cons_inv h
      obtain ⟨s, rfl, rfl⟩ := val_string_inv h1
      obtain ⟨ss, rfl, hss⟩ := names_repr h3
      exact ⟨s :: ss, rfl, by simp [strsOf, hss]⟩

/-- the conclusion for one validated `IncludeScript` -/
theorem inc_repr {j j' : PJson} (h : val S (.user "IncludeScript") j = some j') :
    ∃ i, incOf j' = some i ∧ dropD (incW i) = dropD j' := by
  obtain ⟨kvs, out, ho, _, hreq, rfl⟩ := val_struct_inv def_IncludeScript h
  have hurl := hreq ⟨"url", .builtin "string", false, []⟩ (by simp [msIncludeScript]) rfl
  cases h1 : lookupKV out "url" with
  | none => simp [h1] at hurl
  | some u' =>
    obtain ⟨uv, m1, _, hm1, hv1, _⟩ := valKVs_lookup ho h1
    simp [findMember, msIncludeScript] at hm1
    subst hm1
    obtain ⟨u, rfl, rfl⟩ := val_string_inv hv1
    cases h2 : lookupKV out "system" with
    | none =>
      refine ⟨⟨u, false⟩, ?_, ?_⟩
      · simp [order, msIncludeScript, h1, h2, incOf, incFieldsOf]
      · simp [order, msIncludeScript, h1, h2, incW, mk]
    | some b' =>
      obtain ⟨bv, m2, _, hm2, hv2, _⟩ := valKVs_lookup ho h2
      simp [findMember, msIncludeScript] at hm2
      subst hm2
      obtain ⟨b, rfl⟩ := val_bool_inv hv2
      refine ⟨⟨u, b⟩, ?_, ?_⟩
      · simp [order, msIncludeScript, h1, h2, incOf, incFieldsOf]
      · cases b <;> simp [order, msIncludeScript, h1, h2, incW, mk, dropD, dropK, isDefault_str, isDefault_bool]

theorem incs_repr : ∀ {xs xs' : List PJson}, valArr S (.user "IncludeScript") [] xs = some xs' →
    ∃ is : List IncludeScript, incsOf xs' = some is ∧ dropL (is.map incW) = dropL xs' ∧ is.length = xs'.length
  | [], xs', h => by simp [valArr] at h; subst h; exact ⟨[], rfl, rfl, rfl⟩
  | x :: r, xs', h => by
      obtain ⟨x', r', h1, _, h3, rfl⟩ := valArr_cons_inv h
      obtain ⟨i, hi, hd⟩ := inc_repr h1
      obtain ⟨is, his, hds, hl⟩ := incs_repr h3
      exact ⟨i :: is, by simp [incsOf, hi, his], by simp [dropL, hd, hds], by simp [hl]⟩

/-- the conclusion of the statement theorem for one validated value -/
def StmtRepr (j' : PJson) : Prop :=
  ∃ s, stmtOf j' = some s ∧ wfS s = true ∧ namesS s = true ∧ dropD (stmtW s) = dropD j'

theorem stmts_repr : ∀ {xs xs' : List PJson}, valArr S (.user "ScriptStatement") [] xs = some xs' →
    (∀ x ∈ xs, ∀ x', val S (.user "ScriptStatement") x = some x' → StmtRepr x') →
    ∃ ss, stmtsOf xs' = some ss ∧ wfL ss = true ∧ namesL ss = true ∧ dropL (stmtsW ss) = dropL xs'
  | [], xs', h, _ => by
      simp [valArr] at h; subst h
      exact ⟨[], by simp [stmtsOf], by simp [wfL], by simp [namesL], by simp [stmtsW, dropL]⟩
  | x :: r, xs', h, ih => by
      obtain ⟨x', r', h1, _, h3, rfl⟩ := valArr_cons_inv h
      obtain ⟨s, hs, hw, hn, hd⟩ := ih x List.mem_cons_self x' h1
      obtain ⟨ss, hss, hws, hns, hds⟩ := stmts_repr h3 (fun y hy => ih y (List.mem_cons_of_mem _ hy))
      exact ⟨s :: ss, by simp [stmtsOf, hs, hss], by simp [wfL, hw, hws], by simp [namesL, hn, hns],
        by simp [stmtsW, dropL, hd, hds]⟩

/-- an optional `bool` member of a validated struct: absent, or a bool -/
theorem optBool {ms : List SMember} {kvs out : List (String × PJson)} (ho : valKVs S ms kvs = some out) (k : String)
    (hk : ∀ m, findMember ms k = some m → m.type = .builtin "bool") :
    ∃ ob : Option Bool, lookupKV out k = ob.map PJson.bool := by
  cases h : lookupKV out k with
  | none => exact ⟨none, rfl⟩
  | some b' =>
    obtain ⟨bv, m, _, hm, hv, _⟩ := valKVs_lookup ho h
    rw [hk m hm] at hv
    obtain ⟨b, rfl⟩ := val_bool_inv hv
    exact ⟨some b, rfl⟩

theorem stmt_repr_aux : ∀ (n : Nat) (j j' : PJson), sizeOf j < n → val S (.user "ScriptStatement") j = some j' → StmtRepr j' := by
  intro n
  induction n with
  | zero => intro j j' h; omega
  | succ n ih =>
    intro j j' hsz h
    obtain ⟨k, v, v', m, rfl, hm, hv, hattr, rfl⟩ := val_union_inv def_ScriptStatement h
    have hsv : sizeOf v < n := by simp at hsz; omega
    rcases findMember_ScriptStatement hm with ⟨rfl, ht⟩ | ⟨rfl, ht⟩ | ⟨rfl, ht⟩ | ⟨rfl, ht⟩ | ⟨rfl, ht⟩ | ⟨rfl, ht, hat⟩ <;>
      rw [ht] at hv
    · -- expr
      obtain ⟨kvs, out, ho, _, hreq, rfl⟩ := val_struct_inv def_ExpressionStatement hv
      have hex := hreq ⟨"expr", .user "Expression", false, []⟩ (by simp [msExpressionStatement]) rfl
      cases h1 : lookupKV out "expr" with
      | none => simp [h1] at hex
      | some e' =>
        obtain ⟨ev, m1, _, hm1, hv1, _⟩ := valKVs_lookup ho h1
        simp [findMember, msExpressionStatement] at hm1
        subst hm1
        obtain ⟨e, he, hn, hd⟩ := expr_repr hv1
        obtain ⟨ke, rfl⟩ := val_struct_obj def_Expression hv1
        cases h2 : lookupKV out "name" with
        | none =>
          refine ⟨.expr none e, ?_, rfl, by simp [namesS, hn], ?_⟩
          · simp [order, msScriptStatement, msExpressionStatement, lookupKV_cons, lookupKV_nil, h1, h2, stmtOf, exprStmtOf, he]
          · simp [order, msScriptStatement, msExpressionStatement, lookupKV_cons, lookupKV_nil, h1, h2, stmtW, mk, dropD, dropK,
              isDefault_obj, isDefault_exprW]
            simpa [dropD] using hd
        | some n' =>
          obtain ⟨nv, m2, _, hm2, hv2, _⟩ := valKVs_lookup ho h2
          simp [findMember, msExpressionStatement] at hm2
          subst hm2
          obtain ⟨nm, rfl, rfl⟩ := val_string_inv hv2
          refine ⟨.expr (some (Name.ofString nm)) e, ?_, rfl, by simp [namesS, hn, nameOk_ofString], ?_⟩
          · simp [order, msScriptStatement, msExpressionStatement, lookupKV_cons, lookupKV_nil, h1, h2, stmtOf, exprStmtOf, he]
          · simp [order, msScriptStatement, msExpressionStatement, lookupKV_cons, lookupKV_nil, h1, h2, stmtW, mk, dropD, dropK,
              isDefault_obj, isDefault_str, isDefault_exprW, C02.render_ofString]
            simpa [dropD] using hd
    · -- jump
      obtain ⟨kvs, out, ho, _, hreq, rfl⟩ := val_struct_inv def_JumpStatement hv
      have hlab := hreq ⟨"label", .builtin "string", false, []⟩ (by simp [msJumpStatement]) rfl
      cases h1 : lookupKV out "label" with
      | none => simp [h1] at hlab
      | some l' =>
        obtain ⟨lv, m1, _, hm1, hv1, _⟩ := valKVs_lookup ho h1
        simp [findMember, msJumpStatement] at hm1
        subst hm1
        obtain ⟨l, rfl, rfl⟩ := val_string_inv hv1
        cases h2 : lookupKV out "expr" with
        | none =>
          refine ⟨.jump (Name.ofString l) none, ?_, rfl, by simp [namesS, namesO, nameOk_ofString], ?_⟩
          · simp [order, msScriptStatement, msJumpStatement, lookupKV_cons, lookupKV_nil, h1, h2, stmtOf, jumpOf]
          · simp [order, msScriptStatement, msJumpStatement, lookupKV_cons, lookupKV_nil, h1, h2, stmtW, mk, dropD, dropK,
              isDefault_obj, isDefault_str, C02.render_ofString]
        | some e' =>
          obtain ⟨ev, m2, _, hm2, hv2, _⟩ := valKVs_lookup ho h2
          simp [findMember, msJumpStatement] at hm2
          subst hm2
          obtain ⟨e, he, hn, hd⟩ := expr_repr hv2
          obtain ⟨ke, rfl⟩ := val_struct_obj def_Expression hv2
          refine ⟨.jump (Name.ofString l) (some e), ?_, rfl, by simp [namesS, namesO, hn, nameOk_ofString], ?_⟩
          · simp [order, msScriptStatement, msJumpStatement, lookupKV_cons, lookupKV_nil, h1, h2, stmtOf, jumpOf, he]
          · simp [order, msScriptStatement, msJumpStatement, lookupKV_cons, lookupKV_nil, h1, h2, stmtW, mk, dropD, dropK,
              isDefault_obj, isDefault_str, isDefault_exprW, C02.render_ofString]
            simpa [dropD] using hd
    · -- return
      obtain ⟨kvs, out, ho, _, _, rfl⟩ := val_struct_inv def_ReturnStatement hv
      cases h2 : lookupKV out "expr" with
      | none =>
        refine ⟨.ret none, ?_, rfl, rfl, ?_⟩
        · simp [order, msScriptStatement, msReturnStatement, lookupKV_cons, lookupKV_nil, h2, stmtOf, retOf]
        · simp [order, msScriptStatement, msReturnStatement, lookupKV_cons, lookupKV_nil, h2, stmtW, mk, dropD, dropK, isDefault_obj]
      | some e' =>
        obtain ⟨ev, m2, _, hm2, hv2, _⟩ := valKVs_lookup ho h2
        simp [findMember, msReturnStatement] at hm2
        subst hm2
        obtain ⟨e, he, hn, hd⟩ := expr_repr hv2
        obtain ⟨ke, rfl⟩ := val_struct_obj def_Expression hv2
        refine ⟨.ret (some e), ?_, rfl, by simp [namesS, namesO, hn], ?_⟩
        · simp [order, msScriptStatement, msReturnStatement, lookupKV_cons, lookupKV_nil, h2, stmtOf, retOf, he]
        · simp [order, msScriptStatement, msReturnStatement, lookupKV_cons, lookupKV_nil, h2, stmtW, mk, dropD, dropK,
            isDefault_obj, isDefault_exprW]
          simpa [dropD] using hd
    · -- label
      obtain ⟨l, rfl, rfl⟩ := val_string_inv hv
      refine ⟨.label (Name.ofString l), ?_, rfl, by simp [namesS, nameOk_ofString], ?_⟩
      · simp [order, msScriptStatement, lookupKV, stmtOf]
      · simp [order, msScriptStatement, lookupKV, stmtW, mk, C02.render_ofString]
    · -- function
      obtain ⟨kvs, out, ho, hsize, hreq, rfl⟩ := val_struct_inv def_FunctionStatement hv
      have hname := hreq ⟨"name", .builtin "string", false, []⟩ (by simp [msFunctionStatement]) rfl
      have hstm := hreq ⟨"statements", .array (.user "ScriptStatement") [], false, []⟩ (by simp [msFunctionStatement]) rfl
      obtain ⟨obA, hA⟩ := optBool ho "async" (by intro m hm; simp [findMember, msFunctionStatement] at hm; subst hm; rfl)
      obtain ⟨obL, hL⟩ := optBool ho "lastArgArray" (by intro m hm; simp [findMember, msFunctionStatement] at hm; subst hm; rfl)
      cases h1 : lookupKV out "name" with
      | none => simp [h1] at hname
      | some n' =>
      cases h2 : lookupKV out "statements" with
      | none => simp [h2] at hstm
      | some b' =>
        obtain ⟨nv, m1, _, hm1, hv1, _⟩ := valKVs_lookup ho h1
        obtain ⟨bv, m2, hmem2, hm2, hv2, _⟩ := valKVs_lookup ho h2
        simp [findMember, msFunctionStatement] at hm1 hm2
        subst hm1 hm2
        obtain ⟨nm, rfl, rfl⟩ := val_string_inv hv1
        obtain ⟨xs, xs', hxs, rfl, hsx⟩ := val_array_inv hv2
        have hbv := hsize _ _ hmem2
        obtain ⟨body, hbody, hwb, hnb, hdb⟩ :=
          stmts_repr hxs (fun x hx x' hx' => ih x x' (by have := hsx x hx; omega) hx')
        cases h3 : lookupKV out "args" with
        | none =>
          refine ⟨.function 0 (Name.ofString nm) [] (obL.getD false) (obA.getD false) body, ?_, by simpa [wfS] using hwb,
            by simp [namesS, hnb, nameOk_ofString], ?_⟩
          · rcases obA with _ | _ | _ <;> rcases obL with _ | _ | _ <;>
              simp [order, msScriptStatement, msFunctionStatement, lookupKV_cons, lookupKV_nil, h1, h2, h3, hA, hL, stmtOf, fnStmtOf,
                strsOf, hbody]
          · rcases obA with _ | _ | _ <;> rcases obL with _ | _ | _ <;>
              simp [order, msScriptStatement, msFunctionStatement, lookupKV_cons, lookupKV_nil, h1, h2, h3, hA, hL, stmtW, mk, dropD,
                dropK, isDefault_obj, isDefault_str, isDefault_bool, isDefault_arr_nil, isDefault_arr_cons, isDefault_statements, C02.render_ofString, hdb]
        | some a' =>
          obtain ⟨av, m3, _, hm3, hv3, hat3⟩ := valKVs_lookup ho h3
          simp [findMember, msFunctionStatement] at hm3
          subst hm3
          obtain ⟨ys, ys', hys, rfl, _⟩ := val_array_inv hv3
          obtain ⟨ss, rfl, hss⟩ := names_repr hys
          cases ss with
          | nil => simp [attrOk, attr1, jlen] at hat3
          | cons s0 sr =>
            have hrn := render_names (s0 :: sr)
            have hdl := dropL_strs (s0 :: sr)
            simp only [List.map_cons] at hrn hdl hss
            refine ⟨.function 0 (Name.ofString nm) ((s0 :: sr).map Name.ofString) (obL.getD false) (obA.getD false) body, ?_,
              by simpa [wfS] using hwb, by simp [namesS, hnb, nameOk_ofString, List.all_map], ?_⟩
            · rcases obA with _ | _ | _ <;> rcases obL with _ | _ | _ <;>
                simp [order, msScriptStatement, msFunctionStatement, lookupKV_cons, lookupKV_nil, h1, h2, h3, hA, hL, stmtOf,
                  fnStmtOf, hss, hbody]
            · rcases obA with _ | _ | _ <;> rcases obL with _ | _ | _ <;>
                simp [order, msScriptStatement, msFunctionStatement, lookupKV_cons, lookupKV_nil, h1, h2, h3, hA, hL, stmtW, mk, dropD,
                  dropK, isDefault_obj, isDefault_str, isDefault_bool, isDefault_arr_nil, isDefault_arr_cons, isDefault_statements, C02.render_ofString,
                  hdb, hrn, hdl, map_render_comp, dropL, dropL_strs]
    · -- include
      obtain ⟨kvs, out, ho, _, hreq, rfl⟩ := val_struct_inv def_IncludeStatement hv
      have hinc := hreq ⟨"includes", .array (.user "IncludeScript") [], false, [("lenGT", 0)]⟩ (by simp [msIncludeStatement]) rfl
      cases h1 : lookupKV out "includes" with
      | none => simp [h1] at hinc
      | some i' =>
        obtain ⟨iv, m1, _, hm1, hv1, hat1⟩ := valKVs_lookup ho h1
        simp [findMember, msIncludeStatement] at hm1
        subst hm1
        obtain ⟨xs, xs', hxs, rfl, _⟩ := val_array_inv hv1
        obtain ⟨is, his, hds, hlen⟩ := incs_repr hxs
        have hne : is ≠ [] := by
          intro hnil
          subst hnil
          cases xs' with
          | nil => simp [attrOk, attr1, jlen] at hat1
          | cons a r => simp at hlen
        refine ⟨.include is, ?_, by simpa [wfS] using hne, rfl, ?_⟩
        · simp [order, msScriptStatement, msIncludeStatement, lookupKV_cons, lookupKV_nil, h1, stmtOf, his]
        · cases xs' with
          | nil => cases is with
            | nil => exact absurd rfl hne
            | cons a r => simp at hlen
          | cons x' r' =>
            simp [order, msScriptStatement, msIncludeStatement, lookupKV_cons, lookupKV_nil, h1, stmtW, mk, dropD, dropK, isDefault_obj,
              isDefault_arr_cons, hds]
            cases is with
            | nil => exact absurd rfl hne
            | cons a r => simp [dropD, isDefault_arr_cons] at hds ⊢

theorem stmt_repr {j j' : PJson} (h : val S (.user "ScriptStatement") j = some j') : StmtRepr j' :=
  stmt_repr_aux (sizeOf j + 1) j j' (by omega) h

/-- **the converse for whole scripts**: the validated copy of any schema-valid document reads as a statement list, and differs
from that list's own validated JSON only by optional members at their defaults -/
theorem script_repr {j j' : PJson} (h : validate S "BareScript" j = some j') :
    ∃ P, scriptOf j' = some P ∧ wfL P = true ∧ namesL P = true ∧ dropD (scriptW P) = dropD j' := by
  obtain ⟨kvs, out, ho, _, hreq, rfl⟩ := val_struct_inv def_BareScript h
  have hst := hreq ⟨"statements", .array (.user "ScriptStatement") [], false, []⟩ (by simp [msBareScript]) rfl
  cases h1 : lookupKV out "statements" with
  | none => simp [h1] at hst
  | some b' =>
    obtain ⟨bv, m1, _, hm1, hv1, _⟩ := valKVs_lookup ho h1
    simp [findMember, msBareScript] at hm1
    subst hm1
    obtain ⟨xs, xs', hxs, rfl, _⟩ := val_array_inv hv1
    obtain ⟨P, hP, hw, hn, hd⟩ := stmts_repr hxs (fun x _ x' hx' => stmt_repr hx')
    refine ⟨P, ?_, hw, hn, ?_⟩
    · simp [order, msBareScript, h1, scriptOf, hP]
    · cases xs' with
      | nil =>
        simp [stmtsOf] at hP; subst hP
        simp [order, msBareScript, h1, scriptW, stmtsW, mk, dropD, dropK, dropL, isDefault_arr_nil]
      | cons x' r' =>
        cases P with
        | nil => simp only [stmtsOf] at hP; split at hP <;> cases hP
        | cons s ss =>
          simp [order, msBareScript, h1, scriptW, stmtsW, mk, dropD, dropK, isDefault_arr_cons]
          simpa [stmtsW] using hd

end C07Schema
