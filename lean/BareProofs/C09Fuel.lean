import BareModel.MachineSpec
open Machine
namespace C09
variable {W : Type}

/-! ## fuel monotonicity: more fuel never changes a result that was reached -/

section EvalFM
variable (cfg : Config W) (cA cB : CallFn W) (hc : ∀ f a s, cA f a s = .oof ∨ cB f a s = cA f a s) (locals : Option Env)
include hc
set_option linter.unusedSectionVars false

mutual
theorem evalExpr_fm : ∀ (e : Expr) (st : State W),
    evalExpr cfg cA locals e st = .oof ∨ evalExpr cfg cB locals e st = evalExpr cfg cA locals e st
  | .number q, st => by right; simp only [evalExpr]
  | .string s, st => by right; simp only [evalExpr]
  | .variable n, st => by right; simp only [evalExpr]
  | .function n args, st => by
      simp only [evalExpr]
      split
      · exact evalIf_fm args st
      · rcases evalArgs_fm args st with h | h
        · rw [h]; exact .inl rfl
        · rw [h]
          cases evalArgs cfg cA locals args st with
          | err e st1 => exact .inr rfl
          | oof => exact .inl rfl
          | ok vs st1 =>
            simp only
            split
            · exact .inr rfl
            · exact hc _ _ _
            · exact .inr rfl
  | .binary op l r, st => by
      rcases evalExpr_fm l st with h | h
      · cases op <;> simp only [evalExpr] <;> rw [h] <;> exact .inl rfl
      · cases op <;> simp only [evalExpr] <;> rw [h] <;>
          cases evalExpr cfg cA locals l st with
          | err e st1 => exact .inr rfl
          | oof => exact .inl rfl
          | ok lv st1 =>
            simp only
            first
            | (split
               · exact evalExpr_fm r st1
               · exact .inr rfl)
            | (split
               · exact .inr rfl
               · exact evalExpr_fm r st1)
            | (rcases evalExpr_fm r st1 with h2 | h2
               · rw [h2]; exact .inl rfl
               · rw [h2]; exact .inr rfl)
  | .unary op e, st => by
      rcases evalExpr_fm e st with h | h
      · cases op <;> simp only [evalExpr] <;> rw [h] <;> exact .inl rfl
      · cases op <;> simp only [evalExpr] <;> rw [h] <;> exact .inr rfl
  | .group e, st => by simp only [evalExpr]; exact evalExpr_fm e st

theorem evalArgs_fm : ∀ (es : List Expr) (st : State W),
    evalArgs cfg cA locals es st = .oof ∨ evalArgs cfg cB locals es st = evalArgs cfg cA locals es st
  | [], st => by right; simp only [evalArgs]
  | a :: as, st => by
      simp only [evalArgs]
      rcases evalExpr_fm a st with h | h
      · rw [h]; exact .inl rfl
      · rw [h]
        cases evalExpr cfg cA locals a st with
        | err e st1 => exact .inr rfl
        | oof => exact .inl rfl
        | ok v st1 =>
          simp only
          rcases evalArgs_fm as st1 with h2 | h2
          · rw [h2]; exact .inl rfl
          · rw [h2]; exact .inr rfl

theorem evalIf_fm : ∀ (es : List Expr) (st : State W),
    evalIf cfg cA locals es st = .oof ∨ evalIf cfg cB locals es st = evalIf cfg cA locals es st
  | [], st => by right; simp only [evalIf]
  | [c], st => by
      simp only [evalIf]
      rcases evalExpr_fm c st with h | h
      · rw [h]; exact .inl rfl
      · rw [h]; exact .inr rfl
  | [c, t], st => by
      simp only [evalIf]
      rcases evalExpr_fm c st with h | h
      · rw [h]; exact .inl rfl
      · rw [h]
        cases evalExpr cfg cA locals c st with
        | err e st1 => exact .inr rfl
        | oof => exact .inl rfl
        | ok v st1 =>
          simp only
          split
          · exact evalExpr_fm t st1
          · exact .inr rfl
  | c :: t :: f :: _, st => by
      simp only [evalIf]
      rcases evalExpr_fm c st with h | h
      · rw [h]; exact .inl rfl
      · rw [h]
        cases evalExpr cfg cA locals c st with
        | err e st1 => exact .inr rfl
        | oof => exact .inl rfl
        | ok v st1 =>
          simp only
          split
          · exact evalExpr_fm t st1
          · exact evalExpr_fm f st1
end

theorem runTree_fm : ∀ (t : LibTree W) (st : State W),
    runTree cfg cA t st = .oof ∨ runTree cfg cB t st = runTree cfg cA t st
  | .ret (.ok v) w, st => by right; simp only [runTree]
  | .ret (.fail v) w, st => by right; simp only [runTree]
  | .ret (.rt msg) w, st => by right; simp only [runTree]
  | .call f args w k, st => by
      simp only [runTree]
      rcases hc f args { st with world := w } with h | h
      · rw [h]; exact .inl rfl
      · rw [h]
        cases cA f args { st with world := w } with
        | err e st1 => exact .inr rfl
        | oof => exact .inl rfl
        | ok v st1 => exact runTree_fm (k v st1.world) st1
  | .globalGet n w k, st => by simp only [runTree]; exact runTree_fm _ _
  | .globalSet n v w k, st => by simp only [runTree]; exact runTree_fm _ _
end EvalFM

def FuelMono (cfg : Config W) (fuel : Nat) : Prop :=
  ∀ fuel', fuel ≤ fuel' →
    (∀ f a s, callValue₀ cfg fuel f a s = .oof ∨ callValue₀ cfg fuel' f a s = callValue₀ cfg fuel f a s) ∧
    (∀ P locals base pc st, execM₀ cfg fuel P locals base pc st = .oof ∨
        execM₀ cfg fuel' P locals base pc st = execM₀ cfg fuel P locals base pc st) ∧
    (∀ base incs st, execIncludes₀ cfg fuel base incs st = .oof ∨
        execIncludes₀ cfg fuel' base incs st = execIncludes₀ cfg fuel base incs st)

theorem fuelMono (cfg : Config W) : ∀ fuel, FuelMono cfg fuel
  | 0 => by
    intro fuel' _
    refine ⟨?_, ?_, ?_⟩
    · intro f a s; rw [callValue₀.eq_1]; exact .inl rfl
    · intro P locals base pc st
      rw [execM₀.eq_1, execM₀.eq_1 cfg fuel']
      cases P[pc]? with
      | none => exact .inr rfl
      | some s => exact .inl rfl
    · intro base incs st
      cases incs with
      | nil => rw [execIncludes₀.eq_1, execIncludes₀.eq_1]; exact .inr rfl
      | cons i r =>
        rw [execIncludes₀.eq_2, execIncludes₀.eq_2]
        cases cfg.fetch (cfg.resolve base i) with
        | missing => exact .inr rfl
        | broken => exact .inr rfl
        | script ss => exact .inl rfl
  | fuel+1 => by
    intro fuel' hle
    obtain ⟨f', rfl⟩ : ∃ f', fuel' = f' + 1 := ⟨fuel' - 1, by omega⟩
    obtain ⟨ihC, ihE, ihI⟩ := fuelMono cfg fuel f' (by omega)
    refine ⟨?_, ?_, ?_⟩
    · intro f a s
      rw [callValue₀.eq_def, callValue₀.eq_def cfg (f'+1)]
      simp only
      split
      · split
        · next fd _ =>
          rcases ihE fd.body (some (bindArgs cfg.host fd.lastArgArray fd.args a [] s.world).1) none 0
              { s with world := (bindArgs cfg.host fd.lastArgArray fd.args a [] s.world).2 } with h | h
          · rw [h]; exact .inl rfl
          · rw [h]; exact .inr rfl
        · exact .inr rfl
      · exact runTree_fm cfg _ _ ihC _ _
      · exact runTree_fm cfg _ _ ihC _ _
      · exact .inr rfl
    · intro P locals base pc st
      rw [execM₀.eq_1, execM₀.eq_1 cfg (f'+1)]
      cases P[pc]? with
      | none => exact .inr rfl
      | some s =>
        simp only
        split
        · exact .inr rfl
        · cases s with
          | expr name e =>
            simp only
            rcases evalExpr_fm cfg _ _ ihC locals e { st with count := st.count + 1 } with h | h
            · rw [h]; exact .inl rfl
            · rw [h]
              cases evalExpr cfg (callValue₀ cfg fuel) locals e { st with count := st.count + 1 } with
              | err e st2 => exact .inr rfl
              | oof => exact .inl rfl
              | ok v st2 => cases name <;> cases locals <;> exact ihE ..
          | jump l c =>
            cases c with
            | none =>
              simp only
              cases findLabel P l with
              | none => exact .inr rfl
              | some i => exact ihE ..
            | some c =>
              simp only
              rcases evalExpr_fm cfg _ _ ihC locals c { st with count := st.count + 1 } with h | h
              · rw [h]; exact .inl rfl
              · rw [h]
                cases evalExpr cfg (callValue₀ cfg fuel) locals c { st with count := st.count + 1 } with
                | err e st2 => exact .inr rfl
                | oof => exact .inl rfl
                | ok v st2 =>
                  simp only
                  split
                  · cases findLabel P l with
                    | none => exact .inr rfl
                    | some i => exact ihE ..
                  · exact ihE ..
          | ret e =>
            cases e with
            | none => exact .inr rfl
            | some e =>
              simp only
              rcases evalExpr_fm cfg _ _ ihC locals e { st with count := st.count + 1 } with h | h
              · rw [h]; exact .inl rfl
              · rw [h]; exact .inr rfl
          | label l => exact ihE ..
          | function fid name args laa isAsync body => exact ihE ..
          | «include» incs =>
            simp only
            rcases ihI base incs { st with count := st.count + 1 } with h | h
            · rw [h]; exact .inl rfl
            · rw [h]
              cases execIncludes₀ cfg fuel base incs { st with count := st.count + 1 } with
              | done st2 => exact ihE ..
              | ret v st2 => exact .inr rfl
              | err e st2 => exact .inr rfl
              | oof => exact .inl rfl
    · intro base incs st
      cases incs with
      | nil => rw [execIncludes₀.eq_1, execIncludes₀.eq_1]; exact .inr rfl
      | cons i r =>
        rw [execIncludes₀.eq_2, execIncludes₀.eq_2]
        simp only
        cases cfg.fetch (cfg.resolve base i) with
        | missing => exact .inr rfl
        | broken => exact .inr rfl
        | script ss =>
          simp only
          rcases ihE ss none (some (cfg.resolve base i)) 0 st with h | h
          · rw [h]; exact .inl rfl
          · rw [h]
            cases execM₀ cfg fuel ss none (some (cfg.resolve base i)) 0 st with
            | done st2 => exact ihI ..
            | ret v st2 => exact ihI ..
            | err e st2 => exact .inr rfl
            | oof => exact .inl rfl

end C09
