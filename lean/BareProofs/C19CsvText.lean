import BareProofs.C19
import BareProofs.C19CsvTextLemmas

/-!
C19 extension: the CSV typing round trip at the level of the WHOLE TABLE TEXT.

`C19CsvTextLemmas` shows that the `_csv` reader run over the lines of a text written by the RFC-4180 writer gives the
records back.  Here: `csv.DictReader` over those records, `validate_data(csv=True)` over SEVERAL columns (each column is
typed on its own: the type of its first determinable cell), and the theorem `csv_text_roundtrip`.
-/

namespace C19CsvText
open Compare Data CsvText

/-! ## `validate_data`: the `types` dict, field by field -/

theorem lookup_typesSet (f g : String) (t : Option FieldType) : ∀ types : List (String × Option FieldType),
    bucketLookup f (typesSet g t types) = if g = f then some t else bucketLookup f types
  | [] => by simp [typesSet, bucketLookup]
  | (f', t') :: rest => by
    have ih := lookup_typesSet f g t rest
    by_cases h1 : f' = g
    · subst h1
      by_cases h2 : f' = f <;> simp [typesSet, bucketLookup, h2]
    · by_cases h2 : f' = f
      · subst h2
        simp [typesSet, bucketLookup, h1, Ne.symm h1]
      · simp [typesSet, bucketLookup, h1, h2, ih]

/-- the effect of one value on the `types` entry of its field -/
def upd (offU : Int → Int) (cur : Option (Option FieldType)) (v : PValue) : Option (Option FieldType) :=
  match cur.join with
  | some _ => cur
  | none =>
    match detectType true offU v with
    | none => cur
    | some t => some t

theorem lookup_detectCell (offU : Int → Int) (f g : String) (v : PValue) (types : List (String × Option FieldType)) :
    bucketLookup f (detectCell true offU types (g, v)) = if g = f then upd offU (bucketLookup f types) v else bucketLookup f types := by
  unfold detectCell upd typesGet
  by_cases h : g = f
  · subst h
    simp only [if_true]
    cases h1 : (bucketLookup g types).join with
    | some t => simp
    | none =>
      simp only
      cases h2 : detectType true offU v with
      | none => simp
      | some t => simp [lookup_typesSet]
  · simp only [h, if_false]
    split
    · rfl
    · split
      · rfl
      · simp [lookup_typesSet, h]

theorem lookup_row (offU : Int → Int) (f : String) : ∀ (row : Row) (types : List (String × Option FieldType)),
    (row.map (·.1)).Nodup →
    bucketLookup f (row.foldl (detectCell true offU) types) =
      match bucketLookup f row with
      | some v => upd offU (bucketLookup f types) v
      | none => bucketLookup f types
  | [], types, _ => by simp [bucketLookup]
  | (g, v) :: rest, types, hnd => by
    simp only [List.map_cons, List.nodup_cons] at hnd
    have ih := lookup_row offU f rest (detectCell true offU types (g, v)) hnd.2
    simp only [List.foldl_cons, ih, lookup_detectCell]
    by_cases h : g = f
    · subst h
      have hnone : bucketLookup g rest = none := by
        have : ∀ (l : Row), g ∉ l.map (·.1) → bucketLookup g l = none := by
          intro l
          induction l with
          | nil => intro _; rfl
          | cons p l ih =>
            intro hn
            simp only [List.map_cons, List.mem_cons, not_or] at hn
            simp [bucketLookup, Ne.symm hn.1, ih hn.2]
        exact this rest hnd.1
      simp [bucketLookup, hnone]
    · simp [bucketLookup, h]

theorem lookup_table (offU : Int → Int) (f : String) : ∀ (T : Table) (types : List (String × Option FieldType)),
    (∀ r ∈ T, (r.map (·.1)).Nodup) →
    bucketLookup f (T.foldl (fun types row => row.foldl (detectCell true offU) types) types) =
      (T.filterMap (bucketLookup f)).foldl (upd offU) (bucketLookup f types)
  | [], types, _ => by simp
  | row :: T, types, hnd => by
    have ih := lookup_table offU f T (row.foldl (detectCell true offU) types) (fun r hr => hnd r (by simp [hr]))
    simp only [List.foldl_cons, ih, lookup_row offU f row types (hnd row (by simp)), List.filterMap_cons]
    cases bucketLookup f row <;> simp

/-- the entry after a run of CSV cells -/
theorem upd_fold_str (offU : Int → Int) : ∀ (cs : List String) (cur : Option (Option FieldType)),
    (cs.map PValue.str).foldl (upd offU) cur =
      match cur.join with
      | some _ => cur
      | none => if cs = [] then cur else some (C19.firstType offU cs)
  | [], cur => by cases h : cur.join <;> simp
  | c :: cs, cur => by
    have ih := upd_fold_str offU cs
    simp only [List.map_cons, List.foldl_cons, reduceCtorEq, if_false]
    cases h : cur.join with
    | some t =>
      have : upd offU cur (.str c) = cur := by simp [upd, h]
      rw [this, ih cur, h]
    | none =>
      obtain ⟨x, hx⟩ := C19.detectType_str offU c
      have : upd offU cur (.str c) = some x := by simp [upd, h, hx]
      rw [this, ih (some x)]
      cases x with
      | some t => simp [C19.firstType, hx]
      | none =>
        by_cases hcs : cs = []
        · subst hcs; simp [C19.firstType, hx]
        · simp [C19.firstType, hx, hcs]

theorem lookup_mapval {β γ : Type} (g : β → γ) (f : String) : ∀ l : List (String × β),
    bucketLookup f (l.map (fun p => (p.1, g p.2))) = (bucketLookup f l).map g
  | [] => rfl
  | (k, v) :: rest => by
    by_cases h : k = f <;> simp [bucketLookup, h, lookup_mapval g f rest]

theorem lookup_zip_map {β γ : Type} (g : β → γ) (f : String) (hs : List String) (r : List β) :
    bucketLookup f (hs.zip (r.map g)) = (bucketLookup f (hs.zip r)).map g := by
  rw [List.zip_map_right]
  exact lookup_mapval g f (hs.zip r)

theorem lookup_of_mem {β : Type} (f : String) (x : β) : ∀ l : List (String × β), (l.map (·.1)).Nodup → (f, x) ∈ l →
    bucketLookup f l = some x
  | [], _, h => by simp at h
  | (k, v) :: rest, hnd, h => by
    simp only [List.map_cons, List.nodup_cons] at hnd
    rcases List.mem_cons.mp h with e | e
    · cases e; simp [bucketLookup]
    · have hk : k ≠ f := by
        intro e'; subst e'
        exact hnd.1 (List.mem_map.mpr ⟨(k, x), e, rfl⟩)
      simp [bucketLookup, hk, lookup_of_mem f x rest hnd.2 e]

/-- **the type of a field of a rectangular CSV table**: that of its column -/
theorem lookup_detectTypes (offU : Int → Int) (header : List String) (hnd : header.Nodup) (cells : List (List String))
    (f : String) (hne : colAt header f cells ≠ []) :
    bucketLookup f (detectTypes true offU (cells.map (fun r => header.zip (r.map PValue.str)))) =
      some (C19.colType offU (colAt header f cells)) := by
  unfold detectTypes
  rw [lookup_mapval (fun (t : Option FieldType) => t.getD .string) f]
  rw [lookup_table offU f _ [] (by
    intro r hr
    obtain ⟨r0, _, rfl⟩ := List.mem_map.mp hr
    have hsub : ((header.zip (r0.map PValue.str)).map (·.1)).Sublist header := by
      have : ∀ (hs : List String) (vs : List PValue), ((hs.zip vs).map (·.1)).Sublist hs := by
        intro hs
        induction hs with
        | nil => intro vs; simp
        | cons h hs ih =>
          intro vs
          cases vs with
          | nil => simp
          | cons v vs => simpa using ih vs
      exact this _ _
    exact hsub.nodup hnd)]
  have hcol : (cells.map (fun r => header.zip (r.map PValue.str))).filterMap (bucketLookup f) =
      (colAt header f cells).map PValue.str := by
    unfold colAt cellAt
    rw [List.filterMap_map, List.map_filterMap]
    congr 1
    funext r
    exact lookup_zip_map PValue.str f header r
  rw [hcol, upd_fold_str]
  simp [bucketLookup, hne, C19.colType]

/-- second pass over one row whose fields all have a type entry -/
theorem convertRow_typed (offU : Int → Int) (types : List (String × FieldType)) (text : CsvVal → String) (val : CsvVal → PValue) :
    ∀ row : List (String × CsvVal),
    (∀ p ∈ row, ∃ t, bucketLookup p.1 types = some t ∧ convertCell true offU p.1 t (.str (text p.2)) = .ok (val p.2)) →
    convertRow true offU types (row.map (fun p => (p.1, PValue.str (text p.2)))) = .ok (row.map (fun p => (p.1, val p.2)))
  | [], _ => rfl
  | (f, x) :: rest, h => by
    obtain ⟨t, ht, hc⟩ := h (f, x) (by simp)
    have ih := convertRow_typed offU types text val rest (fun p hp => h p (by simp [hp]))
    simp only [List.map_cons, convertRow, ht, hc, ih]
    rfl

theorem convertRows_typed (offU : Int → Int) (types : List (String × FieldType)) (text : CsvVal → String) (val : CsvVal → PValue) :
    ∀ rows : List (List (String × CsvVal)),
    (∀ row ∈ rows, ∀ p ∈ row, ∃ t, bucketLookup p.1 types = some t ∧ convertCell true offU p.1 t (.str (text p.2)) = .ok (val p.2)) →
    convertRows true offU types (rows.map (fun row => row.map (fun p => (p.1, PValue.str (text p.2))))) =
      .ok (rows.map (fun row => row.map (fun p => (p.1, val p.2))))
  | [], _ => rfl
  | row :: rows, h => by
    have h1 := convertRow_typed offU types text val row (h row (by simp))
    have ih := convertRows_typed offU types text val rows (fun r hr => h r (by simp [hr]))
    simp only [List.map_cons, convertRows, h1, ih]
    rfl

/-! ## one column (the argument of `C19.csv_typing_roundtrip_partial`, cell by cell) -/

/-- every cell of a column of one kind converts under the column's detected type -/
theorem column_convert (kind : C19.ColKind) (offL offU : Int → Int) (nullText : String) (hnull : nullText = "" ∨ nullText = "null")
    (f : String) (xs : List CsvVal) (pv : CsvVal → PValue)
    (hcells : ∀ x ∈ xs, C19.CellOK kind offL offU nullText x (pv x))
    (hsome : kind = .string ∨ nullText = "null" ∨ ∃ x ∈ xs, x ≠ .null)
    (hstr : kind = .string → nullText = "null" ∧ C19.colType offU (xs.map (csvText nullText offL)) = .string) :
    ∀ x ∈ xs, convertCell true offU f (C19.colType offU (xs.map (csvText nullText offL))) (.str (csvText nullText offL x)) = .ok (pv x) := by
  let t : FieldType := kind.fieldType
  let cells := xs.map (csvText nullText offL)
  have hconvT : ∀ x ∈ xs, (kind = .string → nullText = "null") → convertCell true offU f t (.str (csvText nullText offL x)) = .ok (pv x) :=
    fun x hx => (C19.cell_roundtrip kind offL offU nullText hnull f x (pv x) (hcells x hx)).2.2
  by_cases hk : kind = .string
  · have ⟨hn, hc⟩ := hstr hk
    intro x hx
    have := hconvT x hx (fun _ => hn)
    rw [hc]
    simpa [t, hk, C19.ColKind.fieldType] using this
  · have hdet : ∀ c ∈ cells, detectType true offU (.str c) = some none ∨ detectType true offU (.str c) = some (some t) := by
      intro c hc
      obtain ⟨x, hx, rfl⟩ := List.mem_map.mp hc
      have := C19.cell_roundtrip kind offL offU nullText hnull f x (pv x) (hcells x hx)
      by_cases hxn : x = .null
      · exact .inl (this.1 hxn)
      · exact .inr (this.2.1 hxn hk)
    by_cases hex : ∃ x ∈ xs, x ≠ CsvVal.null
    · obtain ⟨x0, hx0, hne⟩ := hex
      have h0 := (C19.cell_roundtrip kind offL offU nullText hnull f x0 (pv x0) (hcells x0 hx0)).2.1 hne hk
      have hc : C19.colType offU cells = t := C19.colType_of_all offU t cells hdet (.inl ⟨_, List.mem_map_of_mem hx0, h0⟩)
      intro x hx
      rw [show xs.map (csvText nullText offL) = cells from rfl, hc]
      exact hconvT x hx (fun e => absurd e hk)
    · have hnt : nullText = "null" := by
        rcases hsome with h | h | h
        · exact absurd h hk
        · exact h
        · exact absurd h hex
      have hallnull : ∀ x ∈ xs, x = CsvVal.null := fun x hx => Classical.byContradiction (fun hne => hex ⟨x, hx, hne⟩)
      have hc : C19.colType offU cells = .string := by
        refine C19.colType_of_all offU .string cells (fun c hc => ?_) (.inr rfl)
        obtain ⟨x, hx, rfl⟩ := List.mem_map.mp hc
        exact .inl ((C19.cell_roundtrip kind offL offU nullText hnull f x (pv x) (hcells x hx)).1 (hallnull x hx))
      intro x hx
      have hxn := hallnull x hx
      have hp : pv x = .null := by
        have h1 := hcells x hx
        generalize pv x = w at h1 ⊢
        subst hxn
        simpa [C19.CellOK] using h1
      rw [show xs.map (csvText nullText offL) = cells from rfl, hc, hp, hxn]
      simp [csvText, hnt, convertCell]

/-! ## a number text is no ISO datetime -/

/-- text that `value_parse_datetime` accepts has a dash at the fifth and at the eighth place and starts with a digit -/
theorem isoParse_shape (offU : Int → Int) (cs : List Char) (h : (Datetime.isoParse offU cs).isSome = true) :
    ∃ a b c d e f rest, cs = a :: b :: c :: d :: '-' :: e :: f :: '-' :: rest ∧ a ≠ '-' := by
  have hdig : ∀ a b c d : Char, (Datetime.num4? a b c d).isSome = true → a ≠ '-' := by
    intro a b c d h e
    subst e
    simp [Datetime.num4?, Datetime.num2?, Datetime.digit?] at h
  unfold Datetime.isoParse at h
  split at h
  · rename_i y mo d hs
    unfold Datetime.scanDate at hs
    split at hs
    · rename_i y1 y2 y3 y4 m1 m2 d1 d2
      refine ⟨y1, y2, y3, y4, m1, m2, _, rfl, hdig y1 y2 y3 y4 ?_⟩
      cases hn : Datetime.num4? y1 y2 y3 y4 with
      | none => simp [hn] at hs
      | some _ => rfl
    · cases hs
  · split at h
    · cases h
    · rename_i f hs
      unfold Datetime.scanDateTime at hs
      split at hs
      · rename_i y1 y2 y3 y4 m1 m2 d1 d2 h1 h2 i1 i2 s1 s2 rest _x
        refine ⟨y1, y2, y3, y4, m1, m2, _, rfl, hdig y1 y2 y3 y4 ?_⟩
        cases hn : Datetime.num4? y1 y2 y3 y4 with
        | none => simp [hn] at hs
        | some _ => rfl
      · cases hs

theorem count_dash_ascii {l : List Char} (h : C13.AsciiDigs l) : l.count '-' = 0 := by
  rw [List.count_eq_zero]
  intro hm
  have := h _ hm
  revert this; decide

/-- a decimal literal with ASCII digits and no minus sign contains at most one dash (that of the exponent) -/
theorem count_dash_tok (t : NumText.Tok) (ha : C13.TokAscii t) (hs : t.sign ≠ .minus) : t.text.count '-' ≤ 1 := by
  obtain ⟨sign, ip, frac, exp⟩ := t
  simp only [NumText.Tok.text, List.count_append]
  have h1 : sign.text.count '-' = 0 := by
    cases sign
    · simp [NumText.Sign.text]
    · simp [NumText.Sign.text]
    · exact absurd rfl hs
  have h2 : ip.count '-' = 0 := count_dash_ascii ha.ip
  have h3 : (NumText.fracText frac).count '-' = 0 := by
    cases frac with
    | none => simp [NumText.fracText]
    | some fp => simp [NumText.fracText, count_dash_ascii (ha.fp fp rfl)]
  have h4 : (NumText.expText exp).count '-' ≤ 1 := by
    cases exp with
    | none => simp [NumText.expText]
    | some e =>
      have hd := count_dash_ascii (ha.ex e rfl)
      simp only [NumText.expText, NumText.ExpPart.text, List.count_cons, List.count_append, hd]
      cases e.sign <;> cases e.upper <;> simp [NumText.Sign.text]
  omega

/-- no text with a dash at the fifth and at the eighth place, not starting with a dash, has at most one dash -/
theorem shape_count (a b c d e f : Char) (rest : List Char) : 2 ≤ (a :: b :: c :: d :: '-' :: e :: f :: '-' :: rest).count '-' := by
  simp only [List.count_cons, beq_self_eq_true, if_true]
  omega

theorem isoParse_none_of_tok (offU : Int → Int) (t : NumText.Tok) (ha : C13.TokAscii t) : Datetime.isoParse offU t.text = none := by
  cases hp : Datetime.isoParse offU t.text with
  | none => rfl
  | some d =>
    exfalso
    obtain ⟨a, b, c, d, e, f, rest, hshape, hne⟩ := isoParse_shape offU t.text (by simp [hp])
    by_cases hs : t.sign = .minus
    · have : t.text.head? = some '-' := by simp [NumText.Tok.text, hs, NumText.Sign.text]
      rw [hshape] at this
      simp at this
      exact hne this
    · have h1 := count_dash_tok t ha hs
      have h2 := shape_count a b c d e f rest
      rw [hshape] at h1
      omega

/-- **a number text is no ISO datetime** (`float`): the text `value_string` gives for a float whose `repr` is in the `repr`
grammar is not accepted by `value_parse_datetime`, in any zone -/
theorem parseDatetime_float (offU : Int → Int) (r : String) (hr : NumText.IsRepr r) :
    parseDatetime offU (NumText.valueStringNum (.float r)) = none := by
  obtain ⟨t, ht, hw, hshape⟩ := C13.repr_tok hr
  obtain ⟨t', hstrip, _, ha, _, _, _⟩ := C13.strip_tok hw hshape
  simp only [parseDatetime, NumText.valueStringNum, NumText.stripDotZeros, String.toList_ofList, ht, hstrip, isoParse_none_of_tok offU t' ha,
    Option.map_none]

/-- **a number text is no ISO datetime** (`int`) -/
theorem parseDatetime_int (offU : Int → Int) (z : Int) : parseDatetime offU (NumText.valueStringNum (.int z)) = none := by
  have hasc := C13.ascii_natStr z.natAbs
  have key : ∀ sg : NumText.Sign, NumText.intStrL z = NumText.Tok.text ⟨sg, NumText.natStr z.natAbs, none, none⟩ → parseDatetime offU (NumText.valueStringNum (.int z)) = none := by
    intro sg h
    simp only [parseDatetime, NumText.valueStringNum, NumText.intStr, String.toList_ofList, h,
      isoParse_none_of_tok offU ⟨sg, NumText.natStr z.natAbs, none, none⟩ ⟨hasc, by simp, by simp⟩, Option.map_none]
  by_cases hn : z < 0
  · exact key .minus (by simp [NumText.intStrL, hn, NumText.Tok.text, NumText.Sign.text, NumText.fracText, NumText.expText])
  · exact key .none (by simp [NumText.intStrL, hn, NumText.Tok.text, NumText.Sign.text, NumText.fracText, NumText.expText])

/-! ## from the Boolean side conditions to the per-column hypotheses -/

def toColKind : FieldType → C19.ColKind
  | .number => .number | .boolean => .boolean | .datetime => .datetime | .string => .string

theorem toColKind_fieldType (k : FieldType) : (toColKind k).fieldType = k := by cases k <;> rfl

theorem toColKind_string (k : FieldType) : toColKind k = .string ↔ k = .string := by cases k <;> simp [toColKind]

theorem cellOK_sound (nullText : String) (offL offU : Int → Int) (k : FieldType) (x : CsvVal)
    (h : cellOK offL offU k x = true) : C19.CellOK (toColKind k) offL offU nullText x (cellValue x) := by
  cases x with
  | null => simp [C19.CellOK, cellValue]
  | bool b =>
    simp only [cellOK, beq_iff_eq] at h
    subst h
    exact ⟨rfl, rfl⟩
  | num n =>
    cases n with
    | int z =>
      simp only [cellOK, inFloatRange, Bool.and_eq_true, beq_iff_eq, decide_eq_true_eq] at h
      obtain ⟨hk, hlo, hhi⟩ := h
      subst hk
      exact ⟨rfl, rfl, hlo, hhi, parseDatetime_int offU z⟩
    | float r =>
      simp only [cellOK, Bool.and_eq_true, beq_iff_eq, decide_eq_true_eq] at h
      obtain ⟨⟨hk, hr⟩, hq⟩ := h
      subst hk
      cases hv : NumText.decVal r with
      | none => simp [hv] at hq
      | some q =>
        simp only [hv, inFloatRange, Bool.and_eq_true, decide_eq_true_eq] at hq
        exact ⟨rfl, q, by simp [cellValue, hv], hr, hv, hq.1, hq.2, parseDatetime_float offU r hr⟩
  | dt t =>
    simp only [cellOK, Bool.and_eq_true, beq_iff_eq, decide_eq_true_eq] at h
    obtain ⟨⟨⟨⟨⟨⟨hk, hv⟩, hmin⟩, hlo⟩, hhi⟩, hex⟩, hutc⟩ := h
    subst hk
    exact ⟨rfl, rfl, hv, hmin, hlo, hhi, hex, hutc⟩
  | str s =>
    simp only [cellOK, Bool.and_eq_true, beq_iff_eq, bne_iff_ne, ne_eq] at h
    obtain ⟨hk, hs⟩ := h
    subst hk
    exact ⟨rfl, rfl, hs⟩

theorem exists_nonnull_of_colKind : ∀ col : List CsvVal, colKind col ≠ .string → ∃ x ∈ col, x ≠ CsvVal.null
  | [], h => by simp [colKind] at h
  | x :: col, h => by
    by_cases hx : x = .null
    · subst hx
      have : colKind (CsvVal.null :: col) = colKind col := by simp [colKind, List.findSome?_cons, valType]
      rw [this] at h
      obtain ⟨y, hy, hne⟩ := exists_nonnull_of_colKind col h
      exact ⟨y, by simp [hy], hne⟩
    · exact ⟨x, by simp, hx⟩

theorem colType_of_stringColOK (offU : Int → Int) : ∀ texts : List String, stringColOK offU texts = true →
    C19.colType offU texts = .string
  | [], _ => by simp [C19.colType, C19.firstType]
  | c :: cs, h => by
    by_cases hc : c = "" ∨ c = "null"
    · have hd : detectType true offU (.str c) = some none := by simp [detectType, hc]
      have hf : (c != "" && c != "null") = false := by rcases hc with e | e <;> simp [e]
      have h' : stringColOK offU cs = true := by simpa [stringColOK, List.find?, hf] using h
      have ih := colType_of_stringColOK offU cs h'
      simpa [C19.colType, C19.firstType, hd] using ih
    · have hf : (c != "" && c != "null") = true := by
        simp only [not_or] at hc
        simp [hc.1, hc.2]
      have hd : detectType true offU (.str c) = some (some .string) := by simpa [stringColOK, List.find?, hf] using h
      simp [C19.colType, C19.firstType, hd]

/-! ## the texts of typed cells are fit for the reader -/

theorem digit_plain (c : Char) (h : NumText.isAsciiDigit c = true) : c ≠ ',' ∧ c ≠ '"' ∧ c ≠ '\r' ∧ c ≠ '\n' ∧ c ≠ ' ' := by
  refine ⟨?_, ?_, ?_, ?_, ?_⟩ <;> (intro e; subst e; revert h; decide)

theorem NumText.natStrAux_length (fuel : Nat) : ∀ (n : Nat) (acc : List Char) (k : Nat), 1 ≤ k → n < 10 ^ k →
    (NumText.natStrAux fuel n acc).length ≤ acc.length + k := by
  induction fuel with
  | zero => intro n acc k _ _; simp [NumText.natStrAux]
  | succ f ih =>
    intro n acc k hk hn
    unfold NumText.natStrAux
    simp only
    by_cases h10 : n < 10
    · simp only [h10, if_true, List.length_cons]; omega
    · simp only [h10, if_false]
      have hk2 : 2 ≤ k := by
        rcases Nat.lt_or_ge k 2 with h | h
        · have : k = 1 := by omega
          subst this; simp at hn; omega
        · exact h
      have := ih (n / 10) (Char.ofNat (48 + n % 10) :: acc) (k - 1) (by omega) (by
        have : 10 ^ k = 10 * 10 ^ (k - 1) := by
          rw [← Nat.pow_succ']; congr 1; omega
        rw [this] at hn
        exact Nat.div_lt_of_lt_mul hn)
      simp only [List.length_cons] at this
      omega

theorem natAbs_lt_of_range (z : Int) (h : inFloatRange z = true) : z.natAbs < 10 ^ 309 := by
  simp only [inFloatRange, Bool.and_eq_true] at h
  have h1 := of_decide_eq_true h.1
  have h2 := of_decide_eq_true h.2
  have hN : (2 ^ 1024 - 2 ^ 970 : Nat) < 10 ^ 309 := by decide +kernel
  unfold NumText.overflowBound at h1 h2
  generalize (2 ^ 1024 - 2 ^ 970 : Nat) = N at *
  rw [← Rat.intCast_natCast, ← Rat.intCast_neg, Rat.intCast_lt_intCast] at h1
  rw [← Rat.intCast_natCast, Rat.intCast_lt_intCast] at h2
  omega

theorem textOK_of (s : List Char) (hlen : s.length ≤ fieldLimit) (hhead : s.head? ≠ some ' ') : textOK s = true := by
  simp [textOK, hlen, hhead]

theorem textOK_int (z : Int) (h : inFloatRange z = true) : textOK (NumText.intStr z).toList = true := by
  have hlen : (NumText.natStr z.natAbs).length ≤ 309 := by
    have := NumText.natStrAux_length (z.natAbs + 1) z.natAbs [] 309 (by decide) (natAbs_lt_of_range z h)
    simpa [NumText.natStr] using this
  have hhead : (NumText.natStr z.natAbs).head? ≠ some ' ' := by
    cases hs : NumText.natStr z.natAbs with
    | nil => simp
    | cons c t =>
      have := C13.ascii_natStr z.natAbs c (by simp [hs])
      simpa using (digit_plain c this).2.2.2.2
  simp only [NumText.intStr, String.toList_ofList, NumText.intStrL]
  split
  · exact textOK_of _ (by simp only [List.length_cons, fieldLimit]; omega) (by simp)
  · exact textOK_of _ (by simp only [fieldLimit]; omega) hhead

theorem digitChar_ne_space (n : Nat) : Datetime.digitChar n ≠ ' ' := by
  have : ∀ d, d < 10 → Char.ofNat (48 + d) ≠ ' ' := by decide
  exact this _ (Nat.mod_lt _ (by decide))

theorem textOK_dt (offL : Int → Int) (t : Datetime.DT) : textOK (String.ofList (Datetime.isoFormat offL t)).toList = true := by
  rw [String.toList_ofList]
  refine textOK_of _ ?_ ?_
  · simp only [Datetime.isoFormat, Datetime.isoFormatWith, Datetime.isoFormatUs, Datetime.pad4, Datetime.pad2, Datetime.pad3,
      Datetime.fmtOffset, fieldLimit]
    split <;> simp
  · simp [Datetime.isoFormat, Datetime.isoFormatWith, Datetime.isoFormatUs, Datetime.pad4, digitChar_ne_space]

/-- the text of a cell that is fine for its column is fit for the reader; only strings and `float` texts need the check -/
theorem cell_textOK (nullText : String) (offL offU : Int → Int) (hnull : nullText = "" ∨ nullText = "null") (k : FieldType)
    (x : CsvVal) (h : cellOK offL offU k x = true) (ht : cellTextOK x = true) :
    textOK (csvText nullText offL x).toList = true := by
  cases x with
  | null =>
    have h1 : textOK ("" : String).toList = true := by decide
    have h2 : textOK ("null" : String).toList = true := by decide
    rcases hnull with e | e <;> subst e <;> simpa [csvText]
  | bool b =>
    have h1 : textOK ("true" : String).toList = true := by decide
    have h2 : textOK ("false" : String).toList = true := by decide
    cases b <;> simpa [csvText]
  | num n =>
    cases n with
    | int z =>
      simp only [cellOK, Bool.and_eq_true] at h
      exact textOK_int z h.2
    | float r => exact ht
  | dt t => exact textOK_dt offL t
  | str s => exact ht

/-- what `columnOK` gives: the cells convert under the column's detected type, and their texts are fit for the reader -/
theorem columnOK_sound (nullText : String) (offL offU : Int → Int) (hnull : nullText = "" ∨ nullText = "null") (f : String)
    (col : List CsvVal) (h : columnOK nullText offL offU col = true) :
    ∀ x ∈ col,
      convertCell true offU f (C19.colType offU (col.map (csvText nullText offL))) (.str (csvText nullText offL x)) = .ok (cellValue x) ∧
      textOK (csvText nullText offL x).toList = true := by
  simp only [columnOK, Bool.and_eq_true, List.all_eq_true, Bool.or_eq_true, bne_iff_ne, ne_eq, beq_iff_eq] at h
  obtain ⟨hall, hs⟩ := h
  by_cases hcase : colKind col = .string ∧ nullText ≠ "null"
  · -- a string column without nulls: every cell is a string other than `null`
    obtain ⟨hk, hnt⟩ := hcase
    rcases hs with h1 | ⟨h1, h2⟩
    · exact absurd hk h1
    · have hnonnull : ∀ x ∈ col, (valType x).isSome = true := by
        rcases h1 with h1 | h1
        · exact absurd h1 hnt
        · exact h1
      have hct := colType_of_stringColOK offU _ h2
      intro x hx
      refine ⟨?_, cell_textOK nullText offL offU hnull _ x (hall x hx).1 (hall x hx).2⟩
      have hc := (hall x hx).1
      rw [hct]
      rw [hk] at hc
      cases x with
      | null => simpa [valType] using hnonnull _ hx
      | bool b => simp [cellOK] at hc
      | num n => cases n <;> simp [cellOK] at hc
      | dt t => simp [cellOK] at hc
      | str s =>
        simp only [cellOK, Bool.and_eq_true, beq_iff_eq, bne_iff_ne, ne_eq] at hc
        simp [csvText, convertCell, cellValue, hc.2]
  · have hconv := column_convert (toColKind (colKind col)) offL offU nullText hnull f col cellValue
      (fun x hx => cellOK_sound nullText offL offU _ x (hall x hx).1)
      (by
        by_cases hk : colKind col = .string
        · exact .inl ((toColKind_string _).mpr hk)
        · exact .inr (.inr (exists_nonnull_of_colKind col hk)))
      (by
        intro hk
        have hk' := (toColKind_string _).mp hk
        have hnt : nullText = "null" := Classical.byContradiction (fun hne => hcase ⟨hk', hne⟩)
        rcases hs with h1 | h1
        · exact absurd hk' h1
        · exact ⟨hnt, colType_of_stringColOK offU _ h1.2⟩)
    exact fun x hx => ⟨hconv x hx, cell_textOK nullText offL offU hnull _ x (hall x hx).1 (hall x hx).2⟩

/-! ## `validate_data` over a rectangular table of CSV cells -/

theorem mem_colAt {α : Type} (header : List String) (hnd : header.Nodup) (rows : List (List α)) (r : List α) (hr : r ∈ rows)
    (f : String) (x : α) (hp : (f, x) ∈ header.zip r) : x ∈ colAt header f rows := by
  unfold colAt cellAt
  refine List.mem_filterMap.mpr ⟨r, hr, lookup_of_mem f x _ ?_ hp⟩
  have : ∀ (hs : List String) (vs : List α), ((hs.zip vs).map (·.1)).Sublist hs := by
    intro hs
    induction hs with
    | nil => intro vs; simp
    | cons h hs ih =>
      intro vs
      cases vs with
      | nil => simp
      | cons v vs => simpa using ih vs
  exact (this _ _).nodup hnd

/-- **several columns**: a rectangular table of cell texts written from typed cells, every column fine, validates to the
typed values (each column typed on its own) -/
theorem validate_table (nullText : String) (offL offU : Int → Int) (hnull : nullText = "" ∨ nullText = "null")
    (header : List String) (hnd : header.Nodup) (rows : List (List CsvVal))
    (hcols : ∀ f ∈ header, columnOK nullText offL offU (colAt header f rows) = true) :
    validateData true offU (rows.map (fun r => header.zip ((r.map (csvText nullText offL)).map PValue.str))) =
      .ok (rows.map (fun r => header.zip (r.map cellValue))) := by
  unfold validateData
  have e1 : rows.map (fun r => header.zip ((r.map (csvText nullText offL)).map PValue.str)) =
      (rows.map (fun r => header.zip r)).map (fun row => row.map (fun p => (p.1, PValue.str (csvText nullText offL p.2)))) := by
    simp only [List.map_map]
    refine List.map_congr_left (fun r _ => ?_)
    simp only [Function.comp_def, List.zip_map_right]
    rfl
  have e2 : rows.map (fun r => header.zip (r.map cellValue)) =
      (rows.map (fun r => header.zip r)).map (fun row => row.map (fun p => (p.1, cellValue p.2))) := by
    simp only [List.map_map]
    refine List.map_congr_left (fun r _ => ?_)
    simp only [Function.comp_def, List.zip_map_right]
    rfl
  have e0 : rows.map (fun r => header.zip ((r.map (csvText nullText offL)).map PValue.str)) =
      (rows.map (fun r => r.map (csvText nullText offL))).map (fun r => header.zip (r.map PValue.str)) := by
    simp [List.map_map, Function.comp_def]
  rw [e2]
  conv => lhs; arg 4; rw [e1]
  rw [e0]
  refine convertRows_typed offU _ (csvText nullText offL) cellValue _ ?_
  intro row hrow p hp
  obtain ⟨r, hr, rfl⟩ := List.mem_map.mp hrow
  obtain ⟨f, x⟩ := p
  have hf : f ∈ header := (List.of_mem_zip hp).1
  have hx : x ∈ colAt header f rows := mem_colAt header hnd rows r hr f x hp
  have hcolmap : colAt header f (rows.map (fun r => r.map (csvText nullText offL))) = (colAt header f rows).map (csvText nullText offL) := by
    unfold colAt cellAt
    rw [List.filterMap_map, List.map_filterMap]
    congr 1
    funext r
    exact lookup_zip_map _ f header r
  refine ⟨C19.colType offU ((colAt header f rows).map (csvText nullText offL)), ?_, ?_⟩
  · rw [lookup_detectTypes offU header hnd _ f (by rw [hcolmap]; intro h; rw [List.map_eq_nil_iff] at h; rw [h] at hx; cases hx), hcolmap]
  · exact (columnOK_sound nullText offL offU hnull f _ (hcols f hf) x hx).1

/-! ## `csv.DictReader` over a rectangular table -/

theorem foldl_rowSet_str : ∀ (ps : List (String × String)) (acc : Row), (acc.map (·.1) ++ ps.map (·.1)).Nodup →
    ps.foldl (fun d p => rowSet p.1 (.str p.2) d) acc = acc ++ ps.map (fun p => (p.1, PValue.str p.2))
  | [], acc, _ => by simp
  | (k, v) :: ps, acc, h => by
    have hk : k ∉ acc.map (·.1) := by
      intro hmem
      have := (List.nodup_append.mp h).2.2 k hmem k (by simp)
      exact this rfl
    simp only [List.foldl_cons]
    rw [C19.rowSet_new k (PValue.str v) acc hk]
    rw [foldl_rowSet_str ps (acc ++ [(k, PValue.str v)]) (by simpa [List.map_append, List.append_assoc] using h)]
    simp

theorem zip_keys_sublist {α : Type} : ∀ (hs : List String) (vs : List α), ((hs.zip vs).map (·.1)).Sublist hs
  | [], vs => by simp
  | h :: hs, [] => by simp
  | h :: hs, v :: vs => by simpa using zip_keys_sublist hs vs

theorem dictRow_rect (header : List String) (hnd : header.Nodup) (r : List String) (hlen : r.length = header.length) :
    dictRow header r = ⟨header.zip (r.map PValue.str), none⟩ := by
  unfold dictRow
  have h1 : ¬ header.length < r.length := by omega
  have h2 : header.drop r.length = [] := by rw [hlen]; simp
  simp only [h1, if_false, h2, List.foldl_nil]
  rw [foldl_rowSet_str (header.zip r) [] (by simpa using (zip_keys_sublist header r).nodup hnd)]
  simp only [List.nil_append, List.zip_map_right]
  rfl

theorem dictReader_rect (header : List String) (hne : header ≠ []) (hnd : header.Nodup) (rows : List (List String))
    (hlen : ∀ r ∈ rows, r.length = header.length) :
    dictReader (header :: rows) = (some header, rows.map (fun r => ⟨header.zip (r.map PValue.str), none⟩)) := by
  simp only [dictReader]
  have hf : rows.filter (fun r => !r.isEmpty) = rows := by
    refine List.filter_eq_self.mpr (fun r hr => ?_)
    have := hlen r hr
    cases r with
    | nil =>
      cases header with
      | nil => exact absurd rfl hne
      | cons _ _ => simp at this
    | cons _ _ => rfl
  rw [hf]
  congr 1
  exact List.map_congr_left (fun r hr => dictRow_rect header hnd r (hlen r hr))

/-! ## the records of a written text -/

theorem readRecords_write (le : LineEnd) (trailing : Bool) (recs : List (List String))
    (h : ∀ r ∈ recs, r ≠ [] ∧ ∀ s ∈ r, FieldOK s.toList) :
    readRecords (splitLines (String.ofList (writeRecords le trailing (recs.map (fun r => r.map String.toList)))).toList) = .ok recs := by
  unfold readRecords
  rw [String.toList_ofList, events_splitLines, run_writeRecords le trailing _ (by
    intro r hr
    obtain ⟨r0, hr0, rfl⟩ := List.mem_map.mp hr
    obtain ⟨hne, hok⟩ := h r0 hr0
    refine ⟨by simpa using hne, fun f hf => ?_⟩
    obtain ⟨s, hs, rfl⟩ := List.mem_map.mp hf
    exact hok s hs)]
  simp [Except.map, Function.comp_def, String.ofList_toList]

theorem exists_zip_of_mem {α β : Type} : ∀ (hs : List α) (r : List β), r.length ≤ hs.length → ∀ x ∈ r, ∃ f, (f, x) ∈ hs.zip r
  | _, [], _, x, hx => by simp at hx
  | [], _ :: _, h, _, _ => by simp at h
  | f :: hs, y :: r, h, x, hx => by
    rcases List.mem_cons.mp hx with e | e
    · subst e; exact ⟨f, by simp⟩
    · obtain ⟨g, hg⟩ := exists_zip_of_mem hs r (by simpa using h) x e
      exact ⟨g, by simp [hg]⟩

/-! ## the theorem -/

/-- **CSV round trip at the level of the whole table text, any line end.**
For every header and every table of typed cells that satisfy `CsvText.tableOK` (below), for each of the line ends LF, CRLF, CR
and with or without a line end after the last record: writing the table as CSV text and parsing the text with
`dataParseCSV` gives the header back and, cell for cell, the typed values. -/
theorem csv_text_roundtrip_lineend (le : LineEnd) (trailing : Bool) (nullText : String) (offL offU : Int → Int)
    (header : List String) (rows : List (List CsvVal)) (h : tableOK nullText offL offU header rows = true) :
    parseCsv offU (writeCsvLE le trailing nullText offL header rows) = .ok ⟨some header, expectedRows header rows⟩ := by
  simp only [tableOK, Bool.and_eq_true, Bool.not_eq_true', List.isEmpty_eq_false_iff, decide_eq_true_eq, List.all_eq_true,
    Bool.or_eq_true, beq_iff_eq] at h
  obtain ⟨⟨⟨⟨⟨hne, hnd⟩, hhdr⟩, hnull⟩, hlen⟩, hcols⟩ := h
  have hlen' : ∀ r ∈ rows, r.length = header.length := fun r hr => by simpa using hlen r hr
  let text := csvText nullText offL
  have hrec := readRecords_write le trailing (header :: rows.map (fun r => r.map text)) (by
    intro r hr
    rcases List.mem_cons.mp hr with e | e
    · subst e
      exact ⟨hne, fun s hs => fieldOK_of_textOK (hhdr s hs)⟩
    · obtain ⟨r0, hr0, rfl⟩ := List.mem_map.mp e
      have hl := hlen' r0 hr0
      refine ⟨?_, fun s hs => ?_⟩
      · intro hnil
        have : r0.length = 0 := by simpa using congrArg List.length hnil
        rw [hl] at this
        exact hne (List.eq_nil_of_length_eq_zero this)
      · obtain ⟨x, hx, rfl⟩ := List.mem_map.mp hs
        obtain ⟨f, hf⟩ := exists_zip_of_mem header r0 (by omega) x hx
        have hcol := hcols f (List.of_mem_zip hf).1
        exact fieldOK_of_textOK (columnOK_sound nullText offL offU hnull f _ hcol x (mem_colAt header hnd rows r0 hr0 f x hf)).2)
  have hdict := dictReader_rect header hne hnd (rows.map (fun r => r.map text)) (by
    intro r hr
    obtain ⟨r0, hr0, rfl⟩ := List.mem_map.mp hr
    simpa using hlen' r0 hr0)
  have hval := validate_table nullText offL offU hnull header hnd rows hcols
  unfold parseCsv parseArgs writeCsvLE writeCsvWith
  simp only [List.filterMap_cons, id, List.filterMap_nil, List.flatMap_cons, List.flatMap_nil, List.append_nil, List.map_cons]
  simp only [List.map_cons] at hrec
  rw [show (rows.map (fun r => r.map (csvText nullText offL))).map (fun r => r.map String.toList) =
    (rows.map (fun r => r.map text)).map (fun r => r.map String.toList) from rfl, hrec]
  simp only [hdict, List.map_map, Function.comp_def]
  simp only [List.map_map, Function.comp_def] at hval
  rw [hval]
  simp only [expectedRows, List.zip_map', List.map_map, Function.comp_def]

/-- **CSV round trip at the level of the whole table text** (property C19, second sentence).
`writeCsv` writes the header and the rows as RFC 4180 text — a field is quoted iff it contains a comma, a quote, CR or LF,
quotes are doubled, a record that consists of one empty field is written `""`, records are separated by LF.  `parseCsv` is
`dataParseCSV`: the text cut into lines at CR / LF / CRLF, the `_csv` reader state machine (quoted fields may contain
commas, quotes, CR and LF and go on over several lines), `csv.DictReader`, then `validate_data(csv=True)`.
For ALL headers and ALL tables of typed cells (any number of rows and columns, any Unicode in strings) with
`tableOK nullText offL offU header rows` the parse returns the header and, cell for cell, the typed values.

`tableOK` (decidable, `BareModel/CsvText.lean`) says:
* the header has at least one name, the names are pairwise different (they may be empty, contain commas, quotes, line ends);
* nulls are written as the empty cell or as `null`; every row has as many cells as the header;
* every field name, every string cell and every `float` text is at most 131072 characters long (`csv.field_size_limit`)
  and does not start with a blank unless it is quoted anyway (the reader is created with `skipinitialspace=True`:
  `dataParseCSV('a\\n x')` is `x`); the texts of nulls, booleans, `int`s and datetimes always are (`cell_textOK`);
* every non-null cell of a column has the type of the column's first non-null cell; an `int` is inside the double range; a
  `float` is given by its `repr` text (C13's A1/A2) and is finite (a number text is never an ISO datetime:
  `parseDatetime_int`, `parseDatetime_float`); a datetime
  satisfies the hypotheses of C16's ISO round trip; a string value is not `null`;
* a string column that contains nulls writes them as `null`, and its first cell that is neither empty nor `null` is not itself read as a
  datetime, boolean or number (e.g. `12`, `true`, `2024-02-29`: a CSV cannot tell them from the typed values).  Date-LIKE
  text that is no date (`2024-02-30`) is fine anywhere and comes back as a string. -/
theorem csv_text_roundtrip (nullText : String) (offL offU : Int → Int) (header : List String) (rows : List (List CsvVal))
    (h : tableOK nullText offL offU header rows = true) :
    parseCsv offU (writeCsv nullText offL header rows) = .ok ⟨some header, expectedRows header rows⟩ :=
  csv_text_roundtrip_lineend .lf false nullText offL offU header rows h

/-- **the reader inverts the writer on tables of arbitrary strings** (no typing): for every line end, with or without a
line end after the last record, for records of at least one field whose texts are fit for the reader (`textOK`: at most
131072 characters, no leading blank unless quoted anyway) — the fields may contain commas, quotes, CR, LF, any Unicode -/
theorem csv_records_roundtrip (le : LineEnd) (trailing : Bool) (header : List String) (rows : List (List String))
    (h : (header :: rows).all (fun r => !r.isEmpty && r.all (fun s => textOK s.toList)) = true) :
    readRecords (splitLines (writeCsvWith le trailing header rows).toList) = .ok (header :: rows) := by
  simp only [List.all_eq_true, Bool.and_eq_true, Bool.not_eq_true', List.isEmpty_eq_false_iff] at h
  exact readRecords_write le trailing (header :: rows) (fun r hr => ⟨(h r hr).1, fun s hs => fieldOK_of_textOK ((h r hr).2 s hs)⟩)

example :
    readRecords (splitLines (writeCsvWith .crlf true ["k", "v,w"] [["", " \"x\"\r\n,"], ["é\u2028😀", ""], ["\n", "\r"]]).toList) =
      .ok [["k", "v,w"], ["", " \"x\"\r\n,"], ["é\u2028😀", ""], ["\n", "\r"]] ∧
    writeCsvWith .crlf true ["k", "v,w"] [["", " \"x\"\r\n,"], ["é\u2028😀", ""], ["\n", "\r"]] =
      "k,\"v,w\"\r\n,\" \"\"x\"\"\r\n,\"\r\né\u2028😀,\r\n\"\n\",\"\r\"\r\n" :=
  ⟨csv_records_roundtrip _ _ _ _ (by decide +kernel), by decide +kernel⟩

/-- **the error branch**: a record with an unquoted field of more than 131072 characters after a header makes
`dataParseCSV` fail with `_csv.Error: field larger than field limit (131072)` — the length bound in `textOK` is needed -/
theorem csv_field_limit (offU : Int → Int) (hdr : List (List Char)) (hne : hdr ≠ []) (hok : ∀ f ∈ hdr, FieldOK f) (s : List Char)
    (hq : needsQuote s = false) (hsp : s.head? ≠ some ' ') (hlen : fieldLimit < s.length) :
    (match parseCsv offU (String.ofList (recordText hdr ++ '\n' :: s)) with
     | .error (.csv .fieldLimit) => true
     | _ => false) = true := by
  obtain ⟨f, gs, rfl⟩ : ∃ f gs, hdr = f :: gs := by
    cases hdr with
    | nil => exact absurd rfl hne
    | cons f gs => exact ⟨f, gs, rfl⟩
  obtain ⟨c0, t0, hct, _⟩ := recordText_head f gs
  have hsplit : s = s.take fieldLimit ++ (s.drop fieldLimit).head! :: (s.drop fieldLimit).tail := by
    have hd : s.drop fieldLimit ≠ [] := by
      intro e
      have := congrArg List.length e
      simp at this; omega
    conv => lhs; rw [← List.take_append_drop fieldLimit s]
    congr 1
    cases h : s.drop fieldLimit with
    | nil => exact absurd h hd
    | cons a b => rfl
  have hs1 : (s.take fieldLimit).length = fieldLimit := by simp; omega
  have hq' : needsQuote (s.take fieldLimit ++ [(s.drop fieldLimit).head!]) = false := by
    have hp := plain_of_needsQuote hq
    simp only [needsQuote, List.any_eq_false, Bool.or_eq_true, beq_iff_eq, not_or]
    intro c hc
    have hmem : c ∈ s := by
      rw [hsplit]
      simp only [List.mem_append, List.mem_cons, List.not_mem_nil, or_false] at hc ⊢
      rcases hc with h | h
      · exact .inl h
      · exact .inr (.inl h)
    obtain ⟨a, b, c', d⟩ := hp c hmem
    exact ⟨⟨⟨a, b⟩, c'⟩, d⟩
  have hsp' : (s.take fieldLimit).head? ≠ some ' ' := by
    cases s with
    | nil => simp
    | cons a b => simpa [fieldLimit] using hsp
  have hsne : s ≠ [] := by intro e; subst e; simp at hlen
  have herr : run .reset (evE s) = .error .fieldLimit := by
    rw [hsplit]
    exact run_field_limit [] .startRecord (.inl rfl) _ _ _ hs1 hq' hsp'
  have hev : evE ('\n' :: s) = [some '\n', none] ++ evE s := by
    cases s with
    | nil => exact absurd rfl hsne
    | cons a b => simp [evE, isBreak]
  have hrun : run .reset (evT (recordText (f :: gs) ++ '\n' :: s)) = .error .fieldLimit := by
    have : evT (recordText (f :: gs) ++ '\n' :: s) = evE (recordText (f :: gs) ++ '\n' :: s) := by simp [evT, hct]
    rw [this, run_record f gs hok _ _ _ (.inr (.inl rfl)) hev, herr]
    rfl
  simp only [parseCsv, parseArgs, List.filterMap_cons, id, List.filterMap_nil, List.flatMap_cons, List.flatMap_nil, List.append_nil,
    readRecords, String.toList_ofList, events_splitLines, hrun]
  rfl

/-- `dataParseCSV('a\n' + 'x' * n)` fails for every `n > 131072` (e.g. 131073), in every zone -/
example (offU : Int → Int) (n : Nat) (hn : fieldLimit < n) :
    (match parseCsv offU (String.ofList (recordText [['a']] ++ '\n' :: List.replicate n 'x')) with
     | .error (.csv .fieldLimit) => true
     | _ => false) = true :=
  csv_field_limit offU [['a']] (by simp) (fun f hf => by
      simp only [List.mem_singleton] at hf; subst hf; exact fieldOK_of_textOK (by decide)) (List.replicate n 'x') (by simp [needsQuote])
    (by cases n <;> simp [List.replicate]) (by simpa using hn)

/-! ## non-vacuity and the need for the side conditions -/

/-- a table with a column of every type: numbers (`int`, `float` by `repr` text), strings with commas, quotes, LF, CRLF, CR,
non-ASCII and astral characters, a leading blank inside a quoted field, the empty string, date-like text that is no date
(`2024-02-30`), text that looks like a number or boolean further down a string column, datetimes in a +05:45 zone, booleans;
nulls everywhere; a field name that needs quoting -/
def exHeader : List String := ["id", "name, \"quoted\"", "when", "ok", "note"]

def exRows : List (List CsvVal) := [
  [.num (.int 17), .str "a,b", .dt ⟨2024, 2, 29, 1, 2, 3, 45⟩, .bool true, .null],
  [.null, .str "say \"hi\"", .null, .null, .str "2024-02-30"],
  [.num (.float "1.5e-07"), .str "line1\nline2\r\nline3\rend", .dt ⟨1999, 12, 31, 23, 59, 59, 0⟩, .bool false, .str "12"],
  [.num (.int (-2)), .str "", .null, .null, .str " naïve 😀,  "],
  [.num (.float "123.0"), .null, .null, .bool true, .str "true"]]

theorem exTable_ok : tableOK "null" (fun _ => 20700) (fun _ => 20700) exHeader exRows = true := by decide +kernel

/-- non-vacuity of `csv_text_roundtrip`: the hypotheses hold for the table above; the text it is written as; what comes back -/
example :
    writeCsv "null" (fun _ => 20700) exHeader exRows =
      "id,\"name, \"\"quoted\"\"\",when,ok,note\n17,\"a,b\",2024-02-29T01:02:03.045+05:45,true,null\nnull,\"say \"\"hi\"\"\",null,null,2024-02-30\n1.5e-07,\"line1\nline2\r\nline3\rend\",1999-12-31T23:59:59+05:45,false,12\n-2,,null,null,\" naïve 😀,  \"\n123,null,null,true,true" ∧
    parseCsv (fun _ => 20700) (writeCsv "null" (fun _ => 20700) exHeader exRows) = .ok ⟨some exHeader, expectedRows exHeader exRows⟩ ∧
    (expectedRows exHeader exRows)[1]? = some ⟨[("id", .null), ("name, \"quoted\"", .str "say \"hi\""), ("when", .null), ("ok", .null),
      ("note", .str "2024-02-30")], none⟩ :=
  ⟨by decide +kernel, csv_text_roundtrip _ _ _ _ _ exTable_ok, by decide +kernel⟩

/-- the same table with CRLF line ends and a line end after the last record; typed columns only, nulls as empty cells;
one column whose only record is the empty string (written `""`) -/
example :
    parseCsv (fun _ => 20700) (writeCsvLE .crlf true "null" (fun _ => 20700) exHeader exRows) = .ok ⟨some exHeader, expectedRows exHeader exRows⟩ ∧
    parseCsv (fun _ => 0) (writeCsvLE .cr false "" (fun _ => 0) ["n", "b"] [[.null, .bool true], [.num (.int 5), .null]]) =
      .ok ⟨some ["n", "b"], expectedRows ["n", "b"] [[.null, .bool true], [.num (.int 5), .null]]⟩ ∧
    writeCsv "null" (fun _ => 0) ["s"] [[.str ""], [.str "x"]] = "s\n\"\"\nx" ∧
    parseCsv (fun _ => 0) (writeCsv "null" (fun _ => 0) ["s"] [[.str ""], [.str "x"]]) = .ok ⟨some ["s"], expectedRows ["s"] [[.str ""], [.str "x"]]⟩ :=
  ⟨csv_text_roundtrip_lineend _ _ _ _ _ _ _ exTable_ok,
   csv_text_roundtrip_lineend _ _ _ _ _ _ _ (by decide +kernel),
   by decide +kernel,
   csv_text_roundtrip _ _ _ _ _ (by decide +kernel)⟩

/-- the rows of a parse, for the examples below -/
def rowsOf (r : Except ParseError Parsed) : Option (List Row) :=
  match r with
  | .ok p => some (p.rows.map (·.row))
  | .error _ => none

/-- **the side conditions are needed** (each line: a table that violates exactly one of them, and what `dataParseCSV` returns):
a string with a leading blank loses it (`skipinitialspace`); the string `12` at the head of a string column is read as a
number; the string `null` is read as null; a string column with nulls written as empty cells gets empty strings back; a
number column all of whose cells are null, written as empty cells, is a string column of empty strings. -/
example :
    rowsOf (parseCsv (fun _ => 0) (writeCsv "null" (fun _ => 0) ["s"] [[.str " x"]])) = some [[("s", .str "x")]] ∧
    rowsOf (parseCsv (fun _ => 0) (writeCsv "null" (fun _ => 0) ["s"] [[.str "12"], [.str "x"]])) = none ∧
    rowsOf (parseCsv (fun _ => 0) (writeCsv "null" (fun _ => 0) ["s"] [[.str "12"]])) = some [[("s", .num 12)]] ∧
    rowsOf (parseCsv (fun _ => 0) (writeCsv "null" (fun _ => 0) ["s"] [[.str "null"], [.str "x"]])) = some [[("s", .null)], [("s", .str "x")]] ∧
    rowsOf (parseCsv (fun _ => 0) (writeCsv "" (fun _ => 0) ["s", "t"] [[.null, .str "y"], [.str "x", .null]])) =
      some [[("s", .str ""), ("t", .str "y")], [("s", .str "x"), ("t", .str "")]] ∧
    rowsOf (parseCsv (fun _ => 0) (writeCsv "" (fun _ => 0) ["n", "t"] [[.null, .str "y"]])) = some [[("n", .str ""), ("t", .str "y")]] := by
  decide +kernel

/-- date-like text that is no date may stand at the head of a string column, in every zone -/
theorem datelike_column_ok (offU : Int → Int) (rest : List String) : stringColOK offU ("2024-02-30" :: rest) = true := by
  have h := (C19.datelike_kept_string offU).2.2.2.1
  simp [stringColOK, List.find?, h]

end C19CsvText
