import BareProofs.C12
import BareModel.LibH2
import Mathlib.Data.Rat.Floor
import Mathlib.Data.Rat.Lemmas

/-!
# C12More — lemmas: host primitives of `LibH2` commute with forgetting the spelling
-/

namespace C12More
open LibH LibH2 C12

/-! ### value_compare -/

theorem lt_intCast (a b : Int) : decide (a < b) = decide ((a : Rat) < (b : Rat)) :=
  decide_eq_decide.mpr Rat.intCast_lt_intCast.symm

theorem pyCmp_abs (a b : PyNum) : pyCmp a b = ratCmp a.abs b.abs := by
  cases a <;> cases b <;> simp only [pyCmp, ratCmp, PyNum.abs, lt_intCast, beq_intCast] <;> rfl

theorem cmpFuel_abs : ∀ (f : Nat) (a b : HVal),
    cmpFuel pyCmp f a b = cmpFuel ratCmp f (absV a) (absV b) := by
  intro f
  induction f with
  | zero => intro a b; simp [cmpFuel]
  | succ f ih =>
    intro a b
    have ih' : cmpFuel pyCmp f = fun a b => cmpFuel ratCmp f (absV a) (absV b) := by
      funext a b; exact ih a b
    cases a <;> cases b <;> simp [cmpFuel, pyCmp_abs, List.zipWith_map, sortKV_map, ih, ih', typeName] <;> rfl

/-- `value_compare(a, b)` depends only on the values, at every depth. -/
theorem cmp_abs (a b : HVal) : valCmp pyCmp a b = valCmp ratCmp (absV a) (absV b) := by
  simp [valCmp, cmpFuel_abs, absV, size_map]


/-! ### unpacking -/

theorem list1_map {α β : Type} (f : α → β) (v : List α) : list1 (v.map f) = (list1 v).map f := by
  rcases v with _ | ⟨a, _ | ⟨b, t⟩⟩ <;> simp [list1]

theorem list7_map {α β : Type} (f : α → β) (v : List α) :
    list7 (v.map f) = (list7 v).map (fun p => (f p.1, f p.2.1, f p.2.2.1, f p.2.2.2.1, f p.2.2.2.2.1, f p.2.2.2.2.2.1, f p.2.2.2.2.2.2)) := by
  rcases v with _ | ⟨a, _ | ⟨b, _ | ⟨c, _ | ⟨d, _ | ⟨e, _ | ⟨g, _ | ⟨h, _ | ⟨i, t⟩⟩⟩⟩⟩⟩⟩⟩ <;> simp [list7]

theorem asBool_abs (a : HVal) : (absV a).asBool? = a.asBool? := by cases a <;> simp [Val.asBool?]

/-! ### bodies in which numbers are only stored or moved -/

theorem arrayCopy_ref (v : List HVal) : absB (arrayCopyG v) = arrayCopyG (v.map absV) := by
  unfold arrayCopyG
  rw [list1_map]
  cases list1 v with
  | none => rfl
  | some a =>
    simp only [Option.map_some, req, bind, Except.bind, asArr_abs]
    cases a.asArr? with
    | none => rfl
    | some xs => leaf

theorem arrayExtend_ref (v : List HVal) : absB (arrayExtendG v) = arrayExtendG (v.map absV) := by
  unfold arrayExtendG
  rw [list2_map]
  cases list2 v with
  | none => rfl
  | some p =>
    obtain ⟨a, b⟩ := p
    simp only [Option.map_some, req, bind, Except.bind, asArr_abs]
    cases a.asArr? with
    | none => rfl
    | some xs =>
      cases b.asArr? with
      | none => rfl
      | some ys => leaf

theorem arrayPush_ref (v : List HVal) : absB (arrayPushG v) = arrayPushG (v.map absV) := by
  unfold arrayPushG
  rw [list2_map]
  cases list2 v with
  | none => rfl
  | some p =>
    obtain ⟨a, b⟩ := p
    simp only [Option.map_some, req, bind, Except.bind, asArr_abs]
    cases a.asArr? with
    | none => rfl
    | some xs =>
      cases b.asArr? with
      | none => rfl
      | some ys => leaf

theorem arrayLength_ref (v : List HVal) :
    absB (arrayLengthG PyNum.int v) = arrayLengthG (fun (n : Int) => (n : Rat)) (v.map absV) := by
  unfold arrayLengthG
  rw [list1_map]
  cases list1 v with
  | none => rfl
  | some a =>
    simp only [Option.map_some, req, bind, Except.bind, asArr_abs]
    cases a.asArr? with
    | none => rfl
    | some xs => leaf

theorem stringLength_ref (v : List HVal) :
    absB (stringLengthG PyNum.int v) = stringLengthG (fun (n : Int) => (n : Rat)) (v.map absV) := by
  unfold stringLengthG
  rw [list1_map]
  cases list1 v with
  | none => rfl
  | some a =>
    simp only [Option.map_some, req, bind, Except.bind, asStr_abs]
    cases a.asStr? with
    | none => rfl
    | some s => leaf

theorem arrayNew_ref (v : List HVal) : absB (arrayNewG v) = arrayNewG (v.map absV) := by
  unfold arrayNewG; leaf

theorem arrayPop_ref (v : List HVal) : absB (arrayPopG v) = arrayPopG (v.map absV) := by
  unfold arrayPopG
  rw [list1_map]
  cases list1 v with
  | none => rfl
  | some a =>
    simp only [Option.map_some, req, bind, Except.bind, asArr_abs]
    cases a.asArr? with
    | none => rfl
    | some xs =>
      simp only [Option.map_some, List.getLast?_map]
      cases xs.getLast? with
      | none => leaf
      | some x => simp only [Option.map_some]; leaf

theorem arrayShift_ref (v : List HVal) : absB (arrayShiftG v) = arrayShiftG (v.map absV) := by
  unfold arrayShiftG
  rw [list1_map]
  cases list1 v with
  | none => rfl
  | some a =>
    simp only [Option.map_some, req, bind, Except.bind, asArr_abs]
    cases a.asArr? with
    | none => rfl
    | some xs =>
      cases xs with
      | nil => leaf
      | cons x r => leaf


/-! ### hypotheses about the abstract host functions and about the numbers (the quantifier of C12) -/

/-- an integer inside the quantifier of C12: |n| < 1e15 -/
def smallInt (n : Int) : Prop := -(10 ^ 15 : Int) < n ∧ n < (10 ^ 15 : Int)

instance (n : Int) : Decidable (smallInt n) := inferInstanceAs (Decidable (_ ∧ _))

/-- what is assumed of the abstract host functions: rounding is idempotent, the truncation of a double is a double, `10^k` is a
    double for `k ≤ 22` (the F15 boundary), an integer below 1e15 is a double and prints the same as a float and as an int. -/
structure Sane (E : Env) : Prop where
  rnd_idem : ∀ q, E.rnd (E.rnd q) = E.rnd q
  rnd_trunc : ∀ q, E.rnd ((ratTrunc (E.rnd q) : Int) : Rat) = ((ratTrunc (E.rnd q) : Int) : Rat)
  rnd_pow10 : ∀ k : Nat, k ≤ 22 → E.rnd ((10 : Rat) ^ k) = (10 : Rat) ^ k
  rnd_int : ∀ n : Int, smallInt n → E.rnd (n : Rat) = (n : Rat)
  text_int : ∀ n : Int, smallInt n → E.floatText (n : Rat) = intText n

/-- a host number the rounding model may be applied to: a small int, or a float that holds a double -/
def NumOk (E : Env) : PyNum → Prop
  | .int n => smallInt n
  | .float q => E.rnd q = q

/-- an integral digit count 0..22 in either spelling -/
def DigitsOk (d : PyNum) : Prop := ((ratTrunc d.abs : Int) : Rat) = d.abs ∧ 0 ≤ ratTrunc d.abs ∧ ratTrunc d.abs ≤ 22

instance (d : PyNum) : Decidable (DigitsOk d) := inferInstanceAs (Decidable (_ ∧ _))

/-- a value whose text is taken directly: a host int must be small -/
def TextOk : HVal → Prop
  | .num (.int n) => smallInt n
  | _ => True

instance (v : HVal) : Decidable (TextOk v) := by
  cases v with
  | num x => cases x <;> simp only [TextOk] <;> exact inferInstance
  | _ => simp only [TextOk]; exact inferInstance

/-! ### value_string -/

theorem valueString_abs (E : Env) (hE : Sane E) (v : HVal) (h : TextOk v) : valueStringH E v = valueStringA E (absV v) := by
  cases v with
  | num x =>
    cases x with
    | int n => simp only [valueStringH, numTextH, absV_num, valueStringA, abs_int]; exact (hE.text_int n h).symm
    | float q => rfl
  | arr xs => simp [valueStringH, valueStringA]
  | obj kvs => simp [valueStringH, valueStringA]
  | _ => rfl

theorem arrayJoin_ref (E : Env) (hE : Sane E) (v : List HVal)
    (hpre : ∀ a s xs, list2 v = some (a, s) → a.asArr? = some xs → ∀ x ∈ xs, TextOk x) :
    absB (arrayJoinH E v) = arrayJoinA E (v.map absV) := by
  unfold arrayJoinH arrayJoinA
  rw [list2_map]
  cases hv : list2 v with
  | none => rfl
  | some p =>
    obtain ⟨a, s⟩ := p
    simp only [Option.map_some, req, bind, Except.bind, asArr_abs, asStr_abs]
    cases ha : a.asArr? with
    | none => rfl
    | some xs =>
      cases s.asStr? with
      | none => rfl
      | some sep =>
        have hm : xs.map (valueStringH E) = (xs.map absV).map (valueStringA E) := by
          rw [List.map_map]
          exact List.map_congr_left (fun x hx => valueString_abs E hE x (hpre a s xs hv ha x hx))
        simp only [Option.map_some, hm]; leaf

theorem stringNew_ref (E : Env) (hE : Sane E) (v : List HVal) (hpre : ∀ a, list1 v = some a → TextOk a) :
    absB (stringNewH E v) = stringNewA E (v.map absV) := by
  unfold stringNewH stringNewA
  rw [list1_map]
  cases hv : list1 v with
  | none => rfl
  | some a =>
    simp only [Option.map_some, req, bind, Except.bind, valueString_abs E hE a (hpre a hv)]; leaf

theorem systemCompare_ref (v : List HVal) : absB (systemCompareH v) = systemCompareA (v.map absV) := by
  unfold systemCompareH systemCompareA
  rw [list2_map]
  cases list2 v with
  | none => rfl
  | some p =>
    obtain ⟨l, r⟩ := p
    simp only [Option.map_some, req, bind, Except.bind, cmp_abs]; leaf

theorem jsonStringify_ref (E : Env) (v : List HVal) : absB (jsonStringifyH E v) = jsonStringifyA E (v.map absV) := by
  unfold jsonStringifyH jsonStringifyA
  rw [list2_map]
  cases list2 v with
  | none => rfl
  | some p =>
    obtain ⟨value, i⟩ := p
    simp only [Option.map_some, req, bind, Except.bind, asOptNum_abs]
    cases i.asOptNum? with
    | none => rfl
    | some indent =>
      cases indent with
      | none => simp only [Option.map_some, Option.map_none, jsonH, hostE]; leaf
      | some x => simp only [Option.map_some, jsonH, hostE, toInt_abs]; leaf

/-! ### math functions -/

theorem absH_abs (x : PyNum) : (absH x).abs = if x.abs < 0 then -x.abs else x.abs := by
  cases x with
  | float q => rfl
  | int n =>
    show (((n.natAbs : Int)) : Rat) = if (n : Rat) < 0 then -(n : Rat) else (n : Rat)
    by_cases h : n < 0
    · have h1 : ((n.natAbs : Int)) = -n := by omega
      have h2 : (n : Rat) < 0 := by exact_mod_cast h
      rw [h1, if_pos h2]; push_cast; rfl
    · have h1 : ((n.natAbs : Int)) = n := by omega
      have h2 : ¬ (n : Rat) < 0 := by
        intro hc; apply h; exact_mod_cast hc
      rw [h1, if_neg h2]

theorem ceilH_abs (x : PyNum) : ceilH x = x.abs.ceil := by
  cases x <;> simp [ceilH, Rat.ceil_intCast]

theorem floorH_abs (x : PyNum) : floorH x = x.abs.floor := by
  cases x <;> simp [floorH, Rat.floor_intCast]

theorem mathAbs_ref (v : List HVal) : absB (mathAbsH v) = mathAbsA (v.map absV) := by
  unfold mathAbsH mathAbsA
  rw [list1_map]
  cases list1 v with
  | none => rfl
  | some a =>
    simp only [Option.map_some, req, bind, Except.bind, asNum_abs]
    cases a.asNum? with
    | none => rfl
    | some x => simp only [Option.map_some]; simp [absE, absBodyR, pure, Except.pure, absH_abs]

theorem mathCeil_ref (v : List HVal) : absB (mathCeilH v) = mathCeilA (v.map absV) := by
  unfold mathCeilH mathCeilA
  rw [list1_map]
  cases list1 v with
  | none => rfl
  | some a =>
    simp only [Option.map_some, req, bind, Except.bind, asNum_abs]
    cases a.asNum? with
    | none => rfl
    | some x => simp only [Option.map_some, ceilH_abs]; leaf

theorem mathFloor_ref (v : List HVal) : absB (mathFloorH v) = mathFloorA (v.map absV) := by
  unfold mathFloorH mathFloorA
  rw [list1_map]
  cases list1 v with
  | none => rfl
  | some a =>
    simp only [Option.map_some, req, bind, Except.bind, asNum_abs]
    cases a.asNum? with
    | none => rfl
    | some x => simp only [Option.map_some, floorH_abs]; leaf

theorem mathSign_ref (v : List HVal) : absB (mathSignH v) = mathSignA (v.map absV) := by
  unfold mathSignH mathSignA
  rw [list1_map]
  cases list1 v with
  | none => rfl
  | some a =>
    simp only [Option.map_some, req, bind, Except.bind, asNum_abs]
    cases a.asNum? with
    | none => rfl
    | some x => simp only [Option.map_some, pyLtI_abs, pyEq_abs, abs_int]; leaf

theorem extStep_abs (sign : Int) (res : Option HVal) (value : HVal) :
    (extStep pyCmp sign res value).map absV = extStep ratCmp sign (res.map absV) (absV value) := by
  cases res with
  | none => rfl
  | some r =>
    simp only [extStep, Option.map_some, cmp_abs]
    split <;> rfl

theorem foldl_extStep_abs (sign : Int) (v : List HVal) (res : Option HVal) :
    (v.foldl (extStep pyCmp sign) res).map absV = (v.map absV).foldl (extStep ratCmp sign) (res.map absV) := by
  induction v generalizing res with
  | nil => rfl
  | cons a t ih => simp only [List.foldl_cons, List.map_cons, ih, extStep_abs]

theorem extremum_ref (sign : Int) (v : List HVal) : absB (extremumG pyCmp sign v) = extremumG ratCmp sign (v.map absV) := by
  have h := foldl_extStep_abs sign v none
  simp only [Option.map_none] at h
  simp only [extremumG, ← h]
  cases List.foldl (extStep pyCmp sign) none v <;> leaf

/-! ### value_round_number behind mathRound / numberToFixed -/

theorem roundNumber_ok (E : Env) (hE : Sane E) (x d : PyNum) (hx : NumOk E x) (hd : DigitsOk d) :
    roundNumberH E.rnd x d = roundNumberA E.rnd x.abs d.abs := by
  obtain ⟨h1, h2, h3⟩ := hd
  refine roundNumber_refines E.rnd x (ratTrunc d.abs) d h2 ?_ hE.rnd_idem hE.rnd_trunc (hE.rnd_pow10 _ (by omega)) ?_
  · cases d with
    | int n => left; simp [ratTrunc_intCast]
    | float q => right; simp only [abs_float] at h1 ⊢; rw [h1]
  · cases x with
    | int n => exact hE.rnd_int n hx
    | float q => exact hx

theorem mathRound_ref (E : Env) (hE : Sane E) (v : List HVal)
    (hpre : ∀ a d x dg, list2 v = some (a, d) → a.asNum? = some x → d.asNum? = some dg → NumOk E x ∧ DigitsOk dg) :
    absB (mathRoundH E v) = mathRoundA E (v.map absV) := by
  unfold mathRoundH mathRoundA
  rw [list2_map]
  cases hv : list2 v with
  | none => rfl
  | some p =>
    obtain ⟨a, d⟩ := p
    simp only [Option.map_some, req, bind, Except.bind, asNum_abs]
    cases ha : a.asNum? with
    | none => rfl
    | some x =>
      cases hd : d.asNum? with
      | none => rfl
      | some dg =>
        obtain ⟨hx, hdg⟩ := hpre a d x dg hv ha hd
        simp only [Option.map_some, roundNumber_ok E hE x dg hx hdg]; leaf

theorem numberToFixed_ref (E : Env) (hE : Sane E) (v : List HVal)
    (hpre : ∀ a d t x dg, list3 v = some (a, d, t) → a.asNum? = some x → d.asNum? = some dg → NumOk E x ∧ DigitsOk dg) :
    absB (numberToFixedH E v) = numberToFixedA E (v.map absV) := by
  unfold numberToFixedH numberToFixedA
  rw [list3_map]
  cases hv : list3 v with
  | none => rfl
  | some p =>
    obtain ⟨a, d, t⟩ := p
    simp only [Option.map_some, req, bind, Except.bind, asNum_abs, asBool_abs]
    cases ha : a.asNum? with
    | none => rfl
    | some x =>
      cases hd : d.asNum? with
      | none => rfl
      | some dg =>
        cases t.asBool? with
        | none => rfl
        | some trim =>
          obtain ⟨hx, hdg⟩ := hpre a d t x dg hv ha hd
          simp only [Option.map_some, roundNumber_ok E hE x dg hx hdg, fixedTextH, hostE, toInt_abs]; leaf


/-! ### `_datetime_new`: host arithmetic on numbers holding integers -/

theorem addH_abs (a b : PyNum) : (addH a b).abs = a.abs + b.abs := by
  cases a <;> cases b <;> simp [addH]

theorem subH_abs (a b : PyNum) : (subH a b).abs = a.abs - b.abs := by
  cases a <;> cases b <;> simp [subH]

theorem mulI_abs (a : PyNum) (k : Int) : (mulI a k).abs = a.abs * (k : Rat) := by
  cases a <;> simp [mulI]

theorem fdiv_cast (a k : Int) (hk : 0 < k) : ((Int.fdiv a k : Int) : Rat) = ((((a : Rat) / (k : Rat)).floor : Int) : Rat) := by
  obtain ⟨d, rfl⟩ := Int.eq_ofNat_of_zero_le (le_of_lt hk)
  have h := Rat.floor_intCast_div_natCast a d
  have h2 : ((a : Rat) / ((d : Int) : Rat)).floor = a / (d : Int) := by
    rw [← h]; simp only [Int.cast_natCast]; rfl
  rw [h2, Int.fdiv_eq_ediv_of_nonneg a (le_of_lt hk)]

theorem floorDivI_abs (x : PyNum) (k : Int) (hk : 0 < k) : (floorDivI x k).abs = floorDivA x.abs k := by
  cases x with
  | int a => simp only [floorDivI, floorDivA, abs_int, fdiv_cast a k hk]
  | float q => rfl

def abs2 (p : PyNum × PyNum) : Rat × Rat := (p.1.abs, p.2.abs)

theorem carry_ref (x y : PyNum) (k : Int) (hk : 0 < k) : abs2 (carryH x y k) = carryA x.abs y.abs k := by
  simp only [carryH, carryA, pyLtI_abs]
  split
  · simp only [abs2, subH_abs, mulI_abs, addH_abs, floorDivI_abs _ _ hk]
  · rfl

theorem monthNorm_ref (y mo : PyNum) : abs2 (monthNormH y mo) = monthNormA y.abs mo.abs := by
  simp only [monthNormH, monthNormA, pyLtI_abs, pyLeI_abs]
  split
  · simp only [abs2, subH_abs, mulI_abs, addH_abs, floorDivI_abs _ _ (by decide : (0 : Int) < 12), abs_int]
  · rfl

theorem monthDays_ref (y m : PyNum) : monthDaysH y m = monthDaysA y.abs m.abs := by
  simp only [monthDaysH, monthDaysA, monthrangeH, toInt_abs]

def absT : Except HostErr (PyNum × PyNum × PyNum) → Except HostErr (Rat × Rat × Rat)
  | .ok (y, m, d) => .ok (y.abs, m.abs, d.abs)
  | .error e => .error e

theorem ite_abs (c : Bool) (a b : PyNum) : (if c then a else b).abs = if c then a.abs else b.abs := by
  cases c <;> rfl

theorem dayUp_ref : ∀ (f : Nat) (y m d : PyNum), absT (dayUpH f y m d) = dayUpA f y.abs m.abs d.abs := by
  intro f
  induction f with
  | zero => intro y m d; rfl
  | succ f ih =>
    intro y m d
    simp only [dayUpH, dayUpA, pyLtI_abs]
    split
    · rw [monthDays_ref]
      simp only [ite_abs, subH_abs, pyEq_abs, abs_int]
      cases monthDaysA (if (!m.abs == ((1 : Int) : Rat)) = true then y.abs else y.abs - ((1 : Int) : Rat))
          (if (!m.abs == ((1 : Int) : Rat)) = true then m.abs - ((1 : Int) : Rat) else ((12 : Int) : Rat)) with
      | error e => rfl
      | ok md => simp only [ih, ite_abs, subH_abs, addH_abs, abs_int]
    · rfl

theorem dayDown_ref : ∀ (f : Nat) (y m d : PyNum) (md : Int),
    absT (dayDownH f y m d md) = dayDownA f y.abs m.abs d.abs md := by
  intro f
  induction f with
  | zero => intro y m d md; rfl
  | succ f ih =>
    intro y m d md
    simp only [dayDownH, dayDownA, pyLeI_abs]
    split
    · rw [monthDays_ref]
      simp only [ite_abs, addH_abs, pyEq_abs, abs_int]
      cases monthDaysA (if (!m.abs == ((12 : Int) : Rat)) = true then y.abs else y.abs + ((1 : Int) : Rat))
          (if (!m.abs == ((12 : Int) : Rat)) = true then m.abs + ((1 : Int) : Rat) else ((1 : Int) : Rat)) with
      | error e => rfl
      | ok md' => simp only [ih, ite_abs, subH_abs, addH_abs, abs_int]
    · rfl

theorem dayAdjust_ref (y m d : PyNum) : absT (dayAdjustH y m d) = dayAdjustA y.abs m.abs d.abs := by
  simp only [dayAdjustH, dayAdjustA, pyLtI_abs, pyLeI_abs, toInt_abs]
  split
  · exact dayUp_ref _ y m d
  · split
    · rw [monthDays_ref]
      cases monthDaysA y.abs m.abs with
      | error e => rfl
      | ok md => exact dayDown_ref _ y m d md
    · rfl

theorem mkDatetime_ref (y mo d h mi s ms : PyNum) :
    mkDatetimeH [.int (toInt y), .int (toInt mo), .int (toInt d), .int (toInt h), .int (toInt mi), .int (toInt s), .int (toInt ms)]
      = mkDatetimeA (ratTrunc y.abs) (ratTrunc mo.abs) (ratTrunc d.abs) (ratTrunc h.abs) (ratTrunc mi.abs) (ratTrunc s.abs) (ratTrunc ms.abs) := by
  simp only [mkDatetimeH, mkDatetimeA, List.mapM_cons, List.mapM_nil, asInt?, toInt_abs, bind, Option.bind, pure]


theorem absT_hostE (r : Except HostErr (PyNum × PyNum × PyNum))
    (k : PyNum × PyNum × PyNum → Except (Fail PyNum) (BodyR PyNum)) (k' : Rat × Rat × Rat → Except (Fail Rat) (BodyR Rat))
    (hk : ∀ y m d, absB (k (y, m, d)) = k' (y.abs, m.abs, d.abs)) :
    absB (hostE r >>= k) = (hostE (absT r) >>= k') := by
  cases r with
  | error e => rfl
  | ok t => obtain ⟨y, m, d⟩ := t; exact hk y m d

theorem datetimeCore_ref (year month day hour minute second millisecond : PyNum) :
    absB (datetimeCoreH true year month day hour minute second millisecond)
      = datetimeCoreA year.abs month.abs day.abs hour.abs minute.abs second.abs millisecond.abs := by
  have h1 := carry_ref millisecond second 1000 (by decide)
  have h2 := carry_ref (carryH millisecond second 1000).2 minute 60 (by decide)
  have h3 := carry_ref (carryH (carryH millisecond second 1000).2 minute 60).2 hour 60 (by decide)
  have h4 := carry_ref (carryH (carryH (carryH millisecond second 1000).2 minute 60).2 hour 60).2 day 24 (by decide)
  have hm := monthNorm_ref year month
  simp only [abs2, Prod.ext_iff] at h1 h2 h3 h4 hm
  unfold datetimeCoreH datetimeCoreA
  simp only [if_true]
  rw [← h1.1, ← h1.2, ← h2.1, ← h2.2, ← h3.1, ← h3.2, ← h4.1, ← h4.2, ← hm.1, ← hm.2, ← dayAdjust_ref]
  apply absT_hostE
  intro y m d
  simp only [mkDatetime_ref]
  cases mkDatetimeA (ratTrunc y.abs) (ratTrunc m.abs) (ratTrunc d.abs)
      (ratTrunc (carryH (carryH (carryH (carryH millisecond second 1000).2 minute 60).2 hour 60).2 day 24).1.abs)
      (ratTrunc (carryH (carryH (carryH millisecond second 1000).2 minute 60).2 hour 60).1.abs)
      (ratTrunc (carryH (carryH millisecond second 1000).2 minute 60).1.abs)
      (ratTrunc (carryH millisecond second 1000).1.abs) <;>
    simp [hostE, bind, Except.bind, absE, absFail, absBodyR, pure, Except.pure]

theorem datetimeNew_ref (v : List HVal) : absB (datetimeNewH v) = datetimeNewA (v.map absV) := by
  unfold datetimeNewH datetimeNewA datetimeUnpack
  rw [list7_map]
  cases list7 v with
  | none => rfl
  | some p =>
    obtain ⟨a1, a2, a3, a4, a5, a6, a7⟩ := p
    simp only [Option.map_some, req, bind, Except.bind, asNum_abs]
    cases a1.asNum? with
    | none => rfl
    | some year =>
    cases a2.asNum? with
    | none => rfl
    | some month =>
    cases a3.asNum? with
    | none => rfl
    | some day =>
    cases a4.asNum? with
    | none => rfl
    | some hour =>
    cases a5.asNum? with
    | none => rfl
    | some minute =>
    cases a6.asNum? with
    | none => rfl
    | some second =>
    cases a7.asNum? with
    | none => rfl
    | some millisecond => exact datetimeCore_ref year month day hour minute second millisecond


/-! ### on integral fields the one-number-type `_datetime_new` is the integer mirror of C16 (`Datetime.datetimeNewCore`) -/

theorem carryA_int (x y k : Int) (hk : 0 < k) :
    carryA (x : Rat) (y : Rat) k = (((Datetime.carry x y k).1 : Rat), ((Datetime.carry x y k).2 : Rat)) := by
  simp only [carryA, Datetime.carry, Datetime.pyFloorDiv, floorDivA, ← fdiv_cast x k hk, ← lt_intCast]
  by_cases h : x < 0 ∨ x ≥ k
  · have h' : (decide (x < 0) || !decide (x < k)) = true := by
      rcases h with h | h
      · simp [h]
      · have : ¬ x < k := by omega
        simp [this]
    simp only [h', if_true, h]; push_cast; rfl
  · have h' : ¬ ((decide (x < 0) || !decide (x < k)) = true) := by
      have h1 : ¬ x < 0 := fun hc => h (Or.inl hc)
      have h2 : x < k := by
        by_contra hc; exact h (Or.inr (by omega))
      simp [h1, h2]
    simp only [h', if_false, h]; rfl

theorem le_intCast (a b : Int) : decide (a ≤ b) = decide ((a : Rat) ≤ (b : Rat)) :=
  decide_eq_decide.mpr Rat.intCast_le_intCast.symm

theorem monthNormA_int (y mo : Int) :
    monthNormA (y : Rat) (mo : Rat) = (((Datetime.monthNorm y mo).1 : Rat), ((Datetime.monthNorm y mo).2 : Rat)) := by
  have hc : ((mo : Rat) - ((1 : Int) : Rat)) = (((mo - 1 : Int)) : Rat) := by push_cast; rfl
  simp only [monthNormA, Datetime.monthNorm, Datetime.pyFloorDiv, floorDivA, hc, ← fdiv_cast (mo - 1) 12 (by decide), ← lt_intCast,
    ← le_intCast]
  by_cases h : mo < 1 ∨ mo > 12
  · have h' : (decide (mo < 1) || !decide (mo ≤ 12)) = true := by
      rcases h with h | h
      · simp [h]
      · have : ¬ mo ≤ 12 := by omega
        simp [this]
    simp only [h', if_true, h]; push_cast; rfl
  · have h' : ¬ ((decide (mo < 1) || !decide (mo ≤ 12)) = true) := by
      have h1 : ¬ mo < 1 := fun hc => h (Or.inl hc)
      have h2 : mo ≤ 12 := by
        by_contra hc; exact h (Or.inr (by omega))
      simp [h1, h2]
    simp only [h', if_false, h]; rfl

/-- the integer triple as the one-number-type result -/
def castT : Option (Int × Int × Int) → Except HostErr (Rat × Rat × Rat)
  | some (y, m, d) => .ok ((y : Rat), (m : Rat), (d : Rat))
  | none => .error .valueError

theorem monthDaysA_int (y m : Int) :
    monthDaysA (y : Rat) (m : Rat) = (match Datetime.monthrange y m with | some md => .ok md | none => .error .valueError) := by
  simp only [monthDaysA, ratTrunc_intCast]
  cases Datetime.monthrange y m <;> rfl

theorem beq_one_int (m k : Int) : ((m : Rat) == ((k : Int) : Rat)) = decide (m = k) := by
  rw [Bool.eq_iff_iff]; simp

theorem dayUpA_int : ∀ (f : Nat) (y m d : Int), dayUpA f (y : Rat) (m : Rat) (d : Rat) = castT (Datetime.dayUp f y m d) := by
  intro f
  induction f with
  | zero => intro y m d; rfl
  | succ f ih =>
    intro y m d
    simp only [dayUpA, Datetime.dayUp, ← lt_intCast, beq_one_int]
    by_cases hd : d < 1
    · simp only [hd, decide_true, if_true]
      by_cases hm : m = 1
      · have e1 : ((y : Rat) - ((1 : Int) : Rat)) = (((y - 1 : Int)) : Rat) := by push_cast; rfl
        simp only [hm, decide_true, Bool.not_true, ne_eq, not_true_eq_false, if_false, Bool.false_eq_true, e1, monthDaysA_int]
        cases Datetime.monthrange (y - 1) 12 with
        | none => rfl
        | some md =>
          have e2 : ((d : Rat) + (md : Rat)) = (((d + md : Int)) : Rat) := by push_cast; rfl
          simp only [e2, ih]
      · have e1 : ((m : Rat) - ((1 : Int) : Rat)) = (((m - 1 : Int)) : Rat) := by push_cast; rfl
        simp only [hm, decide_false, Bool.not_false, ne_eq, not_false_eq_true, if_true, e1, monthDaysA_int]
        cases Datetime.monthrange y (m - 1) with
        | none => rfl
        | some md =>
          have e2 : ((d : Rat) + (md : Rat)) = (((d + md : Int)) : Rat) := by push_cast; rfl
          simp only [e2, ih]
    · simp only [hd, decide_false, if_false, Bool.false_eq_true]; rfl

theorem dayDownA_int : ∀ (f : Nat) (y m d md : Int),
    dayDownA f (y : Rat) (m : Rat) (d : Rat) md = castT (Datetime.dayDown f y m d md) := by
  intro f
  induction f with
  | zero => intro y m d md; rfl
  | succ f ih =>
    intro y m d md
    simp only [dayDownA, Datetime.dayDown, ← le_intCast, beq_one_int]
    by_cases hd : d > md
    · have hd' : ¬ d ≤ md := by omega
      have e0 : ((d : Rat) - (md : Rat)) = (((d - md : Int)) : Rat) := by push_cast; rfl
      simp only [hd, hd', decide_false, Bool.not_false, if_true, e0]
      by_cases hm : m = 12
      · have e1 : ((y : Rat) + ((1 : Int) : Rat)) = (((y + 1 : Int)) : Rat) := by push_cast; rfl
        simp only [hm, decide_true, Bool.not_true, ne_eq, not_true_eq_false, if_false, Bool.false_eq_true, e1, monthDaysA_int]
        cases Datetime.monthrange (y + 1) 1 with
        | none => rfl
        | some md' => simp only [ih]
      · have e1 : ((m : Rat) + ((1 : Int) : Rat)) = (((m + 1 : Int)) : Rat) := by push_cast; rfl
        simp only [hm, decide_false, Bool.not_false, ne_eq, not_false_eq_true, if_true, e1, monthDaysA_int]
        cases Datetime.monthrange y (m + 1) with
        | none => rfl
        | some md' => simp only [ih]
    · have hd' : d ≤ md := by omega
      simp only [hd, hd', decide_true, Bool.not_true, if_false, Bool.false_eq_true]; rfl

theorem dayAdjustA_int (y m d : Int) : dayAdjustA (y : Rat) (m : Rat) (d : Rat) = castT (Datetime.dayAdjust y m d) := by
  simp only [dayAdjustA, Datetime.dayAdjust, ← lt_intCast, ← le_intCast, ratTrunc_intCast]
  by_cases h1 : d < 1
  · simp only [h1, decide_true, if_true]; exact dayUpA_int _ y m d
  · by_cases h2 : d > 28
    · have h2' : ¬ d ≤ 28 := by omega
      simp only [h1, h2, h2', decide_false, Bool.not_false, if_true, if_false, Bool.false_eq_true, monthDaysA_int]
      cases Datetime.monthrange y m with
      | none => rfl
      | some md => exact dayDownA_int _ y m d md
    · have h2' : d ≤ 28 := by omega
      simp only [h1, h2, h2', decide_false, decide_true, Bool.not_true, if_false, Bool.false_eq_true]; rfl

/-- the result of `datetimeNew` for an integer tuple, from the integer mirror of C16 -/
def ofCore : Option Datetime.DT → Except (Fail Rat) (BodyR Rat)
  | some t => .ok (.opaque "datetime" (Datetime.toLocalMs t), none)
  | none => .error (.host .valueError)

theorem datetimeCoreA_int (y mo d h mi s ms : Int) :
    datetimeCoreA (y : Rat) (mo : Rat) (d : Rat) (h : Rat) (mi : Rat) (s : Rat) (ms : Rat)
      = ofCore (Datetime.datetimeNewCore y mo d h mi s ms) := by
  unfold datetimeCoreA Datetime.datetimeNewCore
  simp only [carryA_int _ _ _ (by decide : (0 : Int) < 1000), carryA_int _ _ _ (by decide : (0 : Int) < 60),
    carryA_int _ _ _ (by decide : (0 : Int) < 24), monthNormA_int, dayAdjustA_int, ratTrunc_intCast]
  cases Datetime.dayAdjust (Datetime.monthNorm y mo).1 (Datetime.monthNorm y mo).2
      (Datetime.carry (Datetime.carry (Datetime.carry (Datetime.carry ms s 1000).2 mi 60).2 h 60).2 d 24).2 with
  | none => rfl
  | some t =>
    obtain ⟨y', m', d'⟩ := t
    simp only [castT, hostE, bind, Except.bind, ratTrunc_intCast, mkDatetimeA, Datetime.construct]
    cases Datetime.mkDT y' m' d' (Datetime.carry (Datetime.carry (Datetime.carry (Datetime.carry ms s 1000).2 mi 60).2 h 60).2 d 24).1
      (Datetime.carry (Datetime.carry (Datetime.carry ms s 1000).2 mi 60).2 h 60).1
      (Datetime.carry (Datetime.carry ms s 1000).2 mi 60).1 (Datetime.carry ms s 1000).1 <;> rfl

/-! ### `%`: C `fmod` + sign adjustment on two integers is Python's integer `%` -/

theorem trunc_div (a b : Int) (hb : b ≠ 0) : ratTrunc ((a : Rat) / (b : Rat)) = Int.tdiv a b := by
  obtain ⟨c, h1, h2⟩ := Rat.exists_eq_mul_div_num_and_eq_mul_div_den a hb
  unfold ratTrunc
  generalize ((a : Rat) / (b : Rat)) = q at h1 h2 ⊢
  have hc : c ≠ 0 := by
    intro h; rw [h] at h2; simp at h2; exact hb h2
  rw [h1, h2]
  rcases lt_or_gt_of_ne hc with hneg | hpos
  · obtain ⟨c', rfl⟩ : ∃ c', c = -c' := ⟨-c, by omega⟩
    rw [Int.neg_mul, Int.neg_mul, Int.neg_tdiv_neg, Int.mul_tdiv_mul_of_pos _ _ (by omega)]
  · rw [Int.mul_tdiv_mul_of_pos _ _ hpos]

theorem fmod_tmod (a b : Int) (hb : b ≠ 0) :
    Int.fmod a b = if Int.tmod a b = 0 then 0 else if (b < 0) ≠ (Int.tmod a b < 0) then Int.tmod a b + b else Int.tmod a b := by
  rw [Int.fmod_eq_emod, Int.tmod_eq_emod]
  have h1 := Int.emod_nonneg a hb
  have h2 := Int.emod_lt a hb
  have h3 : b ∣ a ↔ a % b = 0 := Int.dvd_iff_emod_eq_zero
  by_cases hd : b ∣ a
  · have := h3.mp hd
    simp [hd, this]
  · have h4 : a % b ≠ 0 := fun h => hd (h3.mpr h)
    simp only [hd, or_false, ne_eq, eq_iff_iff]
    by_cases ha : 0 ≤ a <;> by_cases hb0 : 0 ≤ b <;> simp only [ha, hb0, if_true, if_false] <;> split_ifs <;> omega

theorem floatMod_int (rnd : Rat → Rat) (a b : Int) (hb : b ≠ 0)
    (hI : rnd (((Int.tmod a b + b : Int)) : Rat) = ((Int.tmod a b + b : Int) : Rat)) :
    floatMod rnd (a : Rat) (b : Rat) = ((Int.fmod a b : Int) : Rat) := by
  have hm : (a : Rat) - (b : Rat) * ((Int.tdiv a b : Int) : Rat) = ((Int.tmod a b : Int) : Rat) := by
    rw [Int.tmod_def]; push_cast; ring
  unfold floatMod
  simp only [trunc_div a b hb, hm]
  rw [fmod_tmod a b hb]
  have e0 : ((((Int.tmod a b : Int) : Rat)) == 0) = decide (Int.tmod a b = 0) := by
    rw [Bool.eq_iff_iff]; simp
  have e1 : decide ((b : Rat) < 0) = decide (b < 0) := by
    rw [Bool.eq_iff_iff]; simp
  have e2 : decide ((((Int.tmod a b : Int)) : Rat) < 0) = decide (Int.tmod a b < 0) := by
    rw [Bool.eq_iff_iff]; simp
  rw [e0, e1, e2]
  by_cases h0 : Int.tmod a b = 0
  · simp [h0]
  · by_cases h1 : b < 0 <;> by_cases h2 : Int.tmod a b < 0 <;> simp [h0, h1, h2] <;> (push_cast at hI; exact hI)

end C12More
