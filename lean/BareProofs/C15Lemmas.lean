import BareModel.Lib

/-!
# C15 — supporting lemmas: effects, the per-function effect shapes ("every function in the table satisfies P"),
validation keeps the container passed first, Python index primitives on natural indices.
-/

namespace C15
open Lib

/-! ## running an effect -/

theorem run_fail {e : Eff} {h : Heap} {v : Value} (hf : (e.run h).1 = .fail v) : e = .fail v := by
  cases e <;> simp_all [Eff.run]

theorem run_heap_of_not_store_alloc (e : Eff) (h : Heap) (hs : ∀ r c v, e ≠ .store r c v) (ha : ∀ c, e ≠ .alloc c) :
    (e.run h).2 = h := by
  cases e <;> simp_all [Eff.run]

theorem run_length_le (e : Eff) (h : Heap) : h.length ≤ (e.run h).2.length := by
  cases e <;> simp [Eff.run]

/-- running an effect leaves every existing cell alone, except the target of a `store` -/
theorem run_frame (e : Eff) (h : Heap) (r : Nat) (hr : r < h.length) (hne : ∀ r' c v, e = .store r' c v → r' ≠ r) :
    (e.run h).2[r]? = h[r]? := by
  cases e with
  | store r' c v => simp only [Eff.run]; exact List.getElem?_set_ne (hne r' c v rfl)
  | alloc c => simp only [Eff.run]; exact List.getElem?_append_left hr
  | _ => rfl

theorem lookup_mem {α β} [BEq α] [LawfulBEq α] {l : List (α × β)} {k : α} {b : β} (h : l.lookup k = some b) : (k, b) ∈ l := by
  induction l with
  | nil => simp at h
  | cons p l ih =>
    obtain ⟨k', b'⟩ := p
    rw [List.lookup_cons] at h
    by_cases hk : k == k'
    · simp only [hk] at h
      have := eq_of_beq hk
      simp_all
    · simp only [hk] at h
      exact List.mem_cons_of_mem _ (ih h)

/-! ## effect shapes -/

/-- the shape every validated-argument body has: a `store` overwrites the container passed first, with a cell of its kind -/
def EffOK (va : List VArg) : Eff → Prop
  | .store r c _ =>
      (∃ rest xs, va = .one (.arr r) :: rest ∧ c = .arr xs) ∨ (∃ rest kvs, va = .one (.obj r) :: rest ∧ c = .obj kvs)
  | _ => True

/-- never `store` -/
def NoStore : Eff → Prop
  | .store _ _ _ => False
  | _ => True

/-- never `alloc` -/
def NoAlloc : Eff → Prop
  | .alloc _ => False
  | _ => True

/-- `alloc`, `fail` or `unmodelled` only -/
def AllocLike : Eff → Prop
  | .alloc _ => True
  | .fail _ => True
  | .unmodelled => True
  | _ => False

/-- `ret`, `fail` or `unmodelled` only -/
def PureLike : Eff → Prop
  | .ret _ => True
  | .fail _ => True
  | .unmodelled => True
  | _ => False

theorem PureLike.noAlloc {e : Eff} (h : PureLike e) : NoAlloc e := by cases e <;> simp_all [PureLike, NoAlloc]
theorem PureLike.noStore {e : Eff} (h : PureLike e) : NoStore e := by cases e <;> simp_all [PureLike, NoStore]
theorem AllocLike.noStore {e : Eff} (h : AllocLike e) : NoStore e := by cases e <;> simp_all [AllocLike, NoStore]
theorem NoStore.effOK {e : Eff} (h : NoStore e) (va : List VArg) : EffOK va e := by cases e <;> simp_all [EffOK, NoStore]

theorem searchRes_pure (x : Option (Option Int)) : PureLike (searchRes x) := by
  rcases x with _ | _ | _ <;> simp [searchRes, PureLike]

theorem fromCodes_pure (vs : List Value) (acc : List Char) : PureLike (fromCodes vs acc) := by
  induction vs generalizing acc with
  | nil => simp [fromCodes, PureLike]
  | cons v vs ih =>
    unfold fromCodes
    split
    · split <;> simp [PureLike]
    · simp [PureLike]
    · exact ih _

/-- split every `match`/`if` of an unfolded body and close the shape goal -/
macro "body_cases" : tactic =>
  `(tactic| ((repeat' split) <;> (try (simp_all [EffOK, NoStore, NoAlloc, AllocLike, PureLike]; done)) <;>
      (try exact searchRes_pure _) <;> (repeat' split) <;> simp_all [EffOK, NoStore, NoAlloc, AllocLike, PureLike]))

/-! ### the pure functions -/

theorem arrayGet_pure (va h) : PureLike (arrayGetB va h) := by unfold arrayGetB; body_cases
theorem arrayIndexOf_pure (va h) : PureLike (arrayIndexOfB va h) := by unfold arrayIndexOfB; body_cases
theorem arrayLastIndexOf_pure (va h) : PureLike (arrayLastIndexOfB va h) := by unfold arrayLastIndexOfB; body_cases
theorem arrayJoin_pure (va h) : PureLike (arrayJoinB va h) := by unfold arrayJoinB; body_cases
theorem arrayLength_pure (va h) : PureLike (arrayLengthB va h) := by unfold arrayLengthB; body_cases
theorem objectGet_pure (va h) : PureLike (objectGetB va h) := by unfold objectGetB; body_cases
theorem objectHas_pure (va h) : PureLike (objectHasB va h) := by unfold objectHasB; body_cases
theorem stringCharCodeAt_pure (va h) : PureLike (stringCharCodeAtB va h) := by unfold stringCharCodeAtB; body_cases
theorem stringEndsWith_pure (va h) : PureLike (stringEndsWithB va h) := by unfold stringEndsWithB; body_cases
theorem stringStartsWith_pure (va h) : PureLike (stringStartsWithB va h) := by unfold stringStartsWithB; body_cases
theorem stringIndexOf_pure (va h) : PureLike (stringIndexOfB va h) := by unfold stringIndexOfB; body_cases
theorem stringLastIndexOf_pure (va h) : PureLike (stringLastIndexOfB va h) := by unfold stringLastIndexOfB; body_cases
theorem stringLength_pure (va h) : PureLike (stringLengthB va h) := by unfold stringLengthB; body_cases
theorem stringLower_pure (va h) : PureLike (stringLowerB va h) := by unfold stringLowerB; body_cases
theorem stringUpper_pure (va h) : PureLike (stringUpperB va h) := by unfold stringUpperB; body_cases
theorem stringRepeat_pure (va h) : PureLike (stringRepeatB va h) := by unfold stringRepeatB; body_cases
theorem stringReplace_pure (va h) : PureLike (stringReplaceB va h) := by unfold stringReplaceB; body_cases
theorem stringSlice_pure (va h) : PureLike (stringSliceB va h) := by unfold stringSliceB; body_cases
theorem stringTrim_pure (va h) : PureLike (stringTrimB va h) := by unfold stringTrimB; body_cases
theorem regexEscape_pure (va h) : PureLike (regexEscapeB va h) := by unfold regexEscapeB; body_cases
theorem urlEncode_pure (s va h) : PureLike (urlEncodeB s va h) := by unfold urlEncodeB; body_cases

/-! ### the allocators -/

theorem arrayCopy_alloc (va h) : AllocLike (arrayCopyB va h) := by unfold arrayCopyB; body_cases
theorem arrayNewSize_alloc (va h) : AllocLike (arrayNewSizeB va h) := by unfold arrayNewSizeB; body_cases
theorem arraySlice_alloc (va h) : AllocLike (arraySliceB va h) := by unfold arraySliceB; body_cases
theorem objectCopy_alloc (va h) : AllocLike (objectCopyB va h) := by unfold objectCopyB; body_cases
theorem objectKeys_alloc (va h) : AllocLike (objectKeysB va h) := by unfold objectKeysB; body_cases
theorem stringSplit_alloc (va h) : AllocLike (stringSplitB va h) := by unfold stringSplitB; body_cases
theorem arrayNew_alloc (args h) : AllocLike (arrayNewR args h) := by simp [arrayNewR, AllocLike]
theorem objectNew_alloc (args h) : AllocLike (objectNewR args h) := by unfold objectNewR; body_cases

/-! ### the mutators -/

theorem arrayDelete_ok (va h) : EffOK va (arrayDeleteB va h) ∧ NoAlloc (arrayDeleteB va h) := by unfold arrayDeleteB; body_cases
theorem arrayExtend_ok (va h) : EffOK va (arrayExtendB va h) ∧ NoAlloc (arrayExtendB va h) := by unfold arrayExtendB; body_cases
theorem arrayPop_ok (va h) : EffOK va (arrayPopB va h) ∧ NoAlloc (arrayPopB va h) := by unfold arrayPopB; body_cases
theorem arrayPush_ok (va h) : EffOK va (arrayPushB va h) ∧ NoAlloc (arrayPushB va h) := by unfold arrayPushB; body_cases
theorem arraySet_ok (va h) : EffOK va (arraySetB va h) ∧ NoAlloc (arraySetB va h) := by unfold arraySetB; body_cases
theorem arrayShift_ok (va h) : EffOK va (arrayShiftB va h) ∧ NoAlloc (arrayShiftB va h) := by unfold arrayShiftB; body_cases
theorem objectAssign_ok (va h) : EffOK va (objectAssignB va h) ∧ NoAlloc (objectAssignB va h) := by unfold objectAssignB; body_cases
theorem objectDelete_ok (va h) : EffOK va (objectDeleteB va h) ∧ NoAlloc (objectDeleteB va h) := by unfold objectDeleteB; body_cases
theorem objectSet_ok (va h) : EffOK va (objectSetB va h) ∧ NoAlloc (objectSetB va h) := by unfold objectSetB; body_cases

/-- the names of the functions that may overwrite a cell -/
def mutators : List String :=
  ["arrayDelete", "arrayExtend", "arrayPop", "arrayPush", "arraySet", "arrayShift", "objectAssign", "objectDelete", "objectSet"]

/-- the names of the functions that return a new container -/
def allocators : List String :=
  ["arrayCopy", "arrayNew", "arrayNewSize", "arraySlice", "objectCopy", "objectKeys", "objectNew", "stringSplit"]

/-- what is shown of every function `f` with body `b` -/
def Shape (f : String) (b : List VArg → Heap → Eff) : Prop := ∀ va h,
    EffOK va (b va h) ∧ (f ∉ mutators → NoStore (b va h)) ∧ (f ∈ allocators → AllocLike (b va h)) ∧
    (f ∉ mutators → f ∉ allocators → PureLike (b va h)) ∧ (f ∉ allocators → NoAlloc (b va h))

theorem shape_of_pure {f b} (hp : ∀ va h, PureLike (b va h)) (ha : f ∉ allocators) : Shape f b :=
  fun va h => ⟨(hp va h).noStore.effOK _, fun _ => (hp va h).noStore, fun hm => absurd hm ha, fun _ _ => hp va h, fun _ => (hp va h).noAlloc⟩

theorem shape_of_alloc {f b} (hp : ∀ va h, AllocLike (b va h)) (ha : f ∈ allocators) : Shape f b :=
  fun va h => ⟨(hp va h).noStore.effOK _, fun _ => (hp va h).noStore, fun _ => hp va h, fun _ hn => absurd ha hn, fun hn => absurd ha hn⟩

theorem shape_of_mut {f b} (hp : ∀ va h, EffOK va (b va h) ∧ NoAlloc (b va h)) (hm : f ∈ mutators) (ha : f ∉ allocators) :
    Shape f b :=
  fun va h => ⟨(hp va h).1, fun hn => absurd hm hn, fun h' => absurd h' ha, fun hn => absurd hm hn, fun _ => (hp va h).2⟩

/-- **every function in the table**: a store goes to the container passed first; only mutators store; allocators only
allocate; the others neither store nor allocate -/
theorem bodies_shape : ∀ p ∈ bodies, Shape p.1 p.2 := by
  intro p hp
  simp only [bodies, List.mem_cons, List.not_mem_nil, or_false] at hp
  rcases hp with rfl | rfl | rfl | rfl | rfl | rfl | rfl | rfl | rfl | rfl | rfl | rfl | rfl | rfl | rfl | rfl | rfl | rfl | rfl |
    rfl | rfl | rfl | rfl | rfl | rfl | rfl | rfl | rfl | rfl | rfl | rfl | rfl | rfl | rfl | rfl | rfl | rfl
  · exact shape_of_alloc arrayCopy_alloc (by decide)
  · exact shape_of_mut arrayDelete_ok (by decide) (by decide)
  · exact shape_of_mut arrayExtend_ok (by decide) (by decide)
  · exact shape_of_pure arrayGet_pure (by decide)
  · exact shape_of_pure arrayIndexOf_pure (by decide)
  · exact shape_of_pure arrayJoin_pure (by decide)
  · exact shape_of_pure arrayLastIndexOf_pure (by decide)
  · exact shape_of_pure arrayLength_pure (by decide)
  · exact shape_of_alloc arrayNewSize_alloc (by decide)
  · exact shape_of_mut arrayPop_ok (by decide) (by decide)
  · exact shape_of_mut arrayPush_ok (by decide) (by decide)
  · exact shape_of_mut arraySet_ok (by decide) (by decide)
  · exact shape_of_mut arrayShift_ok (by decide) (by decide)
  · exact shape_of_alloc arraySlice_alloc (by decide)
  · exact shape_of_mut objectAssign_ok (by decide) (by decide)
  · exact shape_of_alloc objectCopy_alloc (by decide)
  · exact shape_of_mut objectDelete_ok (by decide) (by decide)
  · exact shape_of_pure objectGet_pure (by decide)
  · exact shape_of_pure objectHas_pure (by decide)
  · exact shape_of_alloc objectKeys_alloc (by decide)
  · exact shape_of_mut objectSet_ok (by decide) (by decide)
  · exact shape_of_pure stringCharCodeAt_pure (by decide)
  · exact shape_of_pure stringEndsWith_pure (by decide)
  · exact shape_of_pure stringIndexOf_pure (by decide)
  · exact shape_of_pure stringLastIndexOf_pure (by decide)
  · exact shape_of_pure stringLength_pure (by decide)
  · exact shape_of_pure stringLower_pure (by decide)
  · exact shape_of_pure stringRepeat_pure (by decide)
  · exact shape_of_pure stringReplace_pure (by decide)
  · exact shape_of_pure stringSlice_pure (by decide)
  · exact shape_of_alloc stringSplit_alloc (by decide)
  · exact shape_of_pure stringStartsWith_pure (by decide)
  · exact shape_of_pure stringTrim_pure (by decide)
  · exact shape_of_pure stringUpper_pure (by decide)
  · exact shape_of_pure regexEscape_pure (by decide)
  · exact shape_of_pure (urlEncode_pure _) (by decide)
  · exact shape_of_pure (urlEncode_pure _) (by decide)

/-- what is shown of every raw-argument function -/
def RawShape (f : String) (b : List Value → Heap → Eff) : Prop := ∀ args h,
    NoStore (b args h) ∧ f ∉ mutators ∧ (f ∈ allocators → AllocLike (b args h)) ∧ (f ∉ allocators → PureLike (b args h))

theorem rawBodies_shape : ∀ p ∈ rawBodies, RawShape p.1 p.2 := by
  intro p hp args h
  simp only [rawBodies, List.mem_cons, List.not_mem_nil, or_false] at hp
  rcases hp with rfl | rfl | rfl
  · exact ⟨(arrayNew_alloc args h).noStore, by decide, fun _ => arrayNew_alloc args h, fun hn => absurd (by decide) hn⟩
  · exact ⟨(objectNew_alloc args h).noStore, by decide, fun _ => objectNew_alloc args h, fun hn => absurd (by decide) hn⟩
  · exact ⟨(fromCodes_pure args []).noStore, by decide, fun hm => absurd hm (by decide), fun _ => fromCodes_pure args []⟩

/-! ## validation keeps a container argument where it is -/

def IsRef : Value → Prop
  | .arr _ => True
  | .obj _ => True
  | _ => False

theorem digitsVal_map_ne (o : Option Nat) (g : Nat → Value) (hg : ∀ n, ¬ IsRef (g n)) (v : Value)
    (hv : o.map g = some v) : ¬ IsRef v := by
  cases o with
  | none => simp at hv
  | some n => simp at hv; subst hv; exact hg n

/-- a default is a boolean, a number or a string — never a container -/
theorem parseDefault_not_ref (s : String) (v : Value) (hv : parseDefault s = some v) : ¬ IsRef v := by
  unfold parseDefault at hv
  split at hv
  · simp at hv; subst hv; simp [IsRef]
  · simp at hv; subst hv; simp [IsRef]
  · exact digitsVal_map_ne _ _ (fun n => by simp [numI, IsRef]) v hv
  · split at hv
    · split at hv
      · simp at hv
      · simp at hv; subst hv; simp [IsRef]
    · simp at hv
  · exact digitsVal_map_ne _ _ (fun n => by simp [numN, IsRef]) v hv
  · simp at hv

theorem missingArg_not_ref (m : Gen.ArgModel) (v : Value) (hv : missingArg m = some (.one v)) : ¬ IsRef v := by
  unfold missingArg at hv
  split at hv
  · simp at hv
  · split at hv
    · rename_i d hd
      simp at hv; subst hv
      cases hdef : m.default with
      | none => simp [hdef] at hd
      | some s => simp [hdef] at hd; exact parseDefault_not_ref s _ hd
    · split at hv
      · simp at hv; subst hv; simp [IsRef]
      · split at hv
        · simp at hv; subst hv; simp [IsRef]
        · simp at hv

theorem checkArg_ref (h : Heap) (m : Gen.ArgModel) (a v : Value) (hv : checkArg h m a = some v) (hr : IsRef v) : a = v := by
  unfold checkArg at hv
  split at hv
  · simpa using hv
  · split at hv
    · simp at hv; subst hv; simp [IsRef] at hr
    · split at hv
      · split at hv
        · simp at hv; subst hv; simp [IsRef] at hr
        · simp at hv
      · split at hv
        · simp at hv
        · split at hv
          · simp at hv
          · simp at hv; subst hv; simp [IsRef] at hr
      · split at hv
        · simp at hv
        · simpa using hv

/-- if the first validated argument is a container reference, it is the first actual argument -/
theorem validate_head_ref (h : Heap) (ms : List Gen.ArgModel) (args : List Value) (v : Value) (rest : List VArg)
    (hv : validate h ms args = some (.one v :: rest)) (hr : IsRef v) : ∃ as, args = v :: as := by
  cases ms with
  | nil => cases args <;> simp [validate] at hv
  | cons m ms =>
    cases args with
    | nil =>
      simp only [validate] at hv
      split at hv
      · simp at hv
      · rename_i a ha
        cases hrest : validate h ms [] with
        | none => simp [hrest] at hv
        | some r =>
          simp [hrest] at hv
          obtain ⟨rfl, _⟩ := hv
          exact absurd hr (missingArg_not_ref m v ha)
    | cons a as =>
      simp only [validate] at hv
      split at hv
      · cases hrest : validate h ms [] with
        | none => simp [hrest] at hv
        | some r => simp [hrest] at hv
      · split at hv
        · simp at hv
        · rename_i v' hc
          cases hrest : validate h ms as with
          | none => simp [hrest] at hv
          | some r =>
            simp [hrest] at hv
            obtain ⟨rfl, _⟩ := hv
            exact ⟨as, by rw [checkArg_ref h m a v' hc hr]⟩

end C15
