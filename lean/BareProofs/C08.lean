import BareModel.MachineSpec
import BareModel.HostImpl

/-!
# C08 — jump-level models execute by the documented statement semantics

`Machine.execM` is the mirror of `_execute_script_helper` (runtime.py:47-150) *with* its per-invocation label cache
`label_indexes`; `Machine.execM₀` (BareModel/MachineSpec.lean) is the documented semantics: statements in order, a taken
jump continues after the FIRST `label l` of the SAME list (`findLabel P l`), else `Unknown jump label`; `return` ends the
current list; a function statement binds a global.  This file proves

* `cache_transparent` — the cache is unobservable: `execM … cache … = execM₀ …` for every cache that is valid for the list
  being run (in particular the empty cache every invocation starts with), and `callValue = callValue₀`,
  `execIncludes = execIncludes₀`, `execute = execute₀`;
* `unknown_label_iff`, `findLabel_some_iff`, `first_label_wins` — what "the first label of that name in the same list" means;
* the one-step lemmas (`step_*`) that make the statement semantics explicit, among them `return_ends_only_current`,
  `function_stmt_binds_global`, `jump_taken`, `jumpif_taken`/`jumpif_not_taken`;
* `jumps_stay_in_scope` — a script-function call runs `fd.body` from index 0 with labels resolved in `fd.body` only;
  the caller's list is not an input of the callee (`callee_independent_of_caller_list`);
* `exec_deterministic` — trivial in Lean (a function); that executing does not mutate the *Python* model dicts is checked
  on the implementation by harness/props/C08.py (deep copy before / compare after, execute twice).

Everything is for ALL configurations, hosts, programs, states and fuel.
-/

open Machine
namespace C08
variable {W : Type}

/-- a cache is valid for the list `P` when every entry is the index of the first label of that name in `P` -/
def CacheValid (P : List Stmt) (c : Cache) : Prop := ∀ l i, (l, i) ∈ c → findLabel P l = some i

theorem cacheValid_nil (P : List Stmt) : CacheValid P [] := by intro l i h; cases h

theorem cache_get_mem {c : Cache} {l : Name} {i : Nat} (h : c.get? l = some i) : (l, i) ∈ c := by
  unfold Cache.get? at h
  cases hf : c.find? (·.1 == l) with
  | none => simp [hf] at h
  | some p =>
    simp [hf] at h
    have hm := List.mem_of_find?_eq_some hf
    have hp := List.find?_some hf
    simp at hp
    cases p with
    | mk a b => simp_all

theorem jumpTarget_spec {P : List Stmt} {c : Cache} (hc : CacheValid P c) (l : Name) :
    match jumpTarget P c l with
    | some (c', i) => findLabel P l = some i ∧ CacheValid P c'
    | none => findLabel P l = none := by
  unfold jumpTarget
  cases hg : c.get? l with
  | some i => exact ⟨hc l i (cache_get_mem hg), hc⟩
  | none =>
    cases hf : findLabel P l with
    | none => simp
    | some i =>
      refine ⟨rfl, ?_⟩
      intro l' i' hm
      cases hm with
      | head => exact hf
      | tail _ h => exact hc l' i' h

/-- the three statements proved together by induction on the fuel -/
def Transparent (cfg : Config W) (fuel : Nat) : Prop :=
  (callValue cfg fuel = callValue₀ cfg fuel) ∧
  (∀ P locals base cache pc st, CacheValid P cache →
      execM cfg fuel P locals base cache pc st = execM₀ cfg fuel P locals base pc st) ∧
  (∀ base incs st, execIncludes cfg fuel base incs st = execIncludes₀ cfg fuel base incs st)

theorem transparent (cfg : Config W) : ∀ fuel, Transparent cfg fuel
  | 0 => by
    refine ⟨?_, ?_, ?_⟩
    · funext f a s; rw [callValue.eq_def, callValue₀.eq_def]
    · intro P locals base cache pc st _
      rw [execM.eq_1, execM₀.eq_1]
      cases P[pc]? <;> rfl
    · intro base incs st
      cases incs with
      | nil => rw [execIncludes.eq_1, execIncludes₀.eq_1]
      | cons i r =>
        rw [execIncludes.eq_2, execIncludes₀.eq_2]
        cases cfg.fetch (cfg.resolve base i) <;> rfl
  | fuel+1 => by
    obtain ⟨ihC, ihE, ihI⟩ := transparent cfg fuel
    have ihE0 := fun P locals base pc st => ihE P locals base [] pc st (cacheValid_nil _)
    refine ⟨?_, ?_, ?_⟩
    · funext f a s
      rw [callValue.eq_def, callValue₀.eq_def]
      simp only [ihC, ihE0]
      rfl
    · intro P locals base cache pc st hc
      rw [execM.eq_1, execM₀.eq_1]
      simp only [ihC, ihI]
      cases P[pc]? with
      | none => rfl
      | some s =>
        simp only
        split
        · rfl
        · cases s with
          | expr name e =>
            simp only
            generalize evalExpr cfg _ locals e _ = r
            cases r with
            | ok v st2 => cases name <;> cases locals <;> exact ihE _ _ _ _ _ _ hc
            | err => rfl
            | oof => rfl
          | jump l c =>
            have hj := jumpTarget_spec hc l
            cases c with
            | none =>
              simp only
              cases hJ : jumpTarget P cache l with
              | none => rw [hJ] at hj; simp only at hj; rw [hj]
              | some ci => rw [hJ] at hj; simp only at hj; rw [hj.1]; exact ihE _ _ _ _ _ _ hj.2
            | some c =>
              simp only
              generalize evalExpr cfg _ locals c _ = r
              cases r with
              | ok v st2 =>
                simp only
                split
                · cases hJ : jumpTarget P cache l with
                  | none => rw [hJ] at hj; simp only at hj; rw [hj]
                  | some ci => rw [hJ] at hj; simp only at hj; rw [hj.1]; exact ihE _ _ _ _ _ _ hj.2
                · exact ihE _ _ _ _ _ _ hc
              | err => rfl
              | oof => rfl
          | ret e => cases e <;> rfl
          | label l => exact ihE _ _ _ _ _ _ hc
          | function fid name args laa isAsync body => exact ihE _ _ _ _ _ _ hc
          | «include» incs =>
            simp only
            generalize execIncludes₀ cfg fuel base incs _ = r
            cases r with
            | done st2 => exact ihE _ _ _ _ _ _ hc
            | _ => rfl
    · intro base incs st
      cases incs with
      | nil => rw [execIncludes.eq_1, execIncludes₀.eq_1]
      | cons i r =>
        rw [execIncludes.eq_2, execIncludes₀.eq_2]
        simp only [ihE0, ihI]
        rfl

/-- **cache_transparent.** With a cache that is valid for the list being run — in particular the empty cache every
invocation of `_execute_script_helper` starts with — the mirror machine (label cache) and the documented semantics
(look the label up afresh at every taken jump) give the same result, for every fuel, program, state and host. -/
theorem cache_transparent (cfg : Config W) (fuel : Nat) (P : List Stmt) (locals : Option Env) (base : Option String)
    (cache : Cache) (pc : Nat) (st : State W) (hc : CacheValid P cache) :
    execM cfg fuel P locals base cache pc st = execM₀ cfg fuel P locals base pc st :=
  (transparent cfg fuel).2.1 P locals base cache pc st hc

/-- the empty cache is valid for every list, so every *invocation* is cache-transparent -/
theorem cache_transparent_nil (cfg : Config W) (fuel : Nat) (P : List Stmt) (locals : Option Env) (base : Option String)
    (pc : Nat) (st : State W) : execM cfg fuel P locals base [] pc st = execM₀ cfg fuel P locals base pc st :=
  cache_transparent cfg fuel P locals base [] pc st (cacheValid_nil P)

/-- the call wrapper is the same function on both machines -/
theorem callValue_eq (cfg : Config W) (fuel : Nat) : callValue cfg fuel = callValue₀ cfg fuel := (transparent cfg fuel).1

theorem execIncludes_eq (cfg : Config W) (fuel : Nat) (base : Option String) (incs : List IncludeScript) (st : State W) :
    execIncludes cfg fuel base incs st = execIncludes₀ cfg fuel base incs st := (transparent cfg fuel).2.2 base incs st

/-- `execute_script` on the mirror = on the documented semantics -/
theorem execute_eq (cfg : Config W) (fuel : Nat) (P : List Stmt) (base : Option String) (st : State W) :
    execute cfg fuel P base st = execute₀ cfg fuel P base st := cache_transparent_nil ..

/-- the cache only ever holds valid entries: the cache `jumpTarget` hands on is valid again (the invariant of the loop) -/
theorem cache_stays_valid {P : List Stmt} {c c' : Cache} {l : Name} {i : Nat} (hc : CacheValid P c)
    (h : jumpTarget P c l = some (c', i)) : CacheValid P c' ∧ findLabel P l = some i := by
  have := jumpTarget_spec hc l
  rw [h] at this
  exact ⟨this.2, this.1⟩

/-! ## "the first label of that name in the same statement list" -/

/-- **unknown_label_iff.** The lookup of a taken jump fails — and the run ends with `Unknown jump label` (`jump_taken`,
`jumpif_taken`) — iff NO statement of the same list is `label l`. -/
theorem unknown_label_iff (P : List Stmt) (l : Name) : findLabel P l = none ↔ ∀ s ∈ P, isLabel l s = false := by
  unfold findLabel
  have hle := List.findIdx_le_length (p := isLabel l) (xs := P)
  constructor
  · intro h
    have : ¬ (List.findIdx (isLabel l) P < P.length) := by
      intro hlt; simp [hlt] at h
    have heq : List.findIdx (isLabel l) P = P.length := by omega
    intro s hs
    have := (List.findIdx_eq_length (p := isLabel l) (xs := P)).1 heq s hs
    simpa using this
  · intro h
    have heq : List.findIdx (isLabel l) P = P.length :=
      (List.findIdx_eq_length (p := isLabel l) (xs := P)).2 (by intro x hx; simp [h x hx])
    simp [heq]

theorem isLabel_iff (l : Name) (s : Stmt) : isLabel l s = true ↔ s = .label l := by
  cases s <;> simp [isLabel]

/-- **findLabel_some_iff.** The lookup yields index `i` iff statement `i` is `label l` and no earlier statement is. -/
theorem findLabel_some_iff (P : List Stmt) (l : Name) (i : Nat) :
    findLabel P l = some i ↔ P[i]? = some (.label l) ∧ ∀ j, j < i → P[j]? ≠ some (.label l) := by
  unfold findLabel
  constructor
  · intro h
    by_cases hlt : List.findIdx (isLabel l) P < P.length
    · simp [hlt] at h
      subst h
      refine ⟨?_, ?_⟩
      · have := List.findIdx_getElem (p := isLabel l) (xs := P) (w := hlt)
        rw [isLabel_iff] at this
        rw [List.getElem?_eq_getElem hlt, this]
      · intro j hj hget
        have hjl : j < P.length := by omega
        have := List.not_of_lt_findIdx (p := isLabel l) (xs := P) hj
        rw [List.getElem?_eq_getElem hjl] at hget
        simp at hget
        rw [hget] at this
        simp [isLabel] at this
    · simp [hlt] at h
  · intro ⟨hi, hfirst⟩
    have hil : i < P.length := by
      rcases Nat.lt_or_ge i P.length with h | h
      · exact h
      · rw [List.getElem?_eq_none h] at hi; cases hi
    have hget : P[i] = .label l := by
      rw [List.getElem?_eq_getElem hil] at hi; simpa using hi
    have heq : List.findIdx (isLabel l) P = i := by
      rw [List.findIdx_eq hil]
      refine ⟨by rw [hget]; simp [isLabel], ?_⟩
      intro j hj
      have hjl : j < P.length := by omega
      cases hb : isLabel l P[j] with
      | false => rfl
      | true =>
        exfalso
        rw [isLabel_iff] at hb
        exact hfirst j hj (by rw [List.getElem?_eq_getElem hjl, hb])
    simp [heq, hil]

/-- **first_label_wins.** With duplicate labels the FIRST one is the jump target: if `A` contains no `label l`, a jump to
`l` in `A ++ label l :: B` continues after index `A.length`, whatever further `label l` statements `B` contains. -/
theorem first_label_wins (A B : List Stmt) (l : Name) (hA : ∀ s ∈ A, isLabel l s = false) :
    findLabel (A ++ .label l :: B) l = some A.length := by
  rw [findLabel_some_iff]
  refine ⟨by simp, ?_⟩
  intro j hj hget
  rw [List.getElem?_append_left hj] at hget
  have hm : Stmt.label l ∈ A := List.mem_of_getElem? hget
  have := hA _ hm
  simp [isLabel] at this

/-- a label that exists is found, and execution continues *after* it (index + 1): `ix_statement = ix_label`, then `+= 1` -/
theorem findLabel_lt {P : List Stmt} {l : Name} {i : Nat} (h : findLabel P l = some i) : i < P.length := by
  unfold findLabel at h
  by_cases hlt : List.findIdx (isLabel l) P < P.length
  · simp [hlt] at h; omega
  · simp [hlt] at h

/-! ## the documented statement semantics, one statement kind at a time (`execM₀`, hence `execM` by `cache_transparent`) -/

/-- the state after the statement counter has been incremented (runtime.py:59) -/
def tick (st : State W) : State W := { st with count := st.count + 1 }

/-- the statement budget allows one more statement to start (runtime.py:61 does not raise) -/
def BudgetOk (cfg : Config W) (st : State W) : Prop :=
  (decide (cfg.maxStatements > 0) && decide (st.count + 1 > cfg.maxStatements)) = false

/-- falling off the end of the list ends the script/function with `null` -/
theorem step_end (cfg : Config W) (fuel : Nat) (P : List Stmt) (locals base) (pc : Nat) (st : State W)
    (h : P[pc]? = none) : execM₀ cfg fuel P locals base pc st = .done st := by
  rw [execM₀.eq_1, h]

/-- the budget test comes first, whatever the statement is -/
theorem step_exceeded (cfg : Config W) (fuel : Nat) (P : List Stmt) (locals base) (pc : Nat) (st : State W) (s : Stmt)
    (h : P[pc]? = some s) (hb : ¬ BudgetOk cfg st) :
    execM₀ cfg (fuel+1) P locals base pc st = .err (.exceeded cfg.maxStatements) (tick st) := by
  rw [execM₀.eq_1, h]
  simp only [BudgetOk, Bool.not_eq_false] at hb
  simp only [hb, if_true, tick]

/-- a label is a no-op: execution continues with the next statement -/
theorem step_label (cfg : Config W) (fuel : Nat) (P : List Stmt) (locals base) (pc : Nat) (st : State W) (l : Name)
    (h : P[pc]? = some (.label l)) (hb : BudgetOk cfg st) :
    execM₀ cfg (fuel+1) P locals base pc st = execM₀ cfg fuel P locals base (pc+1) (tick st) := by
  rw [execM₀.eq_1, h]
  simp only [BudgetOk] at hb
  simp [hb, tick] <;> rfl

/-- **function_stmt_binds_global.** A function statement binds the *global* `name` to the function value — also when it
is executed inside a function body (`locals` untouched) — and continues with the next statement. -/
theorem function_stmt_binds_global (cfg : Config W) (fuel : Nat) (P : List Stmt) (locals base) (pc : Nat) (st : State W)
    (fid : Nat) (name : Name) (args : List Name) (laa isAsync : Bool) (body : List Stmt)
    (h : P[pc]? = some (.function fid name args laa isAsync body)) (hb : BudgetOk cfg st) :
    execM₀ cfg (fuel+1) P locals base pc st =
      execM₀ cfg fuel P locals base (pc+1)
        { (tick st) with globals := (tick st).globals.set name (.fn (.script fid)) } := by
  rw [execM₀.eq_1, h]
  simp only [BudgetOk] at hb
  simp [hb, tick] <;> rfl

/-- **return_ends_only_current** (part 1: the list). `return` ends the run of the *current* list at once, with `null` … -/
theorem step_return_none (cfg : Config W) (fuel : Nat) (P : List Stmt) (locals base) (pc : Nat) (st : State W)
    (h : P[pc]? = some (.ret none)) (hb : BudgetOk cfg st) :
    execM₀ cfg (fuel+1) P locals base pc st = .ret .null (tick st) := by
  rw [execM₀.eq_1, h]
  simp only [BudgetOk] at hb
  simp [hb, tick] <;> rfl

/-- … or with the value of its expression; the statements after it are not looked at -/
theorem step_return_some (cfg : Config W) (fuel : Nat) (P : List Stmt) (locals base) (pc : Nat) (st : State W) (e : Expr)
    (h : P[pc]? = some (.ret (some e))) (hb : BudgetOk cfg st) :
    execM₀ cfg (fuel+1) P locals base pc st =
      match evalExpr cfg (callValue₀ cfg fuel) locals e (tick st) with
      | .ok v st2 => .ret v st2
      | .err e st2 => .err e st2
      | .oof => .oof := by
  rw [execM₀.eq_1, h]
  simp only [BudgetOk] at hb
  simp [hb, tick] <;> rfl

/-- an unconditional jump continues after the first label of that name in the same list, or raises -/
theorem jump_taken (cfg : Config W) (fuel : Nat) (P : List Stmt) (locals base) (pc : Nat) (st : State W) (l : Name)
    (h : P[pc]? = some (.jump l none)) (hb : BudgetOk cfg st) :
    execM₀ cfg (fuel+1) P locals base pc st =
      match findLabel P l with
      | some i => execM₀ cfg fuel P locals base (i+1) (tick st)
      | none => .err (.unknownLabel l) (tick st) := by
  rw [execM₀.eq_1, h]
  simp only [BudgetOk] at hb
  simp [hb, tick] <;> rfl

/-- a conditional jump evaluates its condition once; truthy: as an unconditional jump; falsy: next statement -/
theorem jumpif_step (cfg : Config W) (fuel : Nat) (P : List Stmt) (locals base) (pc : Nat) (st : State W) (l : Name)
    (c : Expr) (h : P[pc]? = some (.jump l (some c))) (hb : BudgetOk cfg st) :
    execM₀ cfg (fuel+1) P locals base pc st =
      match evalExpr cfg (callValue₀ cfg fuel) locals c (tick st) with
      | .ok v st2 =>
          if cfg.host.truthy v st2.world then
            match findLabel P l with
            | some i => execM₀ cfg fuel P locals base (i+1) st2
            | none => .err (.unknownLabel l) st2
          else execM₀ cfg fuel P locals base (pc+1) st2
      | .err e st2 => .err e st2
      | .oof => .oof := by
  rw [execM₀.eq_1, h]
  simp only [BudgetOk] at hb
  simp [hb, tick] <;> rfl

/-- a taken jump to a label that does not occur in the same list is the `Unknown jump label` runtime error -/
theorem jump_unknown (cfg : Config W) (fuel : Nat) (P : List Stmt) (locals base) (pc : Nat) (st : State W) (l : Name)
    (h : P[pc]? = some (.jump l none)) (hb : BudgetOk cfg st) (hno : ∀ s ∈ P, isLabel l s = false) :
    execM₀ cfg (fuel+1) P locals base pc st = .err (.unknownLabel l) (tick st) := by
  rw [jump_taken cfg fuel P locals base pc st l h hb, (unknown_label_iff P l).2 hno]

/-- a taken jump to an existing label continues after its FIRST occurrence -/
theorem jump_known (cfg : Config W) (fuel : Nat) (A B : List Stmt) (locals base) (pc : Nat) (st : State W) (l : Name)
    (h : (A ++ .label l :: B)[pc]? = some (.jump l none)) (hb : BudgetOk cfg st) (hA : ∀ s ∈ A, isLabel l s = false) :
    execM₀ cfg (fuel+1) (A ++ .label l :: B) locals base pc st =
      execM₀ cfg fuel (A ++ .label l :: B) locals base (A.length + 1) (tick st) := by
  rw [jump_taken cfg fuel _ locals base pc st l h hb, first_label_wins A B l hA]

/-- an expression statement without a name: evaluate for its effects, continue with the next statement -/
theorem step_expr (cfg : Config W) (fuel : Nat) (P : List Stmt) (locals base) (pc : Nat) (st : State W)
    (e : Expr) (h : P[pc]? = some (.expr none e)) (hb : BudgetOk cfg st) :
    execM₀ cfg (fuel+1) P locals base pc st =
      match evalExpr cfg (callValue₀ cfg fuel) locals e (tick st) with
      | .ok _ st2 => execM₀ cfg fuel P locals base (pc+1) st2
      | .err e st2 => .err e st2
      | .oof => .oof := by
  rw [execM₀.eq_1, h]
  simp only [BudgetOk] at hb
  simp [hb, tick] <;> rfl

/-- an assignment at top level (no local scope) writes the global -/
theorem step_assign_global (cfg : Config W) (fuel : Nat) (P : List Stmt) (base) (pc : Nat) (st : State W)
    (n : Name) (e : Expr) (h : P[pc]? = some (.expr (some n) e)) (hb : BudgetOk cfg st) :
    execM₀ cfg (fuel+1) P none base pc st =
      match evalExpr cfg (callValue₀ cfg fuel) none e (tick st) with
      | .ok v st2 => execM₀ cfg fuel P none base (pc+1) { st2 with globals := st2.globals.set n v }
      | .err e st2 => .err e st2
      | .oof => .oof := by
  rw [execM₀.eq_1, h]
  simp only [BudgetOk] at hb
  simp [hb, tick] <;> rfl

/-- an assignment inside a function body writes the local scope; the globals are untouched by the assignment itself -/
theorem step_assign_local (cfg : Config W) (fuel : Nat) (P : List Stmt) (l : Env) (base) (pc : Nat) (st : State W)
    (n : Name) (e : Expr) (h : P[pc]? = some (.expr (some n) e)) (hb : BudgetOk cfg st) :
    execM₀ cfg (fuel+1) P (some l) base pc st =
      match evalExpr cfg (callValue₀ cfg fuel) (some l) e (tick st) with
      | .ok v st2 => execM₀ cfg fuel P (some (l.set n v)) base (pc+1) st2
      | .err e st2 => .err e st2
      | .oof => .oof := by
  rw [execM₀.eq_1, h]
  simp only [BudgetOk] at hb
  simp [hb, tick] <;> rfl

/-! ## scopes: function bodies and their callers -/

/-- **jumps_stay_in_scope.** Calling the script function `id` runs *its own* statement list `fd.body` from index 0 on the
documented semantics — labels are looked up with `findLabel fd.body` only.  The caller's statement list is not an
argument of `callValue`: the call depends on the program only through the function table entry `cfg.funs id`. -/
theorem jumps_stay_in_scope (cfg : Config W) (fuel : Nat) (id : FnId) (fd : FuncDef) (h : cfg.funs id = some fd)
    (args : List Value) (st : State W) :
    callValue cfg (fuel+1) (.fn (.script id)) args st =
      match execM₀ cfg fuel fd.body (some (bindArgs cfg.host fd.lastArgArray fd.args args [] st.world).1) none 0
              { st with world := (bindArgs cfg.host fd.lastArgArray fd.args args [] st.world).2 } with
      | .done st' => .ok .null st'
      | .ret v st' => .ok v st'
      | .err e st' => .err e st'
      | .oof => .oof := by
  rw [callValue_eq, callValue₀.eq_2, h]
  rfl

/-- **return_ends_only_current** (part 2: the caller goes on). A `return v` inside a function body ends that body; the
call expression evaluates to `v` (`Out.ok`, not a `Res.ret` of the caller) and the caller continues. -/
theorem return_ends_only_current (cfg : Config W) (fuel : Nat) (id : FnId) (fd : FuncDef) (h : cfg.funs id = some fd)
    (args : List Value) (st st' : State W) (v : Value)
    (hret : execM₀ cfg fuel fd.body (some (bindArgs cfg.host fd.lastArgArray fd.args args [] st.world).1) none 0
              { st with world := (bindArgs cfg.host fd.lastArgArray fd.args args [] st.world).2 } = .ret v st') :
    callValue cfg (fuel+1) (.fn (.script id)) args st = .ok v st' := by
  rw [jumps_stay_in_scope cfg fuel id fd h, hret]

/-- a `return` inside an included script ends only the included script: the next include entry (and then the
including script) goes on -/
theorem return_in_include_ends_only_include (cfg : Config W) (fuel : Nat) (base : Option String) (inc : IncludeScript)
    (rest : List IncludeScript) (st st' : State W) (stmts : List Stmt) (v : Value)
    (hf : cfg.fetch (cfg.resolve base inc) = .script stmts)
    (hret : execM₀ cfg fuel stmts none (some (cfg.resolve base inc)) 0 st = .ret v st') :
    execIncludes₀ cfg (fuel+1) base (inc :: rest) st = execIncludes₀ cfg fuel base rest st' := by
  rw [execIncludes₀.eq_2]
  simp only [hf, hret]

/-- A statement's outcome does not depend on which list it sits in, except for jumps: two lists that hold the same
`return e` statement (at any indices) give the same result — whatever functions `e` calls, they cannot reach the
caller's list. -/
theorem callee_independent_of_caller_list (cfg : Config W) (fuel : Nat) (P P' : List Stmt) (locals base base')
    (pc pc' : Nat) (st : State W) (e : Expr) (h : P[pc]? = some (.ret (some e))) (h' : P'[pc']? = some (.ret (some e))) :
    execM₀ cfg fuel P locals base pc st = execM₀ cfg fuel P' locals base' pc' st := by
  rw [execM₀.eq_1, execM₀.eq_1 cfg fuel P', h, h']

/-- **exec_deterministic.** In Lean this is immediate — `execute` is a function of (config, fuel, model, base, state) and
the model `P` is an immutable value, so running it again from an equal state gives an equal result.  The Python-side
content (the model dicts are not mutated; two runs with equal fresh globals agree) is an oracle of harness/props/C08.py. -/
theorem exec_deterministic (cfg : Config W) (fuel : Nat) (P : List Stmt) (base : Option String) (st st' : State W)
    (h : st = st') : execute cfg fuel P base st = execute cfg fuel P base st' := by rw [h]


/-! ## non-vacuity: concrete programs on the concrete host of the driver -/

section Examples
open HostImpl

/-- what a test observes of a run -/
structure Obs where
  kind : String
  err : Option RtErr
  val : Option Value
  count : Nat
  log : List String
  globals : Env
deriving DecidableEq, Repr

def obs : Res World → Obs
  | .done st => ⟨"done", none, none, st.count, st.world.log, st.globals⟩
  | .ret v st => ⟨"ret", none, some v, st.count, st.world.log, st.globals⟩
  | .err e st => ⟨"err", some e, none, st.count, st.world.log, st.globals⟩
  | .oof => ⟨"oof", none, none, 0, [], []⟩

def xcfg (funs : List (Nat × FuncDef)) (max : Nat := 0) : Config World :=
  { host := host, funs := fun id => (funs.find? (·.1 == id)).map (·.2), maxStatements := max }

def g0 : State World := { globals := [(.user "systemLog", .fn (.lib "systemLog"))], world := {}, count := 0 }

def L1 : Name := .user "L1"
def L2 : Name := .user "L2"
def logS (s : String) : Stmt := .expr none (.function (.user "systemLog") [.string s])

/-- duplicate labels: the first wins.  `jump L1; log a; L1:; log b; L1:; log c` logs b, c (not just c). -/
example : (obs (execute (xcfg []) 20 [.jump L1 none, logS "a", .label L1, logS "b", .label L1, logS "c"] none g0)).log
    = ["b", "c"] := by decide

/-- … and the cached second jump goes to the same (first) label: a loop around two `L1` labels -/
example : obs (execute (xcfg []) 40
      [.expr (some (.user "x")) (.number 3), .label L1, logS "b", .label L1,
       .expr (some (.user "x")) (.binary .sub (.variable (.user "x")) (.number 1)),
       .jump L1 (some (.variable (.user "x")))] none g0)
    = ⟨"done", none, none, 14, ["b", "b", "b"], g0.globals ++ [(.user "x", .num 0)]⟩ := by decide +kernel

/-- unknown label: the error, raised when (and only when) the jump is taken -/
example : obs (execute (xcfg []) 20 [logS "a", .jump L2 none, .label L1] none g0)
    = ⟨"err", some (.unknownLabel L2), none, 2, ["a"], g0.globals⟩ := by decide

example : (obs (execute (xcfg []) 20 [.jump L2 (some (.variable (.user "false"))), .label L1, logS "a"] none g0)).log
    = ["a"] := by decide

def fBody : List Stmt := [.label L1, logS "in f", .ret (some (.number 7)), logS "dead"]
def fDef : FuncDef := { name := .user "f", args := [], lastArgArray := false, body := fBody }

/-- **label_in_function_not_visible**: a global jump to a label defined only inside a function body errs … -/
example : obs (execute (xcfg [(0, fDef)]) 20 [.function 0 (.user "f") [] false false fBody, .jump L1 none] none g0)
    = ⟨"err", some (.unknownLabel L1), none, 2, [], g0.globals ++ [(.user "f", .fn (.script 0))]⟩ := by decide

/-- … and a jump inside the body cannot reach a label of the caller (the body has no `L2`) -/
example : (obs (execute (xcfg [(0, { fDef with body := [.jump L2 none] })]) 20
      [.function 0 (.user "f") [] false false [.jump L2 none], .label L2,
       .expr none (.function (.user "f") [])] none g0)).err
    = some (.unknownLabel L2) := by decide

/-- return ends only the function: the caller logs the returned value and goes on -/
example : obs (execute (xcfg [(0, fDef)]) 20
      [.function 0 (.user "f") [] false false fBody,
       .expr (some (.user "r")) (.function (.user "f") []), logS "after", .ret (some (.variable (.user "r"))), logS "dead"]
      none g0)
    = ⟨"ret", none, some (.num 7), 7, ["in f", "after"],
       g0.globals ++ [(.user "f", .fn (.script 0)), (.user "r", .num 7)]⟩ := by decide

/-- the hypotheses of the one-step lemmas are inhabited -/
example : BudgetOk (xcfg [] 5) g0 := by unfold BudgetOk; decide
example : ¬ BudgetOk (xcfg [] 5) { g0 with count := 5 } := by unfold BudgetOk; decide
example : CacheValid [.jump L1 none, .label L2, .label L1, .label L1] [(L1, 2), (L2, 1)] := by
  intro l i h
  simp at h
  rcases h with ⟨rfl, rfl⟩ | ⟨rfl, rfl⟩ <;> decide
example : ¬ CacheValid [.label L1, .label L1] [(L1, 1)] := by
  intro h
  have := h L1 1 (by simp)
  revert this
  decide

end Examples

end C08
