import BareProofs.C20Lemmas

/-!
# C20 — `diffLines` from the shipped include library reconstructs both inputs

The model is `BareModel.Diff` (a hand translation of the loops of `include/diff.bare`, including the `while`+`continue`
behaviour of this code base, finding F7).  Property theorems, for ALL line lists (any length, any line type with decidable
equality — `String` in the driver):

* `diffLoop_some`, `fuel_irrelevant`   the fuelled main loop never runs out of fuel and never passes `arraySlice` an index
                                        out of range; every fuel `≥ |L| + |R| + 1` gives the same result
* `diff_left`                           the lines of the `Identical` and `Remove` blocks, in order, are the left lines
* `diff_right`                          the lines of the `Identical` and `Add` blocks, in order, are the right lines
* `diff_blocks_nonempty`                no block has an empty line list
* `diff_identical_inputs`               equal line lists give `[]` (both empty) or the single block `Identical L`;
  `diff_identical_only_identical`, `diff_empty`  the two readings the property states
* `diffInputs_left/right/nonempty/identical`  the same for the script-level arguments (a string split on `\r?\n`, or an
                                        array whose parts are split and concatenated)
* `splitLines_ne_nil`, `lines_of_line_array`  a string always has at least one line; an array of LF-free strings is its own
                                        line list

The finite fact "every shipped include script parses, validates and is lint-clean" is `C20.includes_parse_validate_lintclean`
in `BareProofs/C20Includes.lean` (a module of its own, so that a lint warning in some include does not take the `diffLines`
theorems down with it).
-/

namespace C20
open Diff

set_option linter.unusedSectionVars false

variable {α : Type} [DecidableEq α]

/-! ## fuel -/

/-- **Fuel sufficiency.** With any fuel `≥ |L| + |R| + 1` the main loop ends (`some`), and the result is the one
`diffLines` returns: it does not depend on the fuel. (`none` would also cover an `arraySlice` index out of range.) -/
theorem fuel_irrelevant (L R : List α) (f : Nat) (hf : L.length + R.length + 1 ≤ f) :
    outer L R f true 0 0 = some (diffLines L R) := by
  have hs := outer_isSome L R (L.length + R.length + 1) true 0 0 (Nat.zero_le _) (Nat.zero_le _) (by omega)
  obtain ⟨bs, hbs⟩ := Option.isSome_iff_exists.mp hs
  have h1 := outer_mono_le L R hf true 0 0 bs (Nat.zero_le _) (Nat.zero_le _) hbs
  have h2 := outer_mono_le L R (show L.length + R.length + 1 ≤ fuelFor L R by simp [fuelFor])
    true 0 0 bs (Nat.zero_le _) (Nat.zero_le _) hbs
  simp [diffLines, diffLoop, h1, h2]

example : outer [1, 2, 3] [1, 3, 4] 7 true 0 0 = some (diffLines [1, 2, 3] [1, 3, 4]) := by decide
/-- fuel matters below the bound: this input needs three passes, with two the model is stuck -/
example : outer [1, 2] [3, 1] 2 true 0 0 = none ∧ (outer [1, 2] [3, 1] 3 true 0 0).isSome := by decide

/-- **The model never runs out of fuel** (and never fails in `arraySlice`): the `[]` fallback of `diffLines` is dead. -/
theorem diffLoop_some (L R : List α) : diffLoop L R = some (diffLines L R) :=
  fuel_irrelevant L R (fuelFor L R) (by simp [fuelFor])

example : diffLoop ["a", "b"] ["b", "c"] =
    some [⟨.remove, ["a"]⟩, ⟨.identical, ["b"]⟩, ⟨.add, ["c"]⟩] := by decide

/-! ## reconstruction -/

theorem diff_spec (L R : List α) :
    leftOf (diffLines L R) = L ∧ rightOf (diffLines L R) = R ∧ ∀ b ∈ diffLines L R, b.lines ≠ [] := by
  have h := outer_spec L R _ true 0 0 _ (Nat.zero_le _) (Nat.zero_le _) (diffLoop_some L R)
  simpa using h

/-- **Left reconstruction**: concatenating the `Identical` and `Remove` blocks in order gives exactly the left lines. -/
theorem diff_left (L R : List α) : leftOf (diffLines L R) = L := (diff_spec L R).1

example : leftOf (diffLines ["a", "b", "a"] ["b", "a", "b", "c"]) = ["a", "b", "a"]
    ∧ diffLines ["a", "b", "a"] ["b", "a", "b", "c"]
      = [⟨.add, ["b"]⟩, ⟨.identical, ["a", "b"]⟩, ⟨.remove, ["a"]⟩, ⟨.add, ["c"]⟩] := by decide

/-- **Right reconstruction**: concatenating the `Identical` and `Add` blocks in order gives exactly the right lines. -/
theorem diff_right (L R : List α) : rightOf (diffLines L R) = R := (diff_spec L R).2.1

example : rightOf (diffLines ["a", "b", "a"] ["b", "a", "b", "c"]) = ["b", "a", "b", "c"] := by decide

/-- **No empty block.** -/
theorem diff_blocks_nonempty (L R : List α) : ∀ b ∈ diffLines L R, b.lines ≠ [] := (diff_spec L R).2.2

example : (diffLines ["x"] ["y", "z"]).map (·.lines.length) = [1, 2] := by decide

/-! ## identical inputs -/

/-- **Identical inputs**: nothing for two empty inputs, otherwise the single block `Identical L`. -/
theorem diff_identical_inputs (L : List α) :
    diffLines L L = if L = [] then [] else [⟨.identical, L⟩] := by
  cases L with
  | nil => simp [diffLines, diffLoop, fuelFor, outer]
  | cons x xs =>
    have h0 : (0 : Nat) < (x :: xs).length := by simp
    have hb : diffLoop (x :: xs) (x :: xs) = some [⟨.identical, x :: xs⟩] := by
      unfold diffLoop fuelFor
      rw [outer_body _ _ _ true 0 0 h0 h0]
      simp only [bodyStep, List.drop_zero, commonLen_self, h0, if_true, Nat.zero_add]
      rw [outer_left_done _ _ _ false _ _ (Nat.le_refl _) (Nat.le_refl _)]
      simp
    simp [diffLines, hb]

example : diffLines ["a", "b"] ["a", "b"] = [⟨.identical, ["a", "b"]⟩] := by decide

/-- equal inputs never yield an `Add` or `Remove` block -/
theorem diff_identical_only_identical (L : List α) : ∀ b ∈ diffLines L L, b.kind = .identical := by
  rw [diff_identical_inputs]
  split <;> simp

/-- two empty inputs yield no block at all -/
theorem diff_empty : diffLines ([] : List α) [] = [] := by
  simpa using diff_identical_inputs ([] : List α)

example : diffLines ([] : List String) [] = [] := by decide
/-- … whereas an empty *string* is one empty line: -/
example : diffInputs (.text "") (.text "") = [⟨.identical, [""]⟩] := by decide

/-! ## script-level arguments: strings and arrays of strings -/

theorem splitGo_ne_nil (cur cs : List Char) : splitGo cur cs ≠ [] := by
  induction cs generalizing cur with
  | nil => simp [splitGo]
  | cons c cs ih =>
    simp only [splitGo]
    split
    · simp
    · exact ih _

/-- `regexSplit` of a string has at least one element (the empty string is one empty line) -/
theorem splitLines_ne_nil (s : String) : splitLines s ≠ [] := splitGo_ne_nil _ _

theorem splitGo_no_lf (cur cs : List Char) (h : '\n' ∉ cs) : splitGo cur cs = [String.ofList (cur.reverse ++ cs)] := by
  induction cs generalizing cur with
  | nil => simp [splitGo]
  | cons c cs ih =>
    simp only [List.mem_cons, not_or] at h
    have hc : c ≠ '\n' := fun e => h.1 e.symm
    simp only [splitGo, hc, if_false]
    rw [ih _ h.2]
    simp

theorem splitLines_no_lf (s : String) (h : '\n' ∉ s.toList) : splitLines s = [s] := by
  simp [splitLines, splitGo_no_lf [] s.toList h, String.ofList_toList]

/-- an array of strings none of which contains a line feed is its own line list -/
theorem lines_of_line_array (ps : List String) (h : ∀ p ∈ ps, '\n' ∉ p.toList) : (Input.parts ps).lines = ps := by
  induction ps with
  | nil => rfl
  | cons p ps ih =>
    have h1 := splitLines_no_lf p (h p (by simp))
    have h2 := ih (fun q hq => h q (by simp [hq]))
    simp only [Input.lines, List.flatMap_cons] at h2 ⊢
    rw [h1, h2]; rfl

example : (Input.parts ["a", "b\r\nc", ""]).lines = ["a", "b", "c", ""]
    ∧ (Input.text "a\r\nb\nc\r").lines = ["a", "b", "c\r"] := by decide

/-- left reconstruction for script-level arguments -/
theorem diffInputs_left (l r : Input) : leftOf (diffInputs l r) = l.lines := diff_left _ _

/-- right reconstruction for script-level arguments -/
theorem diffInputs_right (l r : Input) : rightOf (diffInputs l r) = r.lines := diff_right _ _

theorem diffInputs_nonempty (l r : Input) : ∀ b ∈ diffInputs l r, b.lines ≠ [] := diff_blocks_nonempty _ _

/-- inputs with the same lines (e.g. the same text once with LF and once with CRLF endings, or as an array of chunks)
yield `Identical` blocks only -/
theorem diffInputs_identical (l r : Input) (h : l.lines = r.lines) : ∀ b ∈ diffInputs l r, b.kind = .identical := by
  unfold diffInputs; rw [h]; exact diff_identical_only_identical _

example : (Input.text "a\nb").lines = (Input.parts ["a\r\nb"]).lines
    ∧ diffInputs (.text "a\nb") (.parts ["a\r\nb"]) = [⟨.identical, ["a", "b"]⟩] := by decide

end C20
