import BareProofs.C06Regex6
import BareProofs.C06Regex7Lemmas

/-!
# C06Regex7 — the expression token scanners of `ExprScan` ARE the `_R_EXPR_*` patterns; `parse_expression` is regex driven

For each token scanner: `scanner t = parser.py's reading of (Rx.matchAt <pinned AST> t)`, for ALL texts `t` (these patterns use
neither `.` nor `$`: a `'\n'` is an ordinary `\s` character, no side condition).
-/

namespace C06Regex
open Rx Text RxPatterns

/-! ## operators -/

theorem firstAlt_spec {α : Type} : ∀ (L : List (List Char × α)) (t r : List Char) (a : α),
    ExprScan.firstAlt L t = some (a, r) → ∃ p, (p, a) ∈ L ∧ t = p ++ r
  | [], t, r, a, h => by simp [ExprScan.firstAlt] at h
  | (p, b) :: rest, t, r, a, h => by
    rw [ExprScan.firstAlt] at h
    cases hs : ExprScan.stripPrefix? p t with
    | some r' =>
      rw [hs] at h
      simp only [Option.some.injEq, Prod.mk.injEq] at h
      obtain ⟨rfl, rfl⟩ := h
      exact ⟨p, by simp, stripPrefix_eq hs⟩
    | none =>
      rw [hs] at h
      obtain ⟨p', h1, h2⟩ := firstAlt_spec rest t r a h
      exact ⟨p', List.mem_cons_of_mem _ h1, h2⟩

/-- does every alternative start with a non-blank? -/
def headsNonSpace {α : Type} (L : List (List Char × α)) : Bool :=
  L.all fun x => match x.1 with | y :: _ => !isSpace y | [] => false

theorem firstAlt_space {α : Type} : ∀ (L : List (List Char × α)), headsNonSpace L = true → ∀ (c : Char) (r : List Char),
    isSpace c = true → ExprScan.firstAlt L (c :: r) = none
  | [], _, c, r, _ => rfl
  | (p, a) :: rest, h, c, r, hc => by
    simp only [headsNonSpace, List.all_cons, Bool.and_eq_true] at h
    rw [ExprScan.firstAlt]
    cases p with
    | nil => simp at h
    | cons y ys =>
      have hy : ¬ y = c := fun e => by
        have := h.1; simp only [] at this; rw [e, hc] at this; simp at this
      simp only [ExprScan.stripPrefix?, hy, if_false]
      exact firstAlt_space rest h.2 c r hc

/-- **operator tokens** `^\s*(alt₁|alt₂|…)` of literal alternatives: `ExprScan.firstAlt` on the text without its leading blanks
= the engine on the AST + `match.group(1)` read through `read` -/
theorem opToken {α : Type} (a0 : (Bool × Char) × List (Bool × Char) × α) (rest : List ((Bool × Char) × List (Bool × Char) × α))
    (read : Chars → Option α) (hread : ∀ x ∈ plainAlts (a0 :: rest), read x.1 = some x.2)
    (hns : headsNonSpace (plainAlts (a0 :: rest)) = true) (t : Chars) :
    ExprScan.firstAlt (plainAlts (a0 :: rest)) (ExprScan.skipWs t) =
      ((Rx.bol ⬝ ws ⬝ Rx.cap 1 none (altsLit a0 rest)).m ⟨0, t, []⟩ some).bind fun st =>
        (st.group t 1).bind fun g => (read g).map (·, st.rest) := by
  have hk : ∀ (p : Nat) (s : St), ((fun st' : St => some (⟨st'.pos, st'.rest, (1, p, st'.pos) :: st'.caps⟩ : St)) s).isSome = true :=
    fun _ _ => rfl
  rw [skipWs_eq, lead]
  · rw [cap_m, altsLit_m _ (hk _)]
    simp only []
    cases hf : ExprScan.firstAlt (plainAlts (a0 :: rest)) (lstripL t) with
    | none => rfl
    | some ar =>
      obtain ⟨a, r⟩ := ar
      obtain ⟨p, hp, e⟩ := firstAlt_spec _ _ _ _ hf
      have hl := congrArg List.length e
      simp only [List.length_append] at hl
      have hg : slice t ((t.takeWhile isSpace).length, (t.takeWhile isSpace).length + ((lstripL t).length - r.length)) = p :=
        slice_prefix t _ _ p r (by rw [drop_ind]; exact e) (by omega)
      simp [St.group, St.span, List.lookup, hg, hread (p, a) hp]
  · intro st ⟨c, r, hr, hc⟩
    show (Rx.cap 1 none (altsLit a0 rest)).m st some = none
    rw [cap_m, altsLit_m _ (hk _), hr, firstAlt_space _ hns c r hc]

def binOpLits : ((Bool × Char) × List (Bool × Char) × BinOp) × List ((Bool × Char) × List (Bool × Char) × BinOp) :=
  (((true, '*'), [(true, '*')], .pow),
   [((true, '*'), [], .mul), ((true, '/'), [], .div), ((false, '%'), [], .mod), ((true, '+'), [], .add), ((false, '-'), [], .sub),
    ((false, '<'), [(false, '=')], .le), ((false, '<'), [], .lt), ((false, '>'), [(false, '=')], .ge), ((false, '>'), [], .gt),
    ((false, '='), [(false, '=')], .eq), ((false, '!'), [(false, '=')], .ne), ((false, '&'), [(false, '&')], .and),
    ((true, '|'), [(true, '|')], .or)])

def unOpLits : ((Bool × Char) × List (Bool × Char) × UnOp) × List ((Bool × Char) × List (Bool × Char) × UnOp) :=
  (((false, '!'), [], .not), [((false, '-'), [], .neg)])

/-- `UnOp` of its text -/
def unOpOfText (g : Chars) : Option UnOp := [UnOp.not, UnOp.neg].find? (fun o => o.text == String.ofList g)

/-- `_R_EXPR_BINARY_OP.match(text)`: `group(1)` → operator, `text[len(group(0)):]` -/
def rxScanBinOp (t : Chars) : Option (BinOp × Chars) :=
  (matchAt exprBinaryOp t).bind fun st => (st.group t 1).bind fun g => (BinOp.ofText (String.ofList g)).map (·, st.rest)

/-- `_R_EXPR_UNARY_OP.match(text)` -/
def rxScanUnaryOp (t : Chars) : Option (UnOp × Chars) :=
  (matchAt exprUnaryOp t).bind fun st => (st.group t 1).bind fun g => (unOpOfText g).map (·, st.rest)

/-- **`_R_EXPR_BINARY_OP`** `^\s*(\*\*|\*|\/|%|\+|-|<=|<|>=|>|==|!=|&&|\|\|)` -/
theorem binOp_regex (t : Chars) : ExprScan.scanBinOp t = rxScanBinOp t := by
  have hast : exprBinaryOp = Rx.bol ⬝ ws ⬝ Rx.cap 1 none (altsLit binOpLits.1 binOpLits.2) := rfl
  have hplain : plainAlts (binOpLits.1 :: binOpLits.2) = ExprScan.binOpAlts := rfl
  unfold ExprScan.scanBinOp rxScanBinOp matchAt matchFrom
  rw [hast, ← hplain]
  exact opToken _ _ (fun g => BinOp.ofText (String.ofList g)) (by decide +kernel) (by decide +kernel) t

/-- **`_R_EXPR_UNARY_OP`** `^\s*(!|-)` -/
theorem unaryOp_regex (t : Chars) : ExprScan.scanUnaryOp t = rxScanUnaryOp t := by
  have hast : exprUnaryOp = Rx.bol ⬝ ws ⬝ Rx.cap 1 none (altsLit unOpLits.1 unOpLits.2) := rfl
  have hplain : plainAlts (unOpLits.1 :: unOpLits.2) = ExprScan.unOpAlts := rfl
  unfold ExprScan.scanUnaryOp rxScanUnaryOp matchAt matchFrom
  rw [hast, ← hplain]
  exact opToken _ _ unOpOfText (by decide +kernel) (by decide +kernel) t

/-! ## single-character tokens -/

/-- `^\s*c` for a non-blank literal: rest of the text -/
theorem charToken (e : Bool) (c : Char) (hc : isSpace c = false) (t : Chars) :
    ExprScan.scanChar c t = ((Rx.bol ⬝ ws ⬝ Rx.one (.lit e c)).m ⟨0, t, []⟩ some).map (·.rest) := by
  unfold ExprScan.scanChar
  rw [skipWs_eq, lead]
  · rw [one_m', step_lit]
    cases lstripL t with
    | nil => rfl
    | cons x r => by_cases hx : x = c <;> simp [hx]
  · intro st ⟨x, r, hr, hx⟩
    have : ¬ x = c := fun e' => by rw [e', hc] at hx; exact Bool.noConfusion hx
    simp [one_m', step_lit, hr, this]

def rxScanGroupOpen (t : Chars) : Option Chars := (matchAt exprGroupOpen t).map (·.rest)
def rxScanClose (t : Chars) : Option Chars := (matchAt exprClose t).map (·.rest)
def rxScanComma (t : Chars) : Option Chars := (matchAt exprFunctionSeparator t).map (·.rest)

/-- **`_R_EXPR_GROUP_OPEN`** `^\s*\(` -/
theorem groupOpen_regex (t : Chars) : ExprScan.scanGroupOpen t = rxScanGroupOpen t :=
  charToken true '(' (by decide) t
/-- **`_R_EXPR_GROUP_CLOSE` / `_R_EXPR_FUNCTION_CLOSE`** `^\s*\)` -/
theorem close_regex (t : Chars) : ExprScan.scanClose t = rxScanClose t := charToken true ')' (by decide) t
/-- **`_R_EXPR_FUNCTION_SEPARATOR`** `^\s*,` -/
theorem comma_regex (t : Chars) : ExprScan.scanComma t = rxScanComma t := charToken false ',' (by decide) t

/-! ## identifiers -/

def rxScanVariable (t : Chars) : Option (Chars × Chars) :=
  (matchAt exprVariable t).bind fun st => (st.group t 1).map (·, st.rest)

def rxScanFuncOpen (t : Chars) : Option (Chars × Chars) :=
  (matchAt exprFunctionOpen t).bind fun st => (st.group t 1).map (·, st.rest)

/-- **`_R_EXPR_VARIABLE`** `^\s*([A-Za-z_]\w*)` -/
theorem variable_regex (t : Chars) : ExprScan.scanVariable t = rxScanVariable t := by
  unfold ExprScan.scanVariable rxScanVariable matchAt matchFrom exprVariable
  rw [skipWs_eq, lead _ _ _ (rejects_cap_ident' isSpace (fun x => space_not_idStart) _ _ _), cap_m,
    ident_first _ _ (fun _ => rfl), exIdStart_eq, exIsWord_eq]
  cases hs : lstripL t with
  | nil => simp [Scan.ident?]
  | cons c r =>
    by_cases hc : isIdStart c = true
    · have hi : Scan.ident? (c :: r) = some (c :: r.takeWhile isWord, r.dropWhile isWord) := by simp [Scan.ident?, hc]
      have hg := slice_prefix t (t.takeWhile isSpace).length _ (c :: r.takeWhile isWord) (r.dropWhile isWord)
        (by rw [drop_ind, hs]; simp) rfl
      simp only [List.length_cons] at hg
      simp [hi, hc, St.group, St.span, List.lookup, hg]
    · simp [Scan.ident?, hc]

/-- **`_R_EXPR_FUNCTION_OPEN`** `^\s*([A-Za-z_]\w*)\s*\(` -/
theorem funcOpen_regex (t : Chars) : ExprScan.scanFuncOpen t = rxScanFuncOpen t := by
  unfold ExprScan.scanFuncOpen rxScanFuncOpen matchAt matchFrom exprFunctionOpen elit
  rw [skipWs_eq, lead _ _ _ (rejects_cap_ident isSpace (fun x => space_not_idStart) _ _ _ _), seq_m,
    cap_ident_det _ _ _ _ (rejects_ws_lit_end isWord true '(' word_lparen _), exIdStart_eq, exIsWord_eq]
  cases hs : lstripL t with
  | nil => simp [Scan.ident?]
  | cons c r =>
    by_cases hc : isIdStart c = true
    · have hi : Scan.ident? (c :: r) = some (c :: r.takeWhile isWord, r.dropWhile isWord) := by simp [Scan.ident?, hc]
      have hg := slice_prefix t (t.takeWhile isSpace).length _ (c :: r.takeWhile isWord) (r.dropWhile isWord)
        (by rw [drop_ind, hs]; simp) rfl
      simp only [List.length_cons] at hg
      simp only [hi, hc, if_true]
      rw [ws_lit_end true '(' (by decide), skipWs_eq]
      simp only []
      cases lstripL (r.dropWhile isWord) with
      | nil => rfl
      | cons d r2 =>
        by_cases hd : d = '('
        · simp [hd, St.group, St.span, List.lookup, hg]
        · simp [hd]
    · simp [Scan.ident?, hc]

/-! ## the expression parser, parametric in its token scanners -/

/-- the token scanners `ExprParse` calls -/
structure Scanners where
  binOp : Chars → Option (BinOp × Chars)
  unaryOp : Chars → Option (UnOp × Chars)
  groupOpen : Chars → Option Chars
  close : Chars → Option Chars
  comma : Chars → Option Chars
  funcOpen : Chars → Option (Chars × Chars)
  number : Chars → Option (Rat × Chars)
  string : Char → Chars → Option (Chars × Chars)
  var : Chars → Option (Chars × Chars)
  varEx : Chars → Option (Chars × Chars)

open ExprParse in
/-- `ExprParse.chainLoop` (the text of `ExprParse.lean`) over `S` -/
def chainLoopW (S : Scanners) (pu : List Char → Res (Expr × List Char)) : Nat → Expr → List Char → Res (Expr × List Char)
  | 0, l, t =>
    match S.binOp t with
    | none => .ok (l, t)
    | some _ => .error (fuelMsg, t)
  | n + 1, l, t =>
    match S.binOp t with
    | none => .ok (l, t)
    | some (op, rt) =>
      match pu rt with
      | .error e => .error e
      | .ok (r, nt) => chainLoopW S pu n (insR l op r) nt

open ExprParse in
def binaryWithW (S : Scanners) (pu : List Char → Res (Expr × List Char)) (n : Nat) (text : List Char) : Res (Expr × List Char) :=
  match pu text with
  | .error e => .error e
  | .ok (l, t) => chainLoopW S pu n l t

open ExprParse in
def argsLoopW (S : Scanners) (pb : List Char → Res (Expr × List Char)) : Nat → List Expr → List Char → Res (List Expr × List Char)
  | 0, _, t => .error (fuelMsg, t)
  | n + 1, args, t =>
    match S.close t with
    | some r => .ok (args, r)
    | none =>
      match (if args.isEmpty then some t else S.comma t) with
      | none => .error ("Syntax error", t)
      | some t1 =>
        match pb t1 with
        | .error e => .error e
        | .ok (a, nt) => argsLoopW S pb n (args ++ [a]) nt

open ExprParse in
def parseAtomW (S : Scanners) (text : List Char) : Res (Expr × List Char) :=
  match S.number text with
  | some (q, r) => .ok (.number q, r)
  | none =>
  match S.string '\'' text with
  | some (s, r) => .ok (.string (String.ofList s), r)
  | none =>
  match S.string '"' text with
  | some (s, r) => .ok (.string (String.ofList s), r)
  | none =>
  match S.var text with
  | some (n, r) => .ok (.variable (Name.ofString (String.ofList n)), r)
  | none =>
  match S.varEx text with
  | some (n, r) => .ok (.variable (Name.ofString (String.ofList n)), r)
  | none => .error ("Syntax error", text)

open ExprParse in
def parseUnaryW (S : Scanners) : Nat → List Char → Res (Expr × List Char)
  | 0, text =>
    if (S.groupOpen text).isSome || (S.unaryOp text).isSome || (S.funcOpen text).isSome then .error (fuelMsg, text)
    else parseAtomW S text
  | fuel + 1, text =>
    match S.groupOpen text with
    | some gt =>
      match binaryWithW S (parseUnaryW S fuel) fuel gt with
      | .error e => .error e
      | .ok (e, nt) =>
        match S.close nt with
        | none => .error ("Unmatched parenthesis", text)
        | some r => .ok (.group e, r)
    | none =>
    match S.unaryOp text with
    | some (op, ut) =>
      match parseUnaryW S fuel ut with
      | .error e => .error e
      | .ok (e, nt) => .ok (.unary op e, nt)
    | none =>
    match S.funcOpen text with
    | some (name, argText) =>
      match argsLoopW S (binaryWithW S (parseUnaryW S fuel) fuel) fuel [] argText with
      | .error e => .error e
      | .ok (args, r) => .ok (.function (Name.ofString (String.ofList name)) args, r)
    | none => parseAtomW S text

open ExprParse in
/-- `ExprParse.parseExprL` over `S` (the final `next_text.strip()` test is not a regex and stays) -/
def parseExprLW (S : Scanners) (cs : List Char) : Except ParseErr Expr :=
  match binaryWithW S (parseUnaryW S cs.length) cs.length cs with
  | .ok (e, nt) => if (ExprScan.skipWs nt).isEmpty then .ok e else .error ⟨"Syntax error", cs.length - nt.length + 1⟩
  | .error (msg, line) => .error ⟨msg, cs.length - line.length + 1⟩

/-- the hand-written scanners of `ExprScan` -/
def exS : Scanners :=
  ⟨ExprScan.scanBinOp, ExprScan.scanUnaryOp, ExprScan.scanGroupOpen, ExprScan.scanClose, ExprScan.scanComma, ExprScan.scanFuncOpen,
   ExprScan.scanNumber, ExprScan.scanString, ExprScan.scanVariable, ExprScan.scanVariableEx⟩

theorem chainLoopW_ex (pu : List Char → ExprParse.Res (Expr × List Char)) : ∀ (n : Nat) (l : Expr) (t : List Char),
    chainLoopW exS pu n l t = ExprParse.chainLoop pu n l t
  | 0, l, t => rfl
  | n + 1, l, t => by
    rw [chainLoopW, ExprParse.chainLoop]
    show (match ExprScan.scanBinOp t with | none => _ | some (op, rt) => _) = _
    cases ExprScan.scanBinOp t with
    | none => rfl
    | some x =>
      obtain ⟨op, rt⟩ := x
      simp only []
      cases pu rt with
      | error e => rfl
      | ok y => obtain ⟨r, nt⟩ := y; exact chainLoopW_ex pu n _ nt

theorem binaryWithW_ex (pu : List Char → ExprParse.Res (Expr × List Char)) (n : Nat) (text : List Char) :
    binaryWithW exS pu n text = ExprParse.binaryWith pu n text := by
  unfold binaryWithW ExprParse.binaryWith
  cases pu text with
  | error e => rfl
  | ok y => obtain ⟨l, t⟩ := y; exact chainLoopW_ex pu n l t

theorem argsLoopW_ex (pb : List Char → ExprParse.Res (Expr × List Char)) : ∀ (n : Nat) (args : List Expr) (t : List Char),
    argsLoopW exS pb n args t = ExprParse.argsLoop pb n args t
  | 0, args, t => rfl
  | n + 1, args, t => by
    rw [argsLoopW, ExprParse.argsLoop]
    show (match ExprScan.scanClose t with | some r => _ | none => _) = _
    cases ExprScan.scanClose t with
    | some r => rfl
    | none =>
      simp only []
      show (match (if args.isEmpty then some t else ExprScan.scanComma t) with | none => _ | some t1 => _) = _
      cases (if args.isEmpty then some t else ExprScan.scanComma t) with
      | none => rfl
      | some t1 =>
        simp only []
        cases pb t1 with
        | error e => rfl
        | ok y => obtain ⟨a, nt⟩ := y; exact argsLoopW_ex pb n _ nt

theorem parseAtomW_ex (text : List Char) : parseAtomW exS text = ExprParse.parseAtom text := rfl

theorem parseUnaryW_ex : ∀ (fuel : Nat) (text : List Char), parseUnaryW exS fuel text = ExprParse.parseUnary fuel text
  | 0, text => rfl
  | fuel + 1, text => by
    have ih : parseUnaryW exS fuel = ExprParse.parseUnary fuel := funext (parseUnaryW_ex fuel)
    rw [parseUnaryW, ExprParse.parseUnary, ih]
    simp only [binaryWithW_ex, argsLoopW_ex, parseAtomW_ex,
      show (binaryWithW exS (ExprParse.parseUnary fuel) fuel) = ExprParse.binaryWith (ExprParse.parseUnary fuel) fuel from
        funext (binaryWithW_ex _ _)]
    rfl

/-- `ExprParse.parseExprL` is `parseExprLW` over the hand-written scanners -/
theorem parseExprLW_ex (cs : List Char) : parseExprLW exS cs = ExprParse.parseExprL cs := by
  unfold parseExprLW ExprParse.parseExprL ExprParse.parseBinary
  rw [show parseUnaryW exS cs.length = ExprParse.parseUnary cs.length from funext (parseUnaryW_ex _), binaryWithW_ex]
  rfl

/-! ## `parse_expression`, regex driven -/

/-- the token scanners by the engine on the pinned `_R_EXPR_*` ASTs — for the tokens with a proved theorem (operators, group open /
close, comma, function open, variable); `number`, the two string forms and the bracketed variable are still the hand-written
scanners of `ExprScan` (differential streams of C02 / `rx-engine` only) -/
def rxS : Scanners :=
  ⟨rxScanBinOp, rxScanUnaryOp, rxScanGroupOpen, rxScanClose, rxScanComma, rxScanFuncOpen,
   ExprScan.scanNumber, ExprScan.scanString, rxScanVariable, ExprScan.scanVariableEx⟩

theorem exS_eq_rxS : exS = rxS := by
  unfold exS rxS
  rw [show ExprScan.scanBinOp = rxScanBinOp from funext binOp_regex, show ExprScan.scanUnaryOp = rxScanUnaryOp from funext unaryOp_regex,
    show ExprScan.scanGroupOpen = rxScanGroupOpen from funext groupOpen_regex, show ExprScan.scanClose = rxScanClose from funext close_regex,
    show ExprScan.scanComma = rxScanComma from funext comma_regex, show ExprScan.scanFuncOpen = rxScanFuncOpen from funext funcOpen_regex,
    show ExprScan.scanVariable = rxScanVariable from funext variable_regex]

/-- `parse_expression` with the proved token scanners replaced by the engine -/
def rxParseExpr (s : String) : Except ParseErr Expr := parseExprLW rxS s.toList

/-- `ExprParse.parseExpr` = the same parser with the operator, parenthesis, comma, function-open and variable tokens computed by
the backtracking engine on the pinned ASTs — for ALL texts.

Full statement (`parseExpr_is_regex_driven`): the same with `number`, `'…'`, `"…"` and `[…]` by the engine too.  Missing: the
closed forms of `_R_EXPR_NUMBER` (with `float(group(1))` read back from the matched text), of the two string patterns (star over
`\\\\|\\q|[^q]`, mirror `ExprScan.strBody`) and of `_R_EXPR_VARIABLE_EX` (plus over `\\\]|[^\]]`, mirror `bracketBody`). -/
theorem parseExpr_is_regex_driven_partial (s : String) : ExprParse.parseExpr s = rxParseExpr s := by
  unfold ExprParse.parseExpr rxParseExpr
  rw [← parseExprLW_ex, exS_eq_rxS]

/-- `rxParseScript` with the expression parser as a parameter -/
def rxParseScriptWith (pe : String → Except ParseErr Expr) (chunks : List String) (start : Nat := 1) :
    Except Parser.ParserError (List Stmt) :=
  let ll := rxScriptLines chunks
  match stepAllWith rxShape (fun l => rxClassifyL pe l.toList) start (Lower.PState.init, {}) ll.1 with
  | .error e => .error e
  | .ok s => Parser.finishAll start s ll.2

/-- **`parse_script` is regex driven down to the tokens proved so far**: every text / statement scanner AND the operator,
parenthesis, comma, function-open and variable token scanners of `parse_expression` are the engine on the pinned ASTs; for all
inputs, no side condition.  (`_partial`: number, strings and bracketed names still use the hand-written token scanners.) -/
theorem parseScript_fully_regex_driven_partial (chunks : List String) (start : Nat) :
    Parser.parseScript chunks start = rxParseScriptWith rxParseExpr chunks start := by
  rw [parseScript_is_regex_driven, ← show ExprParse.parseExpr = rxParseExpr from funext parseExpr_is_regex_driven_partial]
  rfl

end C06Regex
