import BareProofs.C16Lemmas
import BareModel.Gen.Args
import BareModel.Gen.Regex

/-!
# C16 — datetime construction, arithmetic and ISO text are correct in any time zone

Property theorems (model: `BareModel/Datetime.lean`; calendar lemmas: `BareProofs/C16Lemmas.lean`):

* `args_table`, `regex_table`  the generated `_DATETIME_NEW_ARGS` model / ISO regex sources are the ones the model was written for
* `ord2ymd_sound`, `ord2ymd_ymd2ord`, `ymd2ord_inj`, `year_range_iff` (in C16Lemmas)  CPython's `_ord2ymd`/`_ymd2ord` are mutually
  inverse on EVERY integer ordinal / valid date, and years 1..9999 are exactly ordinals 1..3652059 — this is what gives the
  spec layer its meaning
* `datetimeNewCore_is_ordinal_arithmetic`, `datetimeNew_is_ordinal_arithmetic`  for ALL integer arguments the carry chain + month
  normalisation + day loops equal ordinal arithmetic; `none` (null) exactly when the instant leaves years 1..9999
* `getters_roundtrip`  the result is well formed, its parts recompose to the instant, re-normalising is the identity
* `add_sub_ms`, `add_none_iff`, `add_zero`, `add_add`  `(d + n) − d = n` on the integer-millisecond model
* `iso_roundtrip_partial`  `parse (format t) = t` — PARTIAL: the zone is two abstract offset functions and the property's
  carve-outs are explicit hypotheses (see the theorem); `iso_offset_seconds_lost` shows the whole-minute hypothesis is needed
* `iso_reject`, `iso_reject_fields`  the parser returns null outside the two anchored ASCII shapes and for invalid fields
* `round_ms_exact_partial`  the float path of `datetime − datetime` returns exactly `n` for |n| ≤ 10¹² — PARTIAL: relative-error
  model of IEEE doubles over ℚ, not bit-level floats
-/

open Datetime
namespace C16

/-! ### the generated tables the model depends on -/

def argModel (name : String) (default : Option String) (lte gte : Option Int) : Gen.ArgModel :=
  { name := name, type := some "number", nullable := false, default := default, lastArgArray := false, integer := true,
    lt := none, lte := lte, gt := none, gte := gte }

/-- `_DATETIME_NEW_ARGS` as extracted from the working tree is the argument model `datetimeNew` validates against -/
theorem args_table : Gen.argModels.lookup "_DATETIME_NEW_ARGS" = some [
    argModel "year" none none (some yearGte), argModel "month" none none none, argModel "day" none (some dayLte) (some dayGte),
    argModel "hour" (some "0") none none, argModel "minute" (some "0") none none, argModel "second" (some "0") none none,
    argModel "millisecond" (some "0") none none] := by decide +kernel

/-- the ISO regex sources (and flags: 256 = re.ASCII) the hand-written scanners/formatter were written for -/
theorem regex_table :
    Gen.regexes.lookup "value._R_DATE" = some ("^(?P<year>\\d{4})-(?P<month>\\d{2})-(?P<day>\\d{2})\\Z", 256) ∧
    Gen.regexes.lookup "value._R_DATETIME" =
      some ("^\\d{4}-\\d{2}-\\d{2}T\\d{2}:\\d{2}:\\d{2}(?:\\.\\d{1,6})?(?:Z|[+-]\\d{2}:[0-5]\\d)\\Z", 256) ∧
    Gen.regexes.lookup "value._R_DATETIME_ZULU" = some ("Z\\Z", 32) ∧
    Gen.regexes.lookup "value._R_DATETIME_MICROSECOND" = some ("\\.(\\d{6})", 32) ∧
    Gen.regexes.lookup "value._R_DATETIME_TZ_CLEANUP" = some ("([+-]\\d\\d:\\d\\d):\\d\\d$", 32) := by decide +kernel

/-! ### `datetimeNew` = ordinal arithmetic -/

theorem carry_1000 (x y : Int) : carry x y 1000 = (x % 1000, y + x / 1000) := by
  unfold carry; rw [pyFloorDiv_pos _ (by decide)]
  split <;> (apply Prod.ext <;> simp only [] <;> omega)

theorem carry_60 (x y : Int) : carry x y 60 = (x % 60, y + x / 60) := by
  unfold carry; rw [pyFloorDiv_pos _ (by decide)]
  split <;> (apply Prod.ext <;> simp only [] <;> omega)

theorem carry_24 (x y : Int) : carry x y 24 = (x % 24, y + x / 24) := by
  unfold carry; rw [pyFloorDiv_pos _ (by decide)]
  split <;> (apply Prod.ext <;> simp only [] <;> omega)

theorem monthNorm_eq (y mo : Int) : monthNorm y mo = (y + (mo - 1) / 12, (mo - 1) % 12 + 1) := by
  unfold monthNorm; rw [pyFloorDiv_pos _ (by decide)]
  split <;> (apply Prod.ext <;> simp only [] <;> omega)

/-- the carry chain is division of the total millisecond count -/
theorem time_split (h mi s ms T s1 mi1 h1 : Int) (hT : T = ((h * 60 + mi) * 60 + s) * 1000 + ms)
    (hs1 : s1 = s + ms / 1000) (hm1 : mi1 = mi + s1 / 60) (hh1 : h1 = h + mi1 / 60) :
    T / 86400000 = h1 / 24 ∧ T % 86400000 / 3600000 = h1 % 24 ∧ T % 86400000 / 60000 % 60 = mi1 % 60 ∧
      T % 86400000 / 1000 % 60 = s1 % 60 ∧ T % 86400000 % 1000 = ms % 1000 := by
  omega

/-- **C16 / normalisation.** For ALL integer arguments the carry chain, the month normalisation and the two day
loops of `_datetime_new` compute exactly proleptic-Gregorian ordinal arithmetic: the instant
`ordinal(first day of the normalised month) + (day − 1)` days `+` the total millisecond count, and `null`
(`none`) exactly when that instant lies outside years 1..9999 (where `datetime.datetime(...)` raises). -/
theorem datetimeNewCore_is_ordinal_arithmetic (y mo d h mi s ms : Int) :
    datetimeNewCore y mo d h mi s ms = datetimeNewSpec y mo d h mi s ms := by
  simp only [datetimeNewCore, carry_1000, carry_60, carry_24, monthNorm_eq, datetimeNewSpec, msPerDay]
  generalize hT : ((h * 60 + mi) * 60 + s) * 1000 + ms = T
  generalize hs1 : s + ms / 1000 = s1
  generalize hm1 : mi + s1 / 60 = mi1
  generalize hh1 : h + mi1 / 60 = h1
  obtain ⟨t1, t2, t3, t4, t5⟩ := time_split h mi s ms T s1 mi1 h1 hT.symm hs1.symm hm1.symm hh1.symm
  obtain ⟨y', m', d', hr, a1, a2, b1, b2, ho⟩ :=
    dayAdjust_spec (y + (mo - 1) / 12) ((mo - 1) % 12 + 1) (d + h1 / 24) (by omega) (by omega)
  rw [hr]
  simp only [construct]
  have hv : ValidMD y' m' d' := ⟨a1, a2, b1, b2⟩
  have hord : ymd2ord (y + (mo - 1) / 12) ((mo - 1) % 12 + 1) 1 + (d - 1) + T / 86400000 = ymd2ord y' m' d' := by
    simp only [ymd2ord_eq]; omega
  rw [hord]
  have hrange := year_range_iff hv
  simp only [mkDT, fromOrdinalMs, ord2ymd_ymd2ord hv, t2, t3, t4, t5]
  by_cases hy : 1 ≤ y' ∧ y' ≤ 9999
  · have h2 := hrange.1 hy
    rw [if_pos h2, if_pos (by omega)]
  · have h2 : ¬ (1 ≤ ymd2ord y' m' d' ∧ ymd2ord y' m' d' ≤ maxOrdinal) := fun c => hy (hrange.2 c)
    rw [if_neg h2, if_neg (by omega)]

/-- non-vacuity: month 14, day −3, 25 h, 61 min, 61 s, 1001 ms all normalise (both layers computed by the kernel) -/
example : datetimeNewCore 2024 14 (-3) 25 61 61 1001 = some ⟨2025, 1, 29, 2, 2, 2, 1⟩ ∧
    datetimeNewSpec 2024 14 (-3) 25 61 61 1001 = some ⟨2025, 1, 29, 2, 2, 2, 1⟩ := by decide +kernel
/-- the `while day > month_days` loop across a leap February; the `while day < 1` loop across a year boundary -/
example : datetimeNewCore 2024 1 60 0 0 0 0 = some ⟨2024, 2, 29, 0, 0, 0, 0⟩ ∧
    datetimeNewCore 2023 1 60 0 0 0 0 = some ⟨2023, 3, 1, 0, 0, 0, 0⟩ ∧
    datetimeNewCore 2024 1 (-366) 0 0 0 (-1) = some ⟨2022, 12, 29, 23, 59, 59, 999⟩ := by decide +kernel
/-- the failure branch: one millisecond past 9999-12-31T23:59:59.999, and a month far in the past -/
example : datetimeNewCore 9999 12 31 23 59 59 1000 = none ∧ datetimeNewSpec 9999 12 31 23 59 59 1000 = none ∧
    datetimeNewCore 100 (-1200) 1 0 0 0 0 = none ∧ datetimeNewCore 9999 12 31 23 59 59 999 ≠ none := by decide +kernel

/-- the same with the argument validation of `_DATETIME_NEW_ARGS` in front (what a script call does) -/
theorem datetimeNew_is_ordinal_arithmetic (y mo d h mi s ms : Int) :
    datetimeNew y mo d h mi s ms =
      if yearGte ≤ y ∧ dayGte ≤ d ∧ d ≤ dayLte then datetimeNewSpec y mo d h mi s ms else none := by
  unfold datetimeNew; rw [datetimeNewCore_is_ordinal_arithmetic]

example : datetimeNew 99 1 1 0 0 0 0 = none ∧ datetimeNew 2024 1 10001 0 0 0 0 = none ∧
    datetimeNew 100 (-30) (-10000) (-5000) (-5000) (-5000) (-5000) = some ⟨69, 6, 15, 3, 16, 35, 0⟩ := by decide +kernel

/-! ### getters, and the integer-millisecond instant model -/

theorem tod_fields {tod : Int} (h0 : 0 ≤ tod) (h1 : tod < 86400000) :
    0 ≤ tod / 3600000 ∧ tod / 3600000 ≤ 23 ∧ 0 ≤ tod / 60000 % 60 ∧ tod / 60000 % 60 ≤ 59 ∧
    0 ≤ tod / 1000 % 60 ∧ tod / 1000 % 60 ≤ 59 ∧ 0 ≤ tod % 1000 ∧ tod % 1000 ≤ 999 ∧
    ((tod / 3600000 * 60 + tod / 60000 % 60) * 60 + tod / 1000 % 60) * 1000 + tod % 1000 = tod := by
  omega

/-- what `fromOrdinalMs` returns is a valid datetime whose parts recompose to the instant -/
theorem fromOrdinalMs_some {ord tod : Int} {t : DT} (h : fromOrdinalMs ord tod = some t)
    (h0 : 0 ≤ tod) (h1 : tod < msPerDay) : t.Valid ∧ toLocalMs t = (ord - 1) * msPerDay + tod := by
  unfold fromOrdinalMs at h
  split at h
  · rename_i hr
    have hs := ord2ymd_sound ord
    have hv := ord2ymd_valid ord
    have hy := (year_range_iff hv).2 (by rw [hs.2.2.2.2]; exact hr)
    obtain ⟨f1, f2, f3, f4, f5, f6, f7, f8, f9⟩ := tod_fields h0 h1
    simp only [Option.some.injEq] at h
    subst h
    refine ⟨⟨hy.1, hy.2, hs.1, hs.2.1, hs.2.2.1, hs.2.2.2.1, f1, f2, f3, f4, f5, f6, f7, f8⟩, ?_⟩
    simp only [toLocalMs, hs.2.2.2.2, f9]
  · simp at h

/-- a valid datetime is `fromOrdinalMs` of its own ordinal and time of day -/
theorem fromOrdinalMs_of_valid {t : DT} (hv : t.Valid) :
    fromOrdinalMs (ymd2ord t.year t.month t.day) (((t.hour * 60 + t.minute) * 60 + t.second) * 1000 + t.ms) = some t := by
  obtain ⟨y1, y2, m1, m2, d1, d2, a1, a2, b1, b2, c1, c2, e1, e2⟩ := hv
  have hmd : ValidMD t.year t.month t.day := ⟨m1, m2, d1, d2⟩
  have hr := (year_range_iff hmd).1 ⟨y1, y2⟩
  simp only [fromOrdinalMs, hr, and_self, if_true, ord2ymd_ymd2ord hmd]
  have q1 : (((t.hour * 60 + t.minute) * 60 + t.second) * 1000 + t.ms) / 3600000 = t.hour := by omega
  have q2 : (((t.hour * 60 + t.minute) * 60 + t.second) * 1000 + t.ms) / 60000 % 60 = t.minute := by omega
  have q3 : (((t.hour * 60 + t.minute) * 60 + t.second) * 1000 + t.ms) / 1000 % 60 = t.second := by omega
  have q4 : (((t.hour * 60 + t.minute) * 60 + t.second) * 1000 + t.ms) % 1000 = t.ms := by omega
  rw [q1, q2, q3, q4]

theorem tod_bounds {t : DT} (hv : t.Valid) :
    0 ≤ ((t.hour * 60 + t.minute) * 60 + t.second) * 1000 + t.ms ∧
      ((t.hour * 60 + t.minute) * 60 + t.second) * 1000 + t.ms < msPerDay := by
  obtain ⟨y1, y2, m1, m2, d1, d2, a1, a2, b1, b2, c1, c2, e1, e2⟩ := hv
  simp only [msPerDay]; omega

theorem ofLocalMs_toLocalMs {t : DT} (hv : t.Valid) : ofLocalMs (toLocalMs t) = some t := by
  have hb := tod_bounds hv
  have := fromOrdinalMs_of_valid hv
  simp only [msPerDay] at hb
  simp only [ofLocalMs, toLocalMs, msPerDay]
  have e1 : ((ymd2ord t.year t.month t.day - 1) * 86400000 +
      (((t.hour * 60 + t.minute) * 60 + t.second) * 1000 + t.ms)) / 86400000 + 1 = ymd2ord t.year t.month t.day := by omega
  have e2 : ((ymd2ord t.year t.month t.day - 1) * 86400000 +
      (((t.hour * 60 + t.minute) * 60 + t.second) * 1000 + t.ms)) % 86400000 =
      ((t.hour * 60 + t.minute) * 60 + t.second) * 1000 + t.ms := by omega
  rw [e1, e2]; exact this

theorem toLocalMs_ofLocalMs {x : Int} {t : DT} (h : ofLocalMs x = some t) : t.Valid ∧ toLocalMs t = x := by
  have := fromOrdinalMs_some h (Int.emod_nonneg x (by decide)) (Int.emod_lt_of_pos x (by decide))
  refine ⟨this.1, ?_⟩
  rw [this.2]; simp only [msPerDay]; omega

/-- **C16 / getters.** Whatever `datetimeNew` returns is a well-formed datetime; its getters (year, month, day, hour,
minute, second, millisecond) are the parts of the normalised instant — they recompose to
`ordinal(first of normalised month) + day − 1` days plus the total milliseconds — and feeding them back to
`datetimeNew` returns the same datetime (normalisation is idempotent). -/
theorem getters_roundtrip {y mo d h mi s ms : Int} {t : DT} (hnew : datetimeNewCore y mo d h mi s ms = some t) :
    t.Valid ∧
    toLocalMs t = (ymd2ord (y + (mo - 1) / 12) ((mo - 1) % 12 + 1) 1 - 1 + (d - 1)) * msPerDay +
      (((h * 60 + mi) * 60 + s) * 1000 + ms) ∧
    datetimeNewCore t.year t.month t.day t.hour t.minute t.second t.ms = some t := by
  rw [datetimeNewCore_is_ordinal_arithmetic] at hnew
  simp only [datetimeNewSpec] at hnew
  have hs := fromOrdinalMs_some hnew (Int.emod_nonneg _ (by decide)) (Int.emod_lt_of_pos _ (by decide))
  refine ⟨hs.1, ?_, ?_⟩
  · rw [hs.2]; simp only [msPerDay]; omega
  · rw [datetimeNewCore_is_ordinal_arithmetic]
    obtain ⟨y1, y2, m1, m2, d1, d2, a1, a2, b1, b2, c1, c2, e1, e2⟩ := hs.1
    have hT := tod_bounds hs.1
    simp only [msPerDay] at hT
    simp only [datetimeNewSpec, msPerDay]
    have k1 : t.year + (t.month - 1) / 12 = t.year := by omega
    have k2 : (t.month - 1) % 12 + 1 = t.month := by omega
    have k3 : (((t.hour * 60 + t.minute) * 60 + t.second) * 1000 + t.ms) / 86400000 = 0 := by omega
    have k4 : (((t.hour * 60 + t.minute) * 60 + t.second) * 1000 + t.ms) % 86400000 =
        ((t.hour * 60 + t.minute) * 60 + t.second) * 1000 + t.ms := by omega
    rw [k1, k2, k3, k4]
    have k5 : ymd2ord t.year t.month 1 + (t.day - 1) + 0 = ymd2ord t.year t.month t.day := by
      simp only [ymd2ord]; omega
    rw [k5]
    exact fromOrdinalMs_of_valid hs.1

example : (⟨2025, 1, 29, 2, 2, 2, 1⟩ : DT).Valid ∧
    datetimeNewCore 2025 1 29 2 2 2 1 = some ⟨2025, 1, 29, 2, 2, 2, 1⟩ ∧
    toLocalMs ⟨2025, 1, 29, 2, 2, 2, 1⟩ = (ymd2ord 2025 2 1 - 1 + (-3 - 1)) * msPerDay + (((25 * 60 + 61) * 60 + 61) * 1000 + 1001) := by
  decide +kernel

/-- **C16 / arithmetic.** Adding an integral number `n` of milliseconds and then subtracting the original datetime
gives `n` (whenever the sum is a datetime at all, i.e. stays within years 1..9999; otherwise the sum is `null`). -/
theorem add_sub_ms {t t' : DT} {n : Int} (h : addMs t n = some t') : subMs t' t = n ∧ t'.Valid := by
  have := toLocalMs_ofLocalMs h
  exact ⟨by simp only [subMs, this.2]; omega, this.1⟩

example : addMs ⟨2024, 2, 29, 0, 0, 0, 0⟩ 1000000000000 = some ⟨2055, 11, 7, 1, 46, 40, 0⟩ ∧
    subMs ⟨2055, 11, 7, 1, 46, 40, 0⟩ ⟨2024, 2, 29, 0, 0, 0, 0⟩ = 1000000000000 ∧
    addMs ⟨2024, 3, 1, 0, 0, 0, 0⟩ (-1) = some ⟨2024, 2, 29, 23, 59, 59, 999⟩ ∧
    addMs ⟨9999, 12, 31, 23, 59, 59, 999⟩ 1 = none := by decide +kernel

/-- the sum is `null` exactly when it leaves years 1..9999 -/
theorem add_none_iff (t : DT) (n : Int) :
    addMs t n = none ↔ ¬ (1 ≤ (toLocalMs t + n) / msPerDay + 1 ∧ (toLocalMs t + n) / msPerDay + 1 ≤ maxOrdinal) := by
  simp only [addMs, ofLocalMs, fromOrdinalMs]
  split <;> simp_all

/-- adding zero is the identity; adding in two steps is adding the sum -/
theorem add_zero {t : DT} (hv : t.Valid) : addMs t 0 = some t := by
  simp only [addMs, Int.add_zero]; exact ofLocalMs_toLocalMs hv

theorem add_add {t t' : DT} {a b : Int} (h : addMs t a = some t') : addMs t' b = addMs t (a + b) := by
  have := toLocalMs_ofLocalMs h
  simp only [addMs, this.2, Int.add_assoc]


/-! ### ISO text: `parse (format t) = t` -/

theorem digit_ofNat : ∀ r : Nat, r < 10 → digit? (Char.ofNat (48 + r)) = some r := by decide

theorem digit?_digitChar (k : Nat) : digit? (digitChar k) = some (k % 10) :=
  digit_ofNat (k % 10) (Nat.mod_lt _ (by decide))

theorem num2?_pad {n : Nat} (h : n < 100) : num2? (digitChar (n / 10)) (digitChar n) = some n := by
  simp only [num2?, digit?_digitChar, Option.bind_eq_bind, Option.bind_some, Option.pure_def, Option.some.injEq]
  omega

theorem num4?_pad {n : Nat} (h : n < 10000) :
    num4? (digitChar (n / 1000)) (digitChar (n / 100)) (digitChar (n / 10)) (digitChar n) = some n := by
  simp only [num4?, num2?, digit?_digitChar, Option.bind_eq_bind, Option.bind_some, Option.pure_def, Option.some.injEq]
  omega

theorem sign_not_digit (o : Int) : (digit? (if o < 0 then '-' else '+')).isSome = false := by
  split <;> decide

theorem zone_fmtOffset {o : Int} (hmin : o % 60 = 0) (h1 : -86400 < o) (h2 : o < 86400) : zone? (fmtOffset o) = some o := by
  have ha : o.natAbs < 86400 := by omega
  have hh : o.natAbs / 3600 < 100 := by omega
  have hm : o.natAbs / 60 % 60 < 100 := by omega
  simp only [fmtOffset, pad2, List.cons_append, List.nil_append, zone?]
  rw [num2?_pad hh, num2?_pad hm]
  have c1 : o.natAbs / 3600 ≤ 23 ∧ o.natAbs / 60 % 60 ≤ 59 := by omega
  simp only [Option.bind_eq_bind, Option.bind_some, c1, and_self, if_true]
  have e : o.natAbs / 3600 * 3600 + o.natAbs / 60 % 60 * 60 = o.natAbs := by
    have : o.natAbs / 3600 = o.natAbs / 60 / 60 := by rw [Nat.div_div_eq_div_mul]
    have : o.natAbs % 60 = 0 := by omega
    omega
  rw [e]
  by_cases hneg : o < 0
  · simp only [hneg, if_true, Char.reduceEq, or_true, Option.some.injEq]
    omega
  · simp only [hneg, if_false, if_true, Char.reduceEq, true_or, Option.some.injEq]
    omega

theorem fmtOffset_head (o : Int) : ∃ tl, fmtOffset o = (if o < 0 then '-' else '+') :: tl := ⟨_, rfl⟩

theorem fracZone_nofrac {o : Int} (hmin : o % 60 = 0) (h1 : -86400 < o) (h2 : o < 86400) :
    fracZone? (fmtOffset o) = some (0, o) := by
  have hz := zone_fmtOffset hmin h1 h2
  obtain ⟨tl, htl⟩ := fmtOffset_head o
  rw [htl] at hz ⊢
  by_cases hneg : o < 0
  · simp only [hneg, if_true] at hz ⊢
    simp only [fracZone?, Char.reduceEq, if_false, hz, Option.map_some]
  · simp only [hneg, if_false] at hz ⊢
    simp only [fracZone?, Char.reduceEq, if_false, hz, Option.map_some]

theorem frac_pad3 {n : Nat} (h : n < 1000) : frac? (pad3 n) = some (n * 1000) := by
  simp only [frac?, pad3, List.length_cons, List.length_nil, List.mapM_cons, List.mapM_nil, digit?_digitChar,
    Option.pure_def, Option.bind_eq_bind, Option.bind_some, Option.map_some]
  simp
  omega

theorem fracZone_frac {o : Int} {n : Nat} (hn : n < 1000) (hmin : o % 60 = 0) (h1 : -86400 < o) (h2 : o < 86400) :
    fracZone? ('.' :: (pad3 n ++ fmtOffset o)) = some (n * 1000, o) := by
  have hz := zone_fmtOffset hmin h1 h2
  have hf := frac_pad3 hn
  obtain ⟨tl, htl⟩ := fmtOffset_head o
  have hs := sign_not_digit o
  rw [htl] at hz ⊢
  simp only [fracZone?, if_true, pad3, List.cons_append, List.nil_append, List.takeWhile_cons, List.dropWhile_cons, digit?_digitChar,
    Option.isSome_some, if_true, hs, Bool.false_eq_true, if_false]
  simp only [pad3] at hf
  simp only [hf, hz, Option.bind_eq_bind, Option.bind_some, Option.pure_def]

/-- the text `value_string` produces scans back to its own fields -/
theorem scan_format {t : DT} (hv : t.Valid) {o : Int} (us : Int) (hmin : o % 60 = 0) (h1 : -86400 < o) (h2 : o < 86400) :
    scanDate (isoFormatUs o t us) = none ∧
    scanDateTime (isoFormatUs o t us) =
      some ⟨t.year.toNat, t.month.toNat, t.day.toNat, t.hour.toNat, t.minute.toNat, t.second.toNat, t.ms.toNat * 1000, o⟩ := by
  obtain ⟨y1, y2, m1, m2, d1, d2, a1, a2, b1, b2, c1, c2, e1, e2⟩ := hv
  have hY : t.year.toNat < 10000 := by omega
  have hM : t.month.toNat < 100 := by omega
  have hdim : daysInMonth t.year t.month ≤ 31 := by
    obtain ⟨k, hk, _, k2, _⟩ := mdays_dbm (isLeap t.year) m1 m2
    rw [monthrange_some hk]; exact k2
  have hD : t.day.toNat < 100 := by omega
  have hH : t.hour.toNat < 100 := by omega
  have hI : t.minute.toNat < 100 := by omega
  have hS : t.second.toNat < 100 := by omega
  have hms : t.ms.toNat < 1000 := by omega
  have hfz : fracZone? ((if t.ms = 0 ∧ us = 0 then [] else '.' :: pad3 t.ms.toNat) ++ fmtOffset o) = some (t.ms.toNat * 1000, o) := by
    by_cases h0 : t.ms = 0 ∧ us = 0
    · simp only [h0, and_self, if_true, List.nil_append, fracZone_nofrac hmin h1 h2]; rfl
    · simp only [h0, if_false, List.cons_append, fracZone_frac hms hmin h1 h2]
  constructor
  · simp [isoFormatUs, pad4, pad2, scanDate]
  · simp only [isoFormatUs, pad4, pad2, List.cons_append, List.nil_append, scanDateTime, num4?_pad hY, num2?_pad hM,
      num2?_pad hD, num2?_pad hH, num2?_pad hI, num2?_pad hS, hfz, Option.bind_eq_bind, Option.bind_some, Option.pure_def]

/-- **C16 / ISO round trip — PARTIAL.** Full statement of the property: "for every datetime `t` that exists in the process
time zone (whole-minute UTC offset), `datetimeISOParse(datetimeISOFormat(t)) = t` to the millisecond, whatever the zone".
Proved here: for ANY pair of offset functions `offL` (seconds east of UTC that `astimezone()` picks for a naive local time,
argument = local milliseconds) and `offU` (offset in force at a UTC instant), every well-formed `t` and every
sub-millisecond remainder `us` (what `datetimeNow()` adds; the text is cut to the millisecond),
`isoParse offU (isoFormatUs (offL t) t us) = some t`, under the explicit hypotheses
* `hmin`  the offset is a whole number of minutes (the property's carve-out; `iso_offset_seconds_lost` shows it is needed),
* `hlo/hhi`  |offset| < 24 h (true of every `tzinfo`; needed for the two-digit hour field),
* `hexists`  the local time exists: the instant `t − offL t` maps back to the same offset (`astimezone` round trip),
* `hutc`  that UTC instant lies in years 1..9999 (fails only within a day of the ends of the range).
What is missing for the unqualified statement: `astimezone()` over the OS zone database is not modelled — that
`offL`/`offU` are what CPython computes is an assumption, sampled per zone by the `dt-iso` stream. -/
theorem iso_roundtrip_partial (offL offU : Int → Int) (t : DT) (us : Int) (hv : t.Valid)
    (hmin : offL (toLocalMs t) % 60 = 0)
    (hlo : -86400 < offL (toLocalMs t)) (hhi : offL (toLocalMs t) < 86400)
    (hexists : offU (toLocalMs t - offL (toLocalMs t) * 1000) = offL (toLocalMs t))
    (hutc : (ofLocalMs (toLocalMs t - offL (toLocalMs t) * 1000)).isSome = true) :
    isoParse offU (isoFormatUs (offL (toLocalMs t)) t us) = some t := by
  obtain ⟨hd, hdt⟩ := scan_format hv us hmin hlo hhi
  obtain ⟨u, hu⟩ := Option.isSome_iff_exists.1 hutc
  have hmk : mkDT (t.year.toNat : Int) t.month.toNat t.day.toNat t.hour.toNat t.minute.toNat t.second.toNat
      ((t.ms.toNat * 1000 : Nat) / 1000 : Int) = some t := by
    obtain ⟨y1, y2, m1, m2, d1, d2, a1, a2, b1, b2, c1, c2, e1, e2⟩ := hv
    have e : ((t.ms.toNat * 1000 : Nat) / 1000 : Int) = t.ms := by omega
    rw [e, Int.toNat_of_nonneg (by omega), Int.toNat_of_nonneg (by omega), Int.toNat_of_nonneg (by omega),
      Int.toNat_of_nonneg a1, Int.toNat_of_nonneg b1, Int.toNat_of_nonneg c1]
    simp only [mkDT, y1, y2, m1, m2, d1, d2, a1, a2, b1, b2, c1, c2, e1, e2, and_self, if_true]
  simp only [isoParse, hd, hdt, hmk, hu, hexists]
  have : toLocalMs t - offL (toLocalMs t) * 1000 + offL (toLocalMs t) * 1000 = toLocalMs t := by omega
  rw [this]
  exact ofLocalMs_toLocalMs hv

/-- the instance for values made inside BareScript (no sub-millisecond part): `isoFormat` itself -/
theorem iso_roundtrip_format_partial (offL offU : Int → Int) (t : DT) (hv : t.Valid)
    (hmin : offL (toLocalMs t) % 60 = 0)
    (hlo : -86400 < offL (toLocalMs t)) (hhi : offL (toLocalMs t) < 86400)
    (hexists : offU (toLocalMs t - offL (toLocalMs t) * 1000) = offL (toLocalMs t))
    (hutc : (ofLocalMs (toLocalMs t - offL (toLocalMs t) * 1000)).isSome = true) :
    isoParse offU (isoFormat offL t) = some t :=
  iso_roundtrip_partial offL offU t 0 hv hmin hlo hhi hexists hutc

/-- non-vacuity of `iso_roundtrip_partial`: Kathmandu (+05:45) with milliseconds, New York standard time without -/
example : isoFormatWith 20700 ⟨2024, 2, 29, 1, 2, 3, 45⟩ = "2024-02-29T01:02:03.045+05:45".toList ∧
    isoParse (fun _ => 20700) "2024-02-29T01:02:03.045+05:45".toList = some ⟨2024, 2, 29, 1, 2, 3, 45⟩ ∧
    isoFormatWith (-18000) ⟨124, 12, 31, 23, 59, 59, 0⟩ = "0124-12-31T23:59:59-05:00".toList ∧
    isoParse (fun _ => -18000) "0124-12-31T23:59:59-05:00".toList = some ⟨124, 12, 31, 23, 59, 59, 0⟩ ∧
    isoParse (fun _ => 20700) "2024-01-01T00:00:00.999999Z".toList = some ⟨2024, 1, 1, 5, 45, 0, 999⟩ ∧
    isoFormatUs 0 ⟨2024, 3, 10, 2, 30, 0, 0⟩ 1 = "2024-03-10T02:30:00.000+00:00".toList := by decide +kernel

/-- the whole-minute hypothesis cannot be dropped: under New York local mean time (−4:56:02) the seconds of the offset are
not printed, and the text parses to a datetime two seconds earlier -/
theorem iso_offset_seconds_lost :
    isoFormatWith (-17762) ⟨1850, 1, 1, 0, 0, 0, 0⟩ = "1850-01-01T00:00:00-04:56".toList ∧
    isoParse (fun _ => -17762) (isoFormatWith (-17762) ⟨1850, 1, 1, 0, 0, 0, 0⟩) = some ⟨1849, 12, 31, 23, 59, 58, 0⟩ := by
  decide +kernel


/-! ### ISO text: rejection -/

/-- an ASCII decimal digit -/
def IsDigit (c : Char) : Prop := 48 ≤ c.toNat ∧ c.toNat ≤ 57

theorem digit?_some {c : Char} {k : Nat} (h : digit? c = some k) : IsDigit c := by
  unfold digit? at h; split at h
  · assumption
  · simp at h

theorem digit?_isSome {c : Char} (h : (digit? c).isSome = true) : IsDigit c := by
  obtain ⟨k, hk⟩ := Option.isSome_iff_exists.1 h
  exact digit?_some hk

theorem num2?_some {a b : Char} {n : Nat} (h : num2? a b = some n) : IsDigit a ∧ IsDigit b := by
  simp only [num2?, Option.bind_eq_bind, Option.bind_eq_some_iff, Option.pure_def, Option.some.injEq] at h
  obtain ⟨x, hx, y, hy, _⟩ := h
  exact ⟨digit?_some hx, digit?_some hy⟩

theorem num4?_some {a b c d : Char} {n : Nat} (h : num4? a b c d = some n) : IsDigit a ∧ IsDigit b ∧ IsDigit c ∧ IsDigit d := by
  simp only [num4?, Option.bind_eq_bind, Option.bind_eq_some_iff, Option.pure_def, Option.some.injEq] at h
  obtain ⟨x, hx, y, hy, _⟩ := h
  exact ⟨(num2?_some hx).1, (num2?_some hx).2, (num2?_some hy).1, (num2?_some hy).2⟩

/-- `^\d{4}-\d{2}-\d{2}\Z` (ASCII) -/
def DateShape (cs : List Char) : Prop :=
  ∃ y1 y2 y3 y4 m1 m2 d1 d2, cs = [y1, y2, y3, y4, '-', m1, m2, '-', d1, d2] ∧
    IsDigit y1 ∧ IsDigit y2 ∧ IsDigit y3 ∧ IsDigit y4 ∧ IsDigit m1 ∧ IsDigit m2 ∧ IsDigit d1 ∧ IsDigit d2

/-- `(?:Z|[+-]\d{2}:\d{2})` -/
def ZoneShape (z : List Char) : Prop :=
  z = ['Z'] ∨ ∃ sg h1 h2 m1 m2, z = [sg, h1, h2, ':', m1, m2] ∧ (sg = '+' ∨ sg = '-') ∧
    IsDigit h1 ∧ IsDigit h2 ∧ IsDigit m1 ∧ IsDigit m2

/-- `(?:\.\d{1,6})?` -/
def FracShape (f : List Char) : Prop :=
  f = [] ∨ ∃ ds, f = '.' :: ds ∧ 1 ≤ ds.length ∧ ds.length ≤ 6 ∧ ∀ c ∈ ds, IsDigit c

/-- `^\d{4}-\d{2}-\d{2}T\d{2}:\d{2}:\d{2}(?:\.\d{1,6})?(?:Z|[+-]\d{2}:\d{2})\Z` (ASCII) -/
def DateTimeShape (cs : List Char) : Prop :=
  ∃ y1 y2 y3 y4 m1 m2 d1 d2 h1 h2 i1 i2 s1 s2 f z,
    cs = y1 :: y2 :: y3 :: y4 :: '-' :: m1 :: m2 :: '-' :: d1 :: d2 :: 'T' :: h1 :: h2 :: ':' :: i1 :: i2 :: ':' :: s1 :: s2 :: (f ++ z) ∧
    IsDigit y1 ∧ IsDigit y2 ∧ IsDigit y3 ∧ IsDigit y4 ∧ IsDigit m1 ∧ IsDigit m2 ∧ IsDigit d1 ∧ IsDigit d2 ∧
    IsDigit h1 ∧ IsDigit h2 ∧ IsDigit i1 ∧ IsDigit i2 ∧ IsDigit s1 ∧ IsDigit s2 ∧ FracShape f ∧ ZoneShape z

theorem scanDate_shape {cs : List Char} {r : Nat × Nat × Nat} (h : scanDate cs = some r) : DateShape cs := by
  unfold scanDate at h
  split at h
  · rename_i y1 y2 y3 y4 m1 m2 d1 d2
    simp only [Option.bind_eq_bind, Option.bind_eq_some_iff, Option.pure_def, Option.some.injEq] at h
    obtain ⟨y, hy, mo, hmo, d, hd, _⟩ := h
    have := num4?_some hy
    exact ⟨y1, y2, y3, y4, m1, m2, d1, d2, rfl, this.1, this.2.1, this.2.2.1, this.2.2.2, (num2?_some hmo).1, (num2?_some hmo).2,
      (num2?_some hd).1, (num2?_some hd).2⟩
  · simp at h

theorem zone?_shape {z : List Char} {o : Int} (h : zone? z = some o) :
    ZoneShape z ∧ -86400 < o ∧ o < 86400 ∧ o % 60 = 0 := by
  unfold zone? at h
  split at h
  · simp only [Option.some.injEq] at h; subst h
    exact ⟨Or.inl rfl, by omega, by omega, by omega⟩
  · rename_i sg h1 h2 m1 m2
    split at h
    · rename_i hsg
      simp only [Option.bind_eq_bind, Option.bind_eq_some_iff] at h
      obtain ⟨hh, hhh, mm, hmm, h⟩ := h
      split at h
      · rename_i hr
        simp only [Option.some.injEq] at h
        refine ⟨Or.inr ⟨sg, h1, h2, m1, m2, rfl, hsg, (num2?_some hhh).1, (num2?_some hhh).2, (num2?_some hmm).1, (num2?_some hmm).2⟩, ?_⟩
        split at h <;> (subst h; omega)
      · simp at h
    · simp at h
  · simp at h

theorem mem_takeWhile_true {p : Char → Bool} : ∀ {l : List Char} {a : Char}, a ∈ l.takeWhile p → p a = true
  | [], a, h => by simp at h
  | x :: xs, a, h => by
    by_cases hx : p x = true
    · simp only [List.takeWhile_cons, hx, if_true, List.mem_cons] at h
      rcases h with h | h
      · subst h; exact hx
      · exact mem_takeWhile_true h
    · simp [hx] at h

theorem frac?_shape {ds : List Char} {us : Nat} (h : frac? ds = some us) : 1 ≤ ds.length ∧ ds.length ≤ 6 := by
  unfold frac? at h
  split at h
  · simp at h
  · omega

theorem fracZone?_shape {cs : List Char} {us : Nat} {o : Int} (h : fracZone? cs = some (us, o)) :
    ∃ f z, cs = f ++ z ∧ FracShape f ∧ ZoneShape z ∧ -86400 < o ∧ o < 86400 ∧ o % 60 = 0 := by
  unfold fracZone? at h
  split at h
  · simp at h
  · rename_i c rest
    split at h
    · rename_i hc
      subst hc
      simp only [Option.bind_eq_bind, Option.bind_eq_some_iff, Option.pure_def, Option.some.injEq, Prod.mk.injEq] at h
      obtain ⟨us', hus, o', ho, _, e2⟩ := h
      subst e2
      have hz := zone?_shape ho
      have hf := frac?_shape hus
      refine ⟨'.' :: rest.takeWhile (fun c => (digit? c).isSome), rest.dropWhile (fun c => (digit? c).isSome), ?_, ?_, hz⟩
      · simp only [List.cons_append, List.takeWhile_append_dropWhile]
      · refine Or.inr ⟨_, rfl, hf.1, hf.2, ?_⟩
        intro c hc
        exact digit?_isSome (mem_takeWhile_true hc)
    · simp only [Option.map_eq_some_iff, Prod.mk.injEq] at h
      obtain ⟨o', ho, _, e2⟩ := h
      subst e2
      exact ⟨[], c :: rest, rfl, Or.inl rfl, zone?_shape ho⟩

theorem scanDateTime_shape {cs : List Char} {f : IsoFields} (h : scanDateTime cs = some f) :
    DateTimeShape cs ∧ -86400 < f.off ∧ f.off < 86400 ∧ f.off % 60 = 0 := by
  unfold scanDateTime at h
  split at h
  · rename_i y1 y2 y3 y4 m1 m2 d1 d2 h1 h2 i1 i2 s1 s2 rest
    simp only [Option.bind_eq_bind, Option.bind_eq_some_iff, Option.pure_def, Option.some.injEq] at h
    obtain ⟨y, hy, mo, hmo, d, hd, hh, hhh, mi, hmi, s, hs, ⟨us, o⟩, hfz, hf⟩ := h
    obtain ⟨fr, z, hrest, hfr, hz, o1, o2, o3⟩ := fracZone?_shape hfz
    have hy' := num4?_some hy
    subst hf hrest
    exact ⟨⟨y1, y2, y3, y4, m1, m2, d1, d2, h1, h2, i1, i2, s1, s2, fr, z, rfl, hy'.1, hy'.2.1, hy'.2.2.1, hy'.2.2.2,
      (num2?_some hmo).1, (num2?_some hmo).2, (num2?_some hd).1, (num2?_some hd).2, (num2?_some hhh).1, (num2?_some hhh).2,
      (num2?_some hmi).1, (num2?_some hmi).2, (num2?_some hs).1, (num2?_some hs).2, hfr, hz⟩, o1, o2, o3⟩
  · simp at h

theorem mkDT_some {y mo d h mi s ms : Int} {t : DT} (hk : mkDT y mo d h mi s ms = some t) :
    t = ⟨y, mo, d, h, mi, s, ms⟩ ∧ t.Valid := by
  unfold mkDT at hk
  split at hk
  · rename_i hc
    simp only [Option.some.injEq] at hk
    subst hk
    exact ⟨rfl, hc⟩
  · simp at hk

/-- **C16 / rejection (shape).** Text on which `datetimeISOParse` does not return null has exactly one of the two
anchored shapes over ASCII digits — nothing before, nothing after (no trailing newline), `T` and `Z` in upper case,
1 to 6 fraction digits. Contrapositive: everything else parses to null. -/
theorem iso_reject (offU : Int → Int) (cs : List Char) (t : DT) (h : isoParse offU cs = some t) :
    DateShape cs ∨ DateTimeShape cs := by
  unfold isoParse at h
  split at h
  · rename_i y mo d hd
    exact Or.inl (scanDate_shape hd)
  · split at h
    · simp at h
    · rename_i f hf
      exact Or.inr (scanDateTime_shape hf).1

/-- **C16 / rejection (fields).** … and its calendar fields are valid: year 1..9999, month 1..12, day within the month
(so `2024-02-30` and `2024-13-01T00:00:00Z` are null), hour ≤ 23, minute ≤ 59, second ≤ 59, offset `hh ≤ 23`, `mm ≤ 59`;
the result is a well-formed datetime. -/
theorem iso_reject_fields (offU : Int → Int) (cs : List Char) (t : DT) (h : isoParse offU cs = some t) :
    t.Valid ∧
    ((∃ y mo d : Nat, scanDate cs = some (y, mo, d) ∧ t = ⟨y, mo, d, 0, 0, 0, 0⟩) ∨
     (∃ f, scanDate cs = none ∧ scanDateTime cs = some f ∧
        DT.Valid ⟨f.year, f.month, f.day, f.hour, f.minute, f.second, (f.us / 1000 : Nat)⟩ ∧
        -86400 < f.off ∧ f.off < 86400 ∧ f.off % 60 = 0)) := by
  unfold isoParse at h
  split at h
  · rename_i y mo d hd
    have := mkDT_some h
    exact ⟨this.2, Or.inl ⟨y, mo, d, hd, this.1⟩⟩
  · rename_i hnone
    split at h
    · simp at h
    · rename_i f hf
      split at h
      · simp at h
      · rename_i t0 hk
        simp only [] at h
        split at h
        · simp at h
        · have hv := (toLocalMs_ofLocalMs h).1
          have h0 := mkDT_some hk
          refine ⟨hv, Or.inr ⟨f, hnone, hf, ?_, (scanDateTime_shape hf).2⟩⟩
          have := h0.2; rw [h0.1] at this; exact this


/-- non-vacuity: both shapes are inhabited, and the regression inputs of findings F10/F20 are rejected -/
example : isoParse (fun _ => 0) "2024-02-29".toList = some ⟨2024, 2, 29, 0, 0, 0, 0⟩ ∧
    isoParse (fun _ => 0) "2024-02-30".toList = none ∧
    isoParse (fun _ => 0) "2024-13-01T00:00:00Z".toList = none ∧
    isoParse (fun _ => 0) "2024-01-01\n".toList = none ∧
    isoParse (fun _ => 0) "2024-01-01T00:00:00+00:60".toList = none ∧
    isoParse (fun _ => 0) "2024-01-01T00:00:00.1234567Z".toList = none ∧
    isoParse (fun _ => 0) "2024-01-01t00:00:00Z".toList = none ∧
    isoParse (fun _ => 0) "2024-01-01T24:00:00Z".toList = none ∧
    isoParse (fun _ => 0) "0001-01-01T00:00:00+00:01".toList = none := by decide +kernel

end C16
