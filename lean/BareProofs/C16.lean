import BareProofs.C16Lemmas

open Datetime
namespace C16

theorem carry_1000 (x y : Int) : carry x y 1000 = (x % 1000, y + x / 1000) := by
  unfold carry; rw [pyFloorDiv_pos _ (by decide)]
  split <;> (apply Prod.ext <;> simp only [] <;> omega)

theorem carry_60 (x y : Int) : carry x y 60 = (x % 60, y + x / 60) := by
  unfold carry; rw [pyFloorDiv_pos _ (by decide)]
  split <;> (apply Prod.ext <;> simp only [] <;> omega)

theorem carry_24 (x y : Int) : carry x y 24 = (x % 24, y + x / 24) := by
  unfold carry; rw [pyFloorDiv_pos _ (by decide)]
  split <;> (apply Prod.ext <;> simp only [] <;> omega)

theorem monthNorm_eq (y mo : Int) : monthNorm y mo = (y + (mo - 1) / 12, (mo - 1) % 12 + 1) := by
  unfold monthNorm; rw [pyFloorDiv_pos _ (by decide)]
  split <;> (apply Prod.ext <;> simp only [] <;> omega)

/-- the carry chain is division of the total millisecond count -/
theorem time_split (h mi s ms T s1 mi1 h1 : Int) (hT : T = ((h * 60 + mi) * 60 + s) * 1000 + ms)
    (hs1 : s1 = s + ms / 1000) (hm1 : mi1 = mi + s1 / 60) (hh1 : h1 = h + mi1 / 60) :
    T / 86400000 = h1 / 24 ∧ T % 86400000 / 3600000 = h1 % 24 ∧ T % 86400000 / 60000 % 60 = mi1 % 60 ∧
      T % 86400000 / 1000 % 60 = s1 % 60 ∧ T % 86400000 % 1000 = ms % 1000 := by
  omega

/-- **C16 / normalisation.** For ALL integer arguments the carry chain, the month normalisation and the two day
loops of `_datetime_new` compute exactly proleptic-Gregorian ordinal arithmetic: the instant
`ordinal(first day of the normalised month) + (day − 1)` days `+` the total millisecond count, and `null`
(`none`) exactly when that instant lies outside years 1..9999 (where `datetime.datetime(...)` raises). -/
theorem datetimeNewCore_is_ordinal_arithmetic (y mo d h mi s ms : Int) :
    datetimeNewCore y mo d h mi s ms = datetimeNewSpec y mo d h mi s ms := by
  simp only [datetimeNewCore, carry_1000, carry_60, carry_24, monthNorm_eq, datetimeNewSpec, msPerDay]
  generalize hT : ((h * 60 + mi) * 60 + s) * 1000 + ms = T
  generalize hs1 : s + ms / 1000 = s1
  generalize hm1 : mi + s1 / 60 = mi1
  generalize hh1 : h + mi1 / 60 = h1
  obtain ⟨t1, t2, t3, t4, t5⟩ := time_split h mi s ms T s1 mi1 h1 hT.symm hs1.symm hm1.symm hh1.symm
  obtain ⟨y', m', d', hr, a1, a2, b1, b2, ho⟩ :=
    dayAdjust_spec (y + (mo - 1) / 12) ((mo - 1) % 12 + 1) (d + h1 / 24) (by omega) (by omega)
  rw [hr]
  simp only [construct]
  have hv : ValidMD y' m' d' := ⟨a1, a2, b1, b2⟩
  have hord : ymd2ord (y + (mo - 1) / 12) ((mo - 1) % 12 + 1) 1 + (d - 1) + T / 86400000 = ymd2ord y' m' d' := by
    simp only [ymd2ord_eq]; omega
  rw [hord]
  have hrange := year_range_iff hv
  simp only [mkDT, fromOrdinalMs, ord2ymd_ymd2ord hv, t2, t3, t4, t5]
  by_cases hy : 1 ≤ y' ∧ y' ≤ 9999
  · have h2 := hrange.1 hy
    rw [if_pos h2, if_pos (by omega)]
  · have h2 : ¬ (1 ≤ ymd2ord y' m' d' ∧ ymd2ord y' m' d' ≤ maxOrdinal) := fun c => hy (hrange.2 c)
    rw [if_neg h2, if_neg (by omega)]

/-- the same with the argument validation of `_DATETIME_NEW_ARGS` in front (what a script call does) -/
theorem datetimeNew_is_ordinal_arithmetic (y mo d h mi s ms : Int) :
    datetimeNew y mo d h mi s ms =
      if yearGte ≤ y ∧ dayGte ≤ d ∧ d ≤ dayLte then datetimeNewSpec y mo d h mi s ms else none := by
  unfold datetimeNew; rw [datetimeNewCore_is_ordinal_arithmetic]

/-! ### getters, and the integer-millisecond instant model -/

theorem tod_fields {tod : Int} (h0 : 0 ≤ tod) (h1 : tod < 86400000) :
    0 ≤ tod / 3600000 ∧ tod / 3600000 ≤ 23 ∧ 0 ≤ tod / 60000 % 60 ∧ tod / 60000 % 60 ≤ 59 ∧
    0 ≤ tod / 1000 % 60 ∧ tod / 1000 % 60 ≤ 59 ∧ 0 ≤ tod % 1000 ∧ tod % 1000 ≤ 999 ∧
    ((tod / 3600000 * 60 + tod / 60000 % 60) * 60 + tod / 1000 % 60) * 1000 + tod % 1000 = tod := by
  omega

/-- what `fromOrdinalMs` returns is a valid datetime whose parts recompose to the instant -/
theorem fromOrdinalMs_some {ord tod : Int} {t : DT} (h : fromOrdinalMs ord tod = some t)
    (h0 : 0 ≤ tod) (h1 : tod < msPerDay) : t.Valid ∧ toLocalMs t = (ord - 1) * msPerDay + tod := by
  unfold fromOrdinalMs at h
  split at h
  · rename_i hr
    have hs := ord2ymd_sound ord
    have hv := ord2ymd_valid ord
    have hy := (year_range_iff hv).2 (by rw [hs.2.2.2.2]; exact hr)
    obtain ⟨f1, f2, f3, f4, f5, f6, f7, f8, f9⟩ := tod_fields h0 h1
    simp only [Option.some.injEq] at h
    subst h
    refine ⟨⟨hy.1, hy.2, hs.1, hs.2.1, hs.2.2.1, hs.2.2.2.1, f1, f2, f3, f4, f5, f6, f7, f8⟩, ?_⟩
    simp only [toLocalMs, hs.2.2.2.2, f9]
  · simp at h

/-- a valid datetime is `fromOrdinalMs` of its own ordinal and time of day -/
theorem fromOrdinalMs_of_valid {t : DT} (hv : t.Valid) :
    fromOrdinalMs (ymd2ord t.year t.month t.day) (((t.hour * 60 + t.minute) * 60 + t.second) * 1000 + t.ms) = some t := by
  obtain ⟨y1, y2, m1, m2, d1, d2, a1, a2, b1, b2, c1, c2, e1, e2⟩ := hv
  have hmd : ValidMD t.year t.month t.day := ⟨m1, m2, d1, d2⟩
  have hr := (year_range_iff hmd).1 ⟨y1, y2⟩
  simp only [fromOrdinalMs, hr, and_self, if_true, ord2ymd_ymd2ord hmd]
  have q1 : (((t.hour * 60 + t.minute) * 60 + t.second) * 1000 + t.ms) / 3600000 = t.hour := by omega
  have q2 : (((t.hour * 60 + t.minute) * 60 + t.second) * 1000 + t.ms) / 60000 % 60 = t.minute := by omega
  have q3 : (((t.hour * 60 + t.minute) * 60 + t.second) * 1000 + t.ms) / 1000 % 60 = t.second := by omega
  have q4 : (((t.hour * 60 + t.minute) * 60 + t.second) * 1000 + t.ms) % 1000 = t.ms := by omega
  rw [q1, q2, q3, q4]

theorem tod_bounds {t : DT} (hv : t.Valid) :
    0 ≤ ((t.hour * 60 + t.minute) * 60 + t.second) * 1000 + t.ms ∧
      ((t.hour * 60 + t.minute) * 60 + t.second) * 1000 + t.ms < msPerDay := by
  obtain ⟨y1, y2, m1, m2, d1, d2, a1, a2, b1, b2, c1, c2, e1, e2⟩ := hv
  simp only [msPerDay]; omega

theorem ofLocalMs_toLocalMs {t : DT} (hv : t.Valid) : ofLocalMs (toLocalMs t) = some t := by
  have hb := tod_bounds hv
  have := fromOrdinalMs_of_valid hv
  simp only [msPerDay] at hb
  simp only [ofLocalMs, toLocalMs, msPerDay]
  have e1 : ((ymd2ord t.year t.month t.day - 1) * 86400000 +
      (((t.hour * 60 + t.minute) * 60 + t.second) * 1000 + t.ms)) / 86400000 + 1 = ymd2ord t.year t.month t.day := by omega
  have e2 : ((ymd2ord t.year t.month t.day - 1) * 86400000 +
      (((t.hour * 60 + t.minute) * 60 + t.second) * 1000 + t.ms)) % 86400000 =
      ((t.hour * 60 + t.minute) * 60 + t.second) * 1000 + t.ms := by omega
  rw [e1, e2]; exact this

theorem toLocalMs_ofLocalMs {x : Int} {t : DT} (h : ofLocalMs x = some t) : t.Valid ∧ toLocalMs t = x := by
  have := fromOrdinalMs_some h (Int.emod_nonneg x (by decide)) (Int.emod_lt_of_pos x (by decide))
  refine ⟨this.1, ?_⟩
  rw [this.2]; simp only [msPerDay]; omega

/-- **C16 / getters.** Whatever `datetimeNew` returns is a well-formed datetime; its getters (year, month, day, hour,
minute, second, millisecond) are the parts of the normalised instant — they recompose to
`ordinal(first of normalised month) + day − 1` days plus the total milliseconds — and feeding them back to
`datetimeNew` returns the same datetime (normalisation is idempotent). -/
theorem getters_roundtrip {y mo d h mi s ms : Int} {t : DT} (hnew : datetimeNewCore y mo d h mi s ms = some t) :
    t.Valid ∧
    toLocalMs t = (ymd2ord (y + (mo - 1) / 12) ((mo - 1) % 12 + 1) 1 - 1 + (d - 1)) * msPerDay +
      (((h * 60 + mi) * 60 + s) * 1000 + ms) ∧
    datetimeNewCore t.year t.month t.day t.hour t.minute t.second t.ms = some t := by
  rw [datetimeNewCore_is_ordinal_arithmetic] at hnew
  simp only [datetimeNewSpec] at hnew
  have hs := fromOrdinalMs_some hnew (Int.emod_nonneg _ (by decide)) (Int.emod_lt_of_pos _ (by decide))
  refine ⟨hs.1, ?_, ?_⟩
  · rw [hs.2]; simp only [msPerDay]; omega
  · rw [datetimeNewCore_is_ordinal_arithmetic]
    obtain ⟨y1, y2, m1, m2, d1, d2, a1, a2, b1, b2, c1, c2, e1, e2⟩ := hs.1
    have hT := tod_bounds hs.1
    simp only [msPerDay] at hT
    simp only [datetimeNewSpec, msPerDay]
    have k1 : t.year + (t.month - 1) / 12 = t.year := by omega
    have k2 : (t.month - 1) % 12 + 1 = t.month := by omega
    have k3 : (((t.hour * 60 + t.minute) * 60 + t.second) * 1000 + t.ms) / 86400000 = 0 := by omega
    have k4 : (((t.hour * 60 + t.minute) * 60 + t.second) * 1000 + t.ms) % 86400000 =
        ((t.hour * 60 + t.minute) * 60 + t.second) * 1000 + t.ms := by omega
    rw [k1, k2, k3, k4]
    have k5 : ymd2ord t.year t.month 1 + (t.day - 1) + 0 = ymd2ord t.year t.month t.day := by
      simp only [ymd2ord]; omega
    rw [k5]
    exact fromOrdinalMs_of_valid hs.1

/-- **C16 / arithmetic.** Adding an integral number `n` of milliseconds and then subtracting the original datetime
gives `n` (whenever the sum is a datetime at all, i.e. stays within years 1..9999; otherwise the sum is `null`). -/
theorem add_sub_ms {t t' : DT} {n : Int} (h : addMs t n = some t') : subMs t' t = n ∧ t'.Valid := by
  have := toLocalMs_ofLocalMs h
  exact ⟨by simp only [subMs, this.2]; omega, this.1⟩

/-- the sum is `null` exactly when it leaves years 1..9999 -/
theorem add_none_iff (t : DT) (n : Int) :
    addMs t n = none ↔ ¬ (1 ≤ (toLocalMs t + n) / msPerDay + 1 ∧ (toLocalMs t + n) / msPerDay + 1 ≤ maxOrdinal) := by
  simp only [addMs, ofLocalMs, fromOrdinalMs]
  split <;> simp_all

/-- adding zero is the identity; adding in two steps is adding the sum -/
theorem add_zero {t : DT} (hv : t.Valid) : addMs t 0 = some t := by
  simp only [addMs, Int.add_zero]; exact ofLocalMs_toLocalMs hv

theorem add_add {t t' : DT} {a b : Int} (h : addMs t a = some t') : addMs t' b = addMs t (a + b) := by
  have := toLocalMs_ofLocalMs h
  simp only [addMs, this.2, Int.add_assoc]

end C16
