import BareProofs.C16Lemmas

open Datetime
namespace C16

theorem carry_1000 (x y : Int) : carry x y 1000 = (x % 1000, y + x / 1000) := by
  unfold carry; rw [pyFloorDiv_pos _ (by decide)]
  split <;> (apply Prod.ext <;> simp only [] <;> omega)

theorem carry_60 (x y : Int) : carry x y 60 = (x % 60, y + x / 60) := by
  unfold carry; rw [pyFloorDiv_pos _ (by decide)]
  split <;> (apply Prod.ext <;> simp only [] <;> omega)

theorem carry_24 (x y : Int) : carry x y 24 = (x % 24, y + x / 24) := by
  unfold carry; rw [pyFloorDiv_pos _ (by decide)]
  split <;> (apply Prod.ext <;> simp only [] <;> omega)

theorem monthNorm_eq (y mo : Int) : monthNorm y mo = (y + (mo - 1) / 12, (mo - 1) % 12 + 1) := by
  unfold monthNorm; rw [pyFloorDiv_pos _ (by decide)]
  split <;> (apply Prod.ext <;> simp only [] <;> omega)

/-- the carry chain is division of the total millisecond count -/
theorem time_split (h mi s ms : Int) :
    let T := ((h * 60 + mi) * 60 + s) * 1000 + ms
    let s1 := s + ms / 1000
    let mi1 := mi + s1 / 60
    let h1 := h + mi1 / 60
    T / 86400000 = h1 / 24 ∧ T % 86400000 / 3600000 = h1 % 24 ∧ T % 86400000 / 60000 % 60 = mi1 % 60 ∧
      T % 86400000 / 1000 % 60 = s1 % 60 ∧ T % 86400000 % 1000 = ms % 1000 := by
  intro T s1 mi1 h1
  omega

/-- **C16 / normalisation.** For ALL integer arguments the carry chain, the month normalisation and the two day
loops of `_datetime_new` compute exactly proleptic-Gregorian ordinal arithmetic: the instant
`ordinal(first day of the normalised month) + (day − 1)` days `+` the total millisecond count, and `null`
(`none`) exactly when that instant lies outside years 1..9999 (where `datetime.datetime(...)` raises). -/
theorem datetimeNewCore_is_ordinal_arithmetic (y mo d h mi s ms : Int) :
    datetimeNewCore y mo d h mi s ms = datetimeNewSpec y mo d h mi s ms := by
  obtain ⟨t1, t2, t3, t4, t5⟩ := time_split h mi s ms
  simp only [datetimeNewCore, carry_1000, carry_60, carry_24, monthNorm_eq, datetimeNewSpec, msPerDay]
  simp only [] at t1 t2 t3 t4 t5
  generalize ((h * 60 + mi) * 60 + s) * 1000 + ms = T at *
  generalize hs1 : s + ms / 1000 = s1 at *
  generalize hm1 : mi + s1 / 60 = mi1 at *
  generalize hh1 : h + mi1 / 60 = h1 at *
  obtain ⟨y', m', d', hr, a1, a2, b1, b2, ho⟩ :=
    dayAdjust_spec (y + (mo - 1) / 12) ((mo - 1) % 12 + 1) (d + h1 / 24) (by omega) (by omega)
  rw [hr]
  have hv : ValidMD y' m' d' := ⟨a1, a2, b1, b2⟩
  have hord : ymd2ord (y + (mo - 1) / 12) ((mo - 1) % 12 + 1) 1 + (d - 1) + T / 86400000 = ymd2ord y' m' d' := by
    simp only [ymd2ord_eq]; omega
  rw [hord]
  have hrange := year_range_iff hv
  simp only [mkDT, fromOrdinalMs, ord2ymd_ymd2ord hv, t2, t3, t4, t5]
  by_cases hy : 1 ≤ y' ∧ y' ≤ 9999
  · have h2 := hrange.1 hy
    rw [if_pos h2, if_pos (by omega)]
  · have h2 : ¬ (1 ≤ ymd2ord y' m' d' ∧ ymd2ord y' m' d' ≤ maxOrdinal) := fun c => hy (hrange.2 c)
    rw [if_neg h2, if_neg (by omega)]

/-- the same with the argument validation of `_DATETIME_NEW_ARGS` in front (what a script call does) -/
theorem datetimeNew_is_ordinal_arithmetic (y mo d h mi s ms : Int) :
    datetimeNew y mo d h mi s ms =
      if yearGte ≤ y ∧ dayGte ≤ d ∧ d ≤ dayLte then datetimeNewSpec y mo d h mi s ms else none := by
  unfold datetimeNew; rw [datetimeNewCore_is_ordinal_arithmetic]

end C16
