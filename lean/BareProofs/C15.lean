import BareProofs.C15Spec
import BareProofs.C15Text
import BareProofs.C15Str

/-!
# C15 — array, object and string functions obey their sequence / map / string contracts

Model: `BareModel/Lib.lean` (mirror of library.py + value_args_validate + the call wrapper, argument models and failure
values read from the generated tables) and `BareModel/LibSpec.lean` (documented signatures and reference operations).
All theorems hold for every heap, every argument list (well-typed or not, any length) and every history.

* `sig_table`, `fail_table`, `raw_table`   the generated argument models / failure values / safe sets are the documented ones
* `bodies_shape` (C15Lemmas)               every function of the table: a store goes to the first argument, only mutators store, …
* `lib_frame`, `lib_frame_kind`, `lib_length`   frame: only the first argument of a mutator changes; the heap only grows
* `lib_fresh`                              copies / slices / new containers are new cells
* `lib_fail_unchanged`, `lib_invalid_fails` failing calls: documented failure value, heap unchanged; invalid arguments do fail
* `validate_num` (C15Spec)                 a validated index is integral and non-negative (or the default)
* `lib_spec_partial`                       mirror = reference operations on natural indices (see its comment for what is left out)
* `history_refines`, `history_env`, `history_frame`, `alias_same`   lifted to all histories
* `dictGet_dictSet`, `dictGet_dictDel`, `dictSet_keys`   the map contract
* `findFrom_spec`, `lastMatch_spec`, `split_join`, `replace_split_join` (C15Str)   find = least match, rfind = greatest, split/join/replace
* `regexEscape_literal`, `urlEncode_reversible`, `quoteByte_ascii` (C15Text)
-/

namespace C15
open Lib

/-! ## the anatomy of a call -/

/-- a call is unmodelled, or fails validation with the failure value of the generated table, or is a table body on validated
arguments, or a raw-argument body -/
theorem eff_cases (f : String) (args : List Value) (h : Heap) :
    eff f args h = .unmodelled ∨
    (∃ mn ft ms b fv, Gen.libFns.lookup f = some (mn, ft) ∧ Gen.argModels.lookup mn = some ms ∧ (f, b) ∈ bodies ∧
      failValue ft args = some fv ∧ validate h ms args = none ∧ eff f args h = .fail fv) ∨
    (∃ b ms va, (f, b) ∈ bodies ∧ validate h ms args = some va ∧ eff f args h = b va h) ∨
    (∃ b, (f, b) ∈ rawBodies ∧ eff f args h = b args h) := by
  unfold eff
  split
  · exact Or.inl rfl
  · rename_i mn ft hl
    split
    · split
      · rename_i hb
        exact Or.inr (Or.inr (Or.inr ⟨_, lookup_mem hb, rfl⟩))
      · exact Or.inl rfl
    · split
      · rename_i hms hb hfv
        split
        · rename_i hva
          exact Or.inr (Or.inl ⟨mn, ft, _, _, _, hl, hms, lookup_mem hb, hfv, hva, rfl⟩)
        · rename_i hva
          exact Or.inr (Or.inr (Or.inl ⟨_, _, _, lookup_mem hb, hva, rfl⟩))
      · exact Or.inl rfl

/-- the cell a call may overwrite is the container passed first, and only mutators overwrite -/
theorem eff_store (f : String) (args : List Value) (h : Heap) (r : Nat) (c : Cell) (v : Value)
    (he : eff f args h = .store r c v) :
    f ∈ mutators ∧ ((∃ as xs, args = .arr r :: as ∧ c = .arr xs) ∨ (∃ as kvs, args = .obj r :: as ∧ c = .obj kvs)) := by
  rcases eff_cases f args h with hu | ⟨_, _, _, _, w, _, _, _, _, _, hw⟩ | ⟨b, ms, va, hb, hva, hbe⟩ | ⟨b, hb, hbe⟩
  · rw [hu] at he; cases he
  · rw [hw] at he; cases he
  · have hs : Shape f b := bodies_shape _ hb
    have hs := hs va h
    rw [← hbe, he] at hs
    refine ⟨?_, ?_⟩
    · refine Classical.byContradiction fun hn => ?_
      exact hs.2.1 hn
    · rcases hs.1 with ⟨rest, xs, rfl, rfl⟩ | ⟨rest, kvs, rfl, rfl⟩
      · obtain ⟨as, rfl⟩ := validate_head_ref h ms args _ _ hva (by simp [IsRef])
        exact Or.inl ⟨as, xs, rfl, rfl⟩
      · obtain ⟨as, rfl⟩ := validate_head_ref h ms args _ _ hva (by simp [IsRef])
        exact Or.inr ⟨as, kvs, rfl, rfl⟩
  · have hs : RawShape f b := rawBodies_shape _ hb
    have hs := (hs args h).1
    rw [← hbe, he] at hs
    exact absurd hs (by simp [NoStore])

/-! ## frame -/

/-- **Frame.** A call changes no existing cell except — for the nine mutators — the cell of the container passed as first
argument. In particular non-mutators (copies, slices, searches, every string function) leave every existing container as it
was, and a mutator leaves every container other than its first argument as it was. (Allocation only appends.) -/
theorem lib_frame (f : String) (args : List Value) (h : Heap) (r : Nat) (hr : r < h.length)
    (hnot : ¬ (f ∈ mutators ∧ (args.head? = some (.arr r) ∨ args.head? = some (.obj r)))) :
    (lib f args h).2[r]? = h[r]? := by
  unfold lib
  apply run_frame _ _ _ hr
  intro r' c v he hrr
  subst hrr
  obtain ⟨hm, hargs⟩ := eff_store f args h r' c v he
  apply hnot
  refine ⟨hm, ?_⟩
  rcases hargs with ⟨as, xs, rfl, _⟩ | ⟨as, kvs, rfl, _⟩
  · exact Or.inl rfl
  · exact Or.inr rfl

/-- a mutator keeps the kind of the cell it overwrites (an array stays an array, an object an object) -/
theorem lib_frame_kind (f : String) (args : List Value) (h : Heap) (r : Nat) (c : Cell) (v : Value)
    (he : eff f args h = .store r c v) :
    (args.head? = some (.arr r) ∧ ∃ xs, c = .arr xs) ∨ (args.head? = some (.obj r) ∧ ∃ kvs, c = .obj kvs) := by
  rcases (eff_store f args h r c v he).2 with ⟨as, xs, rfl, rfl⟩ | ⟨as, kvs, rfl, rfl⟩
  · exact Or.inl ⟨rfl, xs, rfl⟩
  · exact Or.inr ⟨rfl, kvs, rfl⟩

/-- the heap never shrinks and only allocators grow it -/
theorem lib_length (f : String) (args : List Value) (h : Heap) :
    h.length ≤ (lib f args h).2.length ∧ (f ∉ allocators → (lib f args h).2.length = h.length) := by
  refine ⟨run_length_le _ _, fun hna => ?_⟩
  unfold lib
  have hno : ∀ c, eff f args h ≠ .alloc c := by
    intro c he
    rcases eff_cases f args h with hu | ⟨_, _, _, _, w, _, _, _, _, _, hw⟩ | ⟨b, ms, va, hb, hva, hbe⟩ | ⟨b, hb, hbe⟩
    · rw [hu] at he; cases he
    · rw [hw] at he; cases he
    · have hs : Shape f b := bodies_shape _ hb
      have hs := (hs va h).2.2.2.2 hna
      rw [← hbe, he] at hs
      exact absurd hs (by simp [NoAlloc])
    · have hs : RawShape f b := rawBodies_shape _ hb
      have hs := (hs args h).2.2.2 hna
      rw [← hbe, he] at hs
      exact absurd hs (by simp [PureLike])
  cases he : eff f args h with
  | alloc c => exact absurd he (hno c)
  | store r c v => simp [Eff.run]
  | _ => simp [Eff.run]

/-! ## freshness -/

/-- **Freshness.** A successful `arrayCopy`, `arrayNew`, `arrayNewSize`, `arraySlice`, `objectCopy`, `objectKeys`,
`objectNew` or `stringSplit` returns a reference that is not allocated in the heap before the call (it is `h.length`), and the
heap after the call is the old heap plus exactly that one new cell: nothing that existed is touched, so the result shares no
cell with any argument. -/
theorem lib_fresh (f : String) (hf : f ∈ allocators) (args : List Value) (h h' : Heap) (v : Value)
    (hok : lib f args h = (.ok v, h')) :
    ∃ c, h' = h ++ [c] ∧ v = refOf c h.length ∧ h'[h.length]? = some c ∧ ∀ r, r < h.length → h'[r]? = h[r]? := by
  unfold lib at hok
  have hal : AllocLike (eff f args h) := by
    rcases eff_cases f args h with hu | ⟨_, _, _, _, w, _, _, _, _, _, hw⟩ | ⟨b, ms, va, hb, hva, hbe⟩ | ⟨b, hb, hbe⟩
    · rw [hu]; simp [AllocLike]
    · rw [hw]; simp [AllocLike]
    · rw [hbe]
      have hs : Shape f b := bodies_shape _ hb
      exact (hs va h).2.2.1 hf
    · rw [hbe]
      have hs : RawShape f b := rawBodies_shape _ hb
      exact (hs args h).2.2.1 hf
  cases he : eff f args h with
  | alloc c =>
    rw [he] at hok
    simp only [Eff.run, Prod.mk.injEq, Res.ok.injEq] at hok
    obtain ⟨rfl, rfl⟩ := hok
    refine ⟨c, rfl, rfl, by simp, fun r hr => List.getElem?_append_left hr⟩
  | ret w => rw [he] at hal; simp [AllocLike] at hal
  | store r c w => rw [he] at hal; simp [AllocLike] at hal
  | fail w => rw [he] at hok; simp [Eff.run] at hok
  | unmodelled => rw [he] at hok; simp [Eff.run] at hok

/-! ## failing calls -/

theorem searchRes_ne_fail (x : Option (Option Int)) (v : Value) : searchRes x ≠ .fail v := by
  rcases x with _ | _ | _ <;> simp [searchRes]

theorem fromCodes_fail (vs : List Value) (acc : List Char) (v : Value) (hv : fromCodes vs acc = .fail v) : v = .null := by
  induction vs generalizing acc with
  | nil => simp [fromCodes] at hv
  | cons w ws ih =>
    unfold fromCodes at hv
    split at hv
    · split at hv
      · cases hv
      · cases hv; rfl
    · cases hv; rfl
    · exact ih _ hv

macro "fail_cases" h:ident : tactic =>
  `(tactic| ((repeat' (split at $h:ident)) <;> (try (simp_all [Spec.docFail]; done)) <;>
      (try exact absurd $h:ident (searchRes_ne_fail _ _))))

/-- **every function in the table** raises only its documented failure value -/
theorem bodies_fail : ∀ p ∈ bodies, ∀ va h v args, p.2 va h = .fail v → v = Spec.docFail p.1 args := by
  intro p hp va h v args hv
  simp only [bodies, List.mem_cons, List.not_mem_nil, or_false] at hp
  rcases hp with rfl | rfl | rfl | rfl | rfl | rfl | rfl | rfl | rfl | rfl | rfl | rfl | rfl | rfl | rfl | rfl | rfl | rfl | rfl |
    rfl | rfl | rfl | rfl | rfl | rfl | rfl | rfl | rfl | rfl | rfl | rfl | rfl | rfl | rfl | rfl | rfl | rfl
  all_goals simp only at hv
  · unfold arrayCopyB at hv; fail_cases hv
  · unfold arrayDeleteB at hv; fail_cases hv
  · unfold arrayExtendB at hv; fail_cases hv
  · unfold arrayGetB at hv; fail_cases hv
  · unfold arrayIndexOfB at hv; fail_cases hv
  · unfold arrayJoinB at hv; fail_cases hv
  · unfold arrayLastIndexOfB at hv; fail_cases hv
  · unfold arrayLengthB at hv; fail_cases hv
  · unfold arrayNewSizeB at hv; fail_cases hv
  · unfold arrayPopB at hv; fail_cases hv
  · unfold arrayPushB at hv; fail_cases hv
  · unfold arraySetB at hv; fail_cases hv
  · unfold arrayShiftB at hv; fail_cases hv
  · unfold arraySliceB at hv; fail_cases hv
  · unfold objectAssignB at hv; fail_cases hv
  · unfold objectCopyB at hv; fail_cases hv
  · unfold objectDeleteB at hv; fail_cases hv
  · unfold objectGetB at hv; fail_cases hv
  · unfold objectHasB at hv; fail_cases hv
  · unfold objectKeysB at hv; fail_cases hv
  · unfold objectSetB at hv; fail_cases hv
  · unfold stringCharCodeAtB at hv; fail_cases hv
  · unfold stringEndsWithB at hv; fail_cases hv
  · unfold stringIndexOfB at hv; fail_cases hv
  · unfold stringLastIndexOfB at hv; fail_cases hv
  · unfold stringLengthB at hv; fail_cases hv
  · unfold stringLowerB at hv; fail_cases hv
  · unfold stringRepeatB at hv; fail_cases hv
  · unfold stringReplaceB at hv; fail_cases hv
  · unfold stringSliceB at hv; fail_cases hv
  · unfold stringSplitB at hv; fail_cases hv
  · unfold stringStartsWithB at hv; fail_cases hv
  · unfold stringTrimB at hv; fail_cases hv
  · unfold stringUpperB at hv; fail_cases hv
  · unfold regexEscapeB at hv; fail_cases hv
  · unfold urlEncodeB at hv; fail_cases hv
  · unfold urlEncodeB at hv; fail_cases hv

/-! ### the generated tables are the documented ones -/

/-- names of the functions that validate their arguments against a model -/
def modelled : List String := bodies.map (·.1)

/-- the documented failure value as it is written in the source -/
def docFailTxt (f : String) : String :=
  if f == "arrayIndexOf" || f == "arrayLastIndexOf" || f == "stringIndexOf" || f == "stringLastIndexOf" then "-1"
  else if f == "arrayLength" || f == "stringLength" then "0"
  else if f == "objectHas" then "false"
  else if f == "objectGet" then "<dynamic>"
  else "null"

/-- **Generated table obligation.** The failure value each function passes to `value_args_validate` in the working tree
(`Gen.libFns`, re-extracted on every run) is the documented one. -/
theorem fail_table : ∀ f ∈ modelled, (Gen.libFns.lookup f).map Prod.snd = some (docFailTxt f) := by decide

/-- **Generated table obligation.** The argument model of each function in the working tree (`Gen.argModels` via
`Gen.libFns`) is the documented signature: names, types, which arguments are optional / nullable, which are indices
(`integer`, `gte 0`), defaults, `lastArgArray`. -/
theorem sig_table : ∀ f ∈ modelled,
    (Gen.libFns.lookup f).bind (fun p => Gen.argModels.lookup p.1) = Spec.docSig.lookup f := by decide

/-- the three variadic functions have no argument model, the URL `safe` sets are the documented ones -/
theorem raw_table : (∀ f ∈ Spec.rawFns, (Gen.libFns.lookup f).map Prod.fst = some "") ∧
    (∀ f ∈ modelled, (Gen.libFns.lookup f).map Prod.fst ≠ some "") ∧
    Gen.urlSafe.lookup "urlEncode" = some (Spec.docSafe "urlEncode") ∧
    Gen.urlSafe.lookup "urlEncodeComponent" = some (Spec.docSafe "urlEncodeComponent") := by decide

theorem failValue_docFailTxt (f : String) (args : List Value) :
    failValue (docFailTxt f) args = some (Spec.docFail f args) := by
  unfold docFailTxt Spec.docFail
  split
  · rfl
  · split
    · rfl
    · split
      · rfl
      · split <;> rfl

theorem mem_modelled {f : String} {b} (hb : (f, b) ∈ bodies) : f ∈ modelled :=
  List.mem_map.mpr ⟨(f, b), hb, rfl⟩

/-- **Failure.** A failing call — wrong-typed, missing or surplus argument (validation), index out of range, empty array to
pop/shift, empty separator, non-string key, invalid code point (bodies) — leaves the heap exactly as it was, and the value
the call evaluates to is the documented failure value: `-1` for `arrayIndexOf`/`arrayLastIndexOf`/`stringIndexOf`/
`stringLastIndexOf`, `0` for `arrayLength`/`stringLength`, `false` for `objectHas`, the caller's default for `objectGet`,
`null` for everything else. -/
theorem lib_fail_unchanged (f : String) (args : List Value) (h : Heap) (v : Value)
    (hf : (lib f args h).1 = .fail v) : (lib f args h).2 = h ∧ v = Spec.docFail f args := by
  unfold lib at hf ⊢
  have he := run_fail hf
  refine ⟨by rw [he]; rfl, ?_⟩
  rcases eff_cases f args h with hu | ⟨mn, ft, ms, b, fv, hl, hms, hb, hfv, hva, hw⟩ | ⟨b, ms, va, hb, hva, hbe⟩ | ⟨b, hb, hbe⟩
  · rw [hu] at he; cases he
  · rw [hw] at he
    cases he
    have ht := fail_table f (mem_modelled hb)
    rw [hl] at ht
    simp only [Option.map_some, Option.some.injEq] at ht
    subst ht
    have := failValue_docFailTxt f args
    rw [hfv] at this
    exact Option.some.inj this
  · rw [hbe] at he
    exact bodies_fail _ hb va h v args he
  · rw [hbe] at he
    simp only [rawBodies, List.mem_cons, List.not_mem_nil, or_false, Prod.mk.injEq] at hb
    rcases hb with ⟨rfl, rfl⟩ | ⟨rfl, rfl⟩ | ⟨rfl, rfl⟩
    · simp [arrayNewR] at he
    · unfold objectNewR at he
      split at he
      · cases he
      · cases he; rfl
    · exact fromCodes_fail _ _ _ he

/-- conversely, a call whose arguments do not validate against the documented signature fails (with that value) -/
theorem lib_invalid_fails (f : String) (hf : f ∈ modelled) (args : List Value) (h : Heap) (ms : List Gen.ArgModel)
    (hms : Spec.docSig.lookup f = some ms) (hbad : validate h ms args = none) :
    lib f args h = (.fail (Spec.docFail f args), h) := by
  have hs := sig_table f hf
  have ht := fail_table f hf
  have hr := raw_table.2.1 f hf
  obtain ⟨b, hb⟩ : ∃ b, bodies.lookup f = some b := by
    revert hf; unfold modelled
    intro hf
    have : ∀ (l : List (String × (List VArg → Heap → Eff))), f ∈ l.map (·.1) → ∃ b, l.lookup f = some b := by
      intro l
      induction l with
      | nil => simp
      | cons p l ih =>
        intro hm
        obtain ⟨k, b⟩ := p
        rw [List.lookup_cons]
        by_cases hk : f == k
        · simp [hk]
        · simp only [hk]
          simp only [List.map_cons, List.mem_cons] at hm
          rcases hm with rfl | hm
          · simp at hk
          · exact ih hm
    exact this _ hf
  cases hl : Gen.libFns.lookup f with
  | none => rw [hl] at ht; simp at ht
  | some p =>
    obtain ⟨mn, ft⟩ := p
    rw [hl] at hs ht hr
    simp only [Option.map_some, Option.some.injEq] at ht
    simp only [Option.bind_some, hms] at hs
    simp only [Option.map_some, ne_eq, Option.some.injEq] at hr
    subst ht
    unfold lib eff
    simp only [hl, hs, hb, failValue_docFailTxt, hbad, Eff.run]
    have : (mn == "") = false := by simpa using hr
    simp [this]

/-! ## the Python-shaped model computes the reference operations -/

theorem lookup_none_of_not_mem {β} (l : List (String × β)) (f : String) (hf : f ∉ l.map (·.1)) : l.lookup f = none := by
  induction l with
  | nil => rfl
  | cons p l ih =>
    obtain ⟨k, b⟩ := p
    simp only [List.map_cons, List.mem_cons, not_or] at hf
    rw [List.lookup_cons]
    have : (f == k) = false := by simpa using hf.1
    simp only [this]
    exact ih hf.2

theorem modelled_not_raw : ∀ f ∈ modelled, Spec.rawFns.contains f = false := by decide

/-- one function: if its body agrees with the reference body on validated arguments, the whole call agrees -/
theorem eff_eq_of_body (f : String) (hf : f ∈ modelled) (ms : List Gen.ArgModel) (b sb : List VArg → Heap → Eff)
    (hms : Spec.docSig.lookup f = some ms) (hb : bodies.lookup f = some b) (hsb : Spec.specBodies.lookup f = some sb)
    (hbody : ∀ args h va, validate h ms args = some va → b va h = sb va h) (args : List Value) (h : Heap) :
    eff f args h = Spec.specEff f args h := by
  have hs := sig_table f hf
  have ht := fail_table f hf
  have hr := raw_table.2.1 f hf
  cases hl : Gen.libFns.lookup f with
  | none => rw [hl] at ht; simp at ht
  | some p =>
    obtain ⟨mn, ft⟩ := p
    rw [hl] at hs ht hr
    simp only [Option.map_some, Option.some.injEq] at ht
    simp only [Option.bind_some, hms] at hs
    simp only [Option.map_some, ne_eq, Option.some.injEq] at hr
    subst ht
    have hmn : (mn == "") = false := by simpa using hr
    unfold eff Spec.specEff
    simp only [hl, hs, hb, failValue_docFailTxt, hmn, modelled_not_raw f hf, hms, hsb, Bool.false_eq_true, if_false]
    cases hv : validate h ms args with
    | none => rfl
    | some va => exact hbody args h va hv

macro "same_body" : tactic => `(tactic| exact eff_eq_of_body _ (by decide) _ _ _ rfl rfl rfl (fun _ _ _ _ => rfl) _ _)

/-- **Specification.** For every function name, every argument list and every heap the Python-shaped model of the call
(argument models and failure values from the working tree, `int()` truncation, explicit range tests, Python item access with
wrap-around, clamping slices, `range` loops, `str.find`/`rfind` with adjusted bounds) is the reference operation of the
documented contract on natural-number indices: same result, same failure value, same new heap.

`_partial`: the full property speaks about every call of every array*/object*/string*/regexEscape/urlEncode* function. Proved
here: the equation for **all** names, arguments and heaps — but on the following inputs both sides are the outcome
`unmodelled` (the model makes no claim, the correspondence harness skips the result): the match-function form of
`arrayIndexOf`/`arrayLastIndexOf`; `arrayJoin` over non-integral numbers, datetimes, arrays or objects (needs float `repr`, the
time zone, JSON); `stringLower`/`stringUpper` on non-ASCII text; `stringFromCharCode` of a surrogate; comparison through a cyclic
or dangling heap (F18); `arraySort`, `stringNew` and every name outside the table. For functions whose Python body already is a
plain list / assoc-list / code-point operation the reference operation is that same operation; its contract is stated
separately (`dictGet_dictSet`, `dictGet_dictDel`, `dictSet_keys`, `findFrom_spec`, `lastMatch_spec`, `split_join`,
`replace_split_join`, `regexEscape_literal`, `urlEncode_reversible`); `stringTrim`, `stringLower/Upper`, `stringStartsWith/EndsWith`
have no separate contract theorem (they are `dropWhile isSpace`, ASCII case mapping, `isPrefixOf`/`isSuffixOf` by definition). -/
theorem lib_spec_partial (f : String) (args : List Value) (h : Heap) : eff f args h = Spec.specEff f args h := by
  by_cases hm : f ∈ modelled
  · simp only [modelled, bodies, List.map_cons, List.map_nil, List.mem_cons, List.not_mem_nil, or_false] at hm
    rcases hm with rfl | rfl | rfl | rfl | rfl | rfl | rfl | rfl | rfl | rfl | rfl | rfl | rfl | rfl | rfl | rfl | rfl | rfl | rfl |
      rfl | rfl | rfl | rfl | rfl | rfl | rfl | rfl | rfl | rfl | rfl | rfl | rfl | rfl | rfl | rfl | rfl | rfl
    · same_body
    · exact eff_eq_of_body _ (by decide) _ _ _ rfl rfl rfl (fun a h va hv => arrayDelete_body a h va hv) _ _
    · same_body
    · exact eff_eq_of_body _ (by decide) _ _ _ rfl rfl rfl (fun a h va hv => arrayGet_body a h va hv) _ _
    · exact eff_eq_of_body _ (by decide) _ _ _ rfl rfl rfl (fun a h va hv => arrayIndexOf_body a h va hv) _ _
    · same_body
    · exact eff_eq_of_body _ (by decide) _ _ _ rfl rfl rfl (fun a h va hv => arrayLastIndexOf_body a h va hv) _ _
    · same_body
    · exact eff_eq_of_body _ (by decide) _ _ _ rfl rfl rfl (fun a h va hv => arrayNewSize_body a h va hv) _ _
    · same_body
    · same_body
    · exact eff_eq_of_body _ (by decide) _ _ _ rfl rfl rfl (fun a h va hv => arraySet_body a h va hv) _ _
    · same_body
    · exact eff_eq_of_body _ (by decide) _ _ _ rfl rfl rfl (fun a h va hv => arraySlice_body a h va hv) _ _
    · same_body
    · same_body
    · same_body
    · same_body
    · same_body
    · same_body
    · same_body
    · exact eff_eq_of_body _ (by decide) _ _ _ rfl rfl rfl (fun a h va hv => stringCharCodeAt_body a h va hv) _ _
    · same_body
    · exact eff_eq_of_body _ (by decide) _ _ _ rfl rfl rfl (fun a h va hv => stringIndexOf_body a h va hv) _ _
    · exact eff_eq_of_body _ (by decide) _ _ _ rfl rfl rfl (fun a h va hv => stringLastIndexOf_body a h va hv) _ _
    · same_body
    · same_body
    · exact eff_eq_of_body _ (by decide) _ _ _ rfl rfl rfl (fun a h va hv => stringRepeat_body a h va hv) _ _
    · same_body
    · exact eff_eq_of_body _ (by decide) _ _ _ rfl rfl rfl (fun a h va hv => stringSlice_body a h va hv) _ _
    · same_body
    · same_body
    · same_body
    · same_body
    · same_body
    · same_body
    · same_body
  · by_cases hr : f ∈ Spec.rawFns
    · simp only [Spec.rawFns, List.mem_cons, List.not_mem_nil, or_false] at hr
      rcases hr with rfl | rfl | rfl <;> rfl
    · have hb : bodies.lookup f = none := lookup_none_of_not_mem _ _ hm
      have hrb : rawBodies.lookup f = none := lookup_none_of_not_mem _ _ hr
      have hds : Spec.docSig.lookup f = none := lookup_none_of_not_mem _ _ hm
      have hrc : Spec.rawFns.contains f = false := by simpa using hr
      unfold eff Spec.specEff
      simp only [hb, hrb, hds, hrc, Bool.false_eq_true, if_false]
      cases Gen.libFns.lookup f with
      | none => rfl
      | some p =>
        obtain ⟨mn, ft⟩ := p
        simp only
        split
        · rfl
        · cases Gen.argModels.lookup mn <;> rfl

/-- the same for the call through the wrapper -/
theorem lib_eq_specLib : lib = Spec.specLib := by
  funext f args h
  simp only [lib, Spec.specLib, lib_spec_partial]

/-! ## histories -/

theorem step_spec (s : St) (c : Call) : step lib s c = step Spec.specLib s c := by rw [lib_eq_specLib]

/-- **history_refines.** For every sequence of calls issued from a script (any length, any arguments, any initial pool)
the state reached by the Python-shaped model — all variables and the whole heap — is the fold of the reference operations.
Variables bound to the same container hold the same reference, so every alias observes exactly the contents the reference
sequence / map gives. -/
theorem history_refines (cs : List Call) (s : St) : runHistory lib cs s = runHistory Spec.specLib cs s := by
  induction cs generalizing s with
  | nil => rfl
  | cons c cs ih =>
    simp only [runHistory, List.foldl_cons] at ih ⊢
    rw [step_spec]
    exact ih _

/-- variables are never rebound: a history only appends one result per call -/
theorem history_env (L : LibT) (cs : List Call) (s : St) :
    ∃ rs, rs.length = cs.length ∧ (runHistory L cs s).env = s.env ++ rs := by
  induction cs generalizing s with
  | nil => exact ⟨[], rfl, by simp [runHistory]⟩
  | cons c cs ih =>
    obtain ⟨rs, hl, he⟩ := ih (step L s c)
    refine ⟨(L c.fn (c.args.map (evalArg s.env)) s.heap).1.val :: rs, by simp [hl], ?_⟩
    simp only [runHistory, List.foldl_cons] at he ⊢
    rw [he]
    simp [step]

/-- the heap only grows along a history -/
theorem history_heap_le (cs : List Call) (s : St) : s.heap.length ≤ (runHistory lib cs s).heap.length := by
  induction cs generalizing s with
  | nil => exact Nat.le_refl _
  | cons c cs ih =>
    simp only [runHistory, List.foldl_cons] at ih ⊢
    exact Nat.le_trans (lib_length c.fn _ s.heap).1 (ih (step lib s c))

/-- container `r` is never passed first to a mutator along the history (decided call by call on the evaluated arguments) -/
def Untouched (r : Nat) : List Call → St → Prop
  | [], _ => True
  | c :: cs, s =>
    ¬ (c.fn ∈ mutators ∧ ((c.args.map (evalArg s.env)).head? = some (.arr r) ∨ (c.args.map (evalArg s.env)).head? = some (.obj r))) ∧
    Untouched r cs (step lib s c)

/-- **history_frame.** Along any history a container keeps its contents as long as it is not itself passed first to a
mutator — whatever happens to its aliases' *other* containers, to copies and slices made of it, or to containers it is
nested in. In particular a copy is unaffected by mutations of the original and vice versa. -/
theorem history_frame (r : Nat) (cs : List Call) (s : St) (hr : r < s.heap.length) (hu : Untouched r cs s) :
    (runHistory lib cs s).heap[r]? = s.heap[r]? := by
  induction cs generalizing s with
  | nil => rfl
  | cons c cs ih =>
    obtain ⟨h1, h2⟩ := hu
    simp only [runHistory, List.foldl_cons] at ih ⊢
    have hlen : r < (step lib s c).heap.length := Nat.lt_of_lt_of_le hr (lib_length c.fn _ s.heap).1
    rw [ih (step lib s c) hlen h2]
    exact lib_frame c.fn _ s.heap r hr h1

/-- two variables bound to the same value are indistinguishable by any call: same result, same heap -/
theorem alias_same (L : LibT) (s : St) (f : String) (i j : Nat) (rest : List Arg) (hij : s.env[i]? = s.env[j]?) :
    step L s ⟨f, .var i :: rest⟩ = step L s ⟨f, .var j :: rest⟩ := by
  simp [step, evalArg, hij]

/-! ## the map contract of objects (`dictSet`, `dictDel`, `dictUpdate` are the reference operations) -/

theorem dictGet_dictSet (kvs : List (String × Value)) (k k' : String) (v : Value) :
    dictGet (dictSet kvs k v) k' = if k' = k then some v else dictGet kvs k' := by
  induction kvs with
  | nil =>
    by_cases h : k' = k
    · subst h; simp [dictSet, dictGet]
    · have : (k' == k) = false := by simpa using h
      simp [dictSet, dictGet, List.lookup, this, h]
  | cons p kvs ih =>
    obtain ⟨k0, v0⟩ := p
    unfold dictGet at ih ⊢
    by_cases h0 : k0 = k
    · subst h0
      by_cases h : k' = k0
      · subst h; simp [dictSet]
      · have : (k' == k0) = false := by simpa using h
        simp [dictSet, List.lookup, this, h]
    · have hb : (k0 == k) = false := by simpa using h0
      simp only [dictSet, hb, Bool.false_eq_true, if_false, List.lookup_cons]
      by_cases h1 : k' = k0
      · subst h1
        have : ¬ k' = k := h0
        simp [this]
      · have : (k' == k0) = false := by simpa using h1
        simp only [this]
        exact ih

theorem dictGet_dictDel (kvs : List (String × Value)) (k k' : String) :
    dictGet (dictDel kvs k) k' = if k' = k then none else dictGet kvs k' := by
  induction kvs with
  | nil => simp [dictDel, dictGet]
  | cons p kvs ih =>
    obtain ⟨k0, v0⟩ := p
    unfold dictGet dictDel at ih ⊢
    by_cases h0 : k0 = k
    · subst h0
      simp only [List.filter_cons, beq_self_eq_true, Bool.not_true, Bool.false_eq_true, if_false, List.lookup_cons]
      rw [ih]
      by_cases h : k' = k0
      · simp [h]
      · have : (k' == k0) = false := by simpa using h
        simp [h, this]
    · have hb : (k0 == k) = false := by simpa using h0
      simp only [List.filter_cons, hb, Bool.not_false, if_true, List.lookup_cons]
      by_cases h1 : k' = k0
      · subst h1
        have : ¬ k' = k := h0
        simp [this]
      · have : (k' == k0) = false := by simpa using h1
        simp only [this]
        exact ih

/-- keys stay unique, an existing key keeps its position, a new key goes to the end -/
theorem dictSet_keys (kvs : List (String × Value)) (k : String) (v : Value) :
    (dictSet kvs k v).map (·.1) = if dictHas kvs k then kvs.map (·.1) else kvs.map (·.1) ++ [k] := by
  induction kvs with
  | nil => simp [dictSet, dictHas]
  | cons p kvs ih =>
    obtain ⟨k0, v0⟩ := p
    unfold dictHas at ih ⊢
    by_cases h0 : k0 = k
    · subst h0; simp [dictSet, List.lookup]
    · have hb : (k0 == k) = false := by simpa using h0
      have hb' : (k == k0) = false := by simpa using (fun h => h0 h.symm)
      simp only [dictSet, hb, Bool.false_eq_true, if_false, List.map_cons, List.lookup_cons, hb', ih]
      split <;> simp

/-! ## non-vacuity: aliasing, copies, failure -/

/-- pool: cell 0 = `[1, 2, 3]`; variables `a = v0`, `alias = v1` (same array), then
`c = arrayCopy(a)`, `arrayPush(alias, 9)`, `x = arrayGet(a, 3)`, `n = arrayLength(c)` -/
def demo : List Call := [⟨"arrayCopy", [.var 0]⟩, ⟨"arrayPush", [.var 1, .lit (numN 9)]⟩,
  ⟨"arrayGet", [.var 0, .lit (numN 3)]⟩, ⟨"arrayLength", [.var 2]⟩]
def demo0 : St := ⟨[.arr 0, .arr 0], [.arr [numN 1, numN 2, numN 3]]⟩

/-- the push through one alias is seen through the other (`x = 9`), the copy is a new cell and keeps its three elements -/
example : runHistory lib demo demo0 =
    ⟨[.arr 0, .arr 0, .arr 1, .arr 0, numN 9, numN 3],
     [.arr [numN 1, numN 2, numN 3, numN 9], .arr [numN 1, numN 2, numN 3]]⟩ := by decide

/-- `history_frame` applies to the copy (cell 1) in the rest of that history: hypotheses inhabited -/
example : Untouched 1 (demo.drop 1) (runHistory lib (demo.take 1) demo0) :=
  ⟨by decide, by decide, by decide, trivial⟩

/-- a mutator with an index written as a fraction, a negative index, an index past the end, a wrong-typed, a missing and a
surplus argument: the documented failure value, heap untouched -/
example : lib "arraySet" [.arr 0, .num (mkRat 3 2), .null] demo0.heap = (.fail .null, demo0.heap) := by decide
example : lib "arraySet" [.arr 0, numI (-1), .null] demo0.heap = (.fail .null, demo0.heap) := by decide
example : lib "arraySet" [.arr 0, numN 3, .null] demo0.heap = (.fail .null, demo0.heap) := by decide
example : lib "arraySet" [.arr 0, .bool true, .null] demo0.heap = (.fail .null, demo0.heap) := by decide
example : lib "arraySet" [.arr 0] demo0.heap = (.fail .null, demo0.heap) := by decide
example : lib "arraySet" [.arr 0, numN 0, .null, .null] demo0.heap = (.fail .null, demo0.heap) := by decide
example : lib "arrayIndexOf" [.str "x", numN 1] demo0.heap = (.fail (numI (-1)), demo0.heap) := by decide
example : lib "arrayLength" [.null] demo0.heap = (.fail (numN 0), demo0.heap) := by decide
example : lib "objectHas" [.arr 0, .str "k"] demo0.heap = (.fail (.bool false), demo0.heap) := by decide
example : lib "objectGet" [.arr 0, .str "k", numN 7] demo0.heap = (.fail (numN 7), demo0.heap) := by decide
/-- and the successful counterpart -/
example : lib "arraySet" [.arr 0, numN 2, .str "z"] demo0.heap = (.ok (.str "z"), [.arr [numN 1, numN 2, .str "z"]]) := by decide
/-- a slice of the whole array is a new cell -/
example : lib "arraySlice" [.arr 0] demo0.heap = (.ok (.arr 1), demo0.heap ++ [.arr [numN 1, numN 2, numN 3]]) := by decide
/-- objects: insertion order, assignment from a second object leaves that object alone -/
example : lib "objectAssign" [.obj 0, .obj 1] [.obj [("a", numN 1)], .obj [("b", numN 2), ("a", numN 3)]] =
    (.ok (.obj 0), [.obj [("a", numN 3), ("b", numN 2)], .obj [("b", numN 2), ("a", numN 3)]]) := by decide

end C15
