import BareModel.HostPy

/-!
# C05 — helper lemmas: which exception classes each host primitive can raise

`Only S r` : the partial computation `r` raises nothing outside the class set `S`.
The lemmas follow the call graph of the operator block bottom-up:
`toFloat/asFloat` → `py{Add,Sub,Mul,Div,Mod,Pow}` → `dtPlus/dtMinus/dtString` → `jsonVal/valueString` → `cmpVal` → `binopPy`.
-/

namespace C05
open HostPy

/-- `r` raises only exceptions of the classes in `S` -/
def Only {α : Type} (S : HostExc → Bool) (r : Except HostExc α) : Prop := ∀ e, r = .error e → S e = true

theorem Only.ok {α : Type} {S : HostExc → Bool} (a : α) : Only S (.ok a : Except HostExc α) := by
  intro e h; cases h

theorem Only.err {α : Type} {S : HostExc → Bool} {e : HostExc} (h : S e = true) : Only S (.error e : Except HostExc α) := by
  intro e' h'; cases h'; exact h

theorem Only.mono {α : Type} {S T : HostExc → Bool} {r : Except HostExc α} (hr : Only S r) (hST : ∀ e, S e = true → T e = true) :
    Only T r := fun e h => hST e (hr e h)

/-! class sets -/

def sOverflow (e : HostExc) : Bool := e == .overflow
def sZeroDiv (e : HostExc) : Bool := e == .zeroDivision
def sArith (e : HostExc) : Bool := e.isArithmetic
def sOvVal (e : HostExc) : Bool := e == .overflow || e == .valueError
def sOvRec (e : HostExc) : Bool := e == .overflow || e == .recursion
def sOvValRec (e : HostExc) : Bool := e == .overflow || e == .valueError || e == .recursion
def sNone (_ : HostExc) : Bool := false

/-! ## numbers -/

theorem toFloat_only (F : Libm) (n : Int) : Only sOverflow (toFloat F n) := by
  unfold toFloat
  split
  · exact Only.ok _
  · exact Only.err rfl

theorem asFloat_only (F : Libm) {v : PyVal} (hv : isNumber v = true) : Only sOverflow (asFloat F v) := by
  cases v <;> simp [isNumber] at hv
  · exact toFloat_only F _
  · exact Only.ok _

/-- shape shared by `+ - *`: two conversions, then a total float operation -/
theorem conv2_only (F : Libm) {a b : PyVal} (ha : isNumber a = true) (hb : isNumber b = true) (g : PyFloat → PyFloat → PyFloat) :
    Only sOverflow (match asFloat F a with
      | .error e => .error e
      | .ok x => match asFloat F b with
        | .error e => .error e
        | .ok y => (.ok (.float (g x y)) : Except HostExc PyVal)) := by
  intro e h
  cases hx : asFloat F a with
  | error e1 => rw [hx] at h; cases h; exact asFloat_only F ha _ hx
  | ok x =>
    rw [hx] at h
    cases hy : asFloat F b with
    | error e1 => rw [hy] at h; cases h; exact asFloat_only F hb _ hy
    | ok y => rw [hy] at h; cases h

theorem pyAdd_only (F : Libm) {a b : PyVal} (ha : isNumber a = true) (hb : isNumber b = true) : Only sOverflow (pyAdd F a b) := by
  unfold pyAdd
  split
  · exact Only.ok _
  · exact conv2_only F ha hb _

theorem pySub_only (F : Libm) {a b : PyVal} (ha : isNumber a = true) (hb : isNumber b = true) : Only sOverflow (pySub F a b) := by
  unfold pySub
  split
  · exact Only.ok _
  · exact conv2_only F ha hb _

theorem pyMul_only (F : Libm) {a b : PyVal} (ha : isNumber a = true) (hb : isNumber b = true) : Only sOverflow (pyMul F a b) := by
  unfold pyMul
  split
  · exact Only.ok _
  · exact conv2_only F ha hb _

theorem fDiv_only (F : Libm) (x y : PyFloat) : Only sZeroDiv (fDiv F x y) := by
  unfold fDiv
  split
  · exact Only.err rfl
  · split <;> exact Only.ok _

theorem fMod_only (F : Libm) (x y : PyFloat) : Only sZeroDiv (fMod F x y) := by
  unfold fMod
  split
  · exact Only.err rfl
  · split <;> exact Only.ok _

theorem sOverflow_arith : ∀ e, sOverflow e = true → sArith e = true := by
  intro e; cases e <;> simp [sOverflow, sArith, HostExc.isArithmetic]

theorem sZeroDiv_arith : ∀ e, sZeroDiv e = true → sArith e = true := by
  intro e; cases e <;> simp [sZeroDiv, sArith, HostExc.isArithmetic]

/-- shape shared by `/ %` on non-(int,int) operands: two conversions, then a float operation that may raise ZeroDivisionError -/
theorem conv2E_only (F : Libm) {a b : PyVal} (ha : isNumber a = true) (hb : isNumber b = true)
    (g : PyFloat → PyFloat → Except HostExc PyFloat) (hg : ∀ x y, Only sZeroDiv (g x y)) :
    Only sArith (match asFloat F a with
      | .error e => .error e
      | .ok x => match asFloat F b with
        | .error e => .error e
        | .ok y => match g x y with
          | .error e => .error e
          | .ok z => (.ok (.float z) : Except HostExc PyVal)) := by
  intro e h
  cases hx : asFloat F a with
  | error e1 => rw [hx] at h; cases h; exact sOverflow_arith _ (asFloat_only F ha _ hx)
  | ok x =>
    rw [hx] at h
    cases hy : asFloat F b with
    | error e1 => rw [hy] at h; cases h; exact sOverflow_arith _ (asFloat_only F hb _ hy)
    | ok y =>
      rw [hy] at h
      simp only at h
      cases hz : g x y with
      | error e1 => rw [hz] at h; cases h; exact sZeroDiv_arith _ (hg x y _ hz)
      | ok z => rw [hz] at h; cases h

theorem pyDiv_only (F : Libm) {a b : PyVal} (ha : isNumber a = true) (hb : isNumber b = true) : Only sArith (pyDiv F a b) := by
  unfold pyDiv
  split
  · split
    · exact Only.err rfl
    · split
      · exact Only.ok _
      · exact Only.err rfl
  · exact conv2E_only F ha hb _ (fDiv_only F)

theorem pyMod_only (F : Libm) {a b : PyVal} (ha : isNumber a = true) (hb : isNumber b = true) : Only sArith (pyMod F a b) := by
  unfold pyMod
  split
  · split
    · exact Only.err rfl
    · exact Only.ok _
  · exact conv2E_only F ha hb _ (fMod_only F)

theorem powPosE_only (F : Libm) (a y : Rat) : Only sOverflow (powPosE F a y) := by
  unfold powPosE
  split
  · exact Only.ok _
  · split
    · exact Only.ok _
    · exact Only.err rfl
    · exact Only.ok _

theorem fPow_only (F : Libm) (x y : PyFloat) : Only sArith (fPow F x y) := by
  intro e h
  unfold fPow at h
  repeat' split at h
  all_goals first
    | (cases h; done)
    | (cases h; rfl)
    | (rename_i heq; cases h; exact sOverflow_arith _ (powPosE_only F _ _ _ heq))

theorem floatPowOut_only (F : Libm) (x y : PyFloat) : Only sArith (floatPowOut F x y) := by
  intro e h
  unfold floatPowOut at h
  cases hp : fPow F x y with
  | error e1 => rw [hp] at h; cases h; exact fPow_only F x y _ hp
  | ok o => rw [hp] at h; cases o <;> cases h

theorem pyPow_only (F : Libm) {a b : PyVal} (ha : isNumber a = true) (hb : isNumber b = true) : Only sArith (pyPow F a b) := by
  unfold pyPow
  split
  · rename_i a b
    split
    · exact Only.ok _
    · intro e h
      cases hx : toFloat F a with
      | error e1 => rw [hx] at h; cases h; exact sOverflow_arith _ (toFloat_only F _ _ hx)
      | ok x =>
        rw [hx] at h
        cases hy : toFloat F b with
        | error e1 => rw [hy] at h; cases h; exact sOverflow_arith _ (toFloat_only F _ _ hy)
        | ok y => rw [hy] at h; exact floatPowOut_only F x y _ h
  · intro e h
    cases hx : asFloat F a with
    | error e1 => rw [hx] at h; cases h; exact sOverflow_arith _ (asFloat_only F ha _ hx)
    | ok x =>
      rw [hx] at h
      cases hy : asFloat F b with
      | error e1 => rw [hy] at h; cases h; exact sOverflow_arith _ (asFloat_only F hb _ hy)
      | ok y => rw [hy] at h; exact floatPowOut_only F x y _ h

theorem pyFloatOf_only (F : Libm) {v : PyVal} (hv : isNumber v = true) : Only sOverflow (pyFloatOf F v) := by
  intro e h
  unfold pyFloatOf at h
  cases hx : asFloat F v with
  | error e1 => rw [hx] at h; cases h; exact asFloat_only F hv _ hx
  | ok x => rw [hx] at h; cases h

theorem pyFloatOf_isNumber (F : Libm) {v w : PyVal} (h : pyFloatOf F v = .ok w) : isNumber w = true := by
  unfold pyFloatOf at h
  cases hx : asFloat F v with
  | error e1 => rw [hx] at h; cases h
  | ok x => rw [hx] at h; cases h; rfl

theorem pyMulF_only (F : Libm) {a b : PyVal} (ha : isNumber a = true) (hb : isNumber b = true) : Only sOverflow (pyMulF F a b) := by
  intro e h
  unfold pyMulF at h
  cases hx : pyFloatOf F a with
  | error e1 => rw [hx] at h; cases h; exact pyFloatOf_only F ha _ hx
  | ok fa => rw [hx] at h; exact pyMul_only F (pyFloatOf_isNumber F hx) hb _ h

theorem pyPowF_only (F : Libm) {a b : PyVal} (ha : isNumber a = true) (hb : isNumber b = true) : Only sArith (pyPowF F a b) := by
  intro e h
  unfold pyPowF at h
  cases hx : pyFloatOf F a with
  | error e1 => rw [hx] at h; cases h; exact sOverflow_arith _ (pyFloatOf_only F ha _ hx)
  | ok fa => rw [hx] at h; exact pyPow_only F (pyFloatOf_isNumber F hx) hb _ h

/-- unary minus behind its guard never raises -/
theorem pyNeg_total {v : PyVal} (hv : isNumber v = true) : ∃ r, pyNeg v = .ok r := by
  cases v <;> simp [isNumber] at hv <;> exact ⟨_, rfl⟩

/-! ## datetimes -/

theorem normalizeDt_only (F : Libm) (k : DtKind) (t : Int) : Only sOverflow (normalizeDt F k t) := by
  unfold normalizeDt
  split
  · split
    · exact Only.ok _
    · exact Only.err rfl
  · exact Only.ok _

theorem sOverflow_ovVal : ∀ e, sOverflow e = true → sOvVal e = true := by
  intro e; cases e <;> simp [sOverflow, sOvVal]

theorem timedeltaUs_only (F : Libm) {v : PyVal} (hv : isNumber v = true) : Only sOvVal (timedeltaUs F v) := by
  unfold timedeltaUs
  split
  · exact Only.ok _
  · exact Only.ok _
  · exact Only.err rfl
  · exact Only.err rfl
  · rename_i h1 h2 h3 h4
    cases v <;> simp [isNumber] at hv
    · exact absurd rfl (h1 _)
    · rename_i x
      cases x
      · exact absurd rfl (h2 _)
      · exact absurd rfl (h3 _)
      · exact absurd rfl h4

theorem dtPlus_only (F : Libm) (k : DtKind) (t : Int) {ms : PyVal} (hv : isNumber ms = true) : Only sOvVal (dtPlus F k t ms) := by
  intro e h
  unfold dtPlus at h
  cases hn : normalizeDt F k t with
  | error e1 => rw [hn] at h; cases h; exact sOverflow_ovVal _ (normalizeDt_only F k t _ hn)
  | ok u =>
    rw [hn] at h
    cases hd : timedeltaUs F ms with
    | error e1 => rw [hd] at h; cases h; exact timedeltaUs_only F hv _ hd
    | ok d =>
      rw [hd] at h
      simp only at h
      split at h
      · cases h
      · cases h; rfl

theorem dtMinus_only (F : Libm) (k1 : DtKind) (t1 : Int) (k2 : DtKind) (t2 : Int) : Only sOverflow (dtMinus F k1 t1 k2 t2) := by
  intro e h
  unfold dtMinus at h
  cases hn : normalizeDt F k1 t1 with
  | error e1 => rw [hn] at h; cases h; exact normalizeDt_only F _ _ _ hn
  | ok u =>
    rw [hn] at h
    cases hm : normalizeDt F k2 t2 with
    | error e1 => rw [hm] at h; cases h; exact normalizeDt_only F _ _ _ hm
    | ok u2 => rw [hm] at h; cases h

theorem dtString_only (F : Libm) (k : DtKind) (t : Int) : Only sOvVal (dtString F k t) := by
  intro e h
  unfold dtString at h
  cases hn : normalizeDt F k t with
  | error e1 => rw [hn] at h; cases h; exact sOverflow_ovVal _ (normalizeDt_only F k t _ hn)
  | ok u =>
    rw [hn] at h
    simp only at h
    split at h
    · cases h
    · cases h; rfl
    · cases h; rfl

/-! ## stringification -/

theorem pyStrInt_only (n : Int) : Only sOvValRec (pyStrInt n) := by
  unfold pyStrInt
  split
  · exact Only.err rfl
  · exact Only.ok _

theorem sOvVal_ovValRec : ∀ e, sOvVal e = true → sOvValRec e = true := by
  intro e; cases e <;> simp [sOvVal, sOvValRec]

theorem mapE_only {α β : Type} {S : HostExc → Bool} (f : α → Except HostExc β) (hf : ∀ x, Only S (f x)) :
    ∀ xs, Only S (mapE f xs)
  | [] => Only.ok _
  | x :: xs => by
    intro e h
    unfold mapE at h
    cases hx : f x with
    | error e1 => rw [hx] at h; cases h; exact hf x _ hx
    | ok y =>
      rw [hx] at h
      cases hr : mapE f xs with
      | error e1 => rw [hr] at h; cases h; exact mapE_only f hf xs _ hr
      | ok ys => rw [hr] at h; cases h

/-- the JSON encoder raises only ValueError (circular reference, non-finite float, int digit limit, datetime out of
range), OverflowError (aware datetime normalisation) and RecursionError — for every heap, fuel and marker path -/
theorem jsonVal_only (F : Libm) (h : Heap) : ∀ fuel path v, Only sOvValRec (jsonVal F h fuel path v)
  | 0, _, _ => by unfold jsonVal; exact Only.err rfl
  | fuel+1, path, v => by
    have ih := jsonVal_only F h fuel
    unfold jsonVal
    split
    · exact Only.ok _
    · exact Only.ok _
    · exact pyStrInt_only _
    · exact Only.ok _
    · exact Only.err rfl
    · exact Only.ok _
    · rename_i k t
      intro e hh
      cases hd : dtString F k t with
      | error e1 => rw [hd] at hh; cases hh; exact sOvVal_ovValRec _ (dtString_only F k t _ hd)
      | ok s => rw [hd] at hh; cases hh
    · exact Only.ok _
    · exact Only.ok _
    · rename_i r
      split
      · exact Only.err rfl
      · intro e hh
        cases hm : mapE (jsonVal F h fuel (r :: path)) (h.listOf r) with
        | error e1 => rw [hm] at hh; cases hh; exact mapE_only _ (fun x => ih (r :: path) x) _ _ hm
        | ok parts => rw [hm] at hh; cases hh
    · rename_i r
      split
      · exact Only.err rfl
      · intro e hh
        split at hh
        · rename_i heq
          cases hh
          refine mapE_only _ (fun kv e' h' => ?_) _ _ heq
          split at h'
          · cases h'
          · rename_i hj; cases h'; exact ih _ _ _ hj
        · cases hh

theorem valueString_only (F : Libm) (h : Heap) (v : PyVal) : Only sOvValRec (valueString F h v) := by
  cases v with
  | int n => exact pyStrInt_only n
  | dt k t => exact (dtString_only F k t).mono sOvVal_ovValRec
  | dict r => exact jsonVal_only F h _ _ _
  | list r => exact jsonVal_only F h _ _ _
  | _ => exact Only.ok _

/-! ## comparison -/

theorem cmpLists_only {S : HostExc → Bool} (f : PyVal → PyVal → Except HostExc Int) (hf : ∀ x y, Only S (f x y)) :
    ∀ xs ys, Only S (cmpLists f xs ys)
  | [], [] => by unfold cmpLists; exact Only.ok _
  | [], _ :: _ => by unfold cmpLists; exact Only.ok _
  | _ :: _, [] => by unfold cmpLists; exact Only.ok _
  | x :: xs, y :: ys => by
    intro e h
    unfold cmpLists at h
    cases hx : f x y with
    | error e1 => rw [hx] at h; cases h; exact hf x y _ hx
    | ok c =>
      rw [hx] at h
      simp only at h
      split at h
      · cases h
      · exact cmpLists_only f hf xs ys _ h

theorem cmpItems_only {S : HostExc → Bool} (f : PyVal → PyVal → Except HostExc Int) (hf : ∀ x y, Only S (f x y)) :
    ∀ xs ys, Only S (cmpItems f xs ys)
  | [], [] => by unfold cmpItems; exact Only.ok _
  | [], _ :: _ => by unfold cmpItems; exact Only.ok _
  | _ :: _, [] => by unfold cmpItems; exact Only.ok _
  | x :: xs, y :: ys => by
    intro e h
    unfold cmpItems at h
    simp only at h
    split at h
    · cases h
    · cases hx : f x.2 y.2 with
      | error e1 => rw [hx] at h; cases h; exact hf _ _ _ hx
      | ok c =>
        rw [hx] at h
        simp only at h
        split at h
        · cases h
        · exact cmpItems_only f hf xs ys _ h

theorem sOverflow_ovRec : ∀ e, sOverflow e = true → sOvRec e = true := by
  intro e; cases e <;> simp [sOverflow, sOvRec]

/-- `value_compare` raises only RecursionError (nesting beyond the limit, self-containing containers) and OverflowError
(normalising an aware datetime at the edge of the range) -/
theorem cmpVal_only (F : Libm) (h : Heap) : ∀ fuel a b, Only sOvRec (cmpVal F h fuel a b)
  | 0, _, _ => by unfold cmpVal; exact Only.err rfl
  | fuel+1, a, b => by
    have ih := cmpVal_only F h fuel
    unfold cmpVal
    split
    any_goals exact Only.ok _
    · rename_i k1 t1 k2 t2
      intro e hh
      cases hn : normalizeDt F k1 t1 with
      | error e1 => rw [hn] at hh; cases hh; exact sOverflow_ovRec _ (normalizeDt_only F _ _ _ hn)
      | ok u =>
        rw [hn] at hh
        cases hm : normalizeDt F k2 t2 with
        | error e1 => rw [hm] at hh; cases hh; exact sOverflow_ovRec _ (normalizeDt_only F _ _ _ hm)
        | ok u2 => rw [hm] at hh; cases hh
    · exact cmpLists_only _ ih _ _
    · exact cmpItems_only _ ih _ _
    · split <;> exact Only.ok _

end C05
