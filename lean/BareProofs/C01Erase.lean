import BareProofs.C01EraseLemmas
import BareProofs.C01Parse
import BareProofs.C08

/-!
# C01 — T3 "ticked erasure" and T4

`execS` (BareModel/StructuredS.lean: `callS / execSS / execSB / execSE / forS`, `runS`) is the plain source-level reading
of a structured program — no statement counter, no hidden variables, conditions evaluated as written, `while` re-tests
before every iteration.  `execT` (BareModel/Structured.lean) is the *ticked* reading that T2 (`C01Exact`) proves **equal**
to the jump machine on the lowered code.  This file proves that the two agree on everything observable, in both
directions, and composes T1 (`parseLines_render`), C08 (`cache_transparent`), T2 and T3 into T4.

Main statements (all for every program size / nesting depth / fuel / host / world):

* `ticked_erasure` (T3, `maxStatements = 0`): ticked terminates ⇒ pure terminates (all large fuels) with the same kind of
  outcome, same value / error, `StRel`-related final state; and conversely.  `termination_iff`.
  Halves: `ticked_erasure_forward`, `ticked_erasure_converse`.
* `ticked_erasure_budget` / `ticked_erasure_gen` (any budget): unless the ticked run ends in `exceeded`, it agrees with
  the pure reading — `tick` is the only place `count` / `maxStatements` are consulted.
* `parse_exec_structured` (T4): `execute cfg fuel (parse (render B))` — the real label-caching machine — agrees with
  `runS scfg k B` in both directions; `parse_exec_structured_budget` (forward, any budget).
* `Tiny.while_continue_counterexample` (finding F7): with a `continue` in a `while` the two readings differ.

Hypotheses and why each is needed:

* `Agree cfg scfg start`: same host / `builtins` / `debug`, and `TablesAgree`: the machine's function table is the lowering
  of the structured table (function values are table indices; calls are related by induction on fuel through T2's
  `run_body_eq`).
* `ProgOK B`, `TablesOK scfg` (= `FuncOK` for every definition): `NoRawB` (raw `label`/`jump` have no structured meaning; T2
  needs it), `NoIncludeB` (an included file is jump-level code), `NoReservedB` (a user identifier spelled like a hidden
  `__bareScript…` variable is the same variable: user code could read / overwrite the loop state), `NoWhileContinueB` (F7),
  `WellNested` / `wnB` (`break` / `continue` outside a loop: rejected by the parser; T1 needs it, and the ticked semantics
  treats them as no-ops).
* `TruthyBool host`: the lowering tests `!c` and jumps, the source tests `c`: they agree iff the host's truth value of a
  boolean is that boolean.
* `HostNoReserved host`: a library function that reads / writes a `__bareScript…` global (`systemGlobalGet/Set` with such a
  name) can observe / corrupt the hidden state of a global-scope `for`.
* `StRel st st'`: the two runs start from the same world and the same user-visible globals (hidden entries and `count` free).

Structure: forward — frame lemmas (`evalExpr_sim`, `runTree_sim` in `C01EraseLemmas`), ticks are invisible (`tsim_tick`),
construct lemmas (`chain_sim`, `while_sim`, `forAfter_sim` / `loopF_sim` / `for_sim` with the invariant `ForInv`: the hidden
variables hold the interpreter's values), the mutual recursion `eraseS / eraseB / eraseE` over the syntax, calls by
induction on the machine fuel (`callSim_lt`).  Converse — the same frame lemmas with the roles of the two sides swapped,
"the ticked side converges" (`TConv`, `CSim`), the loop bound of `loopW` / `loopF` is never binding (`loopW_irrel`,
`loopF_irrel`), one induction on the pure fuel (`allC`).
-/

set_option linter.unusedSimpArgs false
set_option linter.unusedSectionVars false

namespace C01
open StructuredS Machine Lower Structured

variable {W : Type}

section Sim
variable {cfg : Config W} {scfg : SConfig W} {start : FnId → Nat} (ag : Agree cfg scfg start)
  (htb : TruthyBool cfg.host) {F : Nat} (cv : CallAt W) (ei : InclAt W) (base : Option String)
  (Hc : ∀ m, m < F → CallSim cfg.maxStatements (cv m) (callS scfg))

/-- simulation statement for one block (induction hypothesis of the construct lemmas) -/
def BodySim (scfg : SConfig W) (F : Nat) (cv : CallAt W) (ei : InclAt W) (base : Option String) (cfg : Config W)
    (lk : LK) (B : List SStmt) (i : Nat) : Prop :=
  ∀ f l st l' st', f ≤ F → LRel l l' → StRel st st' →
    TSim cfg.maxStatements F lk i l st.globals (execTB cfg cv ei lk.inLoop B i f l base st) (fun k => execSB scfg k B l' st')

def ElseSim (scfg : SConfig W) (F : Nat) (cv : CallAt W) (ei : InclAt W) (base : Option String) (cfg : Config W)
    (lk : LK) (e : SElse) (i : Nat) : Prop :=
  ∀ f l st l' st', f ≤ F → LRel l l' → StRel st st' →
    TSim cfg.maxStatements F lk i l st.globals (execTE cfg cv ei lk.inLoop e i f l base st) (fun k => execSE scfg k e l' st')

include ag htb Hc

/-- a user expression evaluated after a tick -/
theorem user_expr {f : Nat} (hf : f ≤ F) {l l' : Option Env} (hl : LRel l l') (c : Expr) (hc : nrE c = true) (st' : State W) :
    ∀ f' st1, f' < f → StRel st1 st' →
      OSim cfg.maxStatements st1.globals (evalExpr cfg (cv f') l c st1) (fun k => evalExpr cfg (callS scfg k) l' c st') :=
  fun f' st1 hlt hs1 => evalExpr_sim cfg (Hc f' (by omega)) hl c st1 st' hc hs1

omit ag htb Hc in
/-- the block of a branch followed by `label done` / `jump done` -/
theorem tsim_thenSkip {L : Nat} (hL : L = cfg.maxStatements) {lk : LK} {i : Nat} {l0 : Option Env} {g0 : Env} {t : TOut W}
    {S : Nat → SOut W} (h : TSim L F lk i l0 g0 t S) :
    TSim L F lk i l0 g0 (andThen t fun l s f => stmtSkip cfg f l s) S := by
  subst hL
  cases t with
  | norm l s f =>
    obtain ⟨hf, l', s', hp, hev⟩ := h
    simp only [andThen]
    rw [← andThen_id (stmtSkip cfg f l s)]
    refine tsim_skip cfg hp.2.1 ?_
    intro f' st1 hlt hs1 hg
    refine ⟨by omega, l', s', ⟨hp.1, hs1, hp.2.2.1, ?_⟩, hev⟩
    rw [hg]; exact hp.2.2.2
  | _ => exact h

/-- one branch of an `if` chain -/
theorem chain_sim (lk : LK) (c : Expr) (t : List SStmt) (e : SElse) (i : Nat) (hc : nrE c = true)
    (hB : BodySim scfg F cv ei base cfg lk t (i+1)) (hE : ElseSim scfg F cv ei base cfg lk e (cntB t (i+1)))
    {f : Nat} {l l' : Option Env} {st st' : State W} (hf : f ≤ F) (hl : LRel l l') (hs : StRel st st') :
    TSim cfg.maxStatements F lk i l st.globals
      (stmtCond cfg cv (notE c) f l st fun taken f st1 =>
        if taken then execTE cfg cv ei lk.inLoop e (cntB t (i+1)) f l base st1
        else thenT cfg cv ei lk.inLoop t (i+1) f l base st1)
      (fun k => condK cfg.host (fun s => execSB scfg k t l' s) (fun s => execSE scfg k e l' s)
        (evalExpr cfg (callS scfg k) l' c st')) := by
  rw [stmtCond_notE cfg htb]
  refine tsim_stmtCond cfg cv (Φ := fun k r => condK cfg.host (fun s => execSB scfg k t l' s) (fun s => execSE scfg k e l' s) r)
    hs (fun f' st1 hlt hs1 _ => user_expr ag htb cv Hc hf hl c hc st' f' st1 hlt hs1) (fun _ _ _ => rfl) ?_
  intro v st2 st2' f' hlt hs2 hk
  have hct := cntB_le t (i+1)
  simp only [condK, ← hs2.1]
  cases cfg.host.truthy v st2.world with
  | true =>
    simp only [Bool.not_true, Bool.false_eq_true, if_false, if_true]
    exact TSim.weaken (KeepL.refl i l) (GKeep.of_all l i hk) (by omega)
      (tsim_thenSkip rfl (hB f' l st2 l' st2' (by omega) hl hs2))
  | false =>
    simp only [Bool.not_false, Bool.false_eq_true, if_false, if_true]
    exact TSim.weaken (KeepL.refl i l) (GKeep.of_all l i hk) (by omega) (hE f' l st2 l' st2' (by omega) hl hs2)

/-- the iterations of `while`: the machine-side loop (entered just before the body) against the pure side's
"body, then back to the test" -/
theorem loopW_sim (lk : LK) (c : Expr) (b : List SStmt) (i : Nat) (hc : nrE c = true)
    (hB : BodySim scfg F cv ei base cfg .whileL b (i+1)) :
    ∀ (n f : Nat) (l l' : Option Env) (st st' : State W), f ≤ F → LRel l l' → StRel st st' →
      TSim cfg.maxStatements F lk i l st.globals
        (loopW cfg cv c (fun f l s => execTB cfg cv ei true b (i+1) f l base s) n f l st)
        (fun k => loopK (fun l1 s1 => execSS scfg k (.while c b) l1 s1) (execSB scfg k b l' st')) := by
  intro n
  induction n with
  | zero => intro f l l' st st' _ _ _; trivial
  | succ n ih =>
    intro f l l' st st' hf hl hs
    have hb := hB f l st l' st' hf hl hs
    simp only [LK.inLoop] at hb
    rw [loopW]
    cases hO : execTB cfg cv ei true b (i+1) f l base st with
    | oof => trivial
    | err e s =>
      rw [hO] at hb
      rcases hb with h | ⟨s', hs1, hev⟩
      · exact Or.inl h
      · exact Or.inr ⟨s', hs1, hev.mono fun k hk => by simp only [hk, loopK]⟩
    | ret v s =>
      rw [hO] at hb
      obtain ⟨s', hs1, hk1, hev⟩ := hb
      exact ⟨s', hs1, hk1.mono (by omega), hev.mono fun k hk => by simp only [hk, loopK]⟩
    | cont l1 s1 f1 =>
      rw [hO] at hb
      exact absurd hb.2.1 (by decide)
    | brk l1 s1 f1 =>
      rw [hO] at hb
      obtain ⟨hf1, _, l1', s1', hp, hev⟩ := hb
      exact ⟨hf1, l1', s1', ⟨hp.1, hp.2.1, hp.2.2.1.mono (by omega), hp.2.2.2.mono (by omega)⟩,
        hev.mono fun k hk => by simp only [hk, loopK]⟩
    | norm l1 s1 f1 =>
      rw [hO] at hb
      obtain ⟨hf1, l1', s1', hp, hev⟩ := hb
      -- the pure side is, eventually, the `while` statement again
      suffices h : TSim cfg.maxStatements F lk i l st.globals
          (stmtCond cfg cv c f1 l1 s1 fun taken f2 st2 =>
            if taken then loopW cfg cv c (fun f l s => execTB cfg cv ei true b (i+1) f l base s) n f2 l1 st2
            else stmtSkip cfg f2 l1 st2)
          (fun k => execSS scfg k (.while c b) l1' s1') from
        h.transfer fun o ho => Ev.comp (Φ := fun k r => loopK (fun l1 s1 => execSS scfg k (.while c b) l1 s1) r) hev ho
      have hkl : KeepL i l l1 := hp.2.2.1.mono (by omega)
      have hkg : GKeep l i st.globals s1.globals := hp.2.2.2.mono (by omega)
      refine TSim.weaken hkl hkg (Nat.le_refl i) ?_
      refine TSim.step ?_ (execSS_while ag · c b l1' s1')
      refine tsim_stmtCond cfg cv
        (Φ := fun k r => condK cfg.host
          (fun s => loopK (fun l2 s2 => execSS scfg k (.while c b) l2 s2) (execSB scfg k b l1' s)) (fun s => .norm l1' s) r)
        hp.2.1 (fun f' st1 hlt hs1 _ => user_expr ag htb cv Hc hf1 hp.1 c hc s1' f' st1 hlt hs1) (fun _ _ _ => rfl) ?_
      intro v st2 st2' f' hlt hs2 hk
      simp only [condK, ← hs2.1]
      cases cfg.host.truthy v st2.world with
      | true =>
        simp only [if_true]
        exact TSim.weaken (KeepL.refl i l1) (GKeep.of_all l1 i hk) (Nat.le_refl i)
          (ih f' l1 l1' st2 st2' (by omega) hp.1 hs2)
      | false =>
        simp only [Bool.false_eq_true, if_false]
        rw [← andThen_id (stmtSkip cfg f' l1 st2)]
        refine tsim_skip cfg hs2 ?_
        intro f'' st3 hlt2 hs3 hg3
        exact ⟨by omega, l1', st2', ⟨hp.1, hs3, KeepL.refl i l1, hg3 ▸ GKeep.of_all l1 i hk⟩, Ev.of_all fun _ => rfl⟩

/-- `while c b` -/
theorem while_sim (lk : LK) (c : Expr) (b : List SStmt) (i : Nat) (hc : nrE c = true)
    (hB : BodySim scfg F cv ei base cfg .whileL b (i+1))
    {f : Nat} {l l' : Option Env} {st st' : State W} (hf : f ≤ F) (hl : LRel l l') (hs : StRel st st') :
    TSim cfg.maxStatements F lk i l st.globals (execTS cfg cv ei lk.inLoop (.while c b) i f l base st)
      (fun k => execSS scfg k (.while c b) l' st') := by
  rw [execTS_while, stmtCond_notE cfg htb]
  refine TSim.step ?_ (execSS_while ag · c b l' st')
  refine tsim_stmtCond cfg cv
    (Φ := fun k r => condK cfg.host
      (fun s => loopK (fun l2 s2 => execSS scfg k (.while c b) l2 s2) (execSB scfg k b l' s)) (fun s => .norm l' s) r)
    hs (fun f' st1 hlt hs1 _ => user_expr ag htb cv Hc hf hl c hc st' f' st1 hlt hs1) (fun _ _ _ => rfl) ?_
  intro v st2 st2' f' hlt hs2 hk
  simp only [condK, ← hs2.1]
  cases cfg.host.truthy v st2.world with
  | false =>
    simp only [Bool.not_false, Bool.false_eq_true, if_false, if_true]
    exact ⟨by omega, l', st2', ⟨hl, hs2, KeepL.refl i l, GKeep.of_all l i hk⟩, Ev.of_all fun _ => rfl⟩
  | true =>
    simp only [Bool.not_true, Bool.false_eq_true, if_false, if_true]
    refine tsim_skip cfg hs2 ?_
    intro f'' st3 hlt2 hs3 hg3
    exact TSim.weaken (KeepL.refl i l) (hg3 ▸ GKeep.of_all l i hk) (Nat.le_refl i)
      (loopW_sim ag htb cv ei base Hc lk c b i hc hB (f''+1) f'' l l' st3 st2' (by omega) hl hs3)

/-- statement of the simulation of the `for` iterations (induction hypothesis of `forAfter_sim`) -/
def LoopFSim (scfg : SConfig W) (F : Nat) (cv : CallAt W) (cfg : Config W) (lk : LK) (i : Nat) (v : Name) (ix : Option Name)
    (b : List SStmt) (a n : Value) (body : Nat → Option Env → State W → TOut W) (nIter : Nat) : Prop :=
  ∀ (c : Value) (f : Nat) (l l' : Option Env) (st st' : State W) (l0 : Option Env) (g0 : Env),
    f ≤ F → LRel l l' → StRel st st' → ForInv i ix a n c l st.globals → KeepL i l0 l → GKeep l0 i g0 st.globals →
    TSim cfg.maxStatements F lk i l0 g0 (loopF cfg cv i v (ix.getD (vIndex i)) (usesContB b) body nIter f l st)
      (fun k => forS scfg k v ix b a n c l' st')

/-- the footer of a `for` iteration: index increment, test, next iteration or `label done` -/
theorem forAfter_sim (lk : LK) (i : Nat) (v : Name) (ix : Option Name) (b : List SStmt) (a n : Value)
    (body : Nat → Option Env → State W → TOut W) (nIter : Nat) (hix : ngO ix = true)
    (ihL : LoopFSim scfg F cv cfg lk i v ix b a n body nIter) :
    ∀ (c : Value) (f : Nat) (l l' : Option Env) (st st' : State W) (l0 : Option Env) (g0 : Env),
      f ≤ F → LRel l l' → StRel st st' → ForInv i ix a n c l st.globals → KeepL i l0 l → GKeep l0 i g0 st.globals →
      TSim cfg.maxStatements F lk i l0 g0
        (forAfter cfg cv i v (ix.getD (vIndex i)) (usesContB b) body nIter l st f)
        (fun k => footerS cfg.host scfg k v ix b a n c l' st') := by
  intro c f l l' st st' l0 g0 hf hl hs hinv hkl hkg
  unfold forAfter
  cases ix with
  | none =>
    simp only [Option.getD_none, vIndex, vLength, vValues, ForInv] at hinv ⊢
    obtain ⟨hv, hn, hc⟩ := hinv
    have hc := hc trivial
    refine tsim_stmtExpr_pure cfg cv (fun s1 => cfg.host.binop .add c (.num 1) s1.world) hs ?_ ?_
    · intro f' st1 hg1
      rw [evalExpr_incr, hg1, readVar_of_sget hc]
    · intro f' st1 hlt hs1 hg1
      simp only [assignO]
      have hp := assign_gen hl hs1 .index i (cfg.host.binop .add c (.num 1) st1.world) i (Nat.le_refl i)
      generalize hA : assign l st1 (.gen .index i) (cfg.host.binop .add c (.num 1) st1.world) = A at hp ⊢
      obtain ⟨l3, s3⟩ := A
      simp only at hp ⊢
      have hself := sget_assign_self l st1 (.gen .index i) (cfg.host.binop .add c (.num 1) st1.world)
      have hne := fun y hy => sget_assign_ne l st1 (.gen .index i) y (cfg.host.binop .add c (.num 1) st1.world) hy
      rw [hA] at hself hne
      simp only [hg1] at hne
      have hkl3 : KeepL i l0 l3 := hkl.trans hp.2.2.1 (Nat.le_refl i)
      have hkg3 : GKeep l0 i g0 s3.globals := hkg.trans (hg1 ▸ hp.2.2.2) hkl.isSome (Nat.le_refl i)
      have hw : st1.world = st'.world := hs1.1
      have hw3 : s3.world = st'.world := hp.2.1.1
      refine tsim_stmtCond_pure cfg cv
        (fun s4 => cfg.host.binop .lt (cfg.host.binop .add c (.num 1) st1.world) n s4.world) hp.2.1 ?_ ?_
      · intro f'' st4 hg4
        rw [evalExpr_ltvars, hg4, readVar_of_sget hself, readVar_of_sget ((hne _ (by simp)).trans hn)]
      · intro f'' st4 hlt4 hs4 hg4
        have hw4 : st4.world = st'.world := hs4.1
        simp only [footerS, hw, hw4]
        cases cfg.host.truthy (cfg.host.binop .lt (cfg.host.binop .add c (.num 1) st'.world) n st'.world) st'.world with
        | true =>
          simp only [if_true]
          refine ihL _ f'' l3 l' st4 st' l0 g0 (by omega) hp.1 hs4 ?_ hkl3 (hg4 ▸ hkg3)
          simp only [ForInv, vIndex, vLength, vValues, hg4]
          exact ⟨(hne _ (by simp)).trans hv, (hne _ (by simp)).trans hn, fun _ => hw ▸ hself⟩
        | false =>
          simp only [Bool.false_eq_true, if_false]
          rw [← andThen_id (stmtSkip cfg f'' l3 st4)]
          refine tsim_skip cfg hs4 ?_
          intro f5 st5 hlt5 hs5 hg5
          exact ⟨by omega, l', st', ⟨hp.1, hs5, hkl3, hg5 ▸ hg4 ▸ hkg3⟩, Ev.of_all fun _ => rfl⟩
  | some xn =>
    simp only [Option.getD_some, vIndex, vLength, vValues, ForInv] at hinv ⊢
    simp only [ngO, Bool.not_eq_true'] at hix
    obtain ⟨hv, hn, _⟩ := hinv
    refine tsim_stmtExpr_pure cfg cv (fun s1 => cfg.host.binop .add (readVar l s1.globals xn) (.num 1) s1.world) hs ?_ ?_
    · intro f' st1 hg1
      rw [evalExpr_incr]
    · intro f' st1 hlt hs1 hg1
      simp only [assignO]
      have hw : st1.world = st'.world := hs1.1
      have hrv : readVar l st1.globals xn = readVar l' st'.globals xn := readVar_rel hl hs1.2 xn hix
      rw [hrv, hw]
      have hp := assign_user hl hs1 xn (cfg.host.binop .add (readVar l' st'.globals xn) (.num 1) st'.world) hix i
      have hne := fun y hy => sget_assign_ne l st1 xn y (cfg.host.binop .add (readVar l' st'.globals xn) (.num 1) st'.world) hy
      generalize hA : assign l st1 xn (cfg.host.binop .add (readVar l' st'.globals xn) (.num 1) st'.world) = A at hp hne ⊢
      obtain ⟨l3, s3⟩ := A
      generalize hA' : assign l' st' xn (cfg.host.binop .add (readVar l' st'.globals xn) (.num 1) st'.world) = A' at hp
      obtain ⟨l3', s3'⟩ := A'
      simp only [hg1] at hp hne ⊢
      have hkl3 : KeepL i l0 l3 := hkl.trans hp.2.2.1 (Nat.le_refl i)
      have hkg3 : GKeep l0 i g0 s3.globals := hkg.trans hp.2.2.2 hkl.isSome (Nat.le_refl i)
      have hgen : ∀ K k, Name.gen K k ≠ xn := by intro K k h; subst h; simp [isGen] at hix
      refine tsim_stmtCond_pure cfg cv
        (fun s4 => cfg.host.binop .lt (readVar l3 s3.globals xn) n s4.world) hp.2.1 ?_ ?_
      · intro f'' st4 hg4
        rw [evalExpr_ltvars, hg4, readVar_of_sget ((hne _ (hgen _ _)).trans hn)]
      · intro f'' st4 hlt4 hs4 hg4
        have hw4 : st4.world = s3'.world := hs4.1
        simp only [footerS, hA']
        rw [readVar_rel hp.1 hp.2.1.2 xn hix, hw4]
        cases cfg.host.truthy (cfg.host.binop .lt (readVar l3' s3'.globals xn) n s3'.world) s3'.world with
        | true =>
          simp only [if_true]
          refine ihL _ f'' l3 l3' st4 s3' l0 g0 (by omega) hp.1 hs4 ?_ hkl3 (hg4 ▸ hkg3)
          simp only [ForInv, vIndex, vLength, vValues, hg4]
          exact ⟨(hne _ (hgen _ _)).trans hv, (hne _ (hgen _ _)).trans hn, fun h => by cases h⟩
        | false =>
          simp only [Bool.false_eq_true, if_false]
          rw [← andThen_id (stmtSkip cfg f'' l3 st4)]
          refine tsim_skip cfg hs4 ?_
          intro f5 st5 hlt5 hs5 hg5
          exact ⟨by omega, l3', s3', ⟨hp.1, hs5, hkl3, hg5 ▸ hg4 ▸ hkg3⟩, Ev.of_all fun _ => rfl⟩

/-- the iterations of `for` -/
theorem loopF_sim (lk : LK) (i : Nat) (v : Name) (ix : Option Name) (b : List SStmt) (a n : Value)
    (hv : isGen v = false) (hix : ngO ix = true) (hB : BodySim scfg F cv ei base cfg .forL b (i+1)) :
    ∀ nIter, LoopFSim scfg F cv cfg lk i v ix b a n (fun f l s => execTB cfg cv ei true b (i+1) f l base s) nIter := by
  intro nIter
  induction nIter with
  | zero => intro c f l l' st st' l0 g0 _ _ _ _ _ _; simp only [loopF]; trivial
  | succ nIter ih =>
    intro c f l l' st st' l0 g0 hf hl hs hinv hkl hkg
    have hfa := forAfter_sim ag htb cv Hc lk i v ix b a n _ nIter hix ih
    rw [loopF_succ]
    refine TSim.step ?_ (forS_succ ag · v ix b a n c l' st')
    refine tsim_stmtExpr cfg cv (n := some v)
      (X := fun k => callLooked (callS scfg k) fnArrayGet (lookupFunc cfg l' st'.globals fnArrayGet)
        [a, idxS ix c l' st'.globals] st')
      (Φ := fun k r => forIterK cfg.host scfg k v ix b a n c l' r) hs ?_ (fun _ _ _ => rfl) ?_
    · intro f' st1 hlt hs1 hg1
      rw [evalExpr_call2 _ _ _ _ _ _ _ fnArrayGet_ne, lookupFunc_rel cfg hl hs1.2 fnArrayGet rfl]
      have h1 : readVar l st1.globals (vValues i) = a := by rw [hg1]; exact readVar_of_sget hinv.1
      have h2 : readVar l st1.globals (ix.getD (vIndex i)) = idxS ix c l' st'.globals := by
        cases ix with
        | none => rw [hg1]; exact readVar_of_sget (hinv.2.2 rfl)
        | some xn =>
          simp only [ngO, Bool.not_eq_true'] at hix
          exact readVar_rel hl hs1.2 xn hix
      rw [h1, h2]
      exact callLooked_sim (Hc f' (by omega)) fnArrayGet _ _ hs1
    · intro x st2 st2' f' hlt hs2 hk
      simp only [assignO, forIterK]
      have hp := assign_user hl hs2 v x hv (i+1)
      have hinv2 : ForInv i ix a n c l st2.globals :=
        hinv.keep (KeepL.refl (i+1) l) (GKeep.of_all l (i+1) hk) (Nat.lt_succ_self i)
      generalize hA : assign l st2 v x = A at hp ⊢
      obtain ⟨lA, sA⟩ := A
      generalize hA' : assign l' st2' v x = A' at hp ⊢
      obtain ⟨lA', sA'⟩ := A'
      simp only at hp ⊢
      have hinvA : ForInv i ix a n c lA sA.globals := hinv2.keep hp.2.2.1 hp.2.2.2 (Nat.lt_succ_self i)
      have hklA : KeepL i l0 lA := hkl.trans (hp.2.2.1.mono (Nat.le_succ i)) (Nat.le_refl i)
      have hkgA : GKeep l0 i g0 sA.globals :=
        (hkg.trans (GKeep.of_all l i hk) hkl.isSome (Nat.le_refl i)).trans (hp.2.2.2.mono (Nat.le_succ i)) hkl.isSome
          (Nat.le_refl i)
      have hbody := hB f' lA sA lA' sA' (by omega) hp.1 hp.2.1
      simp only [LK.inLoop] at hbody
      cases hO : execTB cfg cv ei true b (i+1) f' lA base sA with
      | oof => trivial
      | err e s =>
        rw [hO] at hbody
        rcases hbody with h | ⟨s', hs1, hev⟩
        · exact Or.inl h
        · exact Or.inr ⟨s', hs1, hev.mono fun k hk => by simp only [hk, loopK]⟩
      | ret rv s =>
        rw [hO] at hbody
        obtain ⟨s', hs1, hk1, hev⟩ := hbody
        exact ⟨s', hs1, hkgA.trans (hk1.mono (Nat.le_succ i)) hklA.isSome (Nat.le_refl i),
          hev.mono fun k hk => by simp only [hk, loopK]⟩
      | brk l1 s1 f1 =>
        rw [hO] at hbody
        obtain ⟨hf1, _, l1', s1', hp1, hev⟩ := hbody
        have hp1' := hp1.weaken hklA hkgA (Nat.le_succ i)
        exact ⟨hf1, l1', s1', hp1', hev.mono fun k hk => by simp only [hk, loopK]⟩
      | cont l1 s1 f1 =>
        rw [hO] at hbody
        obtain ⟨hf1, _, l1', s1', hp1, hev⟩ := hbody
        have hp1' := hp1.weaken hklA hkgA (Nat.le_succ i)
        have hinv1 : ForInv i ix a n c l1 s1.globals := hinvA.keep hp1.2.2.1 hp1.2.2.2 (Nat.lt_succ_self i)
        refine (hfa c f1 l1 l1' s1 s1' l0 g0 hf1 hp1.1 hp1.2.1 hinv1 hp1'.2.2.1 hp1'.2.2.2).transfer ?_
        intro o ho
        exact Ev.comp (Φ := fun k r => loopK (footerS cfg.host scfg k v ix b a n c) r) hev ho
      | norm l1 s1 f1 =>
        rw [hO] at hbody
        obtain ⟨hf1, l1', s1', hp1, hev⟩ := hbody
        have hp1' := hp1.weaken hklA hkgA (Nat.le_succ i)
        have hinv1 : ForInv i ix a n c l1 s1.globals := hinvA.keep hp1.2.2.1 hp1.2.2.2 (Nat.lt_succ_self i)
        suffices h : TSim cfg.maxStatements F lk i l0 g0
            (if usesContB b = true then
              andThen (stmtSkip cfg f1 l1 s1)
                (forAfter cfg cv i v (ix.getD (vIndex i)) (usesContB b)
                  (fun f l s => execTB cfg cv ei true b (i+1) f l base s) nIter)
            else forAfter cfg cv i v (ix.getD (vIndex i)) (usesContB b)
                  (fun f l s => execTB cfg cv ei true b (i+1) f l base s) nIter l1 s1 f1)
            (fun k => footerS cfg.host scfg k v ix b a n c l1' s1') from
          h.transfer fun o ho => Ev.comp (Φ := fun k r => loopK (footerS cfg.host scfg k v ix b a n c) r) hev ho
        split
        · refine tsim_skip cfg hp1.2.1 ?_
          intro f2 st2 hlt2 hs2' hg2
          exact hfa c f2 l1 l1' st2 s1' l0 g0 (by omega) hp1.1 hs2' (hg2 ▸ hinv1) hp1'.2.2.1 (hg2 ▸ hp1'.2.2.2)
        · exact hfa c f1 l1 l1' s1 s1' l0 g0 hf1 hp1.1 hp1.2.1 hinv1 hp1'.2.2.1 hp1'.2.2.2

omit ag htb Hc in
theorem kstep {i : Nat} {l0 l1 l2 : Option Env} {g0 g1 g2 : Env} (hkl : KeepL i l0 l1) (hkg : GKeep l0 i g0 g1)
    (hl : KeepL i l1 l2) (hg : GKeep l1 i g1 g2) : KeepL i l0 l2 ∧ GKeep l0 i g0 g2 :=
  ⟨hkl.trans hl (Nat.le_refl i), hkg.trans hg hkl.isSome (Nat.le_refl i)⟩

omit ag htb Hc in
theorem kall {i : Nat} {l0 : Option Env} {g0 g1 g2 : Env} (hkg : GKeep l0 i g0 g1) (hk : KeepAll g1 g2) :
    GKeep l0 i g0 g2 :=
  hkg.trans (GKeep.of_all l0 i hk) rfl (Nat.le_refl i)

/-- `for v, ix in vals: b` -/
theorem for_sim (lk : LK) (v : Name) (ix : Option Name) (vals : Expr) (b : List SStmt) (i : Nat)
    (hv : isGen v = false) (hix : ngO ix = true) (hvals : nrE vals = true)
    (hB : BodySim scfg F cv ei base cfg .forL b (i+1))
    {f : Nat} {l l' : Option Env} {st st' : State W} (hf : f ≤ F) (hl : LRel l l') (hs : StRel st st') :
    TSim cfg.maxStatements F lk i l st.globals (execTS cfg cv ei lk.inLoop (.for v ix vals b) i f l base st)
      (fun k => execSS scfg k (.for v ix vals b) l' st') := by
  rw [execTS_for]
  refine TSim.step ?_ (execSS_for ag · v ix vals b l' st')
  refine tsim_stmtExpr cfg cv (n := some (vValues i)) (X := fun k => evalExpr cfg (callS scfg k) l' vals st')
    (Φ := fun k r => forValsK cfg scfg k v ix b l' r) hs
    (fun f' st1 hlt hs1 _ => user_expr ag htb cv Hc hf hl vals hvals st' f' st1 hlt hs1) (fun _ _ _ => rfl) ?_
  intro a st2 st2' f1 hlt1 hs2 hk
  simp only [assignO, forValsK]
  -- `values = a`
  have hp1 := assign_gen hl hs2 .values i a i (Nat.le_refl i)
  have hself1 := sget_assign_self l st2 (.gen .values i) a
  generalize hA1 : assign l st2 (.gen .values i) a = A1 at hp1 hself1
  obtain ⟨l1, s1⟩ := A1
  simp only [vValues, vLength, vIndex, hA1] at hp1 hself1 ⊢
  have k1g : GKeep l i st.globals s1.globals := (kall (GKeep.refl l i st.globals) hk).trans hp1.2.2.2 rfl (Nat.le_refl i)
  have k1l : KeepL i l l1 := hp1.2.2.1
  refine tsim_stmtExpr cfg cv (n := some (.gen .length i))
    (X := fun k => callLooked (callS scfg k) fnArrayLength (lookupFunc cfg l' st2'.globals fnArrayLength) [a] st2')
    (Φ := fun k r => forLenK cfg.host scfg k v ix b a l' r) hp1.2.1 ?_ (fun _ _ _ => rfl) ?_
  · intro f' st1' hlt hs1' hg1'
    rw [evalExpr_call1 _ _ _ _ _ _ fnArrayLength_ne, lookupFunc_rel cfg hp1.1 hs1'.2 fnArrayLength rfl]
    have h1 : readVar l1 st1'.globals (.gen .values i) = a := by rw [hg1']; exact readVar_of_sget hself1
    rw [h1]
    exact callLooked_sim (Hc f' (by omega)) fnArrayLength _ _ hs1'
  · intro nlen st3 st3' f2 hlt2 hs3 hk3
    simp only [assignO, forLenK]
    -- `length = nlen`
    have hval3 : sget l1 st3.globals (.gen .values i) = some a :=
      (sget_keep (KeepL.refl (i+1) l1) (GKeep.of_all l1 (i+1) hk3) .values i (Nat.lt_succ_self i)).trans hself1
    have hp2 := assign_gen hp1.1 hs3 .length i nlen i (Nat.le_refl i)
    have hself2 := sget_assign_self l1 st3 (.gen .length i) nlen
    have hne2 := fun y hy => sget_assign_ne l1 st3 (.gen .length i) y nlen hy
    generalize hA2 : assign l1 st3 (.gen .length i) nlen = A2 at hp2 hself2 hne2
    obtain ⟨l2, s2⟩ := A2
    simp only [hA2] at hp2 hself2 hne2 ⊢
    obtain ⟨k2l, k2g⟩ := kstep k1l (kall k1g hk3) hp2.2.2.1 hp2.2.2.2
    have hval2 : sget l2 s2.globals (.gen .values i) = some a := (hne2 _ (by simp)).trans hval3
    rw [stmtCond_notE cfg htb]
    refine tsim_stmtCond_pure cfg cv (fun _ => nlen) hp2.2.1 ?_ ?_
    · intro f' st1' hg1'
      rw [evalExpr_variable, hg1', readVar_of_sget hself2]
    · intro f3 st4 hlt3 hs4 hg4
      have hw4 : st4.world = st3'.world := hs4.1
      rw [hw4]
      cases cfg.host.truthy nlen st3'.world with
      | false =>
        simp only [Bool.not_false, if_true, Bool.false_eq_true, if_false]
        exact ⟨by omega, l', st3', ⟨hp2.1, hs4, k2l, hg4 ▸ k2g⟩, Ev.of_all fun _ => rfl⟩
      | true =>
        simp only [Bool.not_true, Bool.false_eq_true, if_false, if_true]
        refine tsim_stmtExpr_pure cfg cv (fun _ => .num 0) hs4 (fun _ _ _ => by simp only [evalExpr]) ?_
        intro f4 st5 hlt4 hs5 hg5
        simp only [assignO]
        have hg5' : st5.globals = s2.globals := hg5.trans hg4
        cases ix with
        | none =>
          simp only [Option.getD_none, vIndex]
          have hp4 := assign_gen hp2.1 hs5 .index i (.num 0) i (Nat.le_refl i)
          have hself4 := sget_assign_self l2 st5 (.gen .index i) (.num 0)
          have hne4 := fun y hy => sget_assign_ne l2 st5 (.gen .index i) y (.num 0) hy
          generalize hA4 : assign l2 st5 (.gen .index i) (.num 0) = A4 at hp4 hself4 hne4
          obtain ⟨l4, s4⟩ := A4
          simp only [hA4, hg5'] at hp4 hself4 hne4 ⊢
          obtain ⟨k4l, k4g⟩ := kstep k2l k2g hp4.2.2.1 hp4.2.2.2
          refine tsim_skip cfg hp4.2.1 ?_
          intro f5 st6 hlt5 hs6 hg6
          refine loopF_sim ag htb cv ei base Hc lk i v none b a nlen hv hix hB (f5+1) (.num 0) f5 l4 l' st6 st3' l st.globals
            (by omega) hp4.1 hs6 ?_ k4l (hg6 ▸ k4g)
          simp only [ForInv, vValues, vLength, vIndex, hg6]
          exact ⟨(hne4 _ (by simp)).trans hval2, (hne4 _ (by simp)).trans hself2, fun _ => hself4⟩
        | some xn =>
          simp only [Option.getD_some]
          simp only [ngO, Bool.not_eq_true'] at hix
          have hgen : ∀ K k, Name.gen K k ≠ xn := by intro K k h; subst h; simp [isGen] at hix
          have hp4 := assign_user hp2.1 hs5 xn (.num 0) hix i
          have hne4 := fun y hy => sget_assign_ne l2 st5 xn y (.num 0) hy
          generalize hA4 : assign l2 st5 xn (.num 0) = A4 at hp4 hne4
          obtain ⟨l4, s4⟩ := A4
          generalize hA4' : assign l' st3' xn (.num 0) = A4' at hp4
          obtain ⟨l4', s4'⟩ := A4'
          simp only [hA4, hg5'] at hp4 hne4 ⊢
          obtain ⟨k4l, k4g⟩ := kstep k2l k2g hp4.2.2.1 hp4.2.2.2
          refine tsim_skip cfg hp4.2.1 ?_
          intro f5 st6 hlt5 hs6 hg6
          refine loopF_sim ag htb cv ei base Hc lk i v (some xn) b a nlen hv (by simp [ngO, hix]) hB (f5+1) (.num 0) f5 l4 l4' st6
            s4' l st.globals (by omega) hp4.1 hs6 ?_ k4l (hg6 ▸ k4g)
          simp only [ForInv, vValues, vLength, vIndex, hg6]
          exact ⟨(hne4 _ (hgen _ _)).trans hval2, (hne4 _ (hgen _ _)).trans hself2, fun h => by cases h⟩

omit ag htb Hc in
theorem ev_succ {α : Type} {S : Nat → α} {o : α} (h : ∀ k, S (k+1) = o) : Ev fun k => S k = o :=
  Ev.step (F := fun _ => o) h (Ev.of_all fun _ => rfl)

mutual
/-- simulation of one statement: the ticked semantics (with the call runner `cv`, covered up to fuel `F` by `Hc`) against
the pure semantics -/
theorem eraseS (lk : LK) : ∀ (s : SStmt) (i : Nat), okS lk s = true →
    ∀ (f : Nat) (l : Option Env) (st : State W) (l' : Option Env) (st' : State W), f ≤ F → LRel l l' → StRel st st' →
    TSim cfg.maxStatements F lk i l st.globals (execTS cfg cv ei lk.inLoop s i f l base st)
      (fun k => execSS scfg k s l' st')
  | .expr n e, i, h, f, l, st, l', st', hf, hl, hs => by
      simp only [okS, Bool.and_eq_true] at h
      rw [execTS, ← andThen_id (stmtExpr cfg cv n e f l st)]
      refine TSim.step ?_ (execSS_expr ag · n e l' st')
      refine tsim_stmtExpr cfg cv (X := fun k => evalExpr cfg (callS scfg k) l' e st') (Φ := fun k r => exprK n l' r) hs
        (fun f' st1 hlt hs1 _ => user_expr ag htb cv Hc hf hl e h.2 st' f' st1 hlt hs1) (fun _ _ _ => rfl) ?_
      intro v st2 st2' f' hlt hs2 hk
      cases n with
      | none => exact ⟨by omega, l', st2', ⟨hl, hs2, KeepL.refl i l, GKeep.of_all l i hk⟩, Ev.of_all fun _ => rfl⟩
      | some x =>
        simp only [ngO, Bool.not_eq_true'] at h
        exact ⟨by omega, _, _, (assign_user hl hs2 x v h.1 i).weaken (KeepL.refl i l) (GKeep.of_all l i hk) (Nat.le_refl i),
          Ev.of_all fun _ => rfl⟩
  | .ret none, i, h, f, l, st, l', st', hf, hl, hs => by
      rw [execTS]
      refine tsim_tick cfg hs _ _ ?_
      intro f' st1 hlt hs1 hg1
      exact ⟨st', hs1, hg1 ▸ GKeep.refl l i _, ev_succ fun k => by rw [execSS]⟩
  | .ret (some e), i, h, f, l, st, l', st', hf, hl, hs => by
      simp only [okS, nrEO] at h
      rw [execTS]
      refine tsim_tick cfg hs _ _ ?_
      intro f' st1 hlt hs1 hg1
      have hE := user_expr ag htb cv Hc hf hl e h st' f' st1 hlt hs1
      cases hT : evalExpr cfg (cv f') l e st1 with
      | oof => trivial
      | err er s =>
        rw [hT] at hE
        rcases hE with h1 | ⟨s', hs2, hev⟩
        · exact Or.inl h1
        · exact Or.inr ⟨s', hs2, Ev.step (execSS_ret ag · e l' st') (Ev.comp (Φ := fun _ r => retK r) hev (Ev.of_all fun _ => rfl))⟩
      | ok v s =>
        rw [hT] at hE
        obtain ⟨s', hs2, hk2, hev⟩ := hE
        exact ⟨s', hs2, GKeep.of_all l i (hg1 ▸ hk2 rfl), Ev.step (execSS_ret ag · e l' st') (Ev.comp (Φ := fun _ r => retK r) hev (Ev.of_all fun _ => rfl))⟩
  | .label _, i, h, f, l, st, l', st', hf, hl, hs => by simp [okS] at h
  | .jump _ _, i, h, f, l, st, l', st', hf, hl, hs => by simp [okS] at h
  | .include _, i, h, f, l, st, l', st', hf, hl, hs => by simp [okS] at h
  | .brk, i, h, f, l, st, l', st', hf, hl, hs => by
      simp only [okS] at h
      rw [execTS]; simp only [h, if_true]
      refine tsim_tick cfg hs _ _ ?_
      intro f' st1 hlt hs1 hg1
      refine ⟨by omega, ?_, l', st', ⟨hl, hs1, KeepL.refl i l, hg1 ▸ GKeep.refl l i _⟩, ev_succ fun k => by rw [execSS]⟩
      intro hn; subst hn; simp [LK.inLoop] at h
  | .cont, i, h, f, l, st, l', st', hf, hl, hs => by
      simp only [okS, decide_eq_true_eq] at h
      subst h
      rw [execTS]; simp only [LK.inLoop, if_true]
      refine tsim_tick cfg hs _ _ ?_
      intro f' st1 hlt hs1 hg1
      exact ⟨by omega, rfl, l', st', ⟨hl, hs1, KeepL.refl i l, hg1 ▸ GKeep.refl l i _⟩, ev_succ fun k => by rw [execSS]⟩
  | .func fid n args laa isAsync b, i, h, f, l, st, l', st', hf, hl, hs => by
      simp only [okS, Bool.not_eq_true'] at h
      rw [execTS]
      refine tsim_tick cfg hs _ _ ?_
      intro f' st1 hlt hs1 hg1
      refine ⟨by omega, l', { st' with globals := st'.globals.set n (.fn (.script fid)) },
        ⟨hl, ⟨hs1.1, vis_set_congr hs1.2 n _ h⟩, KeepL.refl i l, ?_⟩, ev_succ fun k => by rw [execSS]⟩
      rw [hg1]; exact GKeep.of_all l i (keepAll_set_user _ n _ h)
  | .ite c t e, i, h, f, l, st, l', st', hf, hl, hs => by
      simp only [okS, Bool.and_eq_true] at h
      rw [execTS_ite]
      refine TSim.step ?_ (execSS_ite ag · c t e l' st')
      exact chain_sim ag htb cv ei base Hc lk c t e i h.1.1
        (fun f l st l' st' hf hl hs => eraseB lk t (i+1) h.1.2 f l st l' st' hf hl hs)
        (fun f l st l' st' hf hl hs => eraseE lk e (cntB t (i+1)) h.2 f l st l' st' hf hl hs) hf hl hs
  | .while c b, i, h, f, l, st, l', st', hf, hl, hs => by
      simp only [okS, Bool.and_eq_true] at h
      exact while_sim ag htb cv ei base Hc lk c b i h.1
        (fun f l st l' st' hf hl hs => eraseB .whileL b (i+1) h.2 f l st l' st' hf hl hs) hf hl hs
  | .for v ix vals b, i, h, f, l, st, l', st', hf, hl, hs => by
      simp only [okS, Bool.and_eq_true, Bool.not_eq_true'] at h
      exact for_sim ag htb cv ei base Hc lk v ix vals b i h.1.1.1 h.1.1.2 h.1.2
        (fun f l st l' st' hf hl hs => eraseB .forL b (i+1) h.2 f l st l' st' hf hl hs) hf hl hs
theorem eraseB (lk : LK) : ∀ (B : List SStmt) (i : Nat), okB lk B = true →
    ∀ (f : Nat) (l : Option Env) (st : State W) (l' : Option Env) (st' : State W), f ≤ F → LRel l l' → StRel st st' →
    TSim cfg.maxStatements F lk i l st.globals (execTB cfg cv ei lk.inLoop B i f l base st)
      (fun k => execSB scfg k B l' st')
  | [], i, h, f, l, st, l', st', hf, hl, hs => by
      rw [execTB]
      exact ⟨hf, l', st', ⟨hl, hs, KeepL.refl i l, GKeep.refl l i _⟩, ev_succ fun k => by rw [execSB]⟩
  | s :: ss, i, h, f, l, st, l', st', hf, hl, hs => by
      simp only [okB, Bool.and_eq_true] at h
      rw [execTB_cons]
      refine TSim.step ?_ (execSB_cons scfg · s ss l' st')
      refine tsim_andThen (G := fun k l1 s1 => execSB scfg k ss l1 s1) (eraseS lk s i h.1 f l st l' st' hf hl hs) ?_
      intro l1 s1 f1 l1' s1' hf1 hp
      exact TSim.weaken hp.2.2.1 hp.2.2.2 (cntS_le s i) (eraseB lk ss (cntS s i) h.2 f1 l1 s1 l1' s1' hf1 hp.1 hp.2.1)
theorem eraseE (lk : LK) : ∀ (e : SElse) (i : Nat), okE lk e = true →
    ∀ (f : Nat) (l : Option Env) (st : State W) (l' : Option Env) (st' : State W), f ≤ F → LRel l l' → StRel st st' →
    TSim cfg.maxStatements F lk i l st.globals (execTE cfg cv ei lk.inLoop e i f l base st)
      (fun k => execSE scfg k e l' st')
  | .none, i, h, f, l, st, l', st', hf, hl, hs => by
      rw [execTE]
      exact ⟨hf, l', st', ⟨hl, hs, KeepL.refl i l, GKeep.refl l i _⟩, ev_succ fun k => by rw [execSE]⟩
  | .els b, i, h, f, l, st, l', st', hf, hl, hs => by
      simp only [okE] at h
      rw [execTE_els]
      refine TSim.step (S0 := fun k => execSB scfg k b l' st') ?_ (fun k => by rw [execSE])
      exact tsim_thenSkip rfl (eraseB lk b i h f l st l' st' hf hl hs)
  | .elif c t e, i, h, f, l, st, l', st', hf, hl, hs => by
      simp only [okE, Bool.and_eq_true] at h
      rw [execTE_elif]
      refine TSim.step ?_ (execSE_elif ag · c t e l' st')
      exact chain_sim ag htb cv ei base Hc lk c t e i h.1.1
        (fun f l st l' st' hf hl hs => eraseB lk t (i+1) h.1.2 f l st l' st' hf hl hs)
        (fun f l st l' st' hf hl hs => eraseE lk e (cntB t (i+1)) h.2 f l st l' st' hf hl hs) hf hl hs
end

end Sim

/-! ## calls: from the machine's table of lowered definitions to the structured table, by induction on fuel -/

/-- result of a function body as a call result (machine side) -/
def resK (r : Res W) : Out W :=
  match r with
  | .done s => .ok .null s
  | .ret v s => .ok v s
  | .err e s => .err e s
  | .oof => .oof

theorem callValue₀_script (cfg : Config W) (m : Nat) (id : FnId) (args : List Value) (st : State W) (fd : FuncDef)
    (h : cfg.funs id = some fd) :
    callValue₀ cfg (m+1) (.fn (.script id)) args st =
      resK (execM₀ cfg m fd.body (some (bindArgs cfg.host fd.lastArgArray fd.args args [] st.world).1) none 0
        { st with world := (bindArgs cfg.host fd.lastArgArray fd.args args [] st.world).2 }) := by
  rw [callValue₀]; simp only [h]
  cases execM₀ cfg m fd.body (some (bindArgs cfg.host fd.lastArgArray fd.args args [] st.world).1) none 0
    { st with world := (bindArgs cfg.host fd.lastArgArray fd.args args [] st.world).2 } <;> rfl

theorem callS_script {cfg : Config W} {scfg : SConfig W} {start : FnId → Nat} (ag : Agree cfg scfg start)
    (k : Nat) (id : FnId) (args : List Value) (st : State W) (d : SFuncDef) (h : scfg.sfuns id = some d) :
    callS scfg (k+1) (.fn (.script id)) args st =
      bodyK (execSB scfg k d.body (some (bindArgs cfg.host d.lastArgArray d.args args [] st.world).1)
        { st with world := (bindArgs cfg.host d.lastArgArray d.args args [] st.world).2 }) := by
  rw [callS]; simp only [h, ag.host]
  cases execSB scfg k d.body (some (bindArgs cfg.host d.lastArgArray d.args args [] st.world).1)
    { st with world := (bindArgs cfg.host d.lastArgArray d.args args [] st.world).2 } <;> rfl

theorem OSimG.step {kp : Bool} {L : Nat} {g0 : Env} {o : Out W} {S0 S : Nat → Out W} (h : OSimG kp L g0 o S0)
    (hS : ∀ k, S (k+1) = S0 k) : OSimG kp L g0 o S := by
  cases o with
  | oof => trivial
  | err e s =>
    rcases h with h | ⟨s', hs, hev⟩
    · exact Or.inl h
    · exact Or.inr ⟨s', hs, Ev.step hS hev⟩
  | ok v s => obtain ⟨s', hs, hk, hev⟩ := h; exact ⟨s', hs, hk, Ev.step hS hev⟩

/-- every definition of the structured table is a structured program the simulation covers -/
def TableOK (scfg : SConfig W) : Prop :=
  ∀ id d, scfg.sfuns id = some d → NoRawB d.body ∧ okB .none d.body = true

section Calls
variable {cfg : Config W} {scfg : SConfig W} {start : FnId → Nat} (ag : Agree cfg scfg start)
  (htb : TruthyBool cfg.host) (hhost : HostNoReserved cfg.host) (htab : TableOK scfg)
include ag htb hhost htab

/-- machine calls (on the table of *lowered* definitions) agree with pure calls (on the structured table) -/
theorem callSim_lt : ∀ m m', m' < m → CallSim cfg.maxStatements (callValue₀ cfg m') (callS scfg) := by
  intro m
  induction m with
  | zero => intro m' h; omega
  | succ m ih =>
    intro m' hm'
    have hm : m' ≤ m := by omega
    clear hm'
    intro fv args st st' hs
    cases m' with
    | zero => rw [callValue₀]; trivial
    | succ m' =>
      have Hc : ∀ j, j < m' → CallSim cfg.maxStatements (callValue₀ cfg j) (callS scfg) := fun j hj => ih j (by omega)
      have notFn : ∀ v : Value, (∀ fn, v ≠ .fn fn) → callValue₀ cfg (m'+1) v args st = .ok .null { st with world := cfg.host.notCallable v st.world } →
          (∀ k, callS scfg (k+1) v args st' = .ok .null { st' with world := cfg.host.notCallable v st'.world }) →
          OSim cfg.maxStatements st.globals (callValue₀ cfg (m'+1) v args st) (fun k => callS scfg k v args st') := by
        intro v _ h1 h2
        rw [h1]
        exact ⟨{ st' with world := cfg.host.notCallable v st'.world }, ⟨by simp only [hs.1], hs.2⟩, fun _ => KeepAll.refl _,
          ev_succ h2⟩
      cases fv with
      | fn fn =>
        cases fn with
        | script id =>
          cases hd : scfg.sfuns id with
          | none =>
            have hf : cfg.funs id = none := by rw [ag.funs, hd]; rfl
            have h1 : callValue₀ cfg (m'+1) (.fn (.script id)) args st =
                .ok .null { st with world := cfg.host.notCallable (.fn (.script id)) st.world } := by
              rw [callValue₀]; simp only [hf]
            rw [h1]
            refine ⟨{ st' with world := cfg.host.notCallable (.fn (.script id)) st'.world }, ⟨by simp only [hs.1], hs.2⟩,
              fun _ => KeepAll.refl _, ev_succ fun k => ?_⟩
            rw [callS]; simp only [hd, ag.host]
          | some d =>
            have hf : cfg.funs id = some (lowerDef (start id) d) := by rw [ag.funs, hd]; rfl
            obtain ⟨hraw, hok⟩ := htab id d hd
            rw [callValue₀_script cfg m' id args st _ hf]
            simp only [lowerDef]
            rw [run_body_eq cfg none d.body (start id) hraw]
            refine OSimG.step (S0 := fun k => bodyK (execSB scfg k d.body
              (some (bindArgs cfg.host d.lastArgArray d.args args [] st'.world).1)
              { st' with world := (bindArgs cfg.host d.lastArgArray d.args args [] st'.world).2 })) ?_
              (fun k => callS_script ag k id args st' d hd)
            rw [← hs.1]
            generalize bindArgs cfg.host d.lastArgArray d.args args [] st.world = bw
            obtain ⟨loc, w1⟩ := bw
            simp only
            have hsim := eraseB ag htb (callValue₀ cfg) (execIncludes₀ cfg) none Hc .none d.body (start id) hok m' (some loc)
              { st with world := w1 } (some loc) { st' with world := w1 } (Nat.le_refl _) (LRel.refl _) ⟨rfl, hs.2⟩
            simp only [LK.inLoop] at hsim
            cases hT : execTB cfg (callValue₀ cfg) (execIncludes₀ cfg) false d.body (start id) m' (some loc) none
                { st with world := w1 } with
            | oof => trivial
            | err e s =>
              rw [hT] at hsim
              rcases hsim with h | ⟨s', hs1, hev⟩
              · exact Or.inl h
              · exact Or.inr ⟨s', hs1, hev.mono fun k hk => by simp only [hk, bodyK]⟩
            | ret v s =>
              rw [hT] at hsim
              obtain ⟨s', hs1, hk1, hev⟩ := hsim
              exact ⟨s', hs1, fun _ => hk1, hev.mono fun k hk => by simp only [hk, bodyK]⟩
            | norm l1 s f1 =>
              rw [hT] at hsim
              obtain ⟨_, l1', s', hp, hev⟩ := hsim
              exact ⟨s', hp.2.1, fun _ => hp.2.2.2, hev.mono fun k hk => by simp only [hk, bodyK]⟩
            | brk l1 s f1 => rw [hT] at hsim; exact absurd rfl hsim.2.1
            | cont l1 s f1 => rw [hT] at hsim; exact absurd hsim.2.1 (by decide)
        | lib name =>
          have h := runTree_sim cfg (ih m' (by omega)) (hhost.1 name args st.world) st st' hs
          rw [callValue₀]
          refine OSimG.step h fun k => ?_
          rw [callS, runTreeS_eq ag, ag.host, hs.1]
        | other j =>
          have h := runTree_sim cfg (ih m' (by omega)) (hhost.2 j args st.world) st st' hs
          rw [callValue₀]
          refine OSimG.step h fun k => ?_
          rw [callS, runTreeS_eq ag, ag.host, hs.1]
      | null => exact notFn _ (by intro fn h; cases h) (by rw [callValue₀] <;> (intro _ h; cases h)) (fun k => by rw [callS, ag.host] <;> (intro _ h; cases h))
      | bool b => exact notFn _ (by intro fn h; cases h) (by rw [callValue₀] <;> (intro _ h; cases h)) (fun k => by rw [callS, ag.host] <;> (intro _ h; cases h))
      | num q => exact notFn _ (by intro fn h; cases h) (by rw [callValue₀] <;> (intro _ h; cases h)) (fun k => by rw [callS, ag.host] <;> (intro _ h; cases h))
      | str q => exact notFn _ (by intro fn h; cases h) (by rw [callValue₀] <;> (intro _ h; cases h)) (fun k => by rw [callS, ag.host] <;> (intro _ h; cases h))
      | dt q => exact notFn _ (by intro fn h; cases h) (by rw [callValue₀] <;> (intro _ h; cases h)) (fun k => by rw [callS, ag.host] <;> (intro _ h; cases h))
      | arr q => exact notFn _ (by intro fn h; cases h) (by rw [callValue₀] <;> (intro _ h; cases h)) (fun k => by rw [callS, ag.host] <;> (intro _ h; cases h))
      | obj q => exact notFn _ (by intro fn h; cases h) (by rw [callValue₀] <;> (intro _ h; cases h)) (fun k => by rw [callS, ag.host] <;> (intro _ h; cases h))
      | regex q => exact notFn _ (by intro fn h; cases h) (by rw [callValue₀] <;> (intro _ h; cases h)) (fun k => by rw [callS, ag.host] <;> (intro _ h; cases h))

theorem callSim_all (m : Nat) : CallSim cfg.maxStatements (callValue₀ cfg m) (callS scfg) :=
  callSim_lt ag htb hhost htab (m+1) m (Nat.lt_succ_self m)

end Calls

/-! ## the hypotheses of T3 as decidable predicates on the source program -/

mutual
/-- `NoReserved`: no identifier of the program — variable, function name, parameter, assignment target, `for` variables,
raw label — is a generated (`__bareScript…`) name -/
def NoReservedS : SStmt → Bool
  | .expr n e => ngO n && nrE e
  | .ret e => nrEO e
  | .ite c t e => nrE c && NoReservedB t && NoReservedE e
  | .while c b => nrE c && NoReservedB b
  | .for v ix vals b => !isGen v && ngO ix && nrE vals && NoReservedB b
  | .func _ n args _ _ b => !isGen n && args.all (fun a => !isGen a) && NoReservedB b
  | .label l => !isGen l
  | .jump l c => !isGen l && nrEO c
  | .brk => true
  | .cont => true
  | .include _ => true
def NoReservedB : List SStmt → Bool
  | [] => true
  | s :: ss => NoReservedS s && NoReservedB ss
def NoReservedE : SElse → Bool
  | .none => true
  | .els b => NoReservedB b
  | .elif c t e => nrE c && NoReservedB t && NoReservedE e
end

mutual
/-- `NoInclude`: no `include` statement (an included file is jump-level code with no structured reading) -/
def NoIncludeS : SStmt → Bool
  | .include _ => false
  | .ite _ t e => NoIncludeB t && NoIncludeE e
  | .while _ b => NoIncludeB b
  | .for _ _ _ b => NoIncludeB b
  | .func _ _ _ _ _ b => NoIncludeB b
  | _ => true
def NoIncludeB : List SStmt → Bool
  | [] => true
  | s :: ss => NoIncludeS s && NoIncludeB ss
def NoIncludeE : SElse → Bool
  | .none => true
  | .els b => NoIncludeB b
  | .elif _ t e => NoIncludeB t && NoIncludeE e
end

mutual
/-- `NoWhileContinue` (finding F7): no `continue` whose innermost enclosing loop is a `while`; `inWhile` = the innermost
enclosing loop of the same function is a `while` -/
def NoWhileContinueS (inWhile : Bool) : SStmt → Bool
  | .cont => !inWhile
  | .ite _ t e => NoWhileContinueB inWhile t && NoWhileContinueE inWhile e
  | .while _ b => NoWhileContinueB true b
  | .for _ _ _ b => NoWhileContinueB false b
  | .func _ _ _ _ _ b => NoWhileContinueB false b
  | _ => true
def NoWhileContinueB (inWhile : Bool) : List SStmt → Bool
  | [] => true
  | s :: ss => NoWhileContinueS inWhile s && NoWhileContinueB inWhile ss
def NoWhileContinueE (inWhile : Bool) : SElse → Bool
  | .none => true
  | .els b => NoWhileContinueB inWhile b
  | .elif _ t e => NoWhileContinueB inWhile t && NoWhileContinueE inWhile e
end

/-- the loop kind described by the flags of `wnS` (`inLoop`) and `NoWhileContinueS` (`inWhile`) -/
def lkOf (inLoop inWhile : Bool) : LK :=
  if inLoop then (if inWhile then .whileL else .forL) else .none

mutual
theorem okS_of (il w fn : Bool) : ∀ s : SStmt, NoRawS s → NoReservedS s = true → NoIncludeS s = true →
    NoWhileContinueS w s = true → wnS il fn s = true → okS (lkOf il w) s = true
  | .expr n e, _, h2, _, _, _ => by simpa [okS, NoReservedS] using h2
  | .ret e, _, h2, _, _, _ => by simpa [okS, NoReservedS] using h2
  | .label _, h1, _, _, _, _ => by simp [NoRawS] at h1
  | .jump _ _, h1, _, _, _, _ => by simp [NoRawS] at h1
  | .include _, _, _, h3, _, _ => by simp [NoIncludeS] at h3
  | .brk, _, _, _, _, h5 => by
      simp only [wnS] at h5; subst h5; cases w <;> rfl
  | .cont, _, _, _, h4, h5 => by
      simp only [wnS] at h5; simp only [NoWhileContinueS, Bool.not_eq_true'] at h4; subst h5; subst h4; rfl
  | .func _ n args _ _ b, _, h2, _, _, _ => by
      simp only [NoReservedS, Bool.and_eq_true] at h2
      simpa [okS] using h2.1.1
  | .ite c t e, h1, h2, h3, h4, h5 => by
      simp only [NoRawS] at h1
      simp only [NoReservedS, NoIncludeS, NoWhileContinueS, wnS, Bool.and_eq_true] at h2 h3 h4 h5
      simp only [okS, Bool.and_eq_true]
      exact ⟨⟨h2.1.1, okB_of il w fn t h1.1 h2.1.2 h3.1 h4.1 h5.1⟩, okE_of il w fn e h1.2 h2.2 h3.2 h4.2 h5.2⟩
  | .while c b, h1, h2, h3, h4, h5 => by
      simp only [NoRawS] at h1
      simp only [NoReservedS, NoIncludeS, NoWhileContinueS, wnS, Bool.and_eq_true] at h2 h3 h4 h5
      simp only [okS, Bool.and_eq_true]
      exact ⟨h2.1, okB_of true true fn b h1 h2.2 h3 h4 h5⟩
  | .for v ix vals b, h1, h2, h3, h4, h5 => by
      simp only [NoRawS] at h1
      simp only [NoReservedS, NoIncludeS, NoWhileContinueS, wnS, Bool.and_eq_true] at h2 h3 h4 h5
      simp only [okS, Bool.and_eq_true]
      exact ⟨h2.1, okB_of true false fn b h1 h2.2 h3 h4 h5⟩
theorem okB_of (il w fn : Bool) : ∀ B : List SStmt, NoRawB B → NoReservedB B = true → NoIncludeB B = true →
    NoWhileContinueB w B = true → wnB il fn B = true → okB (lkOf il w) B = true
  | [], _, _, _, _, _ => rfl
  | s :: ss, h1, h2, h3, h4, h5 => by
      simp only [NoRawB] at h1
      simp only [NoReservedB, NoIncludeB, NoWhileContinueB, wnB, Bool.and_eq_true] at h2 h3 h4 h5
      simp only [okB, Bool.and_eq_true]
      exact ⟨okS_of il w fn s h1.1 h2.1 h3.1 h4.1 h5.1, okB_of il w fn ss h1.2 h2.2 h3.2 h4.2 h5.2⟩
theorem okE_of (il w fn : Bool) : ∀ e : SElse, NoRawE e → NoReservedE e = true → NoIncludeE e = true →
    NoWhileContinueE w e = true → wnE il fn e = true → okE (lkOf il w) e = true
  | .none, _, _, _, _, _ => rfl
  | .els b, h1, h2, h3, h4, h5 => by
      simp only [NoRawE] at h1
      simp only [NoReservedE, NoIncludeE, NoWhileContinueE, wnE] at h2 h3 h4 h5
      simp only [okE]
      exact okB_of il w fn b h1 h2 h3 h4 h5
  | .elif c t e, h1, h2, h3, h4, h5 => by
      simp only [NoRawE] at h1
      simp only [NoReservedE, NoIncludeE, NoWhileContinueE, wnE, Bool.and_eq_true] at h2 h3 h4 h5
      simp only [okE, Bool.and_eq_true]
      exact ⟨⟨h2.1.1, okB_of il w fn t h1.1 h2.1.2 h3.1 h4.1 h5.1⟩, okE_of il w fn e h1.2 h2.2 h3.2 h4.2 h5.2⟩
end

/-- the hypotheses on a script: structured (`NoRaw`, `NoInclude`), no reserved identifier, finding F7 excluded, and every
`break` / `continue` inside a loop (what the parser accepts: `WellNested`) -/
structure ProgOK (B : List SStmt) : Prop where
  noRaw : NoRawB B
  noReserved : NoReservedB B = true
  noInclude : NoIncludeB B = true
  noWhileContinue : NoWhileContinueB false B = true
  wellNested : WellNested B

/-- the same for a function definition of the table (its body is in function scope) -/
structure FuncOK (d : SFuncDef) : Prop where
  noRaw : NoRawB d.body
  noReserved : NoReservedB d.body = true
  noReservedHead : (!isGen d.name && d.args.all (fun a => !isGen a)) = true
  noInclude : NoIncludeB d.body = true
  noWhileContinue : NoWhileContinueB false d.body = true
  wellNested : wnB false true d.body = true

def TablesOK (scfg : SConfig W) : Prop := ∀ id d, scfg.sfuns id = some d → FuncOK d

theorem ProgOK.ok {B : List SStmt} (h : ProgOK B) : okB .none B = true :=
  okB_of false false false B h.noRaw h.noReserved h.noInclude h.noWhileContinue h.wellNested

theorem TablesOK.tableOK {scfg : SConfig W} (h : TablesOK scfg) : TableOK scfg :=
  fun id d hd => ⟨(h id d hd).noRaw, okB_of false false true d.body (h id d hd).noRaw (h id d hd).noReserved (h id d hd).noInclude
    (h id d hd).noWhileContinue (h id d hd).wellNested⟩

/-! ## T3, forward direction: whatever the ticked semantics computes, the pure semantics computes too -/

/-- two final results agree on everything observable: same kind of outcome, same returned value / same runtime error,
related final states (same world = same log, heap, …; same user-visible globals) -/
def ResRel : Res W → Res W → Prop
  | .done s, .done s' => StRel s s'
  | .ret v s, .ret v' s' => v = v' ∧ StRel s s'
  | .err e s, .err e' s' => e = e' ∧ StRel s s'
  | _, _ => False

/-- final result of a pure run (as `runS` reads it off) -/
def toResS : SOut W → Res W
  | .norm _ s => .done s
  | .brk _ s => .done s
  | .cont _ s => .done s
  | .ret v s => .ret v s
  | .err e s => .err e s
  | .oof => .oof

theorem runS_eq (scfg : SConfig W) (k : Nat) (B : List SStmt) (st : State W) :
    runS scfg k B st = toResS (execSB scfg k B none st) := by
  unfold runS; cases execSB scfg k B none st <;> rfl

/-- the ticked run of a script, as a final result -/
abbrev runT₀ (cfg : Config W) (fuel : Nat) (B : List SStmt) (base : Option String) (st : State W) : Res W :=
  toRes (execTB cfg (callValue₀ cfg) (execIncludes₀ cfg) false B 0 fuel none base st)

section Forward
variable {cfg : Config W} {scfg : SConfig W} {start : FnId → Nat} (ag : Agree cfg scfg start)
  (htb : TruthyBool cfg.host) (hhost : HostNoReserved cfg.host) (htab : TablesOK scfg)
include ag htb hhost htab

/-- general form (any budget): the ticked run is out of fuel, or stopped by a positive statement budget, or the pure run
yields — for every sufficiently large fuel — the same result up to `ResRel` -/
theorem ticked_erasure_gen (B : List SStmt) (hB : ProgOK B) (fuel : Nat) (base : Option String) (st st' : State W)
    (hs : StRel st st') :
    runT₀ cfg fuel B base st = .oof ∨
    (∃ m s, runT₀ cfg fuel B base st = .err (.exceeded m) s ∧ 0 < cfg.maxStatements) ∨
    ∃ r', ResRel (runT₀ cfg fuel B base st) r' ∧ ∃ N, ∀ k, N ≤ k → runS scfg k B st' = r' := by
  have hsim := eraseB ag htb (callValue₀ cfg) (execIncludes₀ cfg) base
    (fun m _ => callSim_all ag htb hhost htab.tableOK m) .none B 0 hB.ok fuel none st none st' (Nat.le_refl _) trivial hs
  simp only [LK.inLoop] at hsim
  simp only [runT₀]
  cases hT : execTB cfg (callValue₀ cfg) (execIncludes₀ cfg) false B 0 fuel none base st with
  | oof => exact Or.inl rfl
  | err e s =>
    rw [hT] at hsim
    rcases hsim with ⟨m, rfl, hL⟩ | ⟨s', hs1, hev⟩
    · exact Or.inr (Or.inl ⟨m, s, rfl, hL⟩)
    · exact Or.inr (Or.inr ⟨.err e s', ⟨rfl, hs1⟩, hev.mono fun k hk => by simp only at hk; rw [runS_eq, hk]; rfl⟩)
  | ret v s =>
    rw [hT] at hsim
    obtain ⟨s', hs1, _, hev⟩ := hsim
    exact Or.inr (Or.inr ⟨.ret v s', ⟨rfl, hs1⟩, hev.mono fun k hk => by simp only at hk; rw [runS_eq, hk]; rfl⟩)
  | norm l s f =>
    rw [hT] at hsim
    obtain ⟨_, l', s', hp, hev⟩ := hsim
    exact Or.inr (Or.inr ⟨.done s', hp.2.1, hev.mono fun k hk => by simp only at hk; rw [runS_eq, hk]; rfl⟩)
  | brk l s f => rw [hT] at hsim; exact absurd rfl hsim.2.1
  | cont l s f => rw [hT] at hsim; exact absurd hsim.2.1 (by decide)

/-- **T3 (forward), unlimited budget.**  If the ticked run terminates (is not out of fuel), the pure run terminates for
every sufficiently large fuel with the same kind of outcome, the same value / error and a related final state. -/
theorem ticked_erasure_forward (hmax : cfg.maxStatements = 0) (B : List SStmt) (hB : ProgOK B) (fuel : Nat)
    (base : Option String) (st st' : State W) (hs : StRel st st') (hterm : runT₀ cfg fuel B base st ≠ .oof) :
    ∃ r', ResRel (runT₀ cfg fuel B base st) r' ∧ ∃ N, ∀ k, N ≤ k → runS scfg k B st' = r' := by
  rcases ticked_erasure_gen ag htb hhost htab B hB fuel base st st' hs with h | ⟨m, s, _, hL⟩ | h
  · exact absurd h hterm
  · omega
  · exact h

/-- **T3 (forward), budgeted corollary.**  With any statement budget: a ticked run that terminates and is not stopped by
the budget agrees with the pure reading (the limit test in `tick` is the only place `count` / `maxStatements` matter). -/
theorem ticked_erasure_budget (B : List SStmt) (hB : ProgOK B) (fuel : Nat)
    (base : Option String) (st st' : State W) (hs : StRel st st') (hterm : runT₀ cfg fuel B base st ≠ .oof)
    (hbud : ∀ m s, runT₀ cfg fuel B base st ≠ .err (.exceeded m) s) :
    ∃ r', ResRel (runT₀ cfg fuel B base st) r' ∧ ∃ N, ∀ k, N ≤ k → runS scfg k B st' = r' := by
  rcases ticked_erasure_gen ag htb hhost htab B hB fuel base st st' hs with h | ⟨m, s, h, _⟩ | h
  · exact absurd h hterm
  · exact absurd h (hbud m s)
  · exact h

end Forward

/-! ## T4 (forward): parse, lower, run on the jump machine = the pure reading -/

mutual
theorem incS_of_noInclude : ∀ s : SStmt, NoIncludeS s = true → incS s = true ∧ isInc s = false
  | .expr _ _, _ => ⟨rfl, rfl⟩
  | .ret _, _ => ⟨rfl, rfl⟩
  | .label _, _ => ⟨rfl, rfl⟩
  | .jump _ _, _ => ⟨rfl, rfl⟩
  | .brk, _ => ⟨rfl, rfl⟩
  | .cont, _ => ⟨rfl, rfl⟩
  | .include _, h => by simp [NoIncludeS] at h
  | .ite _ t e, h => by
      simp only [NoIncludeS, Bool.and_eq_true] at h
      exact ⟨by simp only [incS, incB_of_noInclude t h.1, incE_of_noInclude e h.2, Bool.and_self], rfl⟩
  | .while _ b, h => by
      simp only [NoIncludeS] at h; exact ⟨by simp only [incS, incB_of_noInclude b h], rfl⟩
  | .for _ _ _ b, h => by
      simp only [NoIncludeS] at h; exact ⟨by simp only [incS, incB_of_noInclude b h], rfl⟩
  | .func _ _ _ _ _ b, h => by
      simp only [NoIncludeS] at h; exact ⟨by simp only [incS, incB_of_noInclude b h], rfl⟩
theorem incB_of_noInclude : ∀ B : List SStmt, NoIncludeB B = true → incB B = true
  | [], _ => rfl
  | s :: ss, h => by
      simp only [NoIncludeB, Bool.and_eq_true] at h
      have h1 := incS_of_noInclude s h.1
      simp [incB, h1.1, h1.2, incB_of_noInclude ss h.2]
theorem incE_of_noInclude : ∀ e : SElse, NoIncludeE e = true → incE e = true
  | .none, _ => rfl
  | .els b, h => by simp only [NoIncludeE] at h; simp only [incE, incB_of_noInclude b h]
  | .elif _ t e, h => by
      simp only [NoIncludeE, Bool.and_eq_true] at h
      simp only [incE, incB_of_noInclude t h.1, incE_of_noInclude e h.2, Bool.and_self]
end

section T4
variable {cfg : Config W} {scfg : SConfig W} {start : FnId → Nat} (ag : Agree cfg scfg start)
  (htb : TruthyBool cfg.host) (hhost : HostNoReserved cfg.host) (htab : TablesOK scfg)
include ag htb hhost htab

/-- the (cached) jump machine on the parse of the rendered program *is* the ticked run of the program (T1, T2, C08) -/
theorem execute_parse_eq_runT₀ (B : List SStmt) (hB : ProgOK B) (hfid : FidsInOrder B) (fuel : Nat) (base : Option String)
    (st : State W) :
    ∃ P, parseLines (renderB B) = .ok P ∧ execute cfg fuel P base st = runT₀ cfg fuel B base { st with count := 0 } := by
  refine ⟨lowerProgram B, parseLines_render B hB.wellNested hfid (incB_of_noInclude B hB.noInclude), ?_⟩
  rw [C08.execute_eq, execute₀_lowered cfg base B hB.noRaw]

/-- **T4, forward half, unlimited budget** (`parse_exec_structured` below has both directions): for every structured program `B` satisfying the
hypotheses, the lines a user writes for `B` parse (to the lowering of `B`), and whenever `execute_script` on that
statement list (the real, label-caching machine) terminates, the pure source-level reading `execS B` terminates — for
every sufficiently large fuel — with the same kind of outcome, the same returned value / runtime error, the same world
(log, heap, …) and the same user-visible globals. -/
theorem parse_exec_structured_forward (hmax : cfg.maxStatements = 0) (B : List SStmt) (hB : ProgOK B) (hfid : FidsInOrder B)
    (fuel : Nat) (base : Option String) (st st' : State W) (hs : StRel st st') :
    ∃ P, parseLines (renderB B) = .ok P ∧
      (execute cfg fuel P base st ≠ .oof →
        ∃ r', ResRel (execute cfg fuel P base st) r' ∧ ∃ N, ∀ k, N ≤ k → runS scfg k B st' = r') := by
  obtain ⟨P, hP, hE⟩ := execute_parse_eq_runT₀ ag htb hhost htab B hB hfid fuel base st
  refine ⟨P, hP, fun hterm => ?_⟩
  rw [hE] at hterm ⊢
  exact ticked_erasure_forward ag htb hhost htab hmax B hB fuel base { st with count := 0 } st' hs hterm

/-- T4 with a statement budget: as long as the machine is not stopped by the budget -/
theorem parse_exec_structured_budget (B : List SStmt) (hB : ProgOK B) (hfid : FidsInOrder B)
    (fuel : Nat) (base : Option String) (st st' : State W) (hs : StRel st st') :
    ∃ P, parseLines (renderB B) = .ok P ∧
      (execute cfg fuel P base st ≠ .oof → (∀ m s, execute cfg fuel P base st ≠ .err (.exceeded m) s) →
        ∃ r', ResRel (execute cfg fuel P base st) r' ∧ ∃ N, ∀ k, N ≤ k → runS scfg k B st' = r') := by
  obtain ⟨P, hP, hE⟩ := execute_parse_eq_runT₀ ag htb hhost htab B hB hfid fuel base st
  refine ⟨P, hP, fun hterm hbud => ?_⟩
  rw [hE] at hterm hbud ⊢
  exact ticked_erasure_budget ag htb hhost htab B hB fuel base { st with count := 0 } st' hs hterm hbud

end T4

/-! ## T3, converse direction: whatever the pure semantics computes, the ticked semantics computes too (given enough fuel) -/

section Converse
variable {cfg : Config W} {scfg : SConfig W} {start : FnId → Nat} (ag : Agree cfg scfg start)
  (htb : TruthyBool cfg.host) (hhost : HostNoReserved cfg.host) (htab : TableOK scfg) (hmax : cfg.maxStatements = 0)
  (base : Option String)

/-- pure calls with fuel `k` are matched by machine calls with enough fuel -/
def CallC (cfg : Config W) (scfg : SConfig W) (k : Nat) : Prop := CallSimG false 0 (callS scfg k) (callValue₀ cfg)

def StmtC (cfg : Config W) (scfg : SConfig W) (base : Option String) (k : Nat) : Prop :=
  ∀ (lk : LK) (s : SStmt) (i : Nat), okS lk s = true → ∀ (l : Option Env) (st : State W) (l' : Option Env) (st' : State W),
    LRel l l' → StRel st st' →
    CSim lk i l st.globals (fun f => execTS cfg (callValue₀ cfg) (execIncludes₀ cfg) lk.inLoop s i f l base st)
      (execSS scfg k s l' st')

def BlockC (cfg : Config W) (scfg : SConfig W) (base : Option String) (k : Nat) : Prop :=
  ∀ (lk : LK) (B : List SStmt) (i : Nat), okB lk B = true → ∀ (l : Option Env) (st : State W) (l' : Option Env) (st' : State W),
    LRel l l' → StRel st st' →
    CSim lk i l st.globals (fun f => execTB cfg (callValue₀ cfg) (execIncludes₀ cfg) lk.inLoop B i f l base st)
      (execSB scfg k B l' st')

def ElseC (cfg : Config W) (scfg : SConfig W) (base : Option String) (k : Nat) : Prop :=
  ∀ (lk : LK) (e : SElse) (i : Nat), okE lk e = true → ∀ (l : Option Env) (st : State W) (l' : Option Env) (st' : State W),
    LRel l l' → StRel st st' →
    CSim lk i l st.globals (fun f => execTE cfg (callValue₀ cfg) (execIncludes₀ cfg) lk.inLoop e i f l base st)
      (execSE scfg k e l' st')

/-- after the body of a `while` iteration (machine: the test at the bottom; pure: the `while` statement again) -/
def WhileC (cfg : Config W) (scfg : SConfig W) (base : Option String) (k : Nat) : Prop :=
  ∀ (lk : LK) (c : Expr) (b : List SStmt) (i : Nat), nrE c = true → okB .whileL b = true →
    ∀ (l : Option Env) (st : State W) (l' : Option Env) (st' : State W), LRel l l' → StRel st st' →
    CSim lk i l st.globals
      (fun f => wTest1 cfg (callValue₀ cfg) c (fun f l s => execTB cfg (callValue₀ cfg) (execIncludes₀ cfg) true b (i+1) f l base s) f l st)
      (execSS scfg k (.while c b) l' st')

/-- the iterations of `for` -/
def ForC (cfg : Config W) (scfg : SConfig W) (base : Option String) (k : Nat) : Prop :=
  ∀ (lk : LK) (i : Nat) (v : Name) (ix : Option Name) (b : List SStmt) (a n c : Value),
    isGen v = false → ngO ix = true → okB .forL b = true →
    ∀ (l : Option Env) (st : State W) (l' : Option Env) (st' : State W) (l0 : Option Env) (g0 : Env),
    LRel l l' → StRel st st' → ForInv i ix a n c l st.globals → KeepL i l0 l → GKeep l0 i g0 st.globals →
    CSim lk i l0 g0
      (fun f => loopF1 cfg (callValue₀ cfg) i v (ix.getD (vIndex i)) (usesContB b)
        (fun f l s => execTB cfg (callValue₀ cfg) (execIncludes₀ cfg) true b (i+1) f l base s) f l st)
      (forS scfg k v ix b a n c l' st')

include ag htb hhost htab

/-- machine-side frame fact, read off the forward simulation: evaluating a user expression keeps the generated globals -/
theorem keepE (m : Nat) (l : Option Env) (e : Expr) (he : nrE e = true) (st : State W) (v : Value) (s : State W)
    (h : evalExpr cfg (callValue₀ cfg m) l e st = .ok v s) : KeepAll st.globals s.globals := by
  have := evalExpr_sim cfg (callSim_all ag htb hhost htab m) (LRel.refl l) e st st he (StRel.refl st)
  rw [h] at this
  obtain ⟨_, _, hk, _⟩ := this
  exact hk rfl

theorem keepCallLooked (m : Nat) (n : Name) (r : Option Value) (vs : List Value) (st : State W) (v : Value) (s : State W)
    (h : callLooked (callValue₀ cfg m) n r vs st = .ok v s) : KeepAll st.globals s.globals := by
  have := callLooked_sim (callSim_all ag htb hhost htab m) n r vs (StRel.refl st)
  rw [h] at this
  obtain ⟨_, _, hk, _⟩ := this
  exact hk rfl

omit htb hhost htab in
/-- a user expression, converse: the pure evaluation against the machine evaluations -/
theorem user_exprC {k : Nat} (hC : CallC cfg scfg k) {l l' : Option Env} (hl : LRel l l') (e : Expr) (he : nrE e = true)
    {st st' : State W} (hs : StRel st st') :
    OSimG false 0 st'.globals (evalExpr cfg (callS scfg k) l' e st') (fun m => evalExpr cfg (callValue₀ cfg m) l e st) :=
  evalExpr_sim cfg hC hl.symm e st' st he hs.symm

omit ag htb hhost htab in
theorem tk_rel {st st' : State W} (hs : StRel st st') : StRel (tk st) st' := hs

include hmax

/-- a branch block followed by `label done` / `jump done`, converse -/
theorem csim_thenSkip {lk : LK} {i : Nat} {l0 : Option Env} {g0 : Env} {T : Nat → TOut W} {o' : SOut W}
    (h : CSim lk i l0 g0 T o') :
    CSim lk i l0 g0 (fun f => andThen (T f) fun l s f => stmtSkip cfg f l s) o' := by
  have : o' = seqK (fun l s => SOut.norm l s) o' := by cases o' <;> rfl
  rw [this]
  refine csim_andThen cfg hmax h ?_
  intro l s l' s' hp
  have := csim_skip cfg hmax (lk := lk) (i := i) (l0 := l0) (g0 := g0) (l := l) (st := s)
    (g := fun l s f => .norm l s f) (o' := .norm l' s') (csim_norm ⟨hp.1, hp.2.1, hp.2.2.1, hp.2.2.2⟩)
  exact this.congr fun f => (andThen_id _).symm

theorem blockC_succ {k : Nat} (hS : StmtC cfg scfg base k) (hB : BlockC cfg scfg base k) : BlockC cfg scfg base (k+1) := by
  intro lk B i hok l st l' st' hl hs
  cases B with
  | nil =>
    rw [execSB]
    exact (csim_norm ⟨hl, hs, KeepL.refl i l, GKeep.refl l i _⟩).congr fun f => by rw [execTB]
  | cons s ss =>
    simp only [okB, Bool.and_eq_true] at hok
    rw [execSB_cons]
    refine (csim_andThen cfg hmax (hS lk s i hok.1 l st l' st' hl hs) ?_).congr fun f => execTB_cons ..
    intro l1 s1 l1' s1' hp
    exact CSim.weaken hp.2.2.1 hp.2.2.2 (cntS_le s i) (hB lk ss (cntS s i) hok.2 l1 s1 l1' s1' hp.1 hp.2.1)

/-- one branch of an `if` chain, converse -/
theorem chainC {k : Nat} (hC : CallC cfg scfg k) (hB : BlockC cfg scfg base k) (hE : ElseC cfg scfg base k)
    (lk : LK) (c : Expr) (t : List SStmt) (e : SElse) (i : Nat) (hc : nrE c = true) (ht : okB lk t = true) (he : okE lk e = true)
    {l l' : Option Env} {st st' : State W} (hl : LRel l l') (hs : StRel st st') :
    CSim lk i l st.globals
      (fun f => stmtCond cfg (callValue₀ cfg) (notE c) f l st fun taken f st1 =>
        if taken then execTE cfg (callValue₀ cfg) (execIncludes₀ cfg) lk.inLoop e (cntB t (i+1)) f l base st1
        else thenT cfg (callValue₀ cfg) (execIncludes₀ cfg) lk.inLoop t (i+1) f l base st1)
      (condK cfg.host (fun s => execSB scfg k t l' s) (fun s => execSE scfg k e l' s)
        (evalExpr cfg (callS scfg k) l' c st')) := by
  simp only [stmtCond_notE cfg htb]
  refine csim_stmtCond cfg hmax (callValue₀ cfg)
    (Φ := condK cfg.host (fun s => execSB scfg k t l' s) (fun s => execSE scfg k e l' s))
    (user_exprC ag hC hl c hc (tk_rel hs)) (fun m v s2 h => keepE ag htb hhost htab m l c hc (tk st) v s2 h)
    (fun _ _ => rfl) rfl ?_
  intro v s2 s2' hs2 hk
  have hct := cntB_le t (i+1)
  simp only [condK, ← hs2.1]
  cases cfg.host.truthy v s2.world with
  | true =>
    simp only [Bool.not_true, Bool.false_eq_true, if_false, if_true]
    exact CSim.weaken (KeepL.refl i l) (GKeep.of_all l i hk) (by omega)
      (csim_thenSkip ag htb hhost htab hmax (hB lk t (i+1) ht l s2 l' s2' hl hs2))
  | false =>
    simp only [Bool.not_false, Bool.false_eq_true, if_false, if_true]
    exact CSim.weaken (KeepL.refl i l) (GKeep.of_all l i hk) (by omega) (hE lk e (cntB t (i+1)) he l s2 l' s2' hl hs2)

theorem elseC_succ {k : Nat} (hC : CallC cfg scfg k) (hB : BlockC cfg scfg base k) (hE : ElseC cfg scfg base k) :
    ElseC cfg scfg base (k+1) := by
  intro lk e i hok l st l' st' hl hs
  cases e with
  | none =>
    rw [execSE]
    exact (csim_norm ⟨hl, hs, KeepL.refl i l, GKeep.refl l i _⟩).congr fun f => by rw [execTE]
  | els b =>
    simp only [okE] at hok
    rw [execSE]
    exact (csim_thenSkip ag htb hhost htab hmax (hB lk b i hok l st l' st' hl hs)).congr fun f => execTE_els ..
  | elif c t e =>
    simp only [okE, Bool.and_eq_true] at hok
    rw [execSE_elif ag]
    exact (chainC ag htb hhost htab hmax base hC hB hE lk c t e i hok.1.1 hok.1.2 hok.2 hl hs).congr fun f => execTE_elif ..

/-- the iterations of `while`, entered just before the body, converse -/
theorem loopW1C {k : Nat} (hB : BlockC cfg scfg base k) (hW : WhileC cfg scfg base k)
    (lk : LK) (c : Expr) (b : List SStmt) (i : Nat) (hc : nrE c = true) (hok : okB .whileL b = true)
    {l l' : Option Env} {st st' : State W} (hl : LRel l l') (hs : StRel st st') :
    CSim lk i l st.globals
      (fun f => loopW1 cfg (callValue₀ cfg) c
        (fun f l s => execTB cfg (callValue₀ cfg) (execIncludes₀ cfg) true b (i+1) f l base s) f l st)
      (loopK (fun l1 s1 => execSS scfg k (.while c b) l1 s1) (execSB scfg k b l' st')) := by
  have hb : ∀ f l st, FuelOK f (execTB cfg (callValue₀ cfg) (execIncludes₀ cfg) true b (i+1) f l base st) :=
    fun f l st => execTB_ok cfg _ _ true b (i+1) f l base st
  have h0 := hB .whileL b (i+1) hok l st l' st' hl hs
  simp only [LK.inLoop] at h0
  refine (csim_then (Ψ := wAfter1 cfg (callValue₀ cfg) c
      (fun f l s => execTB cfg (callValue₀ cfg) (execIncludes₀ cfg) true b (i+1) f l base s))
    (Γ := loopK (fun l1 s1 => execSS scfg k (.while c b) l1 s1)) h0 rfl ?_).congr
    (fun f => loopW1_eq cfg (callValue₀ cfg) c _ hb f l st)
  intro o o' hr
  cases o <;> cases o' <;> simp only [ORel] at hr
  · rename_i l1 s1 l1' s1'
    exact CSim.weaken (hr.2.2.1.mono (Nat.le_succ i)) (hr.2.2.2.mono (Nat.le_succ i)) (Nat.le_refl i)
      (hW lk c b i hc hok l1 s1 l1' s1' hr.1 hr.2.1)
  · exact csim_norm ⟨hr.2.1, hr.2.2.1, hr.2.2.2.1.mono (Nat.le_succ i), hr.2.2.2.2.mono (Nat.le_succ i)⟩
  · exact absurd hr.1 (by decide)
  · obtain ⟨rfl, h1, h2⟩ := hr
    exact csim_ret h1 (h2.mono (Nat.le_succ i))
  · obtain ⟨rfl, h1⟩ := hr
    exact csim_err h1

theorem whileC_succ {k : Nat} (hC : CallC cfg scfg k) (hB : BlockC cfg scfg base k) (hW : WhileC cfg scfg base k) :
    WhileC cfg scfg base (k+1) := by
  intro lk c b i hc hok l st l' st' hl hs
  rw [execSS_while ag]
  unfold wTest1
  refine csim_stmtCond cfg hmax (callValue₀ cfg)
    (Φ := condK cfg.host (fun s => loopK (fun l2 s2 => execSS scfg k (.while c b) l2 s2) (execSB scfg k b l' s))
      (fun s => .norm l' s))
    (user_exprC ag hC hl c hc (tk_rel hs)) (fun m v s2 h => keepE ag htb hhost htab m l c hc (tk st) v s2 h)
    (fun _ _ => rfl) rfl ?_
  intro v s2 s2' hs2 hk
  simp only [condK, ← hs2.1]
  cases cfg.host.truthy v s2.world with
  | true =>
    simp only [if_true]
    exact CSim.weaken (KeepL.refl i l) (GKeep.of_all l i hk) (Nat.le_refl i)
      (loopW1C ag htb hhost htab hmax base hB hW lk c b i hc hok hl hs2)
  | false =>
    simp only [Bool.false_eq_true, if_false]
    refine (csim_skip cfg hmax (g := fun l s f => .norm l s f)
      (csim_norm ⟨hl, tk_rel hs2, KeepL.refl i l, GKeep.of_all l i hk⟩)).congr fun f => (andThen_id _).symm

omit ag htb hhost htab hmax in
@[simp] theorem tk_globals (st : State W) : (tk st).globals = st.globals := rfl
omit ag htb hhost htab hmax in
@[simp] theorem tk_world (st : State W) : (tk st).world = st.world := rfl

/-- the footer of a `for` iteration, converse -/
theorem forAfter1C {k : Nat} (hF : ForC cfg scfg base k)
    (lk : LK) (i : Nat) (v : Name) (ix : Option Name) (b : List SStmt) (a n : Value)
    (hv : isGen v = false) (hix : ngO ix = true) (hokb : okB .forL b = true) :
    ∀ (c : Value) (l l' : Option Env) (st st' : State W) (l0 : Option Env) (g0 : Env),
      LRel l l' → StRel st st' → ForInv i ix a n c l st.globals → KeepL i l0 l → GKeep l0 i g0 st.globals →
      CSim lk i l0 g0
        (fun f => forAfter1 cfg (callValue₀ cfg) i v (ix.getD (vIndex i)) (usesContB b)
          (fun f l s => execTB cfg (callValue₀ cfg) (execIncludes₀ cfg) true b (i+1) f l base s) l st f)
        (footerS cfg.host scfg k v ix b a n c l' st') := by
  intro c l l' st st' l0 g0 hl hs hinv hkl hkg
  unfold forAfter1
  cases ix with
  | none =>
    simp only [Option.getD_none, vIndex, vLength, vValues, ForInv] at hinv ⊢
    obtain ⟨hvv, hn, hc⟩ := hinv
    have hc := hc trivial
    refine csim_stmtExpr_pure cfg hmax (callValue₀ cfg) (cfg.host.binop .add c (.num 1) st.world) ?_ ?_
    · intro m
      rw [evalExpr_incr, tk_globals, readVar_of_sget hc]; rfl
    · simp only [assignO]
      have hp := assign_gen hl (tk_rel hs) .index i (cfg.host.binop .add c (.num 1) st.world) i (Nat.le_refl i)
      have hself := sget_assign_self l (tk st) (.gen .index i) (cfg.host.binop .add c (.num 1) st.world)
      have hne := fun y hy => sget_assign_ne l (tk st) (.gen .index i) y (cfg.host.binop .add c (.num 1) st.world) hy
      have hw3 := assign_world l (tk st) (.gen .index i) (cfg.host.binop .add c (.num 1) st.world)
      generalize hA : assign l (tk st) (.gen .index i) (cfg.host.binop .add c (.num 1) st.world) = A at hp hself hne hw3 ⊢
      obtain ⟨l3, s3⟩ := A
      simp only [tk_globals, tk_world] at hp hself hne hw3 ⊢
      have hkl3 : KeepL i l0 l3 := hkl.trans hp.2.2.1 (Nat.le_refl i)
      have hkg3 : GKeep l0 i g0 s3.globals := hkg.trans hp.2.2.2 hkl.isSome (Nat.le_refl i)
      refine csim_stmtCond_pure cfg hmax (callValue₀ cfg)
        (cfg.host.binop .lt (cfg.host.binop .add c (.num 1) st.world) n s3.world) ?_ ?_
      · intro m
        rw [evalExpr_ltvars, tk_globals, readVar_of_sget hself, readVar_of_sget ((hne _ (by simp)).trans hn)]; rfl
      · simp only [footerS, tk_world, hw3, ← hs.1]
        cases cfg.host.truthy (cfg.host.binop .lt (cfg.host.binop .add c (.num 1) st.world) n st.world) st.world with
        | true =>
          simp only [if_true]
          refine hF lk i v none b a n _ hv hix hokb l3 (tk s3) l' st' l0 g0 hp.1 (tk_rel hp.2.1) ?_ hkl3 hkg3
          simp only [ForInv, vIndex, vLength, vValues, tk_globals]
          exact ⟨(hne _ (by simp)).trans hvv, (hne _ (by simp)).trans hn, fun _ => hself⟩
        | false =>
          simp only [Bool.false_eq_true, if_false]
          exact (csim_skip cfg hmax (g := fun l s f => .norm l s f)
            (csim_norm ⟨hp.1, tk_rel (tk_rel hp.2.1), hkl3, hkg3⟩)).congr fun f => (andThen_id _).symm
  | some xn =>
    simp only [Option.getD_some, vIndex, vLength, vValues, ForInv] at hinv ⊢
    simp only [ngO, Bool.not_eq_true'] at hix
    obtain ⟨hvv, hn, _⟩ := hinv
    have hgen : ∀ K k, Name.gen K k ≠ xn := by intro K k h; subst h; simp [isGen] at hix
    have hrv : readVar l st.globals xn = readVar l' st'.globals xn := readVar_rel hl hs.2 xn hix
    refine csim_stmtExpr_pure cfg hmax (callValue₀ cfg)
      (cfg.host.binop .add (readVar l' st'.globals xn) (.num 1) st'.world) ?_ ?_
    · intro m
      rw [evalExpr_incr, tk_globals, tk_world, hrv, hs.1]
    · simp only [assignO]
      have hp := assign_user hl (tk_rel hs) xn (cfg.host.binop .add (readVar l' st'.globals xn) (.num 1) st'.world) hix i
      have hne := fun y hy => sget_assign_ne l (tk st) xn y (cfg.host.binop .add (readVar l' st'.globals xn) (.num 1) st'.world) hy
      generalize hA : assign l (tk st) xn (cfg.host.binop .add (readVar l' st'.globals xn) (.num 1) st'.world) = A at hp hne ⊢
      obtain ⟨l3, s3⟩ := A
      simp only [footerS]
      generalize hA' : assign l' st' xn (cfg.host.binop .add (readVar l' st'.globals xn) (.num 1) st'.world) = A' at hp ⊢
      obtain ⟨l3', s3'⟩ := A'
      simp only [tk_globals, tk_world] at hp hne ⊢
      have hkl3 : KeepL i l0 l3 := hkl.trans hp.2.2.1 (Nat.le_refl i)
      have hkg3 : GKeep l0 i g0 s3.globals := hkg.trans hp.2.2.2 hkl.isSome (Nat.le_refl i)
      refine csim_stmtCond_pure cfg hmax (callValue₀ cfg)
        (cfg.host.binop .lt (readVar l3' s3'.globals xn) n s3'.world) ?_ ?_
      · intro m
        rw [evalExpr_ltvars, tk_globals, tk_world, readVar_of_sget ((hne _ (hgen _ _)).trans hn),
          readVar_rel hp.1 hp.2.1.2 xn hix, hp.2.1.1]
      · simp only [tk_world, hp.2.1.1]
        cases cfg.host.truthy (cfg.host.binop .lt (readVar l3' s3'.globals xn) n s3'.world) s3'.world with
        | true =>
          simp only [if_true]
          refine hF lk i v (some xn) b a n c hv (by simp [ngO, hix]) hokb l3 (tk s3) l3' s3' l0 g0 hp.1 (tk_rel hp.2.1) ?_ hkl3 hkg3
          simp only [ForInv, vIndex, vLength, vValues, tk_globals]
          exact ⟨(hne _ (hgen _ _)).trans hvv, (hne _ (hgen _ _)).trans hn, fun h => by cases h⟩
        | false =>
          simp only [Bool.false_eq_true, if_false]
          exact (csim_skip cfg hmax (g := fun l s f => .norm l s f)
            (csim_norm ⟨hp.1, tk_rel (tk_rel hp.2.1), hkl3, hkg3⟩)).congr fun f => (andThen_id _).symm

theorem forC_succ {k : Nat} (hC : CallC cfg scfg k) (hB : BlockC cfg scfg base k) (hF : ForC cfg scfg base k) :
    ForC cfg scfg base (k+1) := by
  intro lk i v ix b a n c hv hix hokb l st l' st' l0 g0 hl hs hinv hkl hkg
  have hb : ∀ f l st, FuelOK f (execTB cfg (callValue₀ cfg) (execIncludes₀ cfg) true b (i+1) f l base st) :=
    fun f l st => execTB_ok cfg _ _ true b (i+1) f l base st
  have hfa := forAfter1C ag htb hhost htab hmax base hF lk i v ix b a n hv hix hokb
  generalize usesContB b = hcb at hfa ⊢
  rw [forS_succ ag]
  have h1 : readVar l st.globals (vValues i) = a := readVar_of_sget hinv.1
  have h2 : readVar l st.globals (ix.getD (vIndex i)) = idxS ix c l' st'.globals := by
    cases ix with
    | none => exact readVar_of_sget (hinv.2.2 rfl)
    | some xn =>
      simp only [ngO, Bool.not_eq_true'] at hix
      exact readVar_rel hl hs.2 xn hix
  have hev : ∀ m, evalExpr cfg (callValue₀ cfg m) l
      (.function fnArrayGet [.variable (vValues i), .variable (ix.getD (vIndex i))]) (tk st) =
      callLooked (callValue₀ cfg m) fnArrayGet (lookupFunc cfg l' st'.globals fnArrayGet) [a, idxS ix c l' st'.globals] (tk st) := by
    intro m
    rw [evalExpr_call2 _ _ _ _ _ _ _ fnArrayGet_ne, tk_globals, lookupFunc_rel cfg hl hs.2 fnArrayGet rfl, h1, h2]
  refine (csim_stmtExpr cfg hmax (callValue₀ cfg) (n := some v) (gx := st'.globals)
    (Φ := forIterK cfg.host scfg k v ix b a n c l') ?_ ?_ (fun _ _ => rfl) rfl ?_).congr
    (fun f => loopF1_eq cfg (callValue₀ cfg) i v _ _ _ hb f l st)
  · simp only [hev]
    exact callLooked_sim hC fnArrayGet _ _ (tk_rel hs).symm
  · intro m x s2 h
    rw [hev] at h
    exact keepCallLooked ag htb hhost htab m _ _ _ (tk st) x s2 h
  · intro x s2 s2' hs2 hk
    simp only [assignO, forIterK]
    have hp := assign_user hl hs2 v x hv (i+1)
    have hinv2 : ForInv i ix a n c l s2.globals :=
      hinv.keep (KeepL.refl (i+1) l) (GKeep.of_all l (i+1) hk) (Nat.lt_succ_self i)
    generalize hA : assign l s2 v x = A at hp ⊢
    obtain ⟨lA, sA⟩ := A
    generalize hA' : assign l' s2' v x = A' at hp ⊢
    obtain ⟨lA', sA'⟩ := A'
    simp only at hp ⊢
    have hinvA : ForInv i ix a n c lA sA.globals := hinv2.keep hp.2.2.1 hp.2.2.2 (Nat.lt_succ_self i)
    have hklA : KeepL i l0 lA := hkl.trans (hp.2.2.1.mono (Nat.le_succ i)) (Nat.le_refl i)
    have hkgA : GKeep l0 i g0 sA.globals :=
      (hkg.trans (GKeep.of_all l i hk) hkl.isSome (Nat.le_refl i)).trans (hp.2.2.2.mono (Nat.le_succ i)) hkl.isSome
        (Nat.le_refl i)
    have h0 := hB .forL b (i+1) hokb lA sA lA' sA' hp.1 hp.2.1
    simp only [LK.inLoop] at h0
    refine csim_then (Ψ := fAfter1 cfg (callValue₀ cfg) i v (ix.getD (vIndex i)) hcb
        (fun f l s => execTB cfg (callValue₀ cfg) (execIncludes₀ cfg) true b (i+1) f l base s))
      (Γ := loopK (footerS cfg.host scfg k v ix b a n c)) h0 rfl ?_
    intro o o' hr
    cases o <;> cases o' <;> simp only [ORel] at hr
    · rename_i l1 s1 l1' s1'
      have hp1' := hr.weaken hklA hkgA (Nat.le_succ i)
      have hinv1 : ForInv i ix a n c l1 s1.globals := hinvA.keep hr.2.2.1 hr.2.2.2 (Nat.lt_succ_self i)
      simp only [fAfter1, SOut.withFuel, loopK]
      cases hcb with
      | true =>
        simp only [if_true]
        exact csim_skip cfg hmax (hfa c l1 l1' (tk s1) s1' l0 g0 hr.1 (tk_rel hr.2.1) hinv1 hp1'.2.2.1 hp1'.2.2.2)
      | false =>
        simp only [Bool.false_eq_true, if_false]
        exact hfa c l1 l1' s1 s1' l0 g0 hr.1 hr.2.1 hinv1 hp1'.2.2.1 hp1'.2.2.2
    · rename_i l1 s1 l1' s1'
      have hp1' := hr.2.weaken hklA hkgA (Nat.le_succ i)
      exact csim_norm hp1'
    · rename_i l1 s1 l1' s1'
      have hp1' := hr.2.weaken hklA hkgA (Nat.le_succ i)
      have hinv1 : ForInv i ix a n c l1 s1.globals := hinvA.keep hr.2.2.2.1 hr.2.2.2.2 (Nat.lt_succ_self i)
      exact hfa c l1 l1' s1 s1' l0 g0 hr.2.1 hr.2.2.1 hinv1 hp1'.2.2.1 hp1'.2.2.2
    · obtain ⟨rfl, h1', h2'⟩ := hr
      exact csim_ret h1' (hkgA.trans (h2'.mono (Nat.le_succ i)) hklA.isSome (Nat.le_refl i))
    · obtain ⟨rfl, h1'⟩ := hr
      exact csim_err h1'

theorem stmtC_succ {k : Nat} (hC : CallC cfg scfg k) (hB : BlockC cfg scfg base k) (hE : ElseC cfg scfg base k)
    (hW : WhileC cfg scfg base k) (hF : ForC cfg scfg base k) : StmtC cfg scfg base (k+1) := by
  intro lk s i hok l st l' st' hl hs
  cases s with
  | expr n e =>
    simp only [okS, Bool.and_eq_true] at hok
    rw [execSS_expr ag]
    refine (csim_stmtExpr cfg hmax (callValue₀ cfg) (n := n) (g := fun l s f => .norm l s f) (Φ := exprK n l')
      (user_exprC ag hC hl e hok.2 (tk_rel hs)) (fun m v s2 h => keepE ag htb hhost htab m l e hok.2 (tk st) v s2 h)
      (fun _ _ => rfl) rfl ?_).congr (fun f => by rw [execTS, andThen_id])
    intro v s2 s2' hs2 hk
    cases n with
    | none => exact csim_norm ⟨hl, hs2, KeepL.refl i l, GKeep.of_all l i hk⟩
    | some x =>
      simp only [ngO, Bool.not_eq_true'] at hok
      exact csim_norm ((assign_user hl hs2 x v hok.1 i).weaken (KeepL.refl i l) (GKeep.of_all l i hk) (Nat.le_refl i))
  | ret e =>
    cases e with
    | none =>
      rw [execSS]
      exact (csim_tick cfg hmax (K := fun _ st1 => .ret .null st1)
        (csim_ret (tk_rel hs) (GKeep.refl l i _))).congr (fun f => by rw [execTS])
    | some e =>
      simp only [okS, nrEO] at hok
      rw [execSS_ret ag]
      have hX := user_exprC ag hC hl e hok (tk_rel hs)
      have hT : ∀ f, execTS cfg (callValue₀ cfg) (execIncludes₀ cfg) lk.inLoop (.ret (some e)) i (f+1) l base st =
          match evalExpr cfg (callValue₀ cfg f) l e (tk st) with
          | .ok v s2 => .ret v s2
          | .err er s => .err er s
          | .oof => .oof := by
        intro f; rw [execTS, tick_unlimited cfg hmax]
        cases evalExpr cfg (callValue₀ cfg f) l e (tk st) <;> rfl
      cases hS : evalExpr cfg (callS scfg k) l' e st' with
      | oof => exact Or.inl rfl
      | err er sS =>
        rw [hS] at hX
        rcases hX with ⟨m, _, h0⟩ | ⟨sT, hs1, N, hN⟩
        · omega
        · refine Or.inr ⟨.err er sT, 0, ⟨rfl, hs1.symm⟩, N+1, by omega, fun f hf => ?_⟩
          obtain ⟨f', rfl⟩ : ∃ f', f = f'+1 := ⟨f-1, by omega⟩
          have := hN f' (by omega)
          simp only at this
          simp only [hT, this]; rfl
      | ok v sS =>
        rw [hS] at hX
        obtain ⟨sT, hs1, _, N, hN⟩ := hX
        have hk := keepE ag htb hhost htab N l e hok (tk st) v sT (hN N (Nat.le_refl N))
        refine Or.inr ⟨.ret v sT, 0, ⟨rfl, hs1.symm, GKeep.of_all l i hk⟩, N+1, by omega, fun f hf => ?_⟩
        obtain ⟨f', rfl⟩ : ∃ f', f = f'+1 := ⟨f-1, by omega⟩
        have := hN f' (by omega)
        simp only at this
        simp only [hT, this]; rfl
  | label _ => simp [okS] at hok
  | jump _ _ => simp [okS] at hok
  | «include» _ => simp [okS] at hok
  | brk =>
    simp only [okS] at hok
    rw [execSS]
    have hne : lk ≠ .none := by intro h; subst h; simp [LK.inLoop] at hok
    have hT : ∀ f, execTS cfg (callValue₀ cfg) (execIncludes₀ cfg) lk.inLoop .brk i f l base st =
        tick cfg f st (fun f st1 => .brk l st1 f) := fun f => by rw [execTS]; simp only [hok, if_true]
    have h0 : CSim lk i l st.globals (fun f => (fun f st1 => TOut.brk l st1 f) f (tk st)) (.brk l' st') :=
      Or.inr ⟨.brk l (tk st), 0, ⟨hne, hl, tk_rel hs, KeepL.refl i l, GKeep.refl l i _⟩, 0, Nat.le_refl 0, fun _ _ => rfl⟩
    exact (csim_tick cfg hmax h0).congr hT
  | cont =>
    simp only [okS, decide_eq_true_eq] at hok
    subst hok
    rw [execSS]
    have hT : ∀ f, execTS cfg (callValue₀ cfg) (execIncludes₀ cfg) LK.forL.inLoop .cont i f l base st =
        tick cfg f st (fun f st1 => .cont l st1 f) := fun f => by rw [execTS]; simp only [LK.inLoop, if_true]
    have h0 : CSim .forL i l st.globals (fun f => (fun f st1 => TOut.cont l st1 f) f (tk st)) (.cont l' st') :=
      Or.inr ⟨.cont l (tk st), 0, ⟨rfl, hl, tk_rel hs, KeepL.refl i l, GKeep.refl l i _⟩, 0, Nat.le_refl 0, fun _ _ => rfl⟩
    exact (csim_tick cfg hmax h0).congr hT
  | func fid n args laa isAsync b =>
    simp only [okS, Bool.not_eq_true'] at hok
    rw [execSS]
    have hT : ∀ f, execTS cfg (callValue₀ cfg) (execIncludes₀ cfg) lk.inLoop (.func fid n args laa isAsync b) i f l base st =
        tick cfg f st (fun f st1 => .norm l { st1 with globals := st1.globals.set n (.fn (.script fid)) } f) :=
      fun f => by rw [execTS]
    have h0 : CSim lk i l st.globals
        (fun f => (fun f st1 => TOut.norm l { st1 with globals := st1.globals.set n (.fn (.script fid)) } f) f (tk st))
        (.norm l' { st' with globals := st'.globals.set n (.fn (.script fid)) }) :=
      csim_norm ⟨hl, ⟨hs.1, vis_set_congr hs.2 n _ hok⟩, KeepL.refl i l, GKeep.of_all l i (keepAll_set_user _ n _ hok)⟩
    exact (csim_tick cfg hmax h0).congr hT
  | ite c t e =>
    simp only [okS, Bool.and_eq_true] at hok
    rw [execSS_ite ag]
    exact (chainC ag htb hhost htab hmax base hC hB hE lk c t e i hok.1.1 hok.1.2 hok.2 hl hs).congr fun f => execTS_ite ..
  | «while» c b =>
    simp only [okS, Bool.and_eq_true] at hok
    rw [execSS_while ag]
    have hT : ∀ f, execTS cfg (callValue₀ cfg) (execIncludes₀ cfg) lk.inLoop (.while c b) i f l base st =
        stmtCond cfg (callValue₀ cfg) c f l st fun b' f st1 =>
          if !b' then .norm l st1 f
          else andThen (stmtSkip cfg f l st1) fun l2 st2 f2 =>
            loopW1 cfg (callValue₀ cfg) c (fun f l s => execTB cfg (callValue₀ cfg) (execIncludes₀ cfg) true b (i+1) f l base s)
              f2 l2 st2 := by
      intro f; rw [execTS_while, stmtCond_notE cfg htb]; rfl
    refine (csim_stmtCond cfg hmax (callValue₀ cfg)
      (Φ := condK cfg.host (fun s => loopK (fun l2 s2 => execSS scfg k (.while c b) l2 s2) (execSB scfg k b l' s))
        (fun s => .norm l' s))
      (user_exprC ag hC hl c hok.1 (tk_rel hs)) (fun m v s2 h => keepE ag htb hhost htab m l c hok.1 (tk st) v s2 h)
      (fun _ _ => rfl) rfl ?_).congr hT
    intro v s2 s2' hs2 hk
    simp only [condK, ← hs2.1]
    cases cfg.host.truthy v s2.world with
    | false =>
      simp only [Bool.not_false, if_true, Bool.false_eq_true, if_false]
      exact csim_norm ⟨hl, hs2, KeepL.refl i l, GKeep.of_all l i hk⟩
    | true =>
      simp only [Bool.not_true, Bool.false_eq_true, if_false, if_true]
      refine csim_skip cfg hmax ?_
      exact CSim.weaken (KeepL.refl i l) (GKeep.of_all l i hk) (Nat.le_refl i)
        (loopW1C ag htb hhost htab hmax base hB hW lk c b i hok.1 hok.2 hl (tk_rel hs2))
  | «for» v ix vals b =>
    simp only [okS, Bool.and_eq_true, Bool.not_eq_true'] at hok
    obtain ⟨⟨⟨hv, hix⟩, hvals⟩, hokb⟩ := hok
    rw [execSS_for ag]
    refine (csim_stmtExpr cfg hmax (callValue₀ cfg) (n := some (vValues i)) (Φ := forValsK cfg scfg k v ix b l')
      (user_exprC ag hC hl vals hvals (tk_rel hs)) (fun m v s2 h => keepE ag htb hhost htab m l vals hvals (tk st) v s2 h)
      (fun _ _ => rfl) rfl ?_).congr (fun f => execTS_for ..)
    intro a s2 s2' hs2 hk
    simp only [assignO, forValsK]
    have hp1 := assign_gen hl hs2 .values i a i (Nat.le_refl i)
    have hself1 := sget_assign_self l s2 (.gen .values i) a
    generalize hA1 : assign l s2 (.gen .values i) a = A1 at hp1 hself1
    obtain ⟨l1, s1⟩ := A1
    simp only [vValues, vLength, vIndex, hA1] at hp1 hself1 ⊢
    have k1g : GKeep l i st.globals s1.globals := (kall (GKeep.refl l i st.globals) hk).trans hp1.2.2.2 rfl (Nat.le_refl i)
    have k1l : KeepL i l l1 := hp1.2.2.1
    have hev : ∀ m, evalExpr cfg (callValue₀ cfg m) l1 (.function fnArrayLength [.variable (.gen .values i)]) (tk s1) =
        callLooked (callValue₀ cfg m) fnArrayLength (lookupFunc cfg l' s2'.globals fnArrayLength) [a] (tk s1) := by
      intro m
      rw [evalExpr_call1 _ _ _ _ _ _ fnArrayLength_ne, tk_globals, lookupFunc_rel cfg hp1.1 hp1.2.1.2 fnArrayLength rfl,
        readVar_of_sget hself1]
    refine csim_stmtExpr cfg hmax (callValue₀ cfg) (n := some (.gen .length i)) (gx := s2'.globals)
      (Φ := forLenK cfg.host scfg k v ix b a l') ?_ ?_ (fun _ _ => rfl) rfl ?_
    · simp only [hev]
      exact callLooked_sim hC fnArrayLength _ _ (tk_rel hp1.2.1).symm
    · intro m x s3 h
      rw [hev] at h
      exact keepCallLooked ag htb hhost htab m _ _ _ (tk s1) x s3 h
    · intro nlen s3 s3' hs3 hk3
      simp only [assignO, forLenK]
      have hval3 : sget l1 s3.globals (.gen .values i) = some a :=
        (sget_keep (KeepL.refl (i+1) l1) (GKeep.of_all l1 (i+1) hk3) .values i (Nat.lt_succ_self i)).trans hself1
      have hp2 := assign_gen hp1.1 hs3 .length i nlen i (Nat.le_refl i)
      have hself2 := sget_assign_self l1 s3 (.gen .length i) nlen
      have hne2 := fun y hy => sget_assign_ne l1 s3 (.gen .length i) y nlen hy
      have hw2 := assign_world l1 s3 (.gen .length i) nlen
      generalize hA2 : assign l1 s3 (.gen .length i) nlen = A2 at hp2 hself2 hne2 hw2
      obtain ⟨l2, s2x⟩ := A2
      simp only [hA2] at hp2 hself2 hne2 hw2 ⊢
      obtain ⟨k2l, k2g⟩ := kstep k1l (kall k1g hk3) hp2.2.2.1 hp2.2.2.2
      have hval2 : sget l2 s2x.globals (.gen .values i) = some a := (hne2 _ (by simp)).trans hval3
      simp only [stmtCond_notE cfg htb]
      refine csim_stmtCond_pure cfg hmax (callValue₀ cfg) nlen ?_ ?_
      · intro m
        rw [evalExpr_variable, tk_globals, readVar_of_sget hself2]
      · have hw : s2x.world = s3'.world := hp2.2.1.1
        simp only [tk_world, hw]
        cases cfg.host.truthy nlen s3'.world with
        | false =>
          simp only [Bool.not_false, if_true, Bool.false_eq_true, if_false]
          exact csim_norm ⟨hp2.1, tk_rel hp2.2.1, k2l, k2g⟩
        | true =>
          simp only [Bool.not_true, Bool.false_eq_true, if_false, if_true]
          refine csim_stmtExpr_pure cfg hmax (callValue₀ cfg) (.num 0) (fun _ => by simp only [evalExpr]) ?_
          simp only [assignO]
          cases ix with
          | none =>
            simp only [Option.getD_none, vIndex]
            have hp4 := assign_gen hp2.1 (tk_rel (tk_rel hp2.2.1)) .index i (.num 0) i (Nat.le_refl i)
            have hself4 := sget_assign_self l2 (tk (tk s2x)) (.gen .index i) (.num 0)
            have hne4 := fun y hy => sget_assign_ne l2 (tk (tk s2x)) (.gen .index i) y (.num 0) hy
            generalize hA4 : assign l2 (tk (tk s2x)) (.gen .index i) (.num 0) = A4 at hp4 hself4 hne4
            obtain ⟨l4, s4⟩ := A4
            simp only [hA4, tk_globals] at hp4 hself4 hne4 ⊢
            obtain ⟨k4l, k4g⟩ := kstep k2l k2g hp4.2.2.1 hp4.2.2.2
            refine csim_skip cfg hmax ?_
            refine hF lk i v none b a nlen (.num 0) hv hix hokb l4 (tk s4) l' s3' l st.globals hp4.1 (tk_rel hp4.2.1) ?_ k4l k4g
            simp only [ForInv, vValues, vLength, vIndex, tk_globals]
            exact ⟨(hne4 _ (by simp)).trans hval2, (hne4 _ (by simp)).trans hself2, fun _ => hself4⟩
          | some xn =>
            simp only [Option.getD_some]
            simp only [ngO, Bool.not_eq_true'] at hix
            have hgen : ∀ K k, Name.gen K k ≠ xn := by intro K k h; subst h; simp [isGen] at hix
            have hp4 := assign_user hp2.1 (tk_rel (tk_rel hp2.2.1)) xn (.num 0) hix i
            have hne4 := fun y hy => sget_assign_ne l2 (tk (tk s2x)) xn y (.num 0) hy
            generalize hA4 : assign l2 (tk (tk s2x)) xn (.num 0) = A4 at hp4 hne4
            obtain ⟨l4, s4⟩ := A4
            generalize hA4' : assign l' s3' xn (.num 0) = A4' at hp4
            obtain ⟨l4', s4'⟩ := A4'
            simp only [hA4, tk_globals] at hp4 hne4 ⊢
            obtain ⟨k4l, k4g⟩ := kstep k2l k2g hp4.2.2.1 hp4.2.2.2
            refine csim_skip cfg hmax ?_
            refine hF lk i v (some xn) b a nlen (.num 0) hv (by simp [ngO, hix]) hokb l4 (tk s4) l4' s4' l st.globals hp4.1
              (tk_rel hp4.2.1) ?_ k4l k4g
            simp only [ForInv, vValues, vLength, vIndex, tk_globals]
            exact ⟨(hne4 _ (hgen _ _)).trans hval2, (hne4 _ (hgen _ _)).trans hself2, fun h => by cases h⟩

omit htb hhost hmax in
theorem callC_succ {k : Nat} (hhost' : HostNoReserved cfg.host) (hC : CallC cfg scfg k) (hB : BlockC cfg scfg none k) :
    CallC cfg scfg (k+1) := by
  intro fv args st' st hs
  have notFn : ∀ v : Value,
      (callS scfg (k+1) v args st' = .ok .null { st' with world := cfg.host.notCallable v st'.world }) →
      (∀ m, callValue₀ cfg (m+1) v args st = .ok .null { st with world := cfg.host.notCallable v st.world }) →
      OSimG false 0 st'.globals (callS scfg (k+1) v args st') (fun m => callValue₀ cfg m v args st) := by
    intro v h1 h2
    rw [h1]
    exact ⟨{ st with world := cfg.host.notCallable v st.world }, ⟨by simp only [hs.1], hs.2⟩, (fun h => absurd h (by decide)),
      ev_succ h2⟩
  cases fv with
  | fn fn =>
    cases fn with
    | script id =>
      cases hd : scfg.sfuns id with
      | none =>
        have hf : cfg.funs id = none := by rw [ag.funs, hd]; rfl
        exact notFn _ (by rw [callS]; simp only [hd, ag.host]) (fun m => by rw [callValue₀]; simp only [hf])
      | some d =>
        have hf : cfg.funs id = some (lowerDef (start id) d) := by rw [ag.funs, hd]; rfl
        obtain ⟨hraw, hok⟩ := htab id d hd
        rw [callS_script ag k id args st' d hd]
        have hT : ∀ m, callValue₀ cfg (m+1) (.fn (.script id)) args st =
            resK (toRes (execTB cfg (callValue₀ cfg) (execIncludes₀ cfg) false d.body (start id) m
              (some (bindArgs cfg.host d.lastArgArray d.args args [] st.world).1) none
              { st with world := (bindArgs cfg.host d.lastArgArray d.args args [] st.world).2 })) := by
          intro m
          rw [callValue₀_script cfg m id args st _ hf]
          simp only [lowerDef]
          rw [run_body_eq cfg none d.body (start id) hraw]
        rw [hs.1]
        generalize bindArgs cfg.host d.lastArgArray d.args args [] st.world = bw at hT ⊢
        obtain ⟨loc, w1⟩ := bw
        simp only at hT ⊢
        have hsim := hB .none d.body (start id) hok (some loc) { st with world := w1 } (some loc) { st' with world := w1 }
          (LRel.refl _) ⟨rfl, hs.2.symm⟩
        simp only [LK.inLoop] at hsim
        rcases hsim with h | ⟨o, c, hr, N, hc, hN⟩
        · rw [h]; trivial
        · cases o <;> cases ho : execSB scfg k d.body (some loc) { st' with world := w1 } <;> rw [ho] at hr <;>
            simp only [ORel] at hr
          · rename_i l1 s1 l1' s1'
            refine ⟨s1, hr.2.1.symm, (fun h => absurd h (by decide)), N+1, fun m hm => ?_⟩
            obtain ⟨m', rfl⟩ : ∃ m', m = m'+1 := ⟨m-1, by omega⟩
            have := hN m' (by omega)
            simp only at this
            simp only [hT, this]; rfl
          · exact absurd rfl hr.1
          · exact absurd hr.1 (by decide)
          · rename_i v1 s1 v1' s1'
            obtain ⟨rfl, h1, _⟩ := hr
            refine ⟨s1, h1.symm, (fun h => absurd h (by decide)), N+1, fun m hm => ?_⟩
            obtain ⟨m', rfl⟩ : ∃ m', m = m'+1 := ⟨m-1, by omega⟩
            have := hN m' (by omega)
            simp only at this
            simp only [hT, this]; rfl
          · rename_i e1 s1 e1' s1'
            obtain ⟨rfl, h1⟩ := hr
            refine Or.inr ⟨s1, h1.symm, N+1, fun m hm => ?_⟩
            obtain ⟨m', rfl⟩ : ∃ m', m = m'+1 := ⟨m-1, by omega⟩
            have := hN m' (by omega)
            simp only at this
            simp only [hT, this]; rfl
    | lib name =>
      have h := runTree_sim cfg hC (hhost'.1 name args st'.world) st' st hs
      rw [callS, runTreeS_eq ag, ag.host]
      refine OSimG.step h fun m => ?_
      rw [callValue₀, hs.1]
    | other j =>
      have h := runTree_sim cfg hC (hhost'.2 j args st'.world) st' st hs
      rw [callS, runTreeS_eq ag, ag.host]
      refine OSimG.step h fun m => ?_
      rw [callValue₀, hs.1]
  | null => exact notFn _ (by rw [callS, ag.host] <;> (intro _ h; cases h)) (fun m => by rw [callValue₀] <;> (intro _ h; cases h))
  | bool b => exact notFn _ (by rw [callS, ag.host] <;> (intro _ h; cases h)) (fun m => by rw [callValue₀] <;> (intro _ h; cases h))
  | num q => exact notFn _ (by rw [callS, ag.host] <;> (intro _ h; cases h)) (fun m => by rw [callValue₀] <;> (intro _ h; cases h))
  | str q => exact notFn _ (by rw [callS, ag.host] <;> (intro _ h; cases h)) (fun m => by rw [callValue₀] <;> (intro _ h; cases h))
  | dt q => exact notFn _ (by rw [callS, ag.host] <;> (intro _ h; cases h)) (fun m => by rw [callValue₀] <;> (intro _ h; cases h))
  | arr q => exact notFn _ (by rw [callS, ag.host] <;> (intro _ h; cases h)) (fun m => by rw [callValue₀] <;> (intro _ h; cases h))
  | obj q => exact notFn _ (by rw [callS, ag.host] <;> (intro _ h; cases h)) (fun m => by rw [callValue₀] <;> (intro _ h; cases h))
  | regex q => exact notFn _ (by rw [callS, ag.host] <;> (intro _ h; cases h)) (fun m => by rw [callValue₀] <;> (intro _ h; cases h))

omit base in
/-- everything the converse needs at pure fuel `k`, proved together by induction on `k` -/
theorem allC : ∀ k, CallC cfg scfg k ∧ ∀ base, StmtC cfg scfg base k ∧ BlockC cfg scfg base k ∧ ElseC cfg scfg base k ∧
    WhileC cfg scfg base k ∧ ForC cfg scfg base k := by
  intro k
  induction k with
  | zero =>
    refine ⟨?_, fun base => ⟨?_, ?_, ?_, ?_, ?_⟩⟩
    · intro fv args st' st hs; rw [callS]; trivial
    · intro lk s i _ l st l' st' _ _; exact Or.inl (by rw [execSS])
    · intro lk B i _ l st l' st' _ _; exact Or.inl (by rw [execSB])
    · intro lk e i _ l st l' st' _ _; exact Or.inl (by rw [execSE])
    · intro lk c b i _ _ l st l' st' _ _; exact Or.inl (by rw [execSS])
    · intro lk i v ix b a n c _ _ _ l st l' st' l0 g0 _ _ _ _ _; exact Or.inl (by rw [forS])
  | succ k ih =>
    obtain ⟨hC, hrest⟩ := ih
    refine ⟨callC_succ ag htab hhost hC (hrest none).2.1, fun base => ?_⟩
    obtain ⟨hS, hB, hE, hW, hF⟩ := hrest base
    exact ⟨stmtC_succ ag htb hhost htab hmax base hC hB hE hW hF, blockC_succ ag htb hhost htab hmax base hS hB,
      elseC_succ ag htb hhost htab hmax base hC hB hE, whileC_succ ag htb hhost htab hmax base hC hB hW,
      forC_succ ag htb hhost htab hmax base hC hB hF⟩

end Converse

section Converse2
variable {cfg : Config W} {scfg : SConfig W} {start : FnId → Nat} (ag : Agree cfg scfg start)
  (htb : TruthyBool cfg.host) (hhost : HostNoReserved cfg.host) (htab : TablesOK scfg)
include ag htb hhost htab

/-- **T3 (converse), unlimited budget.**  If the pure run terminates (some fuel `k`, result not out-of-fuel), the ticked
run terminates for every sufficiently large fuel, with the same kind of outcome, the same value / error and a related
final state. -/
theorem ticked_erasure_converse (hmax : cfg.maxStatements = 0) (B : List SStmt) (hB : ProgOK B) (k : Nat)
    (base : Option String) (st st' : State W) (hs : StRel st st') (hterm : runS scfg k B st' ≠ .oof) :
    ∃ r, ResRel r (runS scfg k B st') ∧ ∃ N, ∀ f, N ≤ f → runT₀ cfg f B base st = r := by
  have hall := (allC ag htb hhost htab.tableOK hmax k).2 base
  have hsim := hall.2.1 .none B 0 hB.ok none st none st' trivial hs
  simp only [LK.inLoop] at hsim
  rw [runS_eq] at hterm ⊢
  rcases hsim with h | ⟨o, c, hr, N, hc, hN⟩
  · rw [h] at hterm; exact absurd rfl hterm
  · cases o <;> cases ho : execSB scfg k B none st' <;> rw [ho] at hr <;> simp only [ORel] at hr
    · rename_i l1 s1 l1' s1'
      exact ⟨.done s1, hr.2.1, N, fun f hf => by simp only [runT₀, hN f hf]; rfl⟩
    · exact absurd rfl hr.1
    · exact absurd hr.1 (by decide)
    · rename_i v1 s1 v1' s1'
      exact ⟨.ret v1 s1, ⟨hr.1, hr.2.1⟩, N, fun f hf => by simp only [runT₀, hN f hf]; rfl⟩
    · rename_i e1 s1 e1' s1'
      exact ⟨.err e1 s1, ⟨hr.1, hr.2⟩, N, fun f hf => by simp only [runT₀, hN f hf]; rfl⟩

end Converse2

/-! ## T3 and T4, both directions together -/

section Main
variable {cfg : Config W} {scfg : SConfig W} {start : FnId → Nat} (ag : Agree cfg scfg start)
  (htb : TruthyBool cfg.host) (hhost : HostNoReserved cfg.host) (htab : TablesOK scfg)
include ag htb hhost htab

/-- **T3 `ticked_erasure`** (unlimited budget `maxStatements = 0`).  For every structured program `B` (any size, any
nesting) with `ProgOK B`, every table of structured function definitions with `TablesOK`, every host with
`TruthyBool` and `HostNoReserved`, and related start states (`StRel`: same world, same user-visible globals — the hidden
`__bareScript…` entries and the statement counter are ignored):

* whenever the ticked run terminates, the pure run terminates (for every sufficiently large fuel) with the same kind of
  outcome — normal end / `return` of the same value / the same runtime error — and a related final state
  (same world = same log and heap, same user-visible globals);
* conversely, whenever the pure run terminates, the ticked run terminates (for every sufficiently large fuel) with such
  a result. -/
theorem ticked_erasure (hmax : cfg.maxStatements = 0) (B : List SStmt) (hB : ProgOK B) (base : Option String)
    (st st' : State W) (hs : StRel st st') :
    (∀ fuel, runT₀ cfg fuel B base st ≠ .oof →
      ∃ r', ResRel (runT₀ cfg fuel B base st) r' ∧ ∃ N, ∀ k, N ≤ k → runS scfg k B st' = r') ∧
    (∀ k, runS scfg k B st' ≠ .oof →
      ∃ r, ResRel r (runS scfg k B st') ∧ ∃ N, ∀ f, N ≤ f → runT₀ cfg f B base st = r) :=
  ⟨fun fuel h => ticked_erasure_forward ag htb hhost htab hmax B hB fuel base st st' hs h,
   fun k h => ticked_erasure_converse ag htb hhost htab hmax B hB k base st st' hs h⟩

/-- the two readings terminate on the same inputs -/
theorem termination_iff (hmax : cfg.maxStatements = 0) (B : List SStmt) (hB : ProgOK B) (base : Option String)
    (st st' : State W) (hs : StRel st st') :
    (∃ fuel, runT₀ cfg fuel B base st ≠ .oof) ↔ (∃ k, runS scfg k B st' ≠ .oof) := by
  have h := ticked_erasure ag htb hhost htab hmax B hB base st st' hs
  constructor
  · rintro ⟨fuel, hf⟩
    obtain ⟨r', hr, N, hN⟩ := h.1 fuel hf
    refine ⟨N, ?_⟩
    rw [hN N (Nat.le_refl N)]
    intro he; subst he
    cases hT : runT₀ cfg fuel B base st <;> rw [hT] at hr <;> exact hr
  · rintro ⟨k, hk⟩
    obtain ⟨r, hr, N, hN⟩ := h.2 k hk
    refine ⟨N, ?_⟩
    rw [hN N (Nat.le_refl N)]
    intro he; subst he
    exact hr

/-- **T4 `parse_exec_structured`** (unlimited budget).  For every structured program `B` satisfying the hypotheses the
lines a user writes for `B` parse, to a statement list `P` on which `execute_script` (the real machine, with its label
cache) agrees with the pure source-level reading `execS B` in both directions: whenever one of the two terminates, the
other terminates for every sufficiently large fuel with the same kind of outcome, the same returned value / runtime
error, the same world (log, heap, …) and the same user-visible globals.
Composition of T1 (`parseLines_render`), C08 (`cache_transparent`), T2 (`execute₀_lowered`) and T3. -/
theorem parse_exec_structured (hmax : cfg.maxStatements = 0) (B : List SStmt) (hB : ProgOK B) (hfid : FidsInOrder B)
    (base : Option String) (st st' : State W) (hs : StRel st st') :
    ∃ P, parseLines (renderB B) = .ok P ∧
      (∀ fuel, execute cfg fuel P base st ≠ .oof →
        ∃ r', ResRel (execute cfg fuel P base st) r' ∧ ∃ N, ∀ k, N ≤ k → runS scfg k B st' = r') ∧
      (∀ k, runS scfg k B st' ≠ .oof →
        ∃ r, ResRel r (runS scfg k B st') ∧ ∃ N, ∀ f, N ≤ f → execute cfg f P base st = r) := by
  have hP := parseLines_render B hB.wellNested hfid (incB_of_noInclude B hB.noInclude)
  have hE : ∀ fuel, execute cfg fuel (lowerProgram B) base st = runT₀ cfg fuel B base { st with count := 0 } := by
    intro fuel; rw [C08.execute_eq, execute₀_lowered cfg base B hB.noRaw]
  have h := ticked_erasure ag htb hhost htab hmax B hB base { st with count := 0 } st' hs
  refine ⟨lowerProgram B, hP, fun fuel hf => ?_, fun k hk => ?_⟩
  · rw [hE] at hf ⊢; exact h.1 fuel hf
  · obtain ⟨r, hr, N, hN⟩ := h.2 k hk
    exact ⟨r, hr, N, fun f hf => by rw [hE]; exact hN f hf⟩

end Main

/-! ## finding F7 and non-vacuity, on a tiny host the kernel can evaluate -/

namespace Tiny

/-- world = the log -/
abbrev TW := List Value

def truthy : Value → TW → Bool
  | .bool b, _ => b
  | .num q, _ => q != 0
  | .null, _ => false
  | _, _ => true

def binop : BinOp → Value → Value → TW → Value
  | .add, .num x, .num y, _ => .num (x + y)
  | .lt, .num x, .num y, _ => .bool (x < y)
  | .eq, .num x, .num y, _ => .bool (x == y)
  | _, _, _, _ => .null

/-- `log(v…)` appends to the log; an "array" is a number `n` standing for `[0, …, n-1]`:
`arrayLength(n) = n`, `arrayGet(n, i) = i` -/
def lib (name : String) (args : List Value) (w : TW) : LibTree TW :=
  if name = "log" then .ret (.ok .null) (w ++ args)
  else if name = "arrayLength" then .ret (.ok (args.head?.getD .null)) w
  else if name = "arrayGet" then .ret (.ok ((args.tail.head?).getD .null)) w
  else .ret (.fail .null) w

def host : Host TW :=
  { truthy := truthy, binop := binop, neg := id, lib := lib, other := fun _ _ w => .ret (.fail .null) w,
    notCallable := fun _ w => w, logFailure := id, newArray := fun _ w => (.null, w), builtin := fun _ => none }

theorem host_truthyBool : TruthyBool host := fun _ _ => rfl

theorem host_noReserved : HostNoReserved host := by
  refine ⟨fun name args w => ?_, fun k args w => TreeOK.ret _ _⟩
  show TreeOK (lib name args w)
  unfold lib
  split
  · exact TreeOK.ret _ _
  split
  · exact TreeOK.ret _ _
  split <;> exact TreeOK.ret _ _

private def u (s : String) : Name := .user s
private def var (s : String) : Expr := .variable (u s)
private def call (f : String) (args : List Expr) : Expr := .function (u f) args

def st0 : State TW :=
  { globals := [(u "log", .fn (.lib "log")), (u "arrayLength", .fn (.lib "arrayLength")),
                (u "arrayGet", .fn (.lib "arrayGet"))],
    world := [], count := 0 }

def resWorld {W : Type} : Res W → Option W
  | .done s => some s.world
  | .ret _ s => some s.world
  | .err _ s => some s.world
  | .oof => none

/-! ### F7: `continue` in a `while` -/

/-- `i = 0; while i < 1: (i = i + 1; log(i); if i < 3: continue)` -/
def f7Prog : List SStmt := [
  .expr (some (u "i")) (.number 0),
  .while (.binary .lt (var "i") (.number 1)) [
    .expr (some (u "i")) (.binary .add (var "i") (.number 1)),
    .expr none (call "log" [var "i"]),
    .ite (.binary .lt (var "i") (.number 3)) [.cont] .none ] ]

def f7Cfg : Config TW := { host := host, funs := fun _ => none, maxStatements := 0 }
def f7SCfg : SConfig TW := { host := host, sfuns := fun _ => none }

/-- **finding F7 `while_continue_counterexample`**: on a program with a `continue` whose innermost loop is a `while`
(the only hypothesis of `ProgOK` it violates) the two semantics genuinely differ: the pure reading re-tests the condition
after `continue` and logs `1`; the ticked semantics — hence, by T2, the jump machine on the lowered code — restarts the
body without the test and logs `1 2 3`. -/
theorem while_continue_counterexample :
    NoWhileContinueB false f7Prog = false ∧
    resWorld (runS f7SCfg 100 f7Prog st0) = some [.num 1] ∧
    resWorld (runT₀ f7Cfg 100 f7Prog none st0) = some [.num 1, .num 2, .num 3] ∧
    resWorld (execute₀ f7Cfg 100 (lowerProgram f7Prog) none st0) = some [.num 1, .num 2, .num 3] := by
  refine ⟨by decide, by decide +kernel, by decide +kernel, ?_⟩
  rw [execute₀_lowered f7Cfg none f7Prog (by simp [f7Prog, NoRawB, NoRawS, NoRawE])]
  decide +kernel

/-! ### non-vacuity: `if / elif / else` in a `while`, and a `for` with `continue`, in a function -/

/-- `function f(n): k = 0; acc = 0; while k < n: (if k == 0: acc = acc + 1 elif k == 1: acc = acc + 10 else: acc = acc + 100;
k = k + 1); for x in 3: (if x == 1: continue; log(x)); return acc` -/
def fBody : List SStmt := [
  .expr (some (u "k")) (.number 0),
  .expr (some (u "acc")) (.number 0),
  .while (.binary .lt (var "k") (var "n")) [
    .ite (.binary .eq (var "k") (.number 0)) [.expr (some (u "acc")) (.binary .add (var "acc") (.number 1))]
      (.elif (.binary .eq (var "k") (.number 1)) [.expr (some (u "acc")) (.binary .add (var "acc") (.number 10))]
        (.els [.expr (some (u "acc")) (.binary .add (var "acc") (.number 100))])),
    .expr (some (u "k")) (.binary .add (var "k") (.number 1)) ],
  .for (u "x") none (.number 3) [
    .ite (.binary .eq (var "x") (.number 1)) [.cont] .none,
    .expr none (call "log" [var "x"]) ],
  .ret (some (var "acc")) ]

def fDef : SFuncDef := { name := u "f", args := [u "n"], lastArgArray := false, body := fBody }

/-- `function f … ; r = f(3); log(r)` -/
def nvProg : List SStmt := [
  .func 0 (u "f") [u "n"] false false fBody,
  .expr (some (u "r")) (call "f" [.number 3]),
  .expr none (call "log" [var "r"]) ]

def nvSCfg : SConfig TW := { host := host, sfuns := fun id => if id = 0 then some fDef else none }
def nvStart : FnId → Nat := fun _ => 0
def nvCfg : Config TW :=
  { host := host, funs := fun id => (nvSCfg.sfuns id).map (lowerDef (nvStart id)), maxStatements := 0 }

theorem nv_agree : Agree nvCfg nvSCfg nvStart := ⟨rfl, rfl, rfl, fun _ => rfl⟩

theorem nv_progOK : ProgOK nvProg :=
  ⟨by simp [nvProg, fBody, NoRawB, NoRawS, NoRawE], by decide, by decide, by decide, by decide⟩

theorem nv_tablesOK : TablesOK nvSCfg := by
  intro id d hd
  simp only [nvSCfg] at hd
  split at hd
  · cases hd
    exact ⟨by simp [fDef, fBody, NoRawB, NoRawS, NoRawE], by decide, by decide, by decide, by decide, by decide⟩
  · cases hd

/-- the hypotheses of T3 / T4 are inhabited by a non-trivial instance -/
example (base : Option String) (st' : State TW) (hs : StRel st0 st') :=
  ticked_erasure nv_agree host_truthyBool host_noReserved nv_tablesOK rfl nvProg nv_progOK base st0 st' hs
example (base : Option String) (st' : State TW) (hs : StRel st0 st') :=
  parse_exec_structured nv_agree host_truthyBool host_noReserved nv_tablesOK rfl nvProg nv_progOK (by decide) base st0 st' hs

/-- the same with a statement budget -/
def nvCfgB (max : Nat) : Config TW :=
  { host := host, funs := fun id => (nvSCfg.sfuns id).map (lowerDef (nvStart id)), maxStatements := max }

theorem nv_agreeB (max : Nat) : Agree (nvCfgB max) nvSCfg nvStart := ⟨rfl, rfl, rfl, fun _ => rfl⟩

example (max fuel : Nat) (base : Option String) (st' : State TW) (hs : StRel st0 st') :=
  ticked_erasure_budget (nv_agreeB max) host_truthyBool host_noReserved nv_tablesOK nvProg nv_progOK fuel base st0 st' hs
example (max fuel : Nat) (base : Option String) (st' : State TW) (hs : StRel st0 st') :=
  parse_exec_structured_budget (nv_agreeB max) host_truthyBool host_noReserved nv_tablesOK nvProg nv_progOK (by decide) fuel base
    st0 st' hs

private def isExceeded {W : Type} : Res W → Bool
  | .err (.exceeded _) _ => true
  | _ => false

/-- why the budgeted corollary excludes `exceeded`: with `maxStatements = 20` the ticked run is stopped by the budget
(the pure run has none and finishes, see above); with 200 it finishes with the same log -/
example : isExceeded (runT₀ (nvCfgB 20) 1000 nvProg none st0) = true ∧
    resWorld (runT₀ (nvCfgB 200) 1000 nvProg none st0) = some [.num 0, .num 2, .num 111] := by
  constructor <;> decide +kernel

/-- the pure reading: `f(3)` logs `0`, `2` (the `for` skips `1`), returns 111, which the script logs -/
example : resWorld (runS nvSCfg 100 nvProg st0) = some [.num 0, .num 2, .num 111] := by decide +kernel

/-- … and so does the label-caching jump machine on the parsed text: by the theorem, not by running it -/
example : ∃ P, parseLines (renderB nvProg) = .ok P ∧
    ∃ N, ∀ f, N ≤ f → resWorld (execute nvCfg f P none st0) = some [.num 0, .num 2, .num 111] := by
  obtain ⟨P, hP, _, hconv⟩ := parse_exec_structured nv_agree host_truthyBool host_noReserved nv_tablesOK rfl nvProg
    nv_progOK (by decide) none st0 st0 (StRel.refl st0)
  have hS : resWorld (runS nvSCfg 100 nvProg st0) = some [.num 0, .num 2, .num 111] := by decide +kernel
  have hne : runS nvSCfg 100 nvProg st0 ≠ .oof := by intro h; rw [h] at hS; cases hS
  obtain ⟨r, hr, N, hN⟩ := hconv 100 hne
  refine ⟨P, hP, N, fun f hf => ?_⟩
  rw [hN f hf]
  cases r <;> cases hR : runS nvSCfg 100 nvProg st0 <;> rw [hR] at hr hS <;> simp only [ResRel] at hr
  · simp only [resWorld] at hS ⊢; rw [hr.1]; exact hS
  · simp only [resWorld] at hS ⊢; rw [hr.2.1]; exact hS
  · simp only [resWorld] at hS ⊢; rw [hr.2.1]; exact hS

end Tiny

end C01
