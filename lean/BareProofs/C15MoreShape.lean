import BareModel.LibMore
import BareProofs.C15Lemmas

/-!
# C15More — the shape of a validated argument list

`validate h ms args = some va` gives, for the documented signatures, a list `va` of exactly the shape the bodies match on
(`[.one (.arr r), .one (.num q)]`, …): the fall-through branches `| _, _ => .unmodelled` of the bodies are unreachable.
Generic statement `validate_pats` (any list of *regular* argument models), then `docSigAll_regular` (all documented signatures
are regular, by evaluation).
-/

namespace C15More
open Lib LibMore

/-- what a validated argument looks like -/
inductive Pat where
  | A   -- `.one (.arr _)`
  | O   -- `.one (.obj _)`
  | S   -- `.one (.str _)`
  | N   -- `.one (.num _)`
  | V   -- `.one _`
  | M   -- `.many _`
  | NN  -- `.one .null` or `.one (.num _)`
  | FN  -- `.one .null` or `.one (.fn _)`
deriving DecidableEq, Repr

def Pat.ok : Pat → VArg → Bool
  | .A, .one (.arr _) => true
  | .O, .one (.obj _) => true
  | .S, .one (.str _) => true
  | .N, .one (.num _) => true
  | .V, .one _ => true
  | .M, .many _ => true
  | .NN, .one .null => true
  | .NN, .one (.num _) => true
  | .FN, .one .null => true
  | .FN, .one (.fn _) => true
  | _, _ => false

def patsOK : List Pat → List VArg → Bool
  | [], [] => true
  | p :: ps, x :: xs => p.ok x && patsOK ps xs
  | _, _ => false

/-- the pattern an argument model guarantees -/
def patOf (m : Gen.ArgModel) : Pat :=
  if m.lastArgArray then .M
  else match m.type with
    | none => .V
    | some t =>
      if t == "array" then .A else if t == "object" then .O else if t == "string" then .S
      else if t == "number" then (if m.nullable then .NN else .N)
      else if t == "function" then .FN
      else .V

/-- the argument models for which `patOf` is guaranteed: containers and strings are required (no default, not nullable), a number's
default is a number, a function has no default -/
def Regular (m : Gen.ArgModel) : Bool :=
  m.lastArgArray ||
  match m.type with
  | none => true
  | some t =>
    if t == "array" || t == "object" || t == "string" then m.default.isNone && !m.nullable
    else if t == "number" then
      (match m.default.bind parseDefault with
      | none => true
      | some d => isNum d)
    else if t == "function" then m.default.isNone && m.nullable
    else t != "boolean"

/-! ## inversion -/

theorem inv_cons {p ps va} (h : patsOK (p :: ps) va = true) :
    ∃ x xs, va = x :: xs ∧ p.ok x = true ∧ patsOK ps xs = true := by
  cases va with
  | nil => simp [patsOK] at h
  | cons x xs => simp only [patsOK, Bool.and_eq_true] at h; exact ⟨x, xs, rfl, h.1, h.2⟩

theorem inv_nil {va} (h : patsOK [] va = true) : va = [] := by
  cases va with
  | nil => rfl
  | cons x xs => simp [patsOK] at h

theorem inv_A {x} (h : Pat.ok .A x = true) : ∃ r, x = .one (.arr r) := by
  cases x with
  | one v => cases v <;> simp [Pat.ok] at h ⊢
  | many vs => simp [Pat.ok] at h

theorem inv_O {x} (h : Pat.ok .O x = true) : ∃ r, x = .one (.obj r) := by
  cases x with
  | one v => cases v <;> simp [Pat.ok] at h ⊢
  | many vs => simp [Pat.ok] at h

theorem inv_S {x} (h : Pat.ok .S x = true) : ∃ s, x = .one (.str s) := by
  cases x with
  | one v => cases v <;> simp [Pat.ok] at h ⊢
  | many vs => simp [Pat.ok] at h

theorem inv_N {x} (h : Pat.ok .N x = true) : ∃ q, x = .one (.num q) := by
  cases x with
  | one v => cases v <;> simp [Pat.ok] at h ⊢
  | many vs => simp [Pat.ok] at h

theorem inv_V {x} (h : Pat.ok .V x = true) : ∃ v, x = .one v := by
  cases x with
  | one v => exact ⟨v, rfl⟩
  | many vs => simp [Pat.ok] at h

theorem inv_M {x} (h : Pat.ok .M x = true) : ∃ vs, x = .many vs := by
  cases x with
  | one v => simp [Pat.ok] at h
  | many vs => exact ⟨vs, rfl⟩

theorem inv_NN {x} (h : Pat.ok .NN x = true) : x = .one .null ∨ ∃ q, x = .one (.num q) := by
  cases x with
  | one v => cases v <;> simp [Pat.ok] at h ⊢
  | many vs => simp [Pat.ok] at h

theorem inv_FN {x} (h : Pat.ok .FN x = true) : x = .one .null ∨ ∃ i, x = .one (.fn i) := by
  cases x with
  | one v => cases v <;> simp [Pat.ok] at h ⊢
  | many vs => simp [Pat.ok] at h

/-! ## validation guarantees the pattern -/

theorem ok_V_one (v : Value) : Pat.ok .V (.one v) = true := by cases v <;> rfl

theorem missingArg_pat {m : Gen.ArgModel} (hr : Regular m = true) {x : VArg} (hm : missingArg m = some x) :
    (patOf m).ok x = true := by
  unfold missingArg at hm
  unfold patOf
  by_cases hl : m.lastArgArray = true
  · simp only [hl, if_true, Option.some.injEq] at hm ⊢
    subst hm; rfl
  · simp only [hl, Bool.false_eq_true, if_false] at hm ⊢
    unfold Regular at hr
    simp only [hl, Bool.false_or] at hr
    cases ht : m.type with
    | none =>
      simp only
      split at hm
      · simp only [Option.some.injEq] at hm; subst hm; exact ok_V_one _
      · split at hm
        · simp only [Option.some.injEq] at hm; subst hm; rfl
        · split at hm
          · simp only [Option.some.injEq] at hm; subst hm; rfl
          · cases hm
    | some t =>
      rw [ht] at hr hm
      simp only at hr ⊢
      by_cases h1 : (t == "array" || t == "object" || t == "string") = true
      · simp only [h1, if_true, Bool.and_eq_true, Option.isNone_iff_eq_none, Bool.not_eq_true'] at hr
        obtain ⟨hd, hn⟩ := hr
        simp only [hd, Option.bind_none, hn] at hm
        have hb : (some t == some "boolean") = false := by
          rcases (by simpa using h1 : (t = "array" ∨ t = "object") ∨ t = "string") with (rfl | rfl) | rfl <;> decide
        simp [hb] at hm
      · simp only [h1, Bool.false_eq_true, if_false] at hr
        have h1' : (t == "array") = false ∧ (t == "object") = false ∧ (t == "string") = false := by
          simp only [Bool.or_eq_true, not_or, Bool.not_eq_true] at h1
          exact ⟨h1.1.1, h1.1.2, h1.2⟩
        simp only [h1'.1, h1'.2.1, h1'.2.2, Bool.false_eq_true, if_false]
        by_cases h2 : (t == "number") = true
        · simp only [h2, if_true] at hr ⊢
          have htn : t = "number" := by simpa using h2
          subst htn
          split at hm
          · rename_i d hd
            simp only [Option.some.injEq] at hm; subst hm
            rw [hd] at hr
            simp only at hr
            cases d <;> simp [isNum] at hr
            split <;> rfl
          · have hb : (some "number" == some "boolean") = false := by decide
            simp only [hb, Bool.false_eq_true, if_false] at hm
            split at hm
            · rename_i hnn
              simp only [Option.some.injEq] at hm; subst hm
              have : m.nullable = true := by simpa using hnn
              simp [this, Pat.ok]
            · cases hm
        · simp only [h2, Bool.false_eq_true, if_false] at hr ⊢
          by_cases h3 : (t == "function") = true
          · simp only [h3, if_true, Bool.and_eq_true, Option.isNone_iff_eq_none] at hr ⊢
            have htn : t = "function" := by simpa using h3
            subst htn
            simp only [hr.1, Option.bind_none] at hm
            have hb : (some "function" == some "boolean") = false := by decide
            simp only [hb, Bool.false_eq_true, if_false, hr.2] at hm
            simp at hm
            subst hm; rfl
          · simp only [h3, Bool.false_eq_true, if_false]
            split at hm
            · simp only [Option.some.injEq] at hm; subst hm; exact ok_V_one _
            · split at hm
              · simp only [Option.some.injEq] at hm; subst hm; rfl
              · split at hm
                · simp only [Option.some.injEq] at hm; subst hm; rfl
                · cases hm

theorem checkArg_pat {h : Heap} {m : Gen.ArgModel} (hr : Regular m = true) (hl : m.lastArgArray = false) {a v : Value}
    (hc : checkArg h m a = some v) : (patOf m).ok (.one v) = true := by
  unfold patOf
  simp only [hl, Bool.false_eq_true, if_false]
  unfold Regular at hr
  simp only [hl, Bool.false_or] at hr
  unfold checkArg at hc
  cases ht : m.type with
  | none => exact ok_V_one _
  | some t =>
    rw [ht] at hr hc
    simp only at hr hc ⊢
    by_cases hbool : (t == "boolean") = true
    · -- a boolean-typed argument: not in any of the A/O/S/N/FN branches
      have htb : t = "boolean" := by simpa using hbool
      subst htb
      simp at hr
    · simp only [hbool, Bool.false_eq_true, if_false] at hc
      by_cases h1 : (t == "array") = true
      · have : t = "array" := by simpa using h1
        subst this
        simp only [show (("array" : String) == "array") = true by decide, if_true]
        simp only [show ((("array" : String) == "array" || ("array" : String) == "object" || ("array" : String) == "string")) = true by decide,
          if_true, Bool.and_eq_true, Bool.not_eq_true'] at hr
        cases a <;> simp [typeBad, isNum, isStr, isArr, isObj, isDt, isRegex, isFn, hr.2] at hc
        subst hc; rfl
      · simp only [h1, Bool.false_eq_true, if_false]
        by_cases h2 : (t == "object") = true
        · have : t = "object" := by simpa using h2
          subst this
          simp only [show (("object" : String) == "object") = true by decide, if_true]
          simp only [show ((("object" : String) == "array" || ("object" : String) == "object" || ("object" : String) == "string")) = true by decide,
            if_true, Bool.and_eq_true, Bool.not_eq_true'] at hr
          cases a <;> simp [typeBad, isNum, isStr, isArr, isObj, isDt, isRegex, isFn, hr.2] at hc
          subst hc; rfl
        · simp only [h2, Bool.false_eq_true, if_false]
          by_cases h3 : (t == "string") = true
          · have : t = "string" := by simpa using h3
            subst this
            simp only [show (("string" : String) == "string") = true by decide, if_true]
            simp only [show ((("string" : String) == "array" || ("string" : String) == "object" || ("string" : String) == "string")) = true by decide,
              if_true, Bool.and_eq_true, Bool.not_eq_true'] at hr
            cases a <;> simp [typeBad, isNum, isStr, isArr, isObj, isDt, isRegex, isFn, hr.2] at hc
            subst hc; rfl
          · simp only [h3, Bool.false_eq_true, if_false]
            by_cases h4 : (t == "number") = true
            · have : t = "number" := by simpa using h4
              subst this
              simp only [show (("number" : String) == "number") = true by decide, if_true]
              cases a with
              | null =>
                simp only at hc
                split at hc
                · rename_i hn
                  simp only [Option.some.injEq] at hc; subst hc
                  simp [hn, Pat.ok]
                · cases hc
              | num q =>
                simp only at hc
                split at hc
                · cases hc
                · split at hc
                  · cases hc
                  · simp only [Option.some.injEq] at hc; subst hc
                    split <;> rfl
              | _ => simp [typeBad, isNum] at hc
            · simp only [h4, Bool.false_eq_true, if_false]
              by_cases h5 : (t == "function") = true
              · have : t = "function" := by simpa using h5
                subst this
                simp only [show (("function" : String) == "function") = true by decide, if_true]
                cases a with
                | null =>
                  simp only at hc
                  split at hc
                  · simp only [Option.some.injEq] at hc; subst hc; rfl
                  · cases hc
                | fn i =>
                  simp [typeBad, isNum, isStr, isArr, isObj, isDt, isRegex, isFn] at hc
                  subst hc; rfl
                | num q => simp [typeBad, isNum, isStr, isArr, isObj, isDt, isRegex, isFn] at hc
                | _ => simp [typeBad, isNum, isStr, isArr, isObj, isDt, isRegex, isFn] at hc
              · simp only [h5, Bool.false_eq_true, if_false]
                exact ok_V_one _

/-- **validated shape.** A validated argument list has one entry per argument model, of the pattern the model guarantees. -/
theorem validate_pats (h : Heap) : ∀ (ms : List Gen.ArgModel) (args : List Value) (va : List VArg),
    ms.all Regular = true → validate h ms args = some va → patsOK (ms.map patOf) va = true
  | [], [], va, _, hv => by simp only [validate, Option.some.injEq] at hv; subst hv; rfl
  | [], _ :: _, va, _, hv => by simp [validate] at hv
  | m :: ms, [], va, hr, hv => by
    simp only [List.all_cons, Bool.and_eq_true] at hr
    simp only [validate] at hv
    split at hv
    · cases hv
    · rename_i x hx
      cases hrest : validate h ms [] with
      | none => simp [hrest] at hv
      | some rest =>
        simp only [hrest, Option.map_some, Option.some.injEq] at hv
        subst hv
        simp only [List.map_cons, patsOK, Bool.and_eq_true]
        exact ⟨missingArg_pat hr.1 hx, validate_pats h ms [] rest hr.2 hrest⟩
  | m :: ms, a :: as, va, hr, hv => by
    simp only [List.all_cons, Bool.and_eq_true] at hr
    simp only [validate] at hv
    split at hv
    · rename_i hl
      cases hrest : validate h ms [] with
      | none => simp [hrest] at hv
      | some rest =>
        simp only [hrest, Option.map_some, Option.some.injEq] at hv
        subst hv
        simp only [List.map_cons, patsOK, Bool.and_eq_true]
        refine ⟨?_, validate_pats h ms [] rest hr.2 hrest⟩
        simp [patOf, hl, Pat.ok]
    · rename_i hl
      split at hv
      · cases hv
      · rename_i v hc
        cases hrest : validate h ms as with
        | none => simp [hrest] at hv
        | some rest =>
          simp only [hrest, Option.map_some, Option.some.injEq] at hv
          subst hv
          simp only [List.map_cons, patsOK, Bool.and_eq_true]
          exact ⟨checkArg_pat hr.1 (by simpa using hl) hc, validate_pats h ms as rest hr.2 hrest⟩

/-- every documented signature consists of regular argument models -/
theorem docSigAll_regular : ∀ p ∈ docSigAll, p.2.all Regular = true := by decide

end C15More
