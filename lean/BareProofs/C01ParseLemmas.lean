import BareModel.Lower

/-!
# Helper definitions and lemmas for `C01.parseLines_render` (T1)

* the hypotheses of T1 as decidable recursive predicates: `WellNested`, `FidsInOrder`, `NoAdjacentIncludes`;
* `upd` – a parser state with the current statement list, the `label_defs` stack, the counter and `nextFid` replaced;
* one lemma per `stepLine` branch, phrased with `upd`;
* `markCont` – the effect of a block on the `label_defs` stack (sets `hasContinue` of the innermost loop entry);
* list lemmas (`retarget` on an appended list, `endsInc`).
-/

namespace C01
open Lower

/-! ## hypotheses of the theorem -/

mutual
/-- `inLoop`: inside a `while`/`for` of the same function; `inFunc`: inside a function body -/
def wnS (inLoop inFunc : Bool) : SStmt → Bool
  | .brk => inLoop
  | .cont => inLoop
  | .ite _ t e => wnB inLoop inFunc t && wnE inLoop inFunc e
  | .while _ b => wnB true inFunc b
  | .for _ _ _ b => wnB true inFunc b
  | .func _ _ _ _ _ b => !inFunc && wnB false true b
  | _ => true
def wnB (inLoop inFunc : Bool) : List SStmt → Bool
  | [] => true
  | s :: ss => wnS inLoop inFunc s && wnB inLoop inFunc ss
def wnE (inLoop inFunc : Bool) : SElse → Bool
  | .none => true
  | .els b => wnB inLoop inFunc b
  | .elif _ t e => wnB inLoop inFunc t && wnE inLoop inFunc e
end

/-- every `break`/`continue` lies inside a loop of the same function; no function definition inside a function body -/
def WellNested (B : List SStmt) : Prop := wnB false false B = true
instance (B : List SStmt) : Decidable (WellNested B) := by unfold WellNested; exact inferInstance

mutual
/-- number of function definitions -/
def nfS : SStmt → Nat
  | .ite _ t e => nfB t + nfE e
  | .while _ b => nfB b
  | .for _ _ _ b => nfB b
  | .func _ _ _ _ _ b => 1 + nfB b
  | _ => 0
def nfB : List SStmt → Nat
  | [] => 0
  | s :: ss => nfS s + nfB ss
def nfE : SElse → Nat
  | .none => 0
  | .els b => nfB b
  | .elif _ t e => nfB t + nfE e
end

mutual
/-- the `fid` fields are `n, n+1, …` in source (pre-)order -/
def fidsS (n : Nat) : SStmt → Bool
  | .ite _ t e => fidsB n t && fidsE (n + nfB t) e
  | .while _ b => fidsB n b
  | .for _ _ _ b => fidsB n b
  | .func fid _ _ _ _ b => fid == n && fidsB (n+1) b
  | _ => true
def fidsB (n : Nat) : List SStmt → Bool
  | [] => true
  | s :: ss => fidsS n s && fidsB (n + nfS s) ss
def fidsE (n : Nat) : SElse → Bool
  | .none => true
  | .els b => fidsB n b
  | .elif _ t e => fidsB n t && fidsE (n + nfB t) e
end

/-- the function definitions carry the identifiers 0, 1, 2, … in source order -/
def FidsInOrder (B : List SStmt) : Prop := fidsB 0 B = true
instance (B : List SStmt) : Decidable (FidsInOrder B) := by unfold FidsInOrder; exact inferInstance

def isInc : SStmt → Bool
  | .include _ => true
  | _ => false

def startsInc : List SStmt → Bool
  | s :: _ => isInc s
  | [] => false

mutual
/-- include statements are non-empty and no two of them are adjacent in one block -/
def incS : SStmt → Bool
  | .include incs => !incs.isEmpty
  | .ite _ t e => incB t && incE e
  | .while _ b => incB b
  | .for _ _ _ b => incB b
  | .func _ _ _ _ _ b => incB b
  | _ => true
def incB : List SStmt → Bool
  | [] => true
  | s :: ss => incS s && !(isInc s && startsInc ss) && incB ss
def incE : SElse → Bool
  | .none => true
  | .els b => incB b
  | .elif _ t e => incB t && incE e
end

/-- every `include` node has at least one entry and no two `include` nodes are adjacent in a block (the parser merges
consecutive include lines into one statement, so such a program is not in the image of "un-rendering") -/
def NoAdjacentIncludes (B : List SStmt) : Prop := incB B = true
instance (B : List SStmt) : Decidable (NoAdjacentIncludes B) := by unfold NoAdjacentIncludes; exact inferInstance

/-! ## parser states -/

/-- the state `s` with the current statement list, `defs`, `idx`, `nextFid` replaced -/
def upd (s : PState) (c : List Stmt) (d : List LabelDef) (i n : Nat) : PState :=
  { (s.setCur c) with defs := d, idx := i, nextFid := n }

@[simp] theorem upd_cur (s c d i n) : (upd s c d i n).cur = c := by
  cases s with | mk st f ds ix nf => cases f <;> rfl
@[simp] theorem upd_defs (s c d i n) : (upd s c d i n).defs = d := rfl
@[simp] theorem upd_idx (s c d i n) : (upd s c d i n).idx = i := rfl
@[simp] theorem upd_nextFid (s c d i n) : (upd s c d i n).nextFid = n := rfl
@[simp] theorem upd_floor (s c d i n) : (upd s c d i n).floor = s.floor := by
  cases s with | mk st f ds ix nf => cases f <;> rfl
@[simp] theorem upd_upd (s c d i n c' d' i' n') : upd (upd s c d i n) c' d' i' n' = upd s c' d' i' n' := by
  cases s with | mk st f ds ix nf => cases f <;> rfl
theorem upd_self (s : PState) : upd s s.cur s.defs s.idx s.nextFid = s := by
  cases s with | mk st f ds ix nf => cases f <;> rfl
theorem upd_func_none (s c d i n) (h : s.func = none) : (upd s c d i n).func = none := by
  cases s with | mk st f ds ix nf => cases f <;> simp_all [upd, PState.setCur]
theorem upd_func_isSome (s c d i n) : (upd s c d i n).func.isSome = s.func.isSome := by
  cases s with | mk st f ds ix nf => cases f <;> rfl
theorem emit_eq_upd (s : PState) (l : List Stmt) : s.emit l = upd s (s.cur ++ l) s.defs s.idx s.nextFid := by
  cases s with | mk st f ds ix nf => cases f <;> rfl
theorem setCur_eq_upd (s : PState) (l : List Stmt) : s.setCur l = upd s l s.defs s.idx s.nextFid := by
  cases s with | mk st f ds ix nf => cases f <;> rfl
theorem with_defs_eq_upd (s : PState) (c d i n d' i' n') :
    ({ stmts := (upd s c d i n).stmts, func := (upd s c d i n).func, defs := d', idx := i', nextFid := n' } : PState)
      = upd s c d' i' n' := by
  cases s with | mk st f ds ix nf => cases f <;> rfl

theorem upd_congr (s : PState) {c c' : List Stmt} {d d' : List LabelDef} {i i' n n' : Nat}
    (hc : c = c') (hd : d = d') (hi : i = i') (hn : n = n') : upd s c d i n = upd s c' d' i' n' := by
  subst hc hd hi hn; rfl

theorem scopeDefs_of (s : PState) (sc below : List LabelDef) (hd : s.defs = sc ++ below)
    (hf : below.length = s.floor) : s.scopeDefs = sc := by
  simp [PState.scopeDefs, hd, ← hf]

theorem pl_cons {s s' : PState} {l : Line} (ls : List Line) (h : stepLine s l = .ok s') :
    parseLinesFrom s (l :: ls) = parseLinesFrom s' ls := by
  simp [parseLinesFrom, h]

/-! ## `stepLine`, branch by branch -/

theorem step_assign (s : PState) (n e) :
    stepLine s (.assign n e) = .ok (upd s (s.cur ++ [.expr (some n) e]) s.defs s.idx s.nextFid) := by
  simp [stepLine, emit_eq_upd]
theorem step_exprStmt (s : PState) (e) :
    stepLine s (.exprStmt e) = .ok (upd s (s.cur ++ [.expr none e]) s.defs s.idx s.nextFid) := by
  simp [stepLine, emit_eq_upd]
theorem p_step_label (s : PState) (l) :
    stepLine s (.label l) = .ok (upd s (s.cur ++ [.label l]) s.defs s.idx s.nextFid) := by
  simp [stepLine, emit_eq_upd]
theorem p_step_jump (s : PState) (l c) :
    stepLine s (.jump l c) = .ok (upd s (s.cur ++ [.jump l c]) s.defs s.idx s.nextFid) := by
  simp [stepLine, emit_eq_upd]
theorem step_ret (s : PState) (e) :
    stepLine s (.ret e) = .ok (upd s (s.cur ++ [.ret e]) s.defs s.idx s.nextFid) := by
  simp [stepLine, emit_eq_upd]

theorem step_ifBegin (s : PState) (c) :
    stepLine s (.ifBegin c) = .ok (upd s (s.cur ++ [.jump (lIf s.idx) (some (notE c))])
      (.ifD s.cur.length (lIf s.idx) (lDone s.idx) false :: s.defs) (s.idx + 1) s.nextFid) := by
  simp [stepLine, emit_eq_upd, with_defs_eq_upd]

theorem step_whileBegin (s : PState) (c) :
    stepLine s (.whileBegin c) = .ok (upd s (s.cur ++ [.jump (lDone s.idx) (some (notE c)), .label (lLoop s.idx)])
      (.whileD (lLoop s.idx) (lDone s.idx) c :: s.defs) (s.idx + 1) s.nextFid) := by
  simp [stepLine, emit_eq_upd, with_defs_eq_upd]

theorem step_forBegin (s : PState) (v ix vals) :
    stepLine s (.forBegin v ix vals) = .ok (upd s (s.cur ++ forHeader s.idx v (ix.getD (vIndex s.idx)) vals)
      (.forD s.idx (ix.getD (vIndex s.idx)) false :: s.defs) (s.idx + 1) s.nextFid) := by
  simp [stepLine, emit_eq_upd, with_defs_eq_upd]

theorem step_endwhile (s : PState) {loop done c r} (h : s.scopeDefs = .whileD loop done c :: r) :
    stepLine s .endwhile = .ok (upd s (s.cur ++ [.jump loop (some c), .label done]) s.defs.tail s.idx s.nextFid) := by
  simp [stepLine, h, emit_eq_upd, with_defs_eq_upd]

theorem step_endfor (s : PState) {i ixv hc r} (h : s.scopeDefs = .forD i ixv hc :: r) :
    stepLine s .endfor = .ok (upd s (s.cur ++ forFooter i ixv hc) s.defs.tail s.idx s.nextFid) := by
  simp [stepLine, h, emit_eq_upd, with_defs_eq_upd]

theorem step_endif (s : PState) {at_ l done he r} (h : s.scopeDefs = .ifD at_ l done he :: r) :
    stepLine s .endif = .ok (upd s ((if he then s.cur else retarget s.cur at_ done) ++ [.label done])
      s.defs.tail s.idx s.nextFid) := by
  simp [stepLine, h, setCur_eq_upd, with_defs_eq_upd]

theorem step_else (s : PState) {at_ l done r} (h : s.scopeDefs = .ifD at_ l done false :: r) :
    stepLine s .else_ = .ok (upd s (s.cur ++ [.jump done none, .label l])
      (.ifD at_ l done true :: s.defs.tail) s.idx s.nextFid) := by
  simp [stepLine, h, emit_eq_upd, with_defs_eq_upd]

theorem step_elif (s : PState) (c) {at_ l done r} (h : s.scopeDefs = .ifD at_ l done false :: r) :
    stepLine s (.elif c) = .ok (upd s (s.cur ++ [.jump done none, .label l, .jump (lIf s.idx) (some (notE c))])
      (.ifD (s.cur.length + 2) (lIf s.idx) done false :: s.defs.tail) (s.idx + 1) s.nextFid) := by
  simp [stepLine, h, emit_eq_upd, with_defs_eq_upd]

/-! ## loops on the `label_defs` stack -/

/-- (break label, continue label) of the innermost loop entry, skipping `if` entries -/
def loopOf (ds : List LabelDef) : Option (Name × Name) :=
  match findLoop ds with
  | some (_, .whileD loop done _, _) => some (done, loop)
  | some (_, .forD i _ _, _) => some (lDone i, lCont i)
  | _ => none

/-- set `hasContinue` (or-ed with `b`) in the innermost loop entry -/
def markCont (b : Bool) : List LabelDef → List LabelDef
  | [] => []
  | .ifD a l d h :: rest => .ifD a l d h :: markCont b rest
  | .forD i ix h :: rest => .forD i ix (h || b) :: rest
  | .whileD l d c :: rest => .whileD l d c :: rest

@[simp] theorem markCont_nil (b) : markCont b [] = [] := rfl
@[simp] theorem markCont_ifD (b a l d h rest) :
    markCont b (.ifD a l d h :: rest) = .ifD a l d h :: markCont b rest := rfl
@[simp] theorem markCont_forD (b i ix h rest) :
    markCont b (.forD i ix h :: rest) = .forD i ix (h || b) :: rest := rfl
@[simp] theorem markCont_whileD (b l d c rest) :
    markCont b (.whileD l d c :: rest) = .whileD l d c :: rest := rfl

@[simp] theorem markCont_false : ∀ ds, markCont false ds = ds
  | [] => rfl
  | .ifD .. :: rest => by simp [markCont_false rest]
  | .forD .. :: rest => by simp
  | .whileD .. :: rest => by simp

@[simp] theorem markCont_markCont (a b) : ∀ ds, markCont b (markCont a ds) = markCont (a || b) ds
  | [] => rfl
  | .ifD .. :: rest => by simp [markCont_markCont a b rest]
  | .forD .. :: rest => by simp [Bool.or_assoc]
  | .whileD .. :: rest => by simp

@[simp] theorem loopOf_ifD (a l d h rest) : loopOf (.ifD a l d h :: rest) = loopOf rest := by
  simp only [loopOf, findLoop]
  cases findLoop rest with
  | none => rfl
  | some x => obtain ⟨p, l, q⟩ := x; cases l <;> rfl

@[simp] theorem loopOf_whileD (l d c rest) : loopOf (.whileD l d c :: rest) = some (d, l) := rfl
@[simp] theorem loopOf_forD (i ix h rest) : loopOf (.forD i ix h :: rest) = some (lDone i, lCont i) := rfl
@[simp] theorem loopOf_nil : loopOf [] = none := rfl

@[simp] theorem loopOf_markCont (b) : ∀ ds, loopOf (markCont b ds) = loopOf ds
  | [] => rfl
  | .ifD .. :: rest => by simp [loopOf_markCont b rest]
  | .forD .. :: rest => by simp
  | .whileD .. :: rest => by simp

/-- what `findLoop` returns, relative to `markCont` -/
theorem findLoop_spec : ∀ (ds : List LabelDef) {pre l post}, findLoop ds = some (pre, l, post) →
    ds = pre ++ l :: post ∧
    (match l with
     | .ifD .. => False
     | .whileD .. => markCont true ds = ds
     | .forD i ix _ => markCont true ds = pre ++ .forD i ix true :: post)
  | [], _, _, _, h => by simp [findLoop] at h
  | .whileD .. :: rest, _, _, _, h => by
      simp [findLoop] at h; obtain ⟨rfl, rfl, rfl⟩ := h; simp
  | .forD .. :: rest, _, _, _, h => by
      simp [findLoop] at h; obtain ⟨rfl, rfl, rfl⟩ := h; simp
  | .ifD a l d hh :: rest, pre, lp, post, h => by
      simp only [findLoop, Option.map_eq_some_iff] at h
      obtain ⟨⟨p, l', q⟩, h1, h2⟩ := h
      simp at h2
      obtain ⟨rfl, rfl, rfl⟩ := h2
      have ih := findLoop_spec rest h1
      refine ⟨by simp [← ih.1], ?_⟩
      cases l' with
      | ifD => exact ih.2
      | whileD => simpa using ih.2
      | forD => simpa using ih.2

/-! ## lists -/

theorem retarget_mid (pre mid : List Stmt) (l l' : Name) (c : Option Expr) (at_ : Nat) (h : at_ = pre.length) :
    retarget (pre ++ .jump l c :: mid) at_ l' = pre ++ .jump l' c :: mid := by
  subst h; simp [retarget]

/-- the list ends with an include statement -/
def endsInc (l : List Stmt) : Bool :=
  match l.getLast? with
  | some (.include _) => true
  | _ => false

@[simp] theorem endsInc_nil : endsInc [] = false := rfl

theorem endsInc_append_of_last (a b : List Stmt) (x : Stmt) (h : b.getLast? = some x)
    (hx : ∀ incs, x ≠ .include incs) : endsInc (a ++ b) = false := by
  have : (a ++ b).getLast? = some x := by
    simp [List.getLast?_append, h]
  unfold endsInc; rw [this]
  cases x <;> simp_all

end C01
