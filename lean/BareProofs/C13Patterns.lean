import BareModel.NumText

/-!
# C13 — tie to the generated regex table

Kept in its own module: when a pattern in the working tree changes, this obligation breaks and says which pattern the hand-written
scanners (`NumText.stripL`, `NumText.scanTok true`) no longer stand for, while the theorems of `BareProofs/C13.lean` about the model
keep checking; correspondence and the search then decide whether the property itself fails on the code.
-/

namespace C13
open NumText

/-- The regex sources the scanners were written for are the ones in the working tree (re-extracted on every run). -/
theorem patterns_as_modelled :
    patternOf "value.R_NUMBER_CLEANUP" = some ("\\.0*$", 32) ∧
    patternOf "library.R_NUMBER_CLEANUP" = some ("\\.0*$", 32) ∧
    patternOf "parser._R_EXPR_NUMBER" = some ("^\\s*([+-]?\\d+(?:\\.\\d*)?(?:e[+-]\\d+)?)", 32) := by decide

end C13
