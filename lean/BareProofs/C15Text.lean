import BareModel.Lib

/-!
# C15 — regexEscape yields a literal pattern for exactly its argument; URL encoding is reversible
-/

namespace C15
open Lib

/-! ## regexEscape -/

/-- remove the escaping backslashes -/
def unescape : List Char → List Char
  | [] => []
  | c :: cs =>
    if c = '\\' then
      match cs with
      | d :: ds => d :: unescape ds
      | [] => [c]
    else c :: unescape cs

/-- the characters with a special meaning in a Python `re` pattern outside a character class
(`. ^ $ * + ? { } [ ] \ | ( )`); `#` and white space are special only in verbose mode and `re.escape` escapes them too -/
def metaCodes : List Nat := [46, 94, 36, 42, 43, 63, 123, 125, 91, 93, 92, 124, 40, 41]
def isMeta (c : Char) : Bool := metaCodes.contains c.toNat

def isAsciiAlnum (c : Char) : Bool :=
  (48 ≤ c.toNat && c.toNat ≤ 57) || (65 ≤ c.toNat && c.toNat ≤ 90) || (97 ≤ c.toNat && c.toNat ≤ 122)

/-- read a pattern that consists of *literal atoms* only — an ordinary (non-meta) character, or a backslash followed by a
character that is not an ASCII letter or digit (so neither a class `\d`, an anchor `\b`, a back-reference `\1` nor an unknown
escape) — and return the text it matches; `none` if anything else occurs -/
def literalAtoms : List Char → Option (List Char)
  | [] => some []
  | c :: cs =>
    if c = '\\' then
      match cs with
      | d :: ds => if isAsciiAlnum d then none else (literalAtoms ds).map (d :: ·)
      | [] => none
    else if isMeta c then none else (literalAtoms cs).map (c :: ·)

theorem special_backslash : isSpecial '\\' = true := by decide

theorem meta_special : ∀ n ∈ metaCodes, Gen.reEscapeSpecial.contains n = true := by decide

theorem special_not_alnum : ∀ n ∈ Gen.reEscapeSpecial,
    ((48 ≤ n && n ≤ 57) || (65 ≤ n && n ≤ 90) || (97 ≤ n && n ≤ 122)) = false := by decide

theorem isMeta_isSpecial (c : Char) (h : isMeta c = true) : isSpecial c = true := by
  unfold isMeta at h
  exact meta_special c.toNat (List.contains_iff_mem.mp h)

theorem isSpecial_not_alnum (c : Char) (h : isSpecial c = true) : isAsciiAlnum c = false := by
  unfold isSpecial at h
  exact special_not_alnum c.toNat (List.contains_iff_mem.mp h)

theorem unescape_cons_ne (c : Char) (cs : List Char) (h : c ≠ '\\') : unescape (c :: cs) = c :: unescape cs := by
  cases cs <;> simp [unescape, h]

theorem literalAtoms_cons_ne (c : Char) (cs : List Char) (h : c ≠ '\\') (hm : isMeta c = false) :
    literalAtoms (c :: cs) = (literalAtoms cs).map (c :: ·) := by
  cases cs <;> simp [literalAtoms, h, hm]

/-- **regexEscape_literal.** The escaped text (CPython 3.12 `re.escape`: exactly the code points of
`re._special_chars_map`, re-extracted on every run) is a sequence of literal atoms — every character is either a non-special
character or a backslash-escaped non-alphanumeric one — and the text those atoms match is exactly `s`
(`unescape (escape s) = s`): the pattern denotes the singleton language `{s}`. -/
theorem regexEscape_literal (s : List Char) : unescape (reEscape s) = s ∧ literalAtoms (reEscape s) = some s := by
  induction s with
  | nil => exact ⟨rfl, rfl⟩
  | cons c cs ih =>
    obtain ⟨ih1, ih2⟩ := ih
    by_cases hs : isSpecial c = true
    · have hna := isSpecial_not_alnum c hs
      have hre : reEscape (c :: cs) = '\\' :: c :: reEscape cs := by simp [reEscape, hs]
      rw [hre]
      simp [unescape, literalAtoms, ih1, ih2, hna]
    · have hne : c ≠ '\\' := by
        intro h; subst h; exact hs special_backslash
      have hnm : isMeta c = false := by
        cases hm : isMeta c with
        | false => rfl
        | true => exact absurd (isMeta_isSpecial c hm) hs
      have hre : reEscape (c :: cs) = c :: reEscape cs := by simp [reEscape, hs]
      rw [hre, unescape_cons_ne c _ hne, literalAtoms_cons_ne c _ hne hnm, ih1, ih2]
      exact ⟨rfl, rfl⟩

/-- the library call is that function -/
theorem regexEscape_call (s : String) (h : Heap) :
    lib "regexEscape" [.str s] h = (.ok (mkStr (reEscape (chars s))), h) := by rfl

/-! ## urlEncode / urlEncodeComponent -/

def hexVal (c : Char) : Option Nat :=
  if 48 ≤ c.toNat ∧ c.toNat ≤ 57 then some (c.toNat - 48)
  else if 65 ≤ c.toNat ∧ c.toNat ≤ 70 then some (c.toNat - 55)
  else if 97 ≤ c.toNat ∧ c.toNat ≤ 102 then some (c.toNat - 87)
  else none

/-- percent-decoding to bytes: `%XX` is the byte `XX`, any other character stands for its own code -/
def percentDecode : List Char → List Nat
  | [] => []
  | c :: tl@(a :: b :: rest) =>
    if c = '%' then
      match hexVal a, hexVal b with
      | some x, some y => (16 * x + y) :: percentDecode rest
      | _, _ => c.toNat :: percentDecode tl
    else c.toNat :: percentDecode tl
  | c :: tl => c.toNat :: percentDecode tl

theorem percentDecode_cons_ne (c : Char) (cs : List Char) (hc : c ≠ '%') :
    percentDecode (c :: cs) = c.toNat :: percentDecode cs := by
  rcases cs with _ | ⟨a, _ | ⟨b, rest⟩⟩ <;> simp [percentDecode, hc]

theorem toNat_ofNat_small (n : Nat) (h : n < 0xd800) : (Char.ofNat n).toNat = n := by
  unfold Char.ofNat
  have hv : n.isValidChar := Or.inl h
  simp only [hv, dite_true]
  unfold Char.ofNatAux Char.toNat
  simp

theorem char_lt (c : Char) : c.toNat < 0x110000 := by
  have h := c.valid
  unfold UInt32.isValidChar Nat.isValidChar at h
  show c.val.toNat < 0x110000
  omega

theorem utf8_lt (c : Char) : ∀ b ∈ utf8 c, b < 256 := by
  have hc := char_lt c
  intro b hb
  unfold utf8 at hb
  simp only at hb
  split at hb
  · simp at hb; omega
  · split at hb
    · simp at hb; omega
    · split at hb
      · simp at hb; omega
      · simp at hb; omega

/-- a `safe` set is decodable if it contains only ASCII codes other than `%` -/
def SafeOK (safe : List Nat) : Prop := ∀ b ∈ safe, b < 128 ∧ b ≠ 37

theorem safeOK_urlEncode : SafeOK (safeBytes "':/&+") := by unfold SafeOK; decide
theorem safeOK_urlEncodeComponent : SafeOK (safeBytes "'") := by unfold SafeOK; decide

theorem hex_roundtrip (x : Nat) (hx : x < 16) : hexVal (hexU x) = some x := by
  unfold hexU hexVal
  by_cases h : x < 10
  · simp only [h, if_true, toNat_ofNat_small (48 + x) (by omega)]
    have h1 : 48 ≤ 48 + x ∧ 48 + x ≤ 57 := by omega
    simp [h1]
  · simp only [h, if_false, toNat_ofNat_small (55 + x) (by omega)]
    have h1 : ¬ (48 ≤ 55 + x ∧ 55 + x ≤ 57) := by omega
    have h2 : 65 ≤ 55 + x ∧ 55 + x ≤ 70 := by omega
    simp [h1, h2]

theorem decode_quoteByte (safe : List Nat) (hs : SafeOK safe) (b : Nat) (hb : b < 256) (rest : List Char) :
    percentDecode (quoteByte safe b ++ rest) = b :: percentDecode rest := by
  unfold quoteByte
  by_cases hc : safe.contains b = true
  · obtain ⟨h1, h2⟩ := hs b (List.contains_iff_mem.mp hc)
    have ht := toNat_ofNat_small b (by omega)
    have hne : Char.ofNat b ≠ '%' := by
      intro h
      have : (Char.ofNat b).toNat = ('%' : Char).toNat := by rw [h]
      rw [ht] at this
      exact h2 this
    simp only [hc, if_true, List.cons_append, List.nil_append, percentDecode_cons_ne _ _ hne, ht]
  · have hx := hex_roundtrip (b / 16) (by omega)
    have hy := hex_roundtrip (b % 16) (by omega)
    simp only [hc, Bool.false_eq_true, if_false, List.cons_append, List.nil_append, percentDecode, if_true, hx, hy]
    congr 1
    omega

theorem decode_quote (safe : List Nat) (hs : SafeOK safe) : ∀ (bs : List Nat), (∀ b ∈ bs, b < 256) →
    percentDecode (bs.flatMap (quoteByte safe)) = bs
  | [], _ => by simp [percentDecode]
  | b :: bs, hb => by
    rw [List.flatMap_cons, decode_quoteByte safe hs b (hb b List.mem_cons_self)]
    rw [decode_quote safe hs bs (fun x hx => hb x (List.mem_cons_of_mem _ hx))]

/-- **urlEncode_reversible.** For both safe sets the code passes to `urllib.parse.quote` (`"':/&+"` for `urlEncode`, `"'"`
for `urlEncodeComponent`, re-extracted on every run), percent-decoding the encoded text gives back the UTF-8 bytes of the
original string — for every string. -/
theorem urlEncode_reversible (s : List Char) :
    percentDecode (pyQuote (safeBytes "':/&+") s) = utf8Bytes s ∧ percentDecode (pyQuote (safeBytes "'") s) = utf8Bytes s := by
  have hlt : ∀ b ∈ utf8Bytes s, b < 256 := by
    intro b hb
    unfold utf8Bytes at hb
    obtain ⟨c, _, hc⟩ := List.mem_flatMap.mp hb
    exact utf8_lt c b hc
  exact ⟨decode_quote _ safeOK_urlEncode _ hlt, decode_quote _ safeOK_urlEncodeComponent _ hlt⟩

/-- the library calls are that function with those safe sets -/
theorem urlEncode_call (s : String) (h : Heap) :
    lib "urlEncode" [.str s] h = (.ok (mkStr (pyQuote (safeBytes "':/&+") (chars s))), h) ∧
    lib "urlEncodeComponent" [.str s] h = (.ok (mkStr (pyQuote (safeBytes "'") (chars s))), h) := ⟨rfl, rfl⟩

/-- encoded text is ASCII: only always-safe / safe characters, `%` and upper-case hex digits -/
theorem quoteByte_ascii (safe : List Nat) (hs : SafeOK safe) (b : Nat) (hb : b < 256) :
    ∀ c ∈ quoteByte safe b, c.toNat < 128 := by
  intro c hc
  unfold quoteByte at hc
  by_cases hcs : safe.contains b = true
  · have hlt := (hs b (List.contains_iff_mem.mp hcs)).1
    simp only [hcs, if_true, List.mem_singleton] at hc
    subst hc
    rw [toNat_ofNat_small b (by omega)]
    exact hlt
  · simp only [hcs, Bool.false_eq_true, if_false, List.mem_cons, List.not_mem_nil, or_false] at hc
    have hh : ∀ n, n < 16 → (hexU n).toNat < 128 := by
      intro n hn
      unfold hexU
      split
      · rw [toNat_ofNat_small _ (by omega)]; omega
      · rw [toNat_ofNat_small _ (by omega)]; omega
    rcases hc with rfl | rfl | rfl
    · decide
    · exact hh _ (by omega)
    · exact hh _ (by omega)

/-! ### non-vacuity -/

example : reEscape ['a', '.', 'b', '*', ' ', '('] = ['a', '\\', '.', 'b', '\\', '*', '\\', ' ', '\\', '('] := by decide
example : literalAtoms (reEscape ['a', '.', 'b', '*', ' ', '(']) = some ['a', '.', 'b', '*', ' ', '('] := by decide
example : literalAtoms ['a', '.', 'b'] = none := by decide      -- an unescaped metacharacter is not a literal atom
example : literalAtoms ['\\', 'd'] = none := by decide           -- a class escape is not a literal atom
example : pyQuote (safeBytes "':/&+") ['a', ' ', '/', 'é'] = ['a', '%', '2', '0', '/', '%', 'C', '3', '%', 'A', '9'] := by decide
example : pyQuote (safeBytes "'") ['a', ' ', '/'] = ['a', '%', '2', '0', '%', '2', 'F'] := by decide
example : percentDecode ['a', '%', '2', '0', '%', 'C', '3', '%', 'A', '9'] = utf8Bytes ['a', ' ', 'é'] := by
  simp [percentDecode, hexVal, utf8Bytes, utf8]

end C15
