import BareModel.LibH
namespace C12
end C12
