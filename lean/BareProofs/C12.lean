import BareModel.LibH

/-!
# C12 — one number type: the int and float spellings of a number are interchangeable

`LibH` (host level, `PyNum = int | float`, partial Python-typed primitives) refines the one-number-type library over `Rat`
for the functions that use a number as index / count / size / radix / char code, for **all** arguments and whatever
argument-model table `extract.py` regenerates from library.py.

Scope note (also LEVEL_NOTE of harness/props/C12.py): for the *remaining* library functions numbers only flow into
comparison / arithmetic / stringification, where Python's int-vs-float mixed operations are exact on the values
(assumption, DESIGN §6); no theorem here speaks about them — they are covered by the `libnum` / `operators` / `script`
streams of the harness (implementation-side metamorphic oracle) only.  The model is by-value: aliasing between
arguments is covered by that oracle only.
-/

namespace C12
open LibH

theorem ratTrunc_intCast (n : Int) : ratTrunc (n : Rat) = n := by
  simp [ratTrunc]

theorem toInt_abs (x : PyNum) : toInt x = ratTrunc x.abs := by
  cases x <;> simp [toInt, PyNum.abs, ratTrunc_intCast]

theorem beq_intCast (a b : Int) : (a == b) = ((a : Rat) == (b : Rat)) := by
  rw [Bool.eq_iff_iff, beq_iff_eq, beq_iff_eq, Rat.intCast_inj]

theorem pyEq_abs (a b : PyNum) : pyEq a b = (a.abs == b.abs) := by
  cases a <;> cases b <;> simp [pyEq, PyNum.abs, beq_intCast]

theorem pyLtI_abs (x : PyNum) (b : Int) : pyLtI x b = decide (x.abs < (b : Rat)) := by
  cases x <;> simp only [pyLtI, PyNum.abs] <;> apply decide_eq_decide.mpr
  · exact Rat.intCast_lt_intCast.symm
  · exact Iff.rfl

theorem pyLeI_abs (x : PyNum) (b : Int) : pyLeI x b = decide (x.abs ≤ (b : Rat)) := by
  cases x <;> simp only [pyLeI, PyNum.abs] <;> apply decide_eq_decide.mpr
  · exact Rat.intCast_le_intCast.symm
  · exact Iff.rfl


/-! ### values -/

theorem mapL_eq {N M : Type} (f : N → M) (xs : List (Val N)) : Val.mapL f xs = xs.map (Val.map f) := by
  induction xs with
  | nil => rfl
  | cons x xs ih => simp [Val.mapL, ih]

theorem mapKV_eq {N M : Type} (f : N → M) (kvs : List (String × Val N)) :
    Val.mapKV f kvs = kvs.map (fun p => (p.1, Val.map f p.2)) := by
  induction kvs with
  | nil => rfl
  | cons p r ih => obtain ⟨k, v⟩ := p; simp [Val.mapKV, ih]

@[simp] theorem absV_null : absV .null = .null := by simp [absV, Val.map]
@[simp] theorem absV_bool (b : Bool) : absV (.bool b) = .bool b := by simp [absV, Val.map]
@[simp] theorem absV_num (x : PyNum) : absV (.num x) = .num x.abs := by simp [absV, Val.map]
@[simp] theorem absV_str (s : String) : absV (.str s) = .str s := by simp [absV, Val.map]
@[simp] theorem absV_opaque (k : String) (i : Int) : absV (.opaque k i) = .opaque k i := by simp [absV, Val.map]
@[simp] theorem absV_arr (xs : List HVal) : absV (.arr xs) = .arr (xs.map absV) := by
  simp [absV, Val.map, mapL_eq]
@[simp] theorem absV_obj (kvs : List (String × HVal)) : absV (.obj kvs) = .obj (kvs.map (fun p => (p.1, absV p.2))) := by
  simp [absV, Val.map, mapKV_eq]

@[simp] theorem typeName_abs (v : HVal) : typeName (absV v) = typeName v := by
  cases v <;> simp [typeName]

/-! ### value_args_validate -/

theorem pyNonzero_abs (x : PyNum) : pyNonzero x = (x.abs != 0) := by
  cases x with
  | int n =>
    have := beq_intCast n 0
    simp only [pyNonzero, PyNum.abs, bne, this]; simp
  | float q => simp [pyNonzero, PyNum.abs]

theorem truthy_abs (v : HVal) : truthy pyNonzero v = truthy (fun (q : Rat) => q != 0) (absV v) := by
  cases v <;> simp [truthy, pyNonzero_abs]

theorem numOkH_abs (m : Gen.ArgModel) (x : PyNum) : numOkH m x = numOkA m x.abs := by
  simp only [numOkH, numOkA, pyEq_abs, toInt_abs, pyLtI_abs, pyLeI_abs, PyNum.abs]

theorem typeOk_abs (t : String) (v : HVal) : typeOk t (absV v) = typeOk t v := by
  simp [typeOk]

theorem checkArg_abs (m : Gen.ArgModel) (v : HVal) :
    (checkArg pyNonzero numOkH m v).map absV = checkArg (fun (q : Rat) => q != 0) numOkA m (absV v) := by
  unfold checkArg
  cases m.type with
  | none => simp
  | some t =>
    by_cases hb : t = "boolean"
    · simp [hb, truthy_abs]
    · cases v <;> simp [hb, typeOk_abs, numOkH_abs, typeOk, typeName] <;> (try split) <;> simp_all

theorem parseDefault_abs (t : String) :
    absV (parseDefault PyNum PyNum.int t) = parseDefault Rat (fun (n : Int) => (n : Rat)) t := by
  unfold parseDefault
  split
  · simp
  · split
    · simp
    · split
      · simp
      · cases t.toInt? <;> simp [PyNum.abs]

theorem missingArg_abs (m : Gen.ArgModel) :
    (missingArg PyNum.int m).map absV = missingArg (fun (n : Int) => (n : Rat)) m := by
  unfold missingArg
  split
  · simp
  · cases m.default with
    | some t => simp [parseDefault_abs]
    | none => simp only []; split <;> (try split) <;> simp

/-- **value_args_validate is spelling-blind** (refinement form): for every argument-model table (whatever `library.py` says
    now — the table is data) and every argument list, host-level validation followed by forgetting the spelling equals
    one-number-type validation of the abstracted arguments, including which calls are rejected, the defaults filled in, the
    booleans coerced and the `lastArgArray` collection. -/
theorem validate_refines (ms : List Gen.ArgModel) (args : List HVal) :
    (validateH ms args).map (List.map absV) = validateA ms (args.map absV) := by
  unfold validateH validateA
  induction ms generalizing args with
  | nil => cases args <;> simp [validate]
  | cons m ms ih =>
    cases args with
    | nil =>
      have h0 := ih []
      simp only [List.map_nil] at h0
      simp only [validate, List.map_nil, ← missingArg_abs, ← h0]
      cases missingArg PyNum.int m <;> cases validate pyNonzero numOkH PyNum.int ms [] <;> simp
    | cons a as =>
      simp only [validate, List.map_cons]
      by_cases hl : m.lastArgArray = true
      · have h0 := ih []
        simp only [List.map_nil] at h0
        simp only [hl, if_true, ← h0]
        cases validate pyNonzero numOkH PyNum.int ms [] <;> simp
      · have h1 := ih as
        simp only [hl, ← checkArg_abs, ← h1]
        cases checkArg pyNonzero numOkH m a <;> cases validate pyNonzero numOkH PyNum.int ms as <;> simp


/-! ### value_compare(a, b) == 0 and bucket-key equality -/

mutual
theorem size_map {N M : Type} (f : N → M) : ∀ v : Val N, Val.size (Val.map f v) = Val.size v
  | .null => rfl
  | .bool _ => rfl
  | .num _ => rfl
  | .str _ => rfl
  | .opaque _ _ => rfl
  | .arr xs => by simp [Val.map, Val.size, sizeL_map f xs]
  | .obj kvs => by simp [Val.map, Val.size, sizeKV_map f kvs]
theorem sizeL_map {N M : Type} (f : N → M) : ∀ xs : List (Val N), Val.sizeL (Val.mapL f xs) = Val.sizeL xs
  | [] => rfl
  | x :: xs => by simp [Val.mapL, Val.sizeL, size_map f x, sizeL_map f xs]
theorem sizeKV_map {N M : Type} (f : N → M) : ∀ kvs : List (String × Val N), Val.sizeKV (Val.mapKV f kvs) = Val.sizeKV kvs
  | [] => rfl
  | (k, v) :: r => by simp [Val.mapKV, Val.sizeKV, size_map f v, sizeKV_map f r]
end

theorem insertKV_map {V W : Type} (g : V → W) (p : String × V) (l : List (String × V)) :
    insertKV (p.1, g p.2) (l.map (fun q => (q.1, g q.2))) = (insertKV p l).map (fun q => (q.1, g q.2)) := by
  induction l with
  | nil => rfl
  | cons q r ih =>
    simp only [List.map_cons, insertKV]
    split <;> simp [ih]

theorem sortKV_map {V W : Type} (g : V → W) (l : List (String × V)) :
    sortKV (l.map (fun q => (q.1, g q.2))) = (sortKV l).map (fun q => (q.1, g q.2)) := by
  induction l with
  | nil => rfl
  | cons p r ih => simp only [List.map_cons, sortKV, ih, insertKV_map]

theorem eqFuel_abs (strict : Bool) : ∀ (f : Nat) (a b : HVal),
    eqFuel pyEq strict f a b = eqFuel ratEq strict f (absV a) (absV b) := by
  intro f
  induction f with
  | zero => intro a b; simp [eqFuel]
  | succ f ih =>
    intro a b
    have ih' : eqFuel pyEq strict f = fun a b => eqFuel ratEq strict f (absV a) (absV b) := by
      funext a b; exact ih a b
    cases a <;> cases b <;> simp [eqFuel, pyEq_abs, ratEq, List.zipWith_map, sortKV_map, ih, ih']

/-- `value_compare(a, b) == 0` (used by arrayIndexOf / arrayLastIndexOf) depends only on the values, at every depth
    (arrays element-wise, objects through their sorted items). -/
theorem cmpEq_refines (a b : HVal) : cmpEq pyEq a b = cmpEq ratEq (absV a) (absV b) := by
  simp [cmpEq, eqFuel_abs, absV, size_map]

theorem keyEq_abs (a b : HVal) : keyEq pyEq a b = keyEq ratEq (absV a) (absV b) := by
  simp [keyEq, eqFuel_abs, absV, size_map]


/-! ### bodies -/

def absFail : Fail PyNum → Fail Rat
  | .args r => .args (absV r)
  | .host e => .host e

def absBodyR (p : BodyR PyNum) : BodyR Rat := (absV p.1, p.2.map (List.map absV))

/-- forget the spelling in the outcome of a (sub)computation -/
def absE {α β : Type} (g : α → β) : Except (Fail PyNum) α → Except (Fail Rat) β
  | .ok a => .ok (g a)
  | .error e => .error (absFail e)

abbrev absB : Except (Fail PyNum) (BodyR PyNum) → Except (Fail Rat) (BodyR Rat) := absE absBodyR

@[simp] theorem abs_int (n : Int) : (PyNum.int n).abs = (n : Rat) := rfl
@[simp] theorem abs_float (q : Rat) : (PyNum.float q).abs = q := rfl

macro "leaf" : tactic =>
  `(tactic| simp [absE, absFail, absBodyR, pure, Except.pure, throw, throwThe, MonadExceptOf.throw, ofI])

theorem list2_map {α β : Type} (f : α → β) (v : List α) : list2 (v.map f) = (list2 v).map (fun p => (f p.1, f p.2)) := by
  rcases v with _ | ⟨a, _ | ⟨b, _ | ⟨c, t⟩⟩⟩ <;> simp [list2]

theorem list3_map {α β : Type} (f : α → β) (v : List α) :
    list3 (v.map f) = (list3 v).map (fun p => (f p.1, f p.2.1, f p.2.2)) := by
  rcases v with _ | ⟨a, _ | ⟨b, _ | ⟨c, _ | ⟨d, t⟩⟩⟩⟩ <;> simp [list3]

theorem asArr_abs (a : HVal) : (absV a).asArr? = a.asArr?.map (List.map absV) := by cases a <;> simp [Val.asArr?]
theorem asNum_abs (a : HVal) : (absV a).asNum? = a.asNum?.map PyNum.abs := by cases a <;> simp [Val.asNum?]
theorem asStr_abs (a : HVal) : (absV a).asStr? = a.asStr? := by cases a <;> simp [Val.asStr?]
theorem asOptNum_abs (a : HVal) : (absV a).asOptNum? = a.asOptNum?.map (Option.map PyNum.abs) := by
  cases a <;> simp [Val.asOptNum?]

theorem geLen_abs (x : PyNum) (n : Nat) : geLen x n = geLenA x.abs n := by simp [geLen, geLenA, pyLtI_abs]
theorem gtLen_abs (x : PyNum) (n : Nat) : gtLen x n = gtLenA x.abs n := by simp [gtLen, gtLenA, pyLeI_abs]

theorem index_map {α β : Type} (f : α → β) (xs : List α) (i : Int) :
    (normIndex (xs.map f).length i).bind ((xs.map f)[·]?) = ((normIndex xs.length i).bind (xs[·]?)).map f := by
  simp only [List.length_map]
  cases normIndex xs.length i <;> simp

/-- `xs[int]` at host level is the abstract indexing -/
theorem listIndex_ref {α β : Type} (f : α → β) (xs : List α) (k : Int) :
    absE f (hostE (listIndex xs (.int k))) = idxA (xs.map f) k := by
  simp only [hostE, listIndex, idxA, index_map]
  cases (normIndex xs.length k).bind (xs[·]?) <;> leaf

theorem sliceI_map {α β : Type} (f : α → β) (xs : List α) (s e : Int) : sliceI (xs.map f) s e = (sliceI xs s e).map f := by
  simp [sliceI, List.map_take, List.map_drop]

theorem eraseIdx_map {α β : Type} (f : α → β) : ∀ (xs : List α) (k : Nat), (xs.eraseIdx k).map f = (xs.map f).eraseIdx k
  | [], _ => rfl
  | _ :: _, 0 => rfl
  | x :: xs, k + 1 => by simp [List.eraseIdx, eraseIdx_map f xs k]

theorem getD_abs (e : Option PyNum) (n : Int) : (e.map PyNum.abs).getD (n : Rat) = (e.getD (.int n)).abs := by
  cases e <;> simp [PyNum.abs]

theorem arrayGet_ref (v : List HVal) : absB (arrayGetH v) = arrayGetA (v.map absV) := by
  unfold arrayGetH arrayGetA
  rw [list2_map]
  cases list2 v with
  | none => rfl
  | some p =>
    obtain ⟨a, i⟩ := p
    simp only [Option.map_some, req, bind, Except.bind, asArr_abs, asNum_abs]
    cases a.asArr? with
    | none => rfl
    | some xs =>
      cases i.asNum? with
      | none => rfl
      | some index =>
        simp only [Option.map_some, geLen_abs, List.length_map, toInt_abs]
        by_cases h : geLenA index.abs xs.length = true
        · simp only [h]; leaf
        · simp only [h, ← listIndex_ref]
          cases hostE (listIndex xs (PyNum.int (ratTrunc index.abs))) <;> leaf

theorem arrayDelete_ref (v : List HVal) : absB (arrayDeleteH v) = arrayDeleteA (v.map absV) := by
  unfold arrayDeleteH arrayDeleteA
  rw [list2_map]
  cases list2 v with
  | none => rfl
  | some p =>
    obtain ⟨a, i⟩ := p
    simp only [Option.map_some, req, bind, Except.bind, asArr_abs, asNum_abs]
    cases a.asArr? with
    | none => rfl
    | some xs =>
      cases i.asNum? with
      | none => rfl
      | some index =>
        simp only [Option.map_some, geLen_abs, List.length_map, toInt_abs]
        by_cases h : geLenA index.abs xs.length = true
        · simp only [h]; leaf
        · simp only [h, hostE, listDel, atIndexA]
          cases normIndex xs.length (ratTrunc index.abs) <;> simp [absE, absFail, absBodyR, pure, Except.pure, throw, throwThe, MonadExceptOf.throw, eraseIdx_map]

theorem arraySet_ref (v : List HVal) : absB (arraySetH v) = arraySetA (v.map absV) := by
  unfold arraySetH arraySetA
  rw [list3_map]
  cases list3 v with
  | none => rfl
  | some p =>
    obtain ⟨a, i, value⟩ := p
    simp only [Option.map_some, req, bind, Except.bind, asArr_abs, asNum_abs]
    cases a.asArr? with
    | none => rfl
    | some xs =>
      cases i.asNum? with
      | none => rfl
      | some index =>
        simp only [Option.map_some, geLen_abs, List.length_map, toInt_abs]
        by_cases h : geLenA index.abs xs.length = true
        · simp only [h]; leaf
        · simp only [h, hostE, listSet, atIndexA]
          cases normIndex xs.length (ratTrunc index.abs) <;> leaf

theorem arraySlice_ref (v : List HVal) : absB (arraySliceH v) = arraySliceA (v.map absV) := by
  unfold arraySliceH arraySliceA
  rw [list3_map]
  cases list3 v with
  | none => rfl
  | some p =>
    obtain ⟨a, s, e⟩ := p
    simp only [Option.map_some, req, bind, Except.bind, asArr_abs, asNum_abs, asOptNum_abs]
    cases a.asArr? with
    | none => rfl
    | some xs =>
      cases s.asNum? with
      | none => rfl
      | some start =>
        cases e.asOptNum? with
        | none => rfl
        | some e' =>
          simp only [Option.map_some, gtLen_abs, List.length_map, toInt_abs, getD_abs, hostE, listSlice, sliceI_map]
          by_cases h : gtLenA start.abs xs.length = true
          · simp only [h]; leaf
          · by_cases h2 : gtLenA (e'.getD (PyNum.int xs.length)).abs xs.length = true
            · simp only [h, h2]; leaf
            · simp only [h, h2]; leaf

theorem arrayNewSize_ref (v : List HVal) : absB (arrayNewSizeH v) = arrayNewSizeA (v.map absV) := by
  unfold arrayNewSizeH arrayNewSizeA
  rw [list2_map]
  cases list2 v with
  | none => rfl
  | some p =>
    obtain ⟨s, value⟩ := p
    simp only [Option.map_some, req, bind, Except.bind, asNum_abs]
    cases s.asNum? with
    | none => rfl
    | some size => simp only [Option.map_some, toInt_abs, hostE, rangeLen]; leaf


theorem search_ref (xs : List HVal) (value : HVal) (ixs : List Int) :
    absE id (searchH xs value ixs) = searchA (xs.map absV) (absV value) ixs := by
  induction ixs with
  | nil => simp only [searchH, searchA]; leaf
  | cons ix rest ih =>
    simp only [searchH, searchA, bind, Except.bind, ← listIndex_ref absV]
    cases hostE (listIndex xs (PyNum.int ix)) with
    | error e => leaf
    | ok x =>
      simp only [absE, ← cmpEq_refines]
      by_cases h : cmpEq pyEq x value = true
      · simp only [h]; leaf
      · simp only [h]; exact ih

theorem arrayIndexOf_ref (v : List HVal) : absB (arrayIndexOfH v) = arrayIndexOfA (v.map absV) := by
  unfold arrayIndexOfH arrayIndexOfA
  rw [list3_map]
  cases list3 v with
  | none => rfl
  | some p =>
    obtain ⟨a, value, i⟩ := p
    simp only [Option.map_some, req, bind, Except.bind, asArr_abs, asNum_abs]
    cases a.asArr? with
    | none => rfl
    | some xs =>
      cases i.asNum? with
      | none => rfl
      | some index =>
        simp only [Option.map_some, geLen_abs, List.length_map, toInt_abs, typeName_abs, hostE, rangeUp, ← search_ref]
        by_cases h : geLenA index.abs xs.length = true
        · simp only [h]; leaf
        · by_cases h2 : (typeName value == "function") = true
          · simp only [h, h2]; leaf
          · simp only [h, h2]
            cases searchH xs value (upFrom (ratTrunc index.abs) xs.length) <;> leaf

theorem lastDefault_abs (e : Option PyNum) (n : Int) : (e.map PyNum.abs).getD ((n : Int) : Rat) = (e.getD (.int n)).abs :=
  getD_abs e n

theorem arrayLastIndexOf_ref (v : List HVal) : absB (arrayLastIndexOfH v) = arrayLastIndexOfA (v.map absV) := by
  unfold arrayLastIndexOfH arrayLastIndexOfA
  rw [list3_map]
  cases list3 v with
  | none => rfl
  | some p =>
    obtain ⟨a, value, i⟩ := p
    simp only [Option.map_some, req, bind, Except.bind, asArr_abs, asOptNum_abs]
    cases a.asArr? with
    | none => rfl
    | some xs =>
      cases i.asOptNum? with
      | none => rfl
      | some i' =>
        simp only [Option.map_some, geLen_abs, List.length_map, toInt_abs, typeName_abs, hostE, rangeDown, ← search_ref,
          lastDefault_abs]
        by_cases h : geLenA (i'.getD (PyNum.int ((xs.length : Int) - 1))).abs xs.length = true
        · simp only [h]; leaf
        · by_cases h2 : (typeName value == "function") = true
          · simp only [h, h2]; leaf
          · simp only [h, h2]
            cases searchH xs value (downFrom (ratTrunc (i'.getD (PyNum.int ((xs.length : Int) - 1))).abs)) <;> leaf

theorem stringCharCodeAt_ref (v : List HVal) : absB (stringCharCodeAtH v) = stringCharCodeAtA (v.map absV) := by
  unfold stringCharCodeAtH stringCharCodeAtA
  rw [list2_map]
  cases list2 v with
  | none => rfl
  | some p =>
    obtain ⟨a, i⟩ := p
    simp only [Option.map_some, req, bind, Except.bind, asStr_abs, asNum_abs]
    cases a.asStr? with
    | none => rfl
    | some s =>
      cases i.asNum? with
      | none => rfl
      | some index =>
        simp only [Option.map_some, geLen_abs, toInt_abs]
        have hl := listIndex_ref (fun (c : Char) => c) s.toList (ratTrunc index.abs)
        simp only [List.map_id'] at hl
        by_cases h : geLenA index.abs s.length = true
        · simp only [h]; leaf
        · simp only [h, ← hl]
          cases hostE (listIndex s.toList (PyNum.int (ratTrunc index.abs))) <;> leaf

theorem stringIndexOf_ref (v : List HVal) : absB (stringIndexOfH v) = stringIndexOfA (v.map absV) := by
  unfold stringIndexOfH stringIndexOfA
  rw [list3_map]
  cases list3 v with
  | none => rfl
  | some p =>
    obtain ⟨a, b, i⟩ := p
    simp only [Option.map_some, req, bind, Except.bind, asStr_abs, asNum_abs]
    cases a.asStr? with
    | none => rfl
    | some s =>
      cases b.asStr? with
      | none => rfl
      | some search =>
        cases i.asNum? with
        | none => rfl
        | some index =>
          simp only [Option.map_some, geLen_abs, toInt_abs, hostE, strFind]
          by_cases h : geLenA index.abs s.length = true
          · simp only [h]; leaf
          · simp only [h]; leaf

theorem stringLastIndexOf_ref (v : List HVal) : absB (stringLastIndexOfH v) = stringLastIndexOfA (v.map absV) := by
  unfold stringLastIndexOfH stringLastIndexOfA
  rw [list3_map]
  cases list3 v with
  | none => rfl
  | some p =>
    obtain ⟨a, b, i⟩ := p
    simp only [Option.map_some, req, bind, Except.bind, asStr_abs, asOptNum_abs]
    cases a.asStr? with
    | none => rfl
    | some s =>
      cases b.asStr? with
      | none => rfl
      | some search =>
        cases i.asOptNum? with
        | none => rfl
        | some i' =>
          simp only [Option.map_some, geLen_abs, toInt_abs, hostE, strRFind, lastDefault_abs]
          by_cases h : geLenA (i'.getD (PyNum.int ((s.length : Int) - 1))).abs s.length = true
          · simp only [h]; leaf
          · simp only [h]; leaf

theorem stringRepeat_ref (v : List HVal) : absB (stringRepeatH v) = stringRepeatA (v.map absV) := by
  unfold stringRepeatH stringRepeatA
  rw [list2_map]
  cases list2 v with
  | none => rfl
  | some p =>
    obtain ⟨a, c⟩ := p
    simp only [Option.map_some, req, bind, Except.bind, asStr_abs, asNum_abs]
    cases a.asStr? with
    | none => rfl
    | some s =>
      cases c.asNum? with
      | none => rfl
      | some count => simp only [Option.map_some, toInt_abs, hostE, strRepeat]; leaf

theorem stringSlice_ref (v : List HVal) : absB (stringSliceH v) = stringSliceA (v.map absV) := by
  unfold stringSliceH stringSliceA
  rw [list3_map]
  cases list3 v with
  | none => rfl
  | some p =>
    obtain ⟨a, st, e⟩ := p
    simp only [Option.map_some, req, bind, Except.bind, asStr_abs, asNum_abs, asOptNum_abs]
    cases a.asStr? with
    | none => rfl
    | some s =>
      cases st.asNum? with
      | none => rfl
      | some start =>
        cases e.asOptNum? with
        | none => rfl
        | some e' =>
          simp only [Option.map_some, gtLen_abs, toInt_abs, getD_abs, hostE, listSlice]
          by_cases h : gtLenA start.abs s.length = true
          · simp only [h]; leaf
          · by_cases h2 : gtLenA (e'.getD (PyNum.int s.length)).abs s.length = true
            · simp only [h, h2]; leaf
            · simp only [h, h2]; leaf

theorem numberParseInt_ref (v : List HVal) : absB (numberParseIntH v) = numberParseIntA (v.map absV) := by
  unfold numberParseIntH numberParseIntA
  rw [list2_map]
  cases list2 v with
  | none => rfl
  | some p =>
    obtain ⟨a, r⟩ := p
    simp only [Option.map_some, req, bind, Except.bind, asStr_abs, asNum_abs]
    cases a.asStr? with
    | none => rfl
    | some s =>
      cases r.asNum? with
      | none => rfl
      | some radix =>
        simp only [Option.map_some, toInt_abs, intRadix]
        by_cases h : 2 ≤ ratTrunc radix.abs ∧ ratTrunc radix.abs ≤ 36
        · simp only [h, and_self, if_true]
          cases parseIntText s (ratTrunc radix.abs).toNat <;> leaf
        · simp only [h, if_false]; leaf


theorem mapM_abs {α β α' β' : Type} (f : α → Except (Fail PyNum) β) (f' : α' → Except (Fail Rat) β') (ga : α → α') (gb : β → β')
    (h : ∀ a, absE gb (f a) = f' (ga a)) (l : List α) : absE (List.map gb) (l.mapM f) = (l.map ga).mapM f' := by
  induction l with
  | nil => simp only [List.mapM_nil, List.map_nil]; leaf
  | cons a l ih =>
    simp only [List.mapM_cons, List.map_cons, bind, Except.bind, ← h, ← ih]
    cases f a with
    | error e => leaf
    | ok b => cases List.mapM f l <;> leaf

theorem charCodeOk_ref (c : HVal) : absE PyNum.abs (charCodeOkH c) = charCodeOkA (absV c) := by
  cases c with
  | num x =>
    simp only [charCodeOkH, charCodeOkA, absV_num, pyEq_abs, toInt_abs, pyLtI_abs, abs_int]
    by_cases hc : (!((ratTrunc x.abs : Int) : Rat) == x.abs || decide (x.abs < ((0 : Int) : Rat))) = true
    · simp only [hc]; leaf
    · simp only [hc]; leaf
  | _ => simp only [charCodeOkH, charCodeOkA, absV_null, absV_bool, absV_str, absV_arr, absV_obj, absV_opaque] <;> leaf

theorem pyChr_ref (x : PyNum) : absE (fun (c : Char) => c) (hostE (pyChr (.int (toInt x)))) = chrA (ratTrunc x.abs) := by
  simp only [pyChr, chrA, toInt_abs]
  by_cases hc : 0 ≤ ratTrunc x.abs ∧ ratTrunc x.abs < 0x110000 ∧ ¬ (0xd800 ≤ ratTrunc x.abs ∧ ratTrunc x.abs < 0xe000)
  · simp only [hc, hostE]; leaf
  · simp only [hc, if_false, hostE]; leaf

theorem stringFromCharCode_ref (v : List HVal) : absB (stringFromCharCodeH v) = stringFromCharCodeA (v.map absV) := by
  unfold stringFromCharCodeH stringFromCharCodeA
  have h1 := mapM_abs charCodeOkH charCodeOkA absV PyNum.abs charCodeOk_ref v
  simp only [bind, Except.bind, ← h1]
  cases List.mapM charCodeOkH v with
  | error e => leaf
  | ok nums =>
    have h2 := mapM_abs (fun x => hostE (pyChr (.int (toInt x)))) (fun x => chrA (ratTrunc x)) PyNum.abs (fun (c : Char) => c) pyChr_ref nums
    simp only [List.map_id_fun'] at h2
    simp only [absE, ← h2]
    cases List.mapM (fun x => hostE (pyChr (.int (toInt x)))) nums <;> leaf

/-! dataTop -/

theorem rowGet_ref (row field : HVal) : absE absV (rowGet row field) = rowGet (absV row) (absV field) := by
  cases row with
  | obj kvs =>
    cases field with
    | str k =>
      simp only [rowGet, absV_obj, absV_str, List.find?_map, Function.comp_def]
      cases kvs.find? (fun x => x.1 == k) <;> leaf
    | _ => simp only [rowGet, absV_obj, absV_null, absV_bool, absV_num, absV_arr, absV_opaque] <;> leaf
  | _ => simp only [rowGet, absV_null, absV_bool, absV_num, absV_str, absV_arr, absV_opaque] <;> leaf

def absP (p : HVal × HVal) : AVal × AVal := (absV p.1, absV p.2)

theorem rowKey_ref (fields : List HVal) (r : HVal) : absE absP (rowKey fields r) = rowKey (fields.map absV) (absV r) := by
  have h := mapM_abs (rowGet r) (rowGet (absV r)) absV absV (rowGet_ref r) fields
  simp only [rowKey, bind, Except.bind, ← h]
  cases List.mapM (rowGet r) fields <;> simp [absE, absFail, absP, pure, Except.pure]

theorem categoryKeys_ref (rows : List HVal) (cf : HVal) :
    absE (List.map absP) (categoryKeys rows cf) = categoryKeys (rows.map absV) (absV cf) := by
  cases cf with
  | null => simp [categoryKeys, absE, absP, pure, Except.pure, Function.comp_def]
  | arr fields =>
    simp only [categoryKeys, absV_arr]
    exact mapM_abs (rowKey fields) (rowKey (fields.map absV)) absV absP (rowKey_ref fields) rows
  | _ => simp only [categoryKeys, absV_bool, absV_num, absV_str, absV_obj, absV_opaque] <;> leaf

theorem firstSeen_ref (acc ks : List HVal) :
    (firstSeen pyEq acc ks).map absV = firstSeen ratEq (acc.map absV) (ks.map absV) := by
  induction ks generalizing acc with
  | nil => simp [firstSeen]
  | cons k ks ih =>
    simp only [firstSeen, List.map_cons, List.any_map, Function.comp_def, ← keyEq_abs]
    split
    · exact ih acc
    · have := ih (acc ++ [k]); simpa using this

theorem topRows_ref (n : Nat) (keyed : List (HVal × HVal)) :
    (topRows pyEq n keyed).map absV = topRows ratEq n (keyed.map absP) := by
  have hf := firstSeen_ref [] (keyed.map (·.1))
  simp only [List.map_nil, List.map_map] at hf
  simp only [topRows, List.map_flatMap, List.map_map]
  have hc : ((fun (x : AVal × AVal) => x.fst) ∘ absP) = (absV ∘ fun (x : HVal × HVal) => x.fst) := rfl
  rw [hc, ← hf, List.flatMap_map]
  congr 1
  funext c
  simp only [List.filter_map, Function.comp_def, absP, ← keyEq_abs, List.map_take, List.map_map]

theorem dataTop_ref (v : List HVal) : absB (dataTopH v) = dataTopA (v.map absV) := by
  unfold dataTopH dataTopA
  rw [list3_map]
  cases list3 v with
  | none => rfl
  | some p =>
    obtain ⟨a, c, cf⟩ := p
    simp only [Option.map_some, req, bind, Except.bind, asArr_abs, asNum_abs]
    cases a.asArr? with
    | none => rfl
    | some rows =>
      cases c.asNum? with
      | none => rfl
      | some count =>
        simp only [Option.map_some, toInt_abs, hostE, rangeLen, ← categoryKeys_ref]
        cases categoryKeys rows cf with
        | error e => leaf
        | ok keyed => simp [absE, absBodyR, pure, Except.pure, topRows_ref]


/-! ### the wrapped calls -/

/-- every modelled function body — written with Python-typed partial primitives and `int()` exactly where library.py has it —
    refines its one-number-type version: same value, same failure (class and failure value), same new contents of a mutated array. -/
theorem body_refines (name : String) (v : List HVal) : absB (bodyH name v) = bodyA name (v.map absV) := by
  unfold bodyH bodyA
  split <;> first
    | exact arrayDelete_ref v | exact arrayGet_ref v | exact arraySet_ref v | exact arraySlice_ref v
    | exact arrayNewSize_ref v | exact arrayIndexOf_ref v | exact arrayLastIndexOf_ref v | exact stringCharCodeAt_ref v
    | exact stringFromCharCode_ref v | exact stringIndexOf_ref v | exact stringLastIndexOf_ref v | exact stringRepeat_ref v
    | exact stringSlice_ref v | exact numberParseInt_ref v | exact dataTop_ref v | rfl

theorem wrap_abs (args : List HVal) (b : Except (Fail PyNum) (BodyR PyNum)) :
    absOut (wrap args b) = wrap (args.map absV) (absB b) := by
  cases b with
  | error e => cases e <;> simp [wrap, absOut, absE, absFail]
  | ok p =>
    obtain ⟨r, o⟩ := p
    cases o <;> simp [wrap, absOut, absE, absBodyR, List.map_set]

/-- **T `libH_refines_lib`**: for every modelled library function (any name: unmodelled names are the trivially failing body on
    both sides) and ALL argument lists, the wrapped host-level call, with spellings forgotten afterwards, equals the
    one-number-type call on the abstracted arguments: the value of the call expression (including the failure values null / -1
    produced by the call wrapper for `ValueArgsError` and for swallowed host exceptions) and the post-call contents of the
    argument objects. -/
theorem libH_refines_lib (name : String) (args : List HVal) :
    absOut (callH name args) = callA name (args.map absV) := by
  unfold callH callA callWith
  cases (modelName name).map argModel with
  | none => simp only [wrap_abs, body_refines]
  | some ms =>
    simp only [← validate_refines]
    cases validateH ms args with
    | none => by_cases h : failInt name = true <;> simp [h, absOut, ofI]
    | some vargs => simp only [Option.map_some, wrap_abs, body_refines]


/-- **T `spelling_irrelevant`**: two argument lists that are equal up to the int/float spelling of their numbers (at every depth)
    give the same result and the same post-call arguments, up to spelling. In particular a script literal (always a float) works
    wherever an index, count, size, radix or char code is expected exactly like the int. -/
theorem spelling_irrelevant (name : String) (args args' : List HVal) (h : args.map absV = args'.map absV) :
    absOut (callH name args) = absOut (callH name args') := by
  rw [libH_refines_lib, libH_refines_lib, h]

/-- **T `validate_spelling_irrelevant`**: `value_args_validate` accepts / rejects / normalises two equal-valued argument lists alike. -/
theorem validate_spelling_irrelevant (ms : List Gen.ArgModel) (args args' : List HVal) (h : args.map absV = args'.map absV) :
    (validateH ms args).map (List.map absV) = (validateH ms args').map (List.map absV) := by
  rw [validate_refines, validate_refines, h]

/-- the number checks of value.py:303-322 taken alone: the type test `number`, `integer` (`int(x) != x`), `lt`/`lte`/`gt`/`gte`
    agree on `x` and `y` whenever they denote the same number. -/
theorem numcheck_spelling_irrelevant (m : Gen.ArgModel) (x y : PyNum) (h : x.abs = y.abs) :
    numOkH m x = numOkH m y ∧ typeOk "number" (Val.num x) = typeOk "number" (Val.num y) := by
  simp [numOkH_abs, h, typeOk, typeName]

/-- the theorem is not vacuous and not trivially true: the pre-fix body of arraySet (`array[index] = value`, finding F1) does NOT
    refine the one-number-type function — the witness is the float index 0.0. -/
theorem unfixed_arraySet_not_refines : ∃ v : List HVal, absB (arraySetUnfixedH v) ≠ arraySetA (v.map absV) := by
  refine ⟨[.arr [.num (.int 1)], .num (.float 0), .null], ?_⟩
  have h01 : (0 : Rat) < 1 := by decide
  simp [h01, absB, arraySetUnfixedH, arraySetA, list3, req, Val.asArr?, Val.asNum?, bind, Except.bind, geLen, pyLtI, geLenA, hostE, listSet,
    absE, absFail, atIndexA, normIndex, ratTrunc, pure, Except.pure]

/-- `value_round_number` (mathRound, numberToFixed, datetime millisecond rounding) with IEEE rounding as an abstract function:
    for an integral digit count `k ≥ 0` in either spelling the host computation equals the one-number-type one **provided
    `10^k` is a double** (`h_pow`, true exactly for k ≤ 22 — for k ≥ 23 the int spelling keeps the exact `10^k` while the float
    spelling has the rounded one: finding F15), rounding is idempotent, the truncation of a double is a double, and the value
    is a double (always true of a float; of an int when |n| < 2^53). -/
theorem roundNumber_refines (rnd : Rat → Rat) (value : PyNum) (k : Int) (digits : PyNum)
    (hk : 0 ≤ k) (hd : digits = .int k ∨ digits = .float (k : Rat))
    (h_idem : ∀ q, rnd (rnd q) = rnd q)
    (h_trunc : ∀ q, rnd ((ratTrunc (rnd q) : Int) : Rat) = ((ratTrunc (rnd q) : Int) : Rat))
    (h_pow : rnd ((10 : Rat) ^ k.toNat) = (10 : Rat) ^ k.toNat)
    (h_val : rnd value.abs = value.abs) :
    roundNumberH rnd value digits = roundNumberA rnd value.abs digits.abs := by
  rcases hd with rfl | rfl
  · cases value with
    | int n => simp [roundNumberH, roundNumberA, pow10H, hk, mulH, addHalfH, divH, ratTrunc_intCast, Rat.intCast_mul]
    | float q =>
      simp only [abs_float] at h_val
      simp [roundNumberH, roundNumberA, pow10H, hk, mulH, addHalfH, divH, ratTrunc_intCast, h_val, h_pow, h_idem]
  · cases value with
    | int n =>
      simp only [abs_int] at h_val
      simp [roundNumberH, roundNumberA, pow10H, hk, mulH, addHalfH, divH, ratTrunc_intCast, h_val, h_pow, h_idem, h_trunc]
    | float q =>
      simp only [abs_float] at h_val
      simp [roundNumberH, roundNumberA, pow10H, hk, mulH, addHalfH, divH, ratTrunc_intCast, h_val, h_pow, h_idem, h_trunc]

/-- the operator `*` as fixed (F24: `float(left) * right`): the product depends only on the values. -/
theorem opMul_refines (rnd : Rat → Rat) (a b : PyNum) (ha : IsDouble rnd a) (hb : IsDouble rnd b) :
    opMulH rnd a b = opMulA rnd a.abs b.abs := by
  cases a <;> cases b <;> simp_all [opMulH, opMulA, toFloatH, IsDouble]

/-- the operator `**` as fixed (F24: `float(left) ** right`) over an abstract double power function. -/
theorem opPow_refines (pw : Rat → Rat → Option Rat) (rnd : Rat → Rat) (a b : PyNum) (ha : IsDouble rnd a) (hb : IsDouble rnd b) :
    opPowH pw rnd a b = opPowA pw rnd a.abs b.abs := by
  cases a <;> cases b <;> simp_all [opPowH, opPowA, toFloatH, IsDouble]

/-- the pre-fix `*` (int * int exact, finding F24) does not refine the one-number-type product: with a rounding function that
    moves 6 (standing for an integer above 2^53) the int spelling keeps 6, the one-number-type product is the rounded 8. -/
theorem opMulUnfixed_not_refines : ∃ (rnd : Rat → Rat) (a b : Int), (∀ q, rnd (rnd q) = rnd q) ∧
    opMulUnfixedH rnd (.int a) (.int b) ≠ opMulA rnd a b := by
  refine ⟨fun q => if q = 6 then 8 else q, 2, 3, ?_, ?_⟩
  · intro q
    by_cases h : q = 6
    · simp only [h, if_true]; decide +kernel
    · simp [h]
  · simp only [opMulUnfixedH, opMulA]; decide +kernel

/-! ### non-vacuity: concrete instances -/

/-- arraySet with a float index succeeds and updates the array (the F1 witness, now fine) -/
example : (match (callH "arraySet" [.arr [.num (.int 1), .num (.int 2)], .num (.float 1), .str "x"]) with
    | ⟨.str "x", [.arr [.num (.int 1), .str "x"], _, _]⟩ => true
    | _ => false) = true := by rfl

/-- dataTop with a float count (the F2 witness) -/
example : (match (callH "dataTop" [.arr [.obj [("a", .num (.int 1))], .obj [("a", .num (.int 2))]], .num (.float 1)]) with
    | ⟨.arr [.obj _], _⟩ => true
    | _ => false) = true := by rfl

/-- a non-integral index is rejected by validation in both layers (failure value null) -/
example : (match (callH "arrayGet" [.arr [.num (.int 1)], .num (.float (1 / 2))]) with
    | ⟨.null, _⟩ => true
    | _ => false) = true := by decide +kernel

/-- the hypotheses of `spelling_irrelevant` are inhabited by a non-trivial pair (numbers at depth 2, both spellings) -/
example : List.map absV [Val.arr [.num (.int 1), .arr [.num (.float 2)]], .num (.float 0)]
    = List.map absV [Val.arr [.num (.float 1), .arr [.num (.int 2)]], .num (.int 0)] := by
  simp [abs_int, abs_float]

/-- the hypotheses of `roundNumber_refines` are inhabited: the identity rounding (exact arithmetic), k = 2 -/
example : roundNumberH id (.float (5 / 4)) (.float 2) = roundNumberA id (5 / 4) 2 :=
  roundNumber_refines id (.float (5 / 4)) 2 (.float 2) (by decide) (Or.inr rfl) (fun _ => rfl) (fun _ => rfl) rfl rfl

end C12
