import BareProofs.C07Lemmas
import BareProofs.C18
import BareProofs.C01Parse

/-!
# C07 — lowered code is well formed: schema-valid with intact, unique jump targets

All theorems are about the recursive *spec* lowering `Lower.lowerS / lowerB / lowerElse` / `Lower.lowerProgram`
(BareModel/Lower.lean), for **all** structured programs (`SStmt`, unbounded nesting depth, any number of functions), all
values `i` of the script-wide label counter and all enclosing-loop label pairs `lp`.  The line-at-a-time mirror
`Lower.parseLines ∘ renderB` equals the spec lowering by `C01.parseLines_render` (T1 of C01) — `parsed_well_formed` at the end of
this file transfers everything to what the parser returns — and both are tied to `parse_script` by the correspondence streams of
`harness/props/C07.py` (`spec` and `mirror` of the driver op "lower").

Vocabulary (definitions in `C07Lemmas.lean`):
* a **scope** of a statement list `P` is `P` itself or, recursively, the body of a `function` statement (`scopes P`);
  `labelsOf sc` / `jumpsOf sc` are the labels defined / the jump targets at the top level of one scope — what
  `Machine.findLabel` and lint look at;
* `sscopes B` are the structured scopes (the program and every function body); `ulB b` / `ujB b` the labels / jump targets the
  *user* wrote (raw `label:` / `jump` / `jumpif` lines) at the level of the structured scope `b`;
* `InR l i j` : `l = gen k n` with `i ≤ n < j`; `LpJ lp uc t` : `t` is the break target of the enclosing loop, or its continue
  target and a `continue` binds to it (`uc`);
* `NoReserved B` (decidable): no raw `label` / `jump` of `B` uses a `Name.gen _ _` — user identifiers never carry the reserved
  `__bareScript` prefix; `WellNested B` (decidable): `break`/`continue` only inside a loop of the same function, no function
  definition inside a function body (what `parse_script` accepts).

**`WellNested` is not needed by any theorem about the spec lowering**: `lowerS none .brk` emits no statement at all, and a
nested `function` is lowered with `lp = none` like any other, so nothing can escape a scope.  `WellNested` is the hypothesis of
`C01.parseLines_render` (the parser *rejects* the other programs, `C01.parse_rejects_ill_nested`); it is defined here, shown
inhabited and equivalent to C01's (`wellNested_iff`), and is a *conclusion* of `parsed_well_formed`.

**Schema validity (remark).**  The model's `Stmt` / `Expr` types *are* the published schema (`model.py` BARE_SCRIPT_TYPES): one
constructor per union member, one field per struct member, `BinOp`/`UnOp` one constructor per enum value — every `List Stmt`
is schema-shaped by typing.  The schema has exactly two constraints that the types do not express: `optional string[len > 0]
args` (the JSON boundary omits `args` when the list is empty, so the constraint cannot be violated by a `List Name`) and
`IncludeScript[len > 0] includes`, proved below (`lower_include_nonempty`, `parseLines_include_nonempty`).  The real
`validate_script` is run on every parsed model by the `shapes` and `random` streams.
-/

namespace C07

open Lower

/-! ## the counter -/

/-- **counter_eq.**  The counter the lowering returns is `cntS/cntB/cntE` (it does not depend on `lp`, on the labels of an
enclosing `if`, or on the emitted code): one per `if` / `elif` / `while` / `for`, script-wide (a function body continues the
count of the enclosing list). -/
theorem counter_eq (lp : Option (Name × Name)) (cur done : Name) :
    (∀ s i, (lowerS lp s i).2 = cntS s i) ∧ (∀ B i, (lowerB lp B i).2 = cntB B i) ∧
      (∀ e i, (lowerElse lp cur done e i).2 = cntE e i) :=
  ⟨lowerS_snd lp, lowerB_snd lp, lowerElse_snd lp cur done⟩

/-- **counter_mono.**  The counter never decreases. -/
theorem counter_mono : (∀ s i, i ≤ cntS s i) ∧ (∀ B i, i ≤ cntB B i) ∧ (∀ e i, i ≤ cntE e i) :=
  ⟨cntS_mono, cntB_mono, cntE_mono⟩

/-! ## non-vacuity: a depth-4 program (function ⊃ if/elif ⊃ while ⊃ for) with break and continue, and a second function -/

private def x : Expr := .variable (.user "x")

/-- ```
function f(a):
    if x:
        y = x
    elif x:
        while x:
            for v, i in x:
                if x:
                    continue
                else:
                    break
                endif
            endfor
            if x:
                break
            endif
            continue
        endwhile
    else:
        return x
    endif
endfunction
function g():
    for w in x:
        continue
    endfor
endfunction
while x:
    f(x)
endwhile
``` -/
def demo : List SStmt :=
  [ .func 0 (.user "f") [.user "a"] false false
      [ .ite x [.expr (some (.user "y")) x]
          (.elif x
            [ .while x
                [ .for (.user "v") (some (.user "i")) x
                    [ .ite x [.cont] (.els [.brk]) ],
                  .ite x [.brk] .none,
                  .cont ] ]
            (.els [.ret (some x)])) ],
    .func 1 (.user "g") [] false false [ .for (.user "w") none x [.cont] ],
    .while x [ .expr none (.function (.user "f") [x]) ] ]

/-- the same with raw labels and jumps, all resolved, unique and used, in two scopes -/
def demoRaw : List SStmt :=
  [ .func 0 (.user "f") [] false false [ .label (.user "top"), .while x [ .jump (.user "top") (some x) ] ],
    .label (.user "top"), .ite x [ .jump (.user "top") none ] .none ]

example : NoReserved demo ∧ WellNested demo := by decide
example : NoReserved demoRaw ∧ WellNested demoRaw := by decide
example : cntB demo 0 = 8 := by decide
example : (scopes (lowerProgram demo)).length = 3 := by decide
example : (scopes (lowerProgram demo)).map (fun sc => (labelsOf sc).length) = [2, 11, 3] := by decide

/-! ## labels and jumps are in range -/

/-- a scope of lowered code is the code itself or the lowering, with no enclosing loop, of a function body -/
theorem scopes_lowerB {lp B i sc} (h : sc ∈ scopes (lowerB lp B i).1) :
    sc = (lowerB lp B i).1 ∨ IsLowered (fbB B) i (cntB B i) sc := by
  simp only [scopes, List.mem_cons] at h
  exact h.imp id (scB lp B i sc)

/-- **lower_labels_range.**  Every label *defined* in any scope of `(lowerB lp B i).1` is either a label the user wrote in the
corresponding structured scope `b` (the block itself or a function body) or a generated name `gen k n` with
`i ≤ n < cntB B i`.  (No hypothesis.) -/
theorem lower_labels_range (lp : Option (Name × Name)) (B : List SStmt) (i : Nat) :
    ∀ sc ∈ scopes (lowerB lp B i).1, ∃ b ∈ sscopes B, ∀ l ∈ labelsOf sc, l ∈ ulB b ∨ InR l i (cntB B i) := by
  intro sc hsc
  rcases scopes_lowerB hsc with rfl | ⟨b, k, hb, rfl, h1, h2⟩
  · exact ⟨B, by simp [sscopes], fun l hl => labB lp B i l (mem_labelsOf.1 hl)⟩
  · refine ⟨b, by simp [sscopes, hb], fun l hl => ?_⟩
    exact (labB none b k l (mem_labelsOf.1 hl)).imp id (fun h => h.mono h1 h2)

/-- **lower_jumps_range.**  Under `NoReserved`, every *generated* jump target of any scope of `(lowerB lp B i).1` is `gen k n`
with `i ≤ n < cntB B i` — except, in the outermost scope only, the break/continue targets that the enclosing loop `lp`
supplies. -/
theorem lower_jumps_range (lp : Option (Name × Name)) (B : List SStmt) (i : Nat) (hn : NoReserved B) :
    ∀ sc ∈ scopes (lowerB lp B i).1, ∀ t ∈ jumpsOf sc, isGen t = true →
      (sc = (lowerB lp B i).1 ∧ LpJ lp (usesContB B) t) ∨ InR t i (cntB B i) := by
  intro sc hsc t ht hg
  obtain ⟨c, hc⟩ := mem_jumpsOf.1 ht
  rcases scopes_lowerB hsc with rfl | ⟨b, k, hb, rfl, h1, h2⟩
  · rcases jmpB lp B i t c hc with h | h | h
    · have := ujB_user B hn t h; simp [this] at hg
    · exact Or.inl ⟨rfl, h⟩
    · rcases labB lp B i t h with h | h
      · have := ulB_user B hn t h; simp [this] at hg
      · exact Or.inr h
  · have hnb : noResB b = true := noResB_fb B hn b hb
    rcases jmpB none b k t c hc with h | h | h
    · have := ujB_user b hnb t h; simp [this] at hg
    · exact absurd h LpJ.none
    · rcases labB none b k t h with h | h
      · have := ulB_user b hnb t h; simp [this] at hg
      · exact Or.inr (h.mono h1 h2)

/-! ## each generated label is defined exactly once per scope -/

/-- **lower_labels_nodup.**  Under `NoReserved`, in each scope of the lowered code the generated labels are pairwise distinct:
every one is defined exactly once.  (Siblings get disjoint counter ranges; the labels one construct emits itself have distinct
kinds: `If i` only when an `else`/`elif` follows, `Continue i` only when a `continue` binds to the `for`, `Loop i`/`Done i`
always.) -/
theorem lower_labels_nodup (lp : Option (Name × Name)) (B : List SStmt) (i : Nat) (hn : NoReserved B) :
    ∀ sc ∈ scopes (lowerB lp B i).1, ((labelsOf sc).filter isGen).Nodup := by
  intro sc hsc
  rcases scopes_lowerB hsc with rfl | ⟨b, k, hb, rfl, -, -⟩
  · exact ndB lp B i hn
  · exact ndB none b k (noResB_fb B hn b hb)

/-- … and if moreover the user's own labels are pairwise distinct in each structured scope, *all* labels of each scope are. -/
theorem lower_all_labels_nodup (B : List SStmt) (hn : NoReserved B) (hu : ∀ b ∈ sscopes B, (ulB b).Nodup) :
    ∀ sc ∈ scopes (lowerProgram B), (labelsOf sc).Nodup := by
  intro sc hsc
  obtain ⟨b, k, hb, rfl, -, -⟩ := scopes_lowerProgram B sc hsc
  exact labels_nodup b k (hn.sscopes b hb) (hu b hb)

example : ∀ sc ∈ scopes (lowerProgram demo), ((labelsOf sc).filter isGen).Nodup :=
  lower_labels_nodup none demo 0 (by decide)

/-! ## every generated jump is resolved in its own scope -/

/-- **lower_jumps_resolved** (general form).  In each scope of `(lowerB lp B i).1`, every jump targets a raw jump target of the
user, a label supplied by the enclosing loop `lp` (outermost scope only), or a label defined **in the same scope**.
(No hypothesis: the body of a function is lowered with `lp = none`, so nothing escapes.) -/
theorem lower_jumps_resolved_gen (lp : Option (Name × Name)) (B : List SStmt) (i : Nat) :
    ∀ sc ∈ scopes (lowerB lp B i).1, ∃ b ∈ sscopes B, ∀ t ∈ jumpsOf sc,
      t ∈ ujB b ∨ (sc = (lowerB lp B i).1 ∧ LpJ lp (usesContB B) t) ∨ t ∈ labelsOf sc := by
  intro sc hsc
  rcases scopes_lowerB hsc with rfl | ⟨b, k, hb, rfl, -, -⟩
  · refine ⟨B, by simp [sscopes], fun t ht => ?_⟩
    obtain ⟨c, hc⟩ := mem_jumpsOf.1 ht
    rcases jmpB lp B i t c hc with h | h | h
    · exact Or.inl h
    · exact Or.inr (Or.inl ⟨rfl, h⟩)
    · exact Or.inr (Or.inr (mem_labelsOf.2 h))
  · refine ⟨b, by simp [sscopes, hb], fun t ht => ?_⟩
    obtain ⟨c, hc⟩ := mem_jumpsOf.1 ht
    rcases jmpB none b k t c hc with h | h | h
    · exact Or.inl h
    · exact absurd h LpJ.none
    · exact Or.inr (Or.inr (mem_labelsOf.2 h))

/-- **lower_jumps_resolved.**  For a whole program under `NoReserved`: in each scope, every jump to a *generated* label targets
a label defined in the **same** scope, and the interpreter's label search `findLabel` succeeds on it. -/
theorem lower_jumps_resolved (B : List SStmt) (hn : NoReserved B) :
    ∀ sc ∈ scopes (lowerProgram B), ∀ t ∈ jumpsOf sc, isGen t = true →
      t ∈ labelsOf sc ∧ Machine.findLabel sc t ≠ none := by
  intro sc hsc t ht hg
  obtain ⟨b, hb, h⟩ := lower_jumps_resolved_gen none B 0 sc hsc
  have hm : t ∈ labelsOf sc := by
    rcases h t ht with h | ⟨-, h⟩ | h
    · have := ujB_user b (hn.sscopes b hb) t h; simp [this] at hg
    · exact absurd h LpJ.none
    · exact h
  obtain ⟨n, hf⟩ := findLabel_of_mem (mem_labelsOf.1 hm)
  exact ⟨hm, by simp [hf]⟩

example : ∀ sc ∈ scopes (lowerProgram demo), ∀ t ∈ jumpsOf sc, isGen t = true →
    t ∈ labelsOf sc ∧ Machine.findLabel sc t ≠ none :=
  lower_jumps_resolved demo (by decide)

/-! ## every generated label is the target of a jump of its own scope -/

/-- **lower_labels_targeted.**  In each scope of `(lowerB lp B i).1`, every label is a label the user wrote or the target of at
least one jump **of the same scope** (`If`: the conditional jump of its branch; `Done` of an `if`: the re-targeted conditional
jump or a `jump Done`; `Loop`/`Done` of `while`/`for`: footer and header jumps; `Continue`: emitted exactly when a `continue`
binds to that `for` — `usesContB`).  (No hypothesis.) -/
theorem lower_labels_targeted_gen (lp : Option (Name × Name)) (B : List SStmt) (i : Nat) :
    ∀ sc ∈ scopes (lowerB lp B i).1, ∃ b ∈ sscopes B, ∀ l ∈ labelsOf sc, l ∈ ulB b ∨ l ∈ jumpsOf sc := by
  intro sc hsc
  rcases scopes_lowerB hsc with rfl | ⟨b, k, hb, rfl, -, -⟩
  · exact ⟨B, by simp [sscopes], fun l hl => (tgtB lp B i l (mem_labelsOf.1 hl)).imp id (fun h => mem_jumpsOf.2 h)⟩
  · exact ⟨b, by simp [sscopes, hb], fun l hl => (tgtB none b k l (mem_labelsOf.1 hl)).imp id (fun h => mem_jumpsOf.2 h)⟩

/-- **lower_labels_targeted.**  Under `NoReserved`, every *generated* label defined in a scope is the target of at least one
jump of that scope. -/
theorem lower_labels_targeted (lp : Option (Name × Name)) (B : List SStmt) (i : Nat) (hn : NoReserved B) :
    ∀ sc ∈ scopes (lowerB lp B i).1, ∀ l ∈ labelsOf sc, isGen l = true → l ∈ jumpsOf sc := by
  intro sc hsc l hl hg
  obtain ⟨b, hb, h⟩ := lower_labels_targeted_gen lp B i sc hsc
  rcases h l hl with h | h
  · have := ulB_user b (hn.sscopes b hb) l h; simp [this] at hg
  · exact h

/-- the `Continue` label of a `for` exists exactly when a `continue` binds to that loop -/
theorem for_continue_label_iff (lp v ix vals) (b : List SStmt) (i : Nat) (hn : noResB b = true) :
    lCont i ∈ labelsOf (lowerS lp (.for v ix vals b) i).1 ↔ usesContB b = true := by
  rw [mem_labelsOf, lowerS_for]
  simp only [List.mem_append, forHeader_label, forFooter_label]
  constructor
  · rintro (h | h | ⟨-, h⟩ | h)
    · simp [lCont, lLoop] at h
    · rcases labB _ b (i+1) _ h with h | h
      · have := ulB_user b hn _ h; simp [lCont, isGen] at this
      · simp [lCont] at h; omega
    · exact h
    · simp [lCont, lDone] at h
  · intro h; exact Or.inr (Or.inr (Or.inl (by simpa using h)))

/-! ## consequences: no "Unknown jump label", no label lint warning -/

/-- the user's raw jumps are resolved and the user's raw labels are unique and used, in the structured scope `b` -/
def RawOK (b : List SStmt) : Prop :=
  (ulB b).Nodup ∧ (∀ l ∈ ulB b, l ∈ ujB b) ∧ (∀ t ∈ ujB b, t ∈ ulB b)

instance (b : List SStmt) : Decidable (RawOK b) := by unfold RawOK; infer_instance

/-- … in every structured scope of the program (trivially true for a program without raw `label`/`jump` lines) -/
def UserLabelsOK (B : List SStmt) : Prop := ∀ b ∈ sscopes B, RawOK b

instance (B : List SStmt) : Decidable (UserLabelsOK B) := by unfold UserLabelsOK; infer_instance

/-- the user's raw jumps are resolved in their own structured scope -/
def UserJumpsResolved (B : List SStmt) : Prop := ∀ b ∈ sscopes B, ∀ t ∈ ujB b, t ∈ ulB b

instance (B : List SStmt) : Decidable (UserJumpsResolved B) := by unfold UserJumpsResolved; infer_instance

/-- no raw `label` / `jump` / `jumpif` line at all: purely structured code -/
def NoRaw (B : List SStmt) : Prop := noRawB B = true

instance (B : List SStmt) : Decidable (NoRaw B) := by unfold NoRaw; infer_instance

theorem NoRaw.noReserved {B} (h : NoRaw B) : NoReserved B := (noRawB_spec B h).2.2.1

theorem NoRaw.userLabelsOK {B} (h : NoRaw B) : UserLabelsOK B := by
  intro b hb
  have hb' : noRawB b = true := by
    simp only [sscopes, List.mem_cons] at hb
    rcases hb with rfl | hb
    · exact h
    · exact (noRawB_spec B h).2.2.2 b hb
  obtain ⟨h1, h2, -, -⟩ := noRawB_spec b hb'
  simp [RawOK, h1, h2]

theorem UserLabelsOK.jumps {B} (h : UserLabelsOK B) : UserJumpsResolved B := fun b hb => (h b hb).2.2

example : NoRaw demo := by decide
example : ¬ NoRaw demoRaw ∧ UserLabelsOK demoRaw := by decide

/-- **no_unknown_label_error.**  If `B` does not use the reserved prefix and the raw jumps the user wrote are resolved in their
own scope (in particular: if `B` has no raw jump), then for **every** jump statement of **every** scope of the lowered
program the interpreter's label search succeeds: `findLabel scope target = some _` (and so does the cached search
`jumpTarget` from the empty cache each invocation starts with).  The machine yields `.err (.unknownLabel l)` only where
`jumpTarget` returns `none` (`Machine.execM`), i.e. only if `findLabel` failed (C08 `unknown_label_iff`) — so executing
parsed structured code can never raise "Unknown jump label". -/
theorem no_unknown_label_error (B : List SStmt) (hn : NoReserved B) (hu : UserJumpsResolved B) :
    ∀ sc ∈ scopes (lowerProgram B), ∀ t ∈ jumpsOf sc,
      (∃ n, Machine.findLabel sc t = some n) ∧ Machine.jumpTarget sc [] t ≠ none := by
  intro sc hsc t ht
  obtain ⟨b, k, hb, rfl, -, -⟩ := scopes_lowerProgram B sc hsc
  have hnb := hn.sscopes b hb
  obtain ⟨c, hc⟩ := mem_jumpsOf.1 ht
  have hm : Stmt.label t ∈ (lowerB none b k).1 := by
    rcases jmpB none b k t c hc with h | h | h
    · exact ulInB none b k hnb t (hu b hb t h)      -- a raw jump of the user: its label is in the same scope
    · exact absurd h LpJ.none
    · exact h
  obtain ⟨n, hf⟩ := findLabel_of_mem hm
  exact ⟨⟨n, hf⟩, by simp [Machine.jumpTarget, Machine.Cache.get?, hf]⟩

/-- purely structured code (no raw `label`/`jump`): no hypothesis on names is left -/
theorem no_unknown_label_error_structured (B : List SStmt) (h : NoRaw B) :
    ∀ sc ∈ scopes (lowerProgram B), ∀ t ∈ jumpsOf sc, ∃ n, Machine.findLabel sc t = some n :=
  fun sc hsc t ht => (no_unknown_label_error B h.noReserved h.userLabelsOK.jumps sc hsc t ht).1

example : ∀ sc ∈ scopes (lowerProgram demo), ∀ t ∈ jumpsOf sc, ∃ n, Machine.findLabel sc t = some n :=
  no_unknown_label_error_structured demo (by decide)

example : ∀ sc ∈ scopes (lowerProgram demoRaw), ∀ t ∈ jumpsOf sc,
    (∃ n, Machine.findLabel sc t = some n) ∧ Machine.jumpTarget sc [] t ≠ none :=
  no_unknown_label_error demoRaw (by decide) (by decide)

/-! ### lint -/

/-- a scope is *label-clean*: labels pairwise distinct, every label the target of a jump of the scope, every jump of the
scope targets a label of the scope (spec predicates: no redefined / unused / unknown label) -/
def ScopeClean (ss : List Stmt) : Prop :=
  (labelsOf ss).Nodup ∧ (∀ l, Lint.DefinedIn ss l → Lint.JumpsTo ss l) ∧ (∀ l, Lint.JumpsTo ss l → Lint.DefinedIn ss l)

/-- **lower_scopes_clean.**  Under `NoReserved` and `UserLabelsOK` (e.g. no raw labels/jumps at all), every scope of the lowered
program is label-clean: no label is redefined, unused or unknown — as *sets*, independent of any lint implementation. -/
theorem lower_scopes_clean (B : List SStmt) (hn : NoReserved B) (hu : UserLabelsOK B) :
    ∀ sc ∈ scopes (lowerProgram B), ScopeClean sc := by
  intro sc hsc
  obtain ⟨b, k, hb, rfl, -, -⟩ := scopes_lowerProgram B sc hsc
  have hnb := hn.sscopes b hb
  obtain ⟨u1, u2, u3⟩ := hu b hb
  refine ⟨labels_nodup b k hnb u1, fun l hl => ?_, fun t ⟨c, hc⟩ => ?_⟩
  · rcases tgtB none b k l hl with h | h
    · exact ujInB none b k l (u2 l h)
    · exact h
  · rcases jmpB none b k t c hc with h | h | h
    · exact ulInB none b k hnb t (u3 t h)
    · exact absurd h LpJ.none
    · exact h

/-- the three label warnings of lint -/
def isLabelW : Lint.Warning → Bool
  | .redefLabel .. => true
  | .unusedLabel .. => true
  | .unknownLabel .. => true
  | _ => false

theorem take_no_label {l : Name} : ∀ (ss : List Stmt) (k : Nat), (labelsOf ss).Nodup → ss[k]? = some (.label l) →
    (ss.take k).any (Lint.isLabel l) = false
  | [], k, _, h => by simp at h
  | a :: r, 0, _, _ => by simp
  | a :: r, k+1, hnd, h => by
      simp only [List.getElem?_cons_succ] at h
      have hm : l ∈ labelsOf r := mem_labelsOf.2 (List.mem_of_getElem? h)
      have hr : (labelsOf r).Nodup := by cases a <;> simp_all [labelsOf]
      have ih := take_no_label r k hr h
      have ha : Lint.isLabel l a = false := by
        cases a <;> simp [Lint.isLabel]
        rename_i l'
        rintro rfl
        simp [labelsOf] at hnd
        exact hnd.1 hm
      simp [List.take_succ_cons, ha, ih]

theorem usedBeforeW_noLabel (sc skip a u) : ∀ w ∈ Lint.usedBeforeW sc skip a u, isLabelW w = false := by
  intro w hw
  simp only [Lint.usedBeforeW, List.mem_filterMap] at hw
  obtain ⟨v, -, hv⟩ := hw
  split at hv
  · cases hv
  · split at hv
    · cases hv; rfl
    · cases hv

theorem unusedVarW_noLabel (f a u) : ∀ w ∈ Lint.unusedVarW f a u, isLabelW w = false := by
  intro w hw
  simp only [Lint.unusedVarW, List.mem_filterMap] at hw
  obtain ⟨v, -, hv⟩ := hw
  split at hv
  · cases hv
  · cases hv; rfl

theorem argLoop_noLabel (f ix u) : ∀ (seen args : List Name), ∀ w ∈ Lint.argLoop f ix u seen args, isLabelW w = false
  | _, [], w, hw => by simp [Lint.argLoop] at hw
  | seen, a :: rest, w, hw => by
      simp only [Lint.argLoop] at hw
      split at hw
      · simp only [List.mem_cons] at hw
        rcases hw with rfl | hw
        · rfl
        · exact argLoop_noLabel f ix u seen rest w hw
      · simp only [List.mem_append] at hw
        rcases hw with hw | hw
        · split at hw
          · simp at hw
          · simp only [List.mem_singleton] at hw; subst hw; rfl
        · exact argLoop_noLabel f ix u (a :: seen) rest w hw

/-- the statement loop of a scope with pairwise distinct labels emits no label warning of its own -/
theorem loop_noLabel (sc : Lint.Scope) (onFn) (ss : List Stmt) (hnd : (labelsOf ss).Nodup)
    (hfn : ∀ ix a f args b c body, Stmt.function a f args b c body ∈ ss → ∀ w ∈ onFn ix f args body, isLabelW w = false) :
    ∀ w ∈ (Lint.scopeLoop sc onFn 0 ss {}).warnings, isLabelW w = false := by
  intro w hw
  obtain ⟨k, s, hk, hs⟩ := (C18.mem_loop_warnings ss).1 hw
  cases s with
  | function a f args b c body =>
    cases sc with
    | global =>
      simp only [C18.stmtW, List.mem_append] at hs
      rcases hs with hs | hs
      · split at hs
        · simp only [List.mem_singleton] at hs; subst hs; rfl
        · simp at hs
      · exact hfn k a f args b c body (List.mem_of_getElem? hk) w hs
    | fn g => simp [C18.stmtW] at hs
  | expr nm e =>
    simp only [C18.stmtW] at hs
    split at hs
    · simp only [List.mem_singleton] at hs; subst hs; rfl
    · simp at hs
  | label l =>
    simp only [C18.stmtW, take_no_label ss k hnd hk] at hs
    simp at hs
  | jump l c => simp [C18.stmtW] at hs
  | ret e => simp [C18.stmtW] at hs
  | «include» incs => simp [C18.stmtW] at hs

theorem unused_nil (sc : Lint.Scope) (ss : List Stmt) (h : ∀ l, Lint.DefinedIn ss l → Lint.JumpsTo ss l) :
    C18.unusedWarnings sc ss = [] := by
  simp only [C18.unusedWarnings, Lint.unusedLabelW, List.filterMap_eq_nil_iff]
  intro l hl
  rw [Lint.Dict.sortedKeys, C18.mem_sortNames, C18.scope_ldefs_mem] at hl
  have := (C18.has_iff _ l).2 ((C18.scope_lused_mem sc ss l).2 (h l hl))
  simp [this]

theorem unknown_nil (sc : Lint.Scope) (ss : List Stmt) (h : ∀ l, Lint.JumpsTo ss l → Lint.DefinedIn ss l) :
    C18.unknownWarnings sc ss = [] := by
  simp only [C18.unknownWarnings, Lint.unknownLabelW, List.filterMap_eq_nil_iff]
  intro l hl
  rw [Lint.Dict.sortedKeys, C18.mem_sortNames, C18.scope_lused_mem] at hl
  have := (C18.has_iff _ l).2 ((C18.scope_ldefs_mem sc ss l).2 (h l hl))
  simp [this]

/-- lint of a script all of whose linted scopes (the global list and the bodies of the top-level functions) are label-clean
contains none of the three label warnings -/
theorem lint_noLabel (P : List Stmt) (hP : ScopeClean P)
    (hF : ∀ a f args b c body, Stmt.function a f args b c body ∈ P → ScopeClean body) :
    ∀ w ∈ Lint.lint P, isLabelW w = false := by
  have hfun : ∀ ix a f args b c body, Stmt.function a f args b c body ∈ P →
      ∀ w ∈ Lint.lintFunction ix f args body, isLabelW w = false := by
    intro ix a f args b c body hm w hw
    obtain ⟨h1, h2, h3⟩ := hF a f args b c body hm
    simp only [Lint.lintFunction, List.mem_append] at hw
    rcases hw with ((((hw | hw) | hw) | hw) | hw) | hw
    · exact usedBeforeW_noLabel _ _ _ _ w hw
    · exact unusedVarW_noLabel _ _ _ w hw
    · exact argLoop_noLabel _ _ _ _ _ w hw
    · exact loop_noLabel (.fn f) Lint.noFn body h1 (fun _ _ _ _ _ _ _ _ w hw => by simp [Lint.noFn] at hw) w hw
    · have := unused_nil (.fn f) body h2
      simp only [C18.unusedWarnings, C18.scopeState] at this
      rw [this] at hw; simp at hw
    · have := unknown_nil (.fn f) body h3
      simp only [C18.unknownWarnings, C18.scopeState] at this
      rw [this] at hw; simp at hw
  intro w hw
  obtain ⟨h1, h2, h3⟩ := hP
  simp only [Lint.lint, List.mem_append] at hw
  rcases hw with (((hw | hw) | hw) | hw) | hw
  · split at hw
    · simp only [List.mem_singleton] at hw; subst hw; rfl
    · simp at hw
  · exact usedBeforeW_noLabel _ _ _ _ w hw
  · exact loop_noLabel .global Lint.lintFunction P h1 hfun w hw
  · have := unused_nil .global P h2
    simp only [C18.unusedWarnings, C18.scopeState] at this
    rw [this] at hw; simp at hw
  · have := unknown_nil .global P h3
    simp only [C18.unknownWarnings, C18.scopeState] at this
    rw [this] at hw; simp at hw

theorem function_body_scope {a f args b c body} : ∀ {P : List Stmt}, Stmt.function a f args b c body ∈ P → body ∈ bodiesL P
  | [], h => by simp at h
  | s :: r, h => by
      simp only [List.mem_cons] at h
      simp only [bodiesL, List.mem_append]
      rcases h with h | h
      · subst h; left; simp [bodiesS]
      · right; exact function_body_scope h

/-- **no_label_lint.**  For `NoReserved` code whose raw labels/jumps (if any) are unique, used and resolved, `lint_script` of the
lowered program emits **none** of "Redefinition of [global] label", "Unused [global] label", "Unknown [global] label" —
neither for the global scope nor for any function (uses C18's characterisation of the lint loop, `C18.mem_loop_warnings`,
`scope_ldefs_mem`, `scope_lused_mem`). -/
theorem no_label_lint (B : List SStmt) (hn : NoReserved B) (hu : UserLabelsOK B) :
    ∀ w ∈ Lint.lint (lowerProgram B), isLabelW w = false := by
  have hc := lower_scopes_clean B hn hu
  exact lint_noLabel _ (hc _ (by simp [scopes]))
    (fun a f args b c body hm => hc body (by simp [scopes, function_body_scope hm]))

/-- purely structured code: no hypothesis on names is left -/
theorem no_label_lint_structured (B : List SStmt) (h : NoRaw B) : ∀ w ∈ Lint.lint (lowerProgram B), isLabelW w = false :=
  no_label_lint B h.noReserved h.userLabelsOK

example : ∀ w ∈ Lint.lint (lowerProgram demo), isLabelW w = false := no_label_lint_structured demo (by decide)
example : ∀ w ∈ Lint.lint (lowerProgram demoRaw), isLabelW w = false := no_label_lint demoRaw (by decide) (by decide)
-- the hypothesis matters: a raw jump to nowhere is reported
example : ∃ w ∈ Lint.lint (lowerProgram [.jump (.user "nowhere") none]), isLabelW w = true := by
  obtain ⟨j, hj⟩ := (C18.unknown_label_iff_findLabel_none .global [.jump (.user "nowhere") none] (.user "nowhere")).2
    ⟨⟨none, by simp⟩, by simp [C18.findLabel, Lint.isLabel]⟩
  refine ⟨.unknownLabel .global (.user "nowhere") j, ?_, rfl⟩
  show _ ∈ Lint.lint [.jump (.user "nowhere") none]
  simp only [Lint.lint, List.mem_append]
  exact Or.inr hj

/-! ## schema: include lists are non-empty -/

/-- **lower_include_nonempty.**  If the structured program has no (unrenderable) empty raw include, no scope of the lowered
program contains `include []`. -/
theorem lower_include_nonempty (B : List SStmt) (h : incOkB B = true) :
    ∀ sc ∈ scopes (lowerProgram B), Stmt.include [] ∉ sc := by
  intro sc hsc
  have h0 : incNEL (lowerProgram B) = true := incB none B 0 h
  simp only [scopes, List.mem_cons] at hsc
  rcases hsc with rfl | hsc
  · exact incNEL_mem _ h0
  · exact incNEL_mem _ (incNEL_bodies _ h0 sc hsc)

/-- **parseLines_include_nonempty.**  The line-at-a-time parser, on **any** sequence of classified lines it accepts, never
produces `include []` in any scope (an include statement is created with one entry and only ever grows). -/
theorem parseLines_include_nonempty (ls : List Line) (P : List Stmt) (h : parseLines ls = .ok P) :
    ∀ sc ∈ scopes P, Stmt.include [] ∉ sc := by
  intro sc hsc
  have h0 := parseLines_incNEL ls P h
  simp only [scopes, List.mem_cons] at hsc
  rcases hsc with rfl | hsc
  · exact incNEL_mem _ h0
  · exact incNEL_mem _ (incNEL_bodies _ h0 sc hsc)

/-- **schema_valid.**  `List Stmt` is the schema by typing (see the remark at the top of the file); of the schema's two value
constraints, `args` non-empty is enforced by the JSON boundary (`SyntaxJson.stmtToJson` omits `args` when the list is empty, as
`parse_script` does), and `includes` non-empty holds for the spec lowering of every renderable program and for whatever the
line-at-a-time parser accepts. -/
theorem schema_valid :
    (∀ B, incOkB B = true → ∀ sc ∈ scopes (lowerProgram B), Stmt.include [] ∉ sc) ∧
    (∀ ls P, parseLines ls = .ok P → ∀ sc ∈ scopes P, Stmt.include [] ∉ sc) :=
  ⟨lower_include_nonempty, parseLines_include_nonempty⟩

example : incOkB demo = true := by decide
example : parseLines (renderB demo) = .ok (lowerProgram demo) := by rfl

/-! ## transfer to the line-at-a-time parser (`C01.parseLines_render`) -/

mutual
theorem wnS_eq : ∀ (s : SStmt) (a b : Bool), wnS a b s = C01.wnS a b s
  | .expr _ _, a, b => by simp [wnS, C01.wnS]
  | .ret _, a, b => by simp [wnS, C01.wnS]
  | .label _, a, b => by simp [wnS, C01.wnS]
  | .jump _ _, a, b => by simp [wnS, C01.wnS]
  | .include _, a, b => by simp [wnS, C01.wnS]
  | .brk, a, b => by simp [wnS, C01.wnS]
  | .cont, a, b => by simp [wnS, C01.wnS]
  | .func _ _ _ _ _ f, a, b => by simp [wnS, C01.wnS, wnB_eq f]
  | .ite c t e, a, b => by simp [wnS, C01.wnS, wnB_eq t, wnE_eq e]
  | .while c f, a, b => by simp [wnS, C01.wnS, wnB_eq f]
  | .for v ix vals f, a, b => by simp [wnS, C01.wnS, wnB_eq f]
theorem wnB_eq : ∀ (B : List SStmt) (a b : Bool), wnB a b B = C01.wnB a b B
  | [], a, b => by simp [wnB, C01.wnB]
  | s :: ss, a, b => by simp [wnB, C01.wnB, wnS_eq s, wnB_eq ss]
theorem wnE_eq : ∀ (e : SElse) (a b : Bool), wnE a b e = C01.wnE a b e
  | .none, a, b => by simp [wnE, C01.wnE]
  | .els f, a, b => by simp [wnE, C01.wnE, wnB_eq f]
  | .elif c t e, a, b => by simp [wnE, C01.wnE, wnB_eq t, wnE_eq e]
end

/-- `C07.WellNested` is the hypothesis of `C01.parseLines_render` -/
theorem wellNested_iff (B : List SStmt) : WellNested B ↔ C01.WellNested B := by
  simp [WellNested, C01.WellNested, wnB_eq]

/-- **parsed_well_formed.**  Whatever the line-at-a-time parser (the mirror of `parse_script`: `label_defs` stack, counter,
per-function floor, in-place re-targeting, `hasContinue` flag) returns for the rendered lines of a structured program that does
not use the reserved prefix and whose raw labels/jumps (if any) are unique, used and resolved: the program was well nested, the
result *is* the recursive lowering (C01 T1), and therefore every scope of the result is label-clean, every jump of every scope
is found by `findLabel`, lint emits no label warning, and no include list is empty.  (`FidsInOrder` / `NoAdjacentIncludes` are
C01's normal-form conditions on the structured representation: function ids in source order, adjacent include nodes merged.) -/
theorem parsed_well_formed (B : List SStmt) (P : List Stmt) (hf : C01.FidsInOrder B) (hi : C01.NoAdjacentIncludes B)
    (hn : NoReserved B) (hu : UserLabelsOK B) (hP : parseLines (renderB B) = .ok P) :
    WellNested B ∧ P = lowerProgram B ∧
      (∀ sc ∈ scopes P, ScopeClean sc) ∧
      (∀ sc ∈ scopes P, ∀ t ∈ jumpsOf sc, ∃ n, Machine.findLabel sc t = some n) ∧
      (∀ w ∈ Lint.lint P, isLabelW w = false) ∧
      (∀ sc ∈ scopes P, Stmt.include [] ∉ sc) := by
  have hw : C01.WellNested B := C01.wellNested_of_parse_ok B hP
  have h1 := C01.parseLines_render B hw hf hi
  rw [h1] at hP
  cases hP
  exact ⟨(wellNested_iff B).2 hw, rfl, lower_scopes_clean B hn hu,
    fun sc hsc t ht => (no_unknown_label_error B hn hu.jumps sc hsc t ht).1,
    no_label_lint B hn hu, parseLines_include_nonempty _ _ h1⟩

/-- for well-nested purely structured code the parser succeeds and its output is well formed -/
theorem parsed_well_formed_structured (B : List SStmt) (hw : WellNested B) (hf : C01.FidsInOrder B)
    (hi : C01.NoAdjacentIncludes B) (hr : NoRaw B) :
    parseLines (renderB B) = .ok (lowerProgram B) ∧
      (∀ sc ∈ scopes (lowerProgram B), ScopeClean sc) ∧
      (∀ sc ∈ scopes (lowerProgram B), ∀ t ∈ jumpsOf sc, ∃ n, Machine.findLabel sc t = some n) := by
  have h1 := C01.parseLines_render B ((wellNested_iff B).1 hw) hf hi
  exact ⟨h1, lower_scopes_clean B hr.noReserved hr.userLabelsOK, no_unknown_label_error_structured B hr⟩

example : WellNested demo ∧ C01.FidsInOrder demo ∧ C01.NoAdjacentIncludes demo ∧ NoRaw demo := by decide
example : C01.FidsInOrder demoRaw ∧ C01.NoAdjacentIncludes demoRaw ∧ NoReserved demoRaw ∧ UserLabelsOK demoRaw := by decide

end C07
