import BareProofs.C06Regex5Lemmas
import BareModel.ExprParse

/-!
# C06Regex7Lemmas — engine lemmas for the expression token patterns `_R_EXPR_*`

None of these patterns uses `.` or `$`, so every statement here holds for ALL texts (a `'\n'` is just a `\s` character).
-/

namespace C06Regex
open Rx Text RxPatterns

/-! ## the character classes of `ExprScan` are the ones of the engine -/

theorem isPySpace_eq : ExprScan.isPySpace = isSpace := by
  funext c; simp [ExprScan.isPySpace, isSpace, isSpaceN]

theorem skipWs_eq (t : Chars) : ExprScan.skipWs t = lstripL t := by
  unfold ExprScan.skipWs lstripL; rw [isPySpace_eq]

theorem exIdStart_eq : ExprScan.isIdStart = isIdStart := by
  funext c
  have e : (c = '_') ↔ c.toNat = 95 := by rw [← Char.toNat_inj]; rfl
  simp only [ExprScan.isIdStart, isIdStart]
  rw [Bool.eq_iff_iff]
  simp [e]

theorem exIsWord_eq : ExprScan.isWord = isWord := rfl

theorem digit_test : Atom.digit.test = ExprScan.isDigit := rfl

theorem space_not_digit {c : Char} (h : isSpace c = true) : isDigitU c = false := by
  have : ∀ n ∈ C10.spaceCodes, isDigitN n = false := by decide +kernel
  exact this _ (C10.isSpaceN_mem h)

/-! ## a greedy star whose continuation accepts the longest run -/

theorem star_atom_first (a : Atom) (st : St) (k : K) (v : St) (h : k (skip a.test st) = some v) :
    (Rx.star (.one a)).m st k = some v := by
  rw [star_atom_backoff]
  exact backoff_some k st v _ (by rw [adv_takeWhile]; exact h)

/-- `[A-Za-z_]\w*` in front of a continuation that accepts after ALL word characters -/
theorem ident_first (st : St) (k : K) (hk : ∀ s : St, (k s).isSome = true) :
    ident.m st k = match Scan.ident? st.rest with
      | some (name, r) => k ⟨st.pos + name.length, r, st.caps⟩
      | none => none := by
  simp only [ident, seq_m, one_m', step, idStart_test]
  cases hr : st.rest with
  | nil => simp [Scan.ident?]
  | cons c cs =>
    by_cases hc : isIdStart c = true
    · simp only [hc, if_true, Scan.ident?]
      cases hv : k (skip Atom.word.test ⟨st.pos + 1, cs, st.caps⟩) with
      | none => have := hk (skip Atom.word.test ⟨st.pos + 1, cs, st.caps⟩); rw [hv] at this; cases this
      | some v =>
        rw [star_atom_first _ _ _ v hv, ← hv]
        simp [skip, word_test, Nat.add_assoc, Nat.add_comm 1]
    · simp [hc, Scan.ident?]

/-! ## sequences of literal characters and alternations of them (operators) -/

/-- a non-empty sequence of literal characters, each with its own escape spelling -/
def litSeq : Bool × Char → List (Bool × Char) → Rx
  | x, [] => .one (.lit x.1 x.2)
  | x, y :: ys => .one (.lit x.1 x.2) ⬝ litSeq y ys

theorem litSeq_m : ∀ (xs : List (Bool × Char)) (x : Bool × Char) (st : St) (k : K),
    (litSeq x xs).m st k = match ExprScan.stripPrefix? ((x :: xs).map (·.2)) st.rest with
      | some r => k ⟨st.pos + (xs.length + 1), r, st.caps⟩
      | none => none
  | [], x, st, k => by
    simp only [litSeq, one_m', step_lit, List.map, ExprScan.stripPrefix?]
    cases st.rest with
    | nil => rfl
    | cons c t =>
      by_cases hc : c = x.2
      · subst hc; simp [ExprScan.stripPrefix?]
      · have : ¬ x.2 = c := fun e => hc e.symm
        simp [ExprScan.stripPrefix?, hc, this]
  | y :: ys, x, st, k => by
    simp only [litSeq, seq_m, one_m', step_lit, List.map]
    cases st.rest with
    | nil => simp [ExprScan.stripPrefix?]
    | cons c t =>
      by_cases hc : c = x.2
      · subst hc
        simp only [if_true, ExprScan.stripPrefix?]
        rw [litSeq_m ys y]
        simp only [List.map, List.length_cons]
        cases ExprScan.stripPrefix? (y.2 :: ys.map (·.2)) t with
        | none => rfl
        | some r => simp [Nat.add_assoc, Nat.add_comm 1]
      · have : ¬ x.2 = c := fun e => hc e.symm
        simp [ExprScan.stripPrefix?, hc, this]

theorem stripPrefix_len : ∀ {p t r : List Char}, ExprScan.stripPrefix? p t = some r → p.length + r.length = t.length
  | [], t, r, h => by simp [ExprScan.stripPrefix?] at h; subst h; simp
  | _ :: _, [], r, h => by simp [ExprScan.stripPrefix?] at h
  | x :: p, c :: t, r, h => by
    by_cases hx : x = c
    · simp only [ExprScan.stripPrefix?, hx, if_true] at h
      have := stripPrefix_len h
      simp only [List.length_cons]; omega
    · simp [ExprScan.stripPrefix?, hx] at h

theorem stripPrefix_eq : ∀ {p t r : List Char}, ExprScan.stripPrefix? p t = some r → t = p ++ r
  | [], t, r, h => by simp [ExprScan.stripPrefix?] at h; subst h; rfl
  | _ :: _, [], r, h => by simp [ExprScan.stripPrefix?] at h
  | x :: p, c :: t, r, h => by
    by_cases hx : x = c
    · simp only [ExprScan.stripPrefix?, hx, if_true] at h
      rw [hx, List.cons_append, ← stripPrefix_eq h]
    · simp [ExprScan.stripPrefix?, hx] at h

/-- the alternation of literal sequences, in order -/
def altsLit {α : Type} : (Bool × Char) × List (Bool × Char) × α → List ((Bool × Char) × List (Bool × Char) × α) → Rx
  | a, [] => litSeq a.1 a.2.1
  | a, b :: bs => .alt (litSeq a.1 a.2.1) (altsLit b bs)

def plainAlts {α : Type} (L : List ((Bool × Char) × List (Bool × Char) × α)) : List (List Char × α) :=
  L.map fun a => ((a.1 :: a.2.1).map (·.2), a.2.2)

/-- **an alternation of literals in front of a continuation that always accepts = `ExprScan.firstAlt`** -/
theorem altsLit_m {α : Type} (k : K) (hk : ∀ s : St, (k s).isSome = true) :
    ∀ (bs : List ((Bool × Char) × List (Bool × Char) × α)) (a : (Bool × Char) × List (Bool × Char) × α) (st : St),
      (altsLit a bs).m st k = match ExprScan.firstAlt (plainAlts (a :: bs)) st.rest with
        | some (_, r) => k ⟨st.pos + (st.rest.length - r.length), r, st.caps⟩
        | none => none
  | [], a, st => by
    simp only [altsLit, litSeq_m, plainAlts, List.map, ExprScan.firstAlt]
    cases hs : ExprScan.stripPrefix? (a.1.2 :: a.2.1.map (·.2)) st.rest with
    | none => rfl
    | some r =>
      have := stripPrefix_len hs
      simp only [List.length_cons, List.length_map] at this
      simp only []
      rw [show st.rest.length - r.length = a.2.1.length + 1 from by omega]
  | b :: bs, a, st => by
    rw [altsLit, alt_m, litSeq_m, altsLit_m k hk bs b st]
    simp only [plainAlts, List.map, ExprScan.firstAlt]
    cases hs : ExprScan.stripPrefix? (a.1.2 :: a.2.1.map (·.2)) st.rest with
    | none => simp
    | some r =>
      have := stripPrefix_len hs
      simp only [List.length_cons, List.length_map] at this
      simp only []
      rw [show st.rest.length - r.length = a.2.1.length + 1 from by omega]
      cases hv : k ⟨st.pos + (a.2.1.length + 1), r, st.caps⟩ with
      | none => have := hk ⟨st.pos + (a.2.1.length + 1), r, st.caps⟩; rw [hv] at this; cases this
      | some v => simp

/-! ## `\s*c` at the end of a pattern -/

theorem ws_lit_end (e : Bool) (c : Char) (hc : isSpace c = false) (st : St) (k : K) :
    (ws ⬝ Rx.one (.lit e c)).m st k = match lstripL st.rest with
      | x :: r => if x = c then k ⟨st.pos + (st.rest.takeWhile isSpace).length + 1, r, st.caps⟩ else none
      | [] => none := by
  rw [seq_m]; simp only [ws, sp]
  rw [star_atom_det]
  · simp only [one_m', step_lit, skip, space_test, lstripL]
    rfl
  · intro st' ⟨x, r, hr, hx⟩
    have : ¬ x = c := fun e => by rw [space_test, e, hc] at hx; exact Bool.noConfusion hx
    simp [one_m', step_lit, hr, this]

theorem rejects_ws_lit_end (p : Char → Bool) (e : Bool) (c : Char) (hp : ∀ x, p x = true → isSpace x = false ∧ x ≠ c) (k : K) :
    RejectsHead p (fun st => (ws ⬝ Rx.one (.lit e c)).m st k) := by
  intro st ⟨x, r, hr, hx⟩
  show (ws ⬝ Rx.one (.lit e c)).m st k = none
  rw [seq_m]; simp only [ws, sp]
  rw [star_atom_backoff]
  simp [hr, space_test, (hp x hx).1, backoff, one_m', step_lit, (hp x hx).2]

/-! ## `_R_EXPR_NUMBER`: the pieces, in front of a continuation that always accepts -/

def Total (k : K) : Prop := ∀ s : St, (k s).isSome = true

theorem total_some_of {k : K} (hk : Total k) (s : St) : ∃ v, k s = some v := by
  cases h : k s with
  | none => have := hk s; rw [h] at this; cases this
  | some v => exact ⟨v, rfl⟩

theorem sign_test (x : Char) : (Atom.cls false [.ch false '+', .ch false '-']).test x = (x == '+' || x == '-') := by
  simp only [Atom.test, Item.test, List.any_cons, List.any_nil, Bool.or_false]
  cases (x == '+' || x == '-') <;> rfl

theorem scanFrac_len (x : Chars) : (ExprScan.scanFrac x).2.length ≤ x.length := by
  cases x with
  | nil => simp [ExprScan.scanFrac]
  | cons c r =>
    by_cases hc : c = '.'
    · simp only [ExprScan.scanFrac, hc, if_true, List.length_cons]
      exact Nat.le_succ_of_le (List.dropWhile_sublist _).length_le
    · simp [ExprScan.scanFrac, hc]

/-- the digit run `\d*` / tail of `\d+` in front of a total continuation -/
theorem digits_first (st : St) (k : K) (hk : Total k) :
    (Rx.star (.one .digit)).m st k = k ⟨st.pos + (st.rest.takeWhile ExprScan.isDigit).length, st.rest.dropWhile ExprScan.isDigit, st.caps⟩ := by
  obtain ⟨v, hv⟩ := total_some_of hk (skip Atom.digit.test st)
  rw [star_atom_first _ _ _ v hv, ← hv]; rfl

end C06Regex
