import BareModel.Text
import BareModel.Scan

/-!
# C10 — helper lemmas about the text layer (`Text.splitLinesL`, strip, the line loop)

Property theorems are in `BareProofs/C10.lean`; this file holds what they are assembled from.
-/

namespace C10
open Text Scan

/-! ## physical lines -/

theorem splitLinesL_cons (c : Char) (rest : Chars) :
    splitLinesL (c :: rest) =
      if c = '\n' then [] :: splitLinesL rest
      else if c = '\r' ∧ rest.head? = some '\n' then [] :: splitLinesL rest.tail
      else consHead c (splitLinesL rest) := by
  by_cases h1 : c = '\n'
  · subst h1; simp [splitLinesL]
  · by_cases h2 : c = '\r' ∧ rest.head? = some '\n'
    · obtain ⟨hc, hr⟩ := h2
      subst hc
      cases rest with
      | nil => simp at hr
      | cons d rest' =>
        simp at hr; subst hr
        simp [splitLinesL]
    · simp only [h1, h2, if_false]
      rw [splitLinesL]
      · exact h1
      · intro r hc hr; exact h2 ⟨hc, by simp [hr]⟩

theorem splitLinesL_ne_nil (t : Chars) : splitLinesL t ≠ [] := by
  induction t with
  | nil => simp [splitLinesL]
  | cons c rest ih =>
    rw [splitLinesL_cons]; split
    · simp
    · split
      · simp
      · cases h : splitLinesL rest <;> simp [consHead]

theorem consHead_append (c : Char) {xs : List Chars} (ys : List Chars) (h : xs ≠ []) :
    consHead c (xs ++ ys) = consHead c xs ++ ys := by
  cases xs with
  | nil => exact absurd rfl h
  | cons x xs => simp [consHead]

theorem getLast?_cons_ne {α} (c : α) {l : List α} (h : l ≠ []) : (c :: l).getLast? = l.getLast? := by
  cases l with
  | nil => exact absurd rfl h
  | cons x xs => simp [List.getLast?_cons_cons]

/-- cutting at an LF: the physical lines of the two pieces, concatenated -/
theorem split_append_lf (a b : Chars) (h : a.getLast? ≠ some '\r') :
    splitLinesL (a ++ '\n' :: b) = splitLinesL a ++ splitLinesL b := by
  fun_induction splitLinesL a with
  | case1 => simp [splitLinesL]
  | case2 rest ih =>
    have h' : rest.getLast? ≠ some '\r' := by
      cases rest with
      | nil => simp
      | cons x xs => simpa [List.getLast?_cons_cons] using h
    simp [splitLinesL, ih h']
  | case3 rest ih =>
    have h' : rest.getLast? ≠ some '\r' := by
      cases rest with
      | nil => simp
      | cons x xs => simpa [List.getLast?_cons_cons] using h
    simp [splitLinesL, ih h']
  | case4 c rest hc hcr ih =>
    have h' : rest.getLast? ≠ some '\r' := by
      cases rest with
      | nil => simp
      | cons x xs => simpa [List.getLast?_cons_cons] using h
    have hne : c ≠ '\n' := fun e => hc e
    have h2 : ¬ (c = '\r' ∧ (rest ++ '\n' :: b).head? = some '\n') := by
      rintro ⟨e1, e2⟩
      cases rest with
      | nil => subst e1; simp at h
      | cons x xs => simp at e2; exact hcr xs e1 (by rw [e2])
    rw [List.cons_append, splitLinesL_cons, if_neg hne, if_neg h2, ih h',
      consHead_append _ _ (splitLinesL_ne_nil rest)]

/-- cutting at a CRLF -/
theorem split_append_crlf (a b : Chars) :
    splitLinesL (a ++ '\r' :: '\n' :: b) = splitLinesL a ++ splitLinesL b := by
  fun_induction splitLinesL a with
  | case1 => simp [splitLinesL]
  | case2 rest ih => simp [splitLinesL, ih]
  | case3 rest ih => simp [splitLinesL, ih]
  | case4 c rest hc hcr ih =>
    have hne : c ≠ '\n' := fun e => hc e
    have h2 : ¬ (c = '\r' ∧ (rest ++ '\r' :: '\n' :: b).head? = some '\n') := by
      rintro ⟨e1, e2⟩
      cases rest with
      | nil => simp at e2
      | cons x xs => simp at e2; exact hcr xs e1 (by rw [e2])
    rw [List.cons_append, splitLinesL_cons, if_neg hne, if_neg h2, ih,
      consHead_append _ _ (splitLinesL_ne_nil rest)]

theorem split_no_nl {l : Chars} (h : '\n' ∉ l) : splitLinesL l = [l] := by
  induction l with
  | nil => simp [splitLinesL]
  | cons c rest ih =>
    have hc : c ≠ '\n' := fun e => h (by simp [e])
    have hr : '\n' ∉ rest := fun m => h (List.mem_cons_of_mem _ m)
    have h2 : ¬ (c = '\r' ∧ rest.head? = some '\n') := by
      rintro ⟨_, e2⟩
      cases rest with
      | nil => simp at e2
      | cons x xs => simp at e2; exact hr (by simp [e2])
    rw [splitLinesL_cons, if_neg hc, if_neg h2, ih hr]; rfl

theorem mem_consHead {c : Char} {xs : List Chars} {l : Chars} (h : l ∈ consHead c xs) :
    (∃ l', l = c :: l' ∧ (l' ∈ xs ∨ l' = [])) ∨ l ∈ xs := by
  cases xs with
  | nil => simp [consHead] at h; exact .inl ⟨[], h, .inr rfl⟩
  | cons x xs =>
    simp [consHead] at h
    rcases h with h | h
    · exact .inl ⟨x, h, .inl (by simp)⟩
    · exact .inr (by simp [h])

/-- a text ending in a line feed: its lines, then one empty line; the same lines start any text that continues it -/
theorem split_snoc_nl (a : Chars) :
    ∃ X, splitLinesL (a ++ ['\n']) = X ++ [[]] ∧ ∀ b, splitLinesL (a ++ '\n' :: b) = X ++ splitLinesL b := by
  by_cases h : a.getLast? = some '\r'
  · obtain ⟨a0, ha⟩ := List.getLast?_eq_some_iff.mp h
    refine ⟨splitLinesL a0, ?_, ?_⟩
    · rw [ha]; simpa [splitLinesL] using split_append_crlf a0 []
    · intro b; rw [ha]; simpa using split_append_crlf a0 b
  · refine ⟨splitLinesL a, ?_, ?_⟩
    · simpa [splitLinesL] using split_append_lf a [] h
    · intro b; exact split_append_lf a b h

/-! ## the line loop -/

/-- the loop of `Text.loopL` over the numbered non-comment lines (`Text.kept`) -/
def loopK : List (Nat × Chars) → List Chars → Nat → LLOut
  | [], cont, ixLine => ([], if cont.isEmpty then none else some (ixLine, joinSp cont))
  | (i, part) :: rest, cont, ixLine =>
    let isContinued := !cont.isEmpty
    let ixLine := if isContinued then ixLine else i
    match contBody? part with
    | some nc => loopK rest (cont ++ [if isContinued then stripL nc else rstripL nc]) ixLine
    | none =>
      if isContinued then emit (ixLine, joinSp (cont ++ [stripL part])) (loopK rest [] ixLine)
      else emit (ixLine, part) (loopK rest [] ixLine)

theorem loopL_eq_loopK (lines : List Chars) : ∀ (i : Nat) (cont : List Chars) (ix : Nat),
    loopL i lines cont ix = loopK (kept i lines) cont ix := by
  induction lines with
  | nil => intro i cont ix; simp [loopL, kept, loopK]
  | cons l ls ih =>
    intro i cont ix
    by_cases hc : isCommentL l = true
    · simp [loopL, kept, hc, ih]
    · simp only [loopL, kept, hc, if_false, loopK, Bool.false_eq_true]
      cases contBody? l <;> simp [ih]

theorem loopK_nil_ix (xs : List (Nat × Chars)) (ix ix' : Nat) : loopK xs [] ix = loopK xs [] ix' := by
  cases xs with
  | nil => simp [loopK]
  | cons x xs => obtain ⟨i, p⟩ := x; simp [loopK]

/-! ### runs -/

def consRun (pend : List (Nat × Chars)) : List (List (Nat × Chars)) → List (List (Nat × Chars))
  | [] => [pend]
  | r :: rs => (pend ++ r) :: rs

theorem runs_cons (x : Nat × Chars) (xs : List (Nat × Chars)) :
    runs (x :: xs) = if hasCont x.2 then consRun [x] (runs xs) else [x] :: runs xs := by
  simp only [runs]; split
  · cases runs xs <;> simp [consRun]
  · rfl

theorem runs_append_cont (pend xs : List (Nat × Chars)) (hne : pend ≠ []) (h : ∀ p ∈ pend, hasCont p.2 = true) :
    runs (pend ++ xs) = consRun pend (runs xs) := by
  induction pend with
  | nil => exact absurd rfl hne
  | cons p ps ih =>
    have hp : hasCont p.2 = true := h p (by simp)
    rw [List.cons_append, runs_cons, if_pos hp]
    cases ps with
    | nil => simp
    | cons q qs =>
      rw [ih (by simp) (fun x hx => h x (List.mem_cons_of_mem _ hx))]
      cases runs xs <;> simp [consRun]

theorem runParts_snoc (pend : List (Nat × Chars)) (x : Nat × Chars) :
    runParts (pend ++ [x]) =
      runParts pend ++ [if pend = [] then rstripL (stripContinuationL x.2) else stripL (stripContinuationL x.2)] := by
  cases pend with
  | nil => simp [runParts]
  | cons p ps => simp [runParts]

theorem runIndex_snoc (pend : List (Nat × Chars)) (x : Nat × Chars) :
    runIndex (pend ++ [x]) = if pend = [] then x.1 else runIndex pend := by
  cases pend <;> simp [runIndex]

theorem runParts_isEmpty (pend : List (Nat × Chars)) : (runParts pend).isEmpty = pend.isEmpty := by
  cases pend <;> simp [runParts]

theorem joinRun_long {r : List (Nat × Chars)} (h : r.length ≠ 1) : joinRun r = (runIndex r, joinSp (runParts r)) := by
  match r, h with
  | [], _ => rfl
  | [x], h => simp at h
  | x :: y :: zs, _ => rfl

theorem complete_snoc (pend : List (Nat × Chars)) (x : Nat × Chars) : complete (pend ++ [x]) = !hasCont x.2 := by
  simp [complete]

theorem stripCont_of_hasCont_false {l : Chars} (h : hasCont l = false) : stripContinuationL l = l ∧ contBody? l = none := by
  unfold hasCont at h
  cases hb : contBody? l with
  | none => simp [stripContinuationL, hb]
  | some b => simp [hb] at h

theorem loopK_eq_spec (xs : List (Nat × Chars)) : ∀ pend : List (Nat × Chars), (∀ p ∈ pend, hasCont p.2 = true) →
    loopK xs (runParts pend) (runIndex pend) = specRuns (runs (pend ++ xs)) := by
  induction xs with
  | nil =>
    intro pend h
    cases hp : pend with
    | nil => simp [loopK, runParts, runs, specRuns]
    | cons p ps =>
      have hne : pend ≠ [] := by simp [hp]
      have hlast : complete pend = false := by
        obtain ⟨ys, y, hy⟩ : ∃ ys y, pend = ys ++ [y] := by
          have := List.dropLast_concat_getLast hne
          exact ⟨_, _, this.symm⟩
        rw [hy, complete_snoc]; simp [h y (by simp [hy])]
      rw [← hp, List.append_nil, ← List.append_nil pend, runs_append_cont pend [] hne h]
      simp [runs, consRun, specRuns, hlast, loopK, runParts_isEmpty, hne]
  | cons x xs ih =>
    intro pend h
    obtain ⟨i, part⟩ := x
    by_cases hx : hasCont part = true
    · -- a continued part: it joins the pending run
      have h' : ∀ p ∈ pend ++ [(i, part)], hasCont p.2 = true := by
        intro p hp; simp at hp; rcases hp with hp | hp
        · exact h p hp
        · simp [hp, hx]
      have := ih (pend ++ [(i, part)]) h'
      rw [List.append_assoc] at this; simp only [List.singleton_append] at this
      rw [← this, runParts_snoc, runIndex_snoc]
      unfold hasCont at hx
      cases hb : contBody? part with
      | none => simp [hb] at hx
      | some nc =>
        simp only [loopK, hb, runParts_isEmpty, stripContinuationL, Option.getD_some]
        cases pend <;> simp
    · -- the part ends the run
      have hx' : hasCont part = false := by simpa using hx
      obtain ⟨hs, hb⟩ := stripCont_of_hasCont_false hx'
      cases hp : pend with
      | nil =>
        have := ih [] (by simp)
        simp only [runParts, runIndex, List.nil_append] at this
        simp [loopK, runParts, hb, runs_cons, hx', specRuns, complete, joinRun, ← this, loopK_nil_ix xs i 0]
      | cons p ps =>
        have hne : pend ≠ [] := by simp [hp]
        have := ih [] (by simp)
        simp only [runParts, runIndex, List.nil_append] at this
        rw [← hp, runs_append_cont pend _ hne h, runs_cons]
        simp only [hx', Bool.false_eq_true, if_false, consRun, specRuns, complete_snoc, Bool.not_false, if_true]
        rw [joinRun_long (by rw [hp]; simp), runParts_snoc, runIndex_snoc, ← this]
        simp [loopK, hb, runParts_isEmpty, hne, hs, loopK_nil_ix xs (runIndex pend) 0]

/-! ### what the loop depends on -/

/-- the observable texts of a loop result: logical line texts and the dangling text -/
def texts (r : LLOut) : List Chars × Option Chars := (r.1.map Prod.snd, r.2.map Prod.snd)

/-- re-index a loop result -/
def reindex (f : Nat → Nat) (r : LLOut) : LLOut :=
  (r.1.map (fun x => (f x.1, x.2)), r.2.map (fun x => (f x.1, x.2)))

theorem texts_emit (x : Nat × Chars) (r : LLOut) : texts (emit x r) = (x.2 :: (texts r).1, (texts r).2) := rfl

theorem reindex_emit (f : Nat → Nat) (x : Nat × Chars) (r : LLOut) :
    reindex f (emit x r) = emit (f x.1, x.2) (reindex f r) := rfl

theorem texts_reindex (f : Nat → Nat) (r : LLOut) : texts (reindex f r) = texts r := by
  obtain ⟨a, b⟩ := r
  simp [texts, reindex, Function.comp_def]

theorem loopK_texts (xs : List (Nat × Chars)) : ∀ (ys : List (Nat × Chars)) (cont : List Chars) (ix ix' : Nat),
    xs.map Prod.snd = ys.map Prod.snd → texts (loopK xs cont ix) = texts (loopK ys cont ix') := by
  induction xs with
  | nil =>
    intro ys cont ix ix' h
    cases ys with
    | nil => simp [loopK, texts]; split <;> simp
    | cons y ys => simp at h
  | cons x xs ih =>
    intro ys cont ix ix' h
    cases ys with
    | nil => simp at h
    | cons y ys =>
      obtain ⟨i, p⟩ := x; obtain ⟨j, q⟩ := y
      simp at h; obtain ⟨hpq, hrest⟩ := h; subst hpq
      have hrest' : xs.map Prod.snd = ys.map Prod.snd := by simpa using hrest
      simp only [loopK]
      cases contBody? p with
      | some nc => exact ih ys _ _ _ hrest'
      | none =>
        by_cases hc : cont.isEmpty = true
        · simp [hc, texts_emit, ih ys [] i j hrest']
        · simp [hc, texts_emit, ih ys [] ix ix' hrest']

theorem loopK_reindex (f : Nat → Nat) (xs : List (Nat × Chars)) : ∀ (cont : List Chars) (ix : Nat),
    loopK (xs.map (fun x => (f x.1, x.2))) cont (f ix) = reindex f (loopK xs cont ix) := by
  induction xs with
  | nil => intro cont ix; simp [loopK, reindex]; split <;> simp
  | cons x xs ih =>
    intro cont ix
    obtain ⟨i, p⟩ := x
    simp only [List.map_cons, loopK]
    cases contBody? p with
    | some nc =>
      by_cases hc : cont.isEmpty = true
      · simp [hc, ih]
      · simp [hc, ih]
    | none =>
      by_cases hc : cont.isEmpty = true
      · simp [hc, ih, reindex_emit]
      · simp [hc, ih, reindex_emit]

/-! ### kept lines -/

theorem kept_map_snd (ls : List Chars) : ∀ i, (kept i ls).map Prod.snd = ls.filter (fun l => !isCommentL l) := by
  induction ls with
  | nil => intro i; rfl
  | cons l ls ih => intro i; by_cases h : isCommentL l = true <;> simp [kept, h, ih]

theorem kept_append (a b : List Chars) : ∀ i, kept i (a ++ b) = kept i a ++ kept (i + a.length) b := by
  induction a with
  | nil => intro i; simp [kept]
  | cons l ls ih =>
    intro i
    have e : i + 1 + ls.length = i + (ls.length + 1) := by omega
    by_cases h : isCommentL l = true <;> simp [kept, h, ih, e]

theorem kept_shift (k : Nat) (ls : List Chars) : ∀ i, kept (i + k) ls = (kept i ls).map (fun x => (x.1 + k, x.2)) := by
  induction ls with
  | nil => intro i; rfl
  | cons l ls ih =>
    intro i
    have e : i + k + 1 = i + 1 + k := by omega
    by_cases h : isCommentL l = true <;> simp [kept, h, e, ih]

theorem kept_bounds (ls : List Chars) : ∀ i, ∀ x ∈ kept i ls, i ≤ x.1 ∧ x.1 < i + ls.length := by
  induction ls with
  | nil => intro i x hx; simp [kept] at hx
  | cons l ls ih =>
    intro i x hx
    by_cases h : isCommentL l = true
    · simp [kept, h] at hx
      have := ih (i + 1) x hx
      simp; omega
    · simp [kept, h] at hx
      rcases hx with hx | hx
      · subst hx; simp
      · have := ih (i + 1) x hx
        simp; omega

theorem loopK_append_clean (xs ys : List (Nat × Chars)) : ∀ (cont : List Chars) (ix : Nat),
    (loopK xs cont ix).2 = none →
    loopK (xs ++ ys) cont ix = ((loopK xs cont ix).1 ++ (loopK ys [] 0).1, (loopK ys [] 0).2) := by
  induction xs with
  | nil =>
    intro cont ix h
    have hc : cont = [] := by
      cases cont with
      | nil => rfl
      | cons c cs => simp [loopK] at h
    subst hc
    simp [loopK, loopK_nil_ix ys ix 0]
  | cons x xs ih =>
    intro cont ix h
    obtain ⟨i, p⟩ := x
    simp only [List.cons_append, loopK] at h ⊢
    cases hb : contBody? p with
    | some nc =>
      simp only [hb] at h
      exact ih _ _ h
    | none =>
      simp only [hb] at h
      by_cases hc : cont.isEmpty = true
      · simp only [hc, Bool.not_true, Bool.false_eq_true, if_false] at h ⊢
        simp only [emit] at h ⊢
        rw [ih _ _ h]
        simp
      · simp only [hc, Bool.not_false, if_true] at h ⊢
        simp only [emit] at h ⊢
        rw [ih _ _ h]
        simp

/-! ## first / last non-blank character -/

theorem dropWhile_eq_nil_iff' {α} (p : α → Bool) (l : List α) : l.dropWhile p = [] ↔ ∀ x ∈ l, p x = true := by
  induction l with
  | nil => simp
  | cons a l ih => by_cases h : p a = true <;> simp [h, ih]

theorem dropWhile_head_not {α} (p : α → Bool) {l : List α} {c : α} {cs : List α} (h : l.dropWhile p = c :: cs) :
    p c = false := by
  induction l with
  | nil => simp at h
  | cons a l ih =>
    by_cases ha : p a = true
    · simp [ha] at h; exact ih h
    · simp [ha] at h; obtain ⟨rfl, _⟩ := h; simpa using ha

theorem dropWhile_idem {α} (p : α → Bool) (l : List α) : (l.dropWhile p).dropWhile p = l.dropWhile p := by
  cases h : l.dropWhile p with
  | nil => rfl
  | cons c cs => simp [dropWhile_head_not p h]

def firstNS (l : Chars) : Option Char := (lstripL l).head?
def lastNS (l : Chars) : Option Char := (l.reverse.dropWhile isSpace).head?

theorem firstNS_append (a b : Chars) : firstNS (a ++ b) = (firstNS a).or (firstNS b) := by
  unfold firstNS lstripL
  rw [List.dropWhile_append]
  cases h : List.dropWhile isSpace a <;> simp

theorem lastNS_append (a b : Chars) : lastNS (a ++ b) = (lastNS b).or (lastNS a) := by
  unfold lastNS
  rw [List.reverse_append, List.dropWhile_append]
  cases h : List.dropWhile isSpace b.reverse <;> simp

theorem firstNS_allSpace {ws : Chars} (h : allSpace ws = true) : firstNS ws = none := by
  unfold firstNS lstripL
  have : List.dropWhile isSpace ws = [] := by
    rw [dropWhile_eq_nil_iff']; simpa [allSpace] using h
  simp [this]

theorem lastNS_allSpace {ws : Chars} (h : allSpace ws = true) : lastNS ws = none := by
  unfold lastNS
  have : List.dropWhile isSpace ws.reverse = [] := by
    rw [dropWhile_eq_nil_iff']; simpa [allSpace] using h
  simp [this]

theorem firstNS_none_iff (l : Chars) : firstNS l = none ↔ allSpace l = true := by
  unfold firstNS lstripL allSpace
  rw [List.head?_eq_none_iff, dropWhile_eq_nil_iff']; simp [List.all_eq_true]

theorem lastNS_none_iff (l : Chars) : lastNS l = none ↔ allSpace l = true := by
  unfold lastNS allSpace
  rw [List.head?_eq_none_iff, dropWhile_eq_nil_iff']; simp [List.all_eq_true]

theorem firstNS_cons_nonspace {c : Char} (l : Chars) (h : isSpace c = false) : firstNS (c :: l) = some c := by
  simp [firstNS, lstripL, List.dropWhile, h]

theorem lstrip_decomp (a : Chars) : ∃ ws, allSpace ws = true ∧ a = ws ++ lstripL a :=
  ⟨a.takeWhile isSpace, by simp [allSpace],
    (List.takeWhile_append_dropWhile (p := isSpace) (l := a)).symm⟩

theorem rstrip_decomp (a : Chars) : ∃ ws, allSpace ws = true ∧ a = rstripL a ++ ws := by
  refine ⟨(a.reverse.takeWhile isSpace).reverse, ?_, ?_⟩
  · simp [allSpace]
  · have := (List.takeWhile_append_dropWhile (p := isSpace) (l := a.reverse))
    have h2 := congrArg List.reverse this
    simp only [List.reverse_append, List.reverse_reverse] at h2
    exact h2.symm

theorem firstNS_rstrip (a : Chars) : firstNS (rstripL a) = firstNS a := by
  obtain ⟨ws, hws, ha⟩ := rstrip_decomp a
  conv => rhs; rw [ha]
  rw [firstNS_append, firstNS_allSpace hws]; simp

theorem lastNS_lstrip (a : Chars) : lastNS (lstripL a) = lastNS a := by
  obtain ⟨ws, hws, ha⟩ := lstrip_decomp a
  conv => rhs; rw [ha]
  rw [lastNS_append, lastNS_allSpace hws]; simp

theorem firstNS_lstrip (a : Chars) : firstNS (lstripL a) = firstNS a := by
  simp [firstNS, lstripL, dropWhile_idem]

theorem lastNS_rstrip (a : Chars) : lastNS (rstripL a) = lastNS a := by
  simp [lastNS, rstripL, dropWhile_idem]

theorem firstNS_strip (a : Chars) : firstNS (stripL a) = firstNS a := by
  simp [stripL, firstNS_rstrip, firstNS_lstrip]

theorem lastNS_strip (a : Chars) : lastNS (stripL a) = lastNS a := by
  simp [stripL, lastNS_rstrip, lastNS_lstrip]

theorem isCommentL_iff (l : Chars) : isCommentL l = true ↔ firstNS l = none ∨ firstNS l = some '#' := by
  unfold isCommentL firstNS
  cases lstripL l with
  | nil => simp
  | cons c cs => simp

theorem contBody?_none_iff (l : Chars) : contBody? l = none ↔ lastNS l ≠ some '\\' := by
  unfold contBody? lastNS
  cases h : List.dropWhile isSpace l.reverse with
  | nil => simp
  | cons c cs =>
    by_cases hc : c = '\\'
    · subst hc; simp
    · simp [hc]

theorem contBody?_some_decomp {l body : Chars} (h : contBody? l = some body) :
    ∃ ws, allSpace ws = true ∧ l = body ++ '\\' :: ws := by
  unfold contBody? at h
  refine ⟨(l.reverse.takeWhile isSpace).reverse, ?_, ?_⟩
  · simp [allSpace]
  · have h1 := (List.takeWhile_append_dropWhile (p := isSpace) (l := l.reverse))
    cases hd : List.dropWhile isSpace l.reverse with
    | nil => simp [hd] at h
    | cons c cs =>
      rw [hd] at h h1
      by_cases hc : c = '\\'
      · subst hc
        simp at h
        have h2 := congrArg List.reverse h1
        simp only [List.reverse_append, List.reverse_reverse, List.reverse_cons] at h2
        rw [← h]; simpa using h2.symm
      · exfalso
        split at h
        · next heq => simp at heq; exact hc heq.1
        · simp at h

/-- the two parts of a continued line, joined: `rstrip(A) + ' ' + strip(B)` -/
def joined (A B : Chars) : Chars := rstripL A ++ ' ' :: stripL B

theorem joined_eq_joinSp (A B : Chars) : joinSp [rstripL A, stripL B] = joined A B := rfl

theorem firstNS_joined (A B : Chars) : firstNS (joined A B) = (firstNS A).or (firstNS B) := by
  unfold joined
  rw [firstNS_append, firstNS_rstrip, show (' ' :: stripL B) = [' '] ++ stripL B from rfl, firstNS_append,
    firstNS_allSpace (ws := [' ']) (by decide), firstNS_strip]
  simp

theorem lastNS_joined (A B : Chars) : lastNS (joined A B) = (lastNS B).or (lastNS A) := by
  unfold joined
  rw [lastNS_append, lastNS_rstrip, show (' ' :: stripL B) = [' '] ++ stripL B from rfl, lastNS_append,
    lastNS_allSpace (ws := [' ']) (by decide), lastNS_strip]
  simp

/-- the joined line is a logical line of its own: not a comment, no continuation -/
theorem joined_plain {A' A B : Chars} (hA : isCommentL A' = false) (hc : contBody? A' = some A)
    (hB : isCommentL B = false) (hBc : contBody? B = none) :
    isCommentL (joined A B) = false ∧ contBody? (joined A B) = none := by
  obtain ⟨ws, hws, hdec⟩ := contBody?_some_decomp hc
  have hB1 : ¬ (firstNS B = none ∨ firstNS B = some '#') := by rw [← isCommentL_iff]; simp [hB]
  have hA1 : ¬ (firstNS A' = none ∨ firstNS A' = some '#') := by rw [← isCommentL_iff]; simp [hA]
  have hA2 : firstNS A' = (firstNS A).or (some '\\') := by
    rw [hdec, firstNS_append, firstNS_cons_nonspace ws (by decide)]
  constructor
  · have : ¬ (firstNS (joined A B) = none ∨ firstNS (joined A B) = some '#') := by
      rw [firstNS_joined]
      cases hfa : firstNS A with
      | none => simpa using hB1
      | some c => rw [hA2, hfa] at hA1; simpa using hA1
    rw [← isCommentL_iff] at this; simpa using this
  · rw [contBody?_none_iff, lastNS_joined]
    have hne : lastNS B ≠ none := by
      intro h; rw [lastNS_none_iff, ← firstNS_none_iff] at h; exact hB1 (.inl h)
    cases hl : lastNS B with
    | none => exact absurd hl hne
    | some d =>
      have := (contBody?_none_iff B).mp hBc
      rw [hl] at this; simpa using this

/-! ## the classifier -/

theorem lstrip_append_ws {ws : Chars} (l : Chars) (h : allSpace ws = true) : lstripL (ws ++ l) = lstripL l := by
  unfold lstripL
  apply List.dropWhile_append_of_pos
  simpa [allSpace] using h

theorem lstrip_length_le (l : Chars) : (lstripL l).length ≤ l.length :=
  (List.dropWhile_sublist isSpace).length_le

theorem Shape.shift_shift (s : Shape) (a b : Nat) : (s.shift a).shift b = s.shift (a + b) := by
  cases s with
  | jump n c => cases c with
    | none => rfl
    | some p => obtain ⟨o, e⟩ := p; simp [Shape.shift, Nat.add_assoc]
  | ret c => cases c with
    | none => rfl
    | some p => obtain ⟨o, e⟩ := p; simp [Shape.shift, Nat.add_assoc]
  | _ => simp [Shape.shift, Nat.add_assoc]

theorem shape_leading_ws {ws : Chars} (l : Chars) (h : allSpace ws = true) :
    shape (ws ++ l) = (shape l).shift ws.length := by
  unfold shape
  simp only [lstrip_append_ws l h, Shape.shift_shift, List.length_append]
  have := lstrip_length_le l
  congr 1; omega

theorem shiftErr_shiftErr {α} (a b : Nat) (r : Except ParseErr α) : shiftErr b (shiftErr a r) = shiftErr (a + b) r := by
  cases r <;> simp [shiftErr, Nat.add_assoc]

theorem shiftErr_map {α β} (k : Nat) (f : α → β) (r : Except ParseErr α) :
    shiftErr k (r.map f) = (shiftErr k r).map f := by
  cases r <;> rfl

/-- equal results up to the error column -/
def EqUpToColumn {α} : Except ParseErr α → Except ParseErr α → Prop
  | .ok a, .ok b => a = b
  | .error e1, .error e2 => e1.error = e2.error
  | _, _ => False

theorem EqUpToColumn.shift {α} (k : Nat) (r : Except ParseErr α) : EqUpToColumn (shiftErr k r) r := by
  cases r <;> simp [EqUpToColumn, shiftErr]

theorem EqUpToColumn.map {α β} (f : α → β) {r1 r2 : Except ParseErr α} (h : EqUpToColumn r1 r2) :
    EqUpToColumn (r1.map f) (r2.map f) := by
  cases r1 <;> cases r2 <;> simp_all [EqUpToColumn, Except.map]

/-- what `classify` needs from the expression parser for indentation not to matter in an *expression statement*:
leading blanks are skipped — same tree, or the same error text.  (The error column is NOT simply moved: an error at the
very start of the text is reported at column 1 with or without leading blanks, parser.py:612/473.) -/
def SkipsLeadingBlanks (parseExpr : String → Except ParseErr Expr) : Prop :=
  ∀ ws s : Chars, allSpace ws = true →
    EqUpToColumn (parseExpr (String.ofList (ws ++ s))) (parseExpr (String.ofList s))

/-- every statement kind except the expression statement: no assumption about the expression parser is needed — the
captured expression text is the same, only `match.start(expr)` moves -/
theorem classifyL_leading_ws_stmt (pe : String → Except ParseErr Expr) {ws : Chars} (l : Chars)
    (h : allSpace ws = true) (hs : shape l ≠ .exprStmt) :
    classifyL pe (ws ++ l) = shiftErr ws.length (classifyL pe l) := by
  unfold classifyL
  rw [shape_leading_ws l h]
  cases hs' : shape l with
  | jump n c => cases c with
    | none => rfl
    | some p => obtain ⟨o, e⟩ := p; simp only [Shape.shift]; rw [← shiftErr_shiftErr, shiftErr_map]
  | ret c => cases c with
    | none => rfl
    | some p => obtain ⟨o, e⟩ := p; simp only [Shape.shift]; rw [← shiftErr_shiftErr, shiftErr_map]
  | exprStmt => exact absurd hs' hs
  | assign n o e => simp only [Shape.shift]; rw [← shiftErr_shiftErr, shiftErr_map]
  | ifBegin o e => simp only [Shape.shift]; rw [← shiftErr_shiftErr, shiftErr_map]
  | elif o e => simp only [Shape.shift]; rw [← shiftErr_shiftErr, shiftErr_map]
  | whileBegin o e => simp only [Shape.shift]; rw [← shiftErr_shiftErr, shiftErr_map]
  | forBegin v i o e => simp only [Shape.shift]; rw [← shiftErr_shiftErr, shiftErr_map]
  | _ => rfl

theorem classifyL_leading_ws (pe : String → Except ParseErr Expr) (hpe : SkipsLeadingBlanks pe) {ws : Chars} (l : Chars)
    (h : allSpace ws = true) : EqUpToColumn (classifyL pe (ws ++ l)) (classifyL pe l) := by
  by_cases hs : shape l = .exprStmt
  · unfold classifyL
    rw [shape_leading_ws l h, hs]
    simp only [Shape.shift]
    exact (hpe ws l h).map _
  · rw [classifyL_leading_ws_stmt pe l h hs]
    exact EqUpToColumn.shift _ _

/-! ### white space and word characters are disjoint (the recognisers rely on it: what follows `\w*` or `\s*`) -/

def spaceCodes : List Nat :=
  [9, 10, 11, 12, 13, 0x1c, 0x1d, 0x1e, 0x1f, 0x20, 0x85, 0xa0, 0x1680, 0x2000, 0x2001, 0x2002, 0x2003, 0x2004, 0x2005,
   0x2006, 0x2007, 0x2008, 0x2009, 0x200a, 0x2028, 0x2029, 0x202f, 0x205f, 0x3000]

theorem isSpaceN_mem {n : Nat} (h : isSpaceN n = true) : n ∈ spaceCodes := by
  simp only [isSpaceN, Bool.or_eq_true, Bool.and_eq_true, decide_eq_true_eq, beq_iff_eq] at h
  simp only [spaceCodes, List.mem_cons, List.not_mem_nil, or_false]
  omega

theorem spaceCodes_not_word : ∀ n ∈ spaceCodes, isWordN n = false := by decide +kernel

theorem space_not_word {c : Char} (h : isSpace c = true) : isWord c = false :=
  spaceCodes_not_word _ (isSpaceN_mem h)

/-! ### trailing blanks -/

theorem allSpace_append (a b : Chars) : allSpace (a ++ b) = (allSpace a && allSpace b) := by
  simp [allSpace]

theorem isPrefixOf_append_ws (kw : Chars) : ∀ (s ws : Chars), (∀ k ∈ kw, isSpace k = false) → allSpace ws = true →
    kw.isPrefixOf (s ++ ws) = kw.isPrefixOf s := by
  induction kw with
  | nil => intros; simp
  | cons k ks ih =>
    intro s ws hk hws
    cases s with
    | nil =>
      cases ws with
      | nil => rfl
      | cons w ws' =>
        have hw : isSpace w = true := by simp [allSpace] at hws; exact hws.1
        have : k ≠ w := by intro e; rw [e] at hk; have := hk w (by simp); simp [hw] at this
        simp [List.isPrefixOf, this]
    | cons c s' =>
      simp only [List.cons_append, List.isPrefixOf]
      rw [ih s' ws (fun x hx => hk x (List.mem_cons_of_mem _ hx)) hws]

theorem keyword?_append_ws (kw : String) (s ws : Chars) (hkw : ∀ k ∈ kw.toList, isSpace k = false)
    (hws : allSpace ws = true) : keyword? kw (s ++ ws) = (keyword? kw s).map (· ++ ws) := by
  unfold keyword?
  rw [isPrefixOf_append_ws _ _ _ hkw hws]
  by_cases h : kw.toList.isPrefixOf s = true
  · have hp : kw.toList <+: s := List.isPrefixOf_iff_prefix.mp h
    have hl : kw.length ≤ s.length := by rw [← String.length_toList]; exact hp.length_le
    simp [h, List.drop_append_of_le_length hl]
  · simp [h]

theorem kwOnly?_append_ws (kw : String) (sh : Shape) (s ws : Chars) (hkw : ∀ k ∈ kw.toList, isSpace k = false)
    (hws : allSpace ws = true) : kwOnly? kw sh (s ++ ws) = kwOnly? kw sh s := by
  unfold kwOnly?
  rw [keyword?_append_ws kw s ws hkw hws]
  cases keyword? kw s <;> simp [allSpace_append, hws]

theorem rev_dropWhile_append_ws (r ws : Chars) (hws : allSpace ws = true) :
    (r ++ ws).reverse.dropWhile isSpace = r.reverse.dropWhile isSpace := by
  rw [List.reverse_append]
  apply List.dropWhile_append_of_pos
  intro a ha; simp [allSpace] at hws; exact hws a (by simpa using ha)

theorem exprColon?_append_ws (r ws : Chars) (hws : allSpace ws = true) : exprColon? (r ++ ws) = exprColon? r := by
  unfold exprColon?
  rw [rev_dropWhile_append_ws r ws hws]

theorem kwExprColon?_append_ws (kw : String) (mk : Nat → Chars → Shape) (s ws : Chars)
    (hkw : ∀ k ∈ kw.toList, isSpace k = false) (hws : allSpace ws = true) :
    kwExprColon? kw mk (s ++ ws) = kwExprColon? kw mk s := by
  unfold kwExprColon?
  rw [keyword?_append_ws kw s ws hkw hws]
  cases keyword? kw s <;> simp [exprColon?_append_ws _ _ hws]

theorem lstrip_append_right (r ws : Chars) (hws : allSpace ws = true) :
    lstripL (r ++ ws) = if lstripL r = [] then [] else lstripL r ++ ws := by
  unfold lstripL
  rw [List.dropWhile_append]
  have : List.dropWhile isSpace ws = [] := by rw [dropWhile_eq_nil_iff']; simpa [allSpace] using hws
  cases h : List.dropWhile isSpace r <;> simp [this]

theorem else?_append_ws (s ws : Chars) (hws : allSpace ws = true) : else? (s ++ ws) = else? s := by
  unfold else?
  rw [keyword?_append_ws "else" s ws (by decide) hws]
  cases keyword? "else" s with
  | none => rfl
  | some r =>
    simp only [Option.map_some, lstrip_append_right r ws hws]
    cases h : lstripL r with
    | nil => simp
    | cons c cs =>
      simp only [List.cons_append, reduceCtorEq, if_false]
      by_cases hc : c = ':'
      · subst hc; simp [allSpace_append, hws]
      · split <;> simp_all

/-- append blanks to the expression text of a `return` -/
def addTrail (ws : Chars) : Shape → Shape
  | .ret (some (off, e)) => .ret (some (off, e ++ ws))
  | s => s

theorem return?_append_ws (s ws : Chars) (hws : allSpace ws = true) :
    return? (s ++ ws) = (return? s).map (addTrail ws) := by
  unfold return?
  rw [keyword?_append_ws "return" s ws (by decide) hws]
  cases hk : keyword? "return" s with
  | none => rfl
  | some r =>
    simp only [Option.map_some, allSpace_append, hws, Bool.and_true]
    by_cases hr : allSpace r = true
    · simp [hr, addTrail]
    · simp only [hr, Bool.false_eq_true, if_false]
      cases r with
      | nil => simp [allSpace] at hr
      | cons c r0 =>
        simp only [List.cons_append]
        by_cases hc : isSpace c = true
        · have hne : lstripL (c :: r0) ≠ [] := by
            intro e
            have : firstNS (c :: r0) = none := by simp [firstNS, e]
            rw [firstNS_none_iff] at this; exact hr this
          have e1 : lstripL (c :: (r0 ++ ws)) = lstripL (c :: r0) ++ ws := by
            have := lstrip_append_right (c :: r0) ws hws
            simpa [hne] using this
          have hl : (lstripL (c :: r0)).length ≤ s.length := by
            have h1 := lstrip_length_le (c :: r0)
            have h2 : (c :: r0).length ≤ s.length := by
              unfold keyword? at hk
              split at hk
              · simp at hk; rw [← hk]; simp
              · simp at hk
            omega
          simp only [hc, if_true, e1, Option.map_some, addTrail, List.length_append]
          congr 4; omega
        · simp [hc]

/-! ### one-word lines (the keyword statements and the bare `return`) -/

theorem keyword?_head_ne (kw : String) (k c : Char) (l : Chars) (hk : kw.toList.head? = some k) (h : k ≠ c) :
    keyword? kw (c :: l) = none := by
  unfold keyword?
  cases hl : kw.toList with
  | nil => simp [hl] at hk
  | cons a as =>
    simp [hl] at hk; subst hk
    simp [List.isPrefixOf, h]

theorem idStart_isWord {c : Char} (h : isIdStart c = true) : isWord c = true := by
  revert h; unfold isIdStart isWord isWordN
  simp only [Bool.or_eq_true, Bool.and_eq_true, decide_eq_true_eq, beq_iff_eq]
  intro h
  have hlt : c.toNat < 128 := by omega
  simp only [hlt, if_true, Bool.or_eq_true, Bool.and_eq_true, decide_eq_true_eq, beq_iff_eq]; omega

theorem word_ws_split {ws : Chars} (hws : allSpace ws = true) :
    ws.takeWhile isWord = [] ∧ ws.dropWhile isWord = ws := by
  cases ws with
  | nil => simp
  | cons w ws' =>
    have hw : isSpace w = true := by simp [allSpace] at hws; exact hws.1
    simp [space_not_word hw]

theorem ident?_word_ws {c : Char} {rest ws : Chars} (hc : isIdStart c = true) (hr : ∀ x ∈ rest, isWord x = true)
    (hws : allSpace ws = true) : ident? (c :: (rest ++ ws)) = some (c :: rest, ws) := by
  obtain ⟨h1, h2⟩ := word_ws_split hws
  simp [ident?, hc, List.takeWhile_append_of_pos hr, List.dropWhile_append_of_pos hr, h1, h2]

theorem lstrip_allSpace {ws : Chars} (hws : allSpace ws = true) : lstripL ws = [] := by
  unfold lstripL; rw [dropWhile_eq_nil_iff']; simpa [allSpace] using hws

/-- a line that is one identifier-like word followed by blanks -/
theorem shapeS_word_ws {c : Char} {rest ws : Chars} (hc : isIdStart c = true) (hr : ∀ x ∈ rest, isWord x = true)
    (hws : allSpace ws = true) (ha : 'a' ≠ c) (hf : 'f' ≠ c) (hj : 'j' ≠ c) (hi : 'i' ≠ c) :
    shapeS (c :: (rest ++ ws)) = shapeS (c :: rest) := by
  have A1 : assign? (c :: (rest ++ ws)) = none := by
    simp [assign?, ident?_word_ws hc hr hws, lstrip_allSpace hws]
  have A0 : assign? (c :: rest) = none := by
    have := ident?_word_ws (ws := []) hc hr rfl
    simp at this
    simp [assign?, this, lstripL]
  have L1 : label? (c :: (rest ++ ws)) = none := by
    simp [label?, ident?_word_ws hc hr hws, lstrip_allSpace hws]
  have L0 : label? (c :: rest) = none := by
    have := ident?_word_ws (ws := []) hc hr rfl
    simp at this
    simp [label?, this, lstripL]
  have F : ∀ l, funcBegin? (c :: l) = none := by
    intro l
    simp [funcBegin?, keyword?_head_ne "async" 'a' c l rfl ha, keyword?_head_ne "function" 'f' c l rfl hf]
  have R : ∀ l, for? (c :: l) = none := by
    intro l; simp [for?, keyword?_head_ne "for" 'f' c l rfl hf]
  have J : ∀ l, jump? (c :: l) = none := by
    intro l; simp [jump?, keyword?_head_ne "jump" 'j' c l rfl hj]
  have I : ∀ l, include? (c :: l) = none := by
    intro l; simp [include?, keyword?_head_ne "include" 'i' c l rfl hi]
  -- a one-word line is a bare `return` or no `return` statement at all
  have RT : return? (c :: (rest ++ ws)) = return? (c :: rest) := by
    rw [← List.cons_append, return?_append_ws _ _ hws]
    unfold return?
    cases hk : keyword? "return" (c :: rest) with
    | none => rfl
    | some r =>
      have hrw : ∀ x ∈ r, isWord x = true := by
        unfold keyword? at hk
        split at hk
        · simp only [Option.some.injEq] at hk
          intro x hx; rw [← hk] at hx
          have := List.mem_of_mem_drop hx
          simp only [List.mem_cons] at this
          rcases this with rfl | h
          · exact idStart_isWord hc
          · exact hr x h
        · simp at hk
      by_cases hall : allSpace r = true
      · simp [hall, addTrail]
      · simp only [hall, Bool.false_eq_true, if_false]
        cases r with
        | nil => simp [allSpace] at hall
        | cons d r0 =>
          have hd : isSpace d = false := by
            cases hsd : isSpace d with
            | false => rfl
            | true => have := space_not_word hsd; simp [hrw d (by simp)] at this
          simp [hd]
  unfold shapeS
  rw [← List.cons_append] at A1 L1 RT
  have F1 : funcBegin? (c :: rest ++ ws) = none := F _
  have R1 : for? (c :: rest ++ ws) = none := R _
  have J1 : jump? (c :: rest ++ ws) = none := J _
  have I1 : include? (c :: rest ++ ws) = none := I _
  rw [← List.cons_append, A1, A0, L1, L0, F1, F, R1, R, J1, J, I1, I, RT,
    kwOnly?_append_ws "endfunction" _ _ _ (by decide) hws, kwOnly?_append_ws "endif" _ _ _ (by decide) hws,
    kwOnly?_append_ws "endwhile" _ _ _ (by decide) hws, kwOnly?_append_ws "endfor" _ _ _ (by decide) hws,
    kwOnly?_append_ws "break" _ _ _ (by decide) hws, kwOnly?_append_ws "continue" _ _ _ (by decide) hws,
    kwExprColon?_append_ws "if" _ _ _ (by decide) hws, kwExprColon?_append_ws "elif" _ _ _ (by decide) hws,
    kwExprColon?_append_ws "while" _ _ _ (by decide) hws, else?_append_ws _ _ hws]

end C10

