import BareProofs.C10BreakLemmas

/-!
# C10 — a line broken with a trailing backslash at any inter-token blank, for every statement kind

`BareProofs/C10Ws.lean` proves `continuation_break_irrelevant` under the hypothesis that the statement pattern captures the
same groups around the blank run, and discharges it for assignments only.  Here the hypothesis is removed for every
statement kind of the cascade, and blank runs in the *statement part* of a line (outside the expression) are covered.

The lines are given by their tokens and blank runs (that is all a line of that kind can be: the patterns are anchored).

* `IsFrame`, `frame_header` (`if` / `elif` / `while`), `frame_for`, `frame_return`, `frame_jumpif`, `frame_assign`:
  **`shape_<kind>_replace`** in its strongest form — for *every* admissible expression text `e` the line `pre ++ e ++ post`
  is that statement with the expression `e` captured at offset `|pre|`; the classified line is
  `(shiftErr |pre| (parseExpr e)).map f`.  So replacing the expression text keeps the pattern, name(s) and offset.
* `classifyL_jump`, `classifyL_else`, `classifyL_include`, `classifyL_include_system`, `classifyL_function`,
  `classifyL_call`: the statement kinds without a captured expression, and the expression statement (fallback).
* `SameExpr` / `sameExpr_parse`: expression texts that differ by blank runs outside string literals and bracketed names
  (`Gap`), by trailing blanks, by leading blanks (closed under transitivity) parse to the same tree / same error text.
* `SameStmt` / `sameStmt_classify`: **the same statement in two layouts** — every blank run of the statement part replaced
  by any other blank run (non-empty where the pattern has `\s+`, possibly empty where it has `\s*`), the expression
  replaced by a `SameExpr` one — classifies identically up to the error column.  One constructor per statement kind.
* `continuation_break_statement`: the summary — the physical lines `p \` / `q` give the logical line `p ++ " " ++ q`, and
  if that is the same statement as `p ++ ws ++ q` (`SameStmt`), the classified lines agree up to the column.
  `continuation_break_irrelevant_<kind>`: the instances, with no hypothesis about the statement pattern.
* `examples` at the end: where a blank is NOT allowed (inside a keyword, inside a name, between `jump` and `if`, between
  the dots of `...`), and the one place where the *length* of a run matters (`if  :` versus `if :`).
-/

namespace C10
open Text Scan

/-! ## admissible expression texts -/

/-- non-empty and starts with a non-blank (what `\s+(.+)` / `\s*(.+)$` captures after taking all blanks) -/
def nbStart : Chars → Bool
  | d :: _ => !isSpace d
  | [] => false

/-- … and does not start with `=` (else the line is an assignment to a variable named like the keyword) -/
def exprStart : Chars → Bool
  | d :: _ => !isSpace d && d != '='
  | [] => false

/-- … and is not a colon followed by blanks (`return :` is the label `return`) -/
def retStart : Chars → Bool
  | d :: r => !isSpace d && d != '=' && !(d == ':' && allSpace r)
  | [] => false

theorem nbStart_iff {e : Chars} (h : nbStart e = true) : ∃ d e1, e = d :: e1 ∧ isSpace d = false := by
  cases e with
  | nil => simp [nbStart] at h
  | cons d e1 => exact ⟨d, e1, rfl, by simpa [nbStart] using h⟩

theorem exprStart_iff {e : Chars} (h : exprStart e = true) : ∃ d e1, e = d :: e1 ∧ isSpace d = false ∧ d ≠ '=' := by
  cases e with
  | nil => simp [exprStart] at h
  | cons d e1 => exact ⟨d, e1, rfl, by simpa [exprStart] using h⟩

theorem retStart_iff {e : Chars} (h : retStart e = true) :
    ∃ d e1, e = d :: e1 ∧ isSpace d = false ∧ d ≠ '=' ∧ (d = ':' → allSpace e1 = false) := by
  cases e with
  | nil => simp [retStart] at h
  | cons d e1 =>
    simp only [retStart, Bool.and_eq_true, Bool.not_eq_true', bne_iff_ne, ne_eq, Bool.and_eq_false_imp, beq_iff_eq] at h
    exact ⟨d, e1, rfl, h.1.1, h.1.2, h.2⟩

example : nbStart "x + 1 ".toList = true ∧ exprStart "x + 1 ".toList = true ∧ retStart ":x".toList = true ∧
    exprStart "= 1".toList = false ∧ retStart ":  ".toList = false := by decide

/-! ## frames: statement kinds with a captured expression -/

/-- for every admissible expression text `e`, the line `pre ++ e ++ post` is the statement `f` of the expression `e`,
captured at offset `|pre|` -/
def IsFrame (pre post : Chars) (ok : Chars → Bool) (f : Expr → Line) : Prop :=
  ∀ (pe : String → Except ParseErr Expr) (e : Chars), ok e = true →
    classifyL pe (pre ++ (e ++ post)) = (shiftErr pre.length (pe (String.ofList e))).map f

/-- the three headers `kw <expr>:` -/
structure Header where
  kw : String
  mkS : Nat → Chars → Shape
  mkL : Expr → Line

def headers : List Header :=
  [⟨"if", .ifBegin, .ifBegin⟩, ⟨"elif", .elif, .elif⟩, ⟨"while", .whileBegin, .whileBegin⟩]

theorem nbStart_cons {d : Char} (hd : isSpace d = false) (r : Chars) : nbStart (d :: r) = true := by
  simp [nbStart, hd]

theorem shape_ind {s : Chars} (ind : Chars) (hi : allSpace ind = true) (hs : nbStart s = true) :
    shape (ind ++ s) = (shapeS s).shift ind.length := by
  obtain ⟨d, r, rfl, hd⟩ := nbStart_iff hs
  exact shape_of_shapeS (lstripL_cons_ns hd _) ind hi

/-- **`if` / `elif` / `while`**: `ind kw w1 e : w3` with any indentation, a non-empty blank run `w1`, any blanks `w3`, and any
expression text `e` that starts with a non-blank other than `=` (it may contain colons and end with blanks). -/
theorem frame_header (h : Header) (hh : h ∈ headers) {ind w1 w3 : Chars} (hi : allSpace ind = true)
    (hw1 : allSpace w1 = true) (hne : w1 ≠ []) (hw3 : allSpace w3 = true) :
    IsFrame (ind ++ (h.kw.toList ++ w1)) (':' :: w3) exprStart h.mkL := by
  intro pe e he
  obtain ⟨d, e1, rfl, hd, hde⟩ := exprStart_iff he
  simp only [headers, List.mem_cons, List.not_mem_nil, or_false] at hh
  have hl : ∀ kw : String, (ind ++ (kw.toList ++ w1)) ++ (d :: e1 ++ ':' :: w3) = ind ++ (kw.toList ++ (w1 ++ d :: e1 ++ ':' :: w3)) := by
    intro kw; simp
  unfold classifyL
  rcases hh with rfl | rfl | rfl
  · dsimp only
    rw [hl, shape_ind (s := "if".toList ++ (w1 ++ d :: e1 ++ ':' :: w3)) ind hi (nbStart_cons (d := 'i') (by decide) _),
      shapeS_if d e1 hw1 hne hd hde hw3]
    simp only [Shape.shift, List.length_append]
    congr 2; simp; omega
  · dsimp only
    rw [hl, shape_ind (s := "elif".toList ++ (w1 ++ d :: e1 ++ ':' :: w3)) ind hi (nbStart_cons (d := 'e') (by decide) _),
      shapeS_elif d e1 hw1 hne hd hde hw3]
    simp only [Shape.shift, List.length_append]
    congr 2; simp; omega
  · dsimp only
    rw [hl, shape_ind (s := "while".toList ++ (w1 ++ d :: e1 ++ ':' :: w3)) ind hi (nbStart_cons (d := 'w') (by decide) _),
      shapeS_while d e1 hw1 hne hd hde hw3]
    simp only [Shape.shift, List.length_append]
    congr 2; simp; omega

/-- **`for v[, i] in e:`** — any non-empty blank runs after `for`, before and after `in`; any (possibly empty) blanks
around the comma and after the colon. -/
theorem frame_for {ind w1 v w4 w5 w6 : Chars} (mid : Option (Chars × Chars × Chars)) (hi : allSpace ind = true)
    (hw1 : allSpace w1 = true) (hne1 : w1 ≠ []) (hv : isIdent v = true) (hm : forMidOK mid = true)
    (hw4 : allSpace w4 = true) (hne4 : w4 ≠ []) (hw5 : allSpace w5 = true) (hne5 : w5 ≠ []) (hw6 : allSpace w6 = true) :
    IsFrame (ind ++ ("for".toList ++ (w1 ++ (v ++ (forMid mid ++ (w4 ++ ("in".toList ++ w5))))))) (':' :: w6) nbStart
      (Line.forBegin (nameOf v) ((mid.map (fun m => m.2.2)).map nameOf)) := by
  intro pe e he
  obtain ⟨d, e1, rfl, hd⟩ := nbStart_iff he
  have hl : (ind ++ ("for".toList ++ (w1 ++ (v ++ (forMid mid ++ (w4 ++ ("in".toList ++ w5))))))) ++ (d :: e1 ++ ':' :: w6) =
      ind ++ ("for".toList ++ (w1 ++ (v ++ (forMid mid ++ (w4 ++ ("in".toList ++ (w5 ++ d :: e1 ++ ':' :: w6))))))) := by
    simp
  unfold classifyL
  rw [hl, shape_ind (s := "for".toList ++ _) ind hi (nbStart_cons (d := 'f') (by decide) _),
    shapeS_for mid d e1 hw1 hne1 hv hm hw4 hne4 hw5 hne5 hd hw6]
  simp only [Shape.shift]
  congr 2
  simp only [List.length_append]; omega

/-- **`return e`** — any non-empty blank run after `return`. -/
theorem frame_return {ind w1 : Chars} (hi : allSpace ind = true) (hw1 : allSpace w1 = true) (hne : w1 ≠ []) :
    IsFrame (ind ++ ("return".toList ++ w1)) [] retStart (fun c => Line.ret (some c)) := by
  intro pe e he
  obtain ⟨d, e1, rfl, hd, hde, hlab⟩ := retStart_iff he
  have hl : (ind ++ ("return".toList ++ w1)) ++ (d :: e1 ++ []) = ind ++ ("return".toList ++ (w1 ++ d :: e1)) := by simp
  unfold classifyL
  rw [hl, shape_ind (s := "return".toList ++ _) ind hi (nbStart_cons (d := 'r') (by decide) _),
    shapeS_return d e1 hw1 hne hd hde hlab]
  simp only [Shape.shift]
  congr 2
  simp; omega

/-- **`jumpif (e) label`** — any blanks (also none) between `jumpif` and `(`, any non-empty run before the label, any blanks
after it; `e` is whatever stands between the first `(` and the last `)`. -/
theorem frame_jumpif {ind w0 w1 nm w2 : Chars} (hi : allSpace ind = true) (hw0 : allSpace w0 = true)
    (hw1 : allSpace w1 = true) (hne : w1 ≠ []) (hid : isIdent nm = true) (hw2 : allSpace w2 = true) :
    IsFrame (ind ++ ("jumpif".toList ++ (w0 ++ ['(']))) (')' :: (w1 ++ (nm ++ w2))) (fun e => !e.isEmpty)
      (fun c => Line.jump (nameOf nm) (some c)) := by
  intro pe e he
  have hee : e ≠ [] := by intro h; subst h; simp at he
  have hl : (ind ++ ("jumpif".toList ++ (w0 ++ ['(']))) ++ (e ++ ')' :: (w1 ++ (nm ++ w2))) =
      ind ++ ("jumpif".toList ++ (w0 ++ '(' :: (e ++ ')' :: (w1 ++ (nm ++ w2))))) := by simp
  unfold classifyL
  rw [hl, shape_ind (s := "jumpif".toList ++ _) ind hi (nbStart_cons (d := 'j') (by decide) _),
    shapeS_jumpif e hw0 hee hw1 hne hid hw2]
  simp only [Shape.shift]
  congr 2
  simp; omega

/-- **`name = e`** — any blanks (also none) around `=`. -/
theorem frame_assign {ind nm w1 w2 : Chars} (hi : allSpace ind = true) (hid : isIdent nm = true)
    (hw1 : allSpace w1 = true) (hw2 : allSpace w2 = true) :
    IsFrame (ind ++ (nm ++ (w1 ++ '=' :: w2))) [] nbStart (Line.assign (nameOf nm)) := by
  intro pe e he
  obtain ⟨d, e1, rfl, hd⟩ := nbStart_iff he
  obtain ⟨c, cs, rfl, hcn, _⟩ := isIdent_head_ns hid
  have hl : (ind ++ (c :: cs ++ (w1 ++ '=' :: w2))) ++ (d :: e1 ++ []) = ind ++ (c :: cs ++ (w1 ++ '=' :: (w2 ++ d :: e1))) := by
    simp
  unfold classifyL
  rw [hl, shape_ind (s := c :: cs ++ _) ind hi (nbStart_cons hcn _), shapeS_assign d e1 hid hw1 hw2 hd]
  simp only [Shape.shift]
  congr 2
  simp only [List.length_append]; omega

/-! ## statement kinds without a captured expression; expression statements -/

/-- **`jump label`** -/
theorem classifyL_jump (pe : String → Except ParseErr Expr) {ind w1 nm w2 : Chars} (hi : allSpace ind = true)
    (hw1 : allSpace w1 = true) (hne : w1 ≠ []) (hid : isIdent nm = true) (hw2 : allSpace w2 = true) :
    classifyL pe (ind ++ ("jump".toList ++ (w1 ++ (nm ++ w2)))) = .ok (.jump (nameOf nm) none) := by
  have : shape (ind ++ ("jump".toList ++ (w1 ++ (nm ++ w2)))) = .jump nm none := by
    rw [shape_ind (s := "jump".toList ++ _) ind hi (nbStart_cons (d := 'j') (by decide) _), shapeS_jump hw1 hne hid hw2]; rfl
  unfold classifyL
  rw [this]

/-- **`else:`** — any blanks (also none) before the colon -/
theorem classifyL_else (pe : String → Except ParseErr Expr) {ind w1 w2 : Chars} (hi : allSpace ind = true)
    (hw1 : allSpace w1 = true) (hw2 : allSpace w2 = true) :
    classifyL pe (ind ++ ("else".toList ++ (w1 ++ ':' :: w2))) = .ok .else_ := by
  have : shape (ind ++ ("else".toList ++ (w1 ++ ':' :: w2))) = .else_ := by
    rw [shape_ind (s := "else".toList ++ _) ind hi (nbStart_cons (d := 'e') (by decide) _), shapeS_else hw1 hw2]; rfl
  unfold classifyL
  rw [this]

/-- **`include 'url'`** — a non-empty blank run after `include` -/
theorem classifyL_include (pe : String → Except ParseErr Expr) {ind w1 w2 : Chars} (body : Chars) (hi : allSpace ind = true)
    (hw1 : allSpace w1 = true) (hne : w1 ≠ []) (hq : quotesEscaped body = true) (hw2 : allSpace w2 = true) :
    classifyL pe (ind ++ ("include".toList ++ (w1 ++ '\'' :: (body ++ '\'' :: w2)))) =
      .ok (.include (String.ofList (unescapeQuote body)) false) := by
  have : shape (ind ++ ("include".toList ++ (w1 ++ '\'' :: (body ++ '\'' :: w2)))) = .include (unescapeQuote body) false := by
    rw [shape_ind (s := "include".toList ++ _) ind hi (nbStart_cons (d := 'i') (by decide) _),
      shapeS_include body hw1 hne hq hw2]; rfl
  unfold classifyL
  rw [this]

/-- **`include <url>`** -/
theorem classifyL_include_system (pe : String → Except ParseErr Expr) {ind w1 w2 : Chars} (url : Chars)
    (hi : allSpace ind = true) (hw1 : allSpace w1 = true) (hne : w1 ≠ []) (hu : ∀ a ∈ url, a ≠ '>')
    (hw2 : allSpace w2 = true) :
    classifyL pe (ind ++ ("include".toList ++ (w1 ++ '<' :: (url ++ '>' :: w2)))) =
      .ok (.include (String.ofList url) true) := by
  have : shape (ind ++ ("include".toList ++ (w1 ++ '<' :: (url ++ '>' :: w2)))) = .include url true := by
    rw [shape_ind (s := "include".toList ++ _) ind hi (nbStart_cons (d := 'i') (by decide) _),
      shapeS_include_system url hw1 hne hu hw2]; rfl
  unfold classifyL
  rw [this]

/-- **`[async] function name(params[...]):`** — a non-empty run after `function`; any blanks (also none) after `async`,
before `(`, after `(`, around each comma, before `...`, before `)`, before and after `:`. -/
theorem classifyL_function (pe : String → Except ParseErr Expr) {ind w1 nm w2 w3 w4 w5 w6 w7 : Chars} (asy : Option Chars)
    (args : Option (Chars × List (Chars × Chars × Chars))) (dots : Bool) (hi : allSpace ind = true)
    (hasy : ∀ w0, asy = some w0 → allSpace w0 = true) (hw1 : allSpace w1 = true) (hne1 : w1 ≠ [])
    (hid : isIdent nm = true) (hw2 : allSpace w2 = true) (hw3 : allSpace w3 = true) (ha : argsOK args = true)
    (hw4 : allSpace w4 = true) (hw5 : allSpace w5 = true) (hw6 : allSpace w6 = true) (hw7 : allSpace w7 = true) :
    classifyL pe (ind ++ (asyncText asy ++ ("function".toList ++ (w1 ++ (nm ++ fnRest w2 w3 args w4 dots w5 w6 w7))))) =
      .ok (.funcBegin (nameOf nm) ((argNames args).map nameOf) dots asy.isSome) := by
  have hnb : nbStart (asyncText asy ++ ("function".toList ++ (w1 ++ (nm ++ fnRest w2 w3 args w4 dots w5 w6 w7)))) = true := by
    cases asy with
    | none => exact nbStart_cons (d := 'f') (by decide) _
    | some w0 => exact nbStart_cons (d := 'a') (by decide) _
  have : shape (ind ++ (asyncText asy ++ ("function".toList ++ (w1 ++ (nm ++ fnRest w2 w3 args w4 dots w5 w6 w7))))) =
      .funcBegin nm (argNames args) dots asy.isSome := by
    rw [shape_ind ind hi hnb, shapeS_function asy args dots hasy hw1 hne1 hid hw2 hw3 ha hw4 hw5 hw6 hw7]; rfl
  unfold classifyL
  rw [this]

/-- a call line `ind name(…`: an identifier that does not begin with a statement keyword, immediately followed by `(` -/
def isCallLine (l : Chars) : Bool :=
  match ident? (lstripL l) with
  | some (nm, '(' :: _) => noKeywordPrefix nm
  | _ => false

theorem isCallLine_iff {l : Chars} (h : isCallLine l = true) :
    ∃ ind nm x, l = ind ++ (nm ++ '(' :: x) ∧ allSpace ind = true ∧ isIdent nm = true ∧ noKeywordPrefix nm = true := by
  obtain ⟨ind, hind, hl⟩ := lstrip_decomp l
  unfold isCallLine at h
  cases hi : ident? (lstripL l) with
  | none => rw [hi] at h; cases h
  | some p =>
    obtain ⟨nm, r⟩ := p
    rw [hi] at h
    cases r with
    | nil => simp at h
    | cons c x =>
      by_cases hc : c = '('
      · subst hc
        simp only at h
        refine ⟨ind, nm, x, ?_, hind, ?_, h⟩
        · rw [← ident?_decomp hi]; exact hl
        · cases hs : lstripL l with
          | nil => rw [hs] at hi; simp [ident?] at hi
          | cons a as =>
            rw [hs] at hi
            simp only [ident?] at hi
            split at hi
            · rename_i ha
              simp only [Option.some.injEq, Prod.mk.injEq] at hi
              obtain ⟨rfl, _⟩ := hi
              simp only [isIdent, ha, Bool.true_and, List.all_eq_true]
              exact fun x hx => mem_takeWhile_true hx
            · cases hi
      · split at h
        · rename_i heq; simp only [Option.some.injEq, Prod.mk.injEq, List.cons.injEq] at heq; exact absurd heq.2.1 hc
        · cases h

/-- **Expression statements** (call lines): the whole line goes to the expression parser. -/
theorem classifyL_call (pe : String → Except ParseErr Expr) {l : Chars} (h : isCallLine l = true) :
    classifyL pe l = (pe (String.ofList l)).map Line.exprStmt := by
  obtain ⟨ind, nm, x, rfl, hind, hid, hk⟩ := isCallLine_iff h
  obtain ⟨c, cs, rfl, hcn, _⟩ := isIdent_head_ns hid
  have : shape (ind ++ (c :: cs ++ '(' :: x)) = .exprStmt := by
    rw [shape_ind (s := c :: cs ++ _) ind hind (nbStart_cons hcn _), shapeS_call x hid hk]; rfl
  unfold classifyL
  rw [this]

example : isCallLine "  systemLog('a  b', 1)".toList = true ∧ isCallLine "ifx(1)".toList = false ∧
    isCallLine "f (1)".toList = false := by decide

/-! ## the same expression / the same statement in two layouts -/

theorem EqUpToColumn.refl {α} (r : Except ParseErr α) : EqUpToColumn r r := by
  cases r <;> simp [EqUpToColumn]

theorem EqUpToColumn.symm {α} {r1 r2 : Except ParseErr α} (h : EqUpToColumn r1 r2) : EqUpToColumn r2 r1 := by
  cases r1 <;> cases r2 <;> simp_all [EqUpToColumn]

theorem EqUpToColumn.trans {α} {r1 r2 r3 : Except ParseErr α} (h : EqUpToColumn r1 r2) (h' : EqUpToColumn r2 r3) :
    EqUpToColumn r1 r3 := by
  cases r1 <;> cases r2 <;> cases r3 <;> simp_all [EqUpToColumn]

theorem EqUpToColumn.shift2 {α β} (a b : Nat) (f : α → β) {r r' : Except ParseErr α} (h : EqUpToColumn r' r) :
    EqUpToColumn ((shiftErr a r').map f) ((shiftErr b r).map f) := by
  cases r <;> cases r' <;> simp_all [EqUpToColumn, shiftErr, Except.map]

/-- expression texts that differ only in their layout: a non-empty blank run outside string literals and bracketed names
replaced by another (`Gap`), other trailing blanks, other leading blanks — any number of times -/
inductive SameExpr : Chars → Chars → Prop
  | refl (e : Chars) : SameExpr e e
  | gap {ws ws' q e e' : Chars} (hws : allSpace ws = true) (hws' : allSpace ws' = true) (hne : ws ≠ []) (hne' : ws' ≠ [])
      (h : Gap ws ws' q e e') : SameExpr e e'
  | trail (e : Chars) {ws ws' : Chars} (hws : allSpace ws = true) (hws' : allSpace ws' = true) : SameExpr (e ++ ws) (e ++ ws')
  | lead {ws ws' : Chars} (e : Chars) (hws : allSpace ws = true) (hws' : allSpace ws' = true) : SameExpr (ws ++ e) (ws' ++ e)
  | trans {a b c : Chars} : SameExpr a b → SameExpr b c → SameExpr a c

/-- **The same expression in two layouts** parses to the same tree, or is rejected with the same error text. -/
theorem sameExpr_parse {e e' : Chars} (h : SameExpr e e') :
    EqUpToColumn (ExprParse.parseExpr (String.ofList e')) (ExprParse.parseExpr (String.ofList e)) := by
  induction h with
  | refl e => exact EqUpToColumn.refl _
  | gap hws hws' hne hne' h => exact (parseExpr_blank_stretch hws hws' hne hne' h).2
  | trail e hws hws' =>
    rw [parseExpr_trailing_blanks e _ hws, parseExpr_trailing_blanks e _ hws']; exact EqUpToColumn.refl _
  | lead e hws hws' =>
    exact (parseExpr_skips_leading_blanks _ e hws').trans (parseExpr_skips_leading_blanks _ e hws).symm
  | trans _ _ ih1 ih2 => exact ih2.trans ih1

example : SameExpr "a +  b ".toList "a + b".toList :=
  have g : SameExpr "a +  b".toList "a + b".toList :=
    .gap (ws := "  ".toList) (ws' := " ".toList) (q := "b".toList) (by decide) (by decide) (by simp) (by simp)
      (.cons 'a' rfl (.cons ' ' rfl (.cons '+' rfl .site)))
  .trans (.trail "a +  b".toList (ws := " ".toList) (ws' := []) (by decide) (by decide)) (by simpa using g)

/-- **A frame in two layouts**: the same statement kind (`f`) written with other blank runs in the statement part
(`pre'`, `post'` — both frames) and the expression in another layout: same classified line up to the error column. -/
theorem frame_layout {pre post pre' post' : Chars} {ok : Chars → Bool} {f : Expr → Line} (h : IsFrame pre post ok f)
    (h' : IsFrame pre' post' ok f) {e e' : Chars} (he : ok e = true) (he' : ok e' = true) (hs : SameExpr e e') :
    EqUpToColumn (classifyL ExprParse.parseExpr (pre' ++ (e' ++ post'))) (classifyL ExprParse.parseExpr (pre ++ (e ++ post))) := by
  rw [h _ e he, h' _ e' he']
  exact EqUpToColumn.shift2 _ _ f (sameExpr_parse hs)

/-- two lines that are the same statement written in two layouts -/
inductive SameStmt : Chars → Chars → Prop
  /-- a statement with a captured expression (`if`/`elif`/`while`, `for`, `return e`, `jumpif`, assignment): two frames of
  the same kind, the expression in two layouts -/
  | frame {pre post pre' post' : Chars} {ok : Chars → Bool} {f : Expr → Line} (h : IsFrame pre post ok f)
      (h' : IsFrame pre' post' ok f) {e e' : Chars} (he : ok e = true) (he' : ok e' = true) (hs : SameExpr e e') :
      SameStmt (pre ++ (e ++ post)) (pre' ++ (e' ++ post'))
  /-- a statement without expression (`jump`, `else:`, `include`, function header, …): both lines are the statement `r`
  whatever the expression parser is -/
  | plain {l l' : Chars} (r : Line) (h : ∀ pe, classifyL pe l = .ok r) (h' : ∀ pe, classifyL pe l' = .ok r) : SameStmt l l'
  /-- an expression statement (call line): the line in two layouts -/
  | call {l l' : Chars} (h : isCallLine l = true) (h' : isCallLine l' = true) (hs : SameExpr l l') : SameStmt l l'

/-- **The same statement in two layouts classifies identically**, up to the error column. -/
theorem sameStmt_classify {l l' : Chars} (h : SameStmt l l') :
    EqUpToColumn (classifyL ExprParse.parseExpr l') (classifyL ExprParse.parseExpr l) := by
  cases h with
  | frame h h' he he' hs => exact frame_layout h h' he he' hs
  | plain r h h' => rw [h, h']; exact EqUpToColumn.refl _
  | call h h' hs =>
    rw [classifyL_call _ h, classifyL_call _ h']
    exact (sameExpr_parse hs).map _

/-! ## line continuation -/

/-- **Summary: breaking a line at a blank run does not matter, for every statement kind.**  The logical line
`l = p ++ ws ++ q` (`ws` a non-empty blank run) and the two physical lines `p ws1 \ tr` / `ind q`: the line loop yields the
one logical line `p ++ " " ++ q`; if that is the same statement as `l` in another layout (`SameStmt`: every statement kind
with every blank run of its statement part, and every blank run of its expression outside string literals and bracketed
names — see the instances below), it classifies like `l`. -/
theorem continuation_break_statement (i ix : Nat) (p q ws ws1 tr ind : Chars) (rest : List Chars)
    (hp : rstripL p = p) (hq : stripL q = q) (hpc : isCommentL p = false) (hqc : isCommentL q = false)
    (hqb : contBody? q = none) (h1 : allSpace ws1 = true) (h2 : allSpace tr = true) (h3 : allSpace ind = true)
    (hs : SameStmt (p ++ ws ++ q) (p ++ ' ' :: q)) :
    loopL i ((p ++ ws1 ++ '\\' :: tr) :: (ind ++ q) :: rest) [] ix =
      emit (i, p ++ ' ' :: q) (loopL (i + 2) rest [] i) ∧
    EqUpToColumn (classifyL ExprParse.parseExpr (p ++ ' ' :: q)) (classifyL ExprParse.parseExpr (p ++ ws ++ q)) :=
  ⟨continuation_break_line i ix p q ws1 tr ind rest hp hq hpc hqc hqb h1 h2 h3, sameStmt_classify hs⟩

/-- a break inside the expression of the lines `pre e post`: the line `pre e1 ws qe post` broken after `e1` gives the
logical line `pre e1 " " qe post`, which classifies like the unbroken one -/
def BreakInExpr (pre post : Chars) (ok : Chars → Bool) : Prop :=
  ∀ (i ix : Nat) (e1 qe ws ws1 tr ind : Chars) (rest : List Chars),
    rstripL (pre ++ e1) = pre ++ e1 → stripL (qe ++ post) = qe ++ post →
    isCommentL (pre ++ e1) = false → isCommentL (qe ++ post) = false → contBody? (qe ++ post) = none →
    allSpace ws1 = true → allSpace tr = true → allSpace ind = true → allSpace ws = true → ws ≠ [] →
    ok (e1 ++ ws ++ qe) = true → ok (e1 ++ ' ' :: qe) = true → Gap ws [' '] qe (e1 ++ ws ++ qe) (e1 ++ ' ' :: qe) →
    loopL i ((pre ++ e1 ++ ws1 ++ '\\' :: tr) :: (ind ++ (qe ++ post)) :: rest) [] ix =
      emit (i, pre ++ e1 ++ ' ' :: (qe ++ post)) (loopL (i + 2) rest [] i) ∧
    EqUpToColumn (classifyL ExprParse.parseExpr (pre ++ e1 ++ ' ' :: (qe ++ post)))
      (classifyL ExprParse.parseExpr (pre ++ e1 ++ ws ++ (qe ++ post)))

/-- … **inside the expression** of any frame (`if`/`elif`/`while` header, `for`, `return`, `jumpif`, assignment).  No
hypothesis about the statement pattern: only decidable facts about the pieces. -/
theorem continuation_break_irrelevant_frame {pre post : Chars} {ok : Chars → Bool} {f : Expr → Line}
    (hf : IsFrame pre post ok f) : BreakInExpr pre post ok := by
  intro i ix e1 qe ws ws1 tr ind rest hp hq hpc hqc hqb h1 h2 h3 hws hne hok hok' hg
  refine continuation_break_statement i ix (pre ++ e1) (qe ++ post) ws ws1 tr ind rest hp hq hpc hqc hqb h1 h2 h3 ?_
  have e1' : pre ++ e1 ++ ws ++ (qe ++ post) = pre ++ ((e1 ++ ws ++ qe) ++ post) := by simp
  have e2' : pre ++ e1 ++ ' ' :: (qe ++ post) = pre ++ ((e1 ++ ' ' :: qe) ++ post) := by simp
  rw [e1', e2']
  exact .frame hf hf hok hok' (.gap hws (by decide) hne (by simp) hg)

/-- `if` / `elif` / `while` headers broken inside the condition -/
theorem continuation_break_irrelevant_header (h : Header) (hh : h ∈ headers) {ind0 w1 w3 : Chars}
    (hi : allSpace ind0 = true) (hw1 : allSpace w1 = true) (hne : w1 ≠ []) (hw3 : allSpace w3 = true) :
    BreakInExpr (ind0 ++ (h.kw.toList ++ w1)) (':' :: w3) exprStart :=
  continuation_break_irrelevant_frame (frame_header h hh hi hw1 hne hw3)

theorem continuation_break_irrelevant_if {ind0 w1 w3 : Chars} (hi : allSpace ind0 = true) (hw1 : allSpace w1 = true)
    (hne : w1 ≠ []) (hw3 : allSpace w3 = true) : BreakInExpr (ind0 ++ ("if".toList ++ w1)) (':' :: w3) exprStart :=
  continuation_break_irrelevant_header ⟨"if", .ifBegin, .ifBegin⟩ (by simp [headers]) hi hw1 hne hw3

theorem continuation_break_irrelevant_elif {ind0 w1 w3 : Chars} (hi : allSpace ind0 = true) (hw1 : allSpace w1 = true)
    (hne : w1 ≠ []) (hw3 : allSpace w3 = true) : BreakInExpr (ind0 ++ ("elif".toList ++ w1)) (':' :: w3) exprStart :=
  continuation_break_irrelevant_header ⟨"elif", .elif, .elif⟩ (by simp [headers]) hi hw1 hne hw3

theorem continuation_break_irrelevant_while {ind0 w1 w3 : Chars} (hi : allSpace ind0 = true) (hw1 : allSpace w1 = true)
    (hne : w1 ≠ []) (hw3 : allSpace w3 = true) : BreakInExpr (ind0 ++ ("while".toList ++ w1)) (':' :: w3) exprStart :=
  continuation_break_irrelevant_header ⟨"while", .whileBegin, .whileBegin⟩ (by simp [headers]) hi hw1 hne hw3

/-- `for v[, i] in <expr>:` broken inside the expression -/
theorem continuation_break_irrelevant_for {ind0 w1 v w4 w5 w6 : Chars} (mid : Option (Chars × Chars × Chars))
    (hi : allSpace ind0 = true) (hw1 : allSpace w1 = true) (hne1 : w1 ≠ []) (hv : isIdent v = true)
    (hm : forMidOK mid = true) (hw4 : allSpace w4 = true) (hne4 : w4 ≠ []) (hw5 : allSpace w5 = true) (hne5 : w5 ≠ [])
    (hw6 : allSpace w6 = true) :
    BreakInExpr (ind0 ++ ("for".toList ++ (w1 ++ (v ++ (forMid mid ++ (w4 ++ ("in".toList ++ w5))))))) (':' :: w6) nbStart :=
  continuation_break_irrelevant_frame (frame_for mid hi hw1 hne1 hv hm hw4 hne4 hw5 hne5 hw6)

/-- `return <expr>` broken inside the expression -/
theorem continuation_break_irrelevant_return {ind0 w1 : Chars} (hi : allSpace ind0 = true) (hw1 : allSpace w1 = true)
    (hne : w1 ≠ []) : BreakInExpr (ind0 ++ ("return".toList ++ w1)) [] retStart :=
  continuation_break_irrelevant_frame (frame_return hi hw1 hne)

/-- `jumpif (<expr>) label` broken inside the expression -/
theorem continuation_break_irrelevant_jumpif {ind0 w0 w1 nm w2 : Chars} (hi : allSpace ind0 = true)
    (hw0 : allSpace w0 = true) (hw1 : allSpace w1 = true) (hne : w1 ≠ []) (hid : isIdent nm = true)
    (hw2 : allSpace w2 = true) :
    BreakInExpr (ind0 ++ ("jumpif".toList ++ (w0 ++ ['(']))) (')' :: (w1 ++ (nm ++ w2))) (fun e => !e.isEmpty) :=
  continuation_break_irrelevant_frame (frame_jumpif hi hw0 hw1 hne hid hw2)

/-- `name = <expr>` broken inside the expression (as `continuation_break_irrelevant_assign`, the line given by its pieces) -/
theorem continuation_break_irrelevant_assign' {ind0 nm w1 w2 : Chars} (hi : allSpace ind0 = true) (hid : isIdent nm = true)
    (hw1 : allSpace w1 = true) (hw2 : allSpace w2 = true) :
    BreakInExpr (ind0 ++ (nm ++ (w1 ++ '=' :: w2))) [] nbStart :=
  continuation_break_irrelevant_frame (frame_assign hi hid hw1 hw2)

/-- `  while i <` + backslash / `\t arrayLength(a) && ok :`, compared with the unbroken line with three blanks -/
example := continuation_break_irrelevant_while (ind0 := "  ".toList) (w1 := " ".toList) (w3 := []) (by decide) (by decide)
  (by simp) (by decide) 7 0 "i <".toList "arrayLength(a) && ok ".toList "   ".toList " ".toList "".toList "\t ".toList []
  (by decide) (by decide) (by decide) (by decide) (by decide) (by decide) (by decide) (by decide) (by decide) (by simp)
  (by decide) (by decide) (.cons 'i' rfl (.cons ' ' rfl (.cons '<' rfl .site)))

/-- `for v, i in arrayNew(1,` + backslash / `2):` -/
example := continuation_break_irrelevant_for (ind0 := []) (w1 := " ".toList) (v := "v".toList) (w4 := " ".toList)
  (w5 := " ".toList) (w6 := []) (some ([], " ".toList, "i".toList)) (by decide) (by decide) (by simp) (by decide) (by decide)
  (by decide) (by simp) (by decide) (by simp) (by decide)
  0 0 "arrayNew(1,".toList "2)".toList "  ".toList "".toList "".toList "    ".toList []
  (by decide) (by decide) (by decide) (by decide) (by decide) (by decide) (by decide) (by decide) (by decide) (by simp)
  (by decide) (by decide)
  (gap_of_topLevelAt _ _ _ 15 11 "arrayNew(1,  2)".toList "arrayNew(1,".toList (by kernel_rfl) rfl rfl)

/-- `return a +` + backslash / `b` and `jumpif (a &&` + backslash / `b) done` -/
example := continuation_break_irrelevant_return (ind0 := "\t".toList) (w1 := " ".toList) (by decide) (by decide) (by simp)
  0 0 "a +".toList "b".toList " ".toList "".toList "".toList "  ".toList []
  (by decide) (by decide) (by decide) (by decide) (by decide) (by decide) (by decide) (by decide) (by decide) (by simp)
  (by decide) (by decide) (.cons 'a' rfl (.cons ' ' rfl (.cons '+' rfl .site)))
example := continuation_break_irrelevant_jumpif (ind0 := []) (w0 := " ".toList) (w1 := " ".toList) (nm := "done".toList)
  (w2 := []) (by decide) (by decide) (by decide) (by simp) (by decide) (by decide)
  0 0 "a &&".toList "b".toList "  ".toList "".toList "".toList "  ".toList []
  (by decide) (by decide) (by decide) (by decide) (by decide) (by decide) (by decide) (by decide) (by decide) (by simp)
  (by decide) (by decide) (.cons 'a' rfl (.cons ' ' rfl (.cons '&' rfl (.cons '&' rfl .site))))

/-- … inside a **call line** (expression statement) -/
theorem continuation_break_irrelevant_call (i ix : Nat) (p q ws ws1 tr ind : Chars) (rest : List Chars)
    (hp : rstripL p = p) (hq : stripL q = q) (hpc : isCommentL p = false) (hqc : isCommentL q = false)
    (hqb : contBody? q = none) (h1 : allSpace ws1 = true) (h2 : allSpace tr = true) (h3 : allSpace ind = true)
    (hws : allSpace ws = true) (hne : ws ≠ []) (hc : isCallLine (p ++ ws ++ q) = true)
    (hc' : isCallLine (p ++ ' ' :: q) = true) (hg : Gap ws [' '] q (p ++ ws ++ q) (p ++ ' ' :: q)) :
    loopL i ((p ++ ws1 ++ '\\' :: tr) :: (ind ++ q) :: rest) [] ix =
      emit (i, p ++ ' ' :: q) (loopL (i + 2) rest [] i) ∧
    EqUpToColumn (classifyL ExprParse.parseExpr (p ++ ' ' :: q)) (classifyL ExprParse.parseExpr (p ++ ws ++ q)) :=
  continuation_break_statement i ix p q ws ws1 tr ind rest hp hq hpc hqc hqb h1 h2 h3
    (.call hc hc' (.gap hws (by decide) hne (by simp) hg))


/-- `  systemLog('a  b',` + backslash / `1 + 2)`: an expression statement broken after a comma -/
example := continuation_break_irrelevant_call 0 0 "  systemLog('a  b',".toList "1 + 2)".toList "   ".toList "".toList "".toList
  "\t".toList [] (by decide) (by decide) (by decide) (by decide) (by decide) (by decide) (by decide) (by decide) (by decide)
  (by simp) (by decide) (by decide)
  (gap_of_topLevelAt _ _ _ 28 19 "  systemLog('a  b',   1 + 2)".toList "  systemLog('a  b',".toList (by kernel_rfl) rfl rfl)

/-! ## blank runs in the statement part: one theorem per statement kind, all its sites at once -/

theorem exprStart_append {e : Chars} (h : exprStart e = true) (w : Chars) : exprStart (e ++ w) = true := by
  cases e with
  | nil => simp [exprStart] at h
  | cons d r => simpa [exprStart] using h

theorem nbStart_append {e : Chars} (h : nbStart e = true) (w : Chars) : nbStart (e ++ w) = true := by
  cases e with
  | nil => simp [nbStart] at h
  | cons d r => simpa [nbStart] using h

/-- **`if` / `elif` / `while`**: the indentation, the run after the keyword (non-empty), the run before the colon (may be
empty) and the run after the colon (may be empty) replaced by any others. -/
theorem layout_header (h : Header) (hh : h ∈ headers) {ind ind' w1 w1' w2 w2' w3 w3' e0 : Chars}
    (hi : allSpace ind = true) (hi' : allSpace ind' = true) (hw1 : allSpace w1 = true) (hw1' : allSpace w1' = true)
    (hne : w1 ≠ []) (hne' : w1' ≠ []) (hw2 : allSpace w2 = true) (hw2' : allSpace w2' = true)
    (hw3 : allSpace w3 = true) (hw3' : allSpace w3' = true) (he : exprStart e0 = true) :
    EqUpToColumn (classifyL ExprParse.parseExpr ((ind' ++ (h.kw.toList ++ w1')) ++ ((e0 ++ w2') ++ ':' :: w3')))
      (classifyL ExprParse.parseExpr ((ind ++ (h.kw.toList ++ w1)) ++ ((e0 ++ w2) ++ ':' :: w3))) :=
  frame_layout (frame_header h hh hi hw1 hne hw3) (frame_header h hh hi' hw1' hne' hw3') (exprStart_append he _)
    (exprStart_append he _) (.trail e0 hw2 hw2')

/-- **`for`**: the runs after `for`, before `in`, after `in` (non-empty), around the comma, before and after the colon
(may be empty). -/
theorem layout_for {ind ind' w1 w1' v w4 w4' w5 w5' w2 w2' w6 w6' e0 : Chars} (mid mid' : Option (Chars × Chars × Chars))
    (hmm : mid.map (fun m => m.2.2) = mid'.map (fun m => m.2.2))
    (hi : allSpace ind = true) (hi' : allSpace ind' = true) (hw1 : allSpace w1 = true) (hw1' : allSpace w1' = true)
    (hne1 : w1 ≠ []) (hne1' : w1' ≠ []) (hv : isIdent v = true) (hm : forMidOK mid = true) (hm' : forMidOK mid' = true)
    (hw4 : allSpace w4 = true) (hw4' : allSpace w4' = true) (hne4 : w4 ≠ []) (hne4' : w4' ≠ [])
    (hw5 : allSpace w5 = true) (hw5' : allSpace w5' = true) (hne5 : w5 ≠ []) (hne5' : w5' ≠ [])
    (hw2 : allSpace w2 = true) (hw2' : allSpace w2' = true) (hw6 : allSpace w6 = true) (hw6' : allSpace w6' = true)
    (he : nbStart e0 = true) :
    EqUpToColumn
      (classifyL ExprParse.parseExpr ((ind' ++ ("for".toList ++ (w1' ++ (v ++ (forMid mid' ++ (w4' ++ ("in".toList ++ w5'))))))) ++
        ((e0 ++ w2') ++ ':' :: w6')))
      (classifyL ExprParse.parseExpr ((ind ++ ("for".toList ++ (w1 ++ (v ++ (forMid mid ++ (w4 ++ ("in".toList ++ w5))))))) ++
        ((e0 ++ w2) ++ ':' :: w6))) := by
  have f' := frame_for mid' hi' hw1' hne1' hv hm' hw4' hne4' hw5' hne5' hw6'
  rw [← hmm] at f'
  exact frame_layout (frame_for mid hi hw1 hne1 hv hm hw4 hne4 hw5 hne5 hw6) f' (nbStart_append he _)
    (nbStart_append he _) (.trail e0 hw2 hw2')

/-- **`return e`**: the run after `return` (non-empty). -/
theorem layout_return {ind ind' w1 w1' e : Chars} (hi : allSpace ind = true) (hi' : allSpace ind' = true)
    (hw1 : allSpace w1 = true) (hw1' : allSpace w1' = true) (hne : w1 ≠ []) (hne' : w1' ≠ []) (he : retStart e = true) :
    EqUpToColumn (classifyL ExprParse.parseExpr ((ind' ++ ("return".toList ++ w1')) ++ (e ++ [])))
      (classifyL ExprParse.parseExpr ((ind ++ ("return".toList ++ w1)) ++ (e ++ []))) :=
  frame_layout (frame_return hi hw1 hne) (frame_return hi' hw1' hne') he he (.refl e)

/-- **`jumpif (e) label`**: the run between `jumpif` and `(` (may be empty), between `)` and the label (non-empty), after
the label. -/
theorem layout_jumpif {ind ind' w0 w0' w1 w1' nm w2 w2' e : Chars} (hi : allSpace ind = true) (hi' : allSpace ind' = true)
    (hw0 : allSpace w0 = true) (hw0' : allSpace w0' = true) (hw1 : allSpace w1 = true) (hw1' : allSpace w1' = true)
    (hne : w1 ≠ []) (hne' : w1' ≠ []) (hid : isIdent nm = true) (hw2 : allSpace w2 = true) (hw2' : allSpace w2' = true)
    (he : e ≠ []) :
    EqUpToColumn
      (classifyL ExprParse.parseExpr ((ind' ++ ("jumpif".toList ++ (w0' ++ ['(']))) ++ (e ++ ')' :: (w1' ++ (nm ++ w2')))))
      (classifyL ExprParse.parseExpr ((ind ++ ("jumpif".toList ++ (w0 ++ ['(']))) ++ (e ++ ')' :: (w1 ++ (nm ++ w2))))) := by
  have hee : (!e.isEmpty) = true := by cases e with
    | nil => exact absurd rfl he
    | cons _ _ => rfl
  exact frame_layout (frame_jumpif hi hw0 hw1 hne hid hw2) (frame_jumpif hi' hw0' hw1' hne' hid hw2') hee hee (.refl e)

/-- **`name = e`**: the runs around `=` (may be empty). -/
theorem layout_assign {ind ind' nm w1 w1' w2 w2' e : Chars} (hi : allSpace ind = true) (hi' : allSpace ind' = true)
    (hid : isIdent nm = true) (hw1 : allSpace w1 = true) (hw1' : allSpace w1' = true) (hw2 : allSpace w2 = true)
    (hw2' : allSpace w2' = true) (he : nbStart e = true) :
    EqUpToColumn (classifyL ExprParse.parseExpr ((ind' ++ (nm ++ (w1' ++ '=' :: w2'))) ++ (e ++ [])))
      (classifyL ExprParse.parseExpr ((ind ++ (nm ++ (w1 ++ '=' :: w2))) ++ (e ++ []))) :=
  frame_layout (frame_assign hi hid hw1 hw2) (frame_assign hi' hid hw1' hw2') he he (.refl e)

/-- **`[async] function name(params[...]):`**: every run replaced (the one after `function` non-empty, all others may be
empty), same names: the classified line is *equal*.  (`jump`, `else:`, `include`: `classifyL_jump`, `classifyL_else`,
`classifyL_include(_system)` state the result outright — it does not mention the blank runs.) -/
theorem layout_function (pe : String → Except ParseErr Expr) {ind ind' w1 w1' nm w2 w2' w3 w3' w4 w4' w5 w5' w6 w6' w7 w7' : Chars}
    (asy asy' : Option Chars) (args args' : Option (Chars × List (Chars × Chars × Chars))) (dots : Bool)
    (hasync : asy.isSome = asy'.isSome) (hnames : argNames args = argNames args')
    (hi : allSpace ind = true) (hi' : allSpace ind' = true)
    (hasy : ∀ w0, asy = some w0 → allSpace w0 = true) (hasy' : ∀ w0, asy' = some w0 → allSpace w0 = true)
    (hw1 : allSpace w1 = true) (hw1' : allSpace w1' = true) (hne1 : w1 ≠ []) (hne1' : w1' ≠ []) (hid : isIdent nm = true)
    (hw2 : allSpace w2 = true) (hw2' : allSpace w2' = true) (hw3 : allSpace w3 = true) (hw3' : allSpace w3' = true)
    (ha : argsOK args = true) (ha' : argsOK args' = true) (hw4 : allSpace w4 = true) (hw4' : allSpace w4' = true)
    (hw5 : allSpace w5 = true) (hw5' : allSpace w5' = true) (hw6 : allSpace w6 = true) (hw6' : allSpace w6' = true)
    (hw7 : allSpace w7 = true) (hw7' : allSpace w7' = true) :
    classifyL pe (ind' ++ (asyncText asy' ++ ("function".toList ++ (w1' ++ (nm ++ fnRest w2' w3' args' w4' dots w5' w6' w7'))))) =
      classifyL pe (ind ++ (asyncText asy ++ ("function".toList ++ (w1 ++ (nm ++ fnRest w2 w3 args w4 dots w5 w6 w7))))) := by
  rw [classifyL_function pe asy args dots hi hasy hw1 hne1 hid hw2 hw3 ha hw4 hw5 hw6 hw7,
    classifyL_function pe asy' args' dots hi' hasy' hw1' hne1' hid hw2' hw3' ha' hw4' hw5' hw6' hw7', hasync, hnames]

/-! ### breaks in the statement part -/

/-- `if` + backslash / `x > 1 :` against `if   x > 1 :` — the break between the keyword and the condition -/
example := continuation_break_statement 0 0 "if".toList "x > 1 :".toList "   ".toList "".toList "".toList "  ".toList []
  (by decide) (by decide) (by decide) (by decide) (by decide) (by decide) (by decide) (by decide)
  (SameStmt.frame (pre := [] ++ ("if".toList ++ "   ".toList)) (post := ':' :: []) (pre' := [] ++ ("if".toList ++ " ".toList))
    (post' := ':' :: []) (e := "x > 1 ".toList) (e' := "x > 1 ".toList)
    (frame_header ⟨"if", .ifBegin, .ifBegin⟩ (by simp [headers]) (by decide) (by decide) (by simp) (by decide))
    (frame_header ⟨"if", .ifBegin, .ifBegin⟩ (by simp [headers]) (by decide) (by decide) (by simp) (by decide))
    (by decide) (by decide) (.refl _))

/-- `for v ,` + backslash / `i in a:` — the break after the comma of a `for` header -/
example := continuation_break_statement 0 0 "for v ,".toList "i in a:".toList "\t".toList "".toList "".toList "  ".toList []
  (by decide) (by decide) (by decide) (by decide) (by decide) (by decide) (by decide) (by decide)
  (SameStmt.frame
    (pre := [] ++ ("for".toList ++ (" ".toList ++ ("v".toList ++ (forMid (some (" ".toList, "\t".toList, "i".toList)) ++ (" ".toList ++ ("in".toList ++ " ".toList)))))))
    (post := ':' :: [])
    (pre' := [] ++ ("for".toList ++ (" ".toList ++ ("v".toList ++ (forMid (some (" ".toList, " ".toList, "i".toList)) ++ (" ".toList ++ ("in".toList ++ " ".toList)))))))
    (post' := ':' :: []) (e := "a".toList) (e' := "a".toList)
    (frame_for (some (" ".toList, "\t".toList, "i".toList)) (by decide) (by decide) (by simp) (by decide) (by decide) (by decide) (by simp) (by decide) (by simp) (by decide))
    (frame_for (some (" ".toList, " ".toList, "i".toList)) (by decide) (by decide) (by simp) (by decide) (by decide) (by decide) (by simp) (by decide) (by simp) (by decide))
    (by decide) (by decide) (.refl _))

/-- `jumpif (x)` + backslash / `done` and `function ff(a,` + backslash / `b...):` — statements without / outside the expression -/
example := continuation_break_statement 0 0 "jumpif (x)".toList "done".toList "  ".toList "".toList "".toList " ".toList []
  (by decide) (by decide) (by decide) (by decide) (by decide) (by decide) (by decide) (by decide)
  (SameStmt.frame (pre := [] ++ ("jumpif".toList ++ (" ".toList ++ ['(']))) (post := ')' :: ("  ".toList ++ ("done".toList ++ [])))
    (pre' := [] ++ ("jumpif".toList ++ (" ".toList ++ ['(']))) (post' := ')' :: (" ".toList ++ ("done".toList ++ [])))
    (e := "x".toList) (e' := "x".toList)
    (frame_jumpif (by decide) (by decide) (by decide) (by simp) (by decide) (by decide))
    (frame_jumpif (by decide) (by decide) (by decide) (by simp) (by decide) (by decide)) (by decide) (by decide) (.refl _))
example := continuation_break_statement 0 0 "function ff(a,".toList "b...):".toList "   ".toList "".toList "".toList " ".toList []
  (by decide) (by decide) (by decide) (by decide) (by decide) (by decide) (by decide) (by decide)
  (SameStmt.plain (.funcBegin (nameOf "ff".toList) [nameOf "a".toList, nameOf "b".toList] true false)
    (fun pe => classifyL_function pe (ind := []) (w1 := " ".toList) (nm := "ff".toList) (w2 := []) (w3 := []) (w4 := []) (w5 := [])
      (w6 := []) (w7 := []) none (some ("a".toList, [([], "   ".toList, "b".toList)])) true (by decide) (by simp) (by decide) (by simp)
      (by decide) (by decide) (by decide) (by decide) (by decide) (by decide) (by decide) (by decide))
    (fun pe => classifyL_function pe (ind := []) (w1 := " ".toList) (nm := "ff".toList) (w2 := []) (w3 := []) (w4 := []) (w5 := [])
      (w6 := []) (w7 := []) none (some ("a".toList, [([], " ".toList, "b".toList)])) true (by decide) (by simp) (by decide) (by simp)
      (by decide) (by decide) (by decide) (by decide) (by decide) (by decide) (by decide) (by decide)))

/-! ## where a blank is NOT allowed, and where the length of a run matters -/

/-- inside a keyword, inside a name, between `jump` and `if`, between the dots of `...`, between `return` / `include` and
what follows when there is *no* blank (the patterns have `\s+` there): the statement changes -/
example : shape "if x:".toList = .ifBegin 3 "x".toList ∧ shape "i f x:".toList = .exprStmt := by decide
example : shape "ab = 1".toList = .assign "ab".toList 5 "1".toList ∧ shape "a b = 1".toList = .exprStmt := by decide
example : shape "jumpif (x) done".toList = .jump "done".toList (some (8, "x".toList)) ∧
    shape "jumpif(x) done".toList = .jump "done".toList (some (7, "x".toList)) ∧
    shape "jump if (x) done".toList = .exprStmt := by decide
example : shape "function ff(a ...):".toList = .funcBegin "ff".toList ["a".toList] true false ∧
    shape "function ff(a.. .):".toList = .exprStmt := by decide
example : shape "return (x)".toList = .ret (some (7, "(x)".toList)) ∧ shape "return(x)".toList = .exprStmt ∧
    shape "include 'a'".toList = .include "a".toList false ∧ shape "include'a'".toList = .exprStmt := by decide
/-- inside the quotes of an `include` a blank run is part of the URL -/
example : shape "include 'a  b'".toList = .include "a  b".toList false ∧
    shape "include 'a b'".toList = .include "a b".toList false := by decide
/-- the one place where the *length* of a run matters: a header with an empty condition.  `if  :` (two blanks) is an `if`
whose expression text is one blank (a syntax error), `if :` is the label `if`.  (`frame_header` excludes it: the
expression text must start with a non-blank.)  Breaking `if :` itself at its blank gives `if :` again. -/
example : shape "if  :".toList = .ifBegin 3 " ".toList ∧ shape "if :".toList = .label "if".toList := by decide
/-- an expression that starts with `=` after a keyword is an assignment to a variable of that name (`exprStart`) -/
example : shape "if = 1:".toList = .assign "if".toList 5 "1:".toList ∧ shape "return :".toList = .label "return".toList := by
  decide

end C10
