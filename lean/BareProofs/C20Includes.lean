import BareModel.Gen.Includes

/-!
# C20 — the shipped include library parses, validates and is lint-clean

`Gen/Includes.lean` is regenerated from the working tree on every check run: one row per `src/bare_script/include/*.bare`
with what `parse_script`, `validate_script` and `lint_script` report (and the sha256 of the text, for the evidence only — it
is deliberately not pinned: a behaviour-preserving edit of an include must not break anything).  The theorem below is the
kernel-side record of the finite fact; the `includes` stream of `harness/props/C20.py` checks the same on the implementation
and that the table compiled into the driver is the current one.
-/

namespace C20

/-- **Every shipped include script parses, validates against the schema and is lint-clean** — the finite fact, as
`parse_script`, `validate_script` and `lint_script` of the working tree report it (table regenerated on every run). -/
theorem includes_parse_validate_lintclean :
    ∀ inc ∈ Gen.includes, inc.parses = true ∧ inc.validates = true ∧ inc.lint = [] := by
  decide

/-- the table is not empty and `diff.bare` is in it -/
example : "diff.bare" ∈ Gen.includes.map (·.name) ∧ 0 < Gen.includes.length := by decide

end C20
