import BareProofs.C09
import BareProofs.C09TermLemmas
import BareProofs.C09TermHosts

/-!
# C09Term — "no script can run forever"

Property C09 ends with "… and is aborted with the 'Exceeded maximum script statements' runtime error exactly when statement
L+1 would start, **so no script can run forever**".  In the model a run that does not end is a run that is out of fuel for
every fuel.  `C09.no_infinite_run_partial` bounds the statement counter for every host; this file proves the full clause

    0 < L  →  ∃ fuel, ∀ fuel' ≥ fuel, execute (withMax cfg L) fuel' P base st ≠ .oof

under the explicit hypothesis `HostWF cfg.host` (lemma file `C09TermLemmas`: an invariant on values and worlds that every
host operation preserves, and a rank of host calls that strictly decreases along call-backs) for every admissible start
state, and shows that the hypothesis cannot be dropped:

* `no_infinite_run`, `no_infinite_run_execM`, `no_infinite_run_call`, `no_infinite_run_includes`, `no_infinite_run_result`
  — the theorem, for `execute`, for `execM` from any statement index / locals / counter, for calls, for include statements;
* `RankWF`, `no_infinite_run_of_rank` — the plain "rank function" form of the hypothesis (no invariant needed: every
  call-back node calls a script function, a non-callable, or a host callable of smaller rank), e.g. hosts without call-backs;
* `Counter.loopHost_runs_forever`, `Counter.loopHost_not_wf` — the host of the doc comment of `no_infinite_run_partial`
  (a library function that calls itself back): `oof` for every fuel, and it has no `HostWF` that admits that function;
* `Counter.hostImpl_runs_forever`, `Counter.hostLib_runs_forever`, `Counter.hostImpl_not_wf` — **the concrete hosts are not
  well-founded on all states**: `a = arrayNew(); p = systemPartial(arrayIndexOf, a); arrayPush(a, p); arrayIndexOf(a, p)`
  makes `arrayIndexOf` call `p([p]) = arrayIndexOf(a, p)` for ever without starting a statement.  (CPython ends exactly this
  run with `RecursionError`, which the call wrapper turns into `null`: the recursion limit is not in the model.)
* `no_infinite_run_hostImpl`, `no_infinite_run_hostLib` — the theorem for the two concrete hosts from every start state that
  passes the decidable check `implStateOk m` / `libStateOk m`: `m = true` no `systemPartial` function value and no partial
  application anywhere in the state; `m = false` no `arrayIndexOf` function value anywhere and no dangling partial.  By the
  counterexample one of the two restrictions is necessary.
-/

open Machine
namespace C09
variable {W : Type}

/-! ## the theorem for well-founded hosts -/

/-! ### example data (used by the non-vacuity examples that follow each theorem) -/

section ExampleData
open HostImpl HostLib

/-- `m = false`: partial applications allowed.  The state holds the partial `q = systemPartial(systemLog, 'x')` and
`q2`, a partial of that partial; the loop `L: q2('y'); jump L` calls them for ever — until the budget ends it. -/
def sP : State World :=
  { globals := [(.user "systemLog", .fn (.lib "systemLog")), (.user "systemPartial", .fn (.lib "systemPartial")),
                (.user "q", .fn (.other 0)), (.user "q2", .fn (.other 1))],
    world := { partials := [(.fn (.lib "systemLog"), [.str "x"]), (.fn (.other 0), [.str "z"])] }, count := 0 }
def loopQ : List Stmt := [.label LL, .expr none (.function (.user "q2") [.string "y"]), .jump LL none]

/-- `HostLib`: a loop over `Lib`'s library -/
def lcfgX : Config LWorld := { host := HostLib.hostLib, funs := fun _ => none, maxStatements := 0 }
def sL : State LWorld :=
  { globals := ["systemLog", "arrayNew", "arrayPush", "arrayIndexOf", "objectNew"].map fun n => (Name.user n, Value.fn (.lib n)),
    world := {}, count := 0 }
def loopL : List Stmt :=
  [.expr (some (.user "a")) (.function (.user "arrayNew") []), .label LL,
   .expr none (.function (.user "arrayPush") [.variable (.user "a"), .number 1]), .jump LL none]

end ExampleData

/-- **no_infinite_run_execM.** Under a positive statement limit, for a well-founded host: a statement list — top level,
function body or included script — run from any statement index, with any locals, any valid label cache and ANY counter
value, from an admissible state, ends (normally, with `return`, or with an error — e.g. the budget error) with some fuel,
and with every larger fuel. -/
theorem no_infinite_run_execM (cfg : Config W) (H : HostWF cfg.host) (hL : 0 < cfg.maxStatements) (P : List Stmt)
    (locals : Option Env) (base : Option String) (cache : Cache) (pc : Nat) (st : State W)
    (hc : C08.CacheValid P cache) (hst : SOK H st) (hl : LOK H st.world locals) :
    ∃ fuel, ∀ fuel', fuel ≤ fuel' → execM cfg fuel' P locals base cache pc st ≠ .oof := by
  obtain ⟨fuel, h⟩ := (termM H hL (cfg.maxStatements - st.count)).2.1 st ⟨Nat.le_refl _, hst⟩ P locals base pc hl
  refine ⟨fuel, fun fuel' hle => ?_⟩
  rw [C08.cache_transparent cfg fuel' P locals base cache pc st hc, execM_up cfg hle h]
  exact h

/-- `loopQ` from statement index 1 with the counter at 3, partial applications in the state -/
example : ∃ fuel, ∀ fuel', fuel ≤ fuel' →
    execM (withMax (xcfg [] []) 7) fuel' loopQ none none [] 1 { sP with count := 3 } ≠ .oof :=
  no_infinite_run_execM _ (hostImplWF false) (by decide) loopQ none none [] 1 _ (C08.cacheValid_nil _)
    (implStateOk_sound (m := false) (st := { sP with count := 3 }) (by decide)) (fun _ h => by cases h)

/-- **no_infinite_run_call.** … the same for a call of any admissible value (script function, library function with
call-backs, partial application, non-callable) with admissible arguments. -/
theorem no_infinite_run_call (cfg : Config W) (H : HostWF cfg.host) (hL : 0 < cfg.maxStatements) (f : Value)
    (args : List Value) (st : State W) (hst : SOK H st) (hf : H.ok st.world f) (ha : ∀ a ∈ args, H.ok st.world a) :
    ∃ fuel, ∀ fuel', fuel ≤ fuel' → callValue cfg fuel' f args st ≠ .oof := by
  obtain ⟨fuel, h⟩ := (termM H hL (cfg.maxStatements - st.count)).2.2.2 st ⟨Nat.le_refl _, hst⟩ f args hf ha
  refine ⟨fuel, fun fuel' hle => ?_⟩
  rw [C08.callValue_eq, callValue_up cfg hle h]
  exact h

/-- the partial of a partial `q2`, called directly -/
example : ∃ fuel, ∀ fuel', fuel ≤ fuel' →
    callValue (withMax (xcfg [] []) 7) fuel' (.fn (.other 1)) [.str "y"] sP ≠ .oof :=
  no_infinite_run_call _ (hostImplWF false) (by decide) _ _ sP (implStateOk_sound (by decide))
    (show vok false 2 (.fn (.other 1)) = true from rfl) (fun a h => by rw [List.mem_singleton.1 h]; rfl)

/-- … and for the entries of an include statement (`cfg.fetch` is a function: an include cycle is bounded by the budget) -/
theorem no_infinite_run_includes (cfg : Config W) (H : HostWF cfg.host) (hL : 0 < cfg.maxStatements)
    (base : Option String) (incs : List IncludeScript) (st : State W) (hst : SOK H st) :
    ∃ fuel, ∀ fuel', fuel ≤ fuel' → execIncludes cfg fuel' base incs st ≠ .oof := by
  obtain ⟨fuel, h⟩ := (termM H hL (cfg.maxStatements - st.count)).2.2.1 st ⟨Nat.le_refl _, hst⟩ base incs
  refine ⟨fuel, fun fuel' hle => ?_⟩
  rw [C08.execIncludes_eq, execIncludes_up cfg hle h]
  exact h

/-- nested includes (C09.files): `include 'a'` twice under `L = 3` -/
example : ∃ fuel, ∀ fuel', fuel ≤ fuel' →
    execIncludes (withMax (xcfg [] files) 3) fuel' none [⟨"a", false⟩, ⟨"a", false⟩] s0 ≠ .oof :=
  no_infinite_run_includes _ (hostImplWF true) (by decide) none _ s0 (implStateOk_sound (by decide))

/-- **no_infinite_run.** For `L > 0` and a well-founded host, `execute_script` from an admissible state ends with some
fuel, and with every larger one: no script can run forever. -/
theorem no_infinite_run (cfg : Config W) (H : HostWF cfg.host) (L : Nat) (hL : 0 < L) (P : List Stmt)
    (base : Option String) (st : State W) (hst : SOK H st) :
    ∃ fuel, ∀ fuel', fuel ≤ fuel' → execute (withMax cfg L) fuel' P base st ≠ .oof :=
  no_infinite_run_execM (withMax cfg L) H hL P none base [] 0 { st with count := 0 } (C08.cacheValid_nil P) hst
    (fun _ h => by cases h)

/-- `while true: systemLog('x')` as a jump program — `L: systemLog('x'); jump L` (C09.loopP) — on the driver host from
`C09.s0`: under `L = 5` it ends, and the end is the budget error raised when statement 6 would start -/
example : ∃ fuel, ∀ fuel', fuel ≤ fuel' → execute (withMax (xcfg [] []) 5) fuel' loopP none s0 ≠ .oof :=
  no_infinite_run (xcfg [] []) (hostImplWF true) 5 (by decide) loopP none s0 (implStateOk_sound (by decide))

example : C08.obs (execute (withMax (xcfg [] []) 5) 100 loopP none s0)
    = ⟨"err", some (.exceeded 5), none, 6, ["x", "x"], libG⟩ := by decide +kernel

/-- **no_infinite_run_result.** … so the run has a result: one outcome `r ≠ oof` that every sufficiently large fuel
produces.  By `count_le_limit_execute` it is a normal end / a `return` / an error with `count ≤ L`, or the budget error with
`count = L + 1`. -/
theorem no_infinite_run_result (cfg : Config W) (H : HostWF cfg.host) (L : Nat) (hL : 0 < L) (P : List Stmt)
    (base : Option String) (st : State W) (hst : SOK H st) :
    ∃ r, r ≠ .oof ∧ ∃ fuel, ∀ fuel', fuel ≤ fuel' → execute (withMax cfg L) fuel' P base st = r := by
  obtain ⟨fuel, h⟩ := no_infinite_run cfg H L hL P base st hst
  exact ⟨_, h fuel (Nat.le_refl _), fuel, fun fuel' hle => fuel_mono _ fuel fuel' hle P base st (h fuel (Nat.le_refl _))⟩

/-- the endless recursion `function f(): f() endfunction; f()` (C09.recP) under `L = 4` -/
example : ∃ r, r ≠ .oof ∧ ∃ fuel, ∀ fuel', fuel ≤ fuel' →
    execute (withMax (xcfg [(0, { name := .user "f", args := [], lastArgArray := false, body := recBody })] []) 4)
      fuel' recP none s0 = r :=
  no_infinite_run_result _ (hostImplWF true) 4 (by decide) recP none s0 (implStateOk_sound (by decide))

/-! ## the plain rank form of the hypothesis -/

/-- every call-back node of the tree calls a script function, a non-callable, or a host callable of call rank `≤ r` -/
inductive TreeRank (rank : W → FnVal → List Value → Nat) (r : Nat) : LibTree W → Prop where
  | ret {out w} : TreeRank rank r (.ret out w)
  | call {f args w k} : callRank rank w f args ≤ r → (∀ v w1, TreeRank rank r (k v w1)) → TreeRank rank r (.call f args w k)
  | globalGet {n w k} : (∀ v w1, TreeRank rank r (k v w1)) → TreeRank rank r (.globalGet n w k)
  | globalSet {n v w k} : (∀ w1, TreeRank rank r (k w1)) → TreeRank rank r (.globalSet n v w k)

/-- **RankWF.** A rank on the calls of host callables that strictly decreases along call-backs, on all worlds, arguments
and continuations (no invariant on the state needed). -/
structure RankWF (host : Host W) (rank : W → FnVal → List Value → Nat) : Prop where
  lib : ∀ name args w, TreeRank rank (rank w (.lib name) args) (host.lib name args w)
  other : ∀ k args w, TreeRank rank (rank w (.other k) args) (host.other k args w)

def trivData (rank : W → FnVal → List Value → Nat) : WFData W :=
  { E := Ext.triv W, ok := fun _ _ => True, okW := fun _ => True, rank := rank }

theorem treeWF_of_rank {rank : W → FnVal → List Value → Nat} {r : Nat} :
    ∀ (t : LibTree W) (w0 : W), TreeRank rank r t → TreeWF (trivData rank) r w0 t
  | .ret _ _, _, _ => .ret trivial trivial (fun _ _ => trivial)
  | .call _ _ _ k, _, h => by
      cases h with | call hr hk =>
      exact .call trivial trivial trivial (fun _ _ => trivial) hr (fun v w1 _ _ _ => treeWF_of_rank (k v w1) w1 (hk v w1))
  | .globalGet _ _ k, _, h => by
      cases h with | globalGet hk =>
      exact .globalGet trivial trivial (fun v w1 _ _ _ => treeWF_of_rank (k v w1) w1 (hk v w1))
  | .globalSet _ _ _ k, _, h => by
      cases h with | globalSet hk =>
      exact .globalSet trivial trivial trivial (fun w1 _ _ => treeWF_of_rank (k w1) w1 (hk w1))

/-- a rank-well-founded host is well-founded with the trivial invariant: every state is admissible -/
def HostWF.ofRank {host : Host W} {rank : W → FnVal → List Value → Nat} (h : RankWF host rank) : HostWF host where
  toWFData := trivData rank
  ok_mono := fun _ _ => trivial
  ok_null := fun _ => trivial
  ok_bool := fun _ _ => trivial
  ok_num := fun _ _ => trivial
  ok_str := fun _ _ => trivial
  ok_script := fun _ _ => trivial
  ok_builtin := fun _ _ _ _ => trivial
  binop_ok := fun _ _ _ _ _ _ _ => trivial
  neg_ok := fun _ _ _ => trivial
  notCallable_ok := fun _ _ _ => ⟨trivial, trivial⟩
  logFailure_ok := fun _ _ => ⟨trivial, trivial⟩
  newArray_ok := fun _ _ _ _ => ⟨trivial, trivial, trivial⟩
  lib_wf := fun name args w _ _ _ => treeWF_of_rank _ w (h.lib name args w)
  other_wf := fun k args w _ _ _ => treeWF_of_rank _ w (h.other k args w)

/-- **no_infinite_run_of_rank.** With a rank that decreases along the host's call-backs, for `L > 0`, EVERY program from
EVERY state ends with some fuel. -/
theorem no_infinite_run_of_rank (cfg : Config W) (rank : W → FnVal → List Value → Nat) (h : RankWF cfg.host rank)
    (L : Nat) (hL : 0 < L) (P : List Stmt) (base : Option String) (st : State W) :
    ∃ fuel, ∀ fuel', fuel ≤ fuel' → execute (withMax cfg L) fuel' P base st ≠ .oof :=
  no_infinite_run cfg (HostWF.ofRank h) L hL P base st ⟨trivial, fun _ _ => trivial⟩

/-- a host whose every callable calls its first argument back with the remaining arguments — even itself
(`apply(apply, apply, f)`) — is well-founded by the number of arguments -/
def applyHost : Host Unit where
  truthy := fun _ _ => true
  binop := fun _ _ _ _ => .null
  neg := fun v => v
  lib := fun _ args w => match args with
    | f :: rest => .call f rest w fun v w1 => .ret (.ok v) w1
    | [] => .ret (.ok .null) w
  other := fun _ args w => match args with
    | f :: rest => .call f rest w fun v w1 => .ret (.ok v) w1
    | [] => .ret (.ok .null) w
  notCallable := fun _ w => w
  logFailure := fun w => w
  newArray := fun _ w => (.null, w)
  builtin := fun _ => none

theorem applyHost_rank : RankWF applyHost (fun _ _ args => args.length) := by
  constructor
  · intro name args w
    cases args with
    | nil => exact .ret
    | cons f rest =>
      refine .call ?_ (fun _ _ => .ret)
      cases f with
      | fn fv => cases fv <;> simp [callRank]
      | _ => simp [callRank]
  · intro k args w
    cases args with
    | nil => exact .ret
    | cons f rest =>
      refine .call ?_ (fun _ _ => .ret)
      cases f with
      | fn fv => cases fv <;> simp [callRank]
      | _ => simp [callRank]

example (P : List Stmt) (st : State Unit) : ∃ fuel, ∀ fuel', fuel ≤ fuel' →
    execute (withMax { host := applyHost, funs := fun _ => none, maxStatements := 0 } 5) fuel' P none st ≠ .oof :=
  no_infinite_run_of_rank _ _ applyHost_rank 5 (by decide) P none st

/-! ## the concrete hosts, on the admissible start states -/

section Concrete
open HostImpl HostLib

/-- **no_infinite_run_hostImpl.** On the driver host: for `L > 0`, every program from every start state that passes the
decidable check `implStateOk m` ends with some fuel.  `m = true`: no `systemPartial` function value and no partial
application in the globals and the heap; `m = false`: no `arrayIndexOf` function value in the globals, the heap and the
partial table, and every partial refers to earlier partials only. -/
theorem no_infinite_run_hostImpl (m : Bool) (cfg : Config World) (hhost : cfg.host = HostImpl.host) (L : Nat) (hL : 0 < L)
    (P : List Stmt) (base : Option String) (st : State World) (hst : implStateOk m st = true) :
    ∃ fuel, ∀ fuel', fuel ≤ fuel' → execute (withMax cfg L) fuel' P base st ≠ .oof := by
  cases cfg with
  | mk host funs maxS builtins debug resolve fetch =>
    simp only at hhost
    subst hhost
    exact no_infinite_run _ (hostImplWF m) L hL P base st (implStateOk_sound hst)

/-- `C09.s0` (globals `systemLog`, `arrayNew`, `arrayIndexOf`) passes the check for `m = true`: the endless loop, the
call-back program of C09 (`arrayIndexOf(arrayNew(0,0,0), p)` with a two-statement script function `p`), nested includes -/
example : implStateOk true s0 = true := by decide

example : ∃ fuel, ∀ fuel', fuel ≤ fuel' → execute (withMax (xcfg [] []) 5) fuel' loopP none s0 ≠ .oof :=
  no_infinite_run_hostImpl true (xcfg [] []) rfl 5 (by decide) loopP none s0 (by decide)

example : ∃ fuel, ∀ fuel', fuel ≤ fuel' → execute (withMax (xcfg [(0, pDef)] []) 5) fuel' cbP none s0 ≠ .oof :=
  no_infinite_run_hostImpl true _ rfl 5 (by decide) cbP none s0 (by decide)

example (L : Nat) (hL : 0 < L) : ∃ fuel, ∀ fuel', fuel ≤ fuel' →
    execute (withMax (xcfg [] files) L) fuel' mainP none s0 ≠ .oof :=
  no_infinite_run_hostImpl true _ rfl L hL mainP none s0 (by decide)

/-- `m = false`: `sP` holds partial applications (and `systemPartial`), so it fails the check for `m = true` -/
example : implStateOk false sP = true ∧ implStateOk true sP = false := by decide
example : ∃ fuel, ∀ fuel', fuel ≤ fuel' → execute (withMax (xcfg [] []) 7) fuel' loopQ none sP ≠ .oof :=
  no_infinite_run_hostImpl false _ rfl 7 (by decide) loopQ none sP (by decide)
example : (C08.obs (execute (withMax (xcfg [] []) 7) 100 loopQ none sP)).err = some (.exceeded 7) := by decide +kernel

/-- a dangling partial reference is rejected by the check (it could later become a cycle) -/
example : implStateOk false { sP with globals := [(.user "d", .fn (.other 2))] } = false := by decide

/-- **no_infinite_run_hostLib.** The same on `HostLib.hostLib` (the verified library model `Lib` as the machine's library). -/
theorem no_infinite_run_hostLib (m : Bool) (cfg : Config LWorld) (hhost : cfg.host = HostLib.hostLib) (L : Nat)
    (hL : 0 < L) (P : List Stmt) (base : Option String) (st : State LWorld) (hst : libStateOk m st = true) :
    ∃ fuel, ∀ fuel', fuel ≤ fuel' → execute (withMax cfg L) fuel' P base st ≠ .oof := by
  cases cfg with
  | mk host funs maxS builtins debug resolve fetch =>
    simp only at hhost
    subst hhost
    exact no_infinite_run _ (hostLibWF m) L hL P base st (libStateOk_sound hst)

example : libStateOk true sL = true := by decide
example : ∃ fuel, ∀ fuel', fuel ≤ fuel' → execute (withMax lcfgX 9) fuel' loopL none sL ≠ .oof :=
  no_infinite_run_hostLib true lcfgX rfl 9 (by decide) loopL none sL (by decide)

end Concrete

/-! ## the hypothesis is necessary -/

namespace Counter

/-- the host of the doc comment of `no_infinite_run_partial`: every library function calls the library function `f` back -/
def loopHost : Host Unit where
  truthy := fun _ _ => true
  binop := fun _ _ _ _ => .null
  neg := fun v => v
  lib := fun _ args w => .call (.fn (.lib "f")) args w fun v w1 => .ret (.ok v) w1
  other := fun _ _ w => .ret (.fail .null) w
  notCallable := fun _ w => w
  logFailure := fun w => w
  newArray := fun _ w => (.null, w)
  builtin := fun _ => none

def loopCfg : Config Unit := { host := loopHost, funs := fun _ => none, maxStatements := 0 }

theorem loopHost_call_oof (L : Nat) : ∀ (fuel : Nat) (args : List Value) (st : State Unit),
    callValue (withMax loopCfg L) fuel (.fn (.lib "f")) args st = .oof
  | 0, _, _ => by rw [callValue.eq_1]
  | fuel+1, args, st => by
      rw [callValue.eq_def]
      show runTree _ (callValue (withMax loopCfg L) fuel) (.call (.fn (.lib "f")) args st.world _) st = .oof
      simp only [runTree]
      rw [loopHost_call_oof L fuel]

/-- the script `f()` -/
def loopP : List Stmt := [.expr none (.function (.user "f") [])]
def loopSt : State Unit := { globals := [(.user "f", .fn (.lib "f"))], world := (), count := 0 }

/-- **loopHost_runs_forever.** Without a well-foundedness hypothesis the conclusion of `no_infinite_run` is false: on this
host the one-statement script `f()` is out of fuel for every fuel, under every statement limit. -/
theorem loopHost_runs_forever (L fuel : Nat) : execute (withMax loopCfg L) fuel loopP none loopSt = .oof := by
  cases fuel with
  | zero => rfl
  | succ fuel =>
    have hb : (decide ((withMax loopCfg L).maxStatements > 0) &&
        decide (0 + 1 > (withMax loopCfg L).maxStatements)) = false := by
      show (decide (L > 0) && decide (0 + 1 > L)) = false
      cases L <;> simp
    have hl : lookupFunc (withMax loopCfg L) none loopSt.globals (Name.user "f") = some (.fn (.lib "f")) := rfl
    unfold execute loopP
    rw [execM.eq_1]
    simp only [List.getElem?_cons_zero, evalExpr, evalArgs, hb, hl, Bool.false_eq_true, if_false]
    rw [if_neg (by decide), loopHost_call_oof]

/-- … hence `loopHost` has no `HostWF` whose admissible part contains the world and the function `f` -/
theorem loopHost_not_wf (H : HostWF loopHost) : ¬ (H.okW () ∧ H.ok () (.fn (.lib "f"))) := by
  intro ⟨hw, hf⟩
  obtain ⟨fuel, h⟩ := no_infinite_run_call (withMax loopCfg 1) H (by decide) (.fn (.lib "f")) []
    { globals := [], world := (), count := 0 } ⟨hw, fun _ h => by cases h⟩ hf (fun _ h => by cases h)
  exact h fuel (Nat.le_refl _) (loopHost_call_oof 1 fuel [] _)

/-! ### the concrete hosts are not well-founded on all states -/

theorem callValue_lib {W : Type} (cfg : Config W) (fuel : Nat) (name : String) (args : List Value) (st : State W) :
    callValue cfg (fuel+1) (.fn (.lib name)) args st
      = runTree cfg (callValue cfg fuel) (cfg.host.lib name args st.world) st := by rw [callValue.eq_def]

theorem callValue_other {W : Type} (cfg : Config W) (fuel k : Nat) (args : List Value) (st : State W) :
    callValue cfg (fuel+1) (.fn (.other k)) args st
      = runTree cfg (callValue cfg fuel) (cfg.host.other k args st.world) st := by rw [callValue.eq_def]

section Impl
open HostImpl

def cxCfg (L : Nat) : Config World := { host := HostImpl.host, funs := fun _ => none, maxStatements := L }

/-- the world the three statements `a = arrayNew(); p = systemPartial(arrayIndexOf, a); arrayPush(a, p)` build -/
def wc : World :=
  { heap := [.arr [.fn (.other 0)]], log := [], partials := [(.fn (.lib "arrayIndexOf"), [.arr 0])] }

theorem lib_eq : HostImpl.lib "arrayIndexOf" [.arr 0, .fn (.other 0)] wc
    = indexOfFn (.fn (.other 0)) [.fn (.other 0)] 0 wc := rfl

theorem other_eq (args : List Value) : HostImpl.other 0 args wc
    = .call (.fn (.lib "arrayIndexOf")) ([.arr 0] ++ args) wc fun r w1 => HostImpl.ok r w1 := rfl

theorem cfg_lib_eq (L : Nat) : (cxCfg L).host.lib "arrayIndexOf" [.arr 0, .fn (.other 0)] wc
    = indexOfFn (.fn (.other 0)) [.fn (.other 0)] 0 wc := rfl

theorem cfg_other_eq (L : Nat) (args : List Value) : (cxCfg L).host.other 0 args wc
    = .call (.fn (.lib "arrayIndexOf")) ([.arr 0] ++ args) wc fun r w1 => HostImpl.ok r w1 := rfl

theorem aio_oof (L : Nat) : ∀ (fuel : Nat) (st : State World), st.world = wc →
    callValue (cxCfg L) fuel (.fn (.lib "arrayIndexOf")) [.arr 0, .fn (.other 0)] st = .oof
  | 0, _, _ => by rw [callValue.eq_1]
  | 1, st, hw => by
      rw [callValue_lib, hw, cfg_lib_eq]
      unfold indexOfFn
      simp only [runTree]
      rw [callValue.eq_1]
  | fuel+2, st, hw => by
      rw [callValue_lib, hw, cfg_lib_eq]
      unfold indexOfFn
      simp only [runTree]
      rw [callValue_other]
      simp only [cfg_other_eq, runTree, List.cons_append, List.nil_append]
      rw [aio_oof L fuel _ rfl]

def gLib : Env :=
  ["arrayNew", "arrayIndexOf", "arrayPush", "systemPartial"].map fun n => (Name.user n, Value.fn (.lib n))
def va (s : String) : Expr := .variable (.user s)
def e1 : Expr := .function (.user "arrayNew") []
def e2 : Expr := .function (.user "systemPartial") [va "arrayIndexOf", va "a"]
def e3 : Expr := .function (.user "arrayPush") [va "a", va "p"]
def e4 : Expr := .function (.user "arrayIndexOf") [va "a", va "p"]
/-- `a = arrayNew(); p = systemPartial(arrayIndexOf, a); arrayPush(a, p); r = arrayIndexOf(a, p)` -/
def cxP : List Stmt := [.expr (some (.user "a")) e1, .expr (some (.user "p")) e2, .expr none e3, .expr (some (.user "r")) e4]

def w1 : World := { heap := [.arr []] }
def w2 : World := { heap := [.arr []], partials := [(.fn (.lib "arrayIndexOf"), [.arr 0])] }
def g1 : Env := gLib ++ [(.user "a", .arr 0)]
def g2 : Env := g1 ++ [(.user "p", .fn (.other 0))]

theorem ev1 (L : Nat) : evalExpr (cxCfg L) (callValue₀ (cxCfg L) 1) none e1 ⟨gLib, {}, 1⟩ = .ok (.arr 0) ⟨gLib, w1, 1⟩ := by rfl
theorem ev2 (L : Nat) : evalExpr (cxCfg L) (callValue₀ (cxCfg L) 1) none e2 ⟨g1, w1, 2⟩ = .ok (.fn (.other 0)) ⟨g1, w2, 2⟩ := by rfl
theorem ev3 (L : Nat) : evalExpr (cxCfg L) (callValue₀ (cxCfg L) 1) none e3 ⟨g2, w2, 3⟩ = .ok (.arr 0) ⟨g2, wc, 3⟩ := by rfl

theorem ev4 (L G : Nat) : evalExpr (cxCfg L) (callValue₀ (cxCfg L) G) none e4 ⟨g2, wc, 4⟩ = .oof := by
  have hargs : evalArgs (cxCfg L) (callValue₀ (cxCfg L) G) none [va "a", va "p"] ⟨g2, wc, 4⟩
      = .ok [.arr 0, .fn (.other 0)] ⟨g2, wc, 4⟩ := rfl
  have hlk : lookupFunc (cxCfg L) none g2 (.user "arrayIndexOf") = some (.fn (.lib "arrayIndexOf")) := rfl
  unfold e4
  simp only [evalExpr]
  rw [if_neg (by decide), hargs]
  simp only [hlk]
  rw [← C08.callValue_eq, aio_oof L G _ rfl]

def cxSt : State World := ⟨gLib, {}, 0⟩

theorem budgetOk (L : Nat) (hL : L = 0 ∨ 4 ≤ L) (g : Env) (w : World) (c : Nat) (hc : c < 4) :
    C08.BudgetOk (cxCfg L) ⟨g, w, c⟩ := by
  show (decide (L > 0) && decide (c + 1 > L)) = false
  rcases hL with rfl | hL
  · simp
  · have : ¬ (c + 1 > L) := by omega
    simp [this]

theorem run_long (L : Nat) (hL : L = 0 ∨ 4 ≤ L) (G : Nat) :
    execM₀ (cxCfg L) (G+5) cxP none none 0 cxSt = .oof := by
  rw [C08.step_assign_global (cxCfg L) (G+4) cxP none 0 cxSt _ e1 rfl (budgetOk L hL _ _ 0 (by omega))]
  show (match evalExpr (cxCfg L) (callValue₀ (cxCfg L) (G+4)) none e1 ⟨gLib, {}, 1⟩ with
    | .ok v st2 => execM₀ (cxCfg L) (G+4) cxP none none (0+1) { st2 with globals := st2.globals.set (.user "a") v }
    | .err e st2 => .err e st2 | .oof => .oof) = .oof
  rw [evalExpr_up (cxCfg L) (show 1 ≤ G+4 by omega) (by rw [ev1]; nofun), ev1]
  show execM₀ (cxCfg L) (G+3+1) cxP none none 1 ⟨g1, w1, 1⟩ = .oof
  rw [C08.step_assign_global (cxCfg L) (G+3) cxP none 1 _ _ e2 rfl (budgetOk L hL _ _ 1 (by omega))]
  show (match evalExpr (cxCfg L) (callValue₀ (cxCfg L) (G+3)) none e2 ⟨g1, w1, 2⟩ with
    | .ok v st2 => execM₀ (cxCfg L) (G+3) cxP none none (1+1) { st2 with globals := st2.globals.set (.user "p") v }
    | .err e st2 => .err e st2 | .oof => .oof) = .oof
  rw [evalExpr_up (cxCfg L) (show 1 ≤ G+3 by omega) (by rw [ev2]; nofun), ev2]
  show execM₀ (cxCfg L) (G+2+1) cxP none none 2 ⟨g2, w2, 2⟩ = .oof
  rw [C08.step_expr (cxCfg L) (G+2) cxP none none 2 _ e3 rfl (budgetOk L hL _ _ 2 (by omega))]
  show (match evalExpr (cxCfg L) (callValue₀ (cxCfg L) (G+2)) none e3 ⟨g2, w2, 3⟩ with
    | .ok _ st2 => execM₀ (cxCfg L) (G+2) cxP none none (2+1) st2
    | .err e st2 => .err e st2 | .oof => .oof) = .oof
  rw [evalExpr_up (cxCfg L) (show 1 ≤ G+2 by omega) (by rw [ev3]; nofun), ev3]
  show execM₀ (cxCfg L) (G+1+1) cxP none none 3 ⟨g2, wc, 3⟩ = .oof
  rw [C08.step_assign_global (cxCfg L) (G+1) cxP none 3 _ _ e4 rfl (budgetOk L hL _ _ 3 (by omega))]
  rw [show C08.tick (⟨g2, wc, 3⟩ : State World) = ⟨g2, wc, 4⟩ from rfl]
  rw [ev4]

/-- **hostImpl_runs_forever.** On the driver host, from the state that only binds four library functions, the script
`a = arrayNew(); p = systemPartial(arrayIndexOf, a); arrayPush(a, p); r = arrayIndexOf(a, p)` is out of fuel for EVERY
fuel, under every limit that lets its four statements start (`L = 0` or `L ≥ 4`). -/
theorem hostImpl_runs_forever (L : Nat) (hL : L = 0 ∨ 4 ≤ L) (fuel : Nat) :
    execute (cxCfg L) fuel cxP none cxSt = .oof := by
  rw [C08.execute_eq]
  show execM₀ (cxCfg L) fuel cxP none none 0 cxSt = .oof
  rcases (fuelMono (cxCfg L) fuel (fuel + 5) (by omega)).2.1 cxP none none 0 cxSt with h | h
  · exact h
  · rw [← h]; exact run_long L hL fuel

/-- … hence no `HostWF HostImpl.host` admits the state that binds just `arrayNew`, `arrayIndexOf`, `arrayPush` and
`systemPartial` in an empty world: a restriction like `implStateOk` is necessary -/
theorem hostImpl_not_wf (H : HostWF HostImpl.host) : ¬ SOK H cxSt := by
  intro h
  obtain ⟨fuel, hf⟩ := no_infinite_run (cxCfg 0) H 4 (by decide) cxP none cxSt h
  exact hf fuel (Nat.le_refl _) (hostImpl_runs_forever 4 (.inr (Nat.le_refl _)) fuel)

/-- the start state fails both decidable checks (it binds `systemPartial` and `arrayIndexOf`) -/
example : implStateOk true cxSt = false ∧ implStateOk false cxSt = false := by decide

end Impl

section LibHost
open HostLib

def lcfg (L : Nat) : Config LWorld := { host := HostLib.hostLib, funs := fun _ => none, maxStatements := L }

def lwc : LWorld :=
  { heap := [.arr [.fn 1]], log := [], partials := [(.fn (.lib "arrayIndexOf"), [.arr 0])] }

theorem lcfg_lib_eq (L : Nat) : (lcfg L).host.lib "arrayIndexOf" [.arr 0, .fn (.other 0)] lwc
    = lift (HostImpl.indexOfFn (.fn (.other 0)) [.fn (.other 0)] 0 lwc.toImpl) lwc.heap := rfl

theorem lcfg_other_eq (L : Nat) (args : List Value) : (lcfg L).host.other 0 args lwc
    = .call (.fn (.lib "arrayIndexOf")) ([.arr 0] ++ args) lwc fun r w1 => lift (HostImpl.ok r w1.toImpl) w1.heap := rfl

theorem laio_oof (L : Nat) : ∀ (fuel : Nat) (st : State LWorld), st.world = lwc →
    callValue (lcfg L) fuel (.fn (.lib "arrayIndexOf")) [.arr 0, .fn (.other 0)] st = .oof
  | 0, _, _ => by rw [callValue.eq_1]
  | 1, st, hw => by
      rw [callValue_lib, hw, lcfg_lib_eq]
      unfold HostImpl.indexOfFn
      simp only [lift, runTree]
      rw [callValue.eq_1]
  | fuel+2, st, hw => by
      rw [callValue_lib, hw, lcfg_lib_eq]
      unfold HostImpl.indexOfFn
      simp only [lift, runTree]
      rw [callValue_other]
      have hp : putBack lwc.heap lwc.toImpl = lwc := rfl
      simp only [hp, lcfg_other_eq, runTree, List.cons_append, List.nil_append]
      rw [laio_oof L fuel _ rfl]

def lw1 : LWorld := { heap := [.arr []] }
def lw2 : LWorld := { heap := [.arr []], partials := [(.fn (.lib "arrayIndexOf"), [.arr 0])] }

theorem lev1 (L : Nat) : evalExpr (lcfg L) (callValue₀ (lcfg L) 1) none e1 ⟨gLib, {}, 1⟩
    = .ok (.arr 0) ⟨gLib, lw1, 1⟩ := by rfl
theorem lev2 (L : Nat) : evalExpr (lcfg L) (callValue₀ (lcfg L) 1) none e2 ⟨g1, lw1, 2⟩
    = .ok (.fn (.other 0)) ⟨g1, lw2, 2⟩ := by rfl
theorem lev3 (L : Nat) : evalExpr (lcfg L) (callValue₀ (lcfg L) 1) none e3 ⟨g2, lw2, 3⟩
    = .ok (.arr 0) ⟨g2, lwc, 3⟩ := by rfl

theorem lev4 (L G : Nat) : evalExpr (lcfg L) (callValue₀ (lcfg L) G) none e4 ⟨g2, lwc, 4⟩ = .oof := by
  have hargs : evalArgs (lcfg L) (callValue₀ (lcfg L) G) none [va "a", va "p"] ⟨g2, lwc, 4⟩
      = .ok [.arr 0, .fn (.other 0)] ⟨g2, lwc, 4⟩ := rfl
  have hlk : lookupFunc (lcfg L) none g2 (.user "arrayIndexOf") = some (.fn (.lib "arrayIndexOf")) := rfl
  unfold e4
  simp only [evalExpr]
  rw [if_neg (by decide), hargs]
  simp only [hlk]
  rw [← C08.callValue_eq, laio_oof L G _ rfl]

def lcxSt : State LWorld := ⟨gLib, {}, 0⟩

theorem lbudgetOk (L : Nat) (hL : L = 0 ∨ 4 ≤ L) (g : Env) (w : LWorld) (c : Nat) (hc : c < 4) :
    C08.BudgetOk (lcfg L) ⟨g, w, c⟩ := by
  show (decide (L > 0) && decide (c + 1 > L)) = false
  rcases hL with rfl | hL
  · simp
  · have : ¬ (c + 1 > L) := by omega
    simp [this]

theorem lrun_long (L : Nat) (hL : L = 0 ∨ 4 ≤ L) (G : Nat) :
    execM₀ (lcfg L) (G+5) cxP none none 0 lcxSt = .oof := by
  rw [C08.step_assign_global (lcfg L) (G+4) cxP none 0 lcxSt _ e1 rfl (lbudgetOk L hL _ _ 0 (by omega))]
  show (match evalExpr (lcfg L) (callValue₀ (lcfg L) (G+4)) none e1 ⟨gLib, {}, 1⟩ with
    | .ok v st2 => execM₀ (lcfg L) (G+4) cxP none none (0+1) { st2 with globals := st2.globals.set (.user "a") v }
    | .err e st2 => .err e st2 | .oof => .oof) = .oof
  rw [evalExpr_up (lcfg L) (show 1 ≤ G+4 by omega) (by rw [lev1]; nofun), lev1]
  show execM₀ (lcfg L) (G+3+1) cxP none none 1 ⟨g1, lw1, 1⟩ = .oof
  rw [C08.step_assign_global (lcfg L) (G+3) cxP none 1 _ _ e2 rfl (lbudgetOk L hL _ _ 1 (by omega))]
  show (match evalExpr (lcfg L) (callValue₀ (lcfg L) (G+3)) none e2 ⟨g1, lw1, 2⟩ with
    | .ok v st2 => execM₀ (lcfg L) (G+3) cxP none none (1+1) { st2 with globals := st2.globals.set (.user "p") v }
    | .err e st2 => .err e st2 | .oof => .oof) = .oof
  rw [evalExpr_up (lcfg L) (show 1 ≤ G+3 by omega) (by rw [lev2]; nofun), lev2]
  show execM₀ (lcfg L) (G+2+1) cxP none none 2 ⟨g2, lw2, 2⟩ = .oof
  rw [C08.step_expr (lcfg L) (G+2) cxP none none 2 _ e3 rfl (lbudgetOk L hL _ _ 2 (by omega))]
  show (match evalExpr (lcfg L) (callValue₀ (lcfg L) (G+2)) none e3 ⟨g2, lw2, 3⟩ with
    | .ok _ st2 => execM₀ (lcfg L) (G+2) cxP none none (2+1) st2
    | .err e st2 => .err e st2 | .oof => .oof) = .oof
  rw [evalExpr_up (lcfg L) (show 1 ≤ G+2 by omega) (by rw [lev3]; nofun), lev3]
  show execM₀ (lcfg L) (G+1+1) cxP none none 3 ⟨g2, lwc, 3⟩ = .oof
  rw [C08.step_assign_global (lcfg L) (G+1) cxP none 3 _ _ e4 rfl (lbudgetOk L hL _ _ 3 (by omega))]
  rw [show C08.tick (⟨g2, lwc, 3⟩ : State LWorld) = ⟨g2, lwc, 4⟩ from rfl]
  rw [lev4]

/-- **hostLib_runs_forever.** The same script on `HostLib.hostLib` (where `arrayNew`/`arrayPush` are `Lib`'s and
`systemPartial` / the match-function form of `arrayIndexOf` are the lifted HostImpl trees). -/
theorem hostLib_runs_forever (L : Nat) (hL : L = 0 ∨ 4 ≤ L) (fuel : Nat) :
    execute (lcfg L) fuel cxP none lcxSt = .oof := by
  rw [C08.execute_eq]
  show execM₀ (lcfg L) fuel cxP none none 0 lcxSt = .oof
  rcases (fuelMono (lcfg L) fuel (fuel + 5) (by omega)).2.1 cxP none none 0 lcxSt with h | h
  · exact h
  · rw [← h]; exact lrun_long L hL fuel

theorem hostLib_not_wf (H : HostWF HostLib.hostLib) : ¬ SOK H lcxSt := by
  intro h
  obtain ⟨fuel, hf⟩ := no_infinite_run (lcfg 0) H 4 (by decide) cxP none lcxSt h
  exact hf fuel (Nat.le_refl _) (hostLib_runs_forever 4 (.inr (Nat.le_refl _)) fuel)

example : libStateOk true lcxSt = false ∧ libStateOk false lcxSt = false := by decide

end LibHost

end Counter

end C09
