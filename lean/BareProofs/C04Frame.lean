import BareProofs.C04Lemmas

/-!
# C04 — the frame invariant of the globals

One induction (on the fuel; inside it on expressions and on library interaction trees) that yields every statement of the
form "running … changes the globals only by …".  It is parametric in

* `S : Name → Prop` — the names that MAY be written in the globals (by a `function` statement, a `globalSet` request of a
  library tree, a top-level assignment of an included script),
* `I : Prop` — whether `include` statements are allowed at all,
* `R : Env → Env → Prop` — a reflexive, transitive relation between the globals before and after that every allowed write
  respects (`R g (g.set n v)` for `S n`).

Instances used by `C04.lean`: `S = ∅, R = Eq` (nothing is written: `globals' = globals`, theorem `assign_local_only`) and
`R g g' = ∀ n, ¬ S n → g'[n] = g[n]` (theorem `globals_frame`: names outside `S` keep their binding).
-/

open Machine Scope
namespace C04
variable {W : Type}

/-- the library tree writes (by `globalSet`) only names in `S`, whatever its call-backs return -/
inductive TreeWrites (S : Name → Prop) : LibTree W → Prop
  | ret (o : LibOut) (w : W) : TreeWrites S (.ret o w)
  | call (f : Value) (args : List Value) (w : W) (k : Value → W → LibTree W) :
      (∀ v w', TreeWrites S (k v w')) → TreeWrites S (.call f args w k)
  | globalGet (n : Name) (w : W) (k : Option Value → W → LibTree W) :
      (∀ v w', TreeWrites S (k v w')) → TreeWrites S (.globalGet n w k)
  | globalSet (n : Name) (v : Value) (w : W) (k : W → LibTree W) :
      S n → (∀ w', TreeWrites S (k w')) → TreeWrites S (.globalSet n v w k)

/-- **the predicate on `LibTree`**: the tree never issues a `globalSet` request (on any path, for any call-back result) -/
def NoGlobalSet (t : LibTree W) : Prop := TreeWrites (fun _ => False) t

/-- what a statement may do to the globals: inside a function (`inFn`) an assignment is free (it writes the locals); at
top level it must name a member of `S`; a `function` statement must name a member of `S`; `include` needs `I` -/
def StmtOK (S : Name → Prop) (I : Prop) (inFn : Bool) : Stmt → Prop
  | .expr (some n) _ => inFn = true ∨ S n
  | .function _ name _ _ _ _ => S name
  | .include _ => I
  | _ => True

/-- the hypotheses on the configuration: library and other host callables, every function body of the table, every
script that an include can fetch -/
structure Frame (cfg : Config W) (S : Name → Prop) (I : Prop) : Prop where
  lib : ∀ name args w, TreeWrites S (cfg.host.lib name args w)
  other : ∀ k args w, TreeWrites S (cfg.host.other k args w)
  funs : ∀ id fd, cfg.funs id = some fd → ∀ s ∈ fd.body, StmtOK S I true s
  fetch : I → ∀ url ss, cfg.fetch url = .script ss → ∀ s ∈ ss, StmtOK S I false s

/-- the relation every allowed write respects -/
structure Respects (S : Name → Prop) (R : Env → Env → Prop) : Prop where
  refl : ∀ g, R g g
  trans : ∀ {a b c}, R a b → R b c → R a c
  set : ∀ g n v, S n → R g (g.set n v)

def OutRel (R : Env → Env → Prop) (g : Env) : Out W → Prop
  | .ok _ st => R g st.globals
  | .err _ st => R g st.globals
  | .oof => True

def ArgsRel (R : Env → Env → Prop) (g : Env) : ArgsOut W → Prop
  | .ok _ st => R g st.globals
  | .err _ st => R g st.globals
  | .oof => True

def ResRel (R : Env → Env → Prop) (g : Env) : Res W → Prop
  | .done st => R g st.globals
  | .ret _ st => R g st.globals
  | .err _ st => R g st.globals
  | .oof => True

section
variable {S : Name → Prop} {R : Env → Env → Prop}

theorem OutRel.trans (hR : Respects S R) {a b : Env} {o : Out W} (h1 : R a b) (h2 : OutRel R b o) : OutRel R a o := by
  cases o <;> simp only [OutRel] at * <;> first | exact hR.trans h1 h2 | trivial

theorem ResRel.trans (hR : Respects S R) {a b : Env} {o : Res W} (h1 : R a b) (h2 : ResRel R b o) : ResRel R a o := by
  cases o <;> simp only [ResRel] at * <;> first | exact hR.trans h1 h2 | trivial

/-! ### expressions: they touch the globals only through the calls they make -/

variable (hR : Respects S R) (cfg : Config W) (call : CallFn W) (locals : Option Env)
  (hcall : ∀ f args st, OutRel R st.globals (call f args st))
include hR hcall

set_option linter.unusedSectionVars false in
mutual
theorem evalExpr_rel : ∀ (e : Expr) (st : State W), OutRel R st.globals (evalExpr cfg call locals e st)
  | .number q, st => by simp only [evalExpr]; exact hR.refl _
  | .string s, st => by simp only [evalExpr]; exact hR.refl _
  | .variable n, st => by
      simp only [evalExpr]
      repeat' split
      all_goals exact hR.refl _
  | .function n args, st => by
      simp only [evalExpr]
      split
      · exact evalIf_rel args st
      · have h1 := evalArgs_rel args st
        cases h : evalArgs cfg call locals args st with
        | ok vs st1 =>
          rw [h] at h1
          simp only
          split
          · exact h1
          · exact OutRel.trans hR h1 (hcall _ _ _)
          · exact h1
        | err e st1 => rw [h] at h1; exact h1
        | oof => trivial
  | .binary op l r, st => by
      have hl := evalExpr_rel l st
      cases op
      case and =>
        simp only [evalExpr]
        cases h : evalExpr cfg call locals l st with
        | ok lv st1 =>
          rw [h] at hl
          simp only
          split
          · exact OutRel.trans hR hl (evalExpr_rel r st1)
          · exact hl
        | err e st1 => rw [h] at hl; exact hl
        | oof => trivial
      case or =>
        simp only [evalExpr]
        cases h : evalExpr cfg call locals l st with
        | ok lv st1 =>
          rw [h] at hl
          simp only
          split
          · exact hl
          · exact OutRel.trans hR hl (evalExpr_rel r st1)
        | err e st1 => rw [h] at hl; exact hl
        | oof => trivial
      all_goals
        simp only [evalExpr]
        cases h : evalExpr cfg call locals l st with
        | ok lv st1 =>
          rw [h] at hl
          simp only
          have hr := evalExpr_rel r st1
          cases h2 : evalExpr cfg call locals r st1 with
          | ok rv st2 => rw [h2] at hr; exact OutRel.trans hR hl hr
          | err e st2 => rw [h2] at hr; exact OutRel.trans hR hl hr
          | oof => trivial
        | err e st1 => rw [h] at hl; exact hl
        | oof => trivial
  | .unary op e, st => by
      have he := evalExpr_rel e st
      cases op <;>
      · simp only [evalExpr]
        cases h : evalExpr cfg call locals e st with
        | ok v st1 => rw [h] at he; exact he
        | err e st1 => rw [h] at he; exact he
        | oof => trivial
  | .group e, st => by simp only [evalExpr]; exact evalExpr_rel e st

theorem evalArgs_rel : ∀ (es : List Expr) (st : State W), ArgsRel R st.globals (evalArgs cfg call locals es st)
  | [], st => by simp only [evalArgs]; exact hR.refl _
  | a :: as, st => by
      simp only [evalArgs]
      have ha := evalExpr_rel a st
      cases h : evalExpr cfg call locals a st with
      | ok v st1 =>
        rw [h] at ha
        simp only
        have has := evalArgs_rel as st1
        cases h2 : evalArgs cfg call locals as st1 with
        | ok vs st2 => rw [h2] at has; exact hR.trans ha has
        | err e st2 => rw [h2] at has; exact hR.trans ha has
        | oof => trivial
      | err e st1 => rw [h] at ha; exact ha
      | oof => trivial

theorem evalIf_rel : ∀ (es : List Expr) (st : State W), OutRel R st.globals (evalIf cfg call locals es st)
  | [], st => by simp only [evalIf]; exact hR.refl _
  | [c], st => by
      simp only [evalIf]
      have hc := evalExpr_rel c st
      cases h : evalExpr cfg call locals c st with
      | ok v st1 => rw [h] at hc; exact hc
      | err e st1 => rw [h] at hc; exact hc
      | oof => trivial
  | [c, t], st => by
      simp only [evalIf]
      have hc := evalExpr_rel c st
      cases h : evalExpr cfg call locals c st with
      | ok v st1 =>
        rw [h] at hc
        simp only
        split
        · exact OutRel.trans hR hc (evalExpr_rel t st1)
        · exact hc
      | err e st1 => rw [h] at hc; exact hc
      | oof => trivial
  | c :: t :: f :: _, st => by
      simp only [evalIf]
      have hc := evalExpr_rel c st
      cases h : evalExpr cfg call locals c st with
      | ok v st1 =>
        rw [h] at hc
        simp only
        split
        · exact OutRel.trans hR hc (evalExpr_rel t st1)
        · exact OutRel.trans hR hc (evalExpr_rel f st1)
      | err e st1 => rw [h] at hc; exact hc
      | oof => trivial
end

/-! ### library trees: `globalSet` requests and call-backs -/

theorem runTree_rel {t : LibTree W} (ht : TreeWrites S t) : ∀ st : State W, OutRel R st.globals (runTree cfg call t st) := by
  induction ht with
  | ret o w =>
    intro st
    cases o <;> simp only [runTree] <;> exact hR.refl _
  | call f args w k _ ih =>
    intro st
    simp only [runTree]
    have h1 := hcall f args { st with world := w }
    cases h : call f args { st with world := w } with
    | ok v st1 => rw [h] at h1; exact OutRel.trans hR h1 (ih v st1.world st1)
    | err e st1 => rw [h] at h1; exact h1
    | oof => trivial
  | globalGet n w k _ ih =>
    intro st
    simp only [runTree]
    exact ih _ _ { st with world := w }
  | globalSet n v w k hS _ ih =>
    intro st
    simp only [runTree]
    exact OutRel.trans hR (hR.set st.globals n v hS) (ih w { st with globals := st.globals.set n v, world := w })

end

/-! ### the machine -/

/-- the statements proved together by induction on the fuel -/
def FrameAt (cfg : Config W) (S : Name → Prop) (I : Prop) (R : Env → Env → Prop) (fuel : Nat) : Prop :=
  (∀ f args st, OutRel R st.globals (callValue cfg fuel f args st)) ∧
  (∀ P locals base cache pc st, (∀ s ∈ P, StmtOK S I locals.isSome s) →
      ResRel R st.globals (execM cfg fuel P locals base cache pc st)) ∧
  (I → ∀ base incs st, ResRel R st.globals (execIncludes cfg fuel base incs st))

theorem frameAt {cfg : Config W} {S : Name → Prop} {I : Prop} {R : Env → Env → Prop}
    (hF : Frame cfg S I) (hR : Respects S R) : ∀ fuel, FrameAt cfg S I R fuel
  | 0 => by
    refine ⟨?_, ?_, ?_⟩
    · intro f args st; rw [callValue.eq_def]; trivial
    · intro P locals base cache pc st _
      rw [execM.eq_1]
      cases P[pc]? with
      | none => exact hR.refl _
      | some s => trivial
    · intro hI base incs st
      cases incs with
      | nil => rw [execIncludes.eq_1]; exact hR.refl _
      | cons i r =>
        rw [execIncludes.eq_2]
        cases cfg.fetch (cfg.resolve base i) with
        | missing => exact hR.refl _
        | broken => exact hR.refl _
        | script ss => trivial
  | fuel+1 => by
    obtain ⟨ihC, ihE, ihI⟩ := frameAt hF hR fuel
    refine ⟨?_, ?_, ?_⟩
    · -- the call wrapper
      intro f args st
      rw [callValue.eq_def]
      simp only
      split
      · -- script function
        rename_i id
        split
        · rename_i fd hfd
          generalize bindArgs cfg.host fd.lastArgArray fd.args args [] st.world = bw
          obtain ⟨loc, w1⟩ := bw
          simp only
          have h := ihE fd.body (some loc) none [] 0 { st with world := w1 } (hF.funs id fd hfd)
          cases hx : execM cfg fuel fd.body (some loc) none [] 0 { st with world := w1 } with
          | done st' => rw [hx] at h; exact h
          | ret v st' => rw [hx] at h; exact h
          | err e st' => rw [hx] at h; exact h
          | oof => trivial
        · exact hR.refl _
      · exact runTree_rel hR cfg _ ihC (hF.lib _ _ _) st
      · exact runTree_rel hR cfg _ ihC (hF.other _ _ _) st
      · exact hR.refl _
    · -- the statement machine
      intro P locals base cache pc st hP
      rw [execM.eq_1]
      cases hs : P[pc]? with
      | none => exact hR.refl _
      | some s =>
        have hsP : StmtOK S I locals.isSome s := hP s (List.mem_of_getElem? hs)
        simp only
        split
        · exact hR.refl _
        · have hev := fun e => evalExpr_rel hR cfg (callValue cfg fuel) locals ihC e { st with count := st.count + 1 }
          cases s with
          | expr name e =>
            simp only
            have he := hev e
            cases hx : evalExpr cfg (callValue cfg fuel) locals e { st with count := st.count + 1 } with
            | ok v st2 =>
              rw [hx] at he
              cases name with
              | none => exact ResRel.trans hR he (ihE _ _ _ _ _ _ hP)
              | some n =>
                cases locals with
                | some l => exact ResRel.trans hR he (ihE P (some (l.set n v)) _ _ _ _ hP)
                | none =>
                  have hSn : S n := by
                    rcases hsP with h | h
                    · cases h
                    · exact h
                  exact ResRel.trans hR (hR.trans he (hR.set _ n v hSn)) (ihE P none _ _ _ _ hP)
            | err e st2 => rw [hx] at he; exact he
            | oof => trivial
          | jump l c =>
            cases c with
            | none =>
              simp only
              cases jumpTarget P cache l with
              | none => exact hR.refl _
              | some ci => exact ihE _ _ _ _ _ _ hP
            | some c =>
              simp only
              have he := hev c
              cases hx : evalExpr cfg (callValue cfg fuel) locals c { st with count := st.count + 1 } with
              | ok v st2 =>
                rw [hx] at he
                simp only
                split
                · cases jumpTarget P cache l with
                  | none => exact he
                  | some ci => exact ResRel.trans hR he (ihE _ _ _ _ _ _ hP)
                · exact ResRel.trans hR he (ihE _ _ _ _ _ _ hP)
              | err e st2 => rw [hx] at he; exact he
              | oof => trivial
          | ret e =>
            cases e with
            | none => exact hR.refl _
            | some e =>
              simp only
              have he := hev e
              cases hx : evalExpr cfg (callValue cfg fuel) locals e { st with count := st.count + 1 } with
              | ok v st2 => rw [hx] at he; exact he
              | err e st2 => rw [hx] at he; exact he
              | oof => trivial
          | label l => exact ihE _ _ _ _ _ _ hP
          | function fid name args laa isAsync body =>
            exact ResRel.trans hR (hR.set st.globals name _ hsP) (ihE _ _ _ _ _ _ hP)
          | «include» incs =>
            simp only
            have hi := ihI hsP base incs { st with count := st.count + 1 }
            cases hx : execIncludes cfg fuel base incs { st with count := st.count + 1 } with
            | done st2 => rw [hx] at hi; exact ResRel.trans hR hi (ihE _ _ _ _ _ _ hP)
            | ret v st2 => rw [hx] at hi; exact hi
            | err e st2 => rw [hx] at hi; exact hi
            | oof => trivial
    · -- includes
      intro hI base incs st
      cases incs with
      | nil => rw [execIncludes.eq_1]; exact hR.refl _
      | cons i r =>
        rw [execIncludes.eq_2]
        simp only
        cases hf : cfg.fetch (cfg.resolve base i) with
        | missing => exact hR.refl _
        | broken => exact hR.refl _
        | script ss =>
          simp only
          have h := ihE ss none (some (cfg.resolve base i)) [] 0 st (hF.fetch hI _ ss hf)
          cases hx : execM cfg fuel ss none (some (cfg.resolve base i)) [] 0 st with
          | done st' => rw [hx] at h; exact ResRel.trans hR h (ihI hI base r st')
          | ret v st' => rw [hx] at h; exact ResRel.trans hR h (ihI hI base r st')
          | err e st' => rw [hx] at h; exact h
          | oof => trivial

end C04
