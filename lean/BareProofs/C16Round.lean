import Mathlib.Tactic.Linarith
import Mathlib.Tactic.NormNum
import Mathlib.Tactic.Ring
import Mathlib.Tactic.Positivity
import Mathlib.Algebra.Order.Floor.Ring
import Mathlib.Data.Rat.Floor

/-!
# C16 — the float path of `datetime − datetime` (runtime.py:306) — PARTIAL

`value_round_number((left_dt - right_dt).total_seconds() * 1000, 0)` is computed in IEEE-754 doubles:

1. `total_seconds()` = `microseconds / 10**6`   (int / int true division: ONE correctly rounded operation)
2. `* 1000`                                      (one rounding)
3. `value * multiplier` with `multiplier = 10 ** 0 = 1`   (exact)
4. `+ 0.5` (value ≥ 0) or `− 0.5`               (one rounding)
5. `int(...)`                                    (truncation toward zero, exact)
6. `/ multiplier`                                (`int / 1`, exact below 2^53)

Full statement wanted: for every pair of datetimes whose exact difference is `n` milliseconds, |n| ≤ 10¹², the double
computation returns exactly `n`. Proved here: the same with each rounded operation replaced by
`exact result × (1 + δ)`, |δ| ≤ 2⁻⁵³ (the standard model of floating-point arithmetic, valid for binary64 in the
absence of underflow/overflow — all intermediate magnitudes here lie in [5·10⁻⁴, 10¹⁵] or are exactly 0), over ℚ,
for ALL such δ. What is missing: bit-level IEEE semantics (that CPython's `/`, `*`, `+` on these operands satisfy
the model) is an assumption, sampled by the `dt-arith` stream.
-/

namespace C16

/-- unit roundoff of IEEE-754 binary64 -/
def u : ℚ := 1 / 2 ^ 53

/-- steps 1–4 with explicit relative errors (`n` = exact difference in milliseconds; the timedelta holds `n * 1000` µs) -/
def roundPathQ (n : ℤ) (δ1 δ2 δ3 : ℚ) : ℚ :=
  let ts := ((n : ℚ) * 1000 / 1000000) * (1 + δ1)
  let p := ts * 1000 * (1 + δ2)
  (p + (if p ≥ 0 then 1 / 2 else -1 / 2)) * (1 + δ3)

/-- step 5: `int()` truncates toward zero -/
def truncQ (q : ℚ) : ℤ := if q ≥ 0 then ⌊q⌋ else ⌈q⌉

theorem p_close (x δ1 δ2 : ℚ) (hx : |x| ≤ 10 ^ 12) (h1 : |δ1| ≤ u) (h2 : |δ2| ≤ u) :
    |x * 1000 / 1000000 * (1 + δ1) * 1000 * (1 + δ2) - x| ≤ 1 / 2000 := by
  have e : x * 1000 / 1000000 * (1 + δ1) * 1000 * (1 + δ2) - x = x * (δ1 + δ2 + δ1 * δ2) := by ring
  rw [e, abs_mul]
  have hu : u = 1 / 2 ^ 53 := rfl
  have b : |δ1 + δ2 + δ1 * δ2| ≤ 3 * u := by
    have := abs_le.1 h1; have := abs_le.1 h2
    have hu0 : 0 < u := by rw [hu]; positivity
    have hu1 : u ≤ 1 := by rw [hu]; norm_num
    rw [abs_le]; constructor <;> nlinarith [mul_le_mul_of_nonneg_left hu1 hu0.le]
  calc |x| * |δ1 + δ2 + δ1 * δ2| ≤ 10 ^ 12 * (3 * u) := mul_le_mul hx b (abs_nonneg _) (by positivity)
    _ ≤ 1 / 2000 := by rw [hu]; norm_num

theorem q_close (y δ3 : ℚ) (hy : |y| ≤ 10 ^ 12 + 1) (h3 : |δ3| ≤ u) : |y * (1 + δ3) - y| ≤ 1 / 2000 := by
  have e : y * (1 + δ3) - y = y * δ3 := by ring
  rw [e, abs_mul]
  have hu : u = 1 / 2 ^ 53 := rfl
  calc |y| * |δ3| ≤ (10 ^ 12 + 1) * u := mul_le_mul hy h3 (abs_nonneg _) (by positivity)
    _ ≤ 1 / 2000 := by rw [hu]; norm_num

/-- **C16 / rounding — PARTIAL** (see the module comment): under the relative-error model the float path returns exactly
`n` for every |n| ≤ 10¹² and every admissible error triple. -/
theorem round_ms_exact_partial (n : ℤ) (hn : |n| ≤ 10 ^ 12) (δ1 δ2 δ3 : ℚ)
    (h1 : |δ1| ≤ u) (h2 : |δ2| ≤ u) (h3 : |δ3| ≤ u) : truncQ (roundPathQ n δ1 δ2 δ3) = n := by
  have hx : |(n : ℚ)| ≤ 10 ^ 12 := by
    have : ((|n| : ℤ) : ℚ) ≤ ((10 ^ 12 : ℤ) : ℚ) := Int.cast_le.2 hn
    rw [Int.cast_abs] at this
    calc |(n : ℚ)| ≤ ((10 ^ 12 : ℤ) : ℚ) := this
      _ = 10 ^ 12 := by norm_num
  have hp := abs_le.1 (p_close (n : ℚ) δ1 δ2 hx h1 h2)
  have hxx := abs_le.1 hx
  have hz : (n : ℚ) = 0 → (n : ℚ) * 1000 / 1000000 * (1 + δ1) * 1000 * (1 + δ2) = 0 := by
    intro h; rw [h]; ring
  simp only [roundPathQ]
  generalize (n : ℚ) * 1000 / 1000000 * (1 + δ1) * 1000 * (1 + δ2) = P at hp hz ⊢
  by_cases hn0 : 0 ≤ n
  · have hx0 : (0 : ℚ) ≤ n := by exact_mod_cast hn0
    have hP : P ≥ 0 := by
      rcases Int.lt_or_eq_of_le hn0 with h | h
      · have : (1 : ℚ) ≤ n := by exact_mod_cast h
        linarith
      · have : (n : ℚ) = 0 := by rw [← h]; simp
        rw [hz this]
    rw [if_pos hP]
    have hq := abs_le.1 (q_close (P + 1 / 2) δ3 (by rw [abs_le]; constructor <;> linarith) h3)
    have lo : (n : ℚ) ≤ (P + 1 / 2) * (1 + δ3) := by linarith
    have hi : (P + 1 / 2) * (1 + δ3) < n + 1 := by linarith
    unfold truncQ
    rw [if_pos (by linarith)]
    exact Int.floor_eq_iff.2 ⟨lo, hi⟩
  · have hneg : n ≤ -1 := by omega
    have hx1 : (n : ℚ) ≤ -1 := by exact_mod_cast hneg
    have hP : ¬ P ≥ 0 := by intro h; linarith
    rw [if_neg hP]
    have hq := abs_le.1 (q_close (P + -1 / 2) δ3 (by rw [abs_le]; constructor <;> linarith) h3)
    have lo : (n : ℚ) - 1 < (P + -1 / 2) * (1 + δ3) := by linarith
    have hi : (P + -1 / 2) * (1 + δ3) ≤ n := by linarith
    unfold truncQ
    rw [if_neg (by linarith)]
    exact Int.ceil_eq_iff.2 ⟨lo, hi⟩

/-- non-vacuity: the extreme offset with the three errors at their bounds, mixed signs -/
example : |(10 ^ 12 : ℤ)| ≤ 10 ^ 12 ∧ |u| ≤ u ∧ |-u| ≤ u ∧ truncQ (roundPathQ (10 ^ 12) u (-u) u) = 10 ^ 12 ∧
    truncQ (roundPathQ (-(10 ^ 12)) (-u) (-u) u) = -(10 ^ 12) := by
  have hu : (0 : ℚ) ≤ u := by unfold u; positivity
  have a1 : |u| ≤ u := le_of_eq (abs_of_nonneg hu)
  have a2 : |-u| ≤ u := by rw [abs_neg]; exact a1
  exact ⟨by norm_num, a1, a2, round_ms_exact_partial _ (by norm_num) _ _ _ a1 a2 a1,
    round_ms_exact_partial _ (by norm_num) _ _ _ a2 a2 a1⟩

end C16
