#!/bin/bash
# Parallel version of seed_matrix.sh: usage tools/seed_matrix_par.sh <workers> "<seed-dir-glob> [<glob> ...]" [outfile]
# Each worker has its own private copy directory (SEED_RUN=/tmp/seedrun_<k>); /repo is never touched.
W=${1:-4}; G=${2:-*}; OUT=${3:-/verif/seeded/MATRIX.txt}
ls -d $(for g in $G; do echo /verif/seeded/$g/; done) | xargs -n1 basename > /tmp/seed_matrix_list.$$
: > /tmp/seed_matrix_out.$$
run_one() {
  s=$1; k=$2
  d=/verif/seeded/$s; [ -f $d/patch.diff ] || return
  c=$(echo $s | sed -E 's/^(R[0-9]+)?(C[0-9]+)-.*/\2/')
  r=$(SEED_RUN=/tmp/seedrun_$k /verif/tools/seed_check_copy.sh $d $c 2>&1 | grep -v WARNING)
  if echo "$r" | grep -q "VIOLATION.*no-failing-input-found"; then v=nfi
  elif echo "$r" | grep -q "VIOLATION"; then v=witness
  elif echo "$r" | grep -q "exit 0"; then v=MISSED
  else v="ERROR"; fi
  echo "$s $c $v $(echo "$r" | grep -o 'VIOLATION[^ ]* [^ ]* [^ ]*' | head -1)"
}
export -f run_one
for k in $(seq 1 $W); do
  ( awk -v w=$W -v k=$k 'NR % w == k % w' /tmp/seed_matrix_list.$$ | while read s; do run_one $s $k; done >> /tmp/seed_matrix_out.$$ ) &
done
wait
sort /tmp/seed_matrix_out.$$ > "$OUT"
rm -f /tmp/seed_matrix_list.$$ /tmp/seed_matrix_out.$$
for k in $(seq 1 $W); do rm -rf /tmp/seedrun_$k; done
echo "matrix written to $OUT: $(grep -c witness $OUT) witness, $(grep -c ' nfi' $OUT) nfi, $(grep -c MISSED $OUT) missed, $(grep -c ERROR $OUT) error"
