#!/bin/bash
# Run the repository's pinned baseline (stable_pass list of /root/.vp/BASELINE.json) and report regressions.
# usage: tools/baseline.sh [repo-dir]
REPO=${1:-/repo}
OUT=$(mktemp)
cd "$REPO" && PYTHONPATH="$REPO/src" /venv/bin/python -m pytest -q -p no:cacheprovider --timeout=900 --continue-on-collection-errors --junitxml="$OUT" >/dev/null 2>&1
/venv/bin/python - "$OUT" <<'PY'
import json, sys, xml.etree.ElementTree as ET
base = json.load(open('/root/.vp/BASELINE.json'))
want = set(base['stable_pass'])
root = ET.parse(sys.argv[1]).getroot()
passed = set()
for tc in root.iter('testcase'):
    name = f"{tc.get('classname')}::{tc.get('name')}"
    if not any(ch.tag in ('failure', 'error', 'skipped') for ch in tc):
        passed.add(name)
missing = sorted(want - passed)
print(f'baseline: {len(want & passed)}/{len(want)} stable tests pass; regressions: {missing[:10]}')
sys.exit(1 if missing else 0)
PY
RC=$?
rm -f "$OUT"
exit $RC
