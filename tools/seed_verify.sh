#!/bin/bash
# Verify a seeded change: usage tools/seed_verify.sh <seed-out-dir e.g. /tmp/seed/C08-out/m1>
# Checks in a scratch worktree of /repo HEAD: patch applies, baseline passes with it, demo fails with it and passes without.
set -u
D=$1
WT=$(mktemp -d /tmp/seedverify.XXXXXX)
git -C /repo worktree add -q --detach "$WT" HEAD || exit 2
trap 'git -C /repo worktree remove --force "$WT" >/dev/null 2>&1' EXIT
cd "$WT"
PYTHONPATH="$WT/src" /venv/bin/python "$D/demo.py" >/tmp/seedverify.without 2>&1; W0=$?
if ! git apply --check "$D/patch.diff" 2>/dev/null; then echo "APPLY-FAIL $D"; exit 3; fi
git apply "$D/patch.diff"
BL=$(bash /verif/tools/baseline.sh "$WT" | tail -1); B=$?
PYTHONPATH="$WT/src" /venv/bin/python "$D/demo.py" >/tmp/seedverify.with 2>&1; W1=$?
echo "seed=$D demo_without=$W0 demo_with=$W1 baseline_rc=$B [$BL]"
if [ $W0 -eq 0 ] && [ $W1 -ne 0 ] && [ $B -eq 0 ]; then echo "SEED-OK"; exit 0; else echo "SEED-BAD"; tail -3 /tmp/seedverify.without /tmp/seedverify.with; exit 1; fi
