#!/bin/bash
# Run checks against a seeded change WITHOUT touching /repo (safe while other work reads /repo):
# private copies of /verif and /repo/src under /tmp/seedrun, the patch applied to the copy, VERIF_REPO pointing at it.
# usage: tools/seed_check_copy.sh <seed dir with patch.diff> <Cxx> [<Cyy> ...]
set -u
D=$1; shift
R=${SEED_RUN:-/tmp/seedrun}
mkdir -p $R
rsync -a --delete --exclude '.git' --exclude 'replays' ${SEED_BASE:-/verif}/ $R/verif/
rm -rf $R/repo; mkdir -p $R/repo; git -C /repo archive HEAD src | tar -x -C $R/repo    # committed state, not the working tree
( cd $R/repo && patch -s -p1 < "$D/patch.diff" ) || { echo "patch does not apply"; exit 3; }
for P in "$@"; do
  ( cd $R/verif && VERIF_REPO=$R/repo timeout 1800 /venv/bin/python harness/check.py "$P" --tier quick 2>&1 | grep -E "VIOLATION|KNOWN-FINDING|-> exit|infrastructure" | sed "s|^|[$P] |" )
done
