#!/bin/bash
# Run checks against a seeded change applied to /repo, then undo it.
# usage: tools/seed_check.sh <seed dir containing patch.diff> <Cxx> [<Cyy> ...]
set -u
D=$1; shift
if [ -n "$(git -C /repo status --porcelain)" ]; then echo "/repo not clean"; exit 2; fi
git -C /repo apply "$D/patch.diff" || { echo "patch does not apply"; exit 3; }
for P in "$@"; do
  cd /verif && timeout 1500 /venv/bin/python harness/check.py "$P" --tier quick 2>&1 | grep -E "VIOLATION|KNOWN-FINDING|-> exit" | sed "s|^|[$P] |"
done
git -C /repo checkout -- .
# restore generated tables to the clean tree
cd /verif && /venv/bin/python harness/extract.py >/dev/null
