#!/bin/bash
# usage: tools/seed_import.sh Cxx   -- verify /tmp/seed/Cxx-out/m1,m2 and import the good ones into /verif/seeded/Cxx-mN/
P=$1
for m in m1 m2; do
  D=/tmp/seed/$P-out/$m
  [ -f "$D/patch.diff" ] || { echo "missing $D"; continue; }
  OUT=$(/verif/tools/seed_verify.sh "$D"); RC=$?
  echo "$OUT" | head -2
  if [ $RC -eq 0 ]; then
    T=/verif/seeded/$P-$m; mkdir -p "$T"; cp "$D/patch.diff" "$D/demo.py" "$T/"
    /venv/bin/python - "$D/meta.json" "$T/meta.json" "$OUT" <<'PY'
import json, sys
try: meta = json.load(open(sys.argv[1]))
except Exception: meta = {}
meta['verified_by_coordinator'] = {'ran': 'tools/seed_verify.sh (scratch worktree of /repo HEAD: demo without change, git apply, tools/baseline.sh, demo with change)', 'output': sys.argv[3].splitlines()[0]}
json.dump(meta, open(sys.argv[2], 'w'), indent=1)
PY
  fi
done
