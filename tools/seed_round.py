#!/usr/bin/env python3
"""Prepare a seeding round: one scratch worktree of /repo HEAD and one brief per property under /tmp/seed.

usage: tools/seed_round.py R8 [C01 C02 ...]
The brief holds ONLY the text of the property (title, statement, quantifier, anchors), the flavour of change asked for, and
one-line summaries of the changes already collected for that property ("do not repeat") - nothing about /verif's checks.
"""
import glob
import json
import os
import subprocess
import sys

ROUND = sys.argv[1]
ONLY = set(sys.argv[2:])

FLAVOUR = {
 'R8': """
This round asks for changes of the following kinds (pick two DIFFERENT kinds for your two changes):

 (t) SIZE / THRESHOLD dependent: a plausible optimisation or fast path that only differs from the original beyond some size or
     count that ordinary examples never reach - more than 9 / 10 / 16 / 64 / 100 of something (labels, nested blocks, array
     elements, object keys, rows, function parameters, include depth, statements run so far, digits, characters, lines),
     a chunked / batched loop whose last partial batch is wrong, a cache with an eviction limit, a two-digit vs one-digit
     counter in a generated name, a pre-sized buffer.
 (i) IDENTITY / ALIASING dependent: wrong only when the SAME object reaches the code twice or through two routes (the same
     array as both arguments, a container that holds itself or is shared by two parents, one model / options / globals dict
     reused, an argument list object that is also a global, a function value stored in a container it receives).
 (k) EQUALITY / HASH / ORDER coincidences of the host language: 1 == 1.0 == True, hash(-1) == hash(-2), 0.0 == -0.0,
     'a' < 'B' vs case folding, dict insertion order vs sorted order, set iteration order, str.isdigit() on non-ASCII digits,
     int('١٢'), float('1_0'), 'ß'.upper(), sorted() stability with reverse=True, NaN in a set, tuple vs list equality.
 (p) PATH COMBINATIONS: each of two language/library features works alone, the defect needs both in one program or call
     (e.g. a construct nested in a specific other construct in a function with a rest parameter; a library call whose
     argument is itself produced by a particular other call; an error raised while another error is being reported).
""",
 'R10': """
This round is CLAUSE-COVERAGE driven.  First split the property statement into its individual clauses (every "and", every "in
particular", every listed consumer / input form / configuration, the quantifier's dimensions).  Then go through the list of changes
already collected (below) and note which clause each one attacks.  Write your two changes against the TWO clauses (or quantifier
dimensions) that were attacked LEAST so far - ideally never - and say in meta.json ("clause") which clause that is and why earlier
changes left it alone.  Any mechanism is welcome (state, thresholds, aliasing, host-language coincidences, error paths, unusual but
legal inputs, two cooperating sites) as long as the change needs something specific to manifest and is not a close variant of a
collected one.  Prefer code far away from where the collected changes cluster (a different function / file among the anchors).
""",
 'R9': """
This round asks for changes of the following kinds (pick two DIFFERENT kinds for your two changes):

 (s) SECOND-ORDER STATE: the first use is always right; the defect needs a specific EARLIER operation to have happened in the same
     process / options / globals / container (a failed call before a good one, an aborted run before a full run, a parse error
     before a good parse, a mutation between two reads, an include that returned early, a function redefined later).
 (b) BOUNDARY ARITHMETIC: off-by-one or sign errors that only show at an exact boundary that plain examples skip (index == length,
     count == 0, negative zero, empty string / array / object, one-element input, the last line without a line end, limit exactly
     reached, first/last column, December/January, leap day, 999/1000 ms, 59/60).
 (e) ERROR-PATH ONLY: the normal path is untouched; what is wrong is which error / failure value / message / position comes out,
     or what state is left behind, when something fails in a rarely failing place.
 (u) UNUSUAL BUT LEGAL SYNTAX OR VALUES: spellings and values the grammar/API allows but nobody writes (bracketed variable names,
     escapes inside strings, labels named like keywords, empty function bodies, `...` only parameter, numbers like `1.` or `1e+05`,
     regex / function / datetime values where data is expected, date (not datetime) objects, Unicode line/word separators).
""",
}

BRIEF = """# Task: write two realistic defects for a mutation-style experiment on bare-script-py

You are helping to evaluate a verification effort.  Your job is to write TWO independent source changes to the Python
package `bare_script` (BareScript for Python: a small scripting language with a regex-driven parser that lowers control flow to
jumps, a tree-walking interpreter, a linter and a builtin library) such that each change

 1. BREAKS the semantic property quoted below (on some input / program / history / configuration the property quantifies over),
 2. still lets the repository's existing test suite pass (the pinned baseline: 410 stable tests; 8 other tests fail already on
    the unchanged tree because of an unrelated third-party message format - ignore those), and
 3. does NOT show up in ordinary use: it needs something specific to manifest (see "kinds of change" below).  A change that any
    casual script would expose at once is useless.  The change must look like something a maintainer could plausibly write
    (an optimisation, a refactoring, a "simplification", a new convenience, a defensive check, a cache) - not sabotage, not a
    special case keyed on a magic input value, no dead code, no comments that give it away.

## The property (this is all you are told; work from the source code)

id: {id}
title: {title}

statement: {statement}

quantified over: {quant}

code the property is anchored in: {anchors}

## Kinds of change wanted
{flavour}
## Changes already collected for this property - do NOT repeat these or close variants of them

{norepeat}

## Where to work

* Your private scratch git worktree of the repository: `{wt}` (already created, at the repository's current HEAD).  Work ONLY
  there and under `{out}`.  Never touch `/repo` or `/verif`, never commit anywhere.
* Run Python as `PYTHONPATH={wt}/src /venv/bin/python ...` (the interpreter `/venv/bin/python` has the package installed
  editable from another directory; PYTHONPATH makes it import your worktree instead - check with
  `PYTHONPATH={wt}/src /venv/bin/python -c "import bare_script; print(bare_script.__file__)"`).
* Baseline test command: `bash /verif/tools/baseline.sh {wt}` prints `baseline: 410/410 stable tests pass; regressions: []` and
  exits 0 when the change keeps the pinned tests green.  (This script only runs pytest and compares with the pinned list; do not
  read anything else under /verif.)
* No network.  Do NOT use `git stash` (the stash is shared by all worktrees of the repository and other people work in sibling
  worktrees at the same time): save a change with `git diff > file`, remove it with `git checkout -- .`, re-apply with `git apply`.

## Deliverables (for each change k = 1, 2) in `{out}/m<k>/`

* `patch.diff` - `git diff` of the worktree against HEAD for THIS change alone (produce change 1, save its diff, `git checkout -- .`,
  then produce change 2).  Only files under `src/bare_script/` (not tests).  It must apply with `git apply` to a clean HEAD.
* `demo.py` - a small stand-alone program (imports `bare_script` from PYTHONPATH, no other dependencies, no network, < 10 s) that
  exercises the property on the specific input/history needed, prints what it checked and a final line `RESULT: property holds`
  (exit code 0) or `RESULT: PROPERTY VIOLATED` (exit code 1).  It must exit 0 on the unchanged tree and 1 with the change.
  The demo must test the PROPERTY (as stated above), not the implementation detail you changed.
* `meta.json` - keys: "property" ("{id}"), "summary" (what was changed, where), "mechanism" (why this breaks the property),
  "needs" (exactly what is required for it to manifest and why ordinary use does not expose it), "flavour" (the letter of the
  kind), "demo_cmd", "baseline" (the last line printed by the baseline script with the change applied),
  "demo_without_change", "demo_with_change" (exit code and last line).

Before you finish, verify for each change from a clean worktree: demo exits 0 without the patch; `git apply patch.diff`; baseline
script exits 0; demo exits 1.  Leave the worktree clean (`git checkout -- .`) at the end.  In your final message list for each
change one paragraph: what it is, what it needs to manifest, and the verification output.  If you could only produce one valid
change, say so.
"""


def main():
    props = [json.loads(line) for line in open('/verif/properties.jsonl')]
    os.makedirs('/tmp/seed/prompts', exist_ok=True)
    for p in props:
        pid = p['id']
        if ONLY and pid not in ONLY:
            continue
        name = f'{ROUND}{pid}'
        wt = f'/tmp/seed/{name}'
        out = f'/tmp/seed/{name}-out'
        if not os.path.isdir(wt):
            subprocess.run(['git', '-C', '/repo', 'worktree', 'add', '-q', '--detach', wt, 'HEAD'], check=True)
        os.makedirs(out + '/m1', exist_ok=True)
        os.makedirs(out + '/m2', exist_ok=True)
        prior = []
        for f in sorted(glob.glob(f'/verif/seeded/*{pid}-m*/meta.json')):
            try:
                s = json.load(open(f)).get('summary', '')
            except Exception:
                s = ''
            if s:
                prior.append('* ' + ' '.join(s.split())[:330])
        anchors = p['anchors']
        atext = ', '.join(anchors.get('files', [])) + '; ' + '; '.join(
            f"{m['name']} ({m['where']})" for m in anchors.get('mechanism', []))
        text = BRIEF.format(id=pid, title=p['title'], statement=p['statement'], quant=p['quantifier']['text'],
                            anchors=atext, flavour=FLAVOUR[ROUND], norepeat='\n'.join(prior) or '(none)', wt=wt, out=out)
        open(f'/tmp/seed/prompts/{name}.md', 'w').write(text)
        print(name, len(text))


main()
