#!/bin/bash
# Runs every seeded change against the quick check of its own property (private copies, /repo untouched); writes seeded/MATRIX.txt
# usage: tools/seed_matrix.sh [seed-dir-glob]
OUT=${MATRIX_OUT:-/verif/seeded/MATRIX.txt}
: > $OUT.tmp
for d in /verif/seeded/${1:-*}/; do
  s=$(basename $d); [ -f $d/patch.diff ] || continue
  c=$(echo $s | sed -E 's/^(R[0-9]+)?(C[0-9]+)-.*/\2/')
  r=$(/verif/tools/seed_check_copy.sh $d $c 2>&1 | grep -v WARNING)
  if echo "$r" | grep -q "VIOLATION.*no-failing-input-found"; then v=nfi
  elif echo "$r" | grep -q "VIOLATION"; then v=witness
  elif echo "$r" | grep -q "exit 0"; then v=MISSED
  else v="ERROR"; fi
  echo "$s $c $v $(echo "$r" | grep -o 'obligations.*' | head -1)" | tee -a $OUT.tmp
done
mv $OUT.tmp $OUT
