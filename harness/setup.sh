#!/bin/bash
# Build the framework offline from files on disk: generated tables, then the proof modules and drivers of every
# registered check (harness/drivers.txt, written by mkmanifest.py).  First one lake invocation with all targets (lake
# schedules independent modules in parallel and keeps going past a failing one), then target by target (a no-op for
# what is built) so that one broken module cannot hide the others; a target that fails here is reported by its own check.
cd "$(dirname "$0")/.."
/venv/bin/python harness/extract.py >/dev/null || echo "extract failed (reported by the checks)"
cd lean
# each lean process of a proof module needs 0.7-1.8 GB: cap lake's worker threads so a 16 GB machine is enough
export LEAN_NUM_THREADS=${VERIF_LAKE_THREADS:-6}
lake build $(cat ../harness/drivers.txt) >/tmp/verif_setup_$$.log 2>&1 || true
for T in $(cat ../harness/drivers.txt); do
  lake build "$T" >/tmp/verif_setup_$$.log 2>&1 || { echo "setup: target $T failed"; tail -5 /tmp/verif_setup_$$.log; }
done
rm -f /tmp/verif_setup_$$.log
exit 0
