#!/bin/bash
# Build the whole framework offline from files on disk: model, proofs, drivers.
set -e
cd "$(dirname "$0")/.."
/venv/bin/python harness/extract.py >/dev/null
cd lean
lake build BareModel BareProofs $(cat ../harness/drivers.txt)
