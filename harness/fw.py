"""
Framework plumbing shared by every property check (see DESIGN.md sections 4, 5 and 7).

  extract  ->  lake build <proof modules, driver>  ->  axiom / sorry audit  ->  correspondence + property oracles
                                       any failure  ->  search for a failing input on the real implementation

Everything here is *harness* (trusted base: it decides whether the Lean model is the model of this code).
"""

import contextlib
import fcntl
import hashlib
import json
import os
import random
import re
import subprocess
import sys
import tempfile
import time
import traceback

VERIF = os.path.dirname(os.path.dirname(os.path.abspath(__file__)))
LEAN_DIR = os.path.join(VERIF, 'lean')
REPO = os.environ.get('VERIF_REPO', '/repo')
REPO_SRC = os.path.join(REPO, 'src')
EVIDENCE_DIR = os.path.join(VERIF, 'evidence')
REPLAY_DIR = os.path.join(VERIF, 'replays')
FINDINGS_FILE = os.path.join(VERIF, 'known_findings.json')
ALLOWED_AXIOMS = {'propext', 'Classical.choice', 'Quot.sound'}
FORBIDDEN = re.compile(r'\b(sorry|admit|native_decide|bv_decide|implemented_by|unsafe|maxHeartbeats 0)\b|^\s*axiom\s', re.M)
PARTIAL_OK = {'BareModel/Proto.lean', 'BareModel/PJson.lean', 'BareModel/SyntaxJson.lean'}  # harness-only code (IO loop, protocol)

# The implementation under test is the working tree
if REPO_SRC not in sys.path:
    sys.path.insert(0, REPO_SRC)


class Infra(Exception):
    """An infrastructure failure (exit 2) - never reported as a violation."""


# ---------------------------------------------------------------------------------------------------------------------
# lake / lean
# ---------------------------------------------------------------------------------------------------------------------

@contextlib.contextmanager
def lake_lock():
    os.makedirs(os.path.join(LEAN_DIR, '.lake'), exist_ok=True)
    with open(os.path.join(LEAN_DIR, '.lake', 'verif.lock'), 'w') as fh:
        fcntl.flock(fh, fcntl.LOCK_EX)
        try:
            yield
        finally:
            fcntl.flock(fh, fcntl.LOCK_UN)


def run(cmd, cwd=None, timeout=3600, env=None, input_=None):
    t0 = time.time()
    proc = subprocess.run(cmd, cwd=cwd, stdout=subprocess.PIPE, stderr=subprocess.STDOUT, text=True, timeout=timeout,
                          env=env, input=input_)
    return proc.returncode, proc.stdout, time.time() - t0


def lake_env():
    env = dict(os.environ)
    env.setdefault('LEAN_NUM_THREADS', os.environ.get('VERIF_LAKE_THREADS', '4'))   # memory: 0.7-1.8 GB per lean process
    return env


def lake_build(targets, timeout=3000):
    """Build targets one by one (so that one broken proof module does not hide the others). -> {target: (ok, log)}"""
    out = {}
    with lake_lock():
        for tgt in targets:
            rc, log, _ = run(['lake', 'build', tgt], cwd=LEAN_DIR, timeout=timeout, env=lake_env())
            out[tgt] = (rc == 0, log)
    return out


def strip_lean_comments(text):
    # nested block comments
    res = []
    depth = 0
    i = 0
    n = len(text)
    while i < n:
        if text.startswith('/-', i):
            depth += 1
            i += 2
        elif depth and text.startswith('-/', i):
            depth -= 1
            i += 2
        elif depth:
            i += 1
        elif text.startswith('--', i):
            j = text.find('\n', i)
            i = n if j < 0 else j
        else:
            res.append(text[i])
            i += 1
    return ''.join(res)


def lean_module_files(modules):
    """Transitive closure of project-local imports of the given modules -> list of relative file names."""
    seen = {}
    todo = list(modules)
    while todo:
        mod = todo.pop()
        rel = mod.replace('.', '/') + '.lean'
        path = os.path.join(LEAN_DIR, rel)
        if rel in seen or not os.path.exists(path):
            continue
        with open(path, encoding='utf-8') as fh:
            text = fh.read()
        seen[rel] = text
        for m in re.finditer(r'^\s*(?:public\s+)?import\s+([A-Za-z0-9_.]+)', text, re.M):
            if m.group(1).split('.')[0] in ('BareModel', 'BareProofs', 'Drv'):
                todo.append(m.group(1))
    return seen


def forbidden_hits(modules):
    hits = []
    for rel, text in sorted(lean_module_files(modules).items()):
        code = strip_lean_comments(text)
        for m in FORBIDDEN.finditer(code):
            hits.append(f'{rel}: {m.group(0).strip()}')
        if rel not in PARTIAL_OK and not rel.startswith('Drv/') and re.search(r'\bpartial\s+def\b', code):
            hits.append(f'{rel}: partial def')
    return hits


def audit_axioms(prop_id, import_modules, theorems, timeout=1200):
    """#print axioms for each theorem. -> {theorem: (ok, axioms or error text)}"""
    audit_dir = os.path.join(LEAN_DIR, '.lake', 'audit')
    os.makedirs(audit_dir, exist_ok=True)
    result = {}
    path = os.path.join(audit_dir, f'Audit_{prop_id}.lean')
    with open(path, 'w', encoding='utf-8') as fh:
        for mod in import_modules:
            fh.write(f'import {mod}\n')
        for thm in theorems:
            fh.write(f'#print axioms {thm}\n')
    with lake_lock():
        rc, log, _ = run(['lake', 'env', 'lean', path], cwd=LEAN_DIR, timeout=timeout)
    # Parse: "'X' depends on axioms: [a, b]" (may wrap lines) / "'X' does not depend on any axioms"
    flat = re.sub(r'\s+', ' ', log)
    for thm in theorems:
        m = re.search(r"'" + re.escape(thm) + r"' depends on axioms: \[([^\]]*)\]", flat)
        if m:
            axs = [a.strip() for a in m.group(1).split(',') if a.strip()]
            bad = [a for a in axs if a not in ALLOWED_AXIOMS]
            result[thm] = (not bad, axs)
        elif re.search(r"'" + re.escape(thm) + r"' does not depend on any axioms", flat):
            result[thm] = (True, [])
        else:
            err = [ln for ln in log.splitlines() if thm in ln or 'error' in ln]
            result[thm] = (False, 'not found / not checked: ' + ' | '.join(err[:3]))
    return result, log


class Driver:
    """A compiled model driver (lean_exe) answering one JSON line per request line."""

    def __init__(self, exe_name):
        self.exe = os.path.join(LEAN_DIR, '.lake', 'build', 'bin', exe_name)
        self.requests = 0

    def batch(self, requests, timeout=1800):
        if not requests:
            return []
        if not os.path.exists(self.exe):
            raise Infra(f'driver {self.exe} missing')
        with tempfile.TemporaryDirectory(prefix='verif_drv_', dir=os.environ.get('VERIF_TMP', None)) as tmp:
            inp = os.path.join(tmp, 'in.jsonl')
            with open(inp, 'w', encoding='ascii') as fh:
                for req in requests:
                    fh.write(json.dumps(req, ensure_ascii=True, separators=(',', ':')))
                    fh.write('\n')
            with open(inp, 'rb') as fin:
                proc = subprocess.run([self.exe], stdin=fin, stdout=subprocess.PIPE, stderr=subprocess.PIPE, timeout=timeout)
        lines = proc.stdout.decode('utf-8', 'surrogatepass').splitlines()
        if proc.returncode != 0 or len(lines) != len(requests):
            raise DriverCrash(f'driver {os.path.basename(self.exe)} rc={proc.returncode} answered {len(lines)}/{len(requests)}: '
                              f'{proc.stderr.decode("utf-8", "replace")[-500:]}', len(lines))
        self.requests += len(requests)
        return [json.loads(ln) for ln in lines]


class DriverCrash(Exception):
    def __init__(self, msg, answered):
        super().__init__(msg)
        self.answered = answered


# ---------------------------------------------------------------------------------------------------------------------
# Randomness: every choice derives from (VERIF_SEED, property, stream)
# ---------------------------------------------------------------------------------------------------------------------

def rng_for(seed, *names):
    h = hashlib.sha256(('|'.join([str(seed)] + [str(n) for n in names])).encode()).digest()
    return random.Random(int.from_bytes(h[:8], 'big'))


# ---------------------------------------------------------------------------------------------------------------------
# Check context: collects obligations, coverage, disagreements, witnesses
# ---------------------------------------------------------------------------------------------------------------------

class StreamStats:
    def __init__(self, name, rule):
        self.name = name
        self.rule = rule
        self.evaluations = 0
        self.hashes = set()
        self.hist = {}
        self.samples = []
        self.exhaustive = None

    def case(self, canon, nontrivial=True, tags=()):
        """Record one explored case. `canon`: a hashable/JSON-able canonical form of the case."""
        self.evaluations += 1
        if nontrivial:
            h = hashlib.blake2b(json.dumps(canon, sort_keys=True, default=str, ensure_ascii=True).encode(), digest_size=8).digest()
            self.hashes.add(h)
        for t in tags:
            self.hist[t] = self.hist.get(t, 0) + 1
        if len(self.samples) < 3 and nontrivial:
            self.samples.append(canon)

    def to_json(self):
        d = {'evaluations': self.evaluations, 'distinct_nontrivial': len(self.hashes), 'rule': self.rule,
             'distribution': dict(sorted(self.hist.items())), 'samples': self.samples}
        if self.exhaustive is not None:
            d['exhaustive'] = self.exhaustive
        return d


class Ctx:
    def __init__(self, prop_id, tier, seed):
        self.prop_id = prop_id
        self.tier = tier
        self.seed = seed
        self.t0 = time.time()
        self.obligations = []       # [(name, ok, detail)]
        self.broken = []            # descriptions of broken obligations / correspondence streams
        self.streams = {}
        self.disagreements = []     # model vs implementation: [{stream, case, impl, model}]
        self.witnesses = []         # property failures on the REAL implementation: [{oracle, input, expected, actual, ...}]
        self.disagreements_checked = 0
        self.notes = []
        self.assumptions = []
        self.trusted_base = []
        self.driver = None
        self.quick = (tier == 'quick')

    def rng(self, *names):
        return rng_for(self.seed, self.prop_id, *names)

    def scale(self, quick, thorough):
        return quick if self.quick else thorough

    def stream(self, name, rule):
        if name not in self.streams:
            self.streams[name] = StreamStats(name, rule)
        return self.streams[name]

    def obligation(self, name, ok, detail=''):
        self.obligations.append((name, bool(ok), detail))
        if not ok:
            self.broken.append(f'obligation {name}: {str(detail)[:400]}')

    def disagree(self, stream, case, impl, model, note=''):
        if len(self.disagreements) < 50:
            self.disagreements.append({'stream': stream, 'case': case, 'impl': impl, 'model': model, 'note': note})
        else:
            self.disagreements.append(None)

    def witness(self, oracle, input_, expected, actual, **extra):
        """A concrete input on which the PROPERTY fails on the real implementation."""
        w = {'oracle': oracle, 'input': input_, 'expected': expected, 'actual': actual}
        w.update(extra)
        if len(self.witnesses) < 200:
            self.witnesses.append(w)

    def compare(self, stream, case, impl, model):
        """Correspondence comparison of canonicalised outputs."""
        self.disagreements_checked += 1
        if impl != model:
            self.disagree(stream, case, impl, model)
            return False
        return True

    def elapsed(self):
        return time.time() - self.t0


# ---------------------------------------------------------------------------------------------------------------------
# Known findings
# ---------------------------------------------------------------------------------------------------------------------

def load_findings(prop_id):
    if not os.path.exists(FINDINGS_FILE):
        return []
    with open(FINDINGS_FILE, encoding='utf-8') as fh:
        data = json.load(fh)
    return [f for f in data.get('findings', []) if prop_id in f.get('properties', [f.get('property')])]


# ---------------------------------------------------------------------------------------------------------------------
# The generic check procedure
# ---------------------------------------------------------------------------------------------------------------------

def shorten(obj, limit=2000):
    s = json.dumps(obj, default=str, ensure_ascii=True)
    return obj if len(s) <= limit else s[:limit] + '...'


def write_json(path, obj):
    os.makedirs(os.path.dirname(path), exist_ok=True)
    tmp = path + '.tmp'
    with open(tmp, 'w', encoding='utf-8') as fh:
        json.dump(obj, fh, indent=1, default=str, ensure_ascii=True)
        fh.write('\n')
    os.replace(tmp, path)


def run_check(mod, tier, seed):
    """mod: a property module from harness/props. Returns the process exit code."""
    from extract import run_extract  # local import: harness/ is on sys.path

    prop_id = mod.ID
    ctx = Ctx(prop_id, tier, seed)
    ctx.trusted_base = [
        'Lean 4.33.0 kernel (thorough tier: leanchecker re-check of the compiled .olean files)',
        'axioms allowed: propext, Classical.choice, Quot.sound (audited with #print axioms on every run)',
        'harness/extract.py (generated tables) and the correspondence harness harness/props/%s.py + harness/fw.py' % prop_id,
    ] + list(getattr(mod, 'TRUSTED', []))
    ctx.assumptions = list(getattr(mod, 'ASSUMPTIONS', []))
    lean_targets = list(getattr(mod, 'LEAN_TARGETS', []))
    driver_exe = getattr(mod, 'DRIVER', None)
    theorems = list(getattr(mod, 'THEOREMS', []))
    gen_tables = list(getattr(mod, 'GEN', []))

    # 1. generated tables
    try:
        gen_info = run_extract()
        for name in gen_tables:
            info = gen_info.get(name)
            ctx.obligation(f'extract:{name}', info is not None and info.get('ok', False), info and info.get('error', ''))
    except Exception as exc:  # pylint: disable=broad-except
        gen_info = {}
        ctx.obligation('extract', False, f'{type(exc).__name__}: {exc}')

    # 2. build proof modules + driver
    build_log = {}
    try:
        extra_targets = list(getattr(mod, 'EXTRA_TARGETS', []))     # further executables a stream runs (e.g. a second driver)
        targets = lean_targets + ([driver_exe] if driver_exe else []) + extra_targets
        build_log = lake_build(targets)
    except subprocess.TimeoutExpired:
        raise Infra('lake build timed out')
    for tgt in extra_targets:
        ok, log = build_log.get(tgt, (False, 'not built'))
        ctx.obligation(f'build:{tgt}', ok, ' | '.join([ln for ln in log.splitlines() if 'error' in ln][:5]))
    for tgt in lean_targets:
        ok, log = build_log.get(tgt, (False, 'not built'))
        errs = [ln for ln in log.splitlines() if 'error' in ln][:5]
        ctx.obligation(f'build:{tgt}', ok, ' | '.join(errs))
    driver_ok = True
    if driver_exe:
        driver_ok, log = build_log.get(driver_exe, (False, 'not built'))
        if not driver_ok:
            ctx.obligation(f'build:{driver_exe}', False, ' | '.join([ln for ln in log.splitlines() if 'error' in ln][:5]))
        else:
            ctx.driver = Driver(driver_exe)

    # 3. audit
    built_ok = [t for t in lean_targets if build_log.get(t, (False,))[0]]
    if theorems and built_ok:
        res, _ = audit_axioms(prop_id, built_ok, theorems)
        for thm in theorems:
            ok, detail = res[thm]
            ctx.obligation(f'theorem:{thm}', ok, detail if not ok else 'axioms: ' + ', '.join(detail))
    else:
        for thm in theorems:
            ctx.obligation(f'theorem:{thm}', False, 'proof module did not build')
    hits = forbidden_hits(lean_targets + ([getattr(mod, 'DRIVER_ROOT', None)] if getattr(mod, 'DRIVER_ROOT', None) else []) + list(getattr(mod, 'EXTRA_ROOTS', [])))
    ctx.obligation('audit:no-sorry-axiom-native_decide', not hits, '; '.join(hits[:10]))
    if tier == 'thorough' and built_ok and not os.environ.get('VERIF_NO_LEANCHECKER'):
        with lake_lock():
            rc, log, secs = run(['lake', 'env', 'leanchecker'] + built_ok, cwd=LEAN_DIR, timeout=3000)
        ctx.obligation('leanchecker', rc == 0, log[-400:])
        ctx.notes.append(f'leanchecker {" ".join(built_ok)}: rc={rc} {secs:.0f}s')

    # 4. correspondence streams + property oracles on the implementation
    stream_error = None
    if hasattr(mod, 'streams'):
        try:
            mod.streams(ctx)
        except DriverCrash as exc:
            ctx.broken.append(f'correspondence: {exc}')
        except Infra:
            raise
        except Exception as exc:  # pylint: disable=broad-except
            # The implementation (or the harness) blew up outside anything the streams expect
            stream_error = traceback.format_exc()
            ctx.broken.append(f'correspondence: harness exception {type(exc).__name__}: {exc}')
    ndis = len(ctx.disagreements)
    if ndis:
        first = next(d for d in ctx.disagreements if d is not None)
        ctx.broken.append(f'correspondence stream {first["stream"]}: {ndis} disagreement(s) between model and implementation')

    # 5. something broke and no witness yet: search
    if ctx.broken and not ctx.witnesses and hasattr(mod, 'search'):
        try:
            mod.search(ctx)
        except Exception as exc:  # pylint: disable=broad-except
            ctx.notes.append(f'search raised {type(exc).__name__}: {exc}')

    return finish(ctx, mod, stream_error)


def finish(ctx, mod, stream_error=None):
    prop_id = ctx.prop_id
    findings = load_findings(prop_id)
    matchers = getattr(mod, 'FINDING_MATCHERS', {})
    known_hit = {}
    unknown = []
    for w in ctx.witnesses:
        hit = None
        for f in findings:
            if f.get('status') != 'known':
                continue
            fn = matchers.get(f['id'])
            try:
                if fn is not None and fn(w):
                    hit = f
                    break
            except Exception:  # pylint: disable=broad-except
                pass
        if hit is not None:
            known_hit.setdefault(hit['id'], (hit, w))
        else:
            unknown.append(w)
    # Listed known findings are always announced (the defect is in the tree whether or not this run sampled it)
    for f in findings:
        if f.get('status') == 'known':
            print(f'KNOWN-FINDING: property={prop_id} {f["id"]} {f["what"]}')

    # A disagreement explained entirely by a known finding does not break the correspondence
    dis_fn = getattr(mod, 'disagreement_known', None)
    broken = list(ctx.broken)
    if dis_fn is not None and ctx.disagreements:
        rest = [d for d in ctx.disagreements if d is None or not dis_fn(d, [f for f in findings if f.get('status') == 'known'])]
        if not rest:
            broken = [b for b in broken if not b.startswith('correspondence stream')]

    violations = 0
    exit_code = 0
    os.makedirs(REPLAY_DIR, exist_ok=True)
    stamp = f'{prop_id}-{ctx.tier}-seed{ctx.seed}'
    if unknown:
        violations = len(unknown)
        replay = os.path.join(REPLAY_DIR, f'{stamp}.json')
        write_json(replay, {'property': prop_id, 'kind': 'failing-input', 'witness': shorten(unknown[0], 20000),
                            'more_witnesses': [shorten(w, 4000) for w in unknown[1:10]],
                            'broken': broken, 'how_to_replay': f'/venv/bin/python harness/check.py {prop_id} --replay {replay}'})
        print(f'VIOLATION property={prop_id} replay={replay}')
        exit_code = 1
    elif broken:
        violations = 1
        replay = os.path.join(REPLAY_DIR, f'{stamp}.json')
        first_dis = next((d for d in ctx.disagreements if d is not None), None)
        write_json(replay, {'property': prop_id, 'kind': 'no-failing-input-found',
                            'no_longer_checks': broken, 'first_disagreement': shorten(first_dis, 20000),
                            'harness_trace': stream_error,
                            'explanation': 'A proof obligation, generated table or correspondence stream tying the Lean model '
                                           'to the working tree no longer checks, so the property is no longer shown to hold; '
                                           'the search found no input on which the property itself fails on the implementation.'})
        print(f'VIOLATION property={prop_id} replay={replay} no-failing-input-found')
        exit_code = 1

    # evidence
    n_obl = len(ctx.obligations)
    n_ok = sum(1 for _, ok, _ in ctx.obligations if ok)
    streams = {name: st.to_json() for name, st in ctx.streams.items()}
    evals = sum(st.evaluations for st in ctx.streams.values())
    distinct = sum(len(st.hashes) for st in ctx.streams.values())
    samples = [{'obligation': name, 'status': 'discharged' if ok else 'BROKEN', 'detail': str(detail)[:300]}
               for name, ok, detail in ctx.obligations[:60]]
    for name, st in ctx.streams.items():
        for s in st.samples[:2]:
            samples.append({'stream': name, 'case': shorten(s, 1500)})
    level = getattr(mod, 'LEVEL', 'proof')
    coverage = {
        'obligations': n_obl,
        'discharged': n_ok,
        'checker_cmd': f'cd lean && lake build {" ".join(getattr(mod, "LEAN_TARGETS", []))} && lake env lean .lake/audit/Audit_{prop_id}.lean'
                       + (' && lake env leanchecker ' + ' '.join(getattr(mod, 'LEAN_TARGETS', [])) if ctx.tier == 'thorough' else ''),
        'trusted_base': ctx.trusted_base,
        'theorems': [name[len('theorem:'):] for name, ok, _ in ctx.obligations if name.startswith('theorem:')],
        'evaluations': evals,
        'distinct_nontrivial': distinct,
        'rule': 'per stream, see coverage.correspondence.<stream>.rule; distinct = distinct hashes of canonical non-trivial cases',
        'programs': evals,
        'disagreements_checked': ctx.disagreements_checked,
        'disagreements': len(ctx.disagreements),
        'correspondence': streams,
        'samples': samples,
        'driver_requests': ctx.driver.requests if ctx.driver else 0,
        'broken': broken,
        'known_findings_seen': sorted(known_hit),
        'notes': ctx.notes,
    }
    if all(st.exhaustive for st in ctx.streams.values()) and ctx.streams:
        coverage['exhaustive'] = True
    evidence = {
        'property_id': prop_id, 'tier': ctx.tier, 'seed': ctx.seed, 'level': level, 'coverage': coverage,
        'assumptions': ctx.assumptions, 'wall_s': round(ctx.elapsed(), 2), 'violations': violations,
    }
    write_json(os.path.join(EVIDENCE_DIR, f'{prop_id}.json'), evidence)
    print(f'{prop_id} {ctx.tier} seed={ctx.seed}: obligations {n_ok}/{n_obl}, {evals} cases ({distinct} distinct non-trivial), '
          f'{ctx.disagreements_checked} model/impl comparisons, {len(ctx.disagreements)} disagreements, '
          f'{len(ctx.witnesses)} witnesses ({len(unknown)} unlisted), {ctx.elapsed():.1f}s -> exit {exit_code}')
    return exit_code


def attach_extension(g, ext):
    """Merge an extension module (harness/props/cNNx.py: further Lean targets, theorems, a second driver and its streams) into the
    property module whose globals() are `g`."""
    g['LEAN_TARGETS'] = list(g.get('LEAN_TARGETS', [])) + [t for t in ext.LEAN_TARGETS if t not in g.get('LEAN_TARGETS', [])]
    g['THEOREMS'] = list(g.get('THEOREMS', [])) + [t for t in ext.THEOREMS if t not in g.get('THEOREMS', [])]
    g['EXTRA_TARGETS'] = list(g.get('EXTRA_TARGETS', [])) + [t for t in ext.EXTRA_TARGETS if t not in g.get('EXTRA_TARGETS', [])]
    g['EXTRA_ROOTS'] = list(g.get('EXTRA_ROOTS', [])) + list(getattr(ext, 'EXTRA_ROOTS', []))
    g['GEN'] = list(g.get('GEN', [])) + [t for t in getattr(ext, 'GEN', []) if t not in g.get('GEN', [])]
    if getattr(ext, 'LEVEL_TEXT_EXT', None):       # one sentence per extension for MANIFEST level_claimed.text
        g['LEVEL_TEXT'] = g.get('LEVEL_TEXT', '') + ' EXTENSION ' + ext.__name__.split('.')[-1] + ': ' + ext.LEVEL_TEXT_EXT
    base_streams = g['streams']
    base_replay = g.get('replay')

    def streams(ctx):
        base_streams(ctx)
        try:
            ext.streams(ctx)
        except Infra as exc:        # e.g. the extension driver did not build on this tree: a broken obligation, not an infrastructure failure
            ctx.broken.append(f'correspondence: extension streams of {ext.__name__} could not run: {exc}')

    def replay(witness):
        if hasattr(ext, 'replay'):
            res = ext.replay(witness)
            if res is not None:
                return res
        return base_replay(witness) if base_replay else False
    g['streams'] = streams
    g['replay'] = replay


def run_extract_only():
    from extract import run_extract
    return run_extract()


_FRESH_SRC = r"""
import json, sys
sys.path.insert(0, sys.argv[1])
from bare_script import parser
out = []
for kind, text in json.load(sys.stdin):
    try:
        if kind == 'script':
            out.append(['ok', parser.parse_script(text)])
        else:
            out.append(['ok', parser.parse_expression(text)])
    except parser.BareScriptParserError as exc:
        out.append(['err', exc.error, exc.line, exc.column_number, exc.line_number] if kind == 'script' else ['err', exc.error, exc.column_number])
    except Exception as exc:
        out.append(['exc', type(exc).__name__])
json.dump(out, sys.stdout)
"""


def fresh_parse(items):
    """[(kind 'script'|'expr', text)] parsed IN ORDER by a fresh interpreter process (no state from this process);
    -> results shaped like C10.run_parse / run_expr (lists instead of tuples)."""
    src = os.path.join(REPO, 'src')
    res = subprocess.run([sys.executable, '-c', _FRESH_SRC, src], input=json.dumps(list(items)), capture_output=True, text=True,
                         timeout=600, check=False)
    if res.returncode != 0:
        raise Infra('fresh parser process failed: ' + res.stderr[-400:])
    return json.loads(res.stdout)


def impl():
    """The implementation modules of the working tree, (re-)imported by the last extract."""
    from extract import _CACHE, run_extract
    if 'mods' not in _CACHE:
        run_extract()
    return _CACHE['mods']
