#!/venv/bin/python
"""Regenerate /verif/MANIFEST.json from the property modules (harness/props/Cxx.py) so that it is always consistent."""

import importlib
import json
import os
import sys

HERE = os.path.dirname(os.path.abspath(__file__))
sys.path.insert(0, HERE)
VERIF = os.path.dirname(HERE)

ALL = [f'C{i:02d}' for i in range(1, 21)]
PY = '/venv/bin/python'


def main():
    checks = []
    not_applicable = []
    drivers = []
    for pid in ALL:
        path = os.path.join(HERE, 'props', pid + '.py')
        if not os.path.exists(path):
            not_applicable.append({'property_id': pid, 'reason': 'not claimed yet: Lean model and check under construction (see DESIGN.md section 9)'})
            continue
        mod = importlib.import_module('props.' + pid)
        ready = os.path.exists(os.path.join(HERE, 'ready', pid))
        if not ready or not hasattr(mod, 'LEVEL_TEXT') or mod.LEVEL_TEXT == 'under construction':
            not_applicable.append({'property_id': pid, 'reason': 'not claimed yet: check under construction / not yet validated on the clean tree (see DESIGN.md section 9)'})
            continue
        if getattr(mod, 'DRIVER', None):
            drivers.append(mod.DRIVER)
        drivers.extend(getattr(mod, 'LEAN_TARGETS', []))
        drivers.extend(getattr(mod, 'EXTRA_TARGETS', []))
        checks.append({
            'property_id': pid,
            'quick_cmd': f'{PY} harness/check.py {pid} --tier quick',
            'thorough_cmd': f'{PY} harness/check.py {pid} --tier thorough',
            'evidence_file': f'/verif/evidence/{pid}.json',
            'replay_cmd_template': f'{PY} harness/check.py {pid} --replay {{path}}',
            'engine': 'lean4-proof+correspondence',
            'level_claimed': {
                'category': getattr(mod, 'LEVEL', 'proof'),
                'text': mod.LEVEL_TEXT,
                'design_ref': f'DESIGN.md section 9 {pid}',
            },
            'level_note': mod.LEVEL_NOTE,
            'technique': getattr(mod, 'TECHNIQUE', 'Lean 4 theorems over a model of the code; model tied to /repo by tables regenerated '
                                                   'from the source on every run and by a differential correspondence check'),
        })
    manifest = {
        'version': 1,
        'setup_cmd': 'bash harness/setup.sh',
        'hooks': {
            'guard': 'BARE_SCRIPT_PY_VERIF',
            'enable': 'no source hooks: every observable is reachable through the public API; checks set BARE_SCRIPT_PY_VERIF=1 (ignored by the code)',
            'baseline_off_cmd': 'cd /repo && /venv/bin/python -m pytest -ra -q -p no:cacheprovider --timeout=900 --continue-on-collection-errors',
            'source_commits': [],
            'add_only': True,
        },
        'engines': [{
            'name': 'lean4-proof+correspondence',
            'path': 'lean/ (model BareModel, theorems BareProofs, drivers Drv) + harness/ (extract.py, fw.py, check.py, props/)',
            'serves_properties': [c['property_id'] for c in checks],
            'kind_free_text': 'machine-checked proof in Lean 4 about a hand-written model; tables regenerated from source; '
                              'differential correspondence model vs implementation; failing-input search when either breaks',
        }],
        'checks': checks,
        'notes': 'See DESIGN.md. exit 0 = held; exit 1 = VIOLATION line; exit 2 = infrastructure. known_findings.json lists recorded defects.',
        'not_applicable': not_applicable,
    }
    with open(os.path.join(VERIF, 'MANIFEST.json'), 'w', encoding='utf-8') as fh:
        json.dump(manifest, fh, indent=1)
        fh.write('\n')
    with open(os.path.join(HERE, 'drivers.txt'), 'w', encoding='utf-8') as fh:
        fh.write('\n'.join(sorted(set(drivers))) + '\n')
    print(f'{len(checks)} checks, {len(not_applicable)} not claimed')


if __name__ == '__main__':
    main()
