#!/venv/bin/python
"""
Entry point of every registered check:   /venv/bin/python harness/check.py <Cxx> --tier quick|thorough [--replay FILE]

exit 0  the property held on everything explored (KNOWN-FINDING lines may be printed)
exit 1  'VIOLATION property=<id> replay=<path>[ no-failing-input-found]' was printed
exit 2  infrastructure failure / timeout (never a violation)
"""

import argparse
import importlib
import json
import os
import signal
import sys

HERE = os.path.dirname(os.path.abspath(__file__))
sys.path.insert(0, HERE)
os.environ.setdefault('BARE_SCRIPT_PY_VERIF', '1')

import fw  # noqa: E402  pylint: disable=wrong-import-position


def main():
    ap = argparse.ArgumentParser()
    ap.add_argument('prop')
    ap.add_argument('--tier', default=os.environ.get('VERIF_TIER', 'quick'), choices=['quick', 'thorough'])
    ap.add_argument('--replay')
    args = ap.parse_args()
    seed = int(os.environ.get('VERIF_SEED', '0') or 0)
    mod = importlib.import_module('props.' + args.prop)
    for ext_name in filter(None, os.environ.get('VERIF_EXT', '').split(',')):     # development aid: attach a not-yet-registered extension
        ext = importlib.import_module('props.' + ext_name)
        fw.attach_extension(vars(mod), ext)

    budget = int(os.environ.get('VERIF_BUDGET_S', '1500' if args.tier == 'quick' else '7200'))

    def on_alarm(_sig, _frm):
        print(f'{args.prop}: time budget of {budget}s exceeded (infrastructure, not a violation)', flush=True)
        os._exit(2)
    signal.signal(signal.SIGALRM, on_alarm)
    signal.alarm(budget)

    try:
        if args.replay:
            with open(args.replay, encoding='utf-8') as fh:
                rep = json.load(fh)
            if rep.get('kind') != 'failing-input' or not hasattr(mod, 'replay'):
                print(f'replay file names no failing input ({rep.get("kind")}): {rep.get("no_longer_checks")}')
                sys.exit(1 if rep.get('kind') == 'no-failing-input-found' else 2)
            fw.run_extract_only()
            still = mod.replay(rep['witness'])
            print(('VIOLATION property=%s replay=%s' % (args.prop, args.replay)) if still else 'replayed input no longer fails')
            sys.exit(1 if still else 0)
        sys.exit(fw.run_check(mod, args.tier, seed))
    except fw.Infra as exc:
        print(f'{args.prop}: infrastructure failure: {exc}')
        sys.exit(2)


if __name__ == '__main__':
    main()
