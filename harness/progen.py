"""
Structured-program generator, renderer and implementation runner shared by the execution properties
(C01, C07, C08, C09, C04, ...).  A structured program is a list of statement dicts (the wire form of `SStmt`):

  {"k":"expr","name":n|None,"e":E}  {"k":"ret","e":E|None}  {"k":"if","c":E,"t":[...],"else":ELSE}
  {"k":"while","c":E,"b":[...]}  {"k":"for","value":v,"index":i|None,"vals":E,"b":[...]}  {"k":"break"} {"k":"continue"}
  {"k":"func","fid":k,"name":n,"args":[...],"lastArgArray":bool,"async":bool,"b":[...]}
  {"k":"label","name":n} {"k":"jump","name":n,"c":E|None} {"k":"include","includes":[{"url":u,"system":bool}]}
  ELSE = None | {"k":"else","b":[...]} | {"k":"elif","c":E,"t":[...],"else":ELSE}

Expressions E are in the protocol form of the BareScript expression model (numbers as exact [num, den]).
"""

import copy
import datetime
import functools
import re
from fractions import Fraction

import fw


# ---------------------------------------------------------------------------------------------------------------------
# expression helpers (protocol form)
# ---------------------------------------------------------------------------------------------------------------------

def num(n):
    fr = Fraction(n)
    return {'number': [fr.numerator, fr.denominator]}


def var(name):
    return {'variable': name}


def string(s):
    return {'string': s}


def call(name, *args):
    return {'function': {'args': list(args), 'name': name}}


def binop(op, left, right):
    return {'binary': {'left': left, 'op': op, 'right': right}}


def unop(op, expr):
    return {'unary': {'expr': expr, 'op': op}}


def group(expr):
    return {'group': expr}


PREC = {'**': 8, '*': 7, '/': 7, '%': 7, '+': 6, '-': 6, '<=': 5, '<': 5, '>=': 5, '>': 5, '==': 4, '!=': 4, '&&': 3, '||': 2}


def expr_text(e):
    """Render an expression (protocol form) as source text that parses back to the same tree."""
    (k, v), = e.items()
    if k == 'number':
        fr = Fraction(v[0], v[1])
        if fr.denominator == 1:
            return str(fr.numerator) if fr >= 0 else f'(0 - {-fr.numerator})'
        return repr(float(fr)) if fr >= 0 else f'(0 - {repr(float(-fr))})'
    if k == 'string':
        return "'" + v.replace('\\', '\\\\').replace("'", "\\'") + "'"
    if k == 'variable':
        return v
    if k == 'group':
        return '(' + expr_text(v) + ')'
    if k == 'unary':
        return v['op'] + expr_text(v['expr'])
    if k == 'function':
        return v['name'] + '(' + ', '.join(expr_text(a) for a in v['args']) + ')'
    # binary: trees produced by the generators are precedence-respecting by construction (operands that need it are groups)
    return expr_text(v['left']) + ' ' + v['op'] + ' ' + expr_text(v['right'])


def wf_binary(op, left, right):
    """Build a binary node, wrapping operands in groups where the parser would otherwise re-associate."""
    def root(e):
        return e['binary']['op'] if 'binary' in e else None
    lo, ro = root(left), root(right)
    if lo is not None and PREC[lo] < PREC[op]:
        left = group(left)
    if ro is not None and PREC[ro] <= PREC[op]:
        right = group(right)
    return binop(op, left, right)


# ---------------------------------------------------------------------------------------------------------------------
# rendering
# ---------------------------------------------------------------------------------------------------------------------

def render(block, indent=0, out=None):
    out = [] if out is None else out
    pad = '    ' * indent
    for s in block:
        k = s['k']
        if k == 'expr':
            out.append(pad + (f"{s['name']} = " if s.get('name') else '') + expr_text(s['e']))
        elif k == 'ret':
            out.append(pad + 'return' + (' ' + expr_text(s['e']) if s.get('e') else ''))
        elif k == 'if':
            out.append(pad + 'if ' + expr_text(s['c']) + ':')
            render(s['t'], indent + 1, out)
            els = s.get('else')
            while els is not None:
                if els['k'] == 'else':
                    out.append(pad + 'else:')
                    render(els['b'], indent + 1, out)
                    els = None
                else:
                    out.append(pad + 'elif ' + expr_text(els['c']) + ':')
                    render(els['t'], indent + 1, out)
                    els = els.get('else')
            out.append(pad + 'endif')
        elif k == 'while':
            out.append(pad + 'while ' + expr_text(s['c']) + ':')
            render(s['b'], indent + 1, out)
            out.append(pad + 'endwhile')
        elif k == 'for':
            ix = f", {s['index']}" if s.get('index') else ''
            out.append(pad + f"for {s['value']}{ix} in " + expr_text(s['vals']) + ':')
            render(s['b'], indent + 1, out)
            out.append(pad + 'endfor')
        elif k == 'break':
            out.append(pad + 'break')
        elif k == 'continue':
            out.append(pad + 'continue')
        elif k == 'func':
            args = ', '.join(s['args']) + ('...' if s.get('lastArgArray') else '')
            out.append(pad + ('async ' if s.get('async') else '') + f"function {s['name']}({args}):")
            render(s['b'], indent + 1, out)
            out.append(pad + 'endfunction')
        elif k == 'label':
            out.append(pad + s['name'] + ':')
        elif k == 'jump':
            out.append(pad + (f"jumpif ({expr_text(s['c'])}) " if s.get('c') else 'jump ') + s['name'])
        elif k == 'include':
            for inc in s['includes']:
                out.append(pad + ('include <' + inc['url'] + '>' if inc.get('system') else "include '" + inc['url'].replace("'", "\\'") + "'"))
        else:
            raise ValueError(k)
    return out


def assign_fids(block, counter=None):
    """Number the function definitions in source order (what the model parser does)."""
    counter = [0] if counter is None else counter
    for s in block:
        if s['k'] == 'func':
            s['fid'] = counter[0]
            counter[0] += 1
            assign_fids(s['b'], counter)
        elif s['k'] == 'if':
            assign_fids(s['t'], counter)
            els = s.get('else')
            while els is not None:
                assign_fids(els['b'] if els['k'] == 'else' else els['t'], counter)
                els = els.get('else') if els['k'] == 'elif' else None
        elif s['k'] in ('while', 'for'):
            assign_fids(s['b'], counter)
    return block


# ---------------------------------------------------------------------------------------------------------------------
# implementation model <-> protocol form
# ---------------------------------------------------------------------------------------------------------------------

def canon_expr(e):
    (k, v), = e.items()
    if k == 'number':
        fr = Fraction(v)
        return {'number': [fr.numerator, fr.denominator]}
    if k in ('string', 'variable'):
        return {k: v}
    if k == 'group':
        return {'group': canon_expr(v)}
    if k == 'unary':
        return {'unary': {'expr': canon_expr(v['expr']), 'op': v['op']}}
    if k == 'binary':
        return {'binary': {'left': canon_expr(v['left']), 'op': v['op'], 'right': canon_expr(v['right'])}}
    if k == 'function':
        return {'function': {'args': [canon_expr(a) for a in v.get('args', [])], 'name': v['name']}}
    raise ValueError(k)


def canon_statements(stmts, counter=None, with_fid=True):
    counter = [0] if counter is None else counter
    out = []
    for st in stmts:
        (k, v), = st.items()
        if k == 'expr':
            d = {'expr': canon_expr(v['expr'])}
            if 'name' in v:
                d['name'] = v['name']
            out.append({'expr': d})
        elif k == 'jump':
            d = {'label': v['label']}
            if 'expr' in v:
                d['expr'] = canon_expr(v['expr'])
            out.append({'jump': d})
        elif k == 'return':
            out.append({'return': {'expr': canon_expr(v['expr'])} if 'expr' in v else {}})
        elif k == 'label':
            out.append({'label': v})
        elif k == 'function':
            d = {'name': v['name']}
            if 'args' in v:
                d['args'] = list(v['args'])
            if v.get('async'):
                d['async'] = True
            if v.get('lastArgArray'):
                d['lastArgArray'] = True
            if with_fid:
                d['fid'] = counter[0]
            counter[0] += 1
            d['statements'] = canon_statements(v['statements'], counter, with_fid)
            out.append({'function': d})
        elif k == 'include':
            out.append({'include': {'includes': [dict(({'system': True} if i.get('system') else {}), url=i['url']) for i in v['includes']]}})
        else:
            raise ValueError(k)
    return out


def canon_script(model, counter=None, with_fid=True):
    return {'statements': canon_statements(model['statements'], counter, with_fid)}


def round_script_numbers(obj):
    """Model output (exact rationals) -> each literal rounded to the double float(text) yields, for comparison."""
    if isinstance(obj, dict):
        if set(obj) == {'number'} and isinstance(obj['number'], list):
            p, q = obj['number']
            fr = Fraction(p / q) if q != 1 else Fraction(float(p))
            return {'number': [fr.numerator, fr.denominator]}
        return {k: round_script_numbers(v) for k, v in obj.items()}
    if isinstance(obj, list):
        return [round_script_numbers(x) for x in obj]
    return obj


# ---------------------------------------------------------------------------------------------------------------------
# values
# ---------------------------------------------------------------------------------------------------------------------

def value_to_wire(v, lib=None, path=()):
    """Python runtime value -> canonical wire value; a container re-entered on the current path renders as '<cycle>'."""
    if v is None or isinstance(v, (bool, str)):
        return v
    if isinstance(v, (int, float)):
        if isinstance(v, float) and (v != v or v in (float('inf'), float('-inf'))):
            return {'nonfinite': repr(v)}
        fr = Fraction(v)
        return {'n': [fr.numerator, fr.denominator]}
    if isinstance(v, datetime.date):
        return {'d': repr(v)}
    if isinstance(v, (list, dict)):
        if id(v) in path:
            return '<cycle>'
        if len(path) > 200:
            return '<deep>'
        sub = path + (id(v),)
        if isinstance(v, list):
            return [value_to_wire(x, lib, sub) for x in v]
        return {'o': [[k, value_to_wire(v[k], lib, sub)] for k in sorted(v)]}
    if callable(v):
        if isinstance(v, functools.partial) and getattr(v.func, '__name__', '') == '_script_function':
            return {'f': 'script'}
        if lib is not None:
            for name, fn in lib.items():
                if fn is v:
                    return {'f': name}
        return {'f': 'other'}
    return {'r': None}


def wire_globals(globals_):
    """Initial globals (Python values, JSON-like) -> [[name, wire value], ...] in insertion order."""
    return [[k, value_to_wire(v)] for k, v in globals_.items()]


def run_impl(model, globals_=None, max_statements=1000, files=None, system_prefix=None, url_fn=None, debug=False):
    """Execute a model on the real implementation; canonical outcome dict (same shape as the driver's)."""
    mods = fw.impl()
    runtime, library, parser = mods['runtime'], mods['library'], mods['parser']
    log = []
    g = copy.deepcopy(dict(globals_ or {}))
    options = {'globals': g, 'maxStatements': max_statements, 'logFn': log.append, 'debug': debug}
    if files is not None:
        def fetch(req):
            text = files.get(req['url'])
            if isinstance(text, Exception):
                raise text
            return text
        options['fetchFn'] = fetch
    if system_prefix is not None:
        options['systemPrefix'] = system_prefix
    if url_fn is not None:
        options['urlFn'] = url_fn
    out = {}
    try:
        result = runtime.execute_script(model, options)
        out['result'] = value_to_wire(result, library.SCRIPT_FUNCTIONS)
    except runtime.BareScriptRuntimeError as exc:
        out['error'] = str(exc)
    except parser.BareScriptParserError as exc:
        first = str(exc).split('\n', 1)[0]
        out['error'] = 'ParserError ' + first
    except RecursionError:
        out['hostexc'] = 'RecursionError'
    except Exception as exc:  # pylint: disable=broad-except
        out['hostexc'] = type(exc).__name__ + ': ' + str(exc)[:200]
    out['log'] = list(log)
    user = [[k, value_to_wire(v, library.SCRIPT_FUNCTIONS)] for k, v in g.items()
            if not (k in library.SCRIPT_FUNCTIONS and v is library.SCRIPT_FUNCTIONS[k])]
    out['globals'] = sorted(user, key=lambda kv: kv[0])
    out['count'] = options.get('statementCount')
    return canon_neg_zero(out)


_NEG_ZERO = re.compile(r'(?<![\d.])-0(?![\d.])')


def canon_neg_zero(obj):
    """The rational number model has no negative zero: compare text modulo '-0' -> '0' (documented restriction)."""
    if isinstance(obj, str):
        return _NEG_ZERO.sub('0', obj)
    if isinstance(obj, list):
        return [canon_neg_zero(x) for x in obj]
    if isinstance(obj, dict):
        return {k: canon_neg_zero(v) for k, v in obj.items()}
    return obj


def canon_model_out(resp):
    """Driver outcome -> same shape as run_impl (keys ordered irrelevant)."""
    out = dict(resp)
    if 'globals' in out:
        out['globals'] = sorted(out['globals'], key=lambda kv: kv[0])
    return canon_neg_zero(out)


# ---------------------------------------------------------------------------------------------------------------------
# grammar-directed generator
# ---------------------------------------------------------------------------------------------------------------------

VARS = ['a', 'b', 'c', 'n', 'x', 'y']
MODEL_LIB = ['systemLog', 'arrayNew', 'arrayLength', 'arrayGet', 'arrayPush', 'arraySet', 'arrayPop', 'arrayCopy', 'arrayIndexOf',
             'objectNew', 'objectGet', 'objectSet', 'systemGlobalGet', 'systemGlobalSet', 'systemPartial', 'systemCompare',
             'systemType', 'systemBoolean']


class Gen:
    """Random structured programs; all choices from one `random.Random`."""

    def __init__(self, rng, max_depth=4, funcs=None, allow_raw=False, allow_func_defs=True, in_function=False):
        self.rng = rng
        self.max_depth = max_depth
        self.funcs = list(funcs or [])          # [(name, nargs, lastArgArray)]
        self.allow_raw = allow_raw
        self.allow_func_defs = allow_func_defs
        self.tag = 0
        self.stats = {}

    def count(self, what):
        self.stats[what] = self.stats.get(what, 0) + 1

    # -- expressions ------------------------------------------------------------------------------------------------

    def atom(self):
        r = self.rng.random()
        if r < 0.35:
            return var(self.rng.choice(VARS))
        if r < 0.65:
            return num(self.rng.choice([0, 1, 2, 3, 5, 10, Fraction(1, 2), Fraction(5, 2)]))
        if r < 0.75:
            return string(self.rng.choice(['', 's', 'ab']))
        if r < 0.82:
            return var(self.rng.choice(['true', 'false', 'null']))
        if r < 0.92:
            return call('arrayNew', *[num(self.rng.randint(0, 4)) for _ in range(self.rng.randint(0, 3))])
        return var(self.rng.choice(VARS))

    def traced(self, e):
        """Wrap in the logging identity function `tr` so that the evaluation (order, laziness) is observable."""
        self.tag += 1
        return call('tr', string(f't{self.tag}'), e)

    def expr(self, depth=0):
        r = self.rng.random()
        if depth >= 3 or r < 0.3:
            e = self.atom()
        elif r < 0.7:
            op = self.rng.choice(['+', '-', '*', '<', '<=', '>', '>=', '==', '!=', '&&', '||', '+', '<'])
            e = wf_binary(op, self.expr(depth + 1), self.expr(depth + 1))
            self.count('op' + op)
        elif r < 0.78:
            sub = self.expr(depth + 1)
            e = unop(self.rng.choice(['!', '-']), group(sub) if 'binary' in sub else sub)
        elif r < 0.86 and self.funcs:
            name, nargs, _ = self.rng.choice(self.funcs)
            n = max(0, nargs + self.rng.choice([0, 0, 0, -1, 1, 2]))
            e = call(name, *[self.expr(depth + 1) for _ in range(n)])
            self.count('call-script')
        elif r < 0.93:
            fn = self.rng.choice(['arrayLength', 'arrayGet', 'systemType', 'systemBoolean', 'if', 'arrayPush'])
            if fn == 'arrayGet':
                e = call(fn, self.expr(depth + 1), num(self.rng.randint(0, 3)))
            elif fn == 'if':
                e = call(fn, self.expr(depth + 1), self.expr(depth + 1), self.expr(depth + 1))
            elif fn == 'arrayPush':
                e = call(fn, var(self.rng.choice(VARS)), self.expr(depth + 1))
            else:
                e = call(fn, self.expr(depth + 1))
            self.count('call-lib')
        else:
            e = group(self.expr(depth + 1))
        if self.rng.random() < 0.15:
            e = self.traced(e)
        return e

    def cond(self):
        r = self.rng.random()
        if r < 0.5:
            e = wf_binary(self.rng.choice(['<', '<=', '>', '==', '!=']), var(self.rng.choice(VARS)), num(self.rng.randint(0, 4)))
        elif r < 0.7:
            e = var(self.rng.choice(VARS))
        else:
            e = self.expr(1)
        if self.rng.random() < 0.3:
            e = self.traced(e)
        return e

    # -- statements -------------------------------------------------------------------------------------------------

    def block(self, depth, in_loop, in_func, n=None):
        n = self.rng.randint(1, 4) if n is None else n
        return [self.stmt(depth, in_loop, in_func) for _ in range(n)]

    def stmt(self, depth, in_loop, in_func):
        r = self.rng.random()
        deep = depth >= self.max_depth
        if deep or r < 0.30:
            self.count('assign')
            v = self.rng.choice(VARS)
            if self.rng.random() < 0.5:
                return {'k': 'expr', 'name': v, 'e': wf_binary('+', var(v), num(1))}
            return {'k': 'expr', 'name': v, 'e': self.expr()}
        if r < 0.40:
            self.count('exprstmt')
            return {'k': 'expr', 'name': None, 'e': call('systemLog', wf_binary('+', string(self.rng.choice(['p', 'q'])), self.expr(2)))}
        if r < 0.55:
            self.count('if')
            s = {'k': 'if', 'c': self.cond(), 't': self.block(depth + 1, in_loop, in_func), 'else': None}
            chain = s
            for _ in range(self.rng.choice([0, 0, 1, 1, 2])):
                self.count('elif')
                nxt = {'k': 'elif', 'c': self.cond(), 't': self.block(depth + 1, in_loop, in_func), 'else': None}
                chain['else'] = nxt
                chain = nxt
            if self.rng.random() < 0.5:
                self.count('else')
                chain['else'] = {'k': 'else', 'b': self.block(depth + 1, in_loop, in_func)}
            return s
        if r < 0.67:
            self.count('while')
            v = self.rng.choice(VARS)
            body = self.block(depth + 1, True, in_func)
            if self.rng.random() < 0.2:
                # `while VALUE:` - the loop runs on the truthiness of a value of any type (objects, arrays, strings ...);
                # a counter ends it after a few iterations by assigning a falsy value
                self.count('while-value')
                k = self.rng.choice(['i', 'j'])
                body.append({'k': 'expr', 'name': k, 'e': wf_binary('+', wf_binary('||', var(k), num(0)), num(1))})
                body.append({'k': 'if', 'c': wf_binary('>=', var(k), num(self.rng.randint(2, 4))),
                             't': [{'k': 'expr', 'name': v, 'e': self.rng.choice([var('null'), num(0), string('')])}], 'else': None})
                return {'k': 'while', 'c': var(v), 'b': body}
            if self.rng.random() < 0.8:
                body.append({'k': 'expr', 'name': v, 'e': wf_binary('+', var(v), num(1))})
            return {'k': 'while', 'c': wf_binary('<', var(v), num(self.rng.randint(1, 4))), 'b': body}
        if r < 0.79:
            self.count('for')
            ix = self.rng.choice([None, None, 'i', 'j'])
            vals = self.rng.choice([var(self.rng.choice(VARS)),
                                    call('arrayNew', *[num(self.rng.randint(0, 5)) for _ in range(self.rng.randint(0, 4))]),
                                    self.expr(2)])
            return {'k': 'for', 'value': self.rng.choice(['v', 'w']), 'index': ix, 'vals': vals, 'b': self.block(depth + 1, True, in_func)}
        if r < 0.86 and in_loop:
            k = self.rng.choice(['break', 'continue'])
            self.count(k)
            # guard it so that the rest of the body is not dead code; sometimes under two nested ifs / in an else branch
            shape = self.rng.random()
            if shape < 0.5:
                return {'k': 'if', 'c': self.cond(), 't': [{'k': k}], 'else': None}
            likely = wf_binary(self.rng.choice(['>=', '<', '!=']), var(self.rng.choice(VARS)), num(self.rng.randint(0, 2)))
            if shape < 0.8:
                self.count('nested-if-' + k)
                return {'k': 'if', 'c': likely, 't': [{'k': 'if', 'c': self.cond(), 't': [{'k': k}], 'else': None}], 'else': None}
            self.count('else-' + k)
            return {'k': 'if', 'c': self.cond(), 't': self.block(depth + 1, in_loop, in_func, 1),
                    'else': {'k': 'elif', 'c': likely, 't': [{'k': k}], 'else': None}}
        if r < 0.885:
            # a bare `return` ends the whole run: at top level only rarely, inside functions usually guarded
            if in_func or self.rng.random() < 0.15:
                self.count('return')
                ret = {'k': 'ret', 'e': self.expr(2) if self.rng.random() < 0.8 else None}
                if self.rng.random() < 0.6:
                    return {'k': 'if', 'c': self.cond(), 't': [ret], 'else': None}
                return ret
            self.count('assign')
            return {'k': 'expr', 'name': self.rng.choice(VARS), 'e': self.expr()}
        if r < 0.94 and not in_func and self.allow_func_defs:
            return self.funcdef(depth)
        if self.allow_raw and r < 0.97:
            self.count('raw')
            if self.rng.random() < 0.5:
                return {'k': 'label', 'name': self.rng.choice(['L1', 'L2'])}
            return {'k': 'jump', 'name': self.rng.choice(['L1', 'L2']), 'c': self.cond() if self.rng.random() < 0.5 else None}
        self.count('assign')
        return {'k': 'expr', 'name': self.rng.choice(VARS), 'e': self.expr()}

    def funcdef(self, depth, name=None):
        """A function definition.  To keep runs inside the model (Python's recursion limit is not modelled) the call graph
        is acyclic: a prelude function fa/fb/fc may call only the prelude functions defined before it; functions defined
        later (g/fe, possibly re-defined) call only prelude functions."""
        self.count('funcdef')
        nargs = self.rng.randint(0, 3)
        # every third definition names its parameters like global variables of the program: an omitted argument must read as null
        # there, not as the global of the same name
        params = (['a', 'n', 'y'] if self.rng.random() < 0.33 else ['p', 'q', 'r'])[:nargs]
        laa = nargs > 0 and self.rng.random() < 0.25
        prelude = ['fa', 'fb', 'fc']
        if name is None:
            name = self.rng.choice(['g', 'fe'])     # a one-character name too (F31)
            callable_here = [f for f in self.funcs if f[0] in prelude]
        else:
            callable_here = [f for f in self.funcs if f[0] in prelude and prelude.index(f[0]) < prelude.index(name)]
        saved = self.funcs
        self.funcs = list(callable_here)
        body = self.block(depth + 1, False, True)
        # let bodies use their parameters
        if params:
            body.insert(0, {'k': 'expr', 'name': 'x', 'e': var(self.rng.choice(params))})
            if self.rng.random() < 0.3:
                body.insert(0, {'k': 'expr', 'name': None, 'e': call('systemLog', var(params[-1]))})
        self.funcs = saved
        if not any(f[0] == name for f in self.funcs):
            self.funcs.append((name, nargs, laa))
        return {'k': 'func', 'fid': 0, 'name': name, 'args': params, 'lastArgArray': laa, 'async': False, 'b': body}

    def program(self):
        """Prelude `tr` + up to 3 functions + main block."""
        prog = [{'k': 'func', 'fid': 0, 'name': 'tr', 'args': ['tag', 'v'], 'lastArgArray': False, 'async': False,
                 'b': [{'k': 'expr', 'name': None, 'e': call('systemLog', var('tag'))}, {'k': 'ret', 'e': var('v')}]}]
        for name in ['fa', 'fb', 'fc'][:self.rng.randint(0, 3)]:
            prog.append(self.funcdef(1, name))
        prog += self.block(0, False, False, self.rng.randint(2, 6))
        if self.rng.random() < 0.6:
            prog.append({'k': 'ret', 'e': self.expr(2)})
        return assign_fids(prog)


INITIAL_GLOBALS = [
    {}, {'a': 1, 'b': 2.5, 'c': 'str'}, {'a': None, 'b': True, 'c': False, 'n': 0}, {'a': [1, 2, 3], 'b': [], 'x': {'k': 1}},
    {'a': [[1], [2, 3]], 'n': 3, 'x': '', 'y': 'y'}, {'a': 0, 'b': 0, 'c': 0, 'n': 0, 'x': 0, 'y': 0},
    {'a': {}, 'b': {}, 'c': [], 'n': '', 'x': 0, 'y': None}, {'a': {}, 'b': [0], 'c': {'k': None}, 'n': 1, 'x': {}, 'y': False},
]


def random_globals(rng):
    g = dict(rng.choice(INITIAL_GLOBALS))
    if rng.random() < 0.3:
        g[rng.choice(VARS)] = rng.choice([None, True, 0, 1, 2, -1, 0.5, '', 'z', [], [0], [1, 'a', None], {}, {'a': 1}])
    return g


# ---------------------------------------------------------------------------------------------------------------------
# Reference big-step interpreter of structured programs (the C01 oracle): a direct reading of the source structure.
# Expressions are evaluated by the implementation's own evaluate_expression (C01 is about control flow, not operators).
# ---------------------------------------------------------------------------------------------------------------------

def impl_expr(e):
    """protocol expression -> implementation expression model (float literals)"""
    (k, v), = e.items()
    if k == 'number':
        return {'number': float(Fraction(v[0], v[1]))}
    if k in ('string', 'variable'):
        return {k: v}
    if k == 'group':
        return {'group': impl_expr(v)}
    if k == 'unary':
        return {'unary': {'op': v['op'], 'expr': impl_expr(v['expr'])}}
    if k == 'binary':
        return {'binary': {'op': v['op'], 'left': impl_expr(v['left']), 'right': impl_expr(v['right'])}}
    return {'function': {'name': v['name'], 'args': [impl_expr(a) for a in v['args']]}}


class RefBudget(Exception):
    pass


class _Break(Exception):
    pass


class _Continue(Exception):
    pass


class _Return(Exception):
    def __init__(self, value):
        super().__init__()
        self.value = value


class RefInterp:
    def __init__(self, options, budget=20000, f7_quirk=False):
        self.mods = fw.impl()
        self.options = options
        self.budget = budget
        self.f7_quirk = f7_quirk        # emulate known finding F7: `continue` in a `while` restarts the body WITHOUT the test

    def ev(self, e, locals_):
        return self.mods['runtime'].evaluate_expression(impl_expr(e), self.options, locals_, False)

    def truthy(self, v):
        return self.mods['value'].value_boolean(v)

    def step(self):
        self.budget -= 1
        if self.budget < 0:
            raise RefBudget()

    def assign(self, name, value, locals_):
        if locals_ is not None:
            locals_[name] = value
        else:
            self.options['globals'][name] = value

    def lookup(self, name, locals_):
        if locals_ is not None and name in locals_:
            return locals_[name]
        return self.options['globals'].get(name)

    def block(self, stmts, locals_):
        for s in stmts:
            self.stmt(s, locals_)

    def stmt(self, s, locals_):
        self.step()
        k = s['k']
        if k == 'expr':
            v = self.ev(s['e'], locals_)
            if s.get('name'):
                self.assign(s['name'], v, locals_)
        elif k == 'ret':
            raise _Return(self.ev(s['e'], locals_) if s.get('e') else None)
        elif k == 'if':
            node = s
            while node is not None:
                if node['k'] == 'else':
                    self.block(node['b'], locals_)
                    return
                if self.truthy(self.ev(node['c'], locals_)):          # exactly the first truthy branch
                    self.block(node['t'], locals_)
                    return
                node = node.get('else')
        elif k == 'while':
            skip_test = False
            while True:
                if not skip_test and not self.truthy(self.ev(s['c'], locals_)):   # condition re-tested before EVERY iteration
                    break
                skip_test = False
                self.step()
                try:
                    self.block(s['b'], locals_)
                except _Break:
                    break
                except _Continue:
                    skip_test = self.f7_quirk
                    continue
        elif k == 'for':
            values = self.ev(s['vals'], locals_)                      # evaluated once
            length = len(values) if isinstance(values, list) else 0   # length taken once
            if length:
                ix_name = s.get('index')
                ix = 0
                if ix_name:
                    self.assign(ix_name, 0.0, locals_)
                while True:
                    self.step()
                    if ix_name:
                        ix = self.lookup(ix_name, locals_)
                    ok_ix = isinstance(ix, (int, float)) and not isinstance(ix, bool) and ix == int(ix) and 0 <= ix < len(values)
                    self.assign(s['value'], values[int(ix)] if ok_ix else None, locals_)
                    try:
                        self.block(s['b'], locals_)
                    except _Break:
                        break
                    except _Continue:
                        pass
                    if ix_name:
                        cur = self.lookup(ix_name, locals_)
                        nxt = self.mods['runtime'].evaluate_expression(
                            {'binary': {'op': '+', 'left': {'variable': ix_name}, 'right': {'number': 1.0}}}, self.options, locals_, False)
                        self.assign(ix_name, nxt, locals_)
                        more = self.mods['runtime'].evaluate_expression(
                            {'binary': {'op': '<', 'left': {'variable': ix_name}, 'right': {'number': float(length)}}},
                            self.options, locals_, False)
                        del cur
                        if not more:
                            break
                    else:
                        ix += 1
                        if not ix < length:
                            break
        elif k == 'break':
            raise _Break()
        elif k == 'continue':
            raise _Continue()
        elif k == 'func':
            self.options['globals'][s['name']] = self.make_function(s)
        else:
            raise ValueError('no structured meaning: ' + k)

    def make_function(self, s):
        def fn(args, unused_options):
            locals_ = {}
            params = s['args']
            n = len(params)
            for i, p in enumerate(params):
                if s.get('lastArgArray') and i == n - 1:
                    locals_[p] = list(args[i:])                       # remaining arguments (empty when missing)
                else:
                    locals_[p] = args[i] if i < len(args) else None   # missing -> null, surplus ignored
            try:
                self.block(s['b'], locals_)
            except _Return as ret:
                return ret.value
            except (_Break, _Continue):
                return None
            return None
        fn.ref_script_function = True
        return fn

    def run(self, prog):
        try:
            self.block(prog, None)
        except _Return as ret:
            return ret.value
        return None


def run_reference(prog, globals_=None, budget=20000, f7_quirk=False):
    """Run the reference interpreter -> outcome dict comparable with run_impl (no count; '__bareScript*' globals absent)."""
    mods = fw.impl()
    library = mods['library']
    log = []
    g = copy.deepcopy(dict(globals_ or {}))
    for name, fn in library.SCRIPT_FUNCTIONS.items():
        g.setdefault(name, fn)
    options = {'globals': g, 'maxStatements': 0, 'logFn': log.append, 'statementCount': 0}
    out = {}
    interp = RefInterp(options, budget, f7_quirk)
    try:
        result = interp.run(prog)
        out['result'] = ref_wire(result, library.SCRIPT_FUNCTIONS)
    except RefBudget:
        return None
    except mods['runtime'].BareScriptRuntimeError as exc:
        out['error'] = str(exc)
    except RecursionError:
        return None
    out['log'] = list(log)
    out['globals'] = sorted([[k, ref_wire(v, library.SCRIPT_FUNCTIONS)] for k, v in g.items()
                             if not (k in library.SCRIPT_FUNCTIONS and v is library.SCRIPT_FUNCTIONS[k])], key=lambda kv: kv[0])
    return canon_neg_zero(out)


def ref_wire(v, lib, path=()):
    if callable(v) and getattr(v, 'ref_script_function', False):
        return {'f': 'script'}
    if isinstance(v, (list, dict)):
        if id(v) in path:
            return '<cycle>'
        sub = path + (id(v),)
        if isinstance(v, list):
            return [ref_wire(x, lib, sub) for x in v]
        return {'o': [[k, ref_wire(v[k], lib, sub)] for k in sorted(v)]}
    return value_to_wire(v, lib)


def strip_hidden(out):
    """Drop the parser-generated '__bareScript…' globals and the statement count from an outcome."""
    res = {k: v for k, v in out.items() if k != 'count'}
    if 'globals' in res:
        res['globals'] = [kv for kv in res['globals'] if not kv[0].startswith('__bareScript')]
    return res


def has_while_continue(block, in_while=False):
    """F7 signature: a `continue` whose innermost enclosing loop is a `while`."""
    for s in block:
        k = s['k']
        if k == 'continue' and in_while:
            return True
        if k == 'if':
            node = s
            while node is not None:
                body = node['b'] if node['k'] == 'else' else node['t']
                if has_while_continue(body, in_while):
                    return True
                node = node.get('else') if node['k'] != 'else' else None
        elif k == 'while':
            if has_while_continue(s['b'], True):
                return True
        elif k == 'for':
            if has_while_continue(s['b'], False):
                return True
        elif k == 'func':
            if has_while_continue(s['b'], False):
                return True
    return False
