"""C15 - array, object and string functions obey their sequence/map/string contracts.

Three parties are compared on every call of every generated history:

  * the IMPLEMENTATION, driven through scripts (one `v<k> = f(args...)` statement per call, a host function `__snap()`
    after each of them records the state of all script variables, containers by identity);
  * a pure-Python REFERENCE written from the documented contracts (`Ref` below: list/dict/str operations on a shadow copy
    of the pool that has the same aliasing) - the property's own oracle, independent of the Lean model;
  * the Lean MODEL (`BareModel/Lib.lean`, driver op "history"), the subject of the theorems of `BareProofs/C15.lean`.

implementation vs reference  -> ctx.witness   (a concrete history on which the property fails on the real code)
implementation vs model      -> ctx.compare   (the theorems no longer speak about this code)

Stream `lib-through-machine`: the same histories as script text, parsed and executed by the implementation and by the Lean jump
MACHINE whose library is that model (`BareModel/HostLib.lean`, second driver `drv_hostlib`, op "exec" on the parsed statement
list with the initial pool and its aliasing) - the tie for the machine-level theorems of `BareProofs/HostLibBridge.lean`.

Call-backs (added after seeding round 4): the pool holds script-defined functions (MATCHERS, defined by the implementation's own
parser/runtime) and host functions whose results range over every value class; the reference gives the match-function form of
arrayIndexOf / arrayLastIndexOf its contract (match_pred: the returned value read with the language's truth rules) - stream
`callbacks` (every function x every element class, exhaustive, + random arrays) and ~30% of the searches of the `lib` stream.
Stream `sort`: arraySort (outside the Lean model) against the sequence contract of a sort, with and without compare call-backs.
"""

import copy
import datetime
import json
import os
import re
import urllib.parse
from fractions import Fraction

import fw
import progen   # execution-stream helpers (canonical model form of a parsed script), used by the lib-through-machine stream

ID = 'C15'
LEVEL = 'proof'
LEAN_TARGETS = ['BareProofs.C15', 'BareProofs.HostLibBridge']
DRIVER = 'drv_c15'
DRIVER_ROOT = 'Drv.C15'
EXTRA_TARGETS = ['drv_hostlib']      # second execution driver (Drv/HostLibDrv.lean): the jump machine over HostLib.hostLib
GEN = ['Args', 'LibFns']
THEOREMS = [
    'C15.sig_table', 'C15.fail_table', 'C15.raw_table',
    'C15.bodies_shape', 'C15.lib_frame', 'C15.lib_frame_kind', 'C15.lib_length', 'C15.lib_fresh',
    'C15.lib_fail_unchanged', 'C15.lib_invalid_fails', 'C15.validate_num', 'C15.lib_spec_partial',
    'C15.history_refines', 'C15.history_env', 'C15.history_frame', 'C15.alias_same',
    'C15.dictGet_dictSet', 'C15.dictGet_dictDel', 'C15.dictSet_keys',
    'C15.findFrom_spec', 'C15.lastMatch_spec', 'C15.split_join', 'C15.replace_split_join',
    'C15.regexEscape_literal', 'C15.regexEscape_call', 'C15.urlEncode_reversible', 'C15.urlEncode_call', 'C15.quoteByte_ascii',
    # the library model as the library of the machine (BareModel/HostLib.lean, BareProofs/HostLibBridge.lean)
    'HostLib.decFn_encFn', 'HostLib.encFn_decFn', 'HostLib.ofLib_toLib', 'HostLib.toLib_ofLib', 'HostLib.ofImpl_toImpl',
    'HostLib.toImpl_ofImpl', 'HostLib.lib_call_is_lib', 'HostLib.lib_call_is_step', 'HostLib.callValue_lib',
    'HostLib.machine_lib_frame', 'HostLib.machine_lib_fresh', 'HostLib.machine_lib_fail_unchanged',
    'HostLib.machine_lib_unmodelled', 'HostLib.machine_lib_heap', 'HostLib.machine_history_refines',
    'HostLib.machine_history_refines_execute', 'HostLib.rel_initState', 'HostLib.namesOK_vName', 'HostLib.namesOK_gen',
    'HostLib.hostLib_truthyBool', 'HostLib.hostLib_noGlobalSet_except_system', 'HostLib.hostLib_other_noGlobalSet',
]
ASSUMPTIONS = [
    'CPython str methods find/rfind/split/replace/strip/startswith/endswith and list/dict primitives behave as modelled over code points '
    '(pyFind, pyRFind, pySplit, pyReplace, pyStrip, pyGetItem, pySlice, dictSet ...): tied by the lib stream, not verified',
    're.escape escapes exactly re._special_chars_map and urllib.parse.quote leaves exactly _ALWAYS_SAFE + safe unquoted '
    '(both tables are re-extracted from the running CPython on every run into Gen/LibFns.lean)',
    'str.isspace code points are those enumerated from the running CPython (Gen.pySpace)',
    'numbers are finite (every finite int/float is an exact rational); int vs float spelling is the subject of C12, not C15',
    'strings contain no lone surrogates (not representable as Lean Char); stringFromCharCode of a surrogate is unmodelled',
    'containers are acyclic (finding F18: a container reachable from itself breaks value_json/value_compare); generators never build cycles',
]
TRUSTED = [
    'the pure-Python reference Ref in harness/props/C15.py (written from the documented contracts) is the oracle that turns a '
    'behavioural change into a witness',
]

UTC = datetime.timezone.utc
EPOCH = datetime.datetime(1970, 1, 1, tzinfo=UTC)


def _fn0(unused_args, unused_options):
    return None


def _fn1(unused_args, unused_options):
    return None


REGEXES = [re.compile('a'), re.compile('b+')]
REGEX_TYPE = type(REGEXES[0])
DT2020 = datetime.datetime(2020, 1, 1, tzinfo=datetime.timezone.utc)


# ---------------------------------------------------------------------------------------------------------------------
# Function values of the pool: call-backs handed to the library (match function of arrayIndexOf / arrayLastIndexOf, compare
# function of arraySort).  `{"f": i}` in protocol form:  i = 0, 1 the two opaque host functions above (they return null);
# 2 .. 2+len(MATCHERS)-1 the SCRIPT-DEFINED functions of MATCHERS (defined by the implementation's own parser/runtime from
# MATCHER_PRELUDE, i.e. what a script author writes); then one HOST twin per matcher (a Python callable of the embedding
# application that returns the reference result) and HOST_ONLY (results a script cannot spell: host ints, function/regex values).
# Every entry carries its reference semantics  element -> returned value  written from the function text; what the LIBRARY
# does with the returned value (judge it with the language's truth rules) is the thing under test.  The results range over
# every value class: null, false/true, 0/non-zero/fractional/negative numbers, ''/non-empty strings, []/non-empty arrays,
# {}/non-empty objects, datetime, function, regex - for constant functions and for functions of the element.
# ---------------------------------------------------------------------------------------------------------------------

def _is_num(x):
    return isinstance(x, (int, float)) and not isinstance(x, bool)


def _truthy(x):
    """The truth rules of the language (documentation of `if` / systemBoolean): null, false, 0, '' and [] are false - all else true."""
    if x is None:
        return False
    if isinstance(x, bool):
        return x
    if _is_num(x):
        return x != 0
    if isinstance(x, (str, list)):
        return len(x) > 0
    return True


# (name, parameter list text, body lines, reference  element -> value)
MATCHERS = [
    ('mNoReturn', 'x', ['y = x'], lambda x: None),
    ('mId', 'x', ['return x'], lambda x: x),
    ('mNot', 'x', ['return !x'], lambda x: not _truthy(x)),
    ('mNull', 'x', ['return null'], lambda x: None),
    ('mFalse', 'x', ['return false'], lambda x: False),
    ('mTrue', 'x', ['return true'], lambda x: True),
    ('mZero', 'x', ['return 0'], lambda x: 0.0),
    ('mOne', 'x', ['return 1'], lambda x: 1.0),
    ('mHalf', 'x', ['return 0.5'], lambda x: 0.5),
    ('mNeg', 'x', ['return 0 - 1'], lambda x: -1.0),
    ('mEmptyStr', 'x', ["return ''"], lambda x: ''),
    ('mStr', 'x', ["return 'false'"], lambda x: 'false'),
    ('mEmptyArr', 'x', ['return arrayNew()'], lambda x: []),
    ('mArrZero', 'x', ['return arrayNew(0)'], lambda x: [0.0]),
    ('mEmptyObj', 'x', ['return objectNew()'], lambda x: {}),
    ('mObj', 'x', ["return objectNew('a', null)"], lambda x: {'a': None}),
    ('mDate', 'x', ['return datetimeNew(2020, 1, 1)'], lambda x: DT2020),
    ('mRegex', 'x', ["return regexNew('a')"], lambda x: REGEXES[0]),
    ('mWrapArr', 'x', ['return arrayNew(x)'], lambda x: [x]),
    ('mWrapObj', 'x', ["return objectNew('v', x)"], lambda x: {'v': x}),
    ('mGetA', 'x', ["return objectGet(x, 'a')"], lambda x: x['a'] if isinstance(x, dict) and 'a' in x else None),
    ('mGetADefault', 'x', ["return objectGet(x, 'a', objectNew())"], lambda x: x['a'] if isinstance(x, dict) and 'a' in x else {}),
    ('mKeys', 'x', ['return objectKeys(x)'], lambda x: list(x) if isinstance(x, dict) else None),
    ('mObjCopy', 'x', ['return objectCopy(x)'], lambda x: dict(x) if isinstance(x, dict) else None),
    ('mArrCopy', 'x', ['return arrayCopy(x)'], lambda x: list(x) if isinstance(x, list) else None),
    ('mArrLen', 'x', ['return arrayLength(x)'], lambda x: float(len(x)) if isinstance(x, list) else 0.0),
    ('mStrLen', 'x', ['return stringLength(x)'], lambda x: float(len(x)) if isinstance(x, str) else 0.0),
    ('mIsStr', 'x', ["return systemType(x) == 'string'"], lambda x: isinstance(x, str)),
    ('mIsObj', 'x', ["return systemType(x) == 'object'"], lambda x: isinstance(x, dict)),
    ('mType', 'x', ['return systemType(x)'], lambda x: 'type-name'),
    ('mGt1', 'x', ["return systemType(x) == 'number' && x > 1"], lambda x: _is_num(x) and x > 1),
    ('mIfObjArr', 'x', ['return if(x, objectNew(), arrayNew())'], lambda x: {} if _truthy(x) else []),
    ('mBranch', 'x', ['if x:', '    return objectNew()', 'endif', "return ''"], lambda x: {} if _truthy(x) else ''),
    ('mNoParam', '', ['return objectNew()'], lambda x: {}),                  # surplus call-back argument
    ('mSecond', 'x, y', ['return y'], lambda x: None),                       # missing call-back argument
    ('mSecondOr', 'x, y', ['return y || objectCopy(x)'], lambda x: dict(x) if isinstance(x, dict) else None),
    ('mRest', 'x...', ['return x'], lambda x: [x]),                          # last-argument-array call-backs
    ('mRestTail', 'x, y...', ['return y'], lambda x: []),
]
MATCHER_PRELUDE = '\n'.join(f'function {name}({params}):\n' + '\n'.join('    ' + ln for ln in body) + '\nendfunction'
                            for name, params, body, _ in MATCHERS)
HOST_ONLY = [
    ('hIntZero', lambda x: 0), ('hIntOne', lambda x: 1), ('hNegZero', lambda x: -0.0), ('hFn', lambda x: _fn0),
    ('hRegex', lambda x: REGEXES[1]), ('hDate', lambda x: EPOCH), ('hIsNone', lambda x: x is None),
]
FN_REFS = [lambda x: None, lambda x: None] + [m[3] for m in MATCHERS] + [m[3] for m in MATCHERS] + [h[1] for h in HOST_ONLY]
FN_NAMES = ['fn0', 'fn1'] + [m[0] for m in MATCHERS] + ['host:' + m[0] for m in MATCHERS] + ['host:' + h[0] for h in HOST_ONLY]
NFN = len(FN_REFS)
FN_SCRIPT0 = 2                       # first script-defined function
FN_HOST0 = 2 + len(MATCHERS)         # first host twin


def _host_fn(ref):
    def host(args, unused_options):
        return ref(args[0] if args else None)
    return host


_FN_CACHE = {}


def fns():
    """The function values, index = protocol id (built once per loaded implementation: the script functions are the objects the
    implementation's runtime creates for `function` statements)."""
    mods = fw.impl()
    if _FN_CACHE.get('mods') is not mods:
        glob = {}
        mods['runtime'].execute_script(mods['parser'].parse_script(MATCHER_PRELUDE), {'globals': glob, 'maxStatements': 10000})
        table = [_fn0, _fn1] + [glob[m[0]] for m in MATCHERS] + [_host_fn(m[3]) for m in MATCHERS] + [_host_fn(h[1]) for h in HOST_ONLY]
        _FN_CACHE.update(mods=mods, fns=table, index={id(f): i for i, f in enumerate(table)})
    return _FN_CACHE['fns']


def fn_index(f):
    fns()
    return _FN_CACHE['index'].get(id(f), 99)


def fn_id(name):
    return FN_NAMES.index(name)


# ---------------------------------------------------------------------------------------------------------------------
# protocol values <-> Python values
# ---------------------------------------------------------------------------------------------------------------------

def is_num(x):
    return isinstance(x, (int, float)) and not isinstance(x, bool)


def scalar_proto(x):
    """A non-container Python value -> protocol value."""
    if x is None or isinstance(x, bool):
        return x
    if is_num(x):
        fr = Fraction(x)
        return {'n': [fr.numerator, fr.denominator]}
    if isinstance(x, str):
        return {'s': x}
    if isinstance(x, datetime.datetime):
        return {'dt': (x - EPOCH) // datetime.timedelta(milliseconds=1)}
    if isinstance(x, REGEX_TYPE):
        return {'re': next((i for i, r in enumerate(REGEXES) if r is x), 99)}
    if callable(x):
        return {'f': fn_index(x)}
    return {'unknown': type(x).__name__}


def build_pool(spec):
    """spec = {'heap': [cell...], 'env': [value...]} (protocol form) -> (cells as Python objects, env values)."""
    cells = [[] if 'arr' in c else {} for c in spec['heap']]

    def val(p):
        if p is None or isinstance(p, bool):
            return p
        if 'n' in p:
            return p['n'][0] / p['n'][1] if p['n'][1] != 1 else float(p['n'][0])
        if 's' in p:
            return p['s']
        if 'dt' in p:
            return EPOCH + datetime.timedelta(milliseconds=p['dt'])
        if 'a' in p:
            return cells[p['a']]
        if 'o' in p:
            return cells[p['o']]
        if 'f' in p:
            return fns()[p['f']]
        if 're' in p:
            return REGEXES[p['re']]
        raise ValueError(p)
    for c, obj in zip(spec['heap'], cells):
        if 'arr' in c:
            obj.extend(val(p) for p in c['arr'])
        else:
            for k, p in c['obj']:
                obj[k] = val(p)
    return cells, [val(p) for p in spec['env']], val


def canon_state(env):
    """Python values -> ref-independent graph: containers numbered in first-visit (DFS) order from the variables."""
    ids = {}
    nodes = []

    def val(x):
        if isinstance(x, (list, dict)):
            k = id(x)
            if k not in ids:
                ids[k] = len(ids)
                nodes.append(None)
                n = ids[k]
                if isinstance(x, list):
                    nodes[n] = {'arr': [val(y) for y in x]}
                else:
                    nodes[n] = {'obj': [[key, val(y)] for key, y in x.items()]}
            return {'a' if isinstance(x, list) else 'o': ids[k]}
        return scalar_proto(x)
    return {'env': [val(x) for x in env], 'nodes': nodes}


def canon_model(env, heap):
    """Same canonical form from the model's (env, heap) in protocol form."""
    ids = {}
    nodes = []

    def val(p):
        if isinstance(p, dict) and ('a' in p or 'o' in p):
            r = p['a'] if 'a' in p else p['o']
            if r not in ids:
                ids[r] = len(ids)
                nodes.append(None)
                n = ids[r]
                c = heap[r] if r < len(heap) else {'dangling': r}
                if 'arr' in c:
                    nodes[n] = {'arr': [val(y) for y in c['arr']]}
                elif 'obj' in c:
                    nodes[n] = {'obj': [[k, val(y)] for k, y in c['obj']]}
                else:
                    nodes[n] = c
            return {'a' if 'a' in p else 'o': ids[r]}
        return p
    return {'env': [val(x) for x in env], 'nodes': nodes}


def reaches(x, target):
    """Is container `target` reachable from value x (x itself included)?"""
    seen = set()
    todo = [x]
    while todo:
        y = todo.pop()
        if not isinstance(y, (list, dict)) or id(y) in seen:
            continue
        if y is target:
            return True
        seen.add(id(y))
        todo.extend(y if isinstance(y, list) else y.values())
    return False


# ---------------------------------------------------------------------------------------------------------------------
# The reference: documented contracts as plain list / dict / str operations
# ---------------------------------------------------------------------------------------------------------------------

class Fail(Exception):
    """The documented failure of a call; .value is what the call evaluates to."""

    def __init__(self, value=None):
        super().__init__()
        self.value = value


class Skip(Exception):
    """The reference does not say what the result is (text of floats / datetimes / containers inside arrayJoin)."""


MISSING = object()


def need(cond, value=None):
    if not cond:
        raise Fail(value)


def is_index(x):
    return is_num(x) and x == int(x) and x >= 0


def rtype(x):
    if x is None:
        return 'null'
    if isinstance(x, str):
        return 'string'
    if isinstance(x, bool):
        return 'boolean'
    if is_num(x):
        return 'number'
    if isinstance(x, datetime.date):
        return 'datetime'
    if isinstance(x, dict):
        return 'object'
    if isinstance(x, list):
        return 'array'
    if isinstance(x, REGEX_TYPE):
        return 'regex'
    return 'function'


def ref_truthy(x):
    """The language's truth rules: only null, false, 0, '' and [] are false."""
    t = rtype(x)
    if t == 'null':
        return False
    if t == 'boolean':
        return x
    if t == 'number':
        return x != 0
    if t in ('string', 'array'):
        return len(x) > 0
    return True


def match_pred(v):
    """arrayIndexOf / arrayLastIndexOf: 'the value to find in the array, or a match function, f(value) -> bool' - the returned
    value is a value of the language, read as a boolean the way every other construct of the language reads it."""
    if rtype(v) == 'function':
        i = fn_index(v)
        if i >= NFN:
            raise Skip()
        return lambda el: ref_truthy(FN_REFS[i](el))
    return lambda el: ref_equal(el, v)


def ref_equal(a, b):
    """Equality as the comparison of the language defines it (same type and equal, containers structurally)."""
    ta = rtype(a)
    if ta != rtype(b):
        return False
    if ta == 'array':
        return len(a) == len(b) and all(ref_equal(x, y) for x, y in zip(a, b))
    if ta == 'object':
        return sorted(a) == sorted(b) and all(ref_equal(a[k], b[k]) for k in a)
    if ta in ('function', 'regex', 'null'):
        return True
    return a == b


def ref_string(x):
    t = rtype(x)
    if t == 'null':
        return 'null'
    if t == 'string':
        return x
    if t == 'boolean':
        return 'true' if x else 'false'
    if t == 'number' and x == int(x) and abs(x) < 1e15 and (x != 0 or str(x)[0] != '-'):
        return str(int(x))
    if t == 'function':
        return '<function>'
    if t == 'regex':
        return '<regex>'
    raise Skip()


def _args(args, lo, hi, fail=None):
    """between lo and hi arguments, padded with MISSING"""
    need(lo <= len(args) <= hi, fail)
    return list(args) + [MISSING] * (hi - len(args))


def r_array_copy(args):
    a, = _args(args, 1, 1)
    need(isinstance(a, list))
    return list(a)


def r_array_delete(args):
    a, i = _args(args, 2, 2)
    need(isinstance(a, list) and is_index(i) and i < len(a))
    del a[int(i)]
    return None


def r_array_extend(args):
    a, b = _args(args, 2, 2)
    need(isinstance(a, list) and isinstance(b, list))
    a.extend(list(b))
    return a


def r_array_get(args):
    a, i = _args(args, 2, 2)
    need(isinstance(a, list) and is_index(i) and i < len(a))
    return a[int(i)]


def r_array_index_of(args):
    a, v, i = _args(args, 1, 3, -1)
    need(isinstance(a, list), -1)
    v = None if v is MISSING else v
    i = 0 if i is MISSING else i
    need(is_index(i) and i < len(a), -1)
    pred = match_pred(v)
    for k in range(int(i), len(a)):
        if pred(a[k]):
            return k
    return -1


def r_array_last_index_of(args):
    a, v, i = _args(args, 1, 3, -1)
    need(isinstance(a, list), -1)
    v = None if v is MISSING else v
    if i is MISSING or i is None:
        i = len(a) - 1
    else:
        need(is_index(i) and i < len(a), -1)
    pred = match_pred(v)
    for k in range(int(i), -1, -1):
        if pred(a[k]):
            return k
    return -1


def r_array_join(args):
    a, sep = _args(args, 2, 2)
    need(isinstance(a, list) and isinstance(sep, str))
    return sep.join(ref_string(x) for x in a)


def r_array_length(args):
    a, = _args(args, 1, 1, 0)
    need(isinstance(a, list), 0)
    return len(a)


def r_array_new(args):
    return list(args)


def r_array_new_size(args):
    n, v = _args(args, 0, 2)
    n = 0 if n is MISSING else n
    v = 0 if v is MISSING else v
    need(is_index(n))
    return [v] * int(n)


def r_array_pop(args):
    a, = _args(args, 1, 1)
    need(isinstance(a, list) and len(a) > 0)
    return a.pop()


def r_array_push(args):
    need(len(args) >= 1 and isinstance(args[0], list))
    args[0].extend(args[1:])
    return args[0]


def r_array_set(args):
    a, i, v = _args(args, 2, 3)
    v = None if v is MISSING else v
    need(isinstance(a, list) and is_index(i) and i < len(a))
    a[int(i)] = v
    return v


def r_array_shift(args):
    a, = _args(args, 1, 1)
    need(isinstance(a, list) and len(a) > 0)
    return a.pop(0)


def r_array_slice(args):
    a, s, e = _args(args, 1, 3)
    need(isinstance(a, list))
    s = 0 if s is MISSING else s
    e = len(a) if e is MISSING or e is None else e
    need(is_index(s) and is_index(e) and s <= len(a) and e <= len(a))
    return a[int(s):int(e)]


def r_object_assign(args):
    o, o2 = _args(args, 2, 2)
    need(isinstance(o, dict) and isinstance(o2, dict))
    for k, v in list(o2.items()):
        o[k] = v
    return o


def r_object_copy(args):
    o, = _args(args, 1, 1)
    need(isinstance(o, dict))
    return dict(o)


def r_object_delete(args):
    o, k = _args(args, 2, 2)
    need(isinstance(o, dict) and isinstance(k, str))
    o.pop(k, None)
    return None


def r_object_get(args):
    dflt = args[2] if len(args) >= 3 else None
    o, k, d = _args(args, 2, 3, dflt)
    need(isinstance(o, dict) and isinstance(k, str), dflt)
    return o[k] if k in o else dflt


def r_object_has(args):
    o, k = _args(args, 2, 2, False)
    need(isinstance(o, dict) and isinstance(k, str), False)
    return k in o


def r_object_keys(args):
    o, = _args(args, 1, 1)
    need(isinstance(o, dict))
    return list(o)


def r_object_new(args):
    o = {}
    for i in range(0, len(args), 2):
        need(isinstance(args[i], str))
        o[args[i]] = args[i + 1] if i + 1 < len(args) else None
    return o


def r_object_set(args):
    o, k, v = _args(args, 2, 3)
    v = None if v is MISSING else v
    need(isinstance(o, dict) and isinstance(k, str))
    o[k] = v
    return v


def r_string_char_code_at(args):
    s, i = _args(args, 2, 2)
    need(isinstance(s, str) and is_index(i) and i < len(s))
    return ord(s[int(i)])


def r_string_ends_with(args):
    s, t = _args(args, 2, 2)
    need(isinstance(s, str) and isinstance(t, str))
    return s[len(s) - len(t):] == t if len(t) <= len(s) else False


def r_string_from_char_code(args):
    for c in args:
        need(is_index(c) and c <= 0x10FFFF)
    return ''.join(chr(int(c)) for c in args)


def r_string_index_of(args):
    s, t, i = _args(args, 2, 3, -1)
    i = 0 if i is MISSING else i
    need(isinstance(s, str) and isinstance(t, str) and is_index(i) and i < len(s), -1)
    for k in range(int(i), len(s) - len(t) + 1):
        if s[k:k + len(t)] == t:
            return k
    return -1


def r_string_last_index_of(args):
    s, t, i = _args(args, 2, 3, -1)
    need(isinstance(s, str) and isinstance(t, str), -1)
    if i is MISSING or i is None:
        i = max(len(s) - 1, 0)      # "the end of the string": the last index (0 for the empty string, as String.lastIndexOf clamps)
    else:
        need(is_index(i) and i < len(s), -1)
    for k in range(min(int(i), len(s) - len(t)), -1, -1):
        if s[k:k + len(t)] == t:
            return k
    return -1


def r_string_length(args):
    s, = _args(args, 1, 1, 0)
    need(isinstance(s, str), 0)
    return len(s)


def r_string_lower(args):
    s, = _args(args, 1, 1)
    need(isinstance(s, str))
    return s.lower()


def r_string_upper(args):
    s, = _args(args, 1, 1)
    need(isinstance(s, str))
    return s.upper()


def r_string_repeat(args):
    s, n = _args(args, 2, 2)
    need(isinstance(s, str) and is_index(n))
    return ''.join(s for _ in range(int(n)))


def r_string_replace(args):
    s, a, b = _args(args, 3, 3)
    need(isinstance(s, str) and isinstance(a, str) and isinstance(b, str))
    return s.replace(a, b)


def r_string_slice(args):
    s, b, e = _args(args, 2, 3)
    need(isinstance(s, str))
    e = len(s) if e is MISSING or e is None else e
    need(is_index(b) and is_index(e) and b <= len(s) and e <= len(s))
    return ''.join(s[k] for k in range(int(b), int(e)))


def r_string_split(args):
    s, sep = _args(args, 2, 2)
    need(isinstance(s, str) and isinstance(sep, str) and sep != '')
    return s.split(sep)


def r_string_starts_with(args):
    s, t = _args(args, 2, 2)
    need(isinstance(s, str) and isinstance(t, str))
    return s[:len(t)] == t


def r_string_trim(args):
    s, = _args(args, 1, 1)
    need(isinstance(s, str))
    return s.strip()


def r_regex_escape(args):
    s, = _args(args, 1, 1)
    need(isinstance(s, str))
    return re.escape(s)


def r_url_encode(args):
    s, = _args(args, 1, 1)
    need(isinstance(s, str))
    return urllib.parse.quote(s, safe="':/&+")


def r_url_encode_component(args):
    s, = _args(args, 1, 1)
    need(isinstance(s, str))
    return urllib.parse.quote(s, safe="'")


# name -> (reference, documented parameter kinds, mutator?, returns-a-fresh-container?)
#   parameter kinds: A array, O object, S string, I index, N count, V any, K key(string);  '?' optional, '*' rest
FUNCS = {
    'arrayCopy': (r_array_copy, ['A'], False, True),
    'arrayDelete': (r_array_delete, ['A', 'I'], True, False),
    'arrayExtend': (r_array_extend, ['A', 'A'], True, False),
    'arrayGet': (r_array_get, ['A', 'I'], False, False),
    'arrayIndexOf': (r_array_index_of, ['A', 'V', 'I?'], False, False),
    'arrayJoin': (r_array_join, ['A', 'S'], False, False),
    'arrayLastIndexOf': (r_array_last_index_of, ['A', 'V', 'I?'], False, False),
    'arrayLength': (r_array_length, ['A'], False, False),
    'arrayNew': (r_array_new, ['V*'], False, True),
    'arrayNewSize': (r_array_new_size, ['N?', 'V?'], False, True),
    'arrayPop': (r_array_pop, ['A'], True, False),
    'arrayPush': (r_array_push, ['A', 'V*'], True, False),
    'arraySet': (r_array_set, ['A', 'I', 'V'], True, False),
    'arrayShift': (r_array_shift, ['A'], True, False),
    'arraySlice': (r_array_slice, ['A', 'I?', 'I?'], False, True),
    'objectAssign': (r_object_assign, ['O', 'O'], True, False),
    'objectCopy': (r_object_copy, ['O'], False, True),
    'objectDelete': (r_object_delete, ['O', 'K'], True, False),
    'objectGet': (r_object_get, ['O', 'K', 'V?'], False, False),
    'objectHas': (r_object_has, ['O', 'K'], False, False),
    'objectKeys': (r_object_keys, ['O'], False, True),
    'objectNew': (r_object_new, ['KV*'], False, True),
    'objectSet': (r_object_set, ['O', 'K', 'V'], True, False),
    'stringCharCodeAt': (r_string_char_code_at, ['S', 'I'], False, False),
    'stringEndsWith': (r_string_ends_with, ['S', 'S'], False, False),
    'stringFromCharCode': (r_string_from_char_code, ['C*'], False, False),
    'stringIndexOf': (r_string_index_of, ['S', 'S', 'I?'], False, False),
    'stringLastIndexOf': (r_string_last_index_of, ['S', 'S', 'I?'], False, False),
    'stringLength': (r_string_length, ['S'], False, False),
    'stringLower': (r_string_lower, ['S'], False, False),
    'stringRepeat': (r_string_repeat, ['S', 'N'], False, False),
    'stringReplace': (r_string_replace, ['S', 'S', 'S'], False, False),
    'stringSlice': (r_string_slice, ['S', 'I', 'I?'], False, False),
    'stringSplit': (r_string_split, ['S', 'S'], False, True),
    'stringStartsWith': (r_string_starts_with, ['S', 'S'], False, False),
    'stringTrim': (r_string_trim, ['S'], False, False),
    'stringUpper': (r_string_upper, ['S'], False, False),
    'regexEscape': (r_regex_escape, ['S'], False, False),
    'urlEncode': (r_url_encode, ['S'], False, False),
    'urlEncodeComponent': (r_url_encode_component, ['S'], False, False),
}
FUNC_NAMES = sorted(FUNCS)


def ref_call(name, args):
    """-> ('ok'|'fail'|'skip', value); mutates the (shadow) containers among args."""
    try:
        return 'ok', FUNCS[name][0](list(args))
    except Fail as f:
        return 'fail', f.value
    except Skip:
        return 'skip', None


# ---------------------------------------------------------------------------------------------------------------------
# Script text
# ---------------------------------------------------------------------------------------------------------------------

def lit_text(p, consts):
    """protocol literal -> BareScript expression text (a string that cannot be written as a literal goes to a constant)."""
    if p is None:
        return 'null'
    if p is True:
        return 'true'
    if p is False:
        return 'false'
    if 'n' in p:
        num, den = p['n']
        x = num / den
        txt = f'{x:.1f}' if den == 1 else repr(x)
        if 'e' in txt or 'n' in txt:
            raise ValueError('number literal ' + txt)
        return txt
    if 's' in p:
        s = p['s']
        if '\n' in s or '\r' in s:
            name = f'c{len(consts)}'
            consts[name] = s
            return name
        return "'" + s.replace('\\', '\\\\').replace("'", "\\'") + "'"
    raise ValueError(p)


def script_of(calls, nenv, consts):
    lines = []
    for k, c in enumerate(calls):
        args = [f'v{a["var"]}' if isinstance(a, dict) and 'var' in a else lit_text(a, consts) for a in c['args']]
        lines.append(f'v{nenv + k} = {c["fn"]}({", ".join(args)})')
        lines.append('__snap()')
    return '\n'.join(lines)


# ---------------------------------------------------------------------------------------------------------------------
# Running one history on the three parties
# ---------------------------------------------------------------------------------------------------------------------

def shallow(x):
    """contents of one container, elements by identity (containers) or value (scalars)"""
    def el(y):
        return ('ref', id(y)) if isinstance(y, (list, dict)) else ('val', json.dumps(scalar_proto(y), sort_keys=True))
    return [el(y) for y in x] if isinstance(x, list) else [(k, el(y)) for k, y in x.items()]


def reachable(env):
    out = {}
    todo = list(env)
    while todo:
        y = todo.pop()
        if isinstance(y, (list, dict)) and id(y) not in out:
            out[id(y)] = y
            todo.extend(y if isinstance(y, list) else y.values())
    return out


def run_impl(spec):
    """Execute the history through a script on the implementation (one statement per call, `__snap()` after each).
    -> {'initial': snap, 'steps': [snap...], 'error', 'script', 'keep'}; snap = {'state': canonical state of all variables,
    'objs': {id: shallow contents} of every reachable container, 'env_ids': id per variable, 'res': canonical result, 'res_id'}"""
    impl = fw.impl()
    _, env, _ = build_pool(spec)
    nenv = len(env)
    consts = {}
    text = script_of(spec['calls'], nenv, consts)
    glob = {f'v{i}': v for i, v in enumerate(env)}
    glob.update(consts)
    keep = []      # keeps every container alive so that ids stay unique
    steps = []

    def snapshot(k):
        cur = [glob.get(f'v{i}') for i in range(nenv + k)]
        objs = reachable(cur)
        keep.extend(objs.values())
        res = cur[-1] if cur else None
        return {'state': canon_state(cur), 'objs': {i: shallow(o) for i, o in objs.items()},
                'env_ids': [id(v) if isinstance(v, (list, dict)) else None for v in cur],
                'res': canon_state([res])['env'][0], 'res_id': id(res) if isinstance(res, (list, dict)) else None}

    initial = snapshot(0)

    def snap(unused_args, unused_options):
        steps.append(snapshot(len(steps) + 1))
        return None
    glob['__snap'] = snap
    error = None
    try:
        impl['runtime'].execute_script(impl['parser'].parse_script(text),
                                       {'globals': glob, 'maxStatements': 400 * len(spec['calls']) + 1000})   # call-backs count too
    except Exception as exc:  # pylint: disable=broad-except
        error = f'{type(exc).__name__}: {exc}'
    return {'initial': initial, 'steps': steps, 'error': error, 'script': text, 'keep': keep}


def hints_of(run, ncalls):
    """The implementation's scalar results, given to the driver for calls the model does not cover."""
    out = []
    for k in range(ncalls):
        got = run['steps'][k]['res'] if k < len(run['steps']) else None
        out.append(None if isinstance(got, dict) and ('a' in got or 'o' in got) else got)
    return out


def check_history(spec, model_steps=None, run=None):
    """One history on implementation and reference (and against the model's answer when given).
    -> (witnesses [(oracle, step, expected, actual)], disagreements [(step, impl, model)], info)"""
    witnesses = []
    disagreements = []
    run = run or run_impl(spec)
    isteps = run['steps']
    info = {'script': run['script'], 'unmodelled': 0, 'fails': 0, 'skips': 0}
    if run['error'] is not None or len(isteps) != len(spec['calls']):
        witnesses.append(('no-exception-escapes', len(isteps), 'every call evaluates to a value', run['error'] or 'script stopped early'))
        return witnesses, disagreements, info
    _, renv, val = build_pool(spec)      # the reference's shadow pool (same aliasing)
    renv = list(renv)
    prev = run['initial']
    seen = dict(prev['objs'])            # every container that existed at some point before the current call
    heap = [copy.deepcopy(c) for c in spec['heap']]
    menv = list(spec['env'])
    for k, c in enumerate(spec['calls']):
        ist = isteps[k]
        fn = c['fn']
        args = [(renv[a['var']] if a['var'] < len(renv) else None) if isinstance(a, dict) and 'var' in a else val(a)
                for a in c['args']]
        kind, res = ref_call(fn, args)
        if kind == 'skip':
            info['skips'] += 1
            if isinstance(ist['res'], dict) and ('a' in ist['res'] or 'o' in ist['res']):
                witnesses.append(('reference-result', k, 'a scalar', ist['res']))
                break
            res = build_pool({'heap': [], 'env': [ist['res']]})[1][0]
        if kind == 'fail':
            info['fails'] += 1
        renv.append(res)
        want_state = canon_state(renv)
        found = []
        # 1. result and complete state (deep, aliasing by identity) against the reference
        if ist['state'] != want_state:
            found.append(('reference-state', k, {'call': c, 'kind': kind, 'state': want_state}, ist['state']))
        # 2. frame: only the container passed first to a mutator may change; a failing call changes nothing
        mutator = FUNCS[fn][2]
        first = c['args'][0] if c['args'] else None
        target = None
        if mutator and isinstance(first, dict) and 'var' in first and first['var'] < len(prev['env_ids']):
            target = prev['env_ids'][first['var']]
        changed = [i for i, sh in prev['objs'].items() if i in ist['objs'] and ist['objs'][i] != sh]
        if kind == 'fail' and changed:
            found.append(('failure-leaves-arguments-unchanged', k, {'call': c, 'changed': 0}, {'changed': len(changed)}))
        if [i for i in changed if i != target]:
            found.append(('frame', k, {'call': c, 'changed': 'at most the first argument'},
                          {'changed': len(changed), 'first-argument-among-them': target in changed}))
        if ist['env_ids'][:len(prev['env_ids'])] != prev['env_ids']:
            found.append(('identity-kept', k, {'call': c}, 'a variable was rebound'))
        # 3. freshness: a returned copy / slice / new container is not a container that existed before the call
        if FUNCS[fn][3] and kind == 'ok' and (ist['res_id'] is None or ist['res_id'] in seen):
            found.append(('fresh-result', k, {'call': c, 'fresh': True}, {'fresh': False}))
        seen.update(ist['objs'])
        prev = ist
        witnesses.extend(found)
        # 4. the model
        if model_steps is not None:
            ms = model_steps[k] if k < len(model_steps) else {'bad': 'missing step'}
            if 'bad' in ms:
                disagreements.append((k, ist['state'], ms))
                break
            for idx, cell in ms['d']:
                while len(heap) <= idx:
                    heap.append(None)
                heap[idx] = cell
            menv.append(ms['v'])
            if ms['r'] == 'unmodelled':
                info['unmodelled'] += 1
            mstate = canon_model(menv, heap)
            ikind = 'fail' if kind == 'fail' else 'ok'
            if mstate != ist['state'] or (ms['r'] != 'unmodelled' and kind != 'skip' and ms['r'] != ikind):
                disagreements.append((k, {'kind': ikind, 'state': ist['state']}, {'kind': ms['r'], 'state': mstate}))
                break
        if found:
            break
    return witnesses, disagreements, info


# ---------------------------------------------------------------------------------------------------------------------
# Generators
# ---------------------------------------------------------------------------------------------------------------------

ALPHABET = ['a', 'b', 'c', 'A', 'B', ' ', ',', '.', '-', '/', '%', "'", '"', '\\', '*', '(', '\t', '\n', '\u20ac', '\u65e5', '\U0001f600', '\u00a0']
WIDE = ALPHABET + ['\u00e9', '\u00c9', '\u00df', '+', '?', '[', ']', '{', '}', '|', '^', '$', '#', '&', '~', ':', '=', '\x00', '\x7f', '\u0130', '\u2003']
KEYS = ['a', 'b', 'k', '', 'key', '\u20ac']
DTS = [0, 1577836800000]


def rand_string(rng, alphabet=None, maxlen=6):
    alphabet = alphabet or ALPHABET
    return ''.join(rng.choice(alphabet) for _ in range(rng.choice([0, 1, 1, 2, 3, 3, maxlen])))


def rand_scalar(rng):
    k = rng.randrange(8)
    if k == 0:
        return None
    if k == 1:
        return rng.random() < 0.5
    if k in (2, 3):
        return {'n': [rng.randint(-3, 9), 1]}
    if k == 4:
        return {'n': [rng.choice([1, 3, 5, -1, 7]), rng.choice([2, 4])]}
    return {'s': rand_string(rng)}


def rand_pool(rng):
    """An acyclic pool with aliases: cells may refer to earlier cells; several variables share one container."""
    ncell = rng.randint(2, 6)
    heap = []
    for r in range(ncell):
        def elem():
            if r > 0 and rng.random() < 0.25:
                t = rng.randrange(r)
                return {'a' if 'arr' in heap[t] else 'o': t}
            return rand_scalar(rng)
        if rng.random() < 0.6:
            heap.append({'arr': [elem() for _ in range(rng.choice([0, 1, 2, 3, 3, 4, 5]))]})
        else:
            keys = rng.sample(KEYS, rng.randint(0, 4))
            heap.append({'obj': [[k, elem()] for k in keys]})
    env = []
    for r, c in enumerate(heap):
        for _ in range(rng.choice([1, 1, 2, 2, 3])):
            env.append({'a' if 'arr' in c else 'o': r})
    env += [{'s': rand_string(rng)}, {'s': rand_string(rng)}, {'n': [rng.randint(0, 4), 1]}, None, True,
            {'dt': rng.choice(DTS)}, {'f': rng.randrange(2)}, {'re': rng.randrange(2)}]
    env += [{'f': rng.randrange(NFN)} for _ in range(rng.choice([0, 1, 2, 3]))]      # call-backs: script-defined and host functions
    rng.shuffle(env)
    return {'heap': heap, 'env': env}


class Gen:
    """Online generator: keeps a reference pool to know lengths, keys and what would create a cycle."""

    def __init__(self, rng, spec, p_bad=0.08):
        self.rng = rng
        self.spec = spec
        self.p_bad = p_bad
        _, env, self.val = build_pool(spec)
        self.env = list(env)

    def vars_of(self, pred):
        return [i for i, v in enumerate(self.env) if pred(v)]

    def pick_var(self, pred):
        c = self.vars_of(pred)
        return {'var': self.rng.choice(c)} if c else None

    def any_value(self, avoid_target=None, scalar_bias=0.6):
        rng = self.rng
        if rng.random() < scalar_bias:
            return rand_scalar(rng)
        c = [i for i, v in enumerate(self.env) if avoid_target is None or not reaches(v, avoid_target)]
        return {'var': rng.choice(c)} if c else rand_scalar(rng)

    def wrong(self, kind):
        """a value of a type the parameter kind does not accept"""
        rng = self.rng
        accept = {'A': 'array', 'O': 'object', 'S': 'string', 'K': 'string', 'I': 'number', 'N': 'number', 'C': 'number'}.get(kind[0])
        types = [t for t in ('null', 'boolean', 'number', 'string', 'datetime', 'array', 'object', 'function', 'regex') if t != accept]
        t = rng.choice(types)
        if t == 'null':
            return None
        if t == 'boolean':
            return rng.random() < 0.5
        if t == 'number':
            return {'n': [rng.randint(0, 3), 1]}
        if t == 'string':
            return {'s': rand_string(rng)}
        v = self.pick_var(lambda x: rtype(x) == t)
        return v if v is not None else None

    def index_for(self, length):
        """indices from -2 .. len+2, mostly in range, sometimes fractional"""
        rng = self.rng
        r = rng.random()
        if r < 0.7 and length > 0:
            return {'n': [rng.randrange(length), 1]}
        if r < 0.93:
            return {'n': [rng.randint(-2, length + 2), 1]}
        return {'n': [2 * rng.randint(-1, length + 1) + 1, 2]}

    def value_of(self, a):
        if isinstance(a, dict) and 'var' in a:
            return self.env[a['var']] if a['var'] < len(self.env) else None
        return self.val(a)

    def gen_call(self):
        rng = self.rng
        fn = rng.choice(FUNC_NAMES)
        kinds = FUNCS[fn][1]
        args = []
        first = None
        for pos, kind in enumerate(kinds):
            opt = kind.endswith('?')
            base = kind[0]
            if kind.endswith('*'):
                n = rng.choice([0, 1, 1, 2, 3])
                for j in range(n):
                    if kind == 'KV*':
                        args.append({'s': rng.choice(KEYS)} if rng.random() > self.p_bad / 2 else self.wrong('K'))
                        if j < n - 1 or rng.random() < 0.8:
                            args.append(self.any_value())
                    elif kind == 'C*':
                        args.append({'n': [rng.choice([97, 98, 32, 10, 0x20ac, 0x1f600, 65, 0, 0x10ffff]), 1]} if rng.random() > self.p_bad
                                    else rng.choice([{'n': [-1, 1]}, {'n': [3, 2]}, {'n': [0x110000, 1]}, None, {'s': 'a'}, True]))
                    else:
                        args.append(self.any_value(avoid_target=first))
                break
            if opt and rng.random() < 0.35:
                break
            if rng.random() < self.p_bad:
                args.append(self.wrong(kind))
                continue
            if base == 'A':
                v = self.pick_var(lambda x: isinstance(x, list) and (first is None or fn != 'arrayExtend' or not any(reaches(y, first) for y in x)))
                args.append(v if v is not None else self.wrong('A'))
            elif base == 'O':
                v = self.pick_var(lambda x: isinstance(x, dict) and (first is None or not any(reaches(y, first) for y in x.values())))
                args.append(v if v is not None else self.wrong('O'))
            elif base == 'S':
                if rng.random() < 0.4:
                    v = self.pick_var(lambda x: isinstance(x, str))
                    args.append(v if v is not None else {'s': rand_string(rng)})
                elif pos > 0 and isinstance(first, str) and first and rng.random() < 0.6:
                    i = rng.randrange(len(first))
                    args.append({'s': first[i:i + rng.choice([0, 1, 1, 2])]})
                else:
                    args.append({'s': rand_string(rng)})
            elif base == 'K':
                keys = list(first) if isinstance(first, dict) else []
                args.append({'s': rng.choice(keys)} if keys and rng.random() < 0.6 else {'s': rng.choice(KEYS)})
            elif base == 'I':
                length = len(first) if isinstance(first, (list, str)) else 3
                if opt and rng.random() < 0.1:
                    args.append(None)
                else:
                    args.append(self.index_for(length))
            elif base == 'N':
                args.append({'n': [rng.choice([0, 1, 2, 3, 3, -1]), 1]} if rng.random() < 0.9 else {'n': [3, 2]})
            elif base == 'V':
                if fn in ('arrayIndexOf', 'arrayLastIndexOf') and rng.random() < 0.3 and self.vars_of(callable):
                    args.append(self.pick_var(callable))             # the match-function form
                elif fn in ('arrayIndexOf', 'arrayLastIndexOf') and isinstance(first, list) and first and rng.random() < 0.7:
                    el = rng.choice(first)
                    if isinstance(el, (list, dict)) or rtype(el) in ('function', 'regex', 'datetime'):
                        v = self.pick_var(lambda x: x is el)
                        args.append(v if v is not None else rand_scalar(rng))
                    else:
                        args.append(scalar_proto(el))
                else:
                    args.append(self.any_value(avoid_target=first if FUNCS[fn][2] else None))
            if pos == 0:
                first = self.value_of(args[0])
        r = rng.random()
        if r < 0.04 and args:
            args = args[:-1]
        elif r < 0.08:
            args = args + [self.any_value(avoid_target=first if FUNCS[fn][2] else None)]
        # never build a cycle (F18) and keep text / numbers small enough for exact modelling
        vals = [self.value_of(a) for a in args]
        if FUNCS[fn][2] and vals and isinstance(vals[0], (list, dict)):
            others = vals[1:]
            if fn == 'arrayExtend' and len(vals) > 1 and isinstance(vals[1], list):
                others = list(vals[1])
            if fn == 'objectAssign' and len(vals) > 1 and isinstance(vals[1], dict):
                others = list(vals[1].values())
            if any(reaches(o, vals[0]) for o in others):
                return None
        if fn == 'stringRepeat' and isinstance(vals[0] if vals else None, str) and len(vals[0]) > 40:
            return None
        if fn in ('arrayExtend', 'arrayPush', 'arrayNew', 'arrayNewSize') and any(isinstance(v, list) and len(v) > 40 for v in vals):
            return None
        call = {'fn': fn, 'args': args}
        _, res = ref_call(fn, vals)
        if isinstance(res, str) and len(res) > 200:
            res = res[:200]   # the reference value is only used for generation here
        self.env.append(res)
        return call


def gen_history(rng, maxlen=30, p_bad=0.08):
    spec = rand_pool(rng)
    g = Gen(rng, spec, p_bad)
    calls = []
    n = rng.randint(1, maxlen)
    tries = 0
    while len(calls) < n and tries < 4 * maxlen:
        tries += 1
        c = g.gen_call()
        if c is not None:
            calls.append(c)
    spec['calls'] = calls
    return spec


TYPE_SAMPLES = [('null', None), ('boolean', True), ('number', {'n': [1, 1]}), ('string', {'s': 'a'}), ('datetime', {'var': 4}),
                ('array', {'var': 0}), ('object', {'var': 1}), ('function', {'var': 5}), ('regex', {'var': 6}),
                ('fraction', {'n': [1, 2]}), ('negative', {'n': [-1, 1]}), ('script-function', {'var': 8})]
ARGS_POOL = {'heap': [{'arr': [{'n': [1, 1]}, {'s': 'x'}, None]}, {'obj': [['a', {'n': [1, 1]}], ['b', {'a': 0}]]}, {'arr': []}, {'obj': []}],
             'env': [{'a': 0}, {'o': 1}, {'a': 2}, {'o': 3}, {'dt': 0}, {'f': 0}, {'re': 0}, {'s': 'abcabc'}, {'f': FN_NAMES.index('mWrapObj')}]}
VALID = {'A': {'var': 0}, 'O': {'var': 1}, 'S': {'s': 'abcabc'}, 'K': {'s': 'a'}, 'I': {'n': [1, 1]}, 'N': {'n': [2, 1]}, 'V': {'s': 'x'},
         'C': {'n': [97, 1]}}


def args_cases():
    """every function x every parameter position x every type (others valid) + missing + surplus arguments"""
    for fn in FUNC_NAMES:
        kinds = FUNCS[fn][1]
        base = []
        for kind in kinds:
            if kind == 'KV*':
                base += [{'s': 'k'}, {'n': [1, 1]}]
            elif kind.endswith('*'):
                base += [VALID[kind[0]]]
            else:
                base.append(VALID[kind[0]])
        yield fn, 'valid', base
        for pos in range(len(base)):
            for tname, sample in TYPE_SAMPLES:
                yield fn, f'arg{pos}:{tname}', base[:pos] + [sample] + base[pos + 1:]
        for n in range(len(base)):
            yield fn, f'missing:{len(base) - n}', base[:n]
        yield fn, 'surplus:1', base + [None]
        yield fn, 'surplus:2', base + [{'n': [0, 1]}, {'s': 'z'}]


# ---------------------------------------------------------------------------------------------------------------------
# Streams
# ---------------------------------------------------------------------------------------------------------------------

def load_corpus():
    path = os.path.join(fw.VERIF, 'harness', 'corpus', 'C15.jsonl')
    out = []
    if os.path.exists(path):
        with open(path, encoding='utf-8') as fh:
            for ln in fh:
                ln = ln.strip()
                if ln and not ln.startswith('#'):
                    spec = json.loads(ln)
                    for v in spec['env']:      # function values may be written by name: {"f": "mGetA"} / {"f": "host:mGetA"}
                        if isinstance(v, dict) and isinstance(v.get('f'), str):
                            v['f'] = fn_id(v['f'])
                    out.append(spec)
    return out


def run_batch(ctx, stream, st, specs, tags_of):
    reqs = []
    runs = []
    for spec in specs:
        run = run_impl(spec)
        runs.append(run)
        calls = []
        for c, h in zip(spec['calls'], hints_of(run, len(spec['calls']))):
            cc = {'fn': c['fn'], 'args': c['args']}
            if h is not None:
                cc['hint'] = h
            calls.append(cc)
        reqs.append({'op': 'history', 'heap': spec['heap'], 'env': spec['env'], 'calls': calls})
    resps = ctx.driver.batch(reqs)
    answered = []
    for spec, resp, run in zip(specs, resps, runs):
        answered.append((spec, resp.get('steps', [{'bad': resp}])))
        wit, dis, info = check_history(spec, resp.get('steps', [{'bad': resp}]), run)
        nontrivial, tags = tags_of(spec, info)
        st.case({'heap': spec['heap'], 'env': spec['env'], 'calls': spec['calls']}, nontrivial=nontrivial, tags=tags)
        for oracle, k, want, got in wit:
            ctx.witness(oracle, {'spec': spec, 'step': k, 'script': info['script']}, want, got)
        if dis:
            k, impl, model = dis[0]
            ctx.compare(stream, {'spec': spec, 'step': k, 'script': info['script']}, impl, model)
        else:
            ctx.compare(stream, None, 0, 0)
    return answered


def stream_lib(ctx):
    st = ctx.stream('lib', 'histories of <=30 library calls (array*/object*/string*/regexEscape/urlEncode*) issued from a script on a pool of '
                           'aliased, nested containers (plus up to 3 script-defined / host call-back functions, used as match function in ~30% of the '
                           'arrayIndexOf / arrayLastIndexOf calls); indices -2..len+2 as float literals, ~8% of the arguments wrong-typed, ~8% of the calls with a missing / surplus argument; '
                           'after every call: result, complete state with aliasing, frame, freshness against reference and model; '
                           'non-trivial = at least 3 calls of which one mutates a container that has an alias')
    rng = ctx.rng('lib')
    specs = load_corpus() + [gen_history(rng) for _ in range(ctx.scale(2500, 24000))]

    def tags_of(spec, info):
        tags = [f'len{min(len(spec["calls"]) // 5 * 5, 30)}']
        tags += ['fn:' + c['fn'] for c in spec['calls']]
        tags += ['unmodelled'] * info['unmodelled'] + ['failing-call'] * info['fails'] + ['ok-call'] * (len(spec['calls']) - info['fails'])
        return len(spec['calls']) >= 3 and any(FUNCS[c['fn']][2] for c in spec['calls']), tags
    answered = []
    for i in range(0, len(specs), 400):
        answered += run_batch(ctx, 'lib', st, specs[i:i + 400], tags_of)
    return answered


# ---------------------------------------------------------------------------------------------------------------------
# The same histories through the MACHINE: script text -> parse_script -> execute_script  vs  drv_hostlib "exec"
# ---------------------------------------------------------------------------------------------------------------------

def machine_script(calls, nenv, consts):
    """`v<k> = f(args...)` + a log line with the type of the result after every call; the script returns the last result."""
    lines = []
    for k, c in enumerate(calls):
        args = [f'v{a["var"]}' if isinstance(a, dict) and 'var' in a else lit_text(a, consts) for a in c['args']]
        lines.append(f'v{nenv + k} = {c["fn"]}({", ".join(args)})')
        lines.append(f'systemLog(systemType(v{nenv + k}))')
    lines.append(f'return v{nenv + len(calls) - 1}')
    return '\n'.join(lines)


def run_impl_machine(spec, text, consts, nvars):
    """execute the script on the implementation -> {'state': canonical graph of v0..v<nvars-1> and the result, 'log', 'count'} | {'error'}"""
    impl = fw.impl()
    _, env, _ = build_pool(spec)
    glob = {f'v{i}': v for i, v in enumerate(env)}
    glob.update(consts)
    log = []
    options = {'globals': glob, 'maxStatements': 10 * len(spec['calls']) + 100, 'logFn': log.append}
    try:
        model = impl['parser'].parse_script(text)
        result = impl['runtime'].execute_script(model, options)
    except Exception as exc:  # pylint: disable=broad-except
        return None, {'error': f'{type(exc).__name__}: {exc}'}
    return model, {'state': canon_state([glob.get(f'v{i}') for i in range(nvars)] + [result]), 'log': log,
                   'count': options.get('statementCount')}


def modelled_prefix(spec, steps):
    """the longest prefix of the history every call of which the Lean library model covers (drv_c15's answer)"""
    k = 0
    while k < len(spec['calls']) and k < len(steps) and steps[k].get('r') in ('ok', 'fail'):
        k += 1
    return k


def stream_lib_through_machine(ctx, answered):
    st = ctx.stream('lib-through-machine',
                    'the histories of the lib stream, cut before the first call the library model does not cover, rendered as script text '
                    '(v<k> = f(args...); systemLog(systemType(v<k>)); ... return v<last>), parsed and executed by the implementation AND by '
                    'the Lean jump machine over HostLib.hostLib (drv_hostlib op "exec" on the parsed model, initial pool with its aliasing): '
                    'result, every variable and the whole heap by reference, log, statement count must agree; '
                    'non-trivial = at least 3 calls of which one mutates a container')
    drv = fw.Driver('drv_hostlib')
    todo = []
    for spec, steps in answered:
        k = modelled_prefix(spec, steps)
        if k == 0:
            continue
        cut = {'heap': spec['heap'], 'env': spec['env'], 'calls': spec['calls'][:k]}
        consts = {}
        nenv = len(cut['env'])
        text = machine_script(cut['calls'], nenv, consts)
        model, impl_out = run_impl_machine(cut, text, consts, nenv + k)
        todo.append((cut, text, consts, model, impl_out, k < len(spec['calls'])))
    reqs = []
    for cut, text, consts, model, impl_out, _ in todo:
        nenv = len(cut['env'])
        if model is None:
            reqs.append({'op': 'none'})
            continue
        reqs.append({'op': 'exec', 'script': progen.canon_script(model),
                     'pool': {'heap': cut['heap'], 'env': [[f'v{i}', p] for i, p in enumerate(cut['env'])]},
                     'globals': [[name, text_] for name, text_ in consts.items()],
                     'observe': [f'v{i}' for i in range(nenv + len(cut['calls']))],
                     'max': 10 * len(cut['calls']) + 100, 'fuel': 100000})
    resps = []
    for i in range(0, len(reqs), 400):
        resps += drv.batch(reqs[i:i + 400])
    ctx.driver.requests += drv.requests
    for (cut, text, consts, model, impl_out, was_cut), resp in zip(todo, resps):
        calls = cut['calls']
        tags = [f'len{min(len(calls) // 5 * 5, 30)}'] + (['cut-at-unmodelled'] if was_cut else ['whole-history'])
        tags += ['fn:' + c['fn'] for c in calls]
        st.case({'heap': cut['heap'], 'env': cut['env'], 'calls': calls},
                nontrivial=len(calls) >= 3 and any(FUNCS[c['fn']][2] for c in calls), tags=tags)
        if 'state' in resp and 'error' not in resp:
            mstate = resp['state']
            model_out = {'state': canon_model(mstate['env'], mstate['heap']), 'log': resp.get('log'), 'count': resp.get('count')}
        else:
            model_out = {k: v for k, v in resp.items() if k in ('error', 'bad', 'oof')} or {'bad': resp}
        ctx.compare('lib-through-machine', {'spec': cut, 'script': text}, impl_out, model_out)


def stream_args(ctx):
    st = ctx.stream('args', 'every function x every parameter position x every value type (null, boolean, number, string, datetime, array, '
                            'object, host function, script-defined function, regex, fractional, negative) + missing + surplus arguments on a fixed pool: documented failure '
                            'value, nothing changes, no exception escapes; non-trivial = the call fails')
    specs = []
    labels = []
    for fn, label, args in args_cases():
        spec = copy.deepcopy(ARGS_POOL)
        spec['calls'] = [{'fn': fn, 'args': args}]
        specs.append(spec)
        labels.append(label)
    it = iter(labels)

    def tags_of(spec, info):
        label = next(it)
        return info['fails'] > 0, [label.split(':')[0] if label.startswith(('missing', 'surplus')) else label.split(':')[-1],
                                   'fails' if info['fails'] else 'succeeds']
    run_batch(ctx, 'args', st, specs, tags_of)
    st.exhaustive = True


def text_oracles(ctx):
    """regexEscape(s) matches exactly s; URL encoding is reversible - on the implementation, through scripts."""
    impl = fw.impl()
    st = ctx.stream('text', 'random strings over ASCII incl. every regex metacharacter, controls, cased and caseless non-ASCII, non-BMP: '
                            're.fullmatch(regexEscape(s), t) <=> t == s for t = s and near misses; unquote(urlEncode*(s)) == s; model agrees; '
                            'non-trivial = the string contains a character that has to be escaped')
    rng = ctx.rng('text')
    strings = ['', '.', 'a.c', '\\', '\\d', '[a]', 'a|b', '(', '^$', '\n', ' ', '#', 'é', 'a b&c=d/e?f', '%41', '100%', "it's", '\U0001f600']
    strings += [rand_string(rng, WIDE, 10) for _ in range(ctx.scale(3000, 40000))]
    script = impl['parser'].parse_script('e = regexEscape(s)\nu = urlEncode(s)\nc = urlEncodeComponent(s)')
    reqs = []
    for s in strings:
        reqs.append({'op': 'history', 'heap': [], 'env': [{'s': s}], 'calls': [
            {'fn': 'regexEscape', 'args': [{'var': 0}]}, {'fn': 'urlEncode', 'args': [{'var': 0}]}, {'fn': 'urlEncodeComponent', 'args': [{'var': 0}]}]})
    resps = ctx.driver.batch(reqs)
    for s, resp in zip(strings, resps):
        glob = {'s': s}
        try:
            impl['runtime'].execute_script(script, {'globals': glob, 'maxStatements': 100})
            got = [glob.get('e'), glob.get('u'), glob.get('c')]
        except Exception as exc:  # pylint: disable=broad-except
            ctx.witness('no-exception-escapes', {'s': s}, 'three strings', f'{type(exc).__name__}: {exc}')
            continue
        st.case(s, nontrivial=any(not (ch.isalnum() and ch.isascii()) for ch in s), tags=[f'len{min(len(s), 10)}'])
        bad = text_failures(s, got, rng)
        for oracle, want, actual in bad:
            ctx.witness(oracle, {'s': s}, want, actual)
        model = [stp.get('v') for stp in resp.get('steps', [])]
        ctx.compare('text', {'s': s}, [scalar_proto(x) for x in got], model)


def near_misses(s, rng):
    out = [s + 'x', 'x' + s, s + s if s else 'a', s[:-1], s[1:], s.swapcase(), s + '\n', s.replace('.', 'x'), s.replace('\\', '')]
    if s:
        i = rng.randrange(len(s))
        out.append(s[:i] + rng.choice(WIDE) + s[i + 1:])
        out.append(s[:i] + s[i + 1:])
    return [t for t in out if t != s]


def text_failures(s, got, rng):
    bad = []
    e, u, c = got
    if not isinstance(e, str):
        bad.append(('regexEscape-matches-exactly', 'a pattern', e))
    else:
        try:
            if re.fullmatch(e, s) is None:
                bad.append(('regexEscape-matches-exactly', {'matches': s}, {'pattern': e, 'matches': False}))
            for t in near_misses(s, rng):
                if re.fullmatch(e, t) is not None:
                    bad.append(('regexEscape-matches-exactly', {'rejects': t}, {'pattern': e, 'matches': True}))
                    break
        except re.error as exc:
            bad.append(('regexEscape-matches-exactly', 'a valid pattern', f'{e!r}: {exc}'))
    for name, enc in (('urlEncode', u), ('urlEncodeComponent', c)):
        if not isinstance(enc, str) or urllib.parse.unquote(enc) != s:
            bad.append((name + '-reversible', s, enc))
        elif not all(ch.isascii() and (ch.isalnum() or ch in "-_.~%':/&+") for ch in enc):
            bad.append((name + '-ascii-only', 'unreserved / safe / %XX only', enc))
    return bad


def index_cases():
    """every index-taking function x container length 0..3 x every index -2..len+2 (integral and half-way) - and every pair
    of them for the two slices; the container has an alias and a copy so that frame and freshness are exercised"""
    for length in range(4):
        elems = [{'n': [10 + i, 1]} for i in range(length)]
        text = 'abca'[:length]
        idxs = [{'n': [i, 1]} for i in range(-2, length + 3)] + [{'n': [2 * i + 1, 2]} for i in range(-1, length + 1)]
        pool = {'heap': [{'arr': elems}, {'arr': list(elems)}], 'env': [{'a': 0}, {'a': 0}, {'a': 1}, {'s': text}]}
        for ix in idxs:
            for fn, args in (('arrayGet', [{'var': 0}, ix]), ('arraySet', [{'var': 0}, ix, {'s': 'z'}]), ('arrayDelete', [{'var': 0}, ix]),
                             ('arrayIndexOf', [{'var': 0}, {'n': [10 + max(length - 1, 0), 1]}, ix]),
                             ('arrayLastIndexOf', [{'var': 0}, {'n': [10, 1]}, ix]), ('arrayNewSize', [ix, {'var': 0}]),
                             ('arraySlice', [{'var': 0}, ix]), ('stringCharCodeAt', [{'var': 3}, ix]),
                             ('stringIndexOf', [{'var': 3}, {'s': 'a'}, ix]), ('stringIndexOf', [{'var': 3}, {'s': ''}, ix]),
                             ('stringLastIndexOf', [{'var': 3}, {'s': 'a'}, ix]), ('stringLastIndexOf', [{'var': 3}, {'s': ''}, ix]),
                             ('stringLastIndexOf', [{'var': 3}, {'s': 'bc'}, ix]),
                             ('stringRepeat', [{'var': 3}, ix]), ('stringSlice', [{'var': 3}, ix])):
                yield pool, fn, args
            for jx in idxs + [None]:
                yield pool, 'arraySlice', [{'var': 0}, ix, jx]
                yield pool, 'stringSlice', [{'var': 3}, ix, jx]


def stream_index(ctx):
    st = ctx.stream('index', 'every index-taking function x length 0..3 x every index -2..len+2 written as a float literal (integral and '
                             'x.5), every (start, end) pair for the slices, on an array with an alias and a copy; non-trivial = all')
    specs = []
    for pool, fn, args in index_cases():
        spec = copy.deepcopy(pool)
        spec['calls'] = [{'fn': fn, 'args': args}, {'fn': 'arrayLength', 'args': [{'var': 1}]}, {'fn': 'arrayLength', 'args': [{'var': 2}]}]
        specs.append(spec)
    run_batch(ctx, 'index', st, specs, lambda spec, info: (True, ['fn:' + spec['calls'][0]['fn'], 'fails' if info['fails'] else 'succeeds']))
    st.exhaustive = True


# ---------------------------------------------------------------------------------------------------------------------
# Call-backs: the match-function form of arrayIndexOf / arrayLastIndexOf over every class of returned value
# ---------------------------------------------------------------------------------------------------------------------

# elements, one (or more) per value class and per class of member "a" (what mGetA / mKeys / mObjCopy ... return for them)
CB_HEAP = [{'arr': []}, {'arr': [{'n': [0, 1]}]}, {'obj': []}, {'obj': [['a', None]]}, {'obj': [['a', {'o': 2}]]}, {'obj': [['a', {'a': 0}]]},
           {'obj': [['a', {'n': [0, 1]}]]}, {'obj': [['a', {'s': ''}]]}, {'obj': [['a', {'n': [1, 1]}]]}, {'obj': [['a', {'s': 'x'}]]},
           {'obj': [['a', {'a': 1}]]}, {'obj': [['a', {'o': 8}]]}, {'obj': [['b', {'n': [1, 1]}]]}, {'obj': [['a', False]]},
           {'arr': [{'a': 0}]}, {'obj': [['a', {'o': 12}], ['', None]]}]
CB_ELEMS = [None, False, True, {'n': [0, 1]}, {'n': [1, 1]}, {'n': [2, 1]}, {'n': [-1, 1]}, {'n': [1, 2]}, {'s': ''}, {'s': 'a'}, {'s': ' '},
            {'s': '0'}, {'dt': 0}, {'f': 0}, {'re': 0}] + [{'a' if 'arr' in c else 'o': r} for r, c in enumerate(CB_HEAP)]
CB_FNS = ('arrayIndexOf', 'arrayLastIndexOf')


def cb_spec(elems, fn_ids):
    """pool: the array under test (two variables) and a copy of it, the given function values; -> (spec, index of the first function variable)"""
    n = len(CB_HEAP)
    spec = {'heap': copy.deepcopy(CB_HEAP) + [{'arr': list(elems)}, {'arr': list(elems)}],
            'env': [{'a': n}, {'a': n}, {'a': n + 1}] + [{'f': i} for i in fn_ids], 'calls': []}
    return spec, 3


def callback_specs(rng, nrandom):
    # 1. every function x every element class as the only element (the decisive one) x both searches, without / with a start index
    #    (histories of 8 functions each: the snapshot after every call is linear in the number of variables)
    for e in CB_ELEMS:
        for lo in range(0, NFN, 8):
            ids = list(range(lo, min(lo + 8, NFN)))
            spec, f0 = cb_spec([e], ids)
            for j, i in enumerate(ids):
                for fn in CB_FNS:
                    spec['calls'].append({'fn': fn, 'args': [{'var': 0}, {'var': f0 + j}]})
                spec['calls'].append({'fn': CB_FNS[i % 2], 'args': [{'var': 1}, {'var': f0 + j}, {'n': [0, 1]}]})
            spec['calls'] += [{'fn': 'arrayLength', 'args': [{'var': 1}]}, {'fn': 'arrayLength', 'args': [{'var': 2}]}]
            yield 'single', spec
    # 2. arrays of 2..6 elements: first / last match, start index in and out of range, null (= from the end), fractional
    for _ in range(nrandom):
        elems = [rng.choice(CB_ELEMS) for _ in range(rng.choice([2, 2, 3, 3, 4, 5, 6]))]
        ids = [rng.randrange(NFN) for _ in range(4)]
        spec, f0 = cb_spec(elems, ids)
        for _ in range(12):
            args = [{'var': rng.randrange(2)}, {'var': f0 + rng.randrange(len(ids))}]
            r = rng.random()
            if r < 0.45:
                args.append({'n': [rng.randrange(len(elems)), 1]})
            elif r < 0.55:
                args.append(rng.choice([None, {'n': [len(elems), 1]}, {'n': [-1, 1]}, {'n': [1, 2]}, {'s': '0'}]))
            spec['calls'].append({'fn': rng.choice(CB_FNS), 'args': args})
        yield 'random', spec


def stream_callbacks(ctx):
    st = ctx.stream('callbacks',
                    f'match-function form of arrayIndexOf / arrayLastIndexOf: {len(MATCHERS)} script-defined functions (constant and '
                    f'element-dependent results of every value class: null, booleans, 0 / non-zero / fractional numbers, empty / non-empty '
                    f'strings, arrays, objects, datetime, regex; 0-, 1-, 2-parameter and rest-parameter functions), their host twins and '
                    f'{len(HOST_ONLY)} host-only results (host ints, -0, function values) x every element class as the decisive element '
                    f'(exhaustive) + random arrays of 2..6 elements with start indices; result = first / last index whose returned value is '
                    f'true by the language\'s rules, nothing changes; non-trivial = all')
    rng = ctx.rng('callbacks')
    kinds = []
    specs = []
    for kind, spec in callback_specs(rng, ctx.scale(400, 6000)):
        kinds.append(kind)
        specs.append(spec)
    it = iter(kinds)

    def tags_of(spec, info):
        tags = [next(it)]
        for c in spec['calls']:
            if len(c['args']) > 1 and isinstance(c['args'][1], dict) and 'var' in c['args'][1]:
                f = spec['env'][c['args'][1]['var']]
                if isinstance(f, dict) and 'f' in f:
                    tags.append('cb:' + FN_NAMES[f['f']])
        return True, tags
    for i in range(0, len(specs), 400):
        run_batch(ctx, 'callbacks', st, specs[i:i + 400], tags_of)


# ---------------------------------------------------------------------------------------------------------------------
# arraySort: the third call-back taking function (outside the Lean model - an oracle on the implementation only).
# The ORDER itself is the subject of C11; here: the sequence contract of a sort - in place, the passed array is returned,
# a permutation (by identity) of its elements, adjacent elements in order by the compare function (a script-defined or host
# call-back returning negative / zero / positive numbers, fractional ones included) or, without one, by the language's comparison;
# no element is touched; a failing call (not an array, compare function of a wrong type, surplus argument) returns null and
# leaves the order alone.  Stability is NOT demanded (the contract does not state it): ties may come out in any order.
# ---------------------------------------------------------------------------------------------------------------------

def ref_compare(a, b):
    """The language's comparison: null first, same types by value (arrays / sorted key-value lists lexicographically),
    different types by type name, functions / regexes of the same type equal."""
    if a is None or b is None:
        return (a is not None) - (b is not None)
    ta, tb = rtype(a), rtype(b)
    if ta != tb:
        return (ta > tb) - (ta < tb)
    if ta in ('string', 'boolean', 'number', 'datetime'):
        return (a > b) - (a < b)
    if ta == 'array':
        for x, y in zip(a, b):
            c = ref_compare(x, y)
            if c:
                return c
        return (len(a) > len(b)) - (len(a) < len(b))
    if ta == 'object':
        ka, kb = sorted(a), sorted(b)
        for x, y in zip(ka, kb):
            c = ref_compare(x, y) or ref_compare(a[x], b[y])
            if c:
                return c
        return (len(ka) > len(kb)) - (len(ka) < len(kb))
    return 0


def _k(x):
    return x['k'] if isinstance(x, dict) and is_num(x.get('k')) else 0.0


# (name, body lines of `function name(a, b)`, reference (a, b) -> number, domain of the elements)
COMPARATORS = [
    ('cAsc', ['return a - b'], lambda a, b: a - b, 'num'),
    ('cDesc', ['return b - a'], lambda a, b: b - a, 'num'),
    ('cQuarter', ['return (a - b) / 4'], lambda a, b: (a - b) / 4, 'num'),            # results strictly between -1 and 1
    ('cScaled', ['return (a - b) * 1000'], lambda a, b: (a - b) * 1000, 'num'),
    ('cSign', ['if a < b:', '    return 0 - 1', 'endif', 'return if(a > b, 1, 0)'], lambda a, b: (a > b) - (a < b), 'num'),
    ('cLen', ['return stringLength(a) - stringLength(b)'], lambda a, b: len(a) - len(b), 'str'),
    ('cLenHalf', ['return (stringLength(b) - stringLength(a)) / 2'], lambda a, b: (len(b) - len(a)) / 2, 'str'),
    ('cKey', ["return objectGet(a, 'k') - objectGet(b, 'k')"], lambda a, b: _k(a) - _k(b), 'rec'),
    ('cKeyTenth', ["return (objectGet(b, 'k') - objectGet(a, 'k')) / 8"], lambda a, b: (_k(b) - _k(a)) / 8, 'rec'),
    ('cSys', ['return systemCompare(a, b)'], ref_compare, 'any'),
    ('cSysRev', ['return systemCompare(b, a)'], lambda a, b: ref_compare(b, a), 'any'),
    ('cSysHalf', ['return systemCompare(a, b) / 2'], lambda a, b: ref_compare(a, b) / 2, 'any'),
    ('cEqual', ['return 0'], lambda a, b: 0, 'any'),
]
COMPARATOR_PRELUDE = '\n'.join(f'function {name}(a, b):\n' + '\n'.join('    ' + ln for ln in body) + '\nendfunction'
                               for name, body, _, _ in COMPARATORS)
COMPARATOR_REF = {c[0]: c[2] for c in COMPARATORS}
_CMP_CACHE = {}


def comparator(name, host):
    mods = fw.impl()
    if _CMP_CACHE.get('mods') is not mods:
        glob = {}
        mods['runtime'].execute_script(mods['parser'].parse_script(COMPARATOR_PRELUDE), {'globals': glob, 'maxStatements': 10000})
        _CMP_CACHE.update(mods=mods, script={c[0]: glob[c[0]] for c in COMPARATORS})
    if host:
        ref = COMPARATOR_REF[name]
        return lambda args, unused_options: ref(args[0], args[1])
    return _CMP_CACHE['script'][name]


def sort_failures(case):
    """case = {'heap': cells, 'arr': protocol value of the first argument, 'cmp': None (no second argument) | 'null' | comparator name |
    'host:' + name | {'wrong': protocol scalar}, 'surplus': bool}  ->  [(oracle, expected, actual)]"""
    impl = fw.impl()
    _, env, val = build_pool({'heap': case['heap'], 'env': [case['arr']]})
    arr = env[0]
    glob = {'a': arr, 'alias': arr}
    cmp_ = case.get('cmp')
    ref = None
    call = 'arraySort(a'
    if cmp_ is not None:
        call += ', f'
        if cmp_ == 'null':
            glob['f'] = None
        elif isinstance(cmp_, dict):
            glob['f'] = val(cmp_['wrong'])
        else:
            name = cmp_[5:] if cmp_.startswith('host:') else cmp_
            glob['f'] = comparator(name, cmp_.startswith('host:'))
            ref = COMPARATOR_REF[name]
    if case.get('surplus'):
        call += ', null' if cmp_ is not None else ', null, null'
    fails = not isinstance(arr, list) or isinstance(cmp_, dict) or bool(case.get('surplus'))
    before = list(arr) if isinstance(arr, list) else []
    contents = [canon_state([e]) for e in before]
    nelem = len(before)
    try:
        impl['runtime'].execute_script(impl['parser'].parse_script(f'r = {call})\nn = arrayLength(alias)'),
                                       {'globals': glob, 'maxStatements': 100 + 50 * nelem * nelem})
    except Exception as exc:  # pylint: disable=broad-except
        return [('no-exception-escapes', 'the call evaluates to a value', f'{type(exc).__name__}: {exc}')]
    r = glob.get('r')
    bad = []
    if glob.get('a') is not arr or glob.get('alias') is not arr:
        bad.append(('identity-kept', 'variables keep their containers', 'a variable was rebound'))
    if isinstance(arr, list):
        if [canon_state([e]) for e in before] != contents:
            bad.append(('frame', 'no element of the array is touched', 'an element changed'))
        if sorted(id(e) if isinstance(e, (list, dict)) else -1 for e in arr) != sorted(id(e) if isinstance(e, (list, dict)) else -1 for e in before) \
           or sorted(json.dumps(scalar_proto(e), sort_keys=True) for e in arr if not isinstance(e, (list, dict))) != \
              sorted(json.dumps(scalar_proto(e), sort_keys=True) for e in before if not isinstance(e, (list, dict))) \
           or glob.get('n') != len(before):
            bad.append(('sort-is-a-permutation', canon_state([before]), canon_state([arr])))
    if fails:
        if r is not None:
            bad.append(('failure-value', None, canon_state([r])))
        if len(arr if isinstance(arr, list) else []) != nelem or any(x is not y for x, y in zip(arr if isinstance(arr, list) else [], before)):
            bad.append(('failure-leaves-arguments-unchanged', canon_state([before]), canon_state([arr])))
    elif not bad:
        if r is not arr:
            bad.append(('sort-returns-the-passed-array', 'the array passed (sorted in place, seen through every alias)', canon_state([arr, r])))
        order = ref or ref_compare
        for i in range(len(arr) - 1):
            if order(arr[i], arr[i + 1]) > 0:
                bad.append(('sort-orders-adjacent-elements', {'position': i, 'compare(r[i], r[i+1])': '<= 0'},
                            {'result': canon_state([arr]), 'compare(r[i], r[i+1])': str(order(arr[i], arr[i + 1]))}))
                break
    return bad


SORT_NUMS = [{'n': [i, 1]} for i in range(-3, 10)] + [{'n': [i, 2]} for i in (-3, -1, 1, 3, 5)] + [{'n': [i, 4]} for i in (-1, 1, 3, 5, 7, 9)] + \
            [{'n': [1, 8]}, {'n': [3, 8]}, {'n': [1000001, 1000]}]
SORT_TYPES = ['null', 'boolean', 'number', 'string', 'datetime', 'array', 'object', 'function', 'regex']
SORT_ARRAYS = [[], [{'n': [0, 1]}], [{'n': [0, 1]}, {'n': [1, 1]}], [{'s': 'a'}], [None], [True], [{'n': [1, 2]}]]
SORT_OBJECTS = [[], [['a', {'n': [1, 1]}]], [['a', {'n': [2, 1]}]], [['b', {'n': [0, 1]}]], [['b', {'n': [0, 1]}], ['a', {'n': [1, 1]}]], [['a', None]]]


def sort_cases(rng, n):
    def elem(t, heap):
        if t == 'null':
            return None
        if t == 'boolean':
            return rng.random() < 0.5
        if t == 'number':
            return rng.choice(SORT_NUMS)
        if t == 'string':
            return {'s': rand_string(rng, WIDE if rng.random() < 0.3 else ALPHABET)}
        if t == 'datetime':
            return {'dt': rng.choice(DTS + [1, 86400000, -1000])}
        if t == 'array':
            heap.append({'arr': list(rng.choice(SORT_ARRAYS))})
            return {'a': len(heap) - 1}
        if t == 'object':
            heap.append({'obj': [list(kv) for kv in rng.choice(SORT_OBJECTS)]})
            return {'o': len(heap) - 1}
        return {'f': rng.randrange(2)} if t == 'function' else {'re': rng.randrange(2)}

    def finish(heap, elems, cmp_, **extra):
        heap.append({'arr': elems})
        case = {'heap': heap, 'arr': {'a': len(heap) - 1}, 'cmp': cmp_}
        case.update(extra)
        return case
    by_domain = {d: [c[0] for c in COMPARATORS if c[3] == d] for d in ('num', 'str', 'rec', 'any')}
    # every pair of value types (the same type twice included) in one array, default order and the same order through a call-back
    for i, t1 in enumerate(SORT_TYPES):
        for t2 in SORT_TYPES[i:]:
            for length in (2, 3, 5, 8):
                for cmp_ in (None, 'cSys'):
                    heap = []
                    elems = [elem(t1, heap), elem(t2, heap)] + [elem(rng.choice([t1, t2]), heap) for _ in range(length - 2)]
                    rng.shuffle(elems)
                    yield 'type-pair', finish(heap, elems, cmp_)
    for _ in range(n):
        heap = []
        r = rng.random()
        length = rng.choice([0, 1, 2, 2, 3, 3, 4, 5, 6, 8, 12])
        if r < 0.2:
            domain, elems = 'num', [rng.choice(SORT_NUMS) for _ in range(length)]
        elif r < 0.3:
            domain, elems = 'str', [elem('string', heap) for _ in range(length)]
        elif r < 0.42:
            domain, elems = 'rec', []
            for i in range(length):
                heap.append({'obj': [['k', rng.choice(SORT_NUMS)], ['id', {'n': [i, 1]}]]})
                elems.append({'o': len(heap) - 1})
        else:
            domain = 'any'
            types = rng.sample(SORT_TYPES, rng.choice([1, 2, 2, 2, 3, 3, 4, len(SORT_TYPES)]))
            elems = [elem(rng.choice(types), heap) for _ in range(length)]
        q = rng.random()
        if q < 0.3:
            cmp_ = rng.choice([None, None, 'null'])
            if domain == 'rec':
                cmp_ = rng.choice(by_domain['rec'])
        else:
            cmp_ = rng.choice(by_domain[domain] + (by_domain['any'] if rng.random() < 0.3 else []))
            if rng.random() < 0.3:
                cmp_ = 'host:' + cmp_
        q = rng.random()
        if q < 0.04:
            yield 'surplus', finish(heap, elems, cmp_, surplus=True)
        elif q < 0.10:
            yield 'wrong-compare', finish(heap, elems, {'wrong': rng.choice([False, True, {'n': [0, 1]}, {'n': [1, 1]}, {'s': ''}, {'s': 'cAsc'}, {'dt': 0}, {'re': 0}])})
        elif q < 0.13:
            yield 'not-an-array', {'heap': heap, 'arr': rng.choice([None, True, {'n': [1, 1]}, {'s': 'ba'}, {'dt': 0}, {'f': 0}, {'re': 0}]), 'cmp': cmp_}
        else:
            yield domain, finish(heap, elems, cmp_)


def stream_sort(ctx):
    st = ctx.stream('sort', 'arraySort (implementation-only oracle, the function is outside the Lean model): arrays of 0..12 elements - numbers '
                            '(integral, halves, quarters, eighths), strings, records {k, id}, every pair of value types and mixtures of 1..9 of them with nested arrays / '
                            f'objects - without compare function / with null / with one of {len(COMPARATORS)} script-defined compare functions or '
                            'their host twins (results negative / 0 / positive, fractional between -1 and 1, scaled), wrong-typed compare '
                            'function, surplus argument, non-array: returns the passed array, permutation by identity, adjacent elements in '
                            'order by the reference comparison, elements untouched, failure = null and order unchanged; '
                            'non-trivial = at least 2 elements')
    rng = ctx.rng('sort')
    for kind, case in sort_cases(rng, ctx.scale(2500, 40000)):
        cell = case['heap'][case['arr']['a']] if isinstance(case['arr'], dict) and 'a' in case['arr'] else {'arr': []}
        cmp_ = case.get('cmp')
        st.case(case, nontrivial=len(cell['arr']) >= 2,
                tags=[kind, 'cmp:' + ('none' if cmp_ is None else 'wrong' if isinstance(cmp_, dict) else cmp_), f'len{min(len(cell["arr"]), 8)}'])
        for oracle, want, got in sort_failures(case):
            ctx.witness(oracle, {'sort': case}, want, got)


def streams(ctx):
    stream_args(ctx)
    stream_index(ctx)
    stream_callbacks(ctx)
    stream_sort(ctx)
    text_oracles(ctx)
    answered = stream_lib(ctx)
    stream_lib_through_machine(ctx, answered)


def search(ctx):
    """Something no longer checks: look harder for a history on which implementation and reference differ."""
    rng = ctx.rng('search')
    # 1. the disagreeing cases themselves
    for d in ctx.disagreements:
        if d and isinstance(d.get('case'), dict) and 'spec' in d['case']:
            wit, _, info = check_history(d['case']['spec'])
            for oracle, k, want, got in wit:
                ctx.witness(oracle, {'spec': d['case']['spec'], 'step': k, 'script': info['script']}, want, got)
            if ctx.witnesses:
                return
    # 2. the systematic argument cases, 3. many short histories with a high rate of bad arguments and edge indices
    specs = []
    for fn, _, args in args_cases():
        spec = copy.deepcopy(ARGS_POOL)
        spec['calls'] = [{'fn': fn, 'args': args}]
        specs.append(spec)
    specs += [spec for _, spec in callback_specs(rng, ctx.scale(1000, 10000))]
    specs += [gen_history(rng, maxlen=12, p_bad=0.3) for _ in range(ctx.scale(4000, 40000))]
    for spec in specs:
        wit, _, info = check_history(spec)
        for oracle, k, want, got in wit:
            ctx.witness(oracle, {'spec': spec, 'step': k, 'script': info['script']}, want, got)
        if ctx.witnesses:
            return
    for _, case in sort_cases(rng, ctx.scale(5000, 50000)):
        for oracle, want, got in sort_failures(case):
            ctx.witness(oracle, {'sort': case}, want, got)
        if ctx.witnesses:
            return
    impl = fw.impl()
    script = impl['parser'].parse_script('e = regexEscape(s)\nu = urlEncode(s)\nc = urlEncodeComponent(s)')
    for _ in range(5000):
        s = rand_string(rng, WIDE, 10)
        glob = {'s': s}
        impl['runtime'].execute_script(script, {'globals': glob, 'maxStatements': 100})
        for oracle, want, actual in text_failures(s, [glob.get('e'), glob.get('u'), glob.get('c')], rng):
            ctx.witness(oracle, {'s': s}, want, actual)
            return


def replay(witness):
    inp = witness['input']
    if 'sort' in inp:
        return bool(sort_failures(inp['sort']))
    if 'spec' in inp:
        wit, _, _ = check_history(inp['spec'])
        return bool(wit)
    impl = fw.impl()
    script = impl['parser'].parse_script('e = regexEscape(s)\nu = urlEncode(s)\nc = urlEncodeComponent(s)')
    glob = {'s': inp['s']}
    try:
        impl['runtime'].execute_script(script, {'globals': glob, 'maxStatements': 100})
    except Exception:  # pylint: disable=broad-except
        return True
    return bool(text_failures(inp['s'], [glob.get('e'), glob.get('u'), glob.get('c')], fw.rng_for(0, 'C15', 'replay')))


LEVEL_TEXT = ('Theorems over a heap model (arrays/objects as shared cells) for ALL heaps, argument lists and call histories: frame (only the '
              'first argument of the nine mutators can change, everything else keeps contents), freshness (copies/slices/new containers '
              'are new cells), failing calls return the documented failure value and leave the heap unchanged, the Python-shaped bodies '
              '(float indices, int() truncation, negative wrap-around, clamping slices, range loops, find/rfind bounds) equal reference '
              'operations on natural indices (lib_spec_partial), lifted to histories by induction; re.escape output is a literal-atom pattern for '
              'exactly its argument; percent-decoding urllib.parse.quote output gives back the UTF-8 bytes. Argument models, failure '
              'values, URL safe sets, re.escape specials are regenerated from the working tree on every run and must equal the '
              'documented tables (decide). The model is tied to library.py by histories executed through scripts and checked against '
              'an independent pure-Python reference after every call. The same model is the library of the jump machine '
              '(HostLib.hostLib: Machine.Value and Lib.Value are isomorphic, a modelled library call of the machine is exactly one Lib.step), '
              'so frame, freshness and failure hold for calls issued through Machine.callValue (machine_lib_frame/_fresh/_fail_unchanged: '
              'nothing but the first argument of a mutator changes - no other cell, no global, no log line, not the statement counter) and any '
              'straight-line script of library calls run by execM\u2080 / Machine.execute reaches the state Lib.runHistory (= the fold of the '
              'reference operations) describes (machine_history_refines); tied by the lib-through-machine stream (script text executed by '
              'the implementation and by the Lean machine over hostLib).')
LEVEL_NOTE = ('Trusted: Lean kernel; extract.py; the correspondence harness and its reference Ref. Modelled not verified: CPython str/list/dict '
              'primitives, re.escape, urllib.parse.quote (tables re-extracted). The match-function form of arrayIndexOf/arrayLastIndexOf is '
              'outside the Lean model (Eff.unmodelled: the model takes the result from the implementation and still checks that the heap is '
              'untouched); its contract - first / last index whose call-back result is true by the language\'s truth rules, for script-defined '
              'and host call-backs returning every value class - is correspondence-strength: Python reference (match_pred / ref_truthy) in the '
              'callbacks, lib and args streams. Unmodelled (skipped, counted in evidence): arrayJoin over non-integral numbers/datetimes/containers, stringLower/Upper on '
              'non-ASCII, surrogate code points, cyclic containers (F18), stringNew. arraySort is outside the Lean model too (its order is the subject '
              'of C11); the sort stream checks it on the implementation only: the passed array is returned, permuted in place, adjacent '
              'elements in order by the compare call-back (script-defined / host, fractional results) or the reference comparison, '
              'failure = null and nothing moves; stability is not demanded. For string functions whose body already is '
              'a plain code-point operation (startsWith, endsWith, split, replace, trim, lower/upper) the reference IS the modelled '
              'primitive: their contract is correspondence-strength (lib stream + Python reference), not a theorem. Machine level: the '
              'bridge theorems assume the call is one Lib models (decidable predicate Modelled / AllModelled); an unmodelled call falls back to '
              'the HostImpl tree for systemLog, systemGlobalGet/Set, systemPartial, systemCompare, systemType, systemBoolean and the '
              'predicate form of arrayIndexOf (machine_lib_heap: the heap is untouched unless a script call-back changes it) and to the '
              'wrapper\'s null for every other name (machine_lib_unmodelled); history arguments are variables or null/boolean/number/string '
              'literals (ArgOK).')
